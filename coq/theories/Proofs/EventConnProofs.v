(* Proofs about Model/EventConn.v (C18): the read window always equals the received-but-unconsumed part of the
   stream; write puts exactly the message on the wire; the writing flag gives mutual exclusion and contiguous
   events for every schedule. *)
From Coq Require Import List ZArith Lia Bool Arith.
From Shm Require Import Model.EventConn.
Import ListNotations.
Open Scope Z_scope.

(* ---------------------------------------------------------------------------------------------- *)
(* slices                                                                                          *)
(* ---------------------------------------------------------------------------------------------- *)
Lemma zlen_app {A} (a b : list A) : zlen (a ++ b) = zlen a + zlen b.
Proof. unfold zlen. rewrite app_length. lia. Qed.
Lemma zlen_nonneg {A} (a : list A) : 0 <= zlen a.
Proof. unfold zlen. lia. Qed.
Lemma zlen_zeros n : 0 <= n -> zlen (zeros n) = n.
Proof. intros H. unfold zlen, zeros. rewrite repeat_length. lia. Qed.
Lemma zlen_firstn {A} (n : nat) (l : list A) : zlen (firstn n l) = Z.min (Z.of_nat n) (zlen l).
Proof. unfold zlen. rewrite firstn_length. lia. Qed.
Lemma zlen_skipn {A} (n : nat) (l : list A) : zlen (skipn n l) = zlen l - Z.min (Z.of_nat n) (zlen l).
Proof. unfold zlen. rewrite skipn_length. lia. Qed.

Lemma zlen_slice l a b : 0 <= a <= b -> b <= zlen l -> zlen (slice l a b) = b - a.
Proof. intros H1 H2. unfold slice. rewrite zlen_firstn, zlen_skipn. lia. Qed.

Lemma firstn_add {A} (a k : nat) (l : list A) : firstn a l ++ firstn k (skipn a l) = firstn (a + k) l.
Proof.
  revert l. induction a as [|a IH]; intros l; cbn [firstn skipn Nat.add app]; [reflexivity|].
  destruct l as [|x l]; [now rewrite firstn_nil | cbn [firstn app]; now rewrite IH].
Qed.
Lemma skipn_add {A} (a k : nat) (l : list A) : skipn k (skipn a l) = skipn (a + k) l.
Proof.
  revert l. induction a as [|a IH]; intros l; cbn [skipn Nat.add]; [reflexivity|].
  destruct l as [|x l]; [now rewrite skipn_nil | apply IH].
Qed.
Lemma firstn_app_le {A} (n : nat) (l m : list A) : (n <= length l)%nat -> firstn n (l ++ m) = firstn n l.
Proof.
  intros H. rewrite firstn_app. replace (n - length l)%nat with 0%nat by lia. cbn [firstn]. apply app_nil_r.
Qed.
Lemma skipn_app_le {A} (n : nat) (l m : list A) : (n <= length l)%nat -> skipn n (l ++ m) = skipn n l ++ m.
Proof. intros H. rewrite skipn_app. replace (n - length l)%nat with 0%nat by lia. reflexivity. Qed.

Lemma slice_join l a b c : 0 <= a <= b -> b <= c -> slice l a b ++ slice l b c = slice l a c.
Proof.
  intros H1 H2. unfold slice.
  replace (Z.to_nat b) with (Z.to_nat a + Z.to_nat (b - a))%nat by lia.
  rewrite <- skipn_add. rewrite firstn_add. f_equal. lia.
Qed.
Lemma slice_skip l a b k : 0 <= a -> 0 <= k -> a + k <= b -> skipn (Z.to_nat k) (slice l a b) = slice l (a + k) b.
Proof.
  intros H1 H2 H3. unfold slice. rewrite skipn_firstn_comm. rewrite skipn_add. f_equal; [lia | f_equal; lia].
Qed.
Lemma slice_app_l l m a b : 0 <= a <= b -> b <= zlen l -> slice (l ++ m) a b = slice l a b.
Proof.
  intros H1 H2. unfold slice. unfold zlen in H2. rewrite skipn_app_le by lia.
  rewrite firstn_app_le; [reflexivity|]. rewrite skipn_length. lia.
Qed.
Lemma slice_full l : slice l 0 (zlen l) = l.
Proof. unfold slice, zlen. cbn [Z.to_nat skipn]. rewrite Z.sub_0_r, Nat2Z.id. apply firstn_all. Qed.
Lemma slice_empty l a : slice l a a = [].
Proof. unfold slice. now rewrite Z.sub_diag. Qed.
Lemma slice_firstn l n a b : 0 <= a <= b -> b <= Z.of_nat n -> slice (firstn n l) a b = slice l a b.
Proof.
  intros H1 H2. unfold slice. rewrite skipn_firstn_comm. rewrite firstn_firstn. f_equal. lia.
Qed.

(* the kernel stores d at position e: the window [s, e) grows by d *)
Lemma slice_store l d s e : 0 <= s <= e -> e + zlen d <= zlen l ->
  slice (firstn (Z.to_nat e) l ++ d ++ skipn (Z.to_nat (e + zlen d)) l) s (e + zlen d) = slice l s e ++ d.
Proof.
  intros H1 H2. pose proof (zlen_nonneg d) as Hd.
  rewrite <- (slice_join _ s e (e + zlen d)) by lia. f_equal.
  - rewrite slice_app_l; [apply slice_firstn; lia | lia | rewrite zlen_firstn; lia].
  - unfold slice. rewrite skipn_app.
    assert (L : length (firstn (Z.to_nat e) l) = Z.to_nat e) by (rewrite firstn_length; unfold zlen in H2; lia).
    rewrite L, Nat.sub_diag. rewrite skipn_all2 by lia. cbn [skipn app].
    replace (Z.to_nat (e + zlen d - e)) with (length d) by (unfold zlen; lia).
    rewrite firstn_app_le by lia. apply firstn_all.
Qed.

(* ---------------------------------------------------------------------------------------------- *)
(* read side                                                                                       *)
(* ---------------------------------------------------------------------------------------------- *)
Definition cfg_ok (c : cfg) : Prop := 0 < init_len c /\ 1 <= shrink_limit c.

Record rinv (stream : list Z) (s : rstate) : Prop := {
  ri_geom : 0 <= g_start (geo (rb s)) <= g_end (geo (rb s)) /\ g_end (geo (rb s)) <= g_len (geo (rb s))
            /\ 0 < g_len (geo (rb s));
  ri_len : zlen (content (rb s)) = g_len (geo (rb s));
  ri_count : g_end (geo (rb s)) - g_start (geo (rb s)) = received s - consumed s
             /\ 0 <= consumed s /\ received s <= zlen stream;
  ri_window : r_window (rb s) = slice stream (consumed s) (received s) }.

Lemma rinv_init c stream : cfg_ok c -> rinv stream (r_state0 c).
Proof.
  intros [H1 H2]. constructor; unfold r_window;
    cbn [r_state0 rb r_init geo g_init g_start g_end g_len content received consumed].
  - lia.
  - apply zlen_zeros. lia.
  - pose proof (zlen_nonneg stream). lia.
  - now rewrite !slice_empty.
Qed.

(* maybeExpandReadBuffer keeps the window and leaves room for at least one byte *)
Lemma expand_props b :
  0 <= g_start (geo b) <= g_end (geo b) -> g_end (geo b) <= g_len (geo b) -> 0 < g_len (geo b) ->
  zlen (content b) = g_len (geo b) ->
  let b' := r_expand b in
  geo b' = g_expand (geo b) /\
  0 <= g_start (geo b') <= g_end (geo b') /\ g_end (geo b') < g_len (geo b') /\
  zlen (content b') = g_len (geo b') /\
  g_end (geo b') - g_start (geo b') = g_end (geo b) - g_start (geo b) /\
  r_window b' = r_window b.
Proof.
  intros H1 H2 H3 H4. cbv zeta. unfold r_expand, g_expand.
  destruct (g_len (geo b) - g_end (geo b) =? 0) eqn:E.
  - apply Z.eqb_eq in E. cbn [geo content g_start g_end g_len].
    assert (K : zlen (slice (content b) (g_start (geo b)) (g_end (geo b))) = g_end (geo b) - g_start (geo b))
      by (apply zlen_slice; lia).
    repeat split; try lia.
    + rewrite zlen_app, K, zlen_zeros; lia.
    + unfold r_window. cbn [geo content g_start g_end g_len].
      rewrite slice_app_l by lia. rewrite <- K at 1. apply slice_full.
  - apply Z.eqb_neq in E. repeat split; try lia.
Qed.

Lemma rinv_step c stream s o s' : cfg_ok c -> rinv stream s -> r_step c stream s o = Some s' -> rinv stream s'.
Proof.
  intros [C1 C2] [(G1 & G2 & G3) L (N1 & N2 & N3) W]. destruct o as [n | k]; cbn [r_step].
  - destruct (expand_props (rb s) G1 G2 G3 L) as (EG & E1 & E2 & E3 & E4 & E5).
    set (b := r_expand (rb s)) in *.
    destruct ((1 <=? n) && (n <=? g_room (geo b)) && (received s + n <=? zlen stream)) eqn:Pre; [|discriminate].
    apply andb_prop in Pre. destruct Pre as [Pre P3]. apply andb_prop in Pre. destruct Pre as [P1 P2].
    apply Z.leb_le in P1, P2, P3. unfold g_room in P2.
    intros X; inversion X; subst; clear X.
    assert (SL : zlen (slice stream (received s) (received s + n)) = n) by (rewrite zlen_slice; lia).
    constructor; cbn [rb received consumed r_read geo content g_read g_start g_end g_len]; rewrite ?SL.
    + lia.
    + rewrite !zlen_app, zlen_firstn, zlen_skipn, SL. lia.
    + lia.
    + unfold r_window. cbn [geo content r_read g_read g_start g_end g_len]. rewrite SL.
      rewrite <- SL at 2 3. rewrite slice_store by (rewrite ?SL; lia).
      fold (r_window b). rewrite E5, W. apply slice_join; lia.
  - destruct ((0 <=? k) && (k <=? g_window (geo (rb s)))) eqn:Pre; [|discriminate].
    apply andb_prop in Pre. destruct Pre as [P1 P2]. apply Z.leb_le in P1, P2. unfold g_window in P2.
    intros X; inversion X; subst; clear X.
    unfold r_commit, g_commit. cbn [rb received consumed].
    destruct (g_start (geo (rb s)) + k =? g_end (geo (rb s))) eqn:E.
    + apply Z.eqb_eq in E.
      assert (HL : 0 < (if g_len (geo (rb s)) >? shrink_limit c then g_len (geo (rb s)) / 2 else g_len (geo (rb s)))
                   <= g_len (geo (rb s))).
      { destruct (g_len (geo (rb s)) >? shrink_limit c) eqn:S; [|lia]. apply Z.gtb_lt in S.
        split; [apply Z.div_str_pos; lia | apply Z.div_le_upper_bound; lia]. }
      constructor; cbn [geo content g_start g_end g_len rb received consumed].
      * lia.
      * rewrite zlen_firstn. lia.
      * lia.
      * unfold r_window. cbn [geo content g_start g_end g_len]. rewrite slice_empty.
        replace (consumed s + k) with (received s) by lia. now rewrite slice_empty.
    + apply Z.eqb_neq in E.
      constructor; cbn [geo content g_start g_end g_len rb received consumed].
      * lia.
      * rewrite zlen_firstn. lia.
      * lia.
      * unfold r_window. cbn [geo content g_start g_end g_len].
        rewrite slice_firstn by lia.
        rewrite <- slice_skip by lia. fold (r_window (rb s)). rewrite W. apply slice_skip; lia.
Qed.

Theorem read_inv c stream : cfg_ok c -> forall ops s s', rinv stream s -> r_run c stream s ops = Some s' -> rinv stream s'.
Proof.
  intros C. induction ops as [|o r IH]; intros s s' I; cbn [r_run].
  - intros X; inversion X; subst; exact I.
  - destruct (r_step c stream s o) as [s1|] eqn:S; [|discriminate].
    apply IH. eapply rinv_step; eauto.
Qed.

Theorem read_window c stream ops s' : cfg_ok c ->
  r_run c stream (r_state0 c) ops = Some s' ->
  r_window (rb s') = skipn (Z.to_nat (consumed s')) (firstn (Z.to_nat (received s')) stream)
  /\ 0 <= consumed s' <= received s' /\ received s' <= zlen stream.
Proof.
  intros C R. pose proof (read_inv c stream C ops _ _ (rinv_init c stream C) R) as [(G1 & G2 & G3) L (N1 & N2 & N3) W].
  split; [|lia]. rewrite W. unfold slice. rewrite skipn_firstn_comm. f_equal. lia.
Qed.

(* ---------------------------------------------------------------------------------------------- *)
(* write side                                                                                      *)
(* ---------------------------------------------------------------------------------------------- *)
Definition winv (data : list Z) (w : wstate) : Prop :=
  0 <= written w <= zlen data /\ wire w = firstn (Z.to_nat (written w)) data.

Lemma write_loop_unfold data w ks :
  write_loop data w ks =
  if written w >=? zlen data then Some {| written := written w; wire := wire w; wres := WDone |}
  else match ks with
       | [] => Some w
       | KEagain :: r => write_loop data w r
       | KFail :: _ => Some {| written := written w; wire := wire w; wres := WFailed |}
       | KAccept k :: r =>
         if (1 <=? k) && (k <=? zlen data - written w)
         then write_loop data {| written := written w + k;
                                 wire := wire w ++ firstn (Z.to_nat k) (skipn (Z.to_nat (written w)) data);
                                 wres := WPending |} r
         else None
       end.
Proof. destruct ks; reflexivity. Qed.

(* whatever the kernel does, the wire holds exactly the first [written] bytes of the message; the loop reports
   success exactly when the whole message is on the wire, and never writes past it *)
Theorem write_inv data : forall ks w w', winv data w -> wres w = WPending -> write_loop data w ks = Some w' ->
  winv data w' /\
  (wres w' = WDone -> written w' = zlen data /\ wire w' = data) /\
  (wres w' = WPending -> written w' < zlen data).
Proof.
  assert (Done : forall w, winv data w -> written w >= zlen data -> written w = zlen data /\ wire w = data).
  { intros w [B Wi] G. split; [lia|]. rewrite Wi.
    replace (Z.to_nat (written w)) with (length data) by (unfold zlen in *; lia). apply firstn_all. }
  induction ks as [|a r IH]; intros w w' I P; rewrite write_loop_unfold;
    (destruct (written w >=? zlen data) eqn:E;
     [ apply Z.geb_le in E; intros X; inversion X; subst; clear X; cbn [written wire wres];
       split; [exact I|]; split; [intros _; apply Done; [exact I | lia] | discriminate] | ]).
  - intros X; inversion X; subst; clear X. split; [exact I|]. rewrite P. split; [discriminate|].
    intros _. destruct (Z.geb_spec (written w') (zlen data)); [discriminate | lia].
  - assert (LT : written w < zlen data) by (destruct (Z.geb_spec (written w) (zlen data)); [discriminate | lia]).
    destruct a as [k | | ].
    + destruct ((1 <=? k) && (k <=? zlen data - written w)) eqn:Pre; [|discriminate].
      apply andb_prop in Pre. destruct Pre as [P1 P2]. apply Z.leb_le in P1, P2.
      apply IH; [|reflexivity]. destruct I as [B Wi]. split; cbn [written wire]; [lia|].
      rewrite Wi. rewrite firstn_add. f_equal. lia.
    + apply IH; assumption.
    + intros X; inversion X; subst; clear X. cbn [written wire wres].
      split; [exact I|]. split; discriminate.
Qed.

Theorem write_exact data ks w' : write data ks = Some w' ->
  wire w' = firstn (Z.to_nat (written w')) data /\ 0 <= written w' <= zlen data /\
  (wres w' = WDone <-> written w' = zlen data) /\ (wres w' = WDone -> wire w' = data).
Proof.
  unfold write. intros R.
  assert (I0 : winv data {| written := 0; wire := []; wres := WPending |}).
  { split; cbn [written wire]; [pose proof (zlen_nonneg data); lia | reflexivity]. }
  pose proof R as R'. apply (write_inv data ks _ _ I0 eq_refl) in R. destruct R as ([B Wi] & D & P).
  split; [exact Wi|]. split; [exact B|]. split; [|intros X; now apply D].
  split; [intros X; now apply D|]. intros F.
  (* written = size: the loop has returned nil, unless the kernel failed in the very last call -- which cannot
     happen once everything is written because the loop test comes first *)
  destruct (wres w') eqn:W; [reflexivity | | specialize (P eq_refl); lia].
  exfalso. clear D P I0.
  revert R' F W. generalize {| written := 0; wire := []; wres := WPending |} as w.
  induction ks as [|a r IH]; intros w; rewrite write_loop_unfold;
    (destruct (written w >=? zlen data) eqn:E; [intros X; inversion X; subst; discriminate|]).
  - intros X; inversion X; subst; clear X. intros F _.
    destruct (Z.geb_spec (written w') (zlen data)); [discriminate | lia].
  - destruct a as [k | | ].
    + destruct ((1 <=? k) && (k <=? zlen data - written w)); [apply IH | discriminate].
    + apply IH.
    + intros X; inversion X; subst; clear X. cbn [written]. intros F _.
      destruct (Z.geb_spec (written w) (zlen data)); [discriminate | lia].
Qed.

(* ---------------------------------------------------------------------------------------------- *)
(* the writing flag                                                                                *)
(* ---------------------------------------------------------------------------------------------- *)
Lemma nth_error_upd_same {A} (l : list A) i x : (i < length l)%nat -> nth_error (upd l i x) i = Some x.
Proof.
  revert i. induction l as [|y r IH]; intros i H; cbn in H; [lia|].
  destruct i; cbn [upd nth_error]; [reflexivity | apply IH; lia].
Qed.
Lemma nth_error_upd_other {A} (l : list A) i j x : i <> j -> nth_error (upd l i x) j = nth_error l j.
Proof.
  revert i j. induction l as [|y r IH]; intros i j H; [destruct i; reflexivity|].
  destruct i, j; cbn [upd nth_error]; try reflexivity; [congruence | apply IH; congruence].
Qed.
Lemma upd_length {A} (l : list A) i x : length (upd l i x) = length l.
Proof. revert i. induction l as [|y r IH]; intros i; [destruct i; reflexivity|]. destruct i; cbn; [reflexivity | now rewrite IH]. Qed.

Inductive blocks (nfrag : evid -> nat) : list frag -> Prop :=
| blocks_nil : blocks nfrag []
| blocks_snoc done ev : blocks nfrag done -> blocks nfrag (done ++ block ev (nfrag ev)).

Definition part_fw (w : fw) : list frag := match f_pc w with FInCS ev k => block ev k | _ => [] end.
Definition part_sl (p : spc) : list frag := match p with SInCS ev k => block ev k | _ => [] end.
Definition partial (s : mstate) : list frag :=
  match owner s with
  | None => []
  | Some TSend => part_sl (sl s)
  | Some (TFast i) => match nth_error (fws s) i with Some w => part_fw w | None => [] end
  end.
Definition fw_bound (nfrag : evid -> nat) (w : fw) : Prop :=
  match f_pc w with FInCS ev k => (k <= nfrag ev)%nat | _ => True end.
Definition sl_bound (nfrag : evid -> nat) (p : spc) : Prop :=
  match p with SInCS ev k => (k <= nfrag ev)%nat | _ => True end.

Record minv (nfrag : evid -> nat) (s : mstate) : Prop := {
  mi_flag : writing s = match owner s with Some _ => true | None => false end;
  mi_sl : sl_in_cs (sl s) = true <-> owner s = Some TSend;
  mi_fw : forall i w, nth_error (fws s) i = Some w -> (fw_in_cs w = true <-> owner s = Some (TFast i));
  mi_bound : sl_bound nfrag (sl s) /\ forall i w, nth_error (fws s) i = Some w -> fw_bound nfrag w;
  mi_wire : exists done, blocks nfrag done /\ mwire s = done ++ partial s }.

Lemma block_snoc ev k : block ev (S k) = block ev k ++ [(ev, k)].
Proof. unfold block. rewrite seq_S, map_app. reflexivity. Qed.

Lemma minv_init nfrag nfw : minv nfrag (m_init nfw).
Proof.
  constructor; cbn.
  - reflexivity.
  - split; discriminate.
  - intros i w H. apply nth_error_In in H. apply repeat_spec in H. subst. cbn. split; discriminate.
  - split; [exact I|]. intros i w H. apply nth_error_In in H. apply repeat_spec in H. subst. exact I.
  - exists []. split; [constructor | reflexivity].
Qed.

(* a step of the send loop between two states outside writeEventData (queue / token may change) *)
Lemma minv_sl_noncs nfrag s p' tk q wr :
  minv nfrag s -> wr = writing s -> sl_in_cs (sl s) = false -> sl_in_cs p' = false ->
  minv nfrag {| writing := wr; token := tk; sendq := q; sl := p'; fws := fws s; mwire := mwire s; owner := owner s |}.
Proof.
  intros [Fl Sl Fw [Bs Bf] (done & Bd & Wr)] -> C C'.
  assert (NO : owner s <> Some TSend) by (intros O; apply Sl in O; congruence).
  constructor; cbn [writing owner sl fws mwire].
  - exact Fl.
  - rewrite C'. split; [discriminate | intros O; congruence].
  - exact Fw.
  - split; [destruct p'; try exact I; discriminate | exact Bf].
  - exists done. split; [exact Bd|]. rewrite Wr. unfold partial. cbn [owner sl fws].
    destruct (owner s) as [[|j]|]; [congruence | reflexivity | reflexivity].
Qed.

(* a step of a fast-path writer between two states outside writeEventData *)
Lemma minv_fw_noncs nfrag s i w w' tk q wr :
  minv nfrag s -> wr = writing s -> nth_error (fws s) i = Some w -> fw_in_cs w = false -> fw_in_cs w' = false ->
  minv nfrag {| writing := wr; token := tk; sendq := q; sl := sl s; fws := upd (fws s) i w'; mwire := mwire s;
                owner := owner s |}.
Proof.
  intros [Fl Sl Fw [Bs Bf] (done & Bd & Wr)] -> N C C'.
  assert (IL : (i < length (fws s))%nat) by (apply nth_error_Some; congruence).
  assert (NO : owner s <> Some (TFast i)) by (intros O; apply (Fw i w N) in O; congruence).
  constructor; cbn [writing owner sl fws mwire].
  - exact Fl.
  - exact Sl.
  - intros j x H. destruct (Nat.eq_dec i j) as [<-|NE].
    + rewrite nth_error_upd_same in H by exact IL. inversion H; subst. rewrite C'. split; [discriminate | congruence].
    + rewrite nth_error_upd_other in H by exact NE. now apply Fw.
  - split; [exact Bs|]. intros j x H. destruct (Nat.eq_dec i j) as [<-|NE].
    + rewrite nth_error_upd_same in H by exact IL. inversion H; subst. unfold fw_bound. unfold fw_in_cs in C'.
      destruct (f_pc x); try exact I. discriminate.
    + rewrite nth_error_upd_other in H by exact NE. eapply Bf; eauto.
  - exists done. split; [exact Bd|]. rewrite Wr. unfold partial. cbn [owner sl fws].
    destruct (owner s) as [[|j]|]; try reflexivity.
    rewrite nth_error_upd_other by congruence. reflexivity.
Qed.

Lemma minv_step nfrag s t : minv nfrag s -> minv nfrag (m_step nfrag s t).
Proof.
  intros Inv. pose proof Inv as [Fl Sl Fw [Bs Bf] (done & Bd & Wr)]. destruct t as [|i]; cbn [m_step].
  - (* the send loop *)
    unfold step_sl. destruct (sl s) as [|ev|ev|ev k] eqn:PC.
    + destruct (sendq s) as [|ev r]; [exact Inv|].
      apply minv_sl_noncs; [exact Inv | congruence | now rewrite PC | reflexivity].
    + destruct (writing s) eqn:Wg.
      * apply minv_sl_noncs; [exact Inv | congruence | now rewrite PC | reflexivity].
      * assert (ON : owner s = None) by (destruct (owner s); [discriminate | reflexivity]).
        constructor; cbn [writing owner sl fws mwire].
        -- reflexivity.
        -- split; reflexivity.
        -- intros j w H. rewrite (Fw j w H), ON. split; discriminate.
        -- split; [cbn; lia | exact Bf].
        -- exists done. split; [exact Bd|]. rewrite Wr. unfold partial. rewrite ON. cbn [owner sl part_sl block seq map].
           reflexivity.
    + destruct (token s); [|exact Inv].
      apply minv_sl_noncs; [exact Inv | congruence | now rewrite PC | reflexivity].
    + assert (OS : owner s = Some TSend) by (apply Sl; reflexivity).
      destruct (k <? nfrag ev)%nat eqn:K.
      * apply Nat.ltb_lt in K.
        constructor; cbn [writing owner sl fws mwire].
        -- exact Fl.
        -- rewrite OS. split; reflexivity.
        -- exact Fw.
        -- split; [cbn; lia | exact Bf].
        -- exists done. split; [exact Bd|]. rewrite Wr. unfold partial. rewrite OS. cbn [owner sl].
           rewrite PC. cbn [part_sl]. rewrite block_snoc. now rewrite app_assoc.
      * apply Nat.ltb_ge in K. cbn in Bs. assert (k = nfrag ev) by lia. subst k.
        constructor; cbn [writing owner sl fws mwire].
        -- reflexivity.
        -- split; discriminate.
        -- intros j w H. rewrite (Fw j w H), OS. split; discriminate.
        -- split; [exact I | exact Bf].
        -- exists (done ++ block ev (nfrag ev)). split; [constructor; exact Bd|].
           rewrite Wr. unfold partial. rewrite OS, PC. cbn [owner part_sl]. now rewrite app_nil_r.
  - (* a fast-path writer *)
    unfold step_fw. destruct (nth_error (fws s) i) as [w|] eqn:N; [|exact Inv].
    assert (IL : (i < length (fws s))%nat) by (apply nth_error_Some; congruence).
    destruct (f_pc w) as [|ev k|] eqn:PC.
    + destruct (writing s) eqn:Wg.
      * eapply minv_fw_noncs; [exact Inv | congruence | exact N | unfold fw_in_cs; now rewrite PC | reflexivity].
      * assert (ON : owner s = None) by (destruct (owner s); [discriminate | reflexivity]).
        constructor; cbn [writing owner sl fws mwire].
        -- reflexivity.
        -- rewrite Sl, ON. split; discriminate.
        -- intros j w' H. destruct (Nat.eq_dec i j) as [<-|NE].
           ++ rewrite nth_error_upd_same in H by exact IL. inversion H; subst. cbn. split; reflexivity.
           ++ rewrite nth_error_upd_other in H by exact NE. rewrite (Fw j w' H), ON.
              split; [discriminate | intros X; inversion X; congruence].
        -- split; [exact Bs|]. intros j w' H. destruct (Nat.eq_dec i j) as [<-|NE].
           ++ rewrite nth_error_upd_same in H by exact IL. inversion H; subst. cbn. lia.
           ++ rewrite nth_error_upd_other in H by exact NE. eapply Bf; eauto.
        -- exists done. split; [exact Bd|]. rewrite Wr. unfold partial. rewrite ON. cbn [owner fws].
           rewrite nth_error_upd_same by exact IL. reflexivity.
    + assert (OS : owner s = Some (TFast i)).
      { apply (Fw i w N). unfold fw_in_cs. now rewrite PC. }
      pose proof (Bf i w N) as Bk. unfold fw_bound in Bk. rewrite PC in Bk.
      destruct (k <? nfrag ev)%nat eqn:K.
      * apply Nat.ltb_lt in K.
        constructor; cbn [writing owner sl fws mwire].
        -- exact Fl.
        -- exact Sl.
        -- intros j w' H. destruct (Nat.eq_dec i j) as [<-|NE].
           ++ rewrite nth_error_upd_same in H by exact IL. inversion H; subst. cbn. rewrite OS. split; reflexivity.
           ++ rewrite nth_error_upd_other in H by exact NE. now apply Fw.
        -- split; [exact Bs|]. intros j w' H. destruct (Nat.eq_dec i j) as [<-|NE].
           ++ rewrite nth_error_upd_same in H by exact IL. inversion H; subst. cbn. lia.
           ++ rewrite nth_error_upd_other in H by exact NE. eapply Bf; eauto.
        -- exists done. split; [exact Bd|]. rewrite Wr. unfold partial. rewrite OS. cbn [owner fws].
           rewrite N. rewrite nth_error_upd_same by exact IL. unfold part_fw. rewrite PC. cbn [f_pc].
           rewrite block_snoc. now rewrite app_assoc.
      * apply Nat.ltb_ge in K. assert (k = nfrag ev) by lia. subst k.
        constructor; cbn [writing owner sl fws mwire].
        -- reflexivity.
        -- rewrite Sl, OS. split; discriminate.
        -- intros j w' H. destruct (Nat.eq_dec i j) as [<-|NE].
           ++ rewrite nth_error_upd_same in H by exact IL. inversion H; subst. cbn. split; discriminate.
           ++ rewrite nth_error_upd_other in H by exact NE. rewrite (Fw j w' H), OS.
              split; [intros X; inversion X; congruence | discriminate].
        -- split; [exact Bs|]. intros j w' H. destruct (Nat.eq_dec i j) as [<-|NE].
           ++ rewrite nth_error_upd_same in H by exact IL. inversion H; subst. exact I.
           ++ rewrite nth_error_upd_other in H by exact NE. eapply Bf; eauto.
        -- exists (done ++ block ev (nfrag ev)). split; [constructor; exact Bd|].
           rewrite Wr. unfold partial. rewrite OS, N. unfold part_fw. rewrite PC. cbn [owner]. now rewrite app_nil_r.
    + eapply minv_fw_noncs; [exact Inv | congruence | exact N | unfold fw_in_cs; now rewrite PC | reflexivity].
Qed.

Theorem mutex_inv nfrag nfw sched : minv nfrag (m_run nfrag sched (m_init nfw)).
Proof.
  unfold m_run. generalize (minv_init nfrag nfw). generalize (m_init nfw).
  induction sched as [|t r IH]; intros s I; cbn [fold_left]; [exact I|].
  apply IH. now apply minv_step.
Qed.

(* two threads are never inside writeEventData together *)
Theorem mutex nfrag nfw sched :
  let s := m_run nfrag sched (m_init nfw) in
  (forall i j wi wj, nth_error (fws s) i = Some wi -> nth_error (fws s) j = Some wj ->
                     fw_in_cs wi = true -> fw_in_cs wj = true -> i = j) /\
  (forall i wi, nth_error (fws s) i = Some wi -> fw_in_cs wi = true -> sl_in_cs (sl s) = false) /\
  (writing s = false -> sl_in_cs (sl s) = false /\ forall i wi, nth_error (fws s) i = Some wi -> fw_in_cs wi = false).
Proof.
  cbv zeta. destruct (mutex_inv nfrag nfw sched) as [Fl Sl Fw _ _].
  set (s := m_run nfrag sched (m_init nfw)) in *. repeat split.
  - intros i j wi wj Hi Hj Ci Cj. apply (Fw i wi Hi) in Ci. apply (Fw j wj Hj) in Cj. congruence.
  - intros i wi Hi Ci. apply (Fw i wi Hi) in Ci. destruct (sl_in_cs (sl s)) eqn:X; [|reflexivity].
    pose proof (proj1 Sl eq_refl) as O. congruence.
  - destruct (sl_in_cs (sl s)) eqn:X; [|reflexivity]. pose proof (proj1 Sl eq_refl) as O. rewrite O in Fl. congruence.
  - intros i wi Hi. pose proof (Fw i wi Hi) as F. destruct (fw_in_cs wi) eqn:X; [|reflexivity].
    pose proof (proj1 F eq_refl) as O. rewrite O in Fl. congruence.
Qed.

(* the wire is a sequence of whole events followed by the pieces written so far by the one thread inside
   writeEventData: events are contiguous, in piece order, never interleaved *)
Theorem wire_contiguous nfrag nfw sched :
  let s := m_run nfrag sched (m_init nfw) in
  exists done, blocks nfrag done /\ mwire s = done ++ partial s.
Proof. cbv zeta. destruct (mutex_inv nfrag nfw sched) as [_ _ _ _ W]. exact W. Qed.

(* ---------------------------------------------------------------------------------------------- *)
(* onReadReady is an instance of the read/commit operation lists                                  *)
(* ---------------------------------------------------------------------------------------------- *)
(* the kernel's side of the contract during one onReadReady: every read call returns between 1 and `count` bytes
   (count = the room left after the expansion the code performs first) that exist in the stream *)
Fixpoint kernel_ok (c : cfg) (g : geom) (reads pol : list Z) (avail : Z) : Prop :=
  match reads with
  | [] => True
  | n :: r =>
    let ge := g_expand g in
    1 <= n <= g_room ge /\ n <= avail /\
    let g1 := g_read ge n in
    if g_window g1 >=? threshold c
    then kernel_ok c (g_commit c g1 (Z.min (hd 0 pol) (g_window g1))) r (tl pol) (avail - n)
    else kernel_ok c g1 r pol (avail - n)
  end.

Lemma step_read_ok c stream s n : cfg_ok c -> rinv stream s ->
  1 <= n <= g_room (g_expand (geo (rb s))) -> n <= zlen stream - received s ->
  exists s1, r_step c stream s (RRead n) = Some s1 /\ geo (rb s1) = g_read (g_expand (geo (rb s))) n /\
             received s1 = received s + n /\ rinv stream s1.
Proof.
  intros C I Hn Ha. pose proof I as [(G1 & G2 & G3) L (N1 & N2 & N3) W].
  destruct (expand_props (rb s) G1 G2 G3 L) as (EG & _).
  assert (S : r_step c stream s (RRead n) =
              Some {| rb := r_read (r_expand (rb s)) (slice stream (received s) (received s + n));
                      received := received s + n; consumed := consumed s |}).
  { cbn [r_step]. rewrite EG.
    replace ((1 <=? n) && (n <=? g_room (g_expand (geo (rb s)))) && (received s + n <=? zlen stream)) with true; [reflexivity|].
    symmetry. rewrite !andb_true_iff. repeat split; apply Z.leb_le; lia. }
  eexists. split; [exact S|]. split; [|split; [reflexivity | eapply rinv_step; eauto]].
  cbn [rb r_read geo]. rewrite EG. f_equal. rewrite zlen_slice; lia.
Qed.

Lemma step_commit_ok c stream s k : cfg_ok c -> rinv stream s ->
  0 <= k <= g_window (geo (rb s)) ->
  exists s1, r_step c stream s (RCommit k) = Some s1 /\ geo (rb s1) = g_commit c (geo (rb s)) k /\
             received s1 = received s /\ rinv stream s1.
Proof.
  intros C I Hk.
  assert (S : r_step c stream s (RCommit k) =
              Some {| rb := r_commit c (rb s) k; received := received s; consumed := consumed s + k |}).
  { cbn [r_step]. replace ((0 <=? k) && (k <=? g_window (geo (rb s)))) with true; [reflexivity|].
    symmetry. rewrite andb_true_iff. split; apply Z.leb_le; lia. }
  eexists. split; [exact S|]. split; [reflexivity|]. split; [reflexivity | eapply rinv_step; eauto].
Qed.

Lemma policy_commit_ok stream s pol : rinv stream s -> Forall (fun k => 0 <= k) pol ->
  0 <= Z.min (hd 0 pol) (g_window (geo (rb s))) <= g_window (geo (rb s)).
Proof.
  intros [(G1 & G2 & G3) _ _ _] F. unfold g_window.
  assert (0 <= hd 0 pol) by (destruct F; cbn [hd]; lia). lia.
Qed.

Theorem on_read_ready_instance c stream : cfg_ok c -> forall reads s pol,
  rinv stream s -> Forall (fun k => 0 <= k) pol ->
  kernel_ok c (geo (rb s)) reads pol (zlen stream - received s) ->
  exists s', r_run c stream s (fst (fst (fst (on_read_ready c (geo (rb s)) reads pol)))) = Some s' /\
             geo (rb s') = snd (fst (on_read_ready c (geo (rb s)) reads pol)) /\ rinv stream s'.
Proof.
  intros C. induction reads as [|n r IH]; intros s pol I F K.
  - cbn [on_read_ready fst snd r_run].
    destruct (step_commit_ok c stream s _ C I (policy_commit_ok stream s pol I F)) as (s1 & S & G & _ & I1).
    rewrite S. exists s1. auto.
  - cbn [kernel_ok] in K. destruct K as (Hn & Ha & K). cbv zeta in K.
    destruct (step_read_ok c stream s n C I Hn Ha) as (s1 & S1 & G1 & R1 & I1).
    cbn [on_read_ready]. rewrite <- G1 in *.
    destruct (g_window (geo (rb s1)) >=? threshold c) eqn:T.
    + destruct (step_commit_ok c stream s1 _ C I1 (policy_commit_ok stream s1 pol I1 F)) as (s2 & S2 & G2 & R2 & I2).
      rewrite <- G2 in *.
      assert (F' : Forall (fun k => 0 <= k) (tl pol)) by (destruct F; [constructor | assumption]).
      replace (zlen stream - received s - n) with (zlen stream - received s2) in K by lia.
      destruct (IH s2 (tl pol) I2 F' K) as (s' & R & G & I').
      destruct (on_read_ready c (geo (rb s2)) r (tl pol)) as [[[ops obs] g3] pol'].
      cbn [fst snd] in *. cbn [r_run]. rewrite S1, S2. exists s'. auto.
    + replace (zlen stream - received s - n) with (zlen stream - received s1) in K by lia.
      destruct (IH s1 pol I1 F K) as (s' & R & G & I').
      destruct (on_read_ready c (geo (rb s1)) r pol) as [[[ops obs] g3] pol'].
      cbn [fst snd] in *. cbn [r_run]. rewrite S1. exists s'. auto.
Qed.

(* ---------------------------------------------------------------------------------------------- *)
(* the write-ready wake-up is never lost                                                           *)
(* ---------------------------------------------------------------------------------------------- *)
(* reachable states: once the channel is closed nobody is parked on it *)
Definition wake_ok (w : wake) : Prop := wclosed w = true -> wparked w = false.
Lemma wake_ok_init : wake_ok {| wparked := false; wtoken := false; wclosed := false |}.
Proof. intros _. reflexivity. Qed.
Lemma wake_ok_wait w : wake_ok w -> wake_ok (wake_wait w).
Proof. destruct w as [p t c]. unfold wake_ok, wake_wait. cbn. destruct c, t; cbn; auto; discriminate. Qed.
Lemma wake_ok_call w c : wake_ok w -> wake_ok (wake_call w c).
Proof. destruct w as [p t cl], c; unfold wake_ok; cbn; auto; destruct cl, p; cbn; auto; discriminate. Qed.
Lemma wake_ok_event w e : wake_ok w -> wake_ok (wake_event w e).
Proof.
  unfold wake_event. generalize (handle_event e). intros l. revert w.
  induction l as [|c r IH]; intros w H; cbn [fold_left]; [exact H | apply IH, wake_ok_call, H].
Qed.

(* an event that carries EPOLLOUT (or EPOLLRDHUP) releases a parked writer whatever else it carries *)
Theorem wakeup_out : forall w e, wake_ok w -> ev_out e = true \/ ev_rdhup e = true -> wparked (wake_event w e) = false.
Proof.
  intros [p t c] [r i o] Ok H. unfold wake_event, handle_event. cbn [ev_rdhup ev_in ev_out] in *.
  destruct r; cbn [fold_left wake_call wparked]; [reflexivity|].
  destruct H as [-> | H]; [|discriminate].
  destruct c.
  - pose proof (Ok eq_refl) as P. cbn in P. subst p. destruct i; reflexivity.
  - destruct i; cbn [app fold_left wake_call wclosed wparked wtoken]; destruct p; reflexivity.
Qed.

(* ... and if no writer was waiting, the notification is kept for the writer that is about to wait: a writer that
   got EAGAIN before the event and reaches the channel receive after it does not block *)
Theorem wakeup_kept : forall w e, ev_out e = true \/ ev_rdhup e = true ->
  wparked w = false -> wparked (wake_wait (wake_event w e)) = false.
Proof.
  intros [p t c] [r i o] H P. cbn in P. subst p. unfold wake_event, handle_event, wake_wait.
  cbn [ev_rdhup ev_in ev_out] in *.
  destruct r; cbn [fold_left wake_call wparked wclosed wtoken]; [reflexivity|].
  destruct H as [-> | H]; [|discriminate].
  destruct i; cbn [app fold_left wake_call wclosed wparked wtoken]; destruct c; reflexivity.
Qed.

(* an event without EPOLLOUT / EPOLLRDHUP leaves the write side alone *)
Theorem wakeup_frame : forall w e, ev_out e = false -> ev_rdhup e = false -> wake_event w e = w.
Proof.
  intros w [r i o] Ho Hr. cbn in Ho, Hr. subst. unfold wake_event, handle_event. cbn [ev_rdhup ev_in ev_out].
  destruct i; reflexivity.
Qed.
