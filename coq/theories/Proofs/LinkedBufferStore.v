(* Store and allocator lemmas for Model/LinkedBuffer.v: slot-wise effect of every primitive
   (pop_class, recycle, header updates, data writes), multiset accounting of the free lists
   (count_occ, so that ownership goals are linear arithmetic), well-formedness of the store, and
   the capacity lemma of alloc(size): the slices it appends fit the request tightly. *)
From Coq Require Import List ZArith Lia Bool Arith.
From Shm Require Import Gen.Consts Model.LinkedBuffer Proofs.LinkedBufferProofs.
Import ListNotations.
Close Scope Z_scope.
Open Scope nat_scope.

(* ---------------------------------------------------------------------------------------- *)
(* multisets of slot ids                                                                     *)
(* ---------------------------------------------------------------------------------------- *)
Definition cnt (l : list nat) (x : nat) : nat := count_occ Nat.eq_dec l x.
Definition ind (a x : nat) : nat := if Nat.eq_dec a x then 1 else 0.

Lemma cnt_nil x : cnt [] x = 0. Proof. reflexivity. Qed.
Lemma cnt_cons a l x : cnt (a :: l) x = ind a x + cnt l x.
Proof. unfold cnt, ind. cbn [count_occ]. destruct (Nat.eq_dec a x); lia. Qed.
Lemma cnt_app l1 l2 x : cnt (l1 ++ l2) x = cnt l1 x + cnt l2 x.
Proof. unfold cnt. apply count_occ_app. Qed.
Lemma cnt_In l x : In x l <-> 0 < cnt l x.
Proof. unfold cnt. rewrite (count_occ_In Nat.eq_dec). lia. Qed.
Lemma cnt_notin l x : ~ In x l <-> cnt l x = 0.
Proof. rewrite cnt_In. lia. Qed.
Lemma NoDup_cnt l : NoDup l <-> forall x, cnt l x <= 1.
Proof. unfold cnt. apply NoDup_count_occ. Qed.
Lemma ind_same a : ind a a = 1. Proof. unfold ind. destruct (Nat.eq_dec a a); congruence. Qed.
Lemma ind_diff a x : a <> x -> ind a x = 0. Proof. unfold ind. destruct (Nat.eq_dec a x); congruence. Qed.
Lemma ind_le a x : ind a x <= 1. Proof. unfold ind. destruct (Nat.eq_dec a x); lia. Qed.

Lemma cnt_concat_upd (L : list (list nat)) : forall i f g x,
  nth_error L i = Some f ->
  cnt (concat (upd_nth i (fun _ => g) L)) x + cnt f x = cnt (concat L) x + cnt g x.
Proof.
  induction L as [|h L IH]; intros i f g x H; [destruct i; discriminate|].
  destruct i as [|i]; cbn [nth_error upd_nth concat] in *.
  - injection H as ->. rewrite !cnt_app. lia.
  - rewrite !cnt_app. specialize (IH i f g x H). lia.
Qed.

Lemma length_upd_nth {A} (f : A -> A) : forall (L : list A) i, length (upd_nth i f L) = length L.
Proof. induction L as [|h L IH]; intros i; destruct i; cbn; auto. Qed.

(* ---------------------------------------------------------------------------------------- *)
(* slot-wise view of the store                                                               *)
(* ---------------------------------------------------------------------------------------- *)
Definition slot_at (m : shm) (o : nat) : option slot := nth_error (slots m) o.
Definition frees (m : shm) : list nat := concat (free m).

Lemma slot_at_upd m o f x :
  slot_at (upd_slot m o f) x = if x =? o then option_map f (slot_at m x) else slot_at m x.
Proof. unfold slot_at, upd_slot, with_slots. cbn [slots]. apply nth_upd_nth. Qed.
Lemma slot_at_upd_same m o f t : slot_at m o = Some t -> slot_at (upd_slot m o f) o = Some (f t).
Proof. intros H. rewrite slot_at_upd, Nat.eqb_refl, H. reflexivity. Qed.
Lemma slot_at_upd_other m o f x : x <> o -> slot_at (upd_slot m o f) x = slot_at m x.
Proof. intros H. rewrite slot_at_upd. destruct (Nat.eqb_spec x o); [contradiction|reflexivity]. Qed.
Lemma slot_at_with_free m f x : slot_at (with_free m f) x = slot_at m x.
Proof. reflexivity. Qed.

Lemma sdata_slot m s : shmf s = true -> sdata m s = match slot_at m (off s) with Some t => st_data t | None => [] end.
Proof. intros H. unfold sdata, slot_at. rewrite H. reflexivity. Qed.
Lemma sdata_heap m s : shmf s = false -> sdata m s = heap s.
Proof. intros H. unfold sdata. rewrite H. reflexivity. Qed.

(* a slice is unaffected by a change of the store that leaves its slot alone *)
Lemma sdata_frame m m' s : (shmf s = true -> slot_at m' (off s) = slot_at m (off s)) -> sdata m' s = sdata m s.
Proof.
  intros H. destruct (shmf s) eqn:E; [|rewrite !sdata_heap by assumption; reflexivity].
  rewrite !sdata_slot by assumption. rewrite H by reflexivity. reflexivity.
Qed.
Lemma body_frame m m' s : (shmf s = true -> slot_at m' (off s) = slot_at m (off s)) -> body m' s = body m s.
Proof. intros H. unfold body. rewrite (sdata_frame m m' s H). reflexivity. Qed.

(* ---------------------------------------------------------------------------------------- *)
(* well-formed store                                                                         *)
(* ---------------------------------------------------------------------------------------- *)
Record store_ok (m : shm) : Prop := {
  so_len : length (free m) = length (cls m);
  so_caps : Forall (fun c => 0 < c) (cls m);
  so_static : forall o t, slot_at m o = Some t -> length (st_data t) = st_cap t /\ In (st_cap t) (cls m);
  so_free : forall i f o, nth_error (free m) i = Some f -> In o f ->
            exists t, slot_at m o = Some t /\ st_cap t = nth i (cls m) 0 /\ st_size t = 0 /\ st_start t = 0 }.

Definition hdr_only (f : slot -> slot) : Prop := forall t, st_cap (f t) = st_cap t /\ st_data (f t) = st_data t.
Lemma hdr_only_reset : hdr_only hdr_reset. Proof. intros t; split; reflexivity. Qed.
Lemma hdr_only_clear : hdr_only hdr_clearflag. Proof. intros t; split; reflexivity. Qed.
Lemma hdr_only_link n : hdr_only (hdr_link n). Proof. intros t; split; reflexivity. Qed.
Lemma hdr_only_stamp a b : hdr_only (hdr_stamp a b). Proof. intros t; split; reflexivity. Qed.

Lemma length_overwrite d p bs : length (overwrite d p bs) = length d.
Proof.
  unfold overwrite. rewrite !app_length, !firstn_length, skipn_length.
  destruct (Nat.le_gt_cases (length d) p); lia.
Qed.

(* a header update (or a data write) of a slot that is in no free list keeps the store well formed *)
Lemma store_ok_upd m o f :
  store_ok m -> (forall t, st_cap (f t) = st_cap t /\ length (st_data (f t)) = length (st_data t)) ->
  ~ In o (frees m) -> store_ok (upd_slot m o f).
Proof.
  intros [H1 H2 H3 H4] Hf Hno. constructor; cbn [free cls upd_slot with_slots]; auto.
  - intros x t Hx. rewrite slot_at_upd in Hx. destruct (Nat.eqb_spec x o) as [->|Hne]; [|apply (H3 x); exact Hx].
    destruct (slot_at m o) as [t0|] eqn:E; [|discriminate]. injection Hx as <-.
    destruct (Hf t0) as [Hc Hd]. destruct (H3 o t0 E) as [G1 G2]. rewrite Hc, Hd. auto.
  - intros i fl x Hi Hx. destruct (H4 i fl x Hi Hx) as [t [Ht Hr]]. exists t. split; [|exact Hr].
    rewrite slot_at_upd_other; [exact Ht|]. intros ->. apply Hno. unfold frees. apply in_concat. exists fl. split; [|exact Hx].
    eapply nth_error_In; exact Hi.
Qed.

Lemma in_frees m i f o : nth_error (free m) i = Some f -> In o f -> In o (frees m).
Proof. intros Hi Hx. unfold frees. apply in_concat. exists f. split; [eapply nth_error_In; exact Hi|exact Hx]. Qed.

(* ---------------------------------------------------------------------------------------- *)
(* pop_class                                                                                 *)
(* ---------------------------------------------------------------------------------------- *)
Record popped (m : shm) (i : nat) (s : slice) (m' : shm) : Prop := {
  pp_shm : shmf s = true;
  pp_in : In (off s) (frees m);
  pp_cnt : forall x, cnt (frees m') x + ind (off s) x = cnt (frees m) x;
  pp_slot : exists t, slot_at m (off s) = Some t /\ slot_at m' (off s) = Some (hdr_clearflag t)
                      /\ st_size t = 0 /\ st_start t = 0 /\ st_cap t = cap s;
  pp_other : forall x, x <> off s -> slot_at m' x = slot_at m x;
  pp_cap : cap s = nth i (cls m) 0;
  pp_cappos : 0 < cap s;
  pp_idx : rd s = 0 /\ wr s = 0 /\ start s = 0;
  pp_cls : cls m' = cls m;
  pp_ok : store_ok m' }.

Lemma pop_class_spec m i s m' : store_ok m -> NoDup (frees m) -> pop_class m i = Some (s, m') -> popped m i s m'.
Proof.
  intros Hok Hnd H. unfold pop_class in H.
  destruct (nth_error (free m) i) as [[|a [|b r]]|] eqn:Ei; try discriminate.
  destruct (nth_error (slots m) a) as [t|] eqn:Ea; [|discriminate]. injection H as <- <-.
  destruct Hok as [H1 H2 H3 H4].
  destruct (H4 i _ a Ei (or_introl eq_refl)) as [t' [Ht' [Hc [Hs Hst]]]].
  unfold slot_at in Ht'. rewrite Ea in Ht'. injection Ht' as <-.
  assert (Hin : In a (frees m)) by (eapply in_frees; [exact Ei|left; reflexivity]).
  assert (Hcnt : forall x, cnt (frees (upd_slot (with_free m (upd_nth i (fun _ => b :: r) (free m))) a hdr_clearflag)) x + ind a x
                           = cnt (frees m) x).
  { intros x. unfold frees. cbn [free upd_slot with_slots with_free].
    pose proof (cnt_concat_upd (free m) i (a :: b :: r) (b :: r) x Ei) as G. rewrite !cnt_cons in G. lia. }
  constructor; cbn [slice_of_slot shmf off cap rd wr start]; auto.
  - exists t. repeat split; auto. rewrite slot_at_upd, Nat.eqb_refl. unfold slot_at. cbn [slots with_free]. rewrite Ea. reflexivity.
  - intros x Hx. rewrite slot_at_upd_other by exact Hx. reflexivity.
  - rewrite Hc. assert (Hi : i < length (cls m)) by (rewrite <- H1; apply nth_error_Some; congruence).
    rewrite Forall_forall in H2. apply H2. apply nth_In. exact Hi.
  - rewrite Hs, Hst. auto.
  - (* store_ok *)
    assert (Hnd' : forall x, cnt (frees m) x <= 1) by (apply NoDup_cnt; exact Hnd).
    constructor; cbn [free cls upd_slot with_slots with_free].
    + rewrite length_upd_nth. exact H1.
    + exact H2.
    + intros x tx Hx. rewrite slot_at_upd in Hx. destruct (Nat.eqb_spec x a) as [->|Hne]; [|apply (H3 x); exact Hx].
      unfold slot_at in Hx. cbn [slots with_free] in Hx. rewrite Ea in Hx. injection Hx as <-. apply (H3 a t). exact Ea.
    + intros j fl x Hj Hx. rewrite nth_upd_nth in Hj.
      assert (Hxa : x <> a).
      { intros ->. specialize (Hcnt a). rewrite ind_same in Hcnt. specialize (Hnd' a).
        assert (0 < cnt (frees (upd_slot (with_free m (upd_nth i (fun _ => b :: r) (free m))) a hdr_clearflag)) a).
        { apply cnt_In. unfold frees. cbn [free upd_slot with_slots with_free]. apply in_concat. exists fl. split; [|exact Hx].
          destruct (Nat.eqb_spec j i) as [->|Hji].
          - rewrite Ei in Hj. cbn in Hj. injection Hj as <-.
            assert (nth_error (upd_nth i (fun _ => b :: r) (free m)) i = Some (b :: r)) by (rewrite nth_upd_nth, Nat.eqb_refl, Ei; reflexivity).
            eapply nth_error_In; eassumption.
          - assert (nth_error (upd_nth i (fun _ => b :: r) (free m)) j = Some fl).
            { rewrite nth_upd_nth. destruct (Nat.eqb_spec j i); [contradiction|exact Hj]. }
            eapply nth_error_In; eassumption. }
        lia. }
      assert (Hfl : exists fl0, nth_error (free m) j = Some fl0 /\ In x fl0).
      { destruct (Nat.eqb_spec j i) as [->|Hji].
        - rewrite Ei in Hj. cbn in Hj. injection Hj as <-. exists (a :: b :: r). split; [exact Ei|right; exact Hx].
        - exists fl. auto. }
      destruct Hfl as [fl0 [Hj0 Hx0]]. destruct (H4 j fl0 x Hj0 Hx0) as [tx [Htx Hr]]. exists tx. split; [|exact Hr].
      rewrite slot_at_upd_other by exact Hxa. exact Htx.
Qed.

(* ---------------------------------------------------------------------------------------- *)
(* recycle                                                                                   *)
(* ---------------------------------------------------------------------------------------- *)
Lemma find_class_nth c : forall cs k i, find_class c cs k = Some i -> nth (i - k) cs 0 = c /\ k <= i < k + length cs.
Proof.
  induction cs as [|x cs IH]; intros k i H; cbn [find_class] in H; [discriminate|].
  destruct (Nat.eqb_spec x c) as [->|Hne].
  - injection H as <-. rewrite Nat.sub_diag. cbn. split; [reflexivity|lia].
  - destruct (IH (S k) i H) as [G1 G2]. split; [|cbn [length]; lia].
    replace (i - k) with (S (i - S k)) by lia. exact G1.
Qed.

Record recycled_to (m : shm) (s : slice) (m' : shm) : Prop := {
  rc_cnt : forall x, cnt (frees m') x = cnt (frees m) x + ind (off s) x;
  rc_slot : forall t, slot_at m (off s) = Some t -> slot_at m' (off s) = Some (hdr_reset t);
  rc_other : forall x, x <> off s -> slot_at m' x = slot_at m x;
  rc_cls : cls m' = cls m;
  rc_ok : store_ok m' }.

Lemma cnt_concat_upd_app (L : list (list nat)) a : forall i x,
  i < length L -> cnt (concat (upd_nth i (fun f => f ++ [a]) L)) x = cnt (concat L) x + ind a x.
Proof.
  induction L as [|h L IH]; intros i x Hi; [cbn in Hi; lia|].
  destruct i as [|i]; cbn [upd_nth concat length] in *.
  - rewrite !cnt_app, cnt_cons, cnt_nil. lia.
  - rewrite !cnt_app, IH by lia. lia.
Qed.

Lemma recycle_spec m s : store_ok m -> shmf s = true -> ~ In (off s) (frees m) ->
  (exists t, slot_at m (off s) = Some t /\ st_cap t = cap s) -> recycled_to m s (recycle m s).
Proof.
  intros Hok Hs Hno [t [Ht Hc]]. pose proof Hok as [H1 H2 H3 H4].
  destruct (H3 _ _ Ht) as [_ Hin]. rewrite Hc in Hin.
  destruct (find_class_some (cap s) (cls m) 0 Hin) as [i Hi].
  destruct (find_class_nth _ _ _ _ Hi) as [Hn Hb]. rewrite Nat.sub_0_r in Hn.
  unfold recycle. rewrite Hs, Hi.
  constructor.
  - intros x. unfold frees. cbn [free upd_slot with_slots with_free]. apply cnt_concat_upd_app. lia.
  - intros t0 Ht0. apply slot_at_upd_same. exact Ht0.
  - intros x Hx. rewrite slot_at_upd_other by exact Hx. reflexivity.
  - reflexivity.
  - constructor; cbn [free cls upd_slot with_slots with_free].
    + rewrite length_upd_nth. exact H1.
    + exact H2.
    + intros x tx Hx. rewrite slot_at_upd in Hx. destruct (Nat.eqb_spec x (off s)) as [->|Hne]; [|apply (H3 x); exact Hx].
      rewrite slot_at_with_free, Ht in Hx. injection Hx as <-. apply (H3 _ _ Ht).
    + intros j fl x Hj Hx. rewrite nth_upd_nth in Hj.
      destruct (Nat.eqb_spec j i) as [->|Hji].
      * destruct (nth_error (free m) i) as [f0|] eqn:Ef; [|discriminate]. cbn in Hj. injection Hj as <-.
        apply in_app_or in Hx. destruct Hx as [Hx|[<-|[]]].
        -- destruct (H4 i f0 x Ef Hx) as [tx [Htx Hr]]. exists tx. split; [|exact Hr].
           rewrite slot_at_upd_other; [exact Htx|]. intros ->. apply Hno. eapply in_frees; eassumption.
        -- exists (hdr_reset t). split; [apply slot_at_upd_same; exact Ht|]. cbn [hdr_reset st_cap st_size st_start].
           rewrite Hc, Hn. auto.
      * destruct (H4 j fl x Hj Hx) as [tx [Htx Hr]]. exists tx. split; [|exact Hr].
        rewrite slot_at_upd_other; [exact Htx|]. intros ->. apply Hno. eapply in_frees; eassumption.
Qed.

Lemma recycle_heap m s : shmf s = false -> recycle m s = m.
Proof. intros H. unfold recycle. rewrite H. reflexivity. Qed.

(* ---------------------------------------------------------------------------------------- *)
(* sequences of pops                                                                         *)
(* ---------------------------------------------------------------------------------------- *)
Definition offs (ss : list slice) : list nat := flat_map (fun s => if shmf s then [off s] else []) ss.
Lemma offs_app a b : offs (a ++ b) = offs a ++ offs b.
Proof. unfold offs. apply flat_map_app. Qed.
Lemma offs_cons_shm s r : shmf s = true -> offs (s :: r) = off s :: offs r.
Proof. intros H. unfold offs. cbn [flat_map]. rewrite H. reflexivity. Qed.
Lemma offs_cons_heap s r : shmf s = false -> offs (s :: r) = offs r.
Proof. intros H. unfold offs. cbn [flat_map]. rewrite H. reflexivity. Qed.
Lemma in_offs ss x : In x (offs ss) <-> exists s, In s ss /\ shmf s = true /\ off s = x.
Proof.
  unfold offs. rewrite in_flat_map. split; intros [s [H1 H2]]; exists s.
  - destruct (shmf s); [destruct H2 as [<-|[]]; auto|contradiction].
  - destruct H2 as [H2 <-]. rewrite H2. split; [exact H1|left; reflexivity].
Qed.

Definition fresh_from (m0 m : shm) (s : slice) : Prop :=
  shmf s = true /\ rd s = 0 /\ wr s = 0 /\ start s = 0 /\ 0 < cap s /\
  exists t0, slot_at m0 (off s) = Some t0 /\ st_cap t0 = cap s /\ slot_at m (off s) = Some (hdr_clearflag t0).

Record popsR (m0 : shm) (ss : list slice) (m : shm) : Prop := {
  pr_cnt : forall x, cnt (frees m) x + cnt (offs ss) x = cnt (frees m0) x;
  pr_sl : Forall (fresh_from m0 m) ss;
  pr_other : forall x, ~ In x (offs ss) -> slot_at m x = slot_at m0 x;
  pr_cls : cls m = cls m0;
  pr_ok : store_ok m;
  pr_nd : NoDup (frees m) }.

Lemma popsR_nil m : store_ok m -> NoDup (frees m) -> popsR m [] m.
Proof. intros H1 H2. constructor; auto. Qed.

Lemma popsR_snoc m0 ss m i s m' : NoDup (frees m0) -> popsR m0 ss m -> popped m i s m' -> popsR m0 (ss ++ [s]) m'.
Proof.
  intros Hnd0 [P1 P2 P3 P4 P5 P6] [Q1 Q2 Q3 [t [Q4 [Q5 [Q6 [Q7 Q8]]]]] Q9 Q10 Q11 Q12 Q13 Q14].
  assert (Hnd0' : forall x, cnt (frees m0) x <= 1) by (apply NoDup_cnt; exact Hnd0).
  assert (Hnew : ~ In (off s) (offs ss)).
  { apply cnt_notin. apply cnt_In in Q2. specialize (P1 (off s)). specialize (Hnd0' (off s)). lia. }
  assert (Hoffs : offs (ss ++ [s]) = offs ss ++ [off s]).
  { rewrite offs_app. f_equal. rewrite offs_cons_shm by exact Q1. reflexivity. }
  constructor.
  - intros x. rewrite Hoffs, cnt_app, cnt_cons, cnt_nil. specialize (P1 x). specialize (Q3 x). lia.
  - apply Forall_app. split.
    + rewrite Forall_forall in P2 |- *. intros a Hin. destruct (P2 a Hin) as [A1 [A2 [A3 [A4 [A5 [t0 [A6 [A7 A8]]]]]]]].
      repeat split; auto. exists t0. repeat split; auto.
      assert (E : off a <> off s).
      { intros E. apply Hnew. rewrite <- E. apply in_offs. exists a. auto. }
      rewrite Q9 by exact E. exact A8.
    + constructor; [|constructor]. destruct Q12 as [R1 [R2 R3]].
      repeat split; auto. exists t. repeat split; auto.
      rewrite <- (P3 (off s) Hnew). exact Q4.
  - intros x Hx. rewrite Hoffs in Hx. rewrite in_app_iff in Hx. cbn [In] in Hx.
    rewrite Q9 by (intros ->; apply Hx; right; left; reflexivity). apply P3. intros H. apply Hx. left. exact H.
  - rewrite Q13. exact P4.
  - exact Q14.
  - apply NoDup_cnt. intros x. apply NoDup_cnt with (x := x) in P6. specialize (Q3 x). lia.
Qed.

(* ---------------------------------------------------------------------------------------- *)
(* allocShmBuffer / allocShmBuffers / alloc(size)                                            *)
(* ---------------------------------------------------------------------------------------- *)
Definition room (s : slice) : nat := cap s - wr s.
Fixpoint lsum (l : list nat) : nat := match l with [] => 0 | x :: r => x + lsum r end.
Lemma lsum_app a b : lsum (a ++ b) = lsum a + lsum b.
Proof. induction a as [|x a IH]; cbn [app lsum]; [reflexivity|]. rewrite IH. lia. Qed.
Definition sumroom (ss : list slice) : nat := lsum (map room ss).
Definition sumcap (ss : list slice) : nat := lsum (map cap ss).

Lemma sumroom_app a b : sumroom (a ++ b) = sumroom a + sumroom b.
Proof. unfold sumroom. rewrite map_app, lsum_app. reflexivity. Qed.
Lemma sumcap_app a b : sumcap (a ++ b) = sumcap a + sumcap b.
Proof. unfold sumcap. rewrite map_app, lsum_app. reflexivity. Qed.

(* the appended slices fit the request tightly: every slice but the last is needed in full *)
Definition tight (n : nat) (ss : list slice) : Prop :=
  ss <> [] /\ sumroom (removelast ss) < n <= sumroom ss.

Lemma tight_cons n s s' r : 0 < room s' \/ True -> tight n (s :: s' :: r) -> room s < n /\ tight (n - room s) (s' :: r).
Proof.
  intros _ [_ H]. change (removelast (s :: s' :: r)) with (s :: removelast (s' :: r)) in H.
  unfold sumroom in *. cbn [map lsum] in *. split; [lia|]. split; [discriminate|]. unfold sumroom. cbn [map lsum]. lia.
Qed.
Lemma tight_single n s : tight n [s] -> 0 < n <= room s.
Proof. intros [_ H]. unfold sumroom in H. cbn in H. lia. Qed.

Lemma skipn_S_nth {A} (l : list A) : forall i c r, skipn i l = c :: r -> skipn (S i) l = r /\ nth_error l i = Some c.
Proof.
  induction l as [|x l IH]; intros i c r H; destruct i; cbn in *; try discriminate.
  - injection H as <- <-. auto.
  - apply IH. exact H.
Qed.

Lemma alloc_first_spec m size : forall cs i s m',
  store_ok m -> NoDup (frees m) -> cs = skipn i (cls m) ->
  alloc_first m size cs i = Some (s, m') -> exists j, popped m j s m' /\ size <= cap s.
Proof.
  induction cs as [|c cs IH]; intros i s m' Hok Hnd Hcs H; cbn [alloc_first] in H; [discriminate|].
  destruct (skipn_S_nth _ _ _ _ (eq_sym Hcs)) as [Hsk Hn].
  destruct (Nat.leb_spec size c) as [Hle|Hgt].
  - destruct (pop_class m i) as [[s1 m1]|] eqn:E.
    + injection H as <- <-. exists i. pose proof (pop_class_spec m i s1 m1 Hok Hnd E) as P. split; [exact P|].
      rewrite (pp_cap _ _ _ _ P). rewrite (nth_error_nth _ _ 0 Hn). exact Hle.
    + apply (IH (S i) s m' Hok Hnd (eq_sym Hsk) H).
  - apply (IH (S i) s m' Hok Hnd (eq_sym Hsk) H).
Qed.

Lemma allocShmBuffer_spec m size s m' : store_ok m -> NoDup (frees m) ->
  allocShmBuffer m size = Some (s, m') -> exists j, popped m j s m' /\ size <= cap s.
Proof.
  intros Hok Hnd H. unfold allocShmBuffer in H. destruct (size <=? last (cls m) 0); [|discriminate].
  eapply (alloc_first_spec m size (cls m) 0); [exact Hok|exact Hnd|reflexivity|exact H].
Qed.

Definition allocQ (m0 : shm) (size : nat) (m : shm) (acc : list slice) (remain : Z) : Prop :=
  popsR m0 acc m /\ remain = (Z.of_nat size - Z.of_nat (sumcap acc))%Z /\ (acc <> [] -> sumcap (removelast acc) < size).

Lemma pop_while_spec m0 size (Hnd0 : NoDup (frees m0)) : forall fuel m i remain acc,
  allocQ m0 size m acc remain ->
  let '(m', remain', acc') := pop_while fuel m i remain acc in allocQ m0 size m' acc' remain'.
Proof.
  induction fuel as [|fuel IH]; intros m i remain acc Q; cbn [pop_while]; [exact Q|].
  destruct (Z.gtb_spec remain 0) as [Hpos|Hle]; [|exact Q].
  destruct (pop_class m i) as [[s m1]|] eqn:E; [|exact Q].
  destruct Q as [Q1 [Q2 Q3]].
  pose proof (pop_class_spec m i s m1 (pr_ok _ _ _ Q1) (pr_nd _ _ _ Q1) E) as P.
  apply IH. split; [eapply popsR_snoc; eassumption|]. split.
  - rewrite sumcap_app. unfold sumcap at 2. cbn [map lsum]. lia.
  - intros _. rewrite removelast_last. lia.
Qed.

Lemma alloc_many_spec m0 size (Hnd0 : NoDup (frees m0)) : forall i m remain acc,
  allocQ m0 size m acc remain ->
  let '(m', remain', acc') := alloc_many m i remain acc in allocQ m0 size m' acc' remain'.
Proof.
  induction i as [|j IH]; intros m remain acc Q; cbn [alloc_many]; [exact Q|].
  pose proof (pop_while_spec m0 size Hnd0 (length (nth j (free m) [])) m j remain acc Q) as P.
  destruct (pop_while (length (nth j (free m) [])) m j remain acc) as [[m1 r1] acc1]. apply IH. exact P.
Qed.

Lemma heapMin_pos : 0 < heapMin.
Proof. unfold heapMin. vm_compute. lia. Qed.

Lemma fresh_room m0 m s : fresh_from m0 m s -> room s = cap s /\ 0 < cap s.
Proof. intros [_ [_ [H [_ [H2 _]]]]]. unfold room. rewrite H. lia. Qed.

Lemma sumroom_fresh m0 m ss : Forall (fresh_from m0 m) ss -> sumroom ss = sumcap ss.
Proof.
  induction 1 as [|s r Hs Hr IH]; [reflexivity|]. unfold sumroom, sumcap in *. cbn [map lsum].
  destruct (fresh_room _ _ _ Hs) as [-> _]. lia.
Qed.

Lemma removelast_app_single {A} (l : list A) x : removelast (l ++ [x]) = l.
Proof. apply removelast_last. Qed.

Lemma Forall_removelast {A} (P : A -> Prop) l : Forall P l -> Forall P (removelast l).
Proof.
  induction 1 as [|x l Hx Hl IH]; [constructor|]. destruct l; [constructor|].
  change (removelast (x :: a :: l)) with (x :: removelast (a :: l)). constructor; assumption.
Qed.

(* what alloc(size) appends *)
Record allocated (m : shm) (l : lbuf) (size : nat) (m' : shm) (l' : lbuf) (ss hp : list slice) : Prop := {
  al_slices : slices l' = slices l ++ ss ++ hp;
  al_pops : popsR m ss m';
  al_heap : (hp = [] /\ fromshm l' = fromshm l) \/
            (exists c, hp = [heap_slice c] /\ 0 < c /\ fromshm l' = false);
  al_tight : tight size (ss ++ hp);
  al_wpos : wpos l' = wpos l; al_len : len l' = len l; al_pinned : pinned l' = pinned l;
  al_curp : curp l' = curp l; al_rec : recycled l' = recycled l; al_leases : leases l' = leases l }.

Lemma room_heap c : room (heap_slice c) = c.
Proof. unfold room, heap_slice. cbn. lia. Qed.

Lemma lb_alloc_spec m l size m' l' : store_ok m -> NoDup (frees m) -> 0 < size ->
  lb_alloc m l size = (m', l') -> exists ss hp, allocated m l size m' l' ss hp.
Proof.
  intros Hok Hnd Hpos H. unfold lb_alloc in H.
  destruct (allocShmBuffer m size) as [[s m1]|] eqn:E.
  - injection H as <- <-. destruct (allocShmBuffer_spec m size s m1 Hok Hnd E) as [j [P Hle]].
    pose proof (popsR_snoc m [] m j s m1 Hnd (popsR_nil m Hok Hnd) P) as PR. cbn [app] in PR.
    exists [s], []. constructor; [ | | | |reflexivity|reflexivity|reflexivity|reflexivity|reflexivity|reflexivity].
    + reflexivity.
    + exact PR.
    + left. split; reflexivity.
    + split; [discriminate|]. cbn [app removelast]. unfold sumroom. cbn [map lsum].
      pose proof (pr_sl _ _ _ PR) as Hsl. inversion Hsl as [|? ? Hs _]; subst. destruct (fresh_room _ _ _ Hs) as [-> _]. lia.
  - pose proof (alloc_many_spec m size Hnd (length (cls m)) m (Z.of_nat size) []) as P.
    assert (Q0 : allocQ m size m [] (Z.of_nat size)).
    { split; [apply popsR_nil; assumption|]. split; [unfold sumcap; cbn; lia|congruence]. }
    specialize (P Q0). destruct (alloc_many m (length (cls m)) (Z.of_nat size) []) as [[m1 remain] ss].
    destruct P as [P1 [P2 P3]]. pose proof (sumroom_fresh _ _ _ (pr_sl _ _ _ P1)) as Hsr.
    destruct (Z.gtb_spec remain 0) as [Hr|Hr]; injection H as <- <-.
    + exists ss, [heap_slice (Nat.max (Z.to_nat remain) heapMin)]. pose proof heapMin_pos.
      constructor; [ | | | |reflexivity|reflexivity|reflexivity|reflexivity|reflexivity|reflexivity].
      * cbn [slices set_fromshm push_back set_slices]. rewrite <- app_assoc. reflexivity.
      * exact P1.
      * right. eexists. split; [reflexivity|]. split; [lia|reflexivity].
      * split; [destruct ss; discriminate|]. rewrite removelast_app_single, sumroom_app.
        unfold sumroom at 3. cbn [map lsum]. rewrite room_heap. lia.
    + exists ss, []. constructor; [ | | | |reflexivity|reflexivity|reflexivity|reflexivity|reflexivity|reflexivity].
      * cbn [slices set_slices]. rewrite app_nil_r. reflexivity.
      * exact P1.
      * left. split; reflexivity.
      * rewrite app_nil_r. assert (Hne : ss <> []) by (intros ->; unfold sumcap in P2; cbn in P2; lia).
        split; [exact Hne|]. rewrite (sumroom_fresh m m1 (removelast ss)) by (apply Forall_removelast, (pr_sl _ _ _ P1)).
        specialize (P3 Hne). lia.
Qed.

(* the two single-slice allocations of Reserve's third way *)
Lemma allocated_single m l size s m1 : store_ok m -> NoDup (frees m) -> 0 < size ->
  allocShmBuffer m size = Some (s, m1) -> allocated m l size m1 (push_back l s) [s] [].
Proof.
  intros Hok Hnd Hpos E. destruct (allocShmBuffer_spec m size s m1 Hok Hnd E) as [j [P Hle]].
  pose proof (popsR_snoc m [] m j s m1 Hnd (popsR_nil m Hok Hnd) P) as PR. cbn [app] in PR.
  constructor; [ | | | |reflexivity|reflexivity|reflexivity|reflexivity|reflexivity|reflexivity].
  - reflexivity.
  - exact PR.
  - left. split; reflexivity.
  - split; [discriminate|]. cbn [app removelast]. unfold sumroom. cbn [map lsum].
    pose proof (pr_sl _ _ _ PR) as Hsl. inversion Hsl as [|? ? Hs _]; subst. destruct (fresh_room _ _ _ Hs) as [-> _]. lia.
Qed.

Lemma allocated_heap m l size c : store_ok m -> NoDup (frees m) -> 0 < size -> size <= c ->
  allocated m l size m (set_fromshm (push_back l (heap_slice c)) false) [] [heap_slice c].
Proof.
  intros Hok Hnd Hpos Hc.
  constructor; [ | | | |reflexivity|reflexivity|reflexivity|reflexivity|reflexivity|reflexivity].
  - reflexivity.
  - apply popsR_nil; assumption.
  - right. exists c. split; [reflexivity|]. split; [lia|reflexivity].
  - split; [discriminate|]. cbn [app removelast]. unfold sumroom. cbn [map lsum]. rewrite room_heap. lia.
Qed.

(* ---------------------------------------------------------------------------------------- *)
(* no operation ever changes the capacity of a slot (or makes a slot disappear)              *)
(* ---------------------------------------------------------------------------------------- *)
Definition cap_stable (m m' : shm) : Prop :=
  forall x t, slot_at m x = Some t -> exists t', slot_at m' x = Some t' /\ st_cap t' = st_cap t.

Lemma cap_stable_refl m : cap_stable m m.
Proof. intros x t H. exists t. auto. Qed.
Lemma cap_stable_trans a b c : cap_stable a b -> cap_stable b c -> cap_stable a c.
Proof. intros H1 H2 x t H. destruct (H1 x t H) as [t1 [A B]]. destruct (H2 x t1 A) as [t2 [C D]]. exists t2. split; [exact C|congruence]. Qed.
Lemma cap_stable_upd m o f : (forall t, st_cap (f t) = st_cap t) -> cap_stable m (upd_slot m o f).
Proof.
  intros Hf x t H. rewrite slot_at_upd. destruct (x =? o); [|exists t; auto]. rewrite H. cbn [option_map]. exists (f t). auto.
Qed.
Lemma cap_stable_with_free m f : cap_stable m (with_free m f).
Proof. intros x t H. exists t. auto. Qed.
Lemma cap_stable_recycle m s : cap_stable m (recycle m s).
Proof.
  unfold recycle. destruct (shmf s); [|apply cap_stable_refl]. destruct (find_class (cap s) (cls m) 0); [|apply cap_stable_refl].
  eapply cap_stable_trans; [apply cap_stable_with_free|]. apply cap_stable_upd. reflexivity.
Qed.
Lemma cap_stable_recycle_all ss : forall m, cap_stable m (recycle_all m ss).
Proof.
  induction ss as [|s r IH]; intros m; [apply cap_stable_refl|]. unfold recycle_all in *. cbn [fold_left].
  eapply cap_stable_trans; [apply cap_stable_recycle|apply IH].
Qed.

Definition recyclable (m : shm) (s : slice) : Prop :=
  shmf s = true -> exists t, slot_at m (off s) = Some t /\ st_cap t = cap s.
Lemma recyclable_stable m m' s : cap_stable m m' -> recyclable m s -> recyclable m' s.
Proof. intros Hc Hr E. destruct (Hr E) as [t [Ht Hcap]]. destruct (Hc _ _ Ht) as [t' [A B]]. exists t'. split; [exact A|congruence]. Qed.
Lemma recyclable_adv m s k : recyclable m s -> recyclable m (adv k s).
Proof. intros H. exact H. Qed.
