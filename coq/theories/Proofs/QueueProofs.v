(* Invariant of the IO queue model for every capacity, any number of producers, every program and
   every schedule (C04). *)
From Coq Require Import List ZArith Lia Bool Arith.
From Shm Require Import Gen.Consts Model.Queue.
Import ListNotations.
Open Scope Z_scope.

Definition in_cs (p : ppc) : bool := match p with PIdle => false | _ => true end.
Definition lg (s : st) (i : Z) : elem := snd (nth (Z.to_nat i) (log s) (O, e0)).
Fixpoint pops (l : list (option elem)) : list elem :=
  match l with [] => [] | Some e :: t => e :: pops t | None :: t => pops t end.

Definition owned (i : nat) (l : list (nat * elem)) : list elem :=
  map snd (filter (fun x => Nat.eqb (fst x) i) l).
Definition accepted (h : list (elem * bool)) : list elem := map fst (filter snd h).
Definition inflight (p : plocal) : list elem := match pc p with PInc => [cur p] | _ => [] end.

Definition pc_ok (s : st) (p : plocal) : Prop :=
  match pc p with
  | PIdle => True
  | PLocked => todo p <> []
  | PTail t => todo p <> [] /\ t = tail s
  | PFull => todo p <> []
  | PChk t => todo p <> [] /\ t = tail s /\ tail s - head s < cap s
  | PW1 t => todo p <> [] /\ t = tail s /\ tail s - head s < cap s /\ f1 (slots s (t mod cap s)) = f1 (cur p)
  | PW2 t => todo p <> [] /\ t = tail s /\ tail s - head s < cap s /\ f1 (slots s (t mod cap s)) = f1 (cur p)
             /\ f2 (slots s (t mod cap s)) = f2 (cur p)
  | PW3 t => todo p <> [] /\ t = tail s /\ tail s - head s < cap s /\ slots s (t mod cap s) = cur p
  | PInc => todo p <> []
  end.

Definition c_ok (s : st) : Prop :=
  match cpc_ s with
  | CIdle => True
  | CHead h => h = head s
  | CGo h => h = head s /\ h < tail s
  | CR1 h a => h = head s /\ h < tail s /\ a = f1 (lg s h)
  | CR2 h a b => h = head s /\ h < tail s /\ a = f1 (lg s h) /\ b = f2 (lg s h)
  | CR3 h a b c => h = head s /\ h < tail s /\ a = f1 (lg s h) /\ b = f2 (lg s h) /\ c = f3 (lg s h)
  end.

Record Inv (progs : list (list elem)) (s : st) : Prop := {
  i_cap : 0 < cap s;
  i_ht : 0 <= head s <= tail s;
  i_le : tail s - head s <= cap s;
  i_len : tail s = Z.of_nat (length (log s));
  i_slots : forall i, head s <= i < tail s -> slots s (i mod cap s) = lg s i;
  i_lock : forall i p, nth_error (prods s) i = Some p -> (in_cs (pc p) = true <-> lock s = Some i);
  i_pc : forall i p, nth_error (prods s) i = Some p -> pc_ok s p;
  i_cons : c_ok s;
  i_out : pops (out s) = map snd (firstn (Z.to_nat (head s)) (log s));
  i_own : forall i p, nth_error (prods s) i = Some p -> owned i (log s) = accepted (hist p) ++ inflight p;
  i_prog : forall i p, nth_error (prods s) i = Some p -> map fst (hist p) ++ todo p = nth i progs [];
  i_np : length (prods s) = length progs;
  i_logown : forall x, In x (log s) -> (fst x < length progs)%nat }.

(* ---------- list lemmas ---------- *)
Lemma nth_error_set_nth_eq {A} (l : list A) i x y :
  nth_error l i = Some y -> nth_error (set_nth i x l) i = Some x.
Proof. revert i; induction l as [|a l IH]; intros [|i] H; simpl in *; try discriminate; auto. Qed.
Lemma nth_error_set_nth_neq {A} (l : list A) i j x :
  i <> j -> nth_error (set_nth i x l) j = nth_error l j.
Proof. revert i j; induction l as [|a l IH]; intros [|i] [|j] H; simpl; auto; try congruence. Qed.
Lemma set_nth_length {A} (l : list A) i x : length (set_nth i x l) = length l.
Proof. revert i; induction l as [|a l IH]; intros [|i]; simpl; auto. Qed.
Lemma mod_neq a b c : 0 < c -> 0 < b - a < c -> a mod c <> b mod c.
Proof. intros Hc H E. assert (Hm : (b - a) mod c = 0).
  { rewrite Zminus_mod, E, Z.sub_diag. apply Z.mod_0_l; lia. }
  rewrite Z.mod_small in Hm; lia. Qed.
Lemma pops_app a b : pops (a ++ b) = pops a ++ pops b.
Proof. induction a as [|[e|] a IH]; simpl; rewrite ?IH; auto. Qed.
Lemma lg_app_old s (x : nat * elem) i :
  0 <= i < Z.of_nat (length (log s)) -> snd (nth (Z.to_nat i) (log s ++ [x]) (O, e0)) = lg s i.
Proof. intros H. unfold lg. rewrite app_nth1; auto. lia. Qed.
Lemma lg_app_new (l : list (nat * elem)) x : nth (Z.to_nat (Z.of_nat (length l))) (l ++ [x]) (O, e0) = x.
Proof. rewrite Nat2Z.id, app_nth2, Nat.sub_diag; simpl; auto. Qed.
Lemma firstn_S_nth {A} (d : A) (l : list A) n : (n < length l)%nat -> firstn (S n) l = firstn n l ++ [nth n l d].
Proof. revert n; induction l as [|a l IH]; intros [|n] H; simpl in *; try lia; auto. rewrite IH; auto; lia. Qed.
Lemma firstn_app_old {A} (l : list A) e n : (n <= length l)%nat -> firstn n (l ++ [e]) = firstn n l.
Proof. intros. rewrite firstn_app. replace (n - length l)%nat with 0%nat by lia. simpl. apply app_nil_r. Qed.
Lemma owned_app i l x : owned i (l ++ [x]) = owned i l ++ (if Nat.eqb (fst x) i then [snd x] else []).
Proof. unfold owned. rewrite filter_app, map_app. simpl. destruct (Nat.eqb (fst x) i); reflexivity. Qed.
Lemma accepted_app h x : accepted (h ++ [x]) = accepted h ++ (if snd x then [fst x] else []).
Proof. unfold accepted. rewrite filter_app, map_app. simpl. destruct (snd x); reflexivity. Qed.

(* ---------- preservation: consumer ---------- *)
Lemma pc_ok_head_mono s s' p :
  cap s' = cap s -> tail s' = tail s -> slots s' = slots s -> head s <= head s' ->
  pc_ok s p -> pc_ok s' p.
Proof. unfold pc_ok; intros Hc Ht Hs Hh; destruct (pc p); rewrite ?Hc, ?Ht, ?Hs; intuition lia. Qed.

Lemma elem_eta e : {| f1 := f1 e; f2 := f2 e; f3 := f3 e |} = e.
Proof. destruct e; reflexivity. Qed.

Ltac pcmono H :=
  let i := fresh "i" in let p := fresh "p" in let Hp := fresh "Hp" in
  intros i p Hp; eapply pc_ok_head_mono; [ | | | | apply (i_pc _ _ H i p Hp)]; simpl; auto; lia.

Ltac base H :=
  constructor; simpl; rewrite ?Z.add_0_r; try apply H; try solve [pcmono H];
  try solve [unfold c_ok; simpl; auto; lia].

Lemma cstep_inv progs s : Inv progs s -> Inv progs (cstep s).
Proof.
  intros H. pose proof (i_cons _ s H) as Hc. unfold c_ok in Hc. unfold cstep.
  pose proof (i_ht _ s H) as Hht. pose proof (i_le _ s H) as Hle. pose proof (i_len _ s H) as Hlen.
  destruct (cpc_ s) as [|h|h|h a|h a b|h a b c] eqn:E.
  - destruct (ctodo s); [exact H|]. base H.
  - destruct (h >=? tail s) eqn:Ef.
    + base H. rewrite pops_app; simpl. rewrite app_nil_r. apply H.
    + base H.
  - destruct Hc as [-> Hlt]. base H. unfold c_ok; simpl. repeat split; auto.
    rewrite (i_slots _ s H); auto. lia.
  - destruct Hc as [-> [Hlt Ha]]. base H. unfold c_ok; simpl. repeat split; auto.
    rewrite (i_slots _ s H); auto. lia.
  - destruct Hc as [-> [Hlt [Ha Hb]]]. base H. unfold c_ok; simpl. repeat split; auto.
    rewrite (i_slots _ s H); auto. lia.
  - destruct Hc as [-> [Hlt [Ha [Hb Hcc]]]]. base H; try lia.
    + intros i Hi. apply (i_slots _ s H). lia.
    + rewrite pops_app; simpl. rewrite (i_out _ s H). subst a b c. rewrite elem_eta.
      replace (Z.to_nat (head s + 1)) with (S (Z.to_nat (head s))) by lia.
      rewrite (firstn_S_nth (O, e0)) by lia. rewrite map_app. reflexivity.
Qed.

(* ---------- preservation: producers ---------- *)
Lemma others_idle progs s i p :
  Inv progs s -> nth_error (prods s) i = Some p -> in_cs (pc p) = true ->
  forall j pj, j <> i -> nth_error (prods s) j = Some pj -> pc pj = PIdle.
Proof.
  intros H Hp Hcs j pj Hne Hj.
  assert (Hl : lock s = Some i) by (apply (i_lock _ s H i p Hp); auto).
  destruct (in_cs (pc pj)) eqn:E.
  - apply (i_lock _ s H j pj Hj) in E. congruence.
  - destruct (pc pj); simpl in E; congruence.
Qed.

Lemma pc_ok_idle s p : pc p = PIdle -> pc_ok s p.
Proof. unfold pc_ok; intros ->; exact I. Qed.

Lemma c_ok_ext s s' :
  cpc_ s' = cpc_ s -> head s' = head s -> tail s <= tail s' ->
  (forall h, 0 <= h < tail s -> lg s' h = lg s h) -> 0 <= head s -> c_ok s -> c_ok s'.
Proof.
  unfold c_ok; intros Hc Hh Ht Hl H0; rewrite Hc, Hh.
  destruct (cpc_ s); auto; intros; intuition (try lia); subst; rewrite Hl; auto; lia.
Qed.

Lemma lock_upd progs s i p p' l' :
  Inv progs s -> nth_error (prods s) i = Some p ->
  (in_cs (pc p') = true <-> l' = Some i) ->
  (lock s = Some i \/ lock s = None) -> (l' = Some i \/ l' = None) ->
  forall j pj, nth_error (set_nth i p' (prods s)) j = Some pj ->
               (in_cs (pc pj) = true <-> l' = Some j).
Proof.
  intros H Hp Hnew Hold Hl' j pj Hj.
  destruct (Nat.eq_dec i j) as [->|Hne].
  - rewrite (nth_error_set_nth_eq _ _ _ _ Hp) in Hj. inversion Hj; subst; auto.
  - rewrite nth_error_set_nth_neq in Hj by auto.
    pose proof (i_lock _ s H j pj Hj) as Hl.
    split; intros Hx.
    + apply Hl in Hx. destruct Hold as [Ho|Ho]; rewrite Ho in Hx; congruence.
    + destruct Hl' as [Hq|Hq]; rewrite Hq in Hx; congruence.
Qed.

Lemma pcs_upd progs s s' i p p' :
  Inv progs s -> nth_error (prods s) i = Some p -> pc_ok s' p' ->
  (in_cs (pc p) = true \/ (forall q, pc_ok s q -> pc_ok s' q)) ->
  forall j pj, nth_error (set_nth i p' (prods s)) j = Some pj -> pc_ok s' pj.
Proof.
  intros H Hp Hnew Hor j pj Hj.
  destruct (Nat.eq_dec i j) as [->|Hne].
  - rewrite (nth_error_set_nth_eq _ _ _ _ Hp) in Hj. inversion Hj; subst; auto.
  - rewrite nth_error_set_nth_neq in Hj by auto.
    destruct Hor as [Hcs|Hsame].
    + apply pc_ok_idle. eapply (others_idle progs s i p); eauto.
    + apply Hsame. apply (i_pc _ s H j pj Hj).
Qed.

(* per-producer facts (ownership of log entries, program prefix) when only producer i's local
   state changes and the log is unchanged *)
Lemma own_upd progs s i p p' :
  Inv progs s -> nth_error (prods s) i = Some p ->
  accepted (hist p') ++ inflight p' = accepted (hist p) ++ inflight p ->
  forall j pj, nth_error (set_nth i p' (prods s)) j = Some pj ->
               owned j (log s) = accepted (hist pj) ++ inflight pj.
Proof.
  intros H Hp He j pj Hj. destruct (Nat.eq_dec i j) as [->|Hne].
  - rewrite (nth_error_set_nth_eq _ _ _ _ Hp) in Hj. inversion Hj; subst. rewrite He. apply (i_own _ s H j p Hp).
  - rewrite nth_error_set_nth_neq in Hj by auto. apply (i_own _ s H j pj Hj).
Qed.

Lemma prog_upd progs s i p p' :
  Inv progs s -> nth_error (prods s) i = Some p ->
  map fst (hist p') ++ todo p' = map fst (hist p) ++ todo p ->
  forall j pj, nth_error (set_nth i p' (prods s)) j = Some pj ->
               map fst (hist pj) ++ todo pj = nth j progs [].
Proof.
  intros H Hp He j pj Hj. destruct (Nat.eq_dec i j) as [->|Hne].
  - rewrite (nth_error_set_nth_eq _ _ _ _ Hp) in Hj. inversion Hj; subst. rewrite He. apply (i_prog _ s H j p Hp).
  - rewrite nth_error_set_nth_neq in Hj by auto. apply (i_prog _ s H j pj Hj).
Qed.

Lemma fin_prog p r : todo p <> [] -> map fst (hist (fin r p)) ++ todo (fin r p) = map fst (hist p) ++ todo p.
Proof.
  intros Hn. unfold fin, cur; simpl. destruct (todo p) as [|e t]; [congruence|]. simpl.
  rewrite map_app, <- app_assoc. reflexivity.
Qed.

Lemma upd_same f k v : upd f k v k = v.
Proof. unfold upd. rewrite Z.eqb_refl. reflexivity. Qed.
Lemma upd_other f k v j : j <> k -> upd f k v j = f j.
Proof. unfold upd. intros. destruct (j =? k) eqn:E; auto. apply Z.eqb_eq in E. congruence. Qed.

Ltac own_same H Hp := eapply own_upd; [exact H | exact Hp | unfold inflight; simpl; try rewrite accepted_app; simpl; rewrite ?app_nil_r; auto].
Ltac prog_same H Hp := eapply prog_upd; [exact H | exact Hp | simpl; auto].

Lemma pstep_inv progs i s : Inv progs s -> Inv progs (pstep i s).
Proof.
  intros H. unfold pstep. destruct (nth_error (prods s) i) as [p|] eqn:Hp; auto.
  pose proof (i_pc _ s H i p Hp) as Hpc. unfold pc_ok in Hpc.
  pose proof (i_lock _ s H i p Hp) as Hlk.
  pose proof (i_ht _ s H) as Hht. pose proof (i_le _ s H) as Hle. pose proof (i_len _ s H) as Hlen.
  pose proof (i_cap _ s H) as Hcap.
  pose proof (i_own _ s H i p Hp) as Hown. unfold inflight in Hown.
  destruct (pc p) eqn:Epc; simpl in Hlk.
  - (* PIdle: try to take the lock *)
    destruct (todo p) eqn:Et; auto. destruct (lock s) eqn:El; auto.
    constructor; simpl; rewrite ?set_nth_length; try apply H.
    + eapply lock_upd; eauto; simpl; intuition.
    + eapply pcs_upd; [exact H | exact Hp | unfold pc_ok; simpl; rewrite Et; discriminate | right; intros q Hq; unfold pc_ok in *; destruct (pc q); simpl; auto].
    + eapply own_upd; [exact H | exact Hp | unfold inflight; simpl; rewrite Epc; auto].
    + prog_same H Hp.
  - (* PLocked: load tail *)
    assert (El : lock s = Some i) by (apply Hlk; auto).
    constructor; simpl; rewrite ?set_nth_length; try apply H.
    + eapply lock_upd; eauto; simpl; intuition.
    + eapply pcs_upd; [exact H | exact Hp | unfold pc_ok; simpl; auto | left; rewrite Epc; auto].
    + eapply own_upd; [exact H | exact Hp | unfold inflight; simpl; rewrite Epc; auto].
    + prog_same H Hp.
  - (* PTail: load head, full check *)
    assert (El : lock s = Some i) by (apply Hlk; auto). destruct Hpc as [Hne ->].
    destruct (tail s - head s >=? cap s) eqn:Ef.
    + constructor; simpl; rewrite ?set_nth_length; try apply H.
      * eapply lock_upd; eauto; simpl; intuition congruence.
      * eapply pcs_upd; [exact H | exact Hp | unfold pc_ok; simpl; auto | left; rewrite Epc; auto].
      * eapply own_upd; [exact H | exact Hp | unfold inflight; simpl; rewrite Epc; auto].
      * prog_same H Hp.
    + rewrite Z.geb_leb in Ef; apply Z.leb_gt in Ef.
      constructor; simpl; rewrite ?set_nth_length; try apply H.
      * eapply lock_upd; eauto; simpl; intuition.
      * eapply pcs_upd; [exact H | exact Hp | unfold pc_ok; simpl; repeat split; auto; lia | left; rewrite Epc; auto].
      * eapply own_upd; [exact H | exact Hp | unfold inflight; simpl; rewrite Epc; auto].
      * prog_same H Hp.
  - (* PFull: unlock, result false *)
    assert (El : lock s = Some i) by (apply Hlk; auto).
    constructor; simpl; rewrite ?set_nth_length; try apply H.
    + eapply lock_upd; eauto; simpl; intuition congruence.
    + eapply pcs_upd; [exact H | exact Hp | unfold pc_ok; simpl; auto | left; rewrite Epc; auto].
    + eapply own_upd; [exact H | exact Hp | unfold inflight; simpl; rewrite Epc, accepted_app; simpl; rewrite ?app_nil_r; auto].
    + eapply prog_upd; [exact H | exact Hp | apply fin_prog; auto].
  - (* PChk: store field 1 *)
    assert (El : lock s = Some i) by (apply Hlk; auto). destruct Hpc as [Hne [-> Hroom]].
    constructor; simpl; rewrite ?set_nth_length; try apply H.
    + intros j Hj. rewrite upd_other. apply (i_slots _ s H); auto. apply mod_neq; lia.
    + eapply lock_upd; eauto; simpl; intuition.
    + eapply pcs_upd; [exact H | exact Hp | unfold pc_ok; simpl; rewrite upd_same; simpl; auto | left; rewrite Epc; auto].
    + eapply own_upd; [exact H | exact Hp | unfold inflight; simpl; rewrite Epc; auto].
    + prog_same H Hp.
  - (* PW1: store field 2 *)
    assert (El : lock s = Some i) by (apply Hlk; auto). destruct Hpc as [Hne [-> [Hroom Hf1]]].
    constructor; simpl; rewrite ?set_nth_length; try apply H.
    + intros j Hj. rewrite upd_other. apply (i_slots _ s H); auto. apply mod_neq; lia.
    + eapply lock_upd; eauto; simpl; intuition.
    + eapply pcs_upd; [exact H | exact Hp | unfold pc_ok; simpl; rewrite upd_same; simpl; auto | left; rewrite Epc; auto].
    + eapply own_upd; [exact H | exact Hp | unfold inflight; simpl; rewrite Epc; auto].
    + prog_same H Hp.
  - (* PW2: store field 3 *)
    assert (El : lock s = Some i) by (apply Hlk; auto). destruct Hpc as [Hne [-> [Hroom [Hf1 Hf2]]]].
    constructor; simpl; rewrite ?set_nth_length; try apply H.
    + intros j Hj. rewrite upd_other. apply (i_slots _ s H); auto. apply mod_neq; lia.
    + eapply lock_upd; eauto; simpl; intuition.
    + eapply pcs_upd; [exact H | exact Hp | unfold pc_ok; simpl; rewrite upd_same, Hf1, Hf2, elem_eta; auto | left; rewrite Epc; auto].
    + eapply own_upd; [exact H | exact Hp | unfold inflight; simpl; rewrite Epc; auto].
    + prog_same H Hp.
  - (* PW3: publish: tail++ (ghost: log ++ [(i, cur)]) *)
    assert (El : lock s = Some i) by (apply Hlk; auto). destruct Hpc as [Hne [-> [Hroom Hslot]]].
    constructor; simpl; rewrite ?set_nth_length; try apply H; try lia.
    + rewrite app_length; simpl. lia.
    + intros j Hj. unfold lg; simpl.
      destruct (Z.eq_dec j (tail s)) as [->|Hne'].
      * rewrite Hslot, Hlen. rewrite lg_app_new. reflexivity.
      * rewrite lg_app_old by lia. apply (i_slots _ s H). lia.
    + eapply lock_upd; eauto; simpl; intuition.
    + eapply pcs_upd; [exact H | exact Hp | unfold pc_ok; simpl; auto | left; rewrite Epc; auto].
    + eapply c_ok_ext; [ | | | | | apply (i_cons _ s H)]; simpl; auto; try lia.
      intros h Hh. unfold lg; simpl. rewrite lg_app_old by lia. reflexivity.
    + rewrite firstn_app_old by lia. apply H.
    + intros j pj Hj. rewrite owned_app; simpl. destruct (Nat.eq_dec i j) as [->|Hne'].
      * rewrite (nth_error_set_nth_eq _ _ _ _ Hp) in Hj. inversion Hj; subst. rewrite Nat.eqb_refl.
        unfold inflight; simpl. rewrite Hown, app_nil_r. reflexivity.
      * rewrite nth_error_set_nth_neq in Hj by auto.
        assert (En : Nat.eqb i j = false) by (apply Nat.eqb_neq; auto). rewrite En, app_nil_r.
        apply (i_own _ s H j pj Hj).
    + prog_same H Hp.
    + intros x Hx. apply in_app_or in Hx. destruct Hx as [Hx|[<-|[]]].
      * apply (i_logown _ s H x Hx).
      * simpl. rewrite <- (i_np _ s H). apply nth_error_Some. congruence.
  - (* PInc: unlock, result true *)
    assert (El : lock s = Some i) by (apply Hlk; auto).
    constructor; simpl; rewrite ?set_nth_length; try apply H.
    + eapply lock_upd; eauto; simpl; intuition congruence.
    + eapply pcs_upd; [exact H | exact Hp | unfold pc_ok; simpl; auto | left; rewrite Epc; auto].
    + eapply own_upd; [exact H | exact Hp | unfold inflight; simpl; rewrite Epc, accepted_app; simpl; rewrite ?app_nil_r; auto].
    + eapply prog_upd; [exact H | exact Hp | apply fin_prog; auto].
Qed.

(* ---------- every reachable state ---------- *)
Lemma init_inv c progs n : 0 < c -> Inv progs (init c progs n).
Proof.
  intros Hc. constructor; simpl; try lia; try solve [intros x []].
  - intros i p Hp. rewrite nth_error_map in Hp. destruct (nth_error progs i); inversion Hp; subst; simpl.
    split; discriminate.
  - intros i p Hp. rewrite nth_error_map in Hp. destruct (nth_error progs i); inversion Hp; subst.
    unfold pc_ok; simpl; auto.
  - unfold c_ok; simpl; auto.
  - reflexivity.
  - intros i p Hp. rewrite nth_error_map in Hp. destruct (nth_error progs i); inversion Hp; subst. reflexivity.
  - intros i p Hp. rewrite nth_error_map in Hp. destruct (nth_error progs i) eqn:E; inversion Hp; subst. simpl.
    symmetry. apply nth_error_nth with (d := []) in E. exact E.
  - apply map_length.
Qed.

Lemma step_inv progs s w : Inv progs s -> Inv progs (step s w).
Proof. destruct w; simpl; [apply pstep_inv | apply cstep_inv]. Qed.

Theorem run_inv c progs n sched : 0 < c -> Inv progs (run sched (init c progs n)).
Proof.
  intros Hc. unfold run. generalize (init_inv c progs n Hc). generalize (init c progs n).
  induction sched as [|w sched IH]; simpl; intros s H; auto. apply IH, step_inv, H.
Qed.

Lemma cap_step s w : cap (step s w) = cap s.
Proof.
  destruct w; simpl; [unfold pstep | unfold cstep].
  - destruct (nth_error (prods s) n); auto. destruct (pc p); simpl; auto.
    + destruct (todo p); auto. destruct (lock s); auto.
    + destruct (_ >=? _); auto.
  - destruct (cpc_ s); simpl; auto. destruct (ctodo s); auto. destruct (_ >=? _); auto.
Qed.
Lemma cap_run sched s : cap (run sched s) = cap s.
Proof. revert s; induction sched as [|w l IH]; simpl; intros s; auto. rewrite IH. apply cap_step. Qed.

(* ---------- the statements of C04 ---------- *)

(* (a) delivery: the popped elements are exactly a prefix of the publication log, in order; hence
       every element is returned at most once, intact, and in the order of the tail increments. *)
Theorem delivery c progs n sched :
  0 < c -> let s := run sched (init c progs n) in
  pops (out s) = map snd (firstn (Z.to_nat (head s)) (log s)).
Proof. intros Hc s. apply (run_inv c progs n sched Hc). Qed.

(* (b) bound *)
Theorem bound c progs n sched :
  0 < c -> let s := run sched (init c progs n) in 0 <= tail s - head s <= c.
Proof.
  intros Hc s. pose proof (run_inv c progs n sched Hc) as H. fold s in H.
  pose proof (i_ht _ s H). pose proof (i_le _ s H).
  assert (cap s = c) by (unfold s; rewrite cap_run; reflexivity). lia.
Qed.

(* (c) the log restricted to producer i is exactly the list of elements of i's successful puts, in
       program order (plus the one being published right now), and i's finished operations are a
       prefix of its program: nothing invented, nothing duplicated, per-producer order kept. *)
Theorem per_producer c progs n sched i p :
  0 < c -> let s := run sched (init c progs n) in
  nth_error (prods s) i = Some p ->
  owned i (log s) = accepted (hist p) ++ inflight p /\ map fst (hist p) ++ todo p = nth i progs [].
Proof.
  intros Hc s Hp. pose proof (run_inv c progs n sched Hc) as H. fold s in H. split.
  - apply (i_own _ s H i p Hp).
  - apply (i_prog _ s H i p Hp).
Qed.

(* (d) honest "full": a put takes the ErrQueueFull branch only from a state in which the queue
       holds exactly cap elements (at the instant of its load of head). *)
Theorem honest_full c progs n sched i p p' :
  0 < c -> let s := run sched (init c progs n) in
  nth_error (prods s) i = Some p -> nth_error (prods (pstep i s)) i = Some p' ->
  pc p' = PFull -> pc p <> PFull -> tail s - head s = cap s.
Proof.
  intros Hc s Hp Hp' Hfull Hnot. pose proof (run_inv c progs n sched Hc) as H. fold s in H.
  pose proof (i_pc _ s H i p Hp) as Hpc. pose proof (i_le _ s H) as Hle.
  unfold pstep in Hp'. rewrite Hp in Hp'. unfold pc_ok in Hpc.
  destruct (pc p) eqn:Epc; try congruence;
    try (unfold setp in Hp'; simpl in Hp'; rewrite (nth_error_set_nth_eq _ _ _ _ Hp) in Hp';
         inversion Hp'; subst p'; simpl in Hfull; discriminate).
  - destruct (todo p); [rewrite Hp in Hp'; inversion Hp'; subst; congruence|].
    destruct (lock s).
    + rewrite Hp in Hp'; inversion Hp'; subst; congruence.
    + unfold setp in Hp'; simpl in Hp'; rewrite (nth_error_set_nth_eq _ _ _ _ Hp) in Hp'.
      inversion Hp'; subst p'; simpl in Hfull; discriminate.
  - destruct Hpc as [_ ->]. destruct (tail s - head s >=? cap s) eqn:Ef.
    + rewrite Z.geb_leb in Ef. apply Z.leb_le in Ef. lia.
    + unfold setp in Hp'; simpl in Hp'; rewrite (nth_error_set_nth_eq _ _ _ _ Hp) in Hp'.
      inversion Hp'; subst p'; simpl in Hfull; discriminate.
Qed.

(* (e) mutual exclusion of producers inside put *)
Theorem put_mutex c progs n sched i j pi pj :
  0 < c -> let s := run sched (init c progs n) in
  nth_error (prods s) i = Some pi -> nth_error (prods s) j = Some pj ->
  in_cs (pc pi) = true -> in_cs (pc pj) = true -> i = j.
Proof.
  intros Hc s Hi Hj Ci Cj. pose proof (run_inv c progs n sched Hc) as H. fold s in H.
  apply (i_lock _ s H i pi Hi) in Ci. apply (i_lock _ s H j pj Hj) in Cj. congruence.
Qed.

(* every log entry belongs to an existing producer (nothing invented) *)
Theorem log_owned c progs n sched x :
  0 < c -> let s := run sched (init c progs n) in In x (log s) -> (fst x < length progs)%nat.
Proof. intros Hc s Hx. apply (i_logown _ s (run_inv c progs n sched Hc) x Hx). Qed.
