(* C09 at the granularity of the code's critical sections: the slot-ownership invariant for every
   interleaving of user calls (any number of stream objects / owners) with the two event loops. *)
From Coq Require Import List ZArith Lia Bool Arith Permutation.
From Shm Require Import Gen.Consts Model.Accounting Model.AccountingConc Proofs.AccountingProofs.
Import ListNotations.
Open Scope Z_scope.

Definition CW (x : Z) (s : cst) : nat :=
  (cnt x (cfree s) + cnt x (cext s) + cnt x (cleaked s) + cnt x (qslots (cq_srv s)) + cnt x (qslots (cq_cli s)) +
   cnt x (lslots (loop_c s)) + cnt x (lslots (loop_s s)) + cnt x (obj_slots s))%nat.
Lemma cnt_call x s : cnt x (call_slots s) = CW x s.
Proof. unfold call_slots, CW. rewrite !cnt_app. lia. Qed.

Lemma memk_seq k n : memk k (seq 0 n) = Nat.ltb k n.
Proof.
  destruct (Nat.ltb k n) eqn:E.
  - apply memk_in. apply in_seq. apply Nat.ltb_lt in E. lia.
  - destruct (memk k (seq 0 n)) eqn:M; [| reflexivity]. apply memk_in, in_seq in M. apply Nat.ltb_ge in E. lia.
Qed.

Lemma CW_set_obj x o v s : (o < nobjs s)%nat ->
  (CW x (set_obj o v s) + cnt x (oslots (objs s o)) = CW x s + cnt x (oslots v))%nat.
Proof.
  intro Ho. unfold CW. cbn [set_obj cfree cext cleaked cq_srv cq_cli loop_c loop_s].
  assert (E : (cnt x (obj_slots (set_obj o v s)) + cnt x (oslots (objs s o)) = cnt x (obj_slots s) + cnt x (oslots v))%nat); [| lia].
  unfold obj_slots. rewrite !cnt_flat_map. cbn [set_obj nobjs objs].
  pose proof (fold_cnt_update x (fun j => oslots (updn (objs s) o v j)) (fun j => oslots (objs s j)) o (seq 0 (nobjs s)) (seq_NoDup _ _)) as F.
  specialize (F ltac:(intros j Hj; cbn beta; rewrite updn_neq by exact Hj; reflexivity)). cbn beta in F.
  rewrite updn_eq, memk_seq in F. apply Nat.ltb_lt in Ho. rewrite Ho in F. lia.
Qed.

Lemma CW_new_obj x v s : CW x (new_obj v s) = (CW x s + cnt x (oslots v))%nat.
Proof.
  unfold CW. cbn [new_obj cfree cext cleaked cq_srv cq_cli loop_c loop_s].
  assert (E : cnt x (obj_slots (new_obj v s)) = (cnt x (obj_slots s) + cnt x (oslots v))%nat); [| lia].
  unfold obj_slots. cbn [new_obj nobjs objs]. rewrite seq_S, flat_map_app, cnt_app. cbn [flat_map Nat.add]. rewrite app_nil_r, updn_eq.
  f_equal. rewrite !cnt_flat_map. 
  assert (G : forall l, (forall j, In j l -> j <> nobjs s) ->
     fold_right (fun a n => (cnt x (oslots (updn (objs s) (nobjs s) v a)) + n)%nat) O l =
     fold_right (fun a n => (cnt x (oslots (objs s a)) + n)%nat) O l).
  { induction l as [|a l IH]; intro Hl; cbn [fold_right]; [reflexivity |].
    rewrite updn_neq by (apply Hl; left; reflexivity). rewrite IH; [reflexivity | intros j Hj; apply Hl; right; exact Hj]. }
  apply G. intros j Hj. apply in_seq in Hj. lia.
Qed.

Lemma CW_set_tbl x k v s : CW x (set_tbl k v s) = CW x s.
Proof. reflexivity. Qed.
Lemma CW_add_free x l s : CW x (cadd_free l s) = (CW x s + cnt x l)%nat.
Proof. unfold CW. cbn [cadd_free cfree cext cleaked cq_srv cq_cli loop_c loop_s]. unfold obj_slots. cbn [cadd_free nobjs objs]. rewrite cnt_app. lia. Qed.
Lemma CW_add_leaked x l s : CW x (cadd_leaked l s) = (CW x s + cnt x l)%nat.
Proof. unfold CW. cbn [cadd_leaked cfree cext cleaked cq_srv cq_cli loop_c loop_s]. unfold obj_slots. cbn [cadd_leaked nobjs objs]. rewrite cnt_app. lia. Qed.
Lemma CW_set_free_ext x f e s :
  (CW x (cset_free_ext f e s) + cnt x (cfree s) + cnt x (cext s) = CW x s + cnt x f + cnt x e)%nat.
Proof. unfold CW. cbn [cset_free_ext cfree cext cleaked cq_srv cq_cli loop_c loop_s]. unfold obj_slots. cbn [cset_free_ext nobjs objs]. lia. Qed.
Lemma CW_set_queue x t q s :
  (CW x (cset_queue t q s) + cnt x (qslots (cqueue_to t s)) = CW x s + cnt x (qslots q))%nat.
Proof. unfold CW, cqueue_to. cbn [cset_queue cfree cext cleaked cq_srv cq_cli loop_c loop_s]. unfold obj_slots. cbn [cset_queue nobjs objs]. destruct t; lia. Qed.
Lemma CW_set_loop x e l s :
  (CW x (set_loop e l s) + cnt x (lslots (loop_of e s)) = CW x s + cnt x (lslots l))%nat.
Proof. unfold CW, loop_of. cbn [set_loop cfree cext cleaked cq_srv cq_cli loop_c loop_s]. unfold obj_slots. cbn [set_loop nobjs objs]. destruct e; lia. Qed.
Lemma CW_enqueue x t el s s1 :
  cqueue_to t s1 = cqueue_to t s ->
  CW x (cset_queue t (cqueue_to t s ++ [el]) s1) = (CW x s1 + cnt x (map fst (q_chain el)))%nat.
Proof.
  intro E. pose proof (CW_set_queue x t (cqueue_to t s ++ [el]) s1) as Q. rewrite E in Q.
  rewrite qslots_app, cnt_app in Q. unfold qslots at 3 in Q. cbn [flat_map] in Q. rewrite app_nil_r in Q. lia.
Qed.
Lemma CW_set_sock x t l s : CW x (set_sock t l s) = CW x s.
Proof. reflexivity. Qed.
Lemma CW_push_sock x t i s : CW x (push_sock t i s) = CW x s.
Proof. reflexivity. Qed.
Global Opaque CW.

(* table entries and loop registers point to existing objects *)
Definition TV (s : cst) : Prop := forall k o, tbl s k = Some o -> (o < nobjs s)%nat.

Lemma valid_lt o s : valid o s = true -> (o < nobjs s)%nat.
Proof. unfold valid. apply Nat.ltb_lt. Qed.
Lemma usable_lt o s : usable o s = true -> (o < nobjs s)%nat.
Proof. unfold usable. rewrite !andb_true_iff. intros [[H _] _]. apply valid_lt, H. Qed.

Ltac use_obj_at x o nv s Hv :=
    let H := fresh "HW" in let T := fresh "T" in
    pose proof (CW_set_obj x o nv s Hv) as H; set (T := CW x (set_obj o nv s)) in *; clearbody T;
    unfold oslots in H; cbn [upd_obj sent with_cpc with_flags osendb orecvb opinned opend] in H; rewrite ?cnt_app, ?pslots_app in H; rewrite ?cnt_app in H.
Ltac use_obj Hv :=
  match goal with
  | |- context [CW ?x (set_obj ?o ?nv ?s)] => use_obj_at x o nv s Hv
  | _ : context [CW ?x (set_obj ?o ?nv ?s)] |- _ => use_obj_at x o nv s Hv
  end.

Lemma TV_frame s s' : tbl s' = tbl s -> nobjs s' = nobjs s -> TV s -> TV s'.
Proof. intros A B H k o. rewrite A, B. apply H. Qed.
Lemma TV_new_obj v s : TV s -> TV (new_obj v s).
Proof.
  intros H k o. cbn [new_obj tbl nobjs]. unfold updn. destruct (Nat.eqb k (key (oe v) (osid v))).
  - intro E. inversion E. lia.
  - intro E. specialize (H k o E). lia.
Qed.
Lemma TV_set_tbl_none k s : TV s -> TV (set_tbl k None s).
Proof. intros H j o. cbn [set_tbl tbl nobjs]. unfold updn. destruct (Nat.eqb j k); [discriminate | apply H]. Qed.

Ltac tvf := eapply TV_frame; [reflexivity | reflexivity |].

Lemma sock_data_W x e sid b s : TV s -> TV (sock_data e sid b s) /\ CW x (sock_data e sid b s) = CW x s.
Proof.
  intro V. unfold sock_data. destruct (tbl s (key e sid)) as [o|] eqn:E.
  - split; [tvf; exact V |]. use_obj (V _ _ E). cbn in HW. lia.
  - destruct e; [| split; [exact V | reflexivity]]. split; [apply TV_new_obj; exact V |]. rewrite CW_new_obj. cbn. lia.
Qed.
Lemma sock_close_W x e sid s : TV s -> TV (sock_close e sid s) /\ CW x (sock_close e sid s) = CW x s.
Proof.
  intro V. unfold sock_close. destruct (tbl s (key e sid)) as [o|] eqn:E; [| split; [exact V | reflexivity]].
  split; [tvf; exact V |]. use_obj (V _ _ E). lia.
Qed.

Lemma c_poll_one_W e s s' : TV s -> c_poll_one e s = Some s' -> TV s' /\ forall x, CW x s' = CW x s.
Proof.
  intros V E.
  unfold c_poll_one in E. destruct (loop_of e s) eqn:L; try discriminate.
    destruct (cqueue_to e s) as [|q rest] eqn:Q; [discriminate |].
    assert (V0 : TV (cset_queue e rest s)) by (tvf; exact V).
    assert (W0 : forall x, (CW x (cset_queue e rest s) + cnt x (map fst (q_chain q)) = CW x s)%nat).
    { intro x. pose proof (CW_set_queue x e rest s) as H. rewrite Q in H. unfold qslots at 1 in H. cbn [flat_map] in H.
      fold (qslots rest) in H. rewrite cnt_app in H. lia. }
    destruct (q_closed q).
    { inversion E; subst; clear E. split; [tvf; apply (proj1 (sock_close_W 0 _ _ _ V0)) |]. intro x.
      rewrite CW_add_free, (proj2 (sock_close_W x _ _ _ V0)). apply W0. }
    assert (L0 : forall x, cnt x (lslots (loop_of e (cset_queue e rest s))) = O).
    { intro x. replace (loop_of e (cset_queue e rest s)) with (loop_of e s) by (destruct e; reflexivity). rewrite L. reflexivity. }
    destruct (tbl s (key e (q_sid q))) as [o|] eqn:T.
    { inversion E; subst; clear E. split; [tvf; exact V0 |]. intro x.
      pose proof (CW_set_loop x e (LHave o (PShm (q_chain q))) (cset_queue e rest s)) as H. rewrite L0 in H.
      cbn [lslots pslots flat_map] in H. rewrite app_nil_r in H. specialize (W0 x). lia. }
    destruct e; inversion E; subst; clear E.
    + split; [tvf; apply TV_new_obj; exact V0 |]. intro x.
      pose proof (CW_set_loop x true (LHave (nobjs (cset_queue true rest s)) (PShm (q_chain q))) (new_obj (fresh_obj true (q_sid q)) (cset_queue true rest s))) as H.
      replace (loop_of true (new_obj (fresh_obj true (q_sid q)) (cset_queue true rest s))) with (loop_of true s) in H by reflexivity.
      rewrite L in H. cbn [lslots pslots flat_map] in H. rewrite app_nil_r, CW_new_obj in H. cbn in H. specialize (W0 x). cbn in W0. lia.
    + split; [tvf; exact V0 |]. intro x. rewrite CW_add_free. apply W0.
Qed.

Definition CInv (n : nat) (s : cst) : Prop := TV s /\ forall x, CW x s = cnt x (iota n).

Lemma cinv_perm n s : CInv n s -> Permutation (call_slots s) (iota n).
Proof. intros [_ H]. apply (Permutation_count_occ Z.eq_dec). intro x. fold (cnt x (call_slots s)). rewrite cnt_call. apply H. Qed.

Lemma cinv_nodup n s : CInv n s -> NoDup (cfree s) /\ NoDup (cext s).
Proof.
  intro I. pose proof (cinv_perm n s I) as P. apply Permutation_sym in P.
  pose proof (Permutation_NoDup P (iota_nodup n)) as N. unfold call_slots in N.
  split; [apply nodup_app_l in N; exact N |].
  apply nodup_app_r in N. apply nodup_app_l in N. exact N.
Qed.

Lemma cstep_W n s l s' : CInv n s -> cstep s l = Some s' -> TV s' /\ forall x, CW x s' = CW x s.
Proof.
  intros I E. pose proof I as [V _]. destruct (cinv_nodup n s I) as [Nf Ne]. destruct l; cbn [cstep] in E.
  - (* COpen *) unfold c_open in E. destruct (tbl s (key false sid)); [discriminate |]. inversion E; subst.
    split; [apply TV_new_obj; exact V |]. intro x. rewrite CW_new_obj. cbn. lia.
  - (* CWrite *) unfold c_write in E.
    set (ac := valid o s && oclosed (objs s o) && Nat.eqb (ocpc (objs s o)) 6) in *.
    destruct (ac && cgx s); [inversion E; subst; split; [exact V | reflexivity] |].
    destruct (usable o s || ac) eqn:U; cbn [negb] in E; [| discriminate].
    destruct (subsetb new (cfree s) && nodupb new) eqn:C; cbn [negb] in E; [| discriminate].
    apply andb_true_iff in C. destruct C as [C1 C2]. inversion E; subst; clear E.
    split; [tvf; exact V |]. intro x.
    assert (Hv : (o < nobjs (cset_free_ext (minus_list (cfree s) new) (cext s) s))%nat).
    { apply orb_true_iff in U. destruct U as [U|U]; [apply usable_lt; exact U |].
      unfold ac in U. rewrite !andb_true_iff in U. apply valid_lt, U. }
    use_obj Hv. pose proof (CW_set_free_ext x (minus_list (cfree s) new) (cext s) s) as F.
    pose proof (cnt_minus x (cfree s) new Nf C2 C1) as M.
    change (objs (cset_free_ext (minus_list (cfree s) new) (cext s) s) o) with (objs s o) in HW.
    unfold oslots in HW. rewrite ?cnt_app in HW. lia.
  - (* CFlush *) unfold c_flush in E. set (v := objs s o) in *.
    destruct (valid o s && (Nat.eqb (ocpc v) 0 || Nat.eqb (ocpc v) 6)) eqn:U; cbn [negb] in E; [| discriminate].
    apply andb_true_iff in U. destruct U as [U _]. apply valid_lt in U.
    destruct (sumz sizes <=? 0); [inversion E; subst; split; [exact V | reflexivity] |].
    destruct (oclosed v || ohalf v).
    { inversion E; subst; clear E. split; [tvf; exact V |]. intro x. rewrite CW_add_free. use_obj U. fold v in HW.
      unfold oslots in HW. rewrite ?cnt_app in HW. cbn in HW. lia. }
    destruct (osheap v || oinfb v).
    { inversion E; subst; clear E. split; [tvf; exact V |]. intro x. rewrite CW_push_sock, CW_add_free.
      use_obj U. fold v in HW. unfold oslots in HW. rewrite ?cnt_app in HW. cbn in HW. lia. }
    destruct (Z.of_nat (length (cqueue_to (negb (oe v)) s)) >=? cqcap s); inversion E; subst; clear E.
    + split; [tvf; exact V |]. intro x. rewrite !CW_add_free. pose proof (cnt_firstn_skipn x (S wpos) (osendb v)) as FS.
      use_obj U. fold v in HW. unfold oslots in HW. rewrite ?cnt_app in HW. cbn in HW. cbn [firstn skipn] in *. lia.
    + split; [tvf; exact V |]. intro x. rewrite CW_enqueue by (destruct (oe v); reflexivity). cbn [q_chain].
      rewrite map_fst_zip_pad, CW_add_free. pose proof (cnt_firstn_skipn x (S wpos) (osendb v)) as FS.
      use_obj U. fold v in HW. unfold oslots in HW. rewrite ?cnt_app in HW. cbn in HW. cbn [firstn skipn] in *. lia.
  - (* PollOne *) apply (c_poll_one_W e s s' V E).
  - (* LoopAdd *) unfold c_loop_add in E. destruct (loop_of e s) as [|o p|] eqn:L; try discriminate.
    destruct (valid o s) eqn:U; cbn [negb] in E; [| discriminate]. apply valid_lt in U. inversion E; subst; clear E.
    split; [tvf; exact V |]. intro x.
    match goal with |- CW x (set_loop e ?l ?s1) = _ => pose proof (CW_set_loop x e l s1) as H end.
    replace (loop_of e (set_obj o _ s)) with (loop_of e s) in H by (destruct e; reflexivity). rewrite L in H.
    cbn [lslots] in H. rewrite cnt_nil in H.
    use_obj U. unfold oslots in HW. rewrite ?cnt_app in HW. lia.
  - (* LoopCheck *) unfold c_loop_check in E. destruct (loop_of e s) as [| |o] eqn:L; try discriminate.
    destruct (valid o s) eqn:U; cbn [negb] in E; [| discriminate]. apply valid_lt in U.
    destruct (oclosed (objs s o)); inversion E; subst; clear E.
    + split; [tvf; exact V |]. intro x.
      match goal with |- CW x (set_loop e ?l ?s1) = _ => pose proof (CW_set_loop x e l s1) as H end.
      match type of H with context [loop_of e ?s1] => replace (loop_of e s1) with (loop_of e s) in H by (destruct e; reflexivity) end.
      rewrite L in H. cbn [lslots] in H. rewrite cnt_nil in H. rewrite CW_add_free in H.
      use_obj U. unfold oslots in HW. rewrite ?cnt_app in *. destruct (cfx s); cbn in HW; rewrite ?cnt_nil in *; lia.
    + split; [tvf; exact V |]. intro x. pose proof (CW_set_loop x e LIdle s) as H. rewrite L in H. cbn in H. lia.
  - (* SockStep *) unfold c_sock_step in E. destruct (loop_of e s) eqn:L; try discriminate.
    destruct (sock_to e s) as [|i rest]; [discriminate |].
    destruct (cqueue_to e s) as [|q0 qr] eqn:Q; [| apply (c_poll_one_W e s s' V E)].
    assert (V0 : TV (set_sock e rest s)) by (tvf; exact V).
    destruct i; inversion E; subst; clear E.
    + split; [apply (proj1 (sock_data_W 0 _ _ _ _ V0)) |]. intro x. rewrite (proj2 (sock_data_W x _ _ _ _ V0)). apply CW_set_sock.
    + split; [apply (proj1 (sock_close_W 0 _ _ _ V0)) |]. intro x. rewrite (proj2 (sock_close_W x _ _ _ V0)). apply CW_set_sock.
  - (* MoveTo *) unfold c_moveto in E. destruct (usable o s) eqn:U; cbn [negb] in E; [| discriminate]. apply usable_lt in U.
    pose proof (fun x => move_fold_cnt x (opend (objs s o)) (orecvb (objs s o)) [] (oinfb (objs s o))) as HM.
    destruct (fold_left _ (opend (objs s o)) (orecvb (objs s o), [], oinfb (objs s o))) as [[rb fr0] fb].
    inversion E; subst; clear E. split; [tvf; exact V |]. intro x. rewrite CW_add_free. specialize (HM x).
    use_obj U. unfold oslots in HW. rewrite ?cnt_app in HW. cbn in HW. rewrite ?cnt_nil in *. lia.
  - (* ReadK *) unfold c_readk in E. destruct (usable o s) eqn:U; cbn [negb] in E; [| discriminate]. apply usable_lt in U.
    inversion E; subst; clear E. split; [tvf; exact V |]. intro x. rewrite CW_add_free.
    set (v := objs s o) in *.
    set (r0 := {| r_buf := orecvb v; r_pin := opinned v; r_free := []; r_cpin := ocpin v |}).
    set (r1 := if (0 <? k) && (k <=? sumz (map rs_bytes (orecvb v))) then do_read_kind kind k r0 else r0).
    assert (HR : rq x r1 = rq x r0) by (unfold r1; destruct (_ && _); [apply do_read_kind_rq | reflexivity]).
    unfold rq in HR. cbn [r0 r_buf r_pin r_free] in HR. rewrite cnt_nil in HR.
    use_obj U. fold v in HW. unfold oslots in HW. rewrite ?cnt_app in HW. lia.
  - (* CRelease *) unfold c_release in E. destruct (usable o s) eqn:U; cbn [negb] in E; [| discriminate]. apply usable_lt in U.
    destruct (match orecvb (objs s o) with [a] => rs_bytes a =? 0 | _ => false end); inversion E; subst; clear E;
      (split; [tvf; exact V |]); intro x; rewrite CW_add_free; use_obj U; unfold oslots in HW; rewrite ?cnt_app in *; cbn in HW; rewrite ?cnt_nil in *; lia.
  - (* CReuse *) unfold c_reuse in E. set (v := objs s o) in *.
    destruct (usable o s && negb (ohalf v) && (sumz (map rs_bytes (orecvb v)) =? 0) && match opend v with [] => true | _ => false end
              && match osendb v with [] => true | _ => false end) eqn:R; cbn [negb] in E; [| discriminate].
    rewrite !andb_true_iff in R. destruct R as [[[[U _] _] Ep] Es]. apply usable_lt in U.
    destruct (opend v) eqn:Epd; [| discriminate]. destruct (osendb v) eqn:Esd; [| discriminate].
    destruct (orecvb v) as [|a [|a' t]] eqn:Erb; [| destruct (rs_slot a) eqn:Ea |]; inversion E; subst; clear E;
      (split; [tvf; exact V |]); intro x; rewrite CW_add_free; use_obj U; fold v in HW; unfold oslots in HW;
      rewrite ?Erb, ?Epd, ?Esd in HW; rewrite ?cnt_app in HW; unfold rslots in HW; cbn [flat_map] in HW; rewrite ?Ea in HW; cbn in HW; rewrite ?cnt_nil in *; lia.
  - (* CloseStep *) unfold c_close_step in E. set (v := objs s o) in *.
    destruct (valid o s) eqn:U; cbn [negb] in E; [| discriminate]. apply valid_lt in U.
    destruct (ocpc v) as [|[|[|[|[|[|m]]]]]] eqn:Pc; try discriminate.
    + destruct (oclosed v); [discriminate |]. inversion E; subst; clear E. split; [tvf; exact V |]. intro x.
      use_obj U. fold v in HW. unfold oslots in HW. rewrite ?cnt_app in HW. lia.
    + inversion E; subst; clear E. split; [apply TV_set_tbl_none; tvf; exact V |]. intro x. rewrite CW_set_tbl.
      use_obj U. fold v in HW. unfold oslots in HW. rewrite ?cnt_app in HW. lia.
    + inversion E; subst; clear E. split; [tvf; exact V |]. intro x. rewrite CW_add_free.
      use_obj U. fold v in HW. unfold oslots in HW. rewrite ?cnt_app in HW. cbn in HW. rewrite ?cnt_nil in *. lia.
    + inversion E; subst; clear E. split; [destruct (cfx s); tvf; exact V |]. intro x.
      destruct (cfx s); rewrite ?CW_add_leaked, ?CW_add_free; use_obj U; fold v in HW; unfold oslots in HW;
        rewrite ?cnt_app in *; cbn in HW; rewrite ?cnt_nil in *; lia.
    + inversion E; subst; clear E. split; [tvf; exact V |]. intro x. rewrite CW_add_free.
      use_obj U. fold v in HW. unfold oslots in HW. rewrite ?cnt_app in HW. cbn in HW. rewrite ?cnt_nil in *. lia.
    + assert (V1 : TV (set_obj o (with_cpc v 6) s)) by (tvf; exact V).
      assert (W1 : forall x, CW x (set_obj o (with_cpc v 6) s) = CW x s).
      { intro x. use_obj U. fold v in HW. unfold oslots in HW. rewrite ?cnt_app in HW. lia. }
      destruct (onotify v); cbn [negb] in E; [| inversion E; subst; split; [exact V1 | exact W1]].
      destruct (oinfb v || _); inversion E; subst; clear E.
      * split; [tvf; exact V1 |]. intro x. rewrite CW_push_sock. apply W1.
      * split; [tvf; exact V1 |]. intro x. rewrite CW_enqueue by (destruct (oe v); reflexivity). cbn. rewrite W1. lia.
  - (* CExtHold *) unfold c_ext_hold in E. destruct (subsetb new (cfree s) && nodupb new) eqn:C; [| discriminate].
    apply andb_true_iff in C. destruct C as [C1 C2]. inversion E; subst; clear E. split; [tvf; exact V |]. intro x.
    pose proof (CW_set_free_ext x (minus_list (cfree s) new) (cext s ++ new) s) as F.
    pose proof (cnt_minus x (cfree s) new Nf C2 C1) as M. rewrite cnt_app in F. lia.
  - (* CExtReturn *) inversion E; subst. split; [tvf; exact V |]. intro x.
    pose proof (CW_set_free_ext x (cfree s ++ cext s) [] s) as F. rewrite cnt_app in F. cbn in F. lia.
  - (* CInject *) unfold c_inject in E.
    destruct (subsetb (map fst chain) (cext s) && nodupb (map fst chain)) eqn:C; cbn [negb] in E; [| discriminate].
    apply andb_true_iff in C. destruct C as [C1 C2].
    destruct (Z.of_nat (length (cqueue_to to_srv s)) >=? cqcap s); [discriminate |]. inversion E; subst; clear E.
    split; [tvf; exact V |]. intro x. rewrite CW_enqueue by (destruct to_srv; reflexivity). cbn [q_chain].
    pose proof (CW_set_free_ext x (cfree s) (minus_list (cext s) (map fst chain)) s) as F.
    pose proof (cnt_minus x (cext s) (map fst chain) Ne C2 C1) as M. lia.
Qed.

Lemma cstep'_inv n s l : CInv n s -> CInv n (cstep' s l).
Proof.
  intro I. unfold cstep'. destruct (cstep s l) as [s'|] eqn:E; [| exact I].
  destruct (cstep_W n s l s' I E) as [K H]. split; [exact K |]. intro x. rewrite H. apply I.
Qed.

Lemma cinit_inv f g n qc : CInv n (cinit f g n qc).
Proof.
  split; [intros k o H; discriminate |]. intro x. rewrite <- cnt_call. unfold call_slots. cbn [cinit cfree cext cleaked cq_srv cq_cli loop_c loop_s].
  unfold obj_slots. cbn [cinit nobjs seq flat_map qslots lslots]. rewrite !app_nil_r. reflexivity.
Qed.

Lemma crun_inv n h : forall s, CInv n s -> CInv n (crun s h).
Proof. induction h as [|l t IH]; intros s I; cbn [crun]; [exact I | apply IH, cstep'_inv, I]. Qed.

(* every slot is in exactly one location, in every interleaving *)
Theorem cinv_thm f g n qc h : Permutation (call_slots (crun (cinit f g n qc) h)) (iota n).
Proof. apply cinv_perm, crun_inv, cinit_inv. Qed.

(* ================= quiescence ================= *)
Definition oj (v : obj) (lc ls : lstate) (o : nat) : Prop :=
  ((1 <= ocpc v)%nat -> oclosed v = true) /\
  ((3 <= ocpc v)%nat -> pslots (opend v) = [] \/ lc = LAdded o \/ ls = LAdded o) /\
  ((4 <= ocpc v)%nat -> rslots (orecvb v) = [] /\ opinned v = []) /\
  ((5 <= ocpc v)%nat -> osendb v = []).

Definition CJ (s : cst) : Prop :=
  (cfx s = true /\ cgx s = true) /\ cleaked s = [] /\ forall o, oj (objs s o) (loop_c s) (loop_s s) o.

Lemma oj_cpc0 v lc ls o : ocpc v = O -> oj v lc ls o.
Proof. intro H. unfold oj. rewrite H. repeat split; intros; lia. Qed.

Ltac oj4 := unfold oj; refine (conj _ (conj _ (conj _ _))); intro Hge.

Lemma oj_same v v' lc ls o :
  ocpc v' = ocpc v -> oclosed v' = oclosed v -> pslots (opend v') = pslots (opend v) ->
  rslots (orecvb v') = rslots (orecvb v) -> opinned v' = opinned v -> osendb v' = osendb v ->
  oj v lc ls o -> oj v' lc ls o.
Proof. intros A B C D E F H. unfold oj in *. rewrite A, B, C, D, E, F. exact H. Qed.

Lemma CJ_frame s s' :
  cfx s' = cfx s -> cgx s' = cgx s -> cleaked s' = cleaked s -> objs s' = objs s -> loop_c s' = loop_c s -> loop_s s' = loop_s s ->
  CJ s -> CJ s'.
Proof. intros A A' B C D E (F & G & H). unfold CJ. rewrite A, A', B, C, D, E. auto. Qed.
Ltac cjf := eapply CJ_frame; [reflexivity | reflexivity | reflexivity | reflexivity | reflexivity | reflexivity |].

Lemma CJ_set_obj o nv s : CJ s -> oj nv (loop_c s) (loop_s s) o -> CJ (set_obj o nv s).
Proof.
  intros (F & G & H) P. split; [exact F | split; [exact G |]]. intro j. cbn [set_obj objs loop_c loop_s].
  destruct (Nat.eq_dec j o) as [->|N]; [rewrite updn_eq; exact P | rewrite updn_neq by exact N; apply H].
Qed.

Lemma CJ_new_obj v s : CJ s -> ocpc v = O -> CJ (new_obj v s).
Proof.
  intros (F & G & H) P. split; [exact F | split; [exact G |]]. intro j. cbn [new_obj objs loop_c loop_s].
  destruct (Nat.eq_dec j (nobjs s)) as [->|N]; [rewrite updn_eq; apply oj_cpc0; exact P | rewrite updn_neq by exact N; apply H].
Qed.

Lemma CJ_set_loop_nonadded e l s :
  (forall o, loop_of e s <> LAdded o) -> CJ s -> CJ (set_loop e l s).
Proof.
  intros N (F & G & H). split; [exact F | split; [exact G |]]. intro o. cbn [set_loop objs loop_c loop_s].
  specialize (H o). unfold oj in *. destruct H as (A & B & C & D). refine (conj A (conj _ (conj C D))).
  intro P. specialize (B P). unfold loop_of in N. destruct e; destruct B as [B|[B|B]]; auto; exfalso; eapply N; eauto.
Qed.

Lemma CJ_set_loop_idle e o s :
  loop_of e s = LAdded o -> CJ s -> ((3 <= ocpc (objs s o))%nat -> pslots (opend (objs s o)) = []) -> CJ (set_loop e LIdle s).
Proof.
  intros L (F & G & H) P. split; [exact F | split; [exact G |]]. intro j. cbn [set_loop objs loop_c loop_s].
  pose proof (H j) as (A & B & C & D). unfold oj. refine (conj A (conj _ (conj C D))).
  intro Q. destruct (Nat.eq_dec j o) as [->|N]; [left; apply P; exact Q |].
  specialize (B Q). unfold loop_of in L. destruct e; destruct B as [B|[B|B]]; auto; rewrite L in B; inversion B; congruence.
Qed.

Lemma CJ_sock_data e sid b s : CJ s -> CJ (sock_data e sid b s).
Proof.
  intro J. unfold sock_data. destruct (tbl s (key e sid)) as [o|].
  - apply CJ_set_obj; [exact J |]. eapply oj_same; [.. | apply J]; cbn [with_flags upd_obj ocpc oclosed opend orecvb opinned osendb]; try reflexivity.
    rewrite pslots_app. cbn. rewrite app_nil_r. reflexivity.
  - destruct e; [apply CJ_new_obj; [exact J | reflexivity] | exact J].
Qed.
Lemma CJ_sock_close e sid s : CJ s -> CJ (sock_close e sid s).
Proof.
  intro J. unfold sock_close. destruct (tbl s (key e sid)) as [o|]; [| exact J].
  apply CJ_set_obj; [exact J |]. eapply oj_same; [.. | apply J]; reflexivity.
Qed.

Ltac user0 J U := apply CJ_set_obj; [exact J | apply oj_cpc0; cbn [upd_obj sent ocpc]; exact U].

Lemma usable_cpc o s : usable o s = true -> ocpc (objs s o) = O.
Proof. unfold usable. rewrite !andb_true_iff. intros [_ H]. apply Nat.eqb_eq, H. Qed.

Lemma c_poll_one_J e s s' : CJ s -> c_poll_one e s = Some s' -> CJ s'.
Proof.
  intros J E.
  unfold c_poll_one in E. destruct (loop_of e s) eqn:L; try discriminate. destruct (cqueue_to e s) as [|q rest]; [discriminate |].
    assert (J0 : CJ (cset_queue e rest s)) by (cjf; exact J).
    assert (N0 : forall s1, loop_of e s1 = loop_of e s -> forall o, loop_of e s1 <> LAdded o) by (intros s1 H o; rewrite H, L; discriminate).
    destruct (q_closed q); [inversion E; subst; cjf; apply CJ_sock_close; exact J0 |].
    destruct (tbl s _).
    + inversion E; subst. apply CJ_set_loop_nonadded; [apply N0; destruct e; reflexivity | exact J0].
    + destruct e; inversion E; subst.
      * apply CJ_set_loop_nonadded; [apply N0; reflexivity | apply CJ_new_obj; [exact J0 | reflexivity]].
      * cjf. exact J0.
Qed.

Lemma cstep_J s l s' : CJ s -> cstep s l = Some s' -> CJ s'.
Proof.
  intros J E. pose proof J as ((Fx & Gx) & Lk & Hj). destruct l; cbn [cstep] in E.
  - unfold c_open in E. destruct (tbl s _); [discriminate |]. inversion E; subst. apply CJ_new_obj; [exact J | reflexivity].
  - unfold c_write in E. rewrite Gx, andb_true_r in E.
    destruct (valid o s && oclosed (objs s o) && Nat.eqb (ocpc (objs s o)) 6); [inversion E; subst; exact J |].
    rewrite orb_false_r in E. destruct (usable o s) eqn:U; cbn [negb] in E; [| discriminate]. destruct (_ && _); cbn [negb] in E; [| discriminate].
    inversion E; subst. apply usable_cpc in U. apply CJ_set_obj; [cjf; exact J | apply oj_cpc0; exact U].
  - unfold c_flush in E. set (v := objs s o) in *. destruct (valid o s && (Nat.eqb (ocpc v) 0 || Nat.eqb (ocpc v) 6)) eqn:U; cbn [negb] in E; [| discriminate].
    destruct (_ <=? 0); [inversion E; subst; exact J |].
    assert (S1 : forall fb, CJ (set_obj o (sent v fb) s)).
    { intro fb. apply CJ_set_obj; [exact J |]. destruct (Hj o) as (A & B & C & D). fold v in A, B, C, D.
      unfold oj, sent, with_flags, upd_obj. cbn [ocpc oclosed opend orecvb opinned osendb]. exact (conj A (conj B (conj C (fun _ => eq_refl)))). }
    destruct (oclosed v || ohalf v); [inversion E; subst; cjf; apply S1 |].
    destruct (osheap v || oinfb v); [inversion E; subst; cjf; cjf; apply S1 |].
    destruct (_ >=? _); inversion E; subst; cjf; cjf; apply S1.
  - apply (c_poll_one_J e s s' J E).
  - unfold c_loop_add in E. destruct (loop_of e s) as [|o p|] eqn:L; try discriminate.
    destruct (valid o s); cbn [negb] in E; [| discriminate]. inversion E; subst; clear E.
    set (v := objs s o). destruct (Hj o) as (A & B & C & D). fold v in A, B, C, D.
    split; [exact (conj Fx Gx) | split; [exact Lk |]]. intro j. cbn [set_loop set_obj objs loop_c loop_s].
    destruct (Nat.eq_dec j o) as [->|N].
    + rewrite updn_eq. unfold oj. cbn [with_flags upd_obj ocpc oclosed opend orecvb opinned osendb]. refine (conj A (conj _ (conj C D))).
      intros _. destruct e; [right; right | right; left]; reflexivity.
    + rewrite updn_neq by exact N. destruct (Hj j) as (A' & B' & C' & D'). unfold oj. refine (conj A' (conj _ (conj C' D'))).
      intro Q. specialize (B' Q). unfold loop_of in L. destruct e; destruct B' as [B'|[B'|B']]; auto; rewrite L in B'; discriminate.
  - unfold c_loop_check in E. destruct (loop_of e s) as [| |o] eqn:L; try discriminate.
    destruct (valid o s); cbn [negb] in E; [| discriminate]. set (v := objs s o) in *.
    destruct (Hj o) as (A & B & C & D). fold v in A, B, C, D.
    destruct (oclosed v) eqn:Cl; inversion E; subst; clear E.
    + rewrite Fx. eapply CJ_set_loop_idle with (o := o).
      * destruct e; exact L.
      * cjf. apply CJ_set_obj; [exact J |]. unfold oj. cbn [with_flags upd_obj ocpc oclosed opend orecvb opinned osendb].
        exact (conj A (conj (fun _ => or_introl eq_refl) (conj (fun _ => conj eq_refl eq_refl) D))).
      * intros _. cbn [cadd_free set_obj objs]. rewrite updn_eq. reflexivity.
    + apply (CJ_set_loop_idle e o s L J). intro Q. assert (false = true) by (apply A; fold v in Q; lia). discriminate.
  - unfold c_sock_step in E. destruct (loop_of e s) eqn:L; try discriminate.
    destruct (sock_to e s) as [|i rest]; [discriminate |].
    destruct (cqueue_to e s) as [|q0 qr] eqn:Q; [| apply (c_poll_one_J e s s' J E)].
    assert (J0 : CJ (set_sock e rest s)) by (cjf; exact J).
    destruct i; inversion E; subst; [apply CJ_sock_data | apply CJ_sock_close]; exact J0.
  - unfold c_moveto in E. destruct (usable o s) eqn:U; cbn [negb] in E; [| discriminate]. apply usable_cpc in U.
    destruct (fold_left _ _ _) as [[rb fr0] fb]. inversion E; subst. cjf. apply CJ_set_obj; [exact J | apply oj_cpc0; exact U].
  - unfold c_readk in E. destruct (usable o s) eqn:U; cbn [negb] in E; [| discriminate]. apply usable_cpc in U.
    inversion E; subst. cjf. apply CJ_set_obj; [exact J | apply oj_cpc0; exact U].
  - unfold c_release in E. destruct (usable o s) eqn:U; cbn [negb] in E; [| discriminate]. apply usable_cpc in U.
    destruct (match orecvb _ with [a] => _ | _ => false end); inversion E; subst; cjf; (apply CJ_set_obj; [exact J | apply oj_cpc0; exact U]).
  - unfold c_reuse in E. set (v := objs s o) in *.
    destruct (usable o s && _ && _ && _ && _) eqn:R; cbn [negb] in E; [| discriminate].
    rewrite !andb_true_iff in R. destruct R as [[[[U _] _] _] _]. apply usable_cpc in U.
    destruct (orecvb v) as [|a [|a' t]]; [| destruct (rs_slot a) |]; inversion E; subst; cjf; (apply CJ_set_obj; [exact J | apply oj_cpc0; exact U]).
  - unfold c_close_step in E. set (v := objs s o) in *. destruct (valid o s); cbn [negb] in E; [| discriminate].
    destruct (Hj o) as (A & B & C & D). fold v in A, B, C, D.
    destruct (ocpc v) as [|[|[|[|[|[|m]]]]]] eqn:Pc; try discriminate.
    + destruct (oclosed v); [discriminate |]. inversion E; subst. apply CJ_set_obj; [exact J |].
      unfold with_flags, upd_obj. oj4; cbn [ocpc oclosed] in *; try (exfalso; lia); reflexivity.
    + inversion E; subst. eapply CJ_frame; [reflexivity .. |]. apply CJ_set_obj; [exact J |].
      unfold with_cpc, with_flags, upd_obj. oj4; cbn [ocpc oclosed] in *; try (exfalso; lia). apply A. lia.
    + inversion E; subst. cjf. apply CJ_set_obj; [exact J |].
      unfold with_flags, upd_obj. oj4; cbn [ocpc oclosed opend] in *; try (exfalso; lia); [apply A; lia | left; reflexivity].
    + inversion E; subst. rewrite Fx. cjf. apply CJ_set_obj; [exact J |].
      unfold with_flags, upd_obj. oj4; cbn [ocpc oclosed opend orecvb opinned] in *; try (exfalso; lia); [apply A; lia | apply B; lia | split; reflexivity].
    + inversion E; subst. cjf. apply CJ_set_obj; [exact J |].
      unfold with_flags, upd_obj. oj4; cbn [ocpc oclosed opend orecvb opinned osendb] in *; try (exfalso; lia); [apply A; lia | apply B; lia | apply C; lia | reflexivity].
    + assert (J1 : CJ (set_obj o (with_cpc v 6) s)).
      { apply CJ_set_obj; [exact J |]. unfold with_cpc, with_flags, upd_obj. oj4; cbn [ocpc oclosed opend orecvb opinned osendb] in *;
          [apply A; lia | apply B; lia | apply C; lia | apply D; lia]. }
      destruct (onotify v); cbn [negb] in E; [| inversion E; subst; exact J1].
      destruct (oinfb v || _); inversion E; subst; [cjf; exact J1 | cjf; exact J1].
  - unfold c_ext_hold in E. destruct (_ && _); [| discriminate]. inversion E; subst. cjf. exact J.
  - inversion E; subst. cjf. exact J.
  - unfold c_inject in E. destruct (_ && _); cbn [negb] in E; [| discriminate]. destruct (_ >=? _); [discriminate |].
    inversion E; subst. cjf. cjf. exact J.
Qed.

Lemma crun_J h : forall s, CJ s -> CJ (crun s h).
Proof.
  induction h as [|l t IH]; intros s J; cbn [crun]; [exact J |]. apply IH. unfold cstep'.
  destruct (cstep s l) as [s'|] eqn:E; [eapply cstep_J; eauto | exact J].
Qed.

Lemma cinit_J n qc : CJ (cinit true true n qc).
Proof. split; [split; reflexivity | split; [reflexivity |]]. intro o. apply oj_cpc0. reflexivity. Qed.

(* every stream object has been closed and its close() has returned, both event loops are between
   elements, nothing is in flight, the application holds nothing *)
Definition cfinished (s : cst) : Prop :=
  cext s = [] /\ cq_srv s = [] /\ cq_cli s = [] /\ loop_c s = LIdle /\ loop_s s = LIdle /\
  forall o, (o < nobjs s)%nat -> ocpc (objs s o) = 6%nat.

Theorem cfinished_thm n qc h :
  let s := crun (cinit true true n qc) h in
  cfinished s -> Permutation (cfree s) (iota n) /\ length (cfree s) = n.
Proof.
  intros s (E1 & E2 & E3 & E4 & E5 & E6).
  assert (P : Permutation (cfree s) (iota n)).
  { pose proof (cinv_thm true true n qc h) as P. fold s in P. unfold call_slots in P.
    destruct (crun_J h _ (cinit_J n qc)) as (_ & Lk & Hj). fold s in Lk, Hj.
    rewrite E1, E2, E3, E4, E5, Lk in P. cbn [qslots lslots flat_map app] in P.
    assert (Z0 : obj_slots s = []).
    { unfold obj_slots. assert (G : forall l, (forall o, In o l -> (o < nobjs s)%nat) -> flat_map (fun o => oslots (objs s o)) l = []).
      { induction l as [|a l IH]; intro Hl; cbn [flat_map]; [reflexivity |]. rewrite IH by (intros o Ho; apply Hl; right; exact Ho).
        rewrite app_nil_r. specialize (E6 a (Hl a (or_introl eq_refl))). destruct (Hj a) as (_ & B & C & D).
        rewrite E4, E5 in B. unfold oslots. rewrite (D ltac:(lia)). destruct (C ltac:(lia)) as [C1 C2]. rewrite C1, C2.
        destruct (B ltac:(lia)) as [B1|[B1|B1]]; [rewrite B1; reflexivity | discriminate | discriminate]. }
      apply G. intros o Ho. apply in_seq in Ho. lia. }
    rewrite Z0, app_nil_r in P. exact P. }
  split; [exact P |]. rewrite (Permutation_length P). unfold iota. rewrite map_length, seq_length. reflexivity.
Qed.
