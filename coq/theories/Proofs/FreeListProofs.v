(* Proofs about the free-list model (C01 / C02).
   Part 1: the counting invariant, for every number of slots, any number of threads, every program
           without recycle-chain operations and EVERY schedule (it does not depend on the chain
           structure, hence holds even in executions that suffer the ABA of bufferList.pop). *)
From Coq Require Import List ZArith Lia Bool Arith.
From Shm Require Import Gen.Consts Model.FreeList.
Import ListNotations.
Open Scope Z_scope.

Definition adj (c : fpc) : Z :=
  match c with
  | PopRestore | PopLoop _ _ | PopNext _ _ | PopCas _ _ _ | PopReload _ | PopChk _ | PopClr _
  | PopUse1 _ | PopUse2 _ _ | PopCnt _ | PopRcpb _ | PopRcap _ | PopRstart _ | PopRsize _ => 1
  | PushR2 _ _ | PushR3 _ _ | PushTail _ _ | PushCas _ _ _ | PushL1 _ _ _ | PushL2 _ _ _
  | PushL3 _ _ _ _ | PushSz _ _ => 1
  | _ => 0
  end.

Definition weight (p : tlocal) : Z := Z.of_nat (length (held p)) + adj (pc p) + lost p.
Definition total (l : list tlocal) : Z := fold_right (fun p a => weight p + a) 0 l.

Definition op_nochain (o : fop) : bool := match o with FreeChain => false | _ => true end.
Definition pc_nochain (c : fpc) : bool :=
  match c with
  | ChNext _ | ChCpb _ _ | ChPushR1 _ _ | ChRead1 _ | ChRead2 _ | ChRead3 _ | ChRead4 _ | ChLoop _ => false
  | PushR2 _ (Some _) | PushR3 _ (Some _) | PushTail _ (Some _) | PushCas _ _ (Some _) | PushL1 _ _ (Some _)
  | PushL2 _ _ (Some _) | PushL3 _ _ _ (Some _) | PushSz _ (Some _) | PushCnt _ (Some _) => false
  | _ => true
  end.
Definition t_ok (p : tlocal) : Prop := forallb op_nochain (todo p) = true /\ pc_nochain (pc p) = true.

Lemma normalize_nochain h ops : forallb op_nochain ops = true -> forallb op_nochain (normalize h ops) = true.
Proof.
  induction ops as [|o r IH]; simpl; auto. intros H. pose proof H as H0.
  apply andb_true_iff in H. destruct H as [Ho Hr].
  destruct o; try (simpl; exact H0); (destruct h; [apply IH; auto | exact H0]).
Qed.

Lemma normalize_held h ops o r : normalize h ops = o :: r -> o <> Alloc -> h <> [].
Proof.
  induction ops as [|x xs IH]; simpl; try discriminate.
  destruct x; intros H Hne; try (inversion H; subst; congruence);
    (destruct h; [apply IH in H; auto | discriminate]).
Qed.

Lemma tl_length (l : list Z) : l <> [] -> Z.of_nat (length (tl l)) = Z.of_nat (length l) - 1.
Proof. destruct l; [congruence|]. intros _. cbn [tl length]. lia. Qed.
Lemma removelast_length (l : list Z) : l <> [] -> Z.of_nat (length (removelast l)) = Z.of_nat (length l) - 1.
Proof.
  intros H. destruct (exists_last H) as [l' [a ->]]. rewrite removelast_last, app_length. simpl. lia.
Qed.
Lemma tl_nochain ops : forallb op_nochain ops = true -> forallb op_nochain (tl ops) = true.
Proof. destruct ops; simpl; auto. intros H; apply andb_true_iff in H; tauto. Qed.

(* one step of one thread preserves  size + weight  and the slot count *)
Lemma tstep_count m p m' p' :
  t_ok p -> tstep m p = (m', p') ->
  m_size m' + weight p' = m_size m + weight p /\ m_n m' = m_n m /\ t_ok p'.
Proof.
  intros [Htd Hpc] H. unfold tstep in H. unfold weight, t_ok.
  destruct (pc p) eqn:Epc; simpl in Hpc; try discriminate; cbn [pc todo held res dead lost] in H.
  1: { (* Idle *)
    pose proof (normalize_nochain (held p) (todo p) Htd) as Hn.
    destruct (normalize (held p) (todo p)) as [|o r] eqn:En.
    + inversion H; subst; simpl. repeat split; auto; lia.
    + assert (Hh : o <> Alloc -> held p <> []) by (intros; eapply normalize_held; eauto).
      simpl in Hn. apply andb_true_iff in Hn. destruct Hn as [Ho Hr].
      destruct o; simpl in Ho; try discriminate; inversion H; subst; simpl; rewrite ?Epc; simpl.
      * repeat split; auto; try lia; try (simpl; rewrite ?Ho, ?Hr; auto).
      * rewrite tl_length by (apply Hh; discriminate). repeat split; auto; try lia; try (simpl; rewrite ?Ho, ?Hr; auto).
      * rewrite removelast_length by (apply Hh; discriminate). repeat split; auto; try lia; try (simpl; rewrite ?Ho, ?Hr; auto).
      * repeat split; auto; try lia; try (simpl; rewrite ?Ho, ?Hr; auto).
  }
  all: unfold enter_loop, after_push in H;
    repeat match type of H with
           | context [if ?x then _ else _] => destruct x
           | context [match ?x with _ => _ end] => destruct x
           end; try discriminate; inversion H; subst; simpl; rewrite ?app_length; simpl;
    repeat split; auto; try lia; try (apply tl_nochain; auto).
Qed.

Lemma total_set_nth l i p p' :
  nth_error l i = Some p -> total (set_nth i p' l) = total l - weight p + weight p'.
Proof.
  revert i; induction l as [|a l IH]; intros [|i] H; simpl in *; try discriminate.
  - inversion H; subst. lia.
  - rewrite (IH i H). lia.
Qed.

Lemma nth_error_set_nth_eq {A} (l : list A) i x y :
  nth_error l i = Some y -> nth_error (set_nth i x l) i = Some x.
Proof. revert i; induction l as [|a l IH]; intros [|i] H; simpl in *; try discriminate; auto. Qed.
Lemma nth_error_set_nth_neq {A} (l : list A) i j x :
  i <> j -> nth_error (set_nth i x l) j = nth_error l j.
Proof. revert i j; induction l as [|a l IH]; intros [|i] [|j] H; simpl; auto; try congruence. Qed.

Definition CInv (n : Z) (s : st) : Prop :=
  m_size (mm s) + total (thr s) = n /\ m_n (mm s) = n /\ (forall i p, nth_error (thr s) i = Some p -> t_ok p).

Lemma step_cinv n s i : CInv n s -> CInv n (step s i).
Proof.
  intros [Hsum [Hn Hok]]. unfold step. destruct (nth_error (thr s) i) as [p|] eqn:Hp; [|split; [|split]; auto].
  destruct (tstep (mm s) p) as [m' p'] eqn:Et.
  destruct (tstep_count _ _ _ _ (Hok i p Hp) Et) as [Hw [Hn' Hok']].
  split; [|split]; simpl.
  - rewrite (total_set_nth _ _ _ _ Hp). lia.
  - congruence.
  - intros j q Hq. destruct (Nat.eq_dec i j) as [->|Hne].
    + rewrite (nth_error_set_nth_eq _ _ _ _ Hp) in Hq. inversion Hq; subst; auto.
    + rewrite nth_error_set_nth_neq in Hq by auto. eauto.
Qed.

Definition progs_nochain (progs : list (list fop)) : Prop :=
  forall pr, In pr progs -> forallb op_nochain pr = true.

Lemma init_cinv n cpb base len progs : progs_nochain progs -> CInv n (init n cpb base len progs).
Proof.
  intros Hp. split; [|split]; simpl; auto.
  - assert (Hz : forall l : list (list fop), total (map (fun t => {| pc := Idle; todo := t; held := []; res := []; dead := false; lost := 0 |}) l) = 0).
    { induction l as [|a l IH]; simpl; auto; rewrite IH; unfold weight; simpl; lia. }
    rewrite Hz. lia.
  - intros i p Hi. rewrite nth_error_map in Hi. destruct (nth_error progs i) eqn:E; inversion Hi; subst.
    split; simpl; auto. apply Hp. eapply nth_error_In; eauto.
Qed.

Theorem run_cinv n cpb base len progs sched :
  progs_nochain progs -> CInv n (run sched (init n cpb base len progs)).
Proof.
  intros Hp. unfold run. generalize (init_cinv n cpb base len progs Hp). generalize (init n cpb base len progs).
  induction sched as [|i r IH]; simpl; intros s H; auto. apply IH, step_cinv, H.
Qed.

Lemma weight_ge_held p : lost p >= 0 -> weight p >= Z.of_nat (length (held p)).
Proof. unfold weight. intros. assert (adj (pc p) >= 0) by (destruct (pc p); simpl; lia). lia. Qed.

(* lost is never negative *)
Definition LInv (s : st) : Prop := forall i p, nth_error (thr s) i = Some p -> lost p >= 0.
Lemma tstep_lost m p m' p' : lost p >= 0 -> tstep m p = (m', p') -> lost p' >= 0.
Proof.
  intros Hl H. unfold tstep in H.
  destruct (pc p) eqn:Epc; cbn [pc todo held res dead lost] in H;
    repeat match type of H with
           | context [match ?x with _ => _ end] => destruct x
           | context [if ?x then _ else _] => destruct x
           end; unfold enter_loop, after_push, ch_loop in H;
    repeat match type of H with
           | context [match ?x with _ => _ end] => destruct x
           | context [if ?x then _ else _] => destruct x
           end; inversion H; subst; simpl; lia.
Qed.
Lemma step_linv s i : LInv s -> LInv (step s i).
Proof.
  intros Hl. unfold step. destruct (nth_error (thr s) i) as [p|] eqn:Hp; auto.
  destruct (tstep (mm s) p) as [m' p'] eqn:Et. intros j q Hq. simpl in Hq.
  destruct (Nat.eq_dec i j) as [->|Hne].
  - rewrite (nth_error_set_nth_eq _ _ _ _ Hp) in Hq. inversion Hq; subst. eapply tstep_lost; eauto.
  - rewrite nth_error_set_nth_neq in Hq by auto. eauto.
Qed.
Lemma run_linv n cpb base len progs sched : LInv (run sched (init n cpb base len progs)).
Proof.
  unfold run. assert (H0 : LInv (init n cpb base len progs)).
  { intros i p Hi. simpl in Hi. rewrite nth_error_map in Hi. destruct (nth_error progs i); inversion Hi; subst; simpl; lia. }
  revert H0. generalize (init n cpb base len progs).
  induction sched as [|i r IH]; simpl; intros s H; auto. apply IH, step_linv, H.
Qed.

Definition nheld (l : list tlocal) : Z := fold_right (fun p a => Z.of_nat (length (held p)) + a) 0 l.

Lemma total_ge_nheld l : (forall i p, nth_error l i = Some p -> lost p >= 0) -> total l >= nheld l.
Proof.
  induction l as [|a l IH]; simpl; intros H; [lia|].
  pose proof (weight_ge_held a (H O a eq_refl)).
  assert (forall i p, nth_error l i = Some p -> lost p >= 0) by (intros i p Hi; apply (H (S i) p Hi)).
  specialize (IH H1). lia.
Qed.

(* C02, counting clause: while buffers are out, the free count plus the number held never exceeds the
   capacity — for every schedule, including executions hit by the ABA *)
Theorem count_bound n cpb base len progs sched :
  progs_nochain progs ->
  let s := run sched (init n cpb base len progs) in
  m_size (mm s) + nheld (thr s) <= n.
Proof.
  intros Hp s. destruct (run_cinv n cpb base len progs sched Hp) as [Hsum _]. fold s in Hsum.
  pose proof (total_ge_nheld (thr s) (run_linv n cpb base len progs sched)). lia.
Qed.

(* C02, "a failed allocation consumes nothing" + exact accounting at quiescence: when every thread
   is idle and none panicked, the free count plus the buffers held is EXACTLY the capacity *)
Definition all_idle (l : list tlocal) : Prop := forall i p, nth_error l i = Some p -> pc p = Idle /\ lost p = 0.
Lemma total_idle l : all_idle l -> total l = nheld l.
Proof.
  induction l as [|a l IH]; simpl; intros H; auto.
  destruct (H O a eq_refl) as [Hpc Hl]. unfold weight. rewrite Hpc, Hl. simpl.
  rewrite IH; [lia|]. intros i p Hi. apply (H (S i) p Hi).
Qed.
Theorem count_exact_at_rest n cpb base len progs sched :
  progs_nochain progs ->
  let s := run sched (init n cpb base len progs) in
  all_idle (thr s) -> m_size (mm s) + nheld (thr s) = n.
Proof.
  intros Hp s Hi. destruct (run_cinv n cpb base len progs sched Hp) as [Hsum _]. fold s in Hsum.
  rewrite (total_idle _ Hi) in Hsum. exact Hsum.
Qed.
