(* Invariants of the stream state machine (Model/StreamState.v) for EVERY schedule, any number of
   inbound events, Close() calls, user threads and callback goroutines.  Style: per-program-point
   facts expressed as COUNTS of threads at given program points (so that preservation is linear
   arithmetic), plus three ghost equations about the byte stream. *)
From Coq Require Import List ZArith Lia Bool Arith.
From Shm Require Import Gen.Consts Model.StreamState.
Import ListNotations.
Open Scope Z_scope.

(* ---------- counting threads at program points ---------- *)
Fixpoint cz {A} (f : A -> bool) (l : list A) : Z :=
  match l with [] => 0 | x :: t => (if f x then 1 else 0) + cz f t end.
Definition b2z (b : bool) : Z := if b then 1 else 0.
Definition nz {A} (l : list A) : Z := match l with [] => 0 | _ => 1 end.

Lemma cz_nonneg {A} (f : A -> bool) l : 0 <= cz f l.
Proof. induction l as [|x l IH]; simpl; [lia|destruct (f x); lia]. Qed.
Lemma cz_app {A} (f : A -> bool) a b : cz f (a ++ b) = cz f a + cz f b.
Proof. induction a as [|x a IH]; simpl; [lia|rewrite IH; lia]. Qed.
Lemma nth_set_nth {A} (l : list A) i x : (i < length l)%nat -> nth_error (set_nth i x l) i = Some x.
Proof. revert i; induction l as [|a l IH]; intros [|i] H; simpl in *; try lia; auto. apply IH. lia. Qed.
Lemma cz_set_nth {A} (f : A -> bool) l i x y :
  nth_error l i = Some x -> cz f (set_nth i y l) = cz f l - b2z (f x) + b2z (f y).
Proof.
  revert i; induction l as [|a l IH]; intros [|i] H; simpl in *; try discriminate.
  - inversion H; subst. unfold b2z. destruct (f x), (f y); lia.
  - rewrite (IH _ H). lia.
Qed.
Lemma cz_repeat_false {A} (f : A -> bool) x n : f x = false -> cz f (repeat x n) = 0.
Proof. intros H; induction n; simpl; auto. rewrite H, IHn. reflexivity. Qed.
Lemma cz_pos_in {A} (f : A -> bool) l i x : nth_error l i = Some x -> f x = true -> 0 < cz f l.
Proof.
  revert i; induction l as [|a l IH]; intros [|i] H Hf; simpl in *; try discriminate.
  - inversion H; subst. rewrite Hf. pose proof (cz_nonneg f l). lia.
  - pose proof (IH _ H Hf). destruct (f a); lia.
Qed.
Lemma cz_ge_in {A} (f : A -> bool) l i x : nth_error l i = Some x -> b2z (f x) <= cz f l.
Proof.
  intros H. unfold b2z. destruct (f x) eqn:E; [pose proof (cz_pos_in f l i x H E); lia|apply cz_nonneg].
Qed.
Lemma cz_zero_all {A} (f : A -> bool) l : cz f l = 0 -> forall i x, nth_error l i = Some x -> f x = false.
Proof.
  intros H i x Hx. destruct (f x) eqn:E; auto. pose proof (cz_pos_in f l i x Hx E). lia.
Qed.
Lemma cz_exists {A} (f : A -> bool) l : 0 < cz f l -> exists i x, nth_error l i = Some x /\ f x = true.
Proof.
  induction l as [|a l IH]; simpl; intros H; [lia|].
  destruct (f a) eqn:E.
  - exists 0%nat, a. split; auto.
  - destruct IH as [i [x [Hx Hf]]]; [lia|]. exists (S i), x. split; auto.
Qed.

(* ---------- program-point predicates ---------- *)
Definition isop (o : Z) : bool := o =? c_streamOpened.
(* states out of which close() reports a LOCAL close: opened, and the local half-close made by Close() *)
Definition isloc (o : Z) : bool := (o =? c_streamOpened) || (o =? v_streamLocalHalfClosed).
(* inside the part of close() that runs only after the CAS to closed was won *)
Definition c_needcl (c : cpc) : bool :=
  match c with CWait _ | CTbl _ | CPend _ | CRecv _ | CNotify | CSend => true | _ => false end.
(* has taken the state out of `opened` by close() and not yet reported it (OnLocalClose site) *)
Definition c_pendcb (c : cpc) : bool :=
  match c with CWait o | CTbl o | CPend o | CRecv o => isloc o | CNotify => true | _ => false end.
Definition c_send (c : cpc) : bool := match c with CSend => true | _ => false end.
Definition c_cleanT (c : cpc) : bool := match c with CWait _ | CTbl _ => true | _ => false end.
Definition c_athalf (c : cpc) : bool := match c with KHalf => true | _ => false end.
Definition c_ret (c : cpc) : bool := match c with KRet => true | _ => false end.
(* inside Close()/close() *)
Definition c_busy (c : cpc) : bool := match c with KStart | KRet => false | _ => true end.
(* past the first statement of Close() *)
Definition c_past (c : cpc) : bool := match c with KStart => false | _ => true end.
Definition gl (f : cpc -> bool) (g : gpc) : bool :=
  match g with GCbClose c _ | GClose c => f c | _ => false end.

(* owns callbackInProcess: from winning the CAS (or being spawned) to the store of 0 *)
Definition g_own (g : gpc) : bool :=
  match g with GMove | GChk | GCb | GCbBody _ _ | GRdMove _ _ | GRdPark _ _ | GRdMoveC _ _ | GRdLd _ | GCbClose _ _ | GCbEnd | GSw | GSwP | GSwR | GClr => true | _ => false end.
(* between clearing the flag and the re-check of pending *)
Definition g_re (g : gpc) : bool := match g with GLdCs | GLen | GCas => true | _ => false end.
(* owner that will still look at recvBuf *)
Definition g_act (g : gpc) : bool :=
  match g with GMove | GChk | GCb | GCbBody _ _ | GRdMove _ _ | GRdPark _ _ | GRdMoveC _ _ | GRdLd _ | GCbClose _ _ | GCbEnd => true | _ => false end.
(* OnData is executing *)
Definition g_run (g : gpc) : bool := match g with GCbBody _ _ | GRdMove _ _ | GRdPark _ _ | GRdMoveC _ _ | GRdLd _ | GCbClose _ _ | GCbEnd => true | _ => false end.
(* IsOpen() check passed, OnData not yet begun *)
Definition g_cb (g : gpc) : bool := match g with GCb => true | _ => false end.
Definition g_exit (g : gpc) : bool := match g with GExit => true | _ => false end.
Definition g_all (g : gpc) : bool := true.
(* owner that has left the OnData loop (sweep, then clearing the flag) *)
Definition g_atclr (g : gpc) : bool := match g with GSw | GSwP | GSwR | GClr => true | _ => false end.
(* owner that will still sweep recvBuf if it finds the state closed *)
Definition g_sw (g : gpc) : bool :=
  match g with GMove | GChk | GCb | GCbBody _ _ | GRdMove _ _ | GRdPark _ _ | GRdMoveC _ _ | GRdLd _ | GCbClose _ _ | GCbEnd | GSw | GSwP | GSwR => true | _ => false end.
(* inside the sweep (only entered with the state closed) *)
Definition g_swin (g : gpc) : bool := match g with GSwP | GSwR => true | _ => false end.
(* will still reach the load of callbackCloseState, or is already on the exit path that runs close() *)
Definition g_w (g : gpc) : bool :=
  match g with GMove | GChk | GCb | GCbBody _ _ | GRdMove _ _ | GRdPark _ _ | GRdMoveC _ _ | GRdLd _ | GCbClose _ _ | GCbEnd | GSw | GSwP | GSwR | GClr | GLdCs | GWgDoneClose | GClose _ => true
  | _ => false end.
Definition g_cbpast (g : gpc) : bool := match g with GCbClose c _ => c_past c | _ => false end.
(* the exit path of the goroutine (entered only after it has read callbackWaitExit) *)
Definition g_xc (g : gpc) : bool := match g with GWgDoneClose | GClose _ => true | _ => false end.
(* close() on the exit path starts at its load of the state: these points do not occur *)
Definition g_badclose (g : gpc) : bool := match g with GClose KStart | GClose KLdIn | GClose KHalf | GClose KRet => true | _ => false end.

(* parked in readMore's select (a blocking read inside OnData) *)
Definition g_park (g : gpc) : bool := match g with GRdPark _ _ => true | _ => false end.
(* the event loop has added to pendingData and has not yet posted the token (or, state closed, cleared it again) *)
Definition g_ownnp (g : gpc) : bool := g_own g && negb (g_park g).
Definition e_tok (e : epcT) : Z := match e with EChk | ENotify | EClrP => 1 | _ => 0 end.
(* close() waiting for the callback goroutine after a CAS from opened / localHalfClosed *)
Definition c_waitA (c : cpc) : bool := match c with CWait o => isloc o | _ => false end.
Definition e_proxy (e : epcT) : Z := match e with EWgAdd | ESpawn => 1 | _ => 0 end.
Definition e_guard (e : epcT) : Z := match e with EChk | ENotify | EGetCb | ECas | EWgAdd | ESpawn | EClrP => 1 | _ => 0 end.
(* the event loop will clear pendingData if it finds the state closed at its next state check *)
Definition e_wclr (e : epcT) : Z := match e with EAdd _ | EChk | EClrP => 1 | _ => 0 end.
Definition e_clr (e : epcT) : Z := match e with EClrP | EClrR => 1 | _ => 0 end.
Definition e_halfn (e : epcT) : Z := match e with EHalfN => 1 | _ => 0 end.
Definition e_half (e : epcT) : Z := match e with EHalf => 1 | _ => 0 end.
Definition s_proxy (p : spcT) : Z := match p with SWgAdd | SSpawn => 1 | _ => 0 end.
Definition s_busy (p : spcT) : Z := match p with SCas | SWgAdd | SSpawn => 1 | _ => 0 end.
Definition y_busy (p : sypcT) : Z := match p with SyCons _ => 1 | SyIdle => 0 end.
Definition e_cas (e : epcT) : Z := match e with ECas | EWgAdd | ESpawn => 1 | _ => 0 end.

Fixpoint ncl (l : list ev) : Z := match l with [] => 0 | EClose :: t => 1 + ncl t | _ :: t => ncl t end.
Lemma ncl_app a b : ncl (a ++ b) = ncl a + ncl b.
Proof. induction a as [|[m|] a IH]; cbn [ncl app]; rewrite ?IH; lia. Qed.
Lemma ncl_nonneg l : 0 <= ncl l.
Proof. induction l as [|[m|] l IH]; cbn [ncl]; lia. Qed.

(* ---------- the state only moves forward ---------- *)
Definition mono (s s' : est) : Prop :=
  st s' = st s \/ (st s = c_streamOpened /\ (st s' = c_streamHalfClosed \/ st s' = v_streamLocalHalfClosed)) \/
  (st s <> c_streamClosed /\ st s' = c_streamClosed).

Ltac zeq := repeat match goal with
  | |- context [?a =? ?b] => destruct (Z.eqb_spec a b)
  | |- context [?a <=? ?b] => destruct (Z.leb_spec a b)
  end.
Ltac uc := unfold v_callbackWaitExit, isop, isloc in *;
  unfold v_streamLocalHalfClosed in *;
  unfold c_streamOpened, c_streamClosed, c_streamHalfClosed, c_streamLocalHalfClosed, c_callbackWaitExit in *.

Lemma cstep_mono s c : mono s (fst (cstep s c)).
Proof.
  unfold mono; destruct c; cbn; zeq; cbn; try destruct (cbset s) eqn:Ecb; cbn; uc; try lia.
Qed.

(* what cstep leaves alone *)
Lemma cstep_frame s c :
  let s' := fst (cstep s c) in
  gors s' = gors s /\ clos s' = clos s /\ epc s' = epc s /\ inbox s' = inbox s /\ spc s' = spc s /\
  users s' = users s /\ script s' = script s /\ processed s' = processed s /\ arrived s' = arrived s /\
  consumed s' = consumed s /\ offers s' = offers s /\ inproc s' = inproc s /\ cbset s' = cbset s /\
  nremote s' = nremote s /\ wg s' = wg s.
Proof.
  destruct c; cbn; zeq; cbn; try destruct (cbset s) eqn:Ecb; cbn; rewrite ?Ecb; repeat split; reflexivity.
Qed.

Lemma step_mono s w : mono s (step s w).
Proof.
  destruct w as [|i|i| |i|]; cbn [step].
  - unfold estep, mono. destruct (epc s); cbn; try (left; reflexivity);
      try (destruct (inbox s) as [|e r]; [left; reflexivity|]; destruct (intable s); [destruct e|]; cbn; left; reflexivity);
      try destruct (cbset s) eqn:Ecb; zeq; cbn; uc; lia.
  - unfold gstep. destruct (nth_error (gors s) i) as [g|]; [|left; reflexivity].
    destruct g as [| | |k cl|c more| | | | | | | | | | |c| |nd cl|nd cl|nd cl|cl]; cbn; try (left; reflexivity);
      try (pose proof (cstep_mono s c) as Hm; unfold mono in *; destruct (negb (isret c) && isret (snd (cstep s c))); cbn; exact Hm);
      zeq; cbn; try destruct (recv s); try destruct (pending s); cbn;
      repeat match goal with |- context [if ?c then _ else _] => destruct c end; cbn; left; reflexivity.
  - unfold clstep. destruct (nth_error (clos s) i) as [c|]; [|left; reflexivity].
    pose proof (cstep_mono s c) as Hm; unfold mono in *. destruct (negb (isret c) && isret (snd (cstep s c))); cbn; exact Hm.
  - unfold sstep, mono. destruct (spc s); cbn; try destruct (sypc s); try destruct (cbset s) eqn:Ecb; zeq; cbn; lia.
  - unfold ustep, mono. destruct (nth_error (users s) i) as [u|]; [|lia].
    destruct (upc u); cbn; [destruct (utodo u); cbn; lia|lia|zeq; cbn; lia|lia].
  - unfold systep, mono. destruct (sypc s); [|cbn; lia]. destruct (cbset s); [cbn; lia|].
    destruct (spc s); try (cbn; lia). destruct (sytodo s) as [|k r]; [cbn; lia|]. destruct (sy_moves s k); cbn; lia.
Qed.

Lemma run_app a b s : run (a ++ b) s = run b (run a s).
Proof. unfold run. apply fold_left_app. Qed.

Lemma mono_trans s1 s2 s3 : mono s1 s2 -> mono s2 s3 -> mono s1 s3.
Proof. unfold mono; uc; lia. Qed.
Lemma mono_refl s : mono s s.
Proof. left; reflexivity. Qed.

Lemma run_mono sched s : mono s (run sched s).
Proof.
  revert s; induction sched as [|w l IH]; intros s; [apply mono_refl|].
  simpl. eapply mono_trans; [apply step_mono|apply IH].
Qed.

(* ====================================================================================================
   Case analysis machinery: one goal per (thread, program point, branch); each goal is closed by
   rewriting the thread counts and linear arithmetic over the clauses of the old state.
   ==================================================================================================== *)
Ltac cb := cbn [step estep gstep clstep sstep ustep systep cstep setg clear_pending move_pending fst snd
  st inproc cstate wg cbset intable cnotify pending recv inbox epc gors clos spc users script sypc sytodo processed arrived
  chunks consumed offers nlocal nremote out khalf lhalf casfail nret rnotify needs picks isret
  set_st set_inproc set_cstate set_wg set_cbset set_intable set_cnotify set_pending set_recv set_inbox set_epc
  set_gors set_clos set_spc set_users set_script set_sypc set_sytodo set_processed set_arrived set_chunks set_consumed set_offers
  set_nlocal set_nremote set_out set_khalf set_lhalf set_casfail set_nret set_rnotify set_needs set_picks
  b2z nz g_park g_ownnp e_tok c_waitA c_athalf c_needcl c_pendcb c_send c_cleanT c_ret c_busy c_past gl g_own g_re g_act g_run g_cb g_exit g_all g_atclr g_sw g_swin g_w g_cbpast g_xc g_badclose
  e_proxy e_guard e_wclr e_clr e_halfn e_half e_cas s_proxy s_busy y_busy upc utodo ures negb orb andb cz ncl] in *.

Ltac cases s w :=
  destruct w as [|i|i| |i|]; cbn [step];
  [ unfold estep; destruct (epc s) eqn:Ee;
      [ destruct (inbox s) as [|e r] eqn:Ei; [|destruct (intable s) eqn:Et; [destruct e as [m|]|]] | .. ]
  | unfold gstep; destruct (nth_error (gors s) i) as [g|] eqn:Hn;
      [destruct g as [| | |k cl|c more| | | | | | | | | | |c| |nd cl|nd cl|nd cl|cl]; [ | | |destruct cl|destruct c| | | | | | | | | | |destruct c| | | | | ] |]
  | unfold clstep; destruct (nth_error (clos s) i) as [c|] eqn:Hn; [destruct c|]
  | unfold sstep; destruct (spc s) eqn:Es; [destruct (sypc s) eqn:Ey|..]
  | unfold ustep; destruct (nth_error (users s) i) as [u|] eqn:Hn; [destruct (upc u) as [|m|m|m aft]; [destruct (utodo u)| | |]|]
  | unfold systep; destruct (sypc s) eqn:Ey;
      [destruct (cbset s) eqn:Ecb; [|destruct (spc s) eqn:Es; [destruct (sytodo s) eqn:Eyt|..]]|] ];
  cb.

(* split on the branch conditions that occur in the goal *)
Ltac brk := repeat match goal with
  | |- context [if ?a =? ?b then _ else _] => destruct (Z.eqb_spec a b)
  | |- context [if ?a <=? ?b then _ else _] => destruct (Z.leb_spec a b)
  | |- context [if cbset ?s then _ else _] => destruct (cbset s) eqn:Ecb
  | |- context [match recv ?s with _ => _ end] => destruct (recv s) eqn:Erv
  | |- context [match pending ?s with _ => _ end] => destruct (pending s) eqn:Epd
  | |- context [match ?m with O => _ | S _ => _ end] => destruct m
  | |- context [if sy_moves ?s ?k then _ else _] => destruct (sy_moves s k)
  | |- context [if Nat.ltb ?a ?b then _ else _] => destruct (Nat.ltb a b)
  | |- context [if rnotify ?s then _ else _] => destruct (rnotify s) eqn:Ern
  | |- context [if cnotify ?s then _ else _] => destruct (cnotify s) eqn:Ecn
  | |- context [true && ?b] => cbn [andb]
  | |- context [false && ?b] => cbn [andb]
  | |- context [if hd false (picks ?s) then _ else _] => destruct (hd false (picks s))
  | |- context [if cnotify ?s && ?b then _ else _] => destruct (cnotify s) eqn:Ecn; [destruct b|]; cbn [andb]
  | |- context [if ?c then _ else _] => match c with context [?a =? ?b] => destruct (Z.eqb_spec a b) end
  end; cb.

Ltac rw_eqs := repeat match goal with
  | E : epc _ = _ |- _ => rewrite E
  | E : intable _ = _ |- _ => rewrite E
  | E : cbset _ = _ |- _ => rewrite E
  | E : spc _ = _ |- _ => rewrite E
  | E : recv _ = _ |- _ => rewrite E
  | E : pending _ = _ |- _ => rewrite E
  | E : sypc _ = _ |- _ => rewrite E
  | E : sytodo _ = _ |- _ => rewrite E
  | E : rnotify _ = _ |- _ => rewrite E
  | E : cnotify _ = _ |- _ => rewrite E
  end.

Ltac rw_cnt := match goal with
  | Hn : nth_error _ _ = Some _ |- _ => repeat rewrite (cz_set_nth _ _ _ _ _ Hn)
  | _ => idtac end; rewrite ?cz_app, ?ncl_app.

Ltac zeqh := repeat match goal with
  | |- context [?a =? ?b] => destruct (Z.eqb_spec a b)
  | H : context [?a =? ?b] |- _ => destruct (Z.eqb_spec a b)
  end.

Lemma b2z_range b : 0 <= b2z b <= 1.
Proof. destruct b; simpl; lia. Qed.
Lemma e_range e : 0 <= e_proxy e <= 1 /\ 0 <= e_guard e <= 1 /\ 0 <= e_clr e <= 1 /\ 0 <= e_halfn e <= 1 /\ 0 <= e_half e <= 1 /\ e_proxy e <= e_guard e /\ e_proxy e <= e_cas e <= 1.
Proof. destruct e; simpl; lia. Qed.
Lemma s_range p : 0 <= s_proxy p <= s_busy p /\ s_busy p <= 1.
Proof. destruct p; simpl; lia. Qed.
Lemma cz_le {A} (f g : A -> bool) l : (forall x, f x = true -> g x = true) -> cz f l <= cz g l.
Proof.
  intros H. induction l as [|a l IH]; simpl; [lia|].
  destruct (f a) eqn:E; [rewrite (H a E); lia|destruct (g a); lia].
Qed.
Lemma le_athalf_past l : cz c_athalf l <= cz c_past l.
Proof. apply cz_le. intros [] E; simpl in *; congruence. Qed.
Lemma le_athalf_busy l : cz c_athalf l <= cz c_busy l.
Proof. apply cz_le. intros [] E; simpl in *; congruence. Qed.
Lemma le_own_w l : cz g_own l <= cz g_w l.
Proof. apply cz_le. intros [] E; simpl in *; congruence. Qed.
Lemma le_w_all l : cz g_w l <= cz g_all l.
Proof. apply cz_le. intros g _; reflexivity. Qed.
Ltac czpos s :=
  pose proof (b2z_range (lhalf s)); pose proof (b2z_range (khalf s)); pose proof (b2z_range (casfail s));
  pose proof (b2z_range (intable s)); pose proof (e_range (epc s)); pose proof (s_range (spc s));
  pose proof (b2z_range (cbset s));
  pose proof (cz_nonneg c_busy (clos s)); pose proof (cz_nonneg c_past (clos s)); pose proof (cz_nonneg g_all (gors s)); pose proof (cz_nonneg g_atclr (gors s));
  pose proof (cz_nonneg g_sw (gors s)); pose proof (cz_nonneg g_swin (gors s));
  pose proof (cz_nonneg g_w (gors s)); pose proof (cz_nonneg g_cbpast (gors s));
  pose proof (cz_nonneg g_xc (gors s)); pose proof (cz_nonneg g_badclose (gors s));
  pose proof (le_athalf_past (clos s)); pose proof (le_athalf_busy (clos s));
  pose proof (le_own_w (gors s)); pose proof (le_w_all (gors s));
  pose proof (cz_nonneg c_athalf (clos s)); pose proof (cz_nonneg (gl c_athalf) (gors s));
  pose proof (cz_nonneg c_needcl (clos s)); pose proof (cz_nonneg (gl c_needcl) (gors s));
  pose proof (cz_nonneg c_pendcb (clos s)); pose proof (cz_nonneg (gl c_pendcb) (gors s));
  pose proof (cz_nonneg c_send (clos s)); pose proof (cz_nonneg (gl c_send) (gors s));
  pose proof (cz_nonneg c_cleanT (clos s)); pose proof (cz_nonneg (gl c_cleanT) (gors s));
  pose proof (cz_nonneg c_ret (clos s));
  pose proof (cz_nonneg g_own (gors s)); pose proof (cz_nonneg g_re (gors s));
  pose proof (cz_nonneg g_act (gors s)); pose proof (cz_nonneg g_run (gors s));
  pose proof (cz_nonneg g_cb (gors s)); pose proof (ncl_nonneg (out s)); pose proof (ncl_nonneg (processed s)).

(* the stepping thread itself is counted by every predicate that holds at its program point *)
Ltac czin := match goal with
  | Hn : nth_error (clos _) _ = Some _ |- _ =>
      try (pose proof (cz_pos_in c_needcl _ _ _ Hn eq_refl)); try (pose proof (cz_pos_in c_pendcb _ _ _ Hn eq_refl));
      try (pose proof (cz_pos_in c_send _ _ _ Hn eq_refl)); try (pose proof (cz_pos_in c_cleanT _ _ _ Hn eq_refl));
      try (pose proof (cz_pos_in c_ret _ _ _ Hn eq_refl)); try (pose proof (cz_pos_in c_athalf _ _ _ Hn eq_refl));
      try (pose proof (cz_pos_in c_busy _ _ _ Hn eq_refl)); try (pose proof (cz_pos_in c_past _ _ _ Hn eq_refl))
  | Hn : nth_error (gors _) _ = Some _ |- _ =>
      try (pose proof (cz_pos_in (gl c_needcl) _ _ _ Hn eq_refl)); try (pose proof (cz_pos_in (gl c_pendcb) _ _ _ Hn eq_refl));
      try (pose proof (cz_pos_in (gl c_send) _ _ _ Hn eq_refl)); try (pose proof (cz_pos_in (gl c_cleanT) _ _ _ Hn eq_refl));
      try (pose proof (cz_pos_in g_own _ _ _ Hn eq_refl)); try (pose proof (cz_pos_in g_re _ _ _ Hn eq_refl));
      try (pose proof (cz_pos_in g_act _ _ _ Hn eq_refl)); try (pose proof (cz_pos_in g_run _ _ _ Hn eq_refl));
      try (pose proof (cz_pos_in g_cb _ _ _ Hn eq_refl)); try (pose proof (cz_pos_in (gl c_athalf) _ _ _ Hn eq_refl));
      try (pose proof (cz_pos_in g_all _ _ _ Hn eq_refl)); try (pose proof (cz_pos_in g_w _ _ _ Hn eq_refl));
      try (pose proof (cz_pos_in g_sw _ _ _ Hn eq_refl)); try (pose proof (cz_pos_in g_swin _ _ _ Hn eq_refl));
      try (pose proof (cz_pos_in g_cbpast _ _ _ Hn eq_refl)); try (pose proof (cz_pos_in g_xc _ _ _ Hn eq_refl));
      try (pose proof (cz_pos_in g_badclose _ _ _ Hn eq_refl))
  | _ => idtac end.

Ltac fin s :=
  cb; rw_eqs; rw_cnt; cb; try assumption; try (intros; assumption); uc; zeqh; uc; cb; try lia; czin; cb; uc; zeqh; uc; cb; try lia; czpos s; lia.

(* ====================================================================================================
   Base invariants (any callback mode)
   ==================================================================================================== *)
(* program-point facts *)
Record InvP (s : est) : Prop := {
  b_needE : st s <> c_streamClosed -> e_clr (epc s) = 0;
  b_needC : st s <> c_streamClosed -> cz c_needcl (clos s) = 0;
  b_needG : st s <> c_streamClosed -> cz (gl c_needcl) (gors s) = 0;
  b_needS : st s <> c_streamClosed -> cz g_swin (gors s) = 0;
  b_st : st s = c_streamOpened \/ st s = c_streamHalfClosed \/ st s = v_streamLocalHalfClosed \/ st s = c_streamClosed;
  b_tbl2 : b2z (intable s) = 0 -> st s = c_streamClosed }.

Lemma stepP s w : InvP s -> InvP (step s w).
Proof. intros [H1 H2 H3 H3s H6 H7]. cases s w; brk; constructor; fin s. Qed.

(* close accounting: every departure from `opened` is reported exactly once.  The local half-close made by
   Close() while a callback runs is a debt (the state value itself records it) that the close() of the
   goroutine's exit path pays: it treats oldState = localHalfClosed like opened.  The peer is told exactly
   when the OnLocalClose site is passed. *)
Record InvA (s : est) : Prop := {
  b_acc : nlocal s + nremote s + e_halfn (epc s) + cz c_pendcb (clos s) + cz (gl c_pendcb) (gors s)
          + b2z (st s =? v_streamLocalHalfClosed)
          = (if st s =? c_streamOpened then 0 else 1);
  b_nn : 0 <= nlocal s /\ 0 <= nremote s;
  (* once the state has left `opened`, closeNotifyCh is closed or the thread that will close it stands at that
     call: a reader blocked in readMore is woken (the local half-close of Close() closes it in the same step) *)
  b_wake : st s = c_streamOpened \/ b2z (cnotify s) = 1 \/
           e_halfn (epc s) + cz c_pendcb (clos s) + cz (gl c_pendcb) (gors s) > 0;
  b_sent : nlocal s = ncl (out s) + cz c_send (clos s) + cz (gl c_send) (gors s) }.

Lemma stepA s w : InvA s -> InvA (step s w).
Proof.
  intros [H1 [H2 H2'] H3 H4]. constructor; [| split | |].
  - clear H3 H4. cases s w; brk; fin s.
  - clear H1 H2' H3 H4. cases s w; brk; fin s.
  - clear H1 H2 H3 H4. cases s w; brk; fin s.
  - clear H4. cases s w; brk; fin s.
  - clear H1 H3. cases s w; brk; fin s.
Qed.

(* session table, returned Close() calls, handled close notifications *)
Record InvT (s : est) : Prop := {
  b_tbl : st s = c_streamClosed -> b2z (intable s) = 0 \/ cz c_cleanT (clos s) + cz (gl c_cleanT) (gors s) > 0;
  b_ret : st s = c_streamOpened -> cz c_ret (clos s) = 0;
  b_peer : ncl (processed s) > 0 -> st s <> c_streamOpened \/ e_half (epc s) = 1 }.

Lemma stepT s w : InvP s -> InvT s -> InvT (step s w).
Proof.
  intros [P1 P2 P3 P3s P6 P7] [H1 H2 H4]. clear P1 P3 P3s.
  cases s w; brk; constructor; fin s.
Qed.

(* ---------- ghost bytes: what arrived is what was taken out of pending (in order, once) plus what is
   still pending; nothing is dropped and recvBuf is not recycled before the state is closed ---------- *)
Definition movedof (ch : list (bool * list Z)) : list Z := concat (map snd (filter fst ch)).
Lemma moved_eq s : moved s = movedof (chunks s).
Proof. reflexivity. Qed.

Record InvL (s : est) : Prop := {
  l_A : arrived s = concat (map snd (chunks s)) ++ concat (pending s);
  l_B : st s <> c_streamClosed -> forallb fst (chunks s) = true;
  l_C : st s <> c_streamClosed -> movedof (chunks s) = consumed s ++ recv s }.

Lemma L_add (ar X m : list Z) p : ar = X ++ concat p -> ar ++ m = X ++ concat (p ++ [m]).
Proof. intros ->. rewrite concat_app. simpl. rewrite app_nil_r, app_assoc. reflexivity. Qed.
Lemma L_take (ar : list Z) (ch : list (bool * list Z)) b p :
  ar = concat (map snd ch) ++ concat p -> ar = concat (map snd (ch ++ [(b, concat p)])) ++ concat [].
Proof. intros ->. rewrite map_app, concat_app. simpl. rewrite !app_nil_r. reflexivity. Qed.
Lemma movedof_T ch x : movedof (ch ++ [(true, x)]) = movedof ch ++ x.
Proof. unfold movedof. rewrite filter_app, map_app, concat_app. simpl. rewrite app_nil_r. reflexivity. Qed.
Lemma movedof_F ch x : movedof (ch ++ [(false, x)]) = movedof ch.
Proof. unfold movedof. rewrite filter_app, map_app, concat_app. simpl. rewrite app_nil_r. reflexivity. Qed.
Lemma forallb_T (ch : list (bool * list Z)) x : forallb fst ch = true -> forallb fst (ch ++ [(true, x)]) = true.
Proof. intros H. rewrite forallb_app, H. reflexivity. Qed.

Ltac finL :=
  cb; rw_eqs; try assumption;
  try (match goal with
       | |- _ <> _ -> _ => let Hne := fresh "Hne" in intros Hne;
           first [ exfalso; uc; zeqh; uc; czin; lia
                 | match goal with H : _ <> _ -> ?G |- ?G => apply H; uc; lia end
                 | rewrite movedof_T; match goal with H : _ <> _ -> _ = _ |- _ => rewrite H by (uc; lia) end;
                   rewrite ?app_assoc; reflexivity
                 | apply forallb_T; match goal with H : _ <> _ -> _ |- _ => apply H; uc; lia end
                 | match goal with H : _ <> _ -> _ = _ |- _ => rewrite H by (uc; lia) end;
                   rewrite <- app_assoc, firstn_skipn; reflexivity ]
       | |- _ ++ _ = _ ++ concat (_ ++ [_]) => apply L_add; assumption
       | |- _ = concat (map snd (_ ++ [_])) ++ concat [] => apply L_take; assumption
       end).

Lemma stepL s w : InvP s -> InvL s -> InvL (step s w).
Proof.
  intros [P1 P2 P3 P3s P6 P7] [H1 H2 H3]. clear P7.
  cases s w; brk; constructor; finL.
Qed.

(* ====================================================================================================
   The hand-off of callbackInProcess between the event loop, SetCallbacks and the callback goroutines
   (any callback mode: callbacks installed from the start, later by SetCallbacks, or never)
   ==================================================================================================== *)
(* (clauses are written as linear inequalities over 0/1-valued indicators rather than as disjunctions: the
   preservation proofs are then plain linear arithmetic without case explosion) *)
Record InvC (s : est) : Prop := {
  (* the flag is exactly the number of owners: goroutines between winning it and clearing it, or the event
     loop / SetCallbacks between winning it and the spawn *)
  c_flag : inproc s = cz g_own (gors s) + e_proxy (epc s) + s_proxy (spc s);
  c_01 : 0 <= inproc s <= 1;
  c_cs : 0 <= cstate s <= 1;
  (* before the callbacks are installed there is no goroutine and nobody holds the flag; the user may read
     synchronously only then (and SetCallbacks is called by that same user after its read has returned) *)
  c_nog : b2z (cbset s) = 0 -> cz g_all (gors s) = 0 /\ e_cas (epc s) = 0 /\ s_busy (spc s) = 0 /\ inproc s = 0;
  c_sy : y_busy (sypc s) + b2z (cbset s) <= 1;
  (* no stranding: once callbacks are installed (and no Close() was issued), unmoved pending data always has a
     guardian: the event loop between add and spawn, an owner, a goroutine at its re-check, or SetCallbacks *)
  c_P : nz (pending s) <= cstate s + e_guard (epc s) + cz g_own (gors s) + cz g_re (gors s) +
                          (1 - b2z (cbset s)) + s_busy (spc s);
  (* unread bytes in recvBuf of an open stream (moved there by a goroutine, or by a synchronous read before
     SetCallbacks) always have an owner that will still offer them *)
  c_Q : st s = c_streamOpened ->
        nz (recv s) <= cz g_act (gors s) + e_proxy (epc s) + s_proxy (spc s) + (1 - b2z (cbset s)) + s_busy (spc s);
  (* a goroutine that has decided to clear the flag saw recvBuf empty (or the stream not open) *)
  c_clr : st s = c_streamOpened -> cz g_atclr (gors s) + nz (recv s) <= 1 }.

Lemma own_split l : cz g_own l = cz g_act l + cz g_atclr l.
Proof. induction l as [|g l IH]; cbn [cz]; [lia|]. rewrite IH. destruct g; cbn [g_own g_act g_atclr]; lia. Qed.
Lemma nz_range {A} (l : list A) : 0 <= nz l <= 1.
Proof. destruct l; simpl; lia. Qed.

Lemma nz_skipn_le {A} k (l : list A) : nz (skipn k l) <= nz l.
Proof. destruct l; [destruct k; simpl; lia|]. pose proof (nz_range (skipn k (a :: l))). simpl nz at 2. lia. Qed.
Ltac nzfacts := repeat match goal with
  | |- context [nz (skipn ?k ?l)] =>
      lazymatch goal with H : nz (skipn k l) <= nz l |- _ => fail | _ => pose proof (nz_skipn_le k l) end
  | |- context [nz ?x] =>
      lazymatch goal with H : 0 <= nz x <= 1 |- _ => fail | _ => pose proof (nz_range x) end
  end.
Ltac finC s := cb; rw_eqs; rw_cnt; cb; try assumption; czin; cb; uc; zeqh; uc; cb; nzfacts; try lia; czpos s; lia.
Lemma stepC s w : InvC s -> InvC (step s w).
Proof.
  intros [H3 H4 H4' H1 H2 H5 H6 H7]. pose proof (own_split (gors s)).
  pose proof (nz_range (pending s)). pose proof (nz_range (recv s)).
  cases s w; brk; constructor; finC s.
Qed.




(* ====================================================================================================
   Every reachable state
   ==================================================================================================== *)
Ltac initc := intros; constructor; cbn; rewrite ?cz_repeat_false by reflexivity; uc; cbn; try lia; auto.

Lemma initP cb0 inb n scr ups sy nds pks : InvP (init_rd cb0 inb n scr ups sy nds pks).
Proof. initc. Qed.
Lemma initA cb0 inb n scr ups sy nds pks : InvA (init_rd cb0 inb n scr ups sy nds pks).
Proof. initc. Qed.
Lemma initT cb0 inb n scr ups sy nds pks : InvT (init_rd cb0 inb n scr ups sy nds pks).
Proof. initc. Qed.
Lemma initL cb0 inb n scr ups sy nds pks : InvL (init_rd cb0 inb n scr ups sy nds pks).
Proof. initc. Qed.
Lemma initC cb0 inb n scr ups sy nds pks : InvC (init_rd cb0 inb n scr ups sy nds pks).
Proof. destruct cb0; initc; try (intros; repeat split; cbn; rewrite ?cz_repeat_false by reflexivity; lia). Qed.
Record InvAll (s : est) : Prop := { a_P : InvP s; a_A : InvA s; a_T : InvT s; a_L : InvL s; a_C : InvC s }.

Lemma stepAll s w : InvAll s -> InvAll (step s w).
Proof.
  intros [HP HA HT HL HC]. constructor;
  [apply stepP; auto | apply stepA; auto | apply stepT; auto | apply stepL; auto | apply stepC; auto].
Qed.
Lemma runAll sched s : InvAll s -> InvAll (run sched s).
Proof. revert s; induction sched as [|w l IH]; simpl; intros s H; auto. apply IH, stepAll, H. Qed.
Lemma initAll cb0 inb n scr ups sy nds pks : InvAll (init_rd cb0 inb n scr ups sy nds pks).
Proof. constructor; [apply initP|apply initA|apply initT|apply initL|apply initC]. Qed.

(* ====================================================================================================
   A reader parked inside OnData (blocking read): what arrives after it parked is announced by a token in
   recvNotifyCh (or closeNotifyCh is closed), and a close() that waits for the goroutine has closed closeNotifyCh
   ==================================================================================================== *)
Lemma own_park l : cz g_own l = cz g_park l + cz g_ownnp l.
Proof. induction l as [|g l IH]; cbn [cz]; [lia|]. rewrite IH. destruct g; cbn [g_own g_park g_ownnp andb negb]; lia. Qed.
Lemma e_tok_range e : 0 <= e_tok e <= 1.
Proof. destruct e; simpl; lia. Qed.
Ltac finB s :=
  match goal with
  | Hn : nth_error (gors _) _ = Some _ |- _ =>
      try (pose proof (cz_pos_in g_ownnp _ _ _ Hn eq_refl)); try (pose proof (cz_pos_in g_park _ _ _ Hn eq_refl))
  | _ => idtac end; finC s.
Record InvB (s : est) : Prop := {
  w_tok : nz (pending s) + cz g_park (gors s) <= 1 + b2z (rnotify s) + b2z (cnotify s) + e_tok (epc s);
  w_cl : b2z (cnotify s) = 1 \/ cz c_waitA (clos s) + cz (gl c_waitA) (gors s) = 0 }.
Lemma stepB s w : InvC s -> InvB s -> InvB (step s w).
Proof.
  intros [C1 C2 _ _ _ _ _ _] [H1 H2]. pose proof (own_park (gors s)).
  pose proof (nz_range (pending s)). pose proof (cz_nonneg g_park (gors s)). pose proof (cz_nonneg g_ownnp (gors s)). pose proof (e_tok_range (epc s)).
  pose proof (cz_nonneg c_waitA (clos s)). pose proof (cz_nonneg (gl c_waitA) (gors s)). pose proof (b2z_range (rnotify s)). pose proof (b2z_range (cnotify s)).
  constructor.
  - clear H2. cases s w; brk; finB s.
  - clear H1 C1 C2. cases s w; brk;
      try match goal with
          | Hn : nth_error (gors _) _ = Some _ |- context [CTbl ?old] =>
              destruct (isloc old) eqn:Eo; [pose proof (cz_pos_in (gl c_waitA) _ _ _ Hn Eo)|]
          | Hn : nth_error (clos _) _ = Some _ |- context [CTbl ?old] =>
              destruct (isloc old) eqn:Eo; [pose proof (cz_pos_in c_waitA _ _ _ Hn Eo)|]
          end; finB s.
Qed.
Lemma initB cb0 inb n scr ups sy nds pks : InvB (init_rd cb0 inb n scr ups sy nds pks).
Proof. initc. Qed.
Lemma runB sched s : InvAll s -> InvB s -> InvB (run sched s).
Proof.
  revert s; induction sched as [|w l IH]; simpl; intros s HA H; auto.
  apply IH; [apply stepAll, HA|apply stepB; [apply HA|exact H]].
Qed.


(* ---------- list/count helpers for the statements ---------- *)
Lemma cz_all_false {A} (f : A -> bool) l : (forall i x, nth_error l i = Some x -> f x = false) -> cz f l = 0.
Proof.
  induction l as [|a l IH]; intros H; simpl; auto.
  rewrite (H 0%nat a eq_refl). rewrite IH; auto. intros i x Hx. apply (H (S i) x Hx).
Qed.
Lemma cz_two {A} (f : A -> bool) l i j x y :
  nth_error l i = Some x -> nth_error l j = Some y -> f x = true -> f y = true -> i <> j -> 2 <= cz f l.
Proof.
  revert i j; induction l as [|a l IH]; intros [|i] [|j] Hi Hj Fx Fy Hne; simpl in *; try discriminate; try congruence.
  - inversion Hi; subst. rewrite Fx. pose proof (cz_pos_in f l j y Hj Fy). lia.
  - inversion Hj; subst. rewrite Fy. pose proof (cz_pos_in f l i x Hi Fx). lia.
  - assert (2 <= cz f l) by (eapply (IH i j); eauto). destruct (f a); lia.
Qed.
Lemma nz_nil {A} (l : list A) : nz l = 0 -> l = [].
Proof. destruct l; simpl; [auto|lia]. Qed.
Lemma movedof_all ch : forallb fst ch = true -> movedof ch = concat (map snd ch).
Proof.
  unfold movedof. induction ch as [|[b x] ch IH]; simpl; auto.
  intros H. apply andb_prop in H. destruct H as [Hb Hr]. simpl in Hb. subst b. simpl. rewrite IH; auto.
Qed.

Lemma read_not_blocked s : st s <> c_streamOpened -> read_res s <> RBlocked.
Proof.
  intros H. unfold read_res. destruct (recv s ++ concat (pending s)); [|discriminate].
  destruct (Z.eqb_spec (st s) c_streamOpened); [congruence|discriminate].
Qed.
Lemma flush_closed s : st s <> c_streamOpened -> flush_res s = RErrStreamClosed.
Proof. intros H. unfold flush_res. destruct (Z.eqb_spec (st s) c_streamOpened); [congruence|reflexivity]. Qed.

(* ====================================================================================================
   C20
   ==================================================================================================== *)
Section C20.
Variables (cb0 : bool) (inb : list ev) (ncl_ : nat) (scr : list (nat * nat)) (ups : list (list (list Z))) (sy : list nat) (nds : list nat) (pks : list bool).
Let s0 := init_rd cb0 inb ncl_ scr ups sy nds pks.

(* OnData never overlaps itself: at most one thread owns callbackInProcess, and only owners run OnData *)
Theorem serial sched :
  let s := run sched s0 in
  cz g_own (gors s) + e_proxy (epc s) + s_proxy (spc s) <= 1 /\ cz g_run (gors s) <= 1 /\
  (forall i j gi gj, nth_error (gors s) i = Some gi -> nth_error (gors s) j = Some gj ->
                     g_own gi = true -> g_own gj = true -> i = j).
Proof.
  intros s. pose proof (runAll sched s0 (initAll _ _ _ _ _ _ _ _)) as H. fold s in H.
  destruct H as [_ _ _ _ [Hf H01 _ _ _ _ _ _]].
  assert (Ho : cz g_own (gors s) + e_proxy (epc s) + s_proxy (spc s) <= 1) by lia.
  pose proof (e_range (epc s)) as He. pose proof (s_range (spc s)) as Hs.
  split; [exact Ho|split].
  - assert (cz g_run (gors s) <= cz g_own (gors s)) by (apply cz_le; intros [] E; simpl in *; congruence). lia.
  - intros i j gi gj Hi Hj Gi Gj. destruct (Nat.eq_dec i j) as [|Hne]; auto.
    pose proof (cz_two g_own (gors s) i j gi gj Hi Hj Gi Gj Hne). lia.
Qed.

(* no stranding (callbacks installed) *)
Theorem no_strand sched :
  let s := run sched s0 in
  cbset s = true -> pending s <> [] -> st s = c_streamOpened -> cstate s = 0 ->
  (forall i g, nth_error (gors s) i = Some g -> g_own g = false) ->
  (epc s = EChk \/ epc s = ENotify \/ epc s = EGetCb \/ epc s = ECas \/ epc s = EWgAdd \/ epc s = ESpawn) \/
  (spc s = SCas \/ spc s = SWgAdd \/ spc s = SSpawn) \/
  (exists i g, nth_error (gors s) i = Some g /\ g_re g = true).
Proof.
  intros s Hcb Hp Hst Hcs Hno.
  pose proof (runAll sched s0 (initAll _ _ _ _ _ _ _ _)) as HA. fold s in HA.
  destruct HA as [[HE _ _ _ _ _] _ _ _ [_ _ _ _ _ HP _ _]].
  assert (Ho : cz g_own (gors s) = 0) by (apply cz_all_false; exact Hno).
  assert (Hnz : nz (pending s) = 1) by (destruct (pending s); simpl; [congruence|lia]).
  rewrite Hcb, Hcs, Ho, Hnz in HP. cbn [b2z] in HP.
  pose proof (e_range (epc s)) as He. pose proof (s_range (spc s)) as Hs. pose proof (cz_nonneg g_re (gors s)) as Hr.
  destruct (Z.eq_dec (e_guard (epc s)) 1) as [Hg|Hg].
  - left. assert (Hc : e_clr (epc s) = 0) by (apply HE; uc; lia).
    destruct (epc s); simpl in *; auto 10; try lia.
  - destruct (Z.eq_dec (s_busy (spc s)) 1) as [Hb|Hb].
    + right. left. destruct (spc s); simpl in Hb; auto; lia.
    + right. right. apply cz_exists. lia.
Qed.

(* at quiescence with callbacks installed, the stream open and no Close() issued, everything that arrived was
   consumed — by the synchronous reads that preceded SetCallbacks and then by OnData — and nothing is left in
   pendingData or recvBuf (in particular what a synchronous Peek/ReadBytes had already moved into recvBuf) *)
Theorem quiescent sched :
  let s := run sched s0 in
  cbset s = true -> (spc s = SIdle \/ spc s = SDone) ->
  epc s = EIdle -> (forall i g, nth_error (gors s) i = Some g -> g = GExit) ->
  st s = c_streamOpened -> cstate s = 0 ->
  pending s = [] /\ recv s = [] /\ consumed s = arrived s.
Proof.
  intros s Hcb Hsp He Hg Hst Hcs.
  pose proof (runAll sched s0 (initAll _ _ _ _ _ _ _ _)) as HA. fold s in HA.
  destruct HA as [_ _ _ [LA LB LC] [_ _ _ _ _ HP HQ _]].
  assert (Ho : cz g_own (gors s) = 0) by (apply cz_all_false; intros i g Hi; rewrite (Hg i g Hi); reflexivity).
  assert (Hr : cz g_re (gors s) = 0) by (apply cz_all_false; intros i g Hi; rewrite (Hg i g Hi); reflexivity).
  assert (Ha : cz g_act (gors s) = 0) by (apply cz_all_false; intros i g Hi; rewrite (Hg i g Hi); reflexivity).
  assert (Hsb : s_busy (spc s) = 0 /\ s_proxy (spc s) = 0) by (destruct Hsp as [-> | ->]; split; reflexivity).
  specialize (HQ Hst). rewrite He, Hcb, Hcs, Ho, Hr in HP. rewrite He, Hcb, Ha in HQ. cbn [e_guard e_proxy b2z] in HP, HQ.
  pose proof (nz_range (pending s)). pose proof (nz_range (recv s)).
  assert (Hp : pending s = []) by (apply nz_nil; lia).
  assert (Hrv : recv s = []) by (apply nz_nil; lia).
  repeat split; auto.
  assert (Hnc : st s <> c_streamClosed) by (uc; lia).
  specialize (LB Hnc). specialize (LC Hnc).
  rewrite LA, Hp. simpl. rewrite app_nil_r. rewrite <- (movedof_all _ LB), LC, Hrv, app_nil_r. reflexivity.
Qed.

(* a blocking read inside OnData: the invocation that waits in readMore for more bytes is resumed by the next arrival.
   Whenever something is pending while a goroutine is parked, the token is in recvNotifyCh (or closeNotifyCh is closed),
   unless the event loop stands between its add and its asyncNotify (or is about to clear what it added: state closed) *)
Theorem parked_resumed sched i nd cl :
  let s := run sched s0 in
  nth_error (gors s) i = Some (GRdPark nd cl) -> pending s <> [] ->
  epc s <> EChk -> epc s <> ENotify -> epc s <> EClrP ->
  rnotify s = true \/ cnotify s = true.
Proof.
  intros s Hi Hp H1 H2 H3.
  pose proof (runAll sched s0 (initAll _ _ _ _ _ _ _ _)) as HA. fold s in HA.
  pose proof (runB sched s0 (initAll _ _ _ _ _ _ _ _) (initB _ _ _ _ _ _ _ _)) as [HB _]. fold s in HB.
  pose proof (cz_pos_in g_park (gors s) i _ Hi eq_refl).
  assert (Hnz : nz (pending s) = 1) by (destruct (pending s); simpl; [congruence|lia]).
  assert (He : e_tok (epc s) = 0) by (destruct (epc s); simpl; auto; congruence).
  destruct (rnotify s); [left; reflexivity|]. destruct (cnotify s); [right; reflexivity|]. cbn [b2z] in HB. lia.
Qed.
(* hence at rest (event loop idle, no token, not closed) a parked invocation has been given everything that arrived *)
Theorem parked_quiescent sched i nd cl :
  let s := run sched s0 in
  nth_error (gors s) i = Some (GRdPark nd cl) -> epc s = EIdle -> rnotify s = false -> cnotify s = false ->
  pending s = [].
Proof.
  intros s Hi He Hr Hc. subst s. set (s := run sched s0) in *.
  destruct (pending s) as [|p l] eqn:Ep; [reflexivity|exfalso].
  assert (Hp : pending s <> []) by (rewrite Ep; discriminate).
  assert (E1 : epc s <> EChk) by (rewrite He; discriminate).
  assert (E2 : epc s <> ENotify) by (rewrite He; discriminate).
  assert (E3 : epc s <> EClrP) by (rewrite He; discriminate).
  destruct (parked_resumed sched i nd cl Hi Hp E1 E2 E3) as [H|H]; fold s in H; congruence.
Qed.
(* and it is the goroutine's own step that takes the token / sees the close: the parked thread is enabled *)
Theorem parked_enabled (s : est) i nd cl :
  nth_error (gors s) i = Some (GRdPark nd cl) -> rnotify s = true \/ cnotify s = true ->
  nth_error (gors (step s (WGor i))) i <> Some (GRdPark nd cl).
Proof.
  intros Hi H. assert (Hl : (i < length (gors s))%nat) by (apply nth_error_Some; congruence).
  cbn [step]. unfold gstep. rewrite Hi.
  destruct (rnotify s) eqn:Er; destruct (cnotify s) eqn:Ec; try (destruct H; discriminate);
    try destruct (hd false (picks s)); cbn [andb]; unfold setg; cb; rewrite nth_set_nth by assumption; discriminate.
Qed.
End C20.

(* order / exactly once (any callback mode): what arrived is the in-order concatenation of the chunks taken
   out of pending plus what is still pending; what reached recvBuf is the sub-sequence of moved chunks; until
   the stream is closed nothing is dropped and every arrived byte is, once and in order, consumed by OnData,
   readable in recvBuf, or pending *)
Theorem order_once cb0 inb ncl scr ups sy nds pks sched :
  let s := run sched (init_rd cb0 inb ncl scr ups sy nds pks) in
  arrived s = concat (map snd (chunks s)) ++ concat (pending s) /\
  moved s = concat (map snd (filter fst (chunks s))) /\
  (st s <> c_streamClosed -> arrived s = consumed s ++ recv s ++ concat (pending s)).
Proof.
  intros s. pose proof (runAll sched _ (initAll cb0 inb ncl scr ups sy nds pks)) as HA. fold s in HA.
  destruct HA as [_ _ _ [LA LB LC]]. repeat split; auto.
  intros Hnc. rewrite LA. rewrite <- (movedof_all _ (LB Hnc)), (LC Hnc), app_assoc. reflexivity.
Qed.

(* offering stops: once the state has left `opened`, the only OnData that can still begin is the one
   whose IsOpen() check had already passed *)
Definition olen (s : est) : Z := Z.of_nat (length (offers s)).
Lemma stop_step s w : st s <> c_streamOpened ->
  olen (step s w) + cz g_cb (gors (step s w)) <= olen s + cz g_cb (gors s).
Proof.
  intros Hst. unfold olen. cases s w; brk; cb; rw_cnt; rewrite ?app_length, ?Nat2Z.inj_add; cbn [length]; cb;
    try lia; try congruence; uc; zeqh; cb; lia.
Qed.
Theorem stop cb0 inb ncl scr ups sy nds pks sched sched' :
  let s := run sched (init_rd cb0 inb ncl scr ups sy nds pks) in
  st s <> c_streamOpened ->
  let s' := run sched' s in
  st s' <> c_streamOpened /\ olen s' + cz g_cb (gors s') <= olen s + cz g_cb (gors s).
Proof.
  intros s Hst. generalize dependent s. intros s. clear. revert s.
  induction sched' as [|w l IH]; intros s Hst; simpl; [split; [auto|lia]|].
  assert (Hst' : st (step s w) <> c_streamOpened).
  { pose proof (step_mono s w) as Hm. unfold mono in Hm. uc. lia. }
  destruct (IH (step s w) Hst') as [H1 H2]. split; auto.
  pose proof (stop_step s w Hst). fold (run l (step s w)) in *. lia.
Qed.

