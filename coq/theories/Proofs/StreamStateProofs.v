(* Invariants of the stream state machine (Model/StreamState.v) for EVERY schedule, any number of
   inbound events, Close() calls, user threads and callback goroutines.  Style: per-program-point
   facts expressed as COUNTS of threads at given program points (so that preservation is linear
   arithmetic), plus three ghost equations about the byte stream. *)
From Coq Require Import List ZArith Lia Bool Arith.
From Shm Require Import Gen.Consts Model.StreamState.
Import ListNotations.
Open Scope Z_scope.

(* ---------- counting threads at program points ---------- *)
Fixpoint cz {A} (f : A -> bool) (l : list A) : Z :=
  match l with [] => 0 | x :: t => (if f x then 1 else 0) + cz f t end.
Definition b2z (b : bool) : Z := if b then 1 else 0.
Definition nz {A} (l : list A) : Z := match l with [] => 0 | _ => 1 end.

Lemma cz_nonneg {A} (f : A -> bool) l : 0 <= cz f l.
Proof. induction l as [|x l IH]; simpl; [lia|destruct (f x); lia]. Qed.
Lemma cz_app {A} (f : A -> bool) a b : cz f (a ++ b) = cz f a + cz f b.
Proof. induction a as [|x a IH]; simpl; [lia|rewrite IH; lia]. Qed.
Lemma cz_set_nth {A} (f : A -> bool) l i x y :
  nth_error l i = Some x -> cz f (set_nth i y l) = cz f l - b2z (f x) + b2z (f y).
Proof.
  revert i; induction l as [|a l IH]; intros [|i] H; simpl in *; try discriminate.
  - inversion H; subst. unfold b2z. destruct (f x), (f y); lia.
  - rewrite (IH _ H). lia.
Qed.
Lemma cz_repeat_false {A} (f : A -> bool) x n : f x = false -> cz f (repeat x n) = 0.
Proof. intros H; induction n; simpl; auto. rewrite H, IHn. reflexivity. Qed.
Lemma cz_pos_in {A} (f : A -> bool) l i x : nth_error l i = Some x -> f x = true -> 0 < cz f l.
Proof.
  revert i; induction l as [|a l IH]; intros [|i] H Hf; simpl in *; try discriminate.
  - inversion H; subst. rewrite Hf. pose proof (cz_nonneg f l). lia.
  - pose proof (IH _ H Hf). destruct (f a); lia.
Qed.
Lemma cz_ge_in {A} (f : A -> bool) l i x : nth_error l i = Some x -> b2z (f x) <= cz f l.
Proof.
  intros H. unfold b2z. destruct (f x) eqn:E; [pose proof (cz_pos_in f l i x H E); lia|apply cz_nonneg].
Qed.
Lemma cz_zero_all {A} (f : A -> bool) l : cz f l = 0 -> forall i x, nth_error l i = Some x -> f x = false.
Proof.
  intros H i x Hx. destruct (f x) eqn:E; auto. pose proof (cz_pos_in f l i x Hx E). lia.
Qed.
Lemma cz_exists {A} (f : A -> bool) l : 0 < cz f l -> exists i x, nth_error l i = Some x /\ f x = true.
Proof.
  induction l as [|a l IH]; simpl; intros H; [lia|].
  destruct (f a) eqn:E.
  - exists 0%nat, a. split; auto.
  - destruct IH as [i [x [Hx Hf]]]; [lia|]. exists (S i), x. split; auto.
Qed.

(* ---------- program-point predicates ---------- *)
Definition isop (o : Z) : bool := o =? c_streamOpened.
(* inside the part of close() that runs only after the CAS to closed was won *)
Definition c_needcl (c : cpc) : bool :=
  match c with CWait _ | CTbl _ | CPend _ | CRecv _ | CNotify | CSend => true | _ => false end.
(* has taken the state out of `opened` by close() and not yet reported it (OnLocalClose site) *)
Definition c_pendcb (c : cpc) : bool :=
  match c with CWait o | CTbl o | CPend o | CRecv o => isop o | CNotify => true | _ => false end.
Definition c_send (c : cpc) : bool := match c with CSend => true | _ => false end.
Definition c_cleanT (c : cpc) : bool := match c with CWait _ | CTbl _ => true | _ => false end.
Definition c_athalf (c : cpc) : bool := match c with KHalf => true | _ => false end.
Definition c_ret (c : cpc) : bool := match c with KRet => true | _ => false end.
Definition c_casbad (c : cpc) : bool := match c with CCas o => negb (isop o) | _ => false end.
Definition gl (f : cpc -> bool) (g : gpc) : bool :=
  match g with GCbClose c | GClose c => f c | _ => false end.

(* owns callbackInProcess: from winning the CAS (or being spawned) to the store of 0 *)
Definition g_own (g : gpc) : bool :=
  match g with GMove | GChk | GCb | GCbBody _ _ | GCbClose _ | GCbEnd | GClr => true | _ => false end.
(* between clearing the flag and the re-check of pending *)
Definition g_re (g : gpc) : bool := match g with GLdCs | GLen | GCas => true | _ => false end.
(* owner that will still look at recvBuf *)
Definition g_act (g : gpc) : bool :=
  match g with GMove | GChk | GCb | GCbBody _ _ | GCbClose _ | GCbEnd => true | _ => false end.
(* OnData is executing *)
Definition g_run (g : gpc) : bool := match g with GCbBody _ _ | GCbClose _ | GCbEnd => true | _ => false end.
(* IsOpen() check passed, OnData not yet begun *)
Definition g_cb (g : gpc) : bool := match g with GCb => true | _ => false end.
Definition g_exit (g : gpc) : bool := match g with GExit => true | _ => false end.

Definition e_proxy (e : epcT) : Z := match e with EWgAdd | ESpawn => 1 | _ => 0 end.
Definition e_guard (e : epcT) : Z := match e with EChk | EGetCb | ECas | EWgAdd | ESpawn | EClrP => 1 | _ => 0 end.
Definition e_clr (e : epcT) : Z := match e with EClrP | EClrR => 1 | _ => 0 end.
Definition e_halfn (e : epcT) : Z := match e with EHalfN => 1 | _ => 0 end.
Definition e_half (e : epcT) : Z := match e with EHalf => 1 | _ => 0 end.

Fixpoint ncl (l : list ev) : Z := match l with [] => 0 | EClose :: t => 1 + ncl t | _ :: t => ncl t end.
Lemma ncl_app a b : ncl (a ++ b) = ncl a + ncl b.
Proof. induction a as [|[m|] a IH]; cbn [ncl app]; rewrite ?IH; lia. Qed.
Lemma ncl_nonneg l : 0 <= ncl l.
Proof. induction l as [|[m|] l IH]; cbn [ncl]; lia. Qed.

(* ---------- the state only moves forward ---------- *)
Definition mono (s s' : est) : Prop :=
  st s' = st s \/ (st s = c_streamOpened /\ st s' = c_streamHalfClosed) \/ (st s <> c_streamClosed /\ st s' = c_streamClosed).

Ltac zeq := repeat match goal with
  | |- context [?a =? ?b] => destruct (Z.eqb_spec a b)
  | |- context [?a <=? ?b] => destruct (Z.leb_spec a b)
  end.
Ltac uc := unfold c_streamOpened, c_streamClosed, c_streamHalfClosed, v_callbackWaitExit, isop in *.

Lemma cstep_mono s c : mono s (fst (cstep s c)).
Proof.
  unfold mono; destruct c; cbn; zeq; cbn; try destruct (cbset s) eqn:Ecb; cbn; uc; try lia.
Qed.

(* what cstep leaves alone *)
Lemma cstep_frame s c :
  let s' := fst (cstep s c) in
  gors s' = gors s /\ clos s' = clos s /\ epc s' = epc s /\ inbox s' = inbox s /\ spc s' = spc s /\
  users s' = users s /\ script s' = script s /\ processed s' = processed s /\ arrived s' = arrived s /\
  consumed s' = consumed s /\ offers s' = offers s /\ inproc s' = inproc s /\ cbset s' = cbset s /\
  nremote s' = nremote s /\ wg s' = wg s.
Proof.
  destruct c; cbn; zeq; cbn; try destruct (cbset s) eqn:Ecb; cbn; rewrite ?Ecb; repeat split; reflexivity.
Qed.

Lemma step_mono s w : mono s (step s w).
Proof.
  destruct w as [|i|i| |i]; cbn [step].
  - unfold estep, mono. destruct (epc s); cbn; try (left; reflexivity).
    + destruct (inbox s) as [|e r]; [left; reflexivity|]. destruct (intable s); [destruct e|]; cbn; left; reflexivity.
    + zeq; cbn; uc; lia.
    + zeq; cbn; lia.
    + destruct (cbset s) eqn:Ecb; cbn; lia.
    + zeq; cbn; lia.
  - unfold gstep. destruct (nth_error (gors s) i) as [g|]; [|left; reflexivity].
    destruct g as [| | |k cl|c| | | | | | | |c|]; cbn; try (left; reflexivity);
      try apply (cstep_mono s c); zeq; cbn; try destruct (recv s); try destruct (pending s); cbn; left; reflexivity.
  - unfold clstep. destruct (nth_error (clos s) i) as [c|]; [|left; reflexivity]. cbn. apply (cstep_mono s c).
  - unfold sstep, mono. destruct (spc s); cbn; try destruct (cbset s) eqn:Ecb; cbn; lia.
  - unfold ustep, mono. destruct (nth_error (users s) i) as [u|]; [|lia].
    destruct (upc u); cbn; [destruct (utodo u); cbn; [lia|zeq; cbn; lia]|lia].
Qed.

Lemma run_app a b s : run (a ++ b) s = run b (run a s).
Proof. unfold run. apply fold_left_app. Qed.

Lemma mono_trans s1 s2 s3 : mono s1 s2 -> mono s2 s3 -> mono s1 s3.
Proof. unfold mono; uc; lia. Qed.
Lemma mono_refl s : mono s s.
Proof. left; reflexivity. Qed.

Lemma run_mono sched s : mono s (run sched s).
Proof.
  revert s; induction sched as [|w l IH]; intros s; [apply mono_refl|].
  simpl. eapply mono_trans; [apply step_mono|apply IH].
Qed.

(* ====================================================================================================
   Case analysis machinery: one goal per (thread, program point, branch); each goal is closed by
   rewriting the thread counts and linear arithmetic over the clauses of the old state.
   ==================================================================================================== *)
Ltac cb := cbn [step estep gstep clstep sstep ustep cstep setg clear_pending move_pending fst snd
  st inproc cstate wg cbset intable cnotify pending recv inbox epc gors clos spc users script processed arrived
  chunks consumed offers nlocal nremote out khalf lhalf casfail
  set_st set_inproc set_cstate set_wg set_cbset set_intable set_cnotify set_pending set_recv set_inbox set_epc
  set_gors set_clos set_spc set_users set_script set_processed set_arrived set_chunks set_consumed set_offers
  set_nlocal set_nremote set_out set_khalf set_lhalf set_casfail
  b2z nz c_athalf c_needcl c_pendcb c_send c_cleanT c_ret c_casbad gl g_own g_re g_act g_run g_cb g_exit
  e_proxy e_guard e_clr e_halfn e_half upc utodo ures negb cz ncl] in *.

Ltac cases s w :=
  destruct w as [|i|i| |i]; cbn [step];
  [ unfold estep; destruct (epc s) eqn:Ee;
      [ destruct (inbox s) as [|e r] eqn:Ei; [|destruct (intable s) eqn:Et; [destruct e as [m|]|]] | .. ]
  | unfold gstep; destruct (nth_error (gors s) i) as [g|] eqn:Hn;
      [destruct g as [| | |k cl|c| | | | | | | |c|]; [ | | |destruct cl|destruct c| | | | | | | |destruct c|] |]
  | unfold clstep; destruct (nth_error (clos s) i) as [c|] eqn:Hn; [destruct c|]
  | unfold sstep; destruct (spc s) eqn:Es
  | unfold ustep; destruct (nth_error (users s) i) as [u|] eqn:Hn; [destruct (upc u); [destruct (utodo u)|]|] ];
  cb.

(* split on the branch conditions that occur in the goal *)
Ltac brk := repeat match goal with
  | |- context [if ?a =? ?b then _ else _] => destruct (Z.eqb_spec a b)
  | |- context [if ?a <=? ?b then _ else _] => destruct (Z.leb_spec a b)
  | |- context [if cbset ?s then _ else _] => destruct (cbset s) eqn:Ecb
  | |- context [match recv ?s with _ => _ end] => destruct (recv s) eqn:Erv
  | |- context [match pending ?s with _ => _ end] => destruct (pending s) eqn:Epd
  end; cb.

Ltac rw_eqs := repeat match goal with
  | E : epc _ = _ |- _ => rewrite E
  | E : intable _ = _ |- _ => rewrite E
  | E : cbset _ = _ |- _ => rewrite E
  | E : spc _ = _ |- _ => rewrite E
  | E : recv _ = _ |- _ => rewrite E
  | E : pending _ = _ |- _ => rewrite E
  end.

Ltac rw_cnt := match goal with
  | Hn : nth_error _ _ = Some _ |- _ => repeat rewrite (cz_set_nth _ _ _ _ _ Hn)
  | _ => idtac end; rewrite ?cz_app, ?ncl_app.

Ltac zeqh := repeat match goal with
  | |- context [?a =? ?b] => destruct (Z.eqb_spec a b)
  | H : context [?a =? ?b] |- _ => destruct (Z.eqb_spec a b)
  end.

Lemma b2z_range b : 0 <= b2z b <= 1.
Proof. destruct b; simpl; lia. Qed.
Lemma e_range e : 0 <= e_proxy e <= 1 /\ 0 <= e_guard e <= 1 /\ 0 <= e_clr e <= 1 /\ 0 <= e_halfn e <= 1 /\ 0 <= e_half e <= 1.
Proof. destruct e; simpl; lia. Qed.
Ltac czpos s :=
  pose proof (b2z_range (lhalf s)); pose proof (b2z_range (khalf s)); pose proof (b2z_range (casfail s));
  pose proof (b2z_range (intable s)); pose proof (e_range (epc s));
  pose proof (cz_nonneg c_athalf (clos s)); pose proof (cz_nonneg (gl c_athalf) (gors s));
  pose proof (cz_nonneg c_needcl (clos s)); pose proof (cz_nonneg (gl c_needcl) (gors s));
  pose proof (cz_nonneg c_pendcb (clos s)); pose proof (cz_nonneg (gl c_pendcb) (gors s));
  pose proof (cz_nonneg c_send (clos s)); pose proof (cz_nonneg (gl c_send) (gors s));
  pose proof (cz_nonneg c_cleanT (clos s)); pose proof (cz_nonneg (gl c_cleanT) (gors s));
  pose proof (cz_nonneg c_ret (clos s)); pose proof (cz_nonneg c_casbad (clos s));
  pose proof (cz_nonneg (gl c_casbad) (gors s));
  pose proof (cz_nonneg g_own (gors s)); pose proof (cz_nonneg g_re (gors s));
  pose proof (cz_nonneg g_act (gors s)); pose proof (cz_nonneg g_run (gors s));
  pose proof (cz_nonneg g_cb (gors s)); pose proof (ncl_nonneg (out s)); pose proof (ncl_nonneg (processed s)).

(* the stepping thread itself is counted by every predicate that holds at its program point *)
Ltac czin := match goal with
  | Hn : nth_error (clos _) _ = Some _ |- _ =>
      try (pose proof (cz_pos_in c_needcl _ _ _ Hn eq_refl)); try (pose proof (cz_pos_in c_pendcb _ _ _ Hn eq_refl));
      try (pose proof (cz_pos_in c_send _ _ _ Hn eq_refl)); try (pose proof (cz_pos_in c_cleanT _ _ _ Hn eq_refl));
      try (pose proof (cz_pos_in c_ret _ _ _ Hn eq_refl)); try (pose proof (cz_pos_in c_athalf _ _ _ Hn eq_refl)); pose proof (cz_ge_in c_casbad _ _ _ Hn)
  | Hn : nth_error (gors _) _ = Some _ |- _ =>
      try (pose proof (cz_pos_in (gl c_needcl) _ _ _ Hn eq_refl)); try (pose proof (cz_pos_in (gl c_pendcb) _ _ _ Hn eq_refl));
      try (pose proof (cz_pos_in (gl c_send) _ _ _ Hn eq_refl)); try (pose proof (cz_pos_in (gl c_cleanT) _ _ _ Hn eq_refl));
      try (pose proof (cz_pos_in g_own _ _ _ Hn eq_refl)); try (pose proof (cz_pos_in g_re _ _ _ Hn eq_refl));
      try (pose proof (cz_pos_in g_act _ _ _ Hn eq_refl)); try (pose proof (cz_pos_in g_run _ _ _ Hn eq_refl));
      try (pose proof (cz_pos_in g_cb _ _ _ Hn eq_refl)); try (pose proof (cz_pos_in (gl c_athalf) _ _ _ Hn eq_refl)); pose proof (cz_ge_in (gl c_casbad) _ _ _ Hn)
  | _ => idtac end.

Ltac fin s :=
  cb; rw_eqs; rw_cnt; cb; try assumption; try (intros; assumption); uc; zeqh; uc; cb; try lia; czin; cb; uc; zeqh; uc; cb; try lia; czpos s; lia.

(* ====================================================================================================
   Base invariants (any initial callback mode)
   ==================================================================================================== *)
(* program-point facts *)
Record InvP (s : est) : Prop := {
  b_needE : st s <> c_streamClosed -> e_clr (epc s) = 0;
  b_needC : st s <> c_streamClosed -> cz c_needcl (clos s) = 0;
  b_needG : st s <> c_streamClosed -> cz (gl c_needcl) (gors s) = 0;
  b_casC : st s = c_streamOpened -> cz c_casbad (clos s) = 0;
  b_casG : st s = c_streamOpened -> cz (gl c_casbad) (gors s) = 0;
  b_st : st s = c_streamOpened \/ st s = c_streamHalfClosed \/ st s = c_streamClosed;
  b_tbl2 : b2z (intable s) = 0 -> st s = c_streamClosed }.

Lemma stepP s w : InvP s -> InvP (step s w).
Proof. intros [H1 H2 H3 H4 H5 H6 H7]. cases s w; brk; constructor; fin s. Qed.

(* close accounting: every departure from `opened` is reported exactly once — or it was the silent
   local half-close of Close() (lhalf); the peer is told exactly when the OnLocalClose site is passed *)
Record InvA (s : est) : Prop := {
  b_acc : nlocal s + nremote s + e_halfn (epc s) + cz c_pendcb (clos s) + cz (gl c_pendcb) (gors s) + b2z (lhalf s)
          = (if st s =? c_streamOpened then 0 else 1);
  b_nn : 0 <= nlocal s /\ 0 <= nremote s;
  b_lh : b2z (lhalf s) <= b2z (khalf s);
  b_kh : cz c_athalf (clos s) + cz (gl c_athalf) (gors s) = 0 \/ b2z (khalf s) = 1;
  b_sent : nlocal s = ncl (out s) + cz c_send (clos s) + cz (gl c_send) (gors s) }.

Lemma stepA s w : InvA s -> InvA (step s w).
Proof. intros [H1 [H2 H2'] H3 H3' H4]. cases s w; brk; constructor; fin s. Qed.

(* session table, returned Close() calls, handled close notifications *)
Record InvT (s : est) : Prop := {
  b_tbl : st s = c_streamClosed -> b2z (intable s) = 0 \/ cz c_cleanT (clos s) + cz (gl c_cleanT) (gors s) > 0;
  b_ret : st s = c_streamOpened -> cz c_ret (clos s) = 0;
  b_ret2 : st s = c_streamClosed \/ b2z (khalf s) + b2z (casfail s) > 0 \/ cz c_ret (clos s) = 0;
  b_peer : ncl (processed s) > 0 -> st s <> c_streamOpened \/ e_half (epc s) = 1 }.

Lemma stepT s w : InvP s -> InvA s -> InvT s -> InvT (step s w).
Proof.
  intros [P1 P2 P3 P4 P5 P6 P7] [A1 A2 A3 A4 A5] [H1 H2 H3 H4]. clear P1 P3 P5 A1 A2 A3 A5.
  cases s w; brk; constructor; fin s.
Qed.

(* ---------- ghost bytes: what arrived is what was taken out of pending (in order, once) plus what is
   still pending; nothing is dropped and recvBuf is not recycled before the state is closed ---------- *)
Definition movedof (ch : list (bool * list Z)) : list Z := concat (map snd (filter fst ch)).
Lemma moved_eq s : moved s = movedof (chunks s).
Proof. reflexivity. Qed.

Record InvL (s : est) : Prop := {
  l_A : arrived s = concat (map snd (chunks s)) ++ concat (pending s);
  l_B : st s <> c_streamClosed -> forallb fst (chunks s) = true;
  l_C : st s <> c_streamClosed -> movedof (chunks s) = consumed s ++ recv s }.

Lemma L_add (ar X m : list Z) p : ar = X ++ concat p -> ar ++ m = X ++ concat (p ++ [m]).
Proof. intros ->. rewrite concat_app. simpl. rewrite app_nil_r, app_assoc. reflexivity. Qed.
Lemma L_take (ar : list Z) (ch : list (bool * list Z)) b p :
  ar = concat (map snd ch) ++ concat p -> ar = concat (map snd (ch ++ [(b, concat p)])) ++ concat [].
Proof. intros ->. rewrite map_app, concat_app. simpl. rewrite !app_nil_r. reflexivity. Qed.
Lemma movedof_T ch x : movedof (ch ++ [(true, x)]) = movedof ch ++ x.
Proof. unfold movedof. rewrite filter_app, map_app, concat_app. simpl. rewrite app_nil_r. reflexivity. Qed.
Lemma movedof_F ch x : movedof (ch ++ [(false, x)]) = movedof ch.
Proof. unfold movedof. rewrite filter_app, map_app, concat_app. simpl. rewrite app_nil_r. reflexivity. Qed.
Lemma forallb_T (ch : list (bool * list Z)) x : forallb fst ch = true -> forallb fst (ch ++ [(true, x)]) = true.
Proof. intros H. rewrite forallb_app, H. reflexivity. Qed.

Ltac finL :=
  cb; rw_eqs; try assumption;
  try (match goal with
       | |- _ <> _ -> _ => let Hne := fresh "Hne" in intros Hne;
           first [ exfalso; uc; zeqh; uc; czin; lia
                 | match goal with H : _ <> _ -> ?G |- ?G => apply H; uc; lia end
                 | rewrite movedof_T; match goal with H : _ <> _ -> _ = _ |- _ => rewrite H by (uc; lia) end;
                   rewrite ?app_assoc; reflexivity
                 | apply forallb_T; match goal with H : _ <> _ -> _ |- _ => apply H; uc; lia end
                 | match goal with H : _ <> _ -> _ = _ |- _ => rewrite H by (uc; lia) end;
                   rewrite <- app_assoc, firstn_skipn; reflexivity ]
       | |- _ ++ _ = _ ++ concat (_ ++ [_]) => apply L_add; assumption
       | |- _ = concat (map snd (_ ++ [_])) ++ concat [] => apply L_take; assumption
       end).

Lemma stepL s w : InvP s -> InvL s -> InvL (step s w).
Proof.
  intros [P1 P2 P3 P4 P5 P6 P7] [H1 H2 H3]. clear P4 P5 P7.
  cases s w; brk; constructor; finL.
Qed.
