(* Writer side of Model/LinkedBuffer.v: WriteBytes, WriteByte, WriteString, Reserve (three-way)
   refine "append to the pending bytes" for every allocator state (single shm slice, several slices
   from allocShmBuffers, heap fallback with its 4096 minimum), keep the send buffer well formed
   (write slice = last slice, last slice non-empty when len > 0) and touch only slots they own. *)
From Coq Require Import List ZArith Lia Bool Arith.
From Shm Require Import Gen.Consts Model.LinkedBuffer Proofs.LinkedBufferProofs Proofs.LinkedBufferStore.
Import ListNotations.
Close Scope Z_scope.
Open Scope nat_scope.

(* ---------------------------------------------------------------------------------------- *)
(* one slice                                                                                 *)
(* ---------------------------------------------------------------------------------------- *)
Definition wslice_ok (m : shm) (s : slice) : Prop :=
  (rd s = start s /\ start s = 0) /\ rd s <= wr s /\ wr s <= cap s /\ length (sdata m s) = cap s /\
  (shmf s = true -> exists t, slot_at m (off s) = Some t /\ st_cap t = cap s /\ st_hasnext t = false).

Lemma wslice_slice_ok m s : wslice_ok m s -> slice_ok m s.
Proof. intros [_ [H1 [H2 [H3 _]]]]. split; lia. Qed.

Lemma overwrite_body (d w : list byte) r p :
  r <= p -> p + length w <= length d ->
  firstn (p + length w - r) (skipn r (overwrite d p w)) = firstn (p - r) (skipn r d) ++ w.
Proof.
  intros Hr Hp. unfold overwrite.
  rewrite (firstn_all2 (n := length d - p) w) by lia.
  rewrite skipn_app_le by (rewrite firstn_length; lia).
  assert (Hl : length (skipn r (firstn p d)) = p - r) by (rewrite skipn_length, firstn_length; lia).
  rewrite firstn_app_ge by lia. rewrite Hl.
  rewrite firstn_app_ge by lia. replace (p + length w - r - (p - r) - length w) with 0 by lia.
  rewrite firstn_O, app_nil_r. f_equal. rewrite skipn_firstn' by lia. reflexivity.
Qed.

Lemma overwrite_nil d p : p <= length d -> overwrite d p [] = d.
Proof.
  intros H. unfold overwrite. cbn [length firstn app]. rewrite firstn_nil. cbn [app]. rewrite Nat.add_0_r. apply firstn_skipn.
Qed.

(* writing w at the write index of slot o *)
Lemma slot_at_write m o p w t : slot_at m o = Some t ->
  slot_at (upd_slot m o (slot_write p w)) o = Some (slot_write p w t).
Proof. apply slot_at_upd_same. Qed.

Definition put (s : slice) (w : list byte) : slice :=   (* the slice after w was written at its write index *)
  if shmf s then advw (length w) s else with_heap (overwrite (heap s) (wr s) w) (advw (length w) s).
Definition put_store (m : shm) (s : slice) (w : list byte) : shm :=
  if shmf s then upd_slot m (off s) (slot_write (wr s) w) else m.

Lemma put_fields s w : shmf (put s w) = shmf s /\ off (put s w) = off s /\ cap (put s w) = cap s /\
  start (put s w) = start s /\ rd (put s w) = rd s /\ wr (put s w) = wr s + length w.
Proof. unfold put. destruct (shmf s) eqn:E; cbn [advw with_heap shmf off cap start rd wr]; rewrite ?E; repeat split; reflexivity. Qed.

Lemma sdata_put m s w : wslice_ok m s -> sdata (put_store m s w) (put s w) = overwrite (sdata m s) (wr s) w.
Proof.
  intros [_ [_ [_ [_ Hs]]]]. unfold put, put_store. destruct (shmf s) eqn:E.
  - destruct (Hs eq_refl) as [t [Ht _]].
    rewrite sdata_slot by (cbn; exact E). cbn [advw off]. rewrite (slot_at_write _ _ _ _ _ Ht).
    rewrite (sdata_slot m s E), Ht. reflexivity.
  - rewrite sdata_heap by (cbn; exact E). rewrite (sdata_heap m s E). reflexivity.
Qed.

Lemma put_ok m s w : wslice_ok m s -> wr s + length w <= cap s -> wslice_ok (put_store m s w) (put s w).
Proof.
  intros Hs Hw. pose proof (sdata_put m s w Hs) as Hd. destruct Hs as [H1 [H2 [H3 [H4 H5]]]].
  destruct (put_fields s w) as [F1 [F2 [F3 [F4 [F5 F6]]]]].
  unfold wslice_ok. rewrite Hd, length_overwrite, F1, F2, F3, F4, F5, F6. repeat split; auto; try lia.
  intros E. destruct (H5 E) as [t [Ht [Hc Hn]]]. unfold put_store. rewrite E.
  exists (slot_write (wr s) w t). split; [apply slot_at_write; exact Ht|split; [exact Hc|exact Hn]].
Qed.

Lemma body_put m s w : wslice_ok m s -> wr s + length w <= cap s ->
  body (put_store m s w) (put s w) = body m s ++ w.
Proof.
  intros Hs Hw. pose proof (sdata_put m s w Hs) as Hd. destruct Hs as [H1 [H2 [H3 [H4 H5]]]].
  destruct (put_fields s w) as [F1 [F2 [F3 [F4 [F5 F6]]]]].
  unfold body, ssize. rewrite Hd, F5, F6. apply overwrite_body; lia.
Qed.

(* the other slices do not notice *)
Lemma put_store_other m s w x : x <> off s \/ shmf s = false -> slot_at (put_store m s w) x = slot_at m x.
Proof.
  intros H. unfold put_store. destruct (shmf s) eqn:E; [|reflexivity].
  destruct H as [H|H]; [|discriminate]. apply slot_at_upd_other. exact H.
Qed.

Lemma wslice_ok_frame m m' s : (shmf s = true -> slot_at m' (off s) = slot_at m (off s)) -> wslice_ok m s -> wslice_ok m' s.
Proof.
  intros Hf [[H1 H1'] [H2 [H3 [H4 H5]]]]. unfold wslice_ok. rewrite (sdata_frame m m' s Hf). repeat split; auto.
  intros E. rewrite (Hf E). apply H5. exact E.
Qed.

(* ---------------------------------------------------------------------------------------- *)
(* sl_append / sl_reserve in terms of put                                                    *)
(* ---------------------------------------------------------------------------------------- *)
Lemma sl_append_spec m l i s bs : wslice_ok m s -> bs <> [] ->
  let k := Nat.min (length bs) (room s) in
  sl_append m l i s bs = Ok (k, put_store m s (firstn k bs), set_slice_at l i (put s (firstn k bs))).
Proof.
  intros Hs Hne k. pose proof Hs as [H1 [H2 [H3 [H4 H5]]]]. unfold sl_append. destruct bs as [|b bs']; [congruence|].
  set (bs := b :: bs') in *. rewrite H4. destruct (Nat.ltb_spec (cap s) (wr s)) as [|_]; [lia|].
  fold (room s). fold k. assert (Hk : length (firstn k bs) = k) by (rewrite firstn_length; lia).
  unfold put, put_store. rewrite Hk. destruct (shmf s); reflexivity.
Qed.

Lemma sl_reserve_spec m l i s bs : wslice_ok m s ->
  sl_reserve m l i s bs =
  if wr s + length bs <=? cap s then Some (Ok (put_store m s bs, set_slice_at l i (put s bs))) else None.
Proof.
  intros [H1 [H2 [H3 [H4 H5]]]]. unfold sl_reserve. destruct (Nat.leb_spec (wr s + length bs) (cap s)) as [Hle|]; [|reflexivity].
  rewrite H4. destruct (Nat.ltb_spec (cap s) (wr s + length bs)) as [|_]; [lia|].
  unfold put, put_store. destruct (shmf s); reflexivity.
Qed.

(* ---------------------------------------------------------------------------------------- *)
(* slice lists                                                                               *)
(* ---------------------------------------------------------------------------------------- *)
Lemma upd_nth_app {A} (f : A -> A) (pre : list A) x post :
  upd_nth (length pre) f (pre ++ x :: post) = pre ++ f x :: post.
Proof. induction pre as [|y pre IH]; cbn [length app upd_nth]; [reflexivity|]. rewrite IH. reflexivity. Qed.

Lemma nth_error_app_mid {A} (pre : list A) x post : nth_error (pre ++ x :: post) (length pre) = Some x.
Proof. induction pre as [|y pre IH]; cbn; auto. Qed.

Definition bodies (m : shm) (ss : list slice) : list byte := concat (map (body m) ss).
Lemma bodies_app m a b : bodies m (a ++ b) = bodies m a ++ bodies m b.
Proof. unfold bodies. rewrite map_app, concat_app. reflexivity. Qed.
Lemma bodies_cons m s r : bodies m (s :: r) = body m s ++ bodies m r.
Proof. reflexivity. Qed.
Lemma content_bodies m l : content m l = bodies m (slices l).
Proof. reflexivity. Qed.

Lemma bodies_frame m m' ss : (forall x, In x (offs ss) -> slot_at m' x = slot_at m x) -> bodies m' ss = bodies m ss.
Proof.
  intros H. unfold bodies. f_equal. apply map_ext_in. intros s Hs. apply body_frame. intros E.
  apply H. apply in_offs. exists s. auto.
Qed.
Lemma wslices_frame m m' ss : (forall x, In x (offs ss) -> slot_at m' x = slot_at m x) ->
  Forall (wslice_ok m) ss -> Forall (wslice_ok m') ss.
Proof.
  intros H Hs. rewrite Forall_forall in *. intros s Hin. apply (wslice_ok_frame m m'); [|apply Hs; exact Hin].
  intros E. apply H. apply in_offs. exists s. auto.
Qed.

(* writing into the slice in the middle of a list whose shm slots are pairwise distinct *)
Lemma put_in_list m pre s post w :
  Forall (wslice_ok m) (pre ++ s :: post) -> NoDup (offs (pre ++ s :: post)) -> wr s + length w <= cap s ->
  let m' := put_store m s w in
  Forall (wslice_ok m') (pre ++ put s w :: post)
  /\ bodies m' (pre ++ put s w :: post) = bodies m pre ++ (body m s ++ w) ++ bodies m post
  /\ offs (pre ++ put s w :: post) = offs (pre ++ s :: post).
Proof.
  intros Hok Hnd Hw m'. apply Forall_app in Hok. destruct Hok as [Hpre Hrest]. inversion Hrest as [|? ? Hs Hpost]; subst.
  destruct (put_fields s w) as [F1 [F2 _]].
  assert (Hoffs : offs (pre ++ put s w :: post) = offs (pre ++ s :: post)).
  { rewrite !offs_app. f_equal. unfold offs. cbn [flat_map]. rewrite F1, F2. reflexivity. }
  assert (Hother : forall x, In x (offs pre) \/ In x (offs post) -> slot_at m' x = slot_at m x).
  { intros x Hx. apply put_store_other. destruct (shmf s) eqn:E; [left|right; reflexivity].
    intros ->. rewrite offs_app, (offs_cons_shm s post E) in Hnd. apply NoDup_remove_2 in Hnd.
    apply Hnd. apply in_or_app. exact Hx. }
  split; [|split; [|exact Hoffs]].
  - apply Forall_app. split; [apply (wslices_frame m m'); auto|].
    constructor; [apply put_ok; assumption|apply (wslices_frame m m'); auto].
  - rewrite bodies_app, bodies_cons. rewrite (bodies_frame m m' pre) by auto. rewrite (bodies_frame m m' post) by auto.
    unfold m'. rewrite body_put by assumption. reflexivity.
Qed.

(* ---------------------------------------------------------------------------------------- *)
(* the send buffer invariant and what a writer operation may do to the store                 *)
(* ---------------------------------------------------------------------------------------- *)
Definition dummy : slice := heap_slice 0.

Record WB (m : shm) (l : lbuf) : Prop := {
  wb_ok : Forall (wslice_ok m) (slices l);
  wb_nd : NoDup (offs (slices l));
  wb_len : len l = Z.of_nat (length (content m l));
  wb_pos : match wpos l with WNil => slices l = [] | WAt i => S i = length (slices l) | WGone => False end;
  wb_last : slices l <> [] -> (0 < len l)%Z -> 0 < ssize (last (slices l) dummy);
  wb_shm : fromshm l = true -> Forall (fun s => shmf s = true) (slices l);
  (* nothing written yet: at most the adopted (reset, shm) slice *)
  wb_zero : len l = 0%Z -> length (slices l) <= 1 /\ Forall (fun s => shmf s = true) (slices l) }.

Record wstep (m : shm) (l : lbuf) (m' : shm) (l' : lbuf) : Prop := {
  ws_cnt : forall x, cnt (frees m') x + cnt (offs (slices l')) x = cnt (frees m) x + cnt (offs (slices l)) x;
  ws_mono : forall x, cnt (frees m') x <= cnt (frees m) x;
  ws_frame : forall x, ~ In x (offs (slices l')) -> slot_at m' x = slot_at m x;
  ws_ok : store_ok m';
  ws_cls : cls m' = cls m;
  ws_pin : pinned l' = pinned l; ws_curp : curp l' = curp l; ws_rec : recycled l' = recycled l;
  ws_leases : leases l' = leases l }.

Definition wpre (m : shm) (l : lbuf) : Prop :=
  store_ok m /\ WB m l /\ forall x, cnt (frees m) x + cnt (offs (slices l)) x <= 1.

Lemma wstep_refl m l : store_ok m -> wstep m l m l.
Proof. intros H. constructor; auto. Qed.

Lemma wstep_trans m l m1 l1 m2 l2 : wstep m l m1 l1 -> wstep m1 l1 m2 l2 -> wstep m l m2 l2.
Proof.
  intros [A1 A2 A3 A4 A5 A6 A7 A8 A9] [B1 B2 B3 B4 B5 B6 B7 B8 B9].
  constructor; [ | | |exact B4|congruence|congruence|congruence|congruence|congruence].
  - intros x. specialize (A1 x). specialize (B1 x). lia.
  - intros x. specialize (A2 x). specialize (B2 x). lia.
  - intros x Hx. rewrite B3 by exact Hx. apply A3. intros Hin. apply Hx.
    apply cnt_In. apply cnt_In in Hin. specialize (B1 x). specialize (B2 x). lia.
Qed.

Lemma nodup_frees m l : (forall x, cnt (frees m) x + cnt (offs (slices l)) x <= 1) -> NoDup (frees m).
Proof. intros H. apply NoDup_cnt. intros x. specialize (H x). lia. Qed.

Lemma not_free_of_owned m l x : (forall x, cnt (frees m) x + cnt (offs (slices l)) x <= 1) -> In x (offs (slices l)) -> ~ In x (frees m).
Proof. intros H Hin. apply cnt_notin. apply cnt_In in Hin. specialize (H x). lia. Qed.

(* --- B2: writing into the slice at position |pre| ------------------------------------------ *)
Lemma put_step m l pre s post w :
  store_ok m -> (forall x, cnt (frees m) x + cnt (offs (slices l)) x <= 1) ->
  slices l = pre ++ s :: post -> Forall (wslice_ok m) (slices l) -> NoDup (offs (slices l)) ->
  wr s + length w <= cap s ->
  let m' := put_store m s w in let l' := set_slices l (pre ++ put s w :: post) in
  wstep m l m' l' /\ Forall (wslice_ok m') (slices l') /\ NoDup (offs (slices l'))
  /\ bodies m' (slices l') = bodies m pre ++ (body m s ++ w) ++ bodies m post
  /\ free m' = free m.
Proof.
  intros Hok Hown Hsl Hws Hnd Hw m' l'. rewrite Hsl in Hws, Hnd.
  destruct (put_in_list m pre s post w Hws Hnd Hw) as [G1 [G2 G3]]. fold m' in G1, G2.
  assert (Hfree : free m' = free m) by (unfold m', put_store; destruct (shmf s); reflexivity).
  assert (Hfrees : frees m' = frees m) by (unfold frees; rewrite Hfree; reflexivity).
  split; [|split; [exact G1|split; [cbn [slices l' set_slices]; rewrite G3; exact Hnd|split; [exact G2|exact Hfree]]]].
  constructor; try reflexivity.
  - intros x. cbn [slices l' set_slices]. rewrite G3, Hfrees, Hsl. reflexivity.
  - intros x. rewrite Hfrees. lia.
  - intros x Hx. cbn [slices l' set_slices] in Hx. rewrite G3 in Hx. apply put_store_other.
    destruct (shmf s) eqn:E; [left|right; reflexivity]. intros ->. apply Hx. rewrite offs_app, (offs_cons_shm s post E).
    apply in_or_app. right. left. reflexivity.
  - unfold m', put_store. destruct (shmf s) eqn:E; [|exact Hok]. apply store_ok_upd; [exact Hok| |].
    + intros t. split; [reflexivity|]. cbn [slot_write st_data]. apply length_overwrite.
    + apply (not_free_of_owned m l _ Hown). rewrite Hsl, offs_app, (offs_cons_shm s post E). apply in_or_app. right. left. reflexivity.
  - unfold m', put_store. destruct (shmf s); reflexivity.
Qed.

(* --- B1: alloc(size) ------------------------------------------------------------------------- *)
Lemma fresh_wslice_ok m0 m s : store_ok m0 -> fresh_from m0 m s -> wslice_ok m s /\ body m s = [] /\ wr s = rd s /\ 0 < room s.
Proof.
  intros Hok [F1 [F2 [F3 [F4 [F5 [t0 [F6 [F7 F8]]]]]]]]. destruct (so_static m0 Hok _ _ F6) as [Hlen _].
  split; [|split; [|split]].
  - unfold wslice_ok. rewrite (sdata_slot m s F1), F8. cbn [hdr_clearflag st_data]. repeat split; try lia.
    intros _. exists (hdr_clearflag t0). split; [first [exact F8|reflexivity]|split; [exact F7|reflexivity]].
  - unfold body, ssize. rewrite F2, F3. reflexivity.
  - lia.
  - unfold room. lia.
Qed.

Lemma heap_wslice_ok m c : 0 < c -> wslice_ok m (heap_slice c) /\ body m (heap_slice c) = [] /\ wr (heap_slice c) = rd (heap_slice c) /\ 0 < room (heap_slice c).
Proof.
  intros Hc. unfold wslice_ok, body, ssize, room, sdata, heap_slice. cbn. rewrite repeat_length. repeat split; try lia; try discriminate.
Qed.

Lemma offs_heap_slice c : offs [heap_slice c] = [].
Proof. reflexivity. Qed.

Lemma offs_all_shm ss : Forall (fun s => shmf s = true) ss -> offs ss = map off ss.
Proof. induction 1 as [|s r Hs Hr IH]; [reflexivity|]. rewrite (offs_cons_shm s r Hs), IH. reflexivity. Qed.

Lemma bodies_empty m ss : Forall (fun s => body m s = []) ss -> bodies m ss = [].
Proof. induction 1 as [|s r Hs Hr IH]; [reflexivity|]. rewrite bodies_cons, Hs, IH. reflexivity. Qed.

Record alloc_facts (m : shm) (l : lbuf) (m' : shm) (l' : lbuf) (new : list slice) : Prop := {
  af_slices : slices l' = slices l ++ new;
  af_step : wstep m l m' l';
  af_ok : Forall (wslice_ok m') (slices l');
  af_nd : NoDup (offs (slices l'));
  af_bodies : bodies m' (slices l') = bodies m (slices l);
  af_empty : Forall (fun s => wr s = rd s /\ 0 < room s) new;
  af_own : forall x, cnt (frees m') x + cnt (offs (slices l')) x <= 1;
  af_fromshm : (fromshm l' = fromshm l /\ Forall (fun s => shmf s = true) new) \/ fromshm l' = false;
  af_wpos : wpos l' = wpos l; af_len : len l' = len l }.

Lemma alloc_facts_of m l size m' l' ss hp :
  store_ok m -> (forall x, cnt (frees m) x + cnt (offs (slices l)) x <= 1) ->
  Forall (wslice_ok m) (slices l) -> NoDup (offs (slices l)) ->
  allocated m l size m' l' ss hp -> alloc_facts m l m' l' (ss ++ hp) /\ tight size (ss ++ hp).
Proof.
  intros Hok Hown Hws Hnd A.
  destruct A as [A1 A2 A3 A4 A5 A6 A7 A8 A9 A10]. split; [|exact A4].
  destruct A2 as [P1 P2 P3 P4 P5 P6].
  assert (Hhp : offs hp = [] /\ Forall (fun s => wslice_ok m' s /\ body m' s = [] /\ wr s = rd s /\ 0 < room s) hp).
  { destruct A3 as [[-> _]|[c [-> [Hc _]]]]; [split; [reflexivity|constructor]|].
    split; [reflexivity|]. constructor; [|constructor]. apply heap_wslice_ok. exact Hc. }
  destruct Hhp as [Hhp1 Hhp2].
  assert (Hss : Forall (fun s => wslice_ok m' s /\ body m' s = [] /\ wr s = rd s /\ 0 < room s) ss).
  { eapply Forall_impl; [|exact P2]. intros s Hs. apply (fresh_wslice_ok m m' s Hok Hs). }
  assert (Hoffs : offs (slices l') = offs (slices l) ++ offs ss).
  { rewrite A1, !offs_app, Hhp1, app_nil_r. reflexivity. }
  assert (Hdisj : forall x, In x (offs (slices l)) -> ~ In x (offs ss)).
  { intros x Hx Hin. apply cnt_In in Hx. apply cnt_In in Hin. specialize (P1 x). specialize (Hown x). lia. }
  assert (Hold : forall x, In x (offs (slices l)) -> slot_at m' x = slot_at m x).
  { intros x Hx. apply P3. apply Hdisj. exact Hx. }
  assert (Hcnt : forall x, cnt (frees m') x + cnt (offs (slices l')) x = cnt (frees m) x + cnt (offs (slices l)) x).
  { intros x. rewrite Hoffs, cnt_app. specialize (P1 x). lia. }
  assert (Hnew : Forall (fun s => wslice_ok m' s /\ body m' s = [] /\ wr s = rd s /\ 0 < room s) (ss ++ hp))
    by (apply Forall_app; split; assumption).
  constructor.
  - rewrite A1. reflexivity.
  - constructor; auto.
    + intros x. specialize (P1 x). lia.
    + intros x Hx. apply P3. intros Hin. apply Hx. rewrite Hoffs. apply in_or_app. right. exact Hin.
  - rewrite A1. apply Forall_app. split; [apply (wslices_frame m m'); assumption|].
    eapply Forall_impl; [|exact Hnew]. intros s Hs. apply Hs.
  - rewrite Hoffs. apply NoDup_cnt. intros x. rewrite cnt_app. apply NoDup_cnt with (x := x) in Hnd.
    specialize (P1 x). specialize (Hown x). apply NoDup_cnt with (x := x) in P6.
    assert (cnt (frees m) x <= 1) by lia. lia.
  - rewrite A1, bodies_app. rewrite (bodies_frame m m' (slices l) Hold).
    assert (Hb : bodies m' (ss ++ hp) = []).
    { apply bodies_empty. eapply Forall_impl; [|exact Hnew]. intros s Hs. apply Hs. }
    rewrite Hb, app_nil_r. reflexivity.
  - eapply Forall_impl; [|exact Hnew]. intros s Hs. split; apply Hs.
  - intros x. rewrite Hcnt. apply Hown.
  - destruct A3 as [[-> Hf]|[c [_ [_ Hf]]]]; [left|right; exact Hf]. split; [exact Hf|]. rewrite app_nil_r.
    eapply Forall_impl; [|exact P2]. intros s Hs. apply Hs.
  - exact A5.
  - exact A6.
Qed.

Lemma alloc_step m l size m' l' :
  store_ok m -> (forall x, cnt (frees m) x + cnt (offs (slices l)) x <= 1) ->
  Forall (wslice_ok m) (slices l) -> NoDup (offs (slices l)) -> 0 < size ->
  lb_alloc m l size = (m', l') -> exists new, alloc_facts m l m' l' new /\ tight size new.
Proof.
  intros Hok Hown Hws Hnd Hpos H.
  destruct (lb_alloc_spec m l size m' l' Hok (nodup_frees m l Hown) Hpos H) as [ss [hp A]].
  exists (ss ++ hp). eapply alloc_facts_of; eassumption.
Qed.


(* ---------------------------------------------------------------------------------------- *)
(* WriteBytes: filling a tight run of slices                                                 *)
(* ---------------------------------------------------------------------------------------- *)
Definition samebut (l l' : lbuf) : Prop :=
  len l' = len l /\ pinned l' = pinned l /\ curp l' = curp l /\ fromshm l' = fromshm l /\
  recycled l' = recycled l /\ leases l' = leases l.
Lemma samebut_refl l : samebut l l. Proof. repeat split. Qed.
Lemma samebut_trans a b c : samebut a b -> samebut b c -> samebut a c.
Proof. unfold samebut. intuition congruence. Qed.

Lemma body_nil m s : wr s = rd s -> body m s = [].
Proof. intros H. unfold body, ssize. rewrite H, Nat.sub_diag. reflexivity. Qed.
Lemma bodies_nil m ss : Forall (fun s => wr s = rd s) ss -> bodies m ss = [].
Proof. intros H. apply bodies_empty. eapply Forall_impl; [|exact H]. intros s Hs. apply body_nil, Hs. Qed.

Lemma length_le_sumroom ss : Forall (fun s => 0 < room s) ss -> length ss <= sumroom ss.
Proof. induction 1 as [|s r Hs Hr IH]; [cbn; lia|]. unfold sumroom in *. cbn [map lsum length]. lia. Qed.

Record filled (m : shm) (l : lbuf) (pre ss : list slice) (bs : list byte) (m' : shm) (l' : lbuf) (ss' : list slice) : Prop := {
  fi_slices : slices l' = pre ++ ss';
  fi_wpos : wpos l' = WAt (length pre + length ss - 1);
  fi_len : length ss' = length ss;
  fi_same : samebut l l';
  fi_step : wstep m l m' l';
  fi_ok : Forall (wslice_ok m') (slices l');
  fi_nd : NoDup (offs (slices l'));
  fi_bodies : bodies m' (slices l') = bodies m pre ++ body m (hd dummy ss) ++ bs;
  fi_last : 0 < ssize (last ss' dummy);
  fi_own : forall x, cnt (frees m') x + cnt (offs (slices l')) x <= 1;
  fi_shm : map shmf (pre ++ ss') = map shmf (pre ++ ss) }.

Lemma ssize_put s w : rd s <= wr s -> ssize (put s w) = ssize s + length w.
Proof. intros H. destruct (put_fields s w) as [_ [_ [_ [_ [F5 F6]]]]]. unfold ssize. rewrite F5, F6. lia. Qed.

Lemma fill_spec : forall ss pre bs m l fuel n0,
  store_ok m -> (forall x, cnt (frees m) x + cnt (offs (slices l)) x <= 1) ->
  slices l = pre ++ ss -> wpos l = WAt (length pre) ->
  Forall (wslice_ok m) (slices l) -> NoDup (offs (slices l)) ->
  Forall (fun s => wr s = rd s) (tl ss) -> tight (length bs) ss -> length ss <= fuel ->
  exists m' l' ss', wb_loop fuel bs n0 m l = Ok (n0 + length bs, m', l') /\ filled m l pre ss bs m' l' ss'.
Proof.
  induction ss as [|s rest IH]; intros pre bs m l fuel n0 Hok Hown Hsl Hwp Hws Hnd Hemp Ht Hfuel.
  { destruct Ht as [Hne _]. congruence. }
  destruct fuel as [|fuel]; [cbn in Hfuel; lia|]. cbn [wb_loop].
  assert (Hnth : nth_error (slices l) (length pre) = Some s) by (rewrite Hsl; apply nth_error_app_mid).
  unfold wslice. rewrite Hwp, Hnth. cbn [bind].
  assert (Hs : wslice_ok m s).
  { rewrite Hsl in Hws. apply Forall_app in Hws. destruct Hws as [_ Hws]. inversion Hws; assumption. }
  assert (Hbpos : 0 < length bs).
  { destruct Ht as [_ Ht]. lia. }
  assert (Hbne : bs <> []) by (intros ->; cbn in Hbpos; lia).
  rewrite (sl_append_spec m l (length pre) s bs Hs Hbne). cbn [bind].
  set (k := Nat.min (length bs) (room s)). set (w := firstn k bs).
  assert (Hwlen : length w = k) by (unfold w; rewrite firstn_length; lia).
  assert (Hkroom : wr s + length w <= cap s).
  { rewrite Hwlen. unfold k, room. destruct Hs as [_ [_ [? _]]]. lia. }
  assert (Hsa : set_slice_at l (length pre) (put s w) = set_slices l (pre ++ put s w :: rest)).
  { unfold set_slice_at. rewrite Hsl, upd_nth_app. reflexivity. }
  rewrite Hsa.
  destruct (put_step m l pre s rest w Hok Hown Hsl Hws Hnd Hkroom) as [P1 [P2 [P3 [P4 P5]]]].
  set (m1 := put_store m s w) in *. set (l1 := set_slices l (pre ++ put s w :: rest)) in *.
  assert (Hown1 : forall x, cnt (frees m1) x + cnt (offs (slices l1)) x <= 1).
  { intros x. rewrite (ws_cnt _ _ _ _ P1 x). apply Hown. }
  destruct (put_fields s w) as [F1 [F2 [F3 [F4 [F5 F6]]]]].
  destruct rest as [|s' r].
  - (* last slice of the run: everything fits *)
    apply tight_single in Ht. assert (Hk : k = length bs) by (unfold k; lia).
    assert (Hw : w = bs) by (unfold w; rewrite Hk; apply firstn_all).
    rewrite Hk, skipn_all. exists m1, l1, [put s w]. split; [reflexivity|].
    constructor; auto.
    + change (wpos l1) with (wpos l). rewrite Hwp. cbn [length]. f_equal. lia.
    + repeat split.
    + rewrite P4. cbn [hd bodies map concat]. rewrite Hw. unfold bodies. cbn [map concat]. rewrite app_nil_r. reflexivity.
    + cbn [last]. rewrite ssize_put by (destruct Hs as [_ [? _]]; lia). rewrite Hw. lia.
    + rewrite !map_app. cbn [map]. rewrite F1. reflexivity.
  - (* the slice is used up; the next one exists *)
    destruct (tight_cons _ _ _ _ (or_intror I) Ht) as [Hroom Ht'].
    assert (Hk : k = room s) by (unfold k; lia).
    assert (Hrest : length (skipn k bs) = length bs - room s) by (rewrite skipn_length; lia).
    destruct (skipn k bs) as [|b0 rb] eqn:Esk; [cbn in Hrest; lia|]. rewrite <- Esk in *.
    assert (Hn1 : nth_error (slices l1) (S (length pre)) = Some s').
    { cbn [slices l1 set_slices]. replace (pre ++ put s w :: s' :: r) with ((pre ++ [put s w]) ++ s' :: r) by (rewrite <- app_assoc; reflexivity).
      replace (S (length pre)) with (length (pre ++ [put s w])) by (rewrite app_length; cbn; lia). apply nth_error_app_mid. }
    rewrite Hn1. rewrite Hn1.
    set (l2 := set_wpos l1 (WAt (S (length pre)))).
    assert (Hsl2 : slices l2 = (pre ++ [put s w]) ++ s' :: r) by (cbn [slices l2 set_wpos l1 set_slices]; rewrite <- app_assoc; reflexivity).
    assert (Hlen2 : length (pre ++ [put s w]) = S (length pre)) by (rewrite app_length; cbn; lia).
    inversion Hemp as [|? ? He' Hr']; subst.
    destruct (IH (pre ++ [put s w]) (skipn k bs) m1 l2 fuel (n0 + k)) as [m' [l' [ss' [Hrun F]]]];
      [exact (ws_ok _ _ _ _ P1)|exact Hown1|exact Hsl2|rewrite Hlen2; reflexivity|exact P2|exact P3|exact Hr'
      |rewrite Hrest; exact Ht'|cbn [length] in Hfuel |- *; lia|].
    exists m', l', (put s w :: ss'). split.
    + rewrite Hrun. f_equal. f_equal. f_equal. rewrite Hrest. unfold k. lia.
    + destruct F as [G1 G2 G3 G4 G5 G6 G7 G8 G9 G10 G11].
        assert (Hpre1 : bodies m1 (pre ++ [put s w]) = bodies m pre ++ body m s ++ w).
        { assert (E : bodies m1 (slices l1) = bodies m1 (pre ++ [put s w]) ++ bodies m1 (s' :: r)).
          { cbn [slices l1 set_slices]. replace (pre ++ put s w :: s' :: r) with ((pre ++ [put s w]) ++ s' :: r) by (rewrite <- app_assoc; reflexivity).
            apply bodies_app. }
          rewrite P4 in E. rewrite (bodies_nil m (s' :: r)) in E by (constructor; assumption).
          rewrite (bodies_nil m1 (s' :: r)) in E by (constructor; assumption).
          rewrite !app_nil_r in E. rewrite <- E. reflexivity. }
        constructor.
      * rewrite G1, <- app_assoc. reflexivity.
      * rewrite G2, Hlen2. cbn [length]. f_equal. lia.
      * cbn [length]. rewrite G3. reflexivity.
      * eapply samebut_trans; [|exact G4]. repeat split.
      * eapply wstep_trans; [exact P1|]. destruct G5 as [C1 C2 C3 C4 C5 C6 C7 C8 C9]. constructor; auto.
      * exact G6.
      * exact G7.
      * rewrite G8, Hpre1. cbn [hd]. rewrite (body_nil m1 s' He'). cbn [app]. rewrite <- !app_assoc.
           f_equal. f_equal. unfold w. apply firstn_skipn.
      * destruct ss' as [|a ss'']; [cbn in G3; lia|]. exact G9.
      * exact G10.
      * rewrite <- !app_assoc in G11. cbn [app] in G11. rewrite G11.
        rewrite !map_app. cbn [map]. rewrite F1. reflexivity.
Qed.

(* ---------------------------------------------------------------------------------------- *)
(* WriteBytes                                                                                *)
(* ---------------------------------------------------------------------------------------- *)
Lemma last_app_ne {A} (a b : list A) d : b <> [] -> last (a ++ b) d = last b d.
Proof.
  intros Hb. induction a as [|x a IH]; [reflexivity|]. cbn [app]. destruct (a ++ b) as [|y t] eqn:E.
  - destruct a; [cbn in E; congruence|discriminate].
  - change (last (x :: y :: t) d) with (last (y :: t) d). exact IH.
Qed.

Lemma Forall_map_shmf a b : map shmf a = map shmf b -> Forall (fun s => shmf s = true) b -> Forall (fun s => shmf s = true) a.
Proof.
  revert b. induction a as [|x a IH]; intros b H Hb; [constructor|]. destruct b as [|y b]; [discriminate|].
  cbn [map] in H. injection H as H1 H2. inversion Hb; subst. constructor; [congruence|eapply IH; eassumption].
Qed.

(* from a finished fill to the buffer invariant *)
Lemma WB_of_filled m0 l0 pre ss bs m' l' ss' total n :
  filled m0 l0 pre ss bs m' l' ss' -> ss <> [] -> 0 < n ->
  bodies m' (slices l') = total -> (len l' + Z.of_nat n)%Z = Z.of_nat (length total) -> n <= length total ->
  (fromshm l' = true -> Forall (fun s => shmf s = true) (pre ++ ss)) ->
  WB m' (set_len l' (len l' + Z.of_nat n)%Z).
Proof.
  intros [G1 G2 G3 G4 G5 G6 G7 G8 G9 G10 G11] Hne Hn Hb Hlen Hnt Hshm.
  assert (Hne' : ss' <> []) by (intros ->; destruct ss; [congruence|cbn in G3; lia]).
  constructor; cbn [slices set_len wpos len fromshm].
  - exact G6.
  - exact G7.
  - change (content m' (set_len l' (len l' + Z.of_nat n)%Z)) with (bodies m' (slices l')). rewrite Hb. exact Hlen.
  - rewrite G2, G1, app_length, G3. destruct ss; [congruence|]. cbn [length]. lia.
  - intros _ _. rewrite G1, last_app_ne by exact Hne'. exact G9.
  - intros Hf. rewrite G1. eapply Forall_map_shmf; [exact G11|]. apply Hshm. exact Hf.
  - intros Hz. lia.
Qed.

Record wrote (m : shm) (l : lbuf) (bs : list byte) (m' : shm) (l' : lbuf) : Prop := {
  wr_step : wstep m l m' l';
  wr_wb : WB m' l';
  wr_content : content m' l' = content m l ++ bs;
  wr_own : forall x, cnt (frees m') x + cnt (offs (slices l')) x <= 1 }.

Lemma wstep_set_len m l m' l' z : wstep m l m' l' -> wstep m l m' (set_len l' z).
Proof. intros [A1 A2 A3 A4 A5 A6 A7 A8 A9]. constructor; auto. Qed.
Lemma wstep_set_wpos_l m l m' l' w : wstep m (set_wpos l w) m' l' -> wstep m l m' l'.
Proof. intros [A1 A2 A3 A4 A5 A6 A7 A8 A9]. constructor; auto. Qed.
Lemma wstep_set_wpos_r m l m' l' w : wstep m l m' l' -> wstep m l m' (set_wpos l' w).
Proof. intros [A1 A2 A3 A4 A5 A6 A7 A8 A9]. constructor; auto. Qed.

Lemma tight_length n ss : Forall (fun s => 0 < room s) ss -> tight n ss -> length ss <= n.
Proof.
  intros Hr [Hne [H1 H2]]. pose proof (length_le_sumroom (removelast ss) (Forall_removelast _ _ Hr)) as H.
  assert (length ss = S (length (removelast ss))).
  { destruct (exists_last Hne) as [a [x ->]]. rewrite removelast_last, app_length. cbn. lia. }
  lia.
Qed.

Theorem write_bytes_ok m l bs : wpre m l -> bs <> [] ->
  exists m' l', write_bytes bs m l = Ok (length bs, m', l') /\ wrote m l bs m' l'.
Proof.
  intros [Hok [Hwb Hown]] Hne. pose proof Hwb as [W1 W2 W3 W4 W5 W6 W7].
  unfold write_bytes. destruct bs as [|b0 bs0] eqn:Ebs; [congruence|]. rewrite <- Ebs in *. clear Ebs b0 bs0.
  assert (Hbpos : 0 < length bs) by (destruct bs; [congruence|cbn; lia]).
  unfold ensure_wslice. destruct (wpos l) as [|i|] eqn:Ewp; [| |contradiction].
  - (* no write slice: alloc(len(data)), write slice := front *)
    destruct (lb_alloc m l (length bs)) as [m1 l1] eqn:Eal.
    destruct (alloc_step m l (length bs) m1 l1 Hok Hown W1 W2 Hbpos Eal) as [new [A Ht]].
    destruct A as [A1 A2 A3 A4 A5 A6 A7 A8 A9 A10]. rewrite W4 in A1. cbn [app] in A1.
    assert (Hnew : new <> []) by (destruct Ht; assumption).
    assert (Hfp : front_ptr l1 = WAt 0) by (unfold front_ptr; rewrite A1; destruct new; [congruence|reflexivity]).
    rewrite Hfp. set (l0 := set_wpos l1 (WAt 0)).
    assert (Hemp : Forall (fun s => wr s = rd s) (tl new)).
    { destruct new as [|a r]; [constructor|]. cbn [tl]. inversion A6 as [|? ? _ Hr]; subst.
      eapply Forall_impl; [|exact Hr]. intros s Hs. apply Hs. }
    destruct (fill_spec new [] bs m1 l0 (S (length bs + length (slices l0))) 0) as [m' [l' [ss' [Hrun F]]]];
      [exact (ws_ok _ _ _ _ A2)|exact A7|exact A1|reflexivity|exact A3|exact A4
      |exact Hemp
      |exact Ht|cbn [slices l0 set_wpos]; rewrite A1; lia|].
    rewrite Hrun. cbn [bind plus]. eexists. eexists. split; [reflexivity|].
    assert (Hcontent0 : content m l = []) by (unfold content; rewrite W4; reflexivity).
    assert (Hhd : body m1 (hd dummy new) = []).
    { destruct new as [|a r]; [congruence|]. inversion A6 as [|? ? Ha _]; subst. apply body_nil, Ha. }
    assert (Hb : bodies m' (slices l') = bs).
    { rewrite (fi_bodies _ _ _ _ _ _ _ _ F), Hhd. reflexivity. }
    constructor.
    + apply wstep_set_len. eapply wstep_trans; [exact A2|]. apply (wstep_set_wpos_l m1 l1 m' l' (WAt 0)). exact (fi_step _ _ _ _ _ _ _ _ F).
    + eapply WB_of_filled; [exact F|exact Hnew|exact Hbpos|exact Hb| |rewrite ?app_length; lia|].
      * destruct (fi_same _ _ _ _ _ _ _ _ F) as [S1 _]. rewrite S1. cbn [len l0 set_wpos]. rewrite A10, W3, Hcontent0. cbn [length]. lia.
      * intros Hf. destruct (fi_same _ _ _ _ _ _ _ _ F) as [_ [_ [_ [S4 _]]]]. rewrite S4 in Hf. cbn [fromshm l0 set_wpos] in Hf.
        destruct A8 as [[_ Hall]|Hfalse]; [exact Hall|congruence].
    + change (content m' (set_len l' (len l' + Z.of_nat (length bs))%Z)) with (bodies m' (slices l')). rewrite Hb, Hcontent0. reflexivity.
    + exact (fi_own _ _ _ _ _ _ _ _ F).
  - (* a write slice exists: it is the last slice *)
    destruct (exists_last (l := slices l)) as [pre [cur Hsl]]; [intros E; rewrite E in W4; cbn in W4; lia|].
    assert (Hi : i = length pre) by (rewrite Hsl, app_length in W4; cbn in W4; lia). subst i.
    assert (Hcur : wslice_ok m cur) by (rewrite Hsl in W1; apply Forall_app in W1; destruct W1 as [_ W1]; inversion W1; assumption).
    assert (Hcontent0 : content m l = bodies m pre ++ body m cur).
    { unfold content. rewrite Hsl. fold (bodies m (pre ++ [cur])). rewrite bodies_app, bodies_cons. unfold bodies at 3. cbn. rewrite app_nil_r. reflexivity. }
    destruct (Nat.le_gt_cases (length bs) (room cur)) as [Hfit|Hbig].
    + (* fits into the write slice *)
      destruct (fill_spec [cur] pre bs m l (S (length bs + length (slices l))) 0) as [m' [l' [ss' [Hrun F]]]];
        [exact Hok|exact Hown|exact Hsl|exact Ewp|exact W1|exact W2|constructor
        |split; [discriminate|cbn [removelast]; unfold sumroom; cbn [map lsum]; lia]|cbn; lia|].
      rewrite Hrun. cbn [bind plus]. eexists. eexists. split; [reflexivity|].
      assert (Hb : bodies m' (slices l') = content m l ++ bs).
      { rewrite (fi_bodies _ _ _ _ _ _ _ _ F), Hcontent0. cbn [hd]. rewrite <- app_assoc. reflexivity. }
      constructor.
      * apply wstep_set_len. exact (fi_step _ _ _ _ _ _ _ _ F).
      * eapply WB_of_filled; [exact F|discriminate|exact Hbpos|exact Hb| |rewrite ?app_length; lia|].
        -- destruct (fi_same _ _ _ _ _ _ _ _ F) as [S1 _]. rewrite S1, W3, app_length. lia.
        -- intros Hf. destruct (fi_same _ _ _ _ _ _ _ _ F) as [_ [_ [_ [S4 _]]]]. rewrite S4 in Hf. rewrite <- Hsl. apply W6, Hf.
      * change (content m' (set_len l' (len l' + Z.of_nat (length bs))%Z)) with (bodies m' (slices l')). exact Hb.
      * exact (fi_own _ _ _ _ _ _ _ _ F).
    + (* the write slice is used up, alloc(rest), continue in the new slices *)
      cbn [wb_loop]. assert (Hnth : nth_error (slices l) (length pre) = Some cur) by (rewrite Hsl; apply nth_error_app_mid).
      unfold wslice. rewrite Ewp, Hnth. cbn [bind]. rewrite (sl_append_spec m l (length pre) cur bs Hcur Hne). cbn [bind].
      set (k := Nat.min (length bs) (room cur)). assert (Hk : k = room cur) by (unfold k; lia).
      set (w := firstn k bs). assert (Hwlen : length w = k) by (unfold w; rewrite firstn_length; lia).
      assert (Hkroom : wr cur + length w <= cap cur) by (rewrite Hwlen, Hk; unfold room; destruct Hcur as [_ [_ [? _]]]; lia).
      assert (Hsa : set_slice_at l (length pre) (put cur w) = set_slices l (pre ++ [put cur w])).
      { unfold set_slice_at. rewrite Hsl, upd_nth_app. reflexivity. }
      rewrite Hsa. destruct (put_step m l pre cur [] w Hok Hown Hsl W1 W2 Hkroom) as [P1 [P2 [P3 [P4 P5]]]].
      set (m1 := put_store m cur w) in *. set (l1 := set_slices l (pre ++ [put cur w])) in *.
      assert (Hown1 : forall x, cnt (frees m1) x + cnt (offs (slices l1)) x <= 1) by (intros x; rewrite (ws_cnt _ _ _ _ P1 x); apply Hown).
      assert (Hrest : length (skipn k bs) = length bs - room cur) by (rewrite skipn_length; lia).
      destruct (skipn k bs) as [|b0 rb] eqn:Esk; [cbn in Hrest; lia|]. rewrite <- Esk in *.
      assert (Hlen1 : length (slices l1) = S (length pre)) by (cbn [slices l1 set_slices]; rewrite app_length; cbn; lia).
      assert (Hn1 : nth_error (slices l1) (S (length pre)) = None) by (apply nth_error_None; lia).
      rewrite Hn1.
      destruct (lb_alloc m1 l1 (length (skipn k bs))) as [m2 l2] eqn:Eal.
      destruct (alloc_step m1 l1 (length (skipn k bs)) m2 l2 (ws_ok _ _ _ _ P1) Hown1 P2 P3 ltac:(lia) Eal) as [new [A Ht]].
      destruct A as [A1 A2 A3 A4 A5 A6 A7 A8 A9 A10].
      assert (Hnew : new <> []) by (destruct Ht; assumption).
      assert (Hsl2 : slices l2 = (pre ++ [put cur w]) ++ new) by (rewrite A1; reflexivity).
      assert (Hn2 : exists s0, nth_error (slices l2) (S (length pre)) = Some s0).
      { destruct new as [|s0 r]; [congruence|]. exists s0. rewrite Hsl2.
        replace (S (length pre)) with (length (pre ++ [put cur w])) by (rewrite app_length; cbn; lia). apply nth_error_app_mid. }
      destruct Hn2 as [s0 Hn2]. rewrite Hn2.
      set (l3 := set_wpos l2 (WAt (S (length pre)))).
      assert (Hemp : Forall (fun s => wr s = rd s) (tl new)).
      { destruct new as [|a r]; [constructor|]. cbn [tl]. inversion A6 as [|? ? _ Hr]; subst.
        eapply Forall_impl; [|exact Hr]. intros s Hs. apply Hs. }
      destruct (fill_spec new (pre ++ [put cur w]) (skipn k bs) m2 l3 (length bs + length (slices l)) (0 + k)) as [m' [l' [ss' [Hrun F]]]];
        [exact (ws_ok _ _ _ _ A2)|exact A7|exact Hsl2|cbn [wpos l3 set_wpos]; rewrite app_length; cbn; f_equal; lia|exact A3|exact A4
        |exact Hemp
        |exact Ht| |].
      { pose proof (tight_length _ _ (Forall_impl _ (fun s Hs => proj2 Hs) A6) Ht). lia. }
      rewrite Hrun. cbn [bind]. replace (0 + k + length (skipn k bs)) with (length bs) by lia.
      eexists. eexists. split; [reflexivity|].
      assert (Hhd : body m2 (hd dummy new) = []).
      { destruct new as [|a r]; [congruence|]. inversion A6 as [|? ? Ha _]; subst. apply body_nil, Ha. }
      assert (Hpre2 : bodies m2 (pre ++ [put cur w]) = bodies m pre ++ body m cur ++ w).
      { assert (E : bodies m2 (slices l2) = bodies m2 (pre ++ [put cur w]) ++ bodies m2 new) by (rewrite Hsl2; apply bodies_app).
        rewrite A5, P4 in E. rewrite (bodies_nil m2 new) in E by (eapply Forall_impl; [|exact A6]; intros s Hs; apply Hs).
        change (bodies m []) with (@nil byte) in E. rewrite !app_nil_r in E. rewrite <- E. reflexivity. }
      assert (Hb : bodies m' (slices l') = content m l ++ bs).
      { rewrite (fi_bodies _ _ _ _ _ _ _ _ F), Hhd, Hpre2, Hcontent0. cbn [app]. rewrite <- !app_assoc. f_equal. f_equal.
        unfold w. apply firstn_skipn. }
      constructor.
      * apply wstep_set_len. eapply wstep_trans; [exact P1|]. eapply wstep_trans; [exact A2|].
        apply (wstep_set_wpos_l m2 l2 m' l' (WAt (S (length pre)))). exact (fi_step _ _ _ _ _ _ _ _ F).
      * eapply WB_of_filled; [exact F|exact Hnew|exact Hbpos|exact Hb| |rewrite ?app_length; lia|].
        -- destruct (fi_same _ _ _ _ _ _ _ _ F) as [S1 _]. rewrite S1. cbn [len l3 set_wpos]. rewrite A10. cbn [len l1 set_slices].
           rewrite W3, app_length. lia.
        -- intros Hf. destruct (fi_same _ _ _ _ _ _ _ _ F) as [_ [_ [_ [S4 _]]]]. rewrite S4 in Hf. cbn [fromshm l3 set_wpos] in Hf.
           destruct A8 as [[Hsame Hall]|Hfalse]; [|congruence]. rewrite Hsame in Hf. cbn [fromshm l1 set_slices] in Hf.
           apply Forall_app. split; [|exact Hall]. specialize (W6 Hf). rewrite Hsl in W6. apply Forall_app in W6. destruct W6 as [Wp Wc].
           apply Forall_app. split; [exact Wp|]. inversion Wc; subst. constructor; [|constructor].
           destruct (put_fields cur w) as [F1 _]. congruence.
      * change (content m' (set_len l' (len l' + Z.of_nat (length bs))%Z)) with (bodies m' (slices l')). exact Hb.
      * exact (fi_own _ _ _ _ _ _ _ _ F).
Qed.

(* ---------------------------------------------------------------------------------------- *)
(* a weaker invariant that also holds between the steps of one operation                     *)
(* ---------------------------------------------------------------------------------------- *)
Record WBw (m : shm) (l : lbuf) : Prop := {
  ww_ok : Forall (wslice_ok m) (slices l);
  ww_nd : NoDup (offs (slices l));
  ww_len : len l = Z.of_nat (length (content m l));
  ww_shm : fromshm l = true -> Forall (fun s => shmf s = true) (slices l);
  ww_own : forall x, cnt (frees m) x + cnt (offs (slices l)) x <= 1 }.

Lemma WBw_of_wpre m l : wpre m l -> WBw m l.
Proof. intros [_ [[W1 W2 W3 W4 W5 W6 W7] Hown]]. constructor; auto. Qed.

Lemma WBw_alloc m l m' l' new : WBw m l -> alloc_facts m l m' l' new -> WBw m' l'.
Proof.
  intros [W1 W2 W3 W4 W5] [A1 A2 A3 A4 A5 A6 A7 A8 A9 A10]. constructor; auto.
  - rewrite A10, W3. unfold content. fold (bodies m' (slices l')). fold (bodies m (slices l)). rewrite A5. reflexivity.
  - intros Hf. destruct A8 as [[Hsame Hall]|Hfalse]; [|congruence]. rewrite A1. apply Forall_app. split; [apply W4; congruence|exact Hall].
Qed.

Lemma WBw_set_wpos m l w : WBw m l -> WBw m (set_wpos l w).
Proof. intros [W1 W2 W3 W4 W5]. constructor; auto. Qed.

(* a state that differs from l in its slice list and its length only *)
Definition relist (l l' : lbuf) (ss : list slice) (z : Z) : Prop :=
  slices l' = ss /\ len l' = z /\ wpos l' = wpos l /\ pinned l' = pinned l /\ curp l' = curp l /\
  fromshm l' = fromshm l /\ recycled l' = recycled l /\ leases l' = leases l.

Lemma single_put m l pre s w m' l' :
  store_ok m -> WBw m l -> slices l = pre ++ [s] -> wpos l = WAt (length pre) -> w <> [] -> wr s + length w <= cap s ->
  m' = put_store m s w -> relist l l' (pre ++ [put s w]) (len l + Z.of_nat (length w))%Z ->
  wrote m l w m' l'.
Proof.
  intros Hok [W1 W2 W3 W4 W5] Hsl Hwp Hne Hfit -> [R1 [R2 [R3 [R4 [R5 [R6 [R7 R8]]]]]]].
  destruct (put_step m l pre s [] w Hok W5 Hsl W1 W2 Hfit) as [P1 [P2 [P3 [P4 P5]]]].
  cbn [slices set_slices] in P2, P3, P4.
  assert (Hs : wslice_ok m s) by (rewrite Hsl in W1; apply Forall_app in W1; destruct W1 as [_ W1]; inversion W1; assumption).
  assert (Hcontent0 : content m l = bodies m pre ++ body m s).
  { unfold content. rewrite Hsl. fold (bodies m (pre ++ [s])). rewrite bodies_app, bodies_cons. change (bodies m []) with (@nil byte). rewrite app_nil_r. reflexivity. }
  assert (Hc : content (put_store m s w) l' = content m l ++ w).
  { rewrite Hcontent0, content_bodies, R1, P4.
    change (bodies m []) with (@nil byte). rewrite app_nil_r, <- app_assoc. reflexivity. }
  destruct (put_fields s w) as [F1 [F2 _]].
  assert (Hoffs : offs (slices l') = offs (slices l)).
  { rewrite R1, Hsl, !offs_app. f_equal. unfold offs. cbn [flat_map]. rewrite F1, F2. reflexivity. }
  constructor.
  - destruct P1 as [C1 C2 C3 C4 C5 C6 C7 C8 C9]. cbn [slices set_slices] in C1, C3. constructor; auto.
    + intros x. rewrite R1. apply C1.
    + intros x Hx. apply C3. rewrite <- R1. exact Hx.
  - constructor.
    + rewrite R1. exact P2.
    + rewrite R1. exact P3.
    + rewrite R2, Hc, W3, app_length. lia.
    + rewrite R3, Hwp, R1, app_length. cbn. lia.
    + intros _ _. rewrite R1, last_app_ne by discriminate. cbn [last].
      rewrite ssize_put by (destruct Hs as [_ [? _]]; lia). destruct w; [congruence|cbn; lia].
    + intros Hf. rewrite R6 in Hf. specialize (W4 Hf). rewrite R1. rewrite Hsl in W4.
      apply Forall_app in W4. destruct W4 as [Wp Wc]. apply Forall_app. split; [exact Wp|].
      inversion Wc; subst. constructor; [congruence|constructor].
    + intros Hz. rewrite R2 in Hz. rewrite W3 in Hz. destruct w; [congruence|]. cbn [length] in Hz. lia.
  - exact Hc.
  - intros x. rewrite Hoffs. replace (frees (put_store m s w)) with (frees m) by (unfold frees; rewrite P5; reflexivity). apply W5.
Qed.

Lemma wrote_after_alloc m l m1 l1 new w m2 l2 :
  alloc_facts m l m1 l1 new -> wrote m1 l1 w m2 l2 -> wrote m l w m2 l2.
Proof.
  intros [A1 A2 A3 A4 A5 A6 A7 A8 A9 A10] [B1 B2 B3 B4]. constructor; auto.
  - eapply wstep_trans; eassumption.
  - rewrite B3. f_equal. unfold content. fold (bodies m1 (slices l1)). fold (bodies m (slices l)). exact A5.
Qed.

Lemma wrote_after_step m l m1 l1 w m2 l2 :
  wstep m l m1 l1 -> content m1 l1 = content m l -> wrote m1 l1 w m2 l2 -> wrote m l w m2 l2.
Proof.
  intros A Hc [B1 B2 B3 B4]. constructor; auto.
  - eapply wstep_trans; eassumption.
  - rewrite B3, Hc. reflexivity.
Qed.

Lemma tight1_single ss : Forall (fun s => 0 < room s) ss -> tight 1 ss -> exists s, ss = [s].
Proof.
  intros Hr Ht. pose proof (tight_length 1 ss Hr Ht) as Hl. destruct Ht as [Hne _].
  destruct ss as [|s [|s' r]]; [congruence|exists s; reflexivity|cbn in Hl; lia].
Qed.

(* ---------------------------------------------------------------------------------------- *)
(* WriteByte                                                                                 *)
(* ---------------------------------------------------------------------------------------- *)
Theorem write_byte_ok m l b : wpre m l ->
  exists m' l', write_byte b m l = Ok (m', l') /\ wrote m l [b] m' l'.
Proof.
  intros Hpre. pose proof (WBw_of_wpre m l Hpre) as Hw. destruct Hpre as [Hok [Hwb Hown]]. pose proof Hwb as [W1 W2 W3 W4 W5 W6 W7].
  unfold write_byte, ensure_wslice. destruct (wpos l) as [|i|] eqn:Ewp; [| |contradiction].
  - destruct (lb_alloc m l 1) as [m1 l1] eqn:Eal.
    destruct (alloc_step m l 1 m1 l1 Hok Hown W1 W2 ltac:(lia) Eal) as [new [A Ht]].
    pose proof (WBw_alloc m l m1 l1 new Hw A) as Hw1. pose proof A as [A1 A2 A3 A4 A5 A6 A7 A8 A9 A10].
    destruct (tight1_single new (Forall_impl _ (fun s Hs => proj2 Hs) A6) Ht) as [s0 ->].
    rewrite W4 in A1. cbn [app] in A1.
    assert (Hfp : front_ptr l1 = WAt 0) by (unfold front_ptr; rewrite A1; reflexivity). rewrite Hfp.
    set (l0 := set_wpos l1 (WAt 0)). unfold wslice. cbn [wpos l0 set_wpos slices]. rewrite A1. cbn [nth_error bind].
    assert (Hs0 : wslice_ok m1 s0) by (rewrite A1 in A3; inversion A3; assumption).
    rewrite (sl_append_spec m1 l0 0 s0 [b] Hs0 ltac:(discriminate)). cbn [bind length].
    inversion A6 as [|? ? [_ Hroom] _]; subst.
    replace (Nat.min 1 (room s0)) with 1 by lia. cbn [Nat.eqb firstn].
    eexists. eexists. split; [reflexivity|].
    eapply wrote_after_alloc; [exact A|].
    eapply (wrote_after_step m1 l1 m1 l0); [apply wstep_set_wpos_r, wstep_refl, (ws_ok _ _ _ _ A2)|reflexivity|].
    eapply (single_put m1 l0 [] s0 [b]); [exact (ws_ok _ _ _ _ A2)|apply WBw_set_wpos; exact Hw1|exact A1|reflexivity|discriminate
      |cbn [length]; unfold room in Hroom; lia|reflexivity|].
    unfold relist, set_slice_at. cbn [slices l0 set_wpos set_len set_slices len wpos pinned curp fromshm recycled leases].
    rewrite A1. cbn [upd_nth app length]. repeat split.
  - destruct (exists_last (l := slices l)) as [pre [cur Hsl]]; [intros E; rewrite E in W4; cbn in W4; lia|].
    assert (Hi : i = length pre) by (rewrite Hsl, app_length in W4; cbn in W4; lia). subst i.
    assert (Hcur : wslice_ok m cur) by (rewrite Hsl in W1; apply Forall_app in W1; destruct W1 as [_ W1]; inversion W1; assumption).
    assert (Hnth : nth_error (slices l) (length pre) = Some cur) by (rewrite Hsl; apply nth_error_app_mid).
    unfold wslice. rewrite Ewp, Hnth. cbn [bind].
    rewrite (sl_append_spec m l (length pre) cur [b] Hcur ltac:(discriminate)). cbn [bind length].
    assert (Hsa : forall x, set_slice_at l (length pre) x = set_slices l (pre ++ [x])).
    { intros x. unfold set_slice_at. rewrite Hsl, upd_nth_app. reflexivity. }
    destruct (Nat.eq_dec (room cur) 0) as [Hz|Hnz].
    + (* the write slice is full: alloc(1), write slice := next *)
      replace (Nat.min 1 (room cur)) with 0 by lia. cbn [Nat.eqb firstn]. rewrite Hsa.
      assert (Hfit0 : wr cur + length (@nil byte) <= cap cur) by (cbn; destruct Hcur as [_ [_ [? _]]]; lia).
      destruct (put_step m l pre cur [] [] Hok Hown Hsl W1 W2 Hfit0) as [P1 [P2 [P3 [P4 P5]]]].
      set (m1 := put_store m cur []) in *. set (l1 := set_slices l (pre ++ [put cur []])) in *.
      assert (Hown1 : forall x, cnt (frees m1) x + cnt (offs (slices l1)) x <= 1) by (intros x; rewrite (ws_cnt _ _ _ _ P1 x); apply Hown).
      assert (Hc1 : content m1 l1 = content m l).
      { unfold content. fold (bodies m1 (slices l1)). rewrite P4. rewrite Hsl. fold (bodies m (pre ++ [cur])).
        rewrite bodies_app, bodies_cons, app_nil_r. reflexivity. }
      assert (Hw1 : WBw m1 l1).
      { constructor; auto.
        - cbn [len l1 set_slices]. rewrite W3, Hc1. reflexivity.
        - intros Hf. cbn [fromshm l1 set_slices] in Hf. specialize (W6 Hf). rewrite Hsl in W6. cbn [slices l1 set_slices].
          apply Forall_app in W6. destruct W6 as [Wp Wc]. apply Forall_app. split; [exact Wp|]. inversion Wc; subst.
          constructor; [|constructor]. destruct (put_fields cur []) as [F1 _]. congruence. }
      destruct (lb_alloc m1 l1 1) as [m2 l2] eqn:Eal.
      destruct (alloc_step m1 l1 1 m2 l2 (ws_ok _ _ _ _ P1) Hown1 P2 P3 ltac:(lia) Eal) as [new [A Ht]].
      pose proof (WBw_alloc m1 l1 m2 l2 new Hw1 A) as Hw2. pose proof A as [A1 A2 A3 A4 A5 A6 A7 A8 A9 A10].
      destruct (tight1_single new (Forall_impl _ (fun s Hs => proj2 Hs) A6) Ht) as [s0 ->].
      assert (Hsl2 : slices l2 = (pre ++ [put cur []]) ++ [s0]) by (rewrite A1; reflexivity).
      assert (Hlen2 : length (pre ++ [put cur []]) = S (length pre)) by (rewrite app_length; cbn; lia).
      assert (Hn2 : nth_error (slices l2) (S (length pre)) = Some s0) by (rewrite Hsl2, <- Hlen2; apply nth_error_app_mid).
      rewrite Hn2.
      assert (Hs0 : wslice_ok m2 s0) by (rewrite Hsl2 in A3; apply Forall_app in A3; destruct A3 as [_ A3]; inversion A3; assumption).
      set (l3 := set_wpos l2 (WAt (S (length pre)))).
      rewrite (sl_append_spec m2 l3 (S (length pre)) s0 [b] Hs0 ltac:(discriminate)). cbn [bind length].
      inversion A6 as [|? ? [_ Hroom] _]; subst. replace (Nat.min 1 (room s0)) with 1 by lia. cbn [firstn].
      eexists. eexists. split; [reflexivity|].
      eapply (wrote_after_step m l m1 l1); [exact P1|exact Hc1|].
      eapply wrote_after_alloc; [exact A|].
      eapply (wrote_after_step m2 l2 m2 l3); [apply wstep_set_wpos_r, wstep_refl, (ws_ok _ _ _ _ A2)|reflexivity|].
      eapply (single_put m2 l3 (pre ++ [put cur []]) s0 [b]); [exact (ws_ok _ _ _ _ A2)|apply WBw_set_wpos; exact Hw2|exact Hsl2
        |cbn [wpos l3 set_wpos]; rewrite Hlen2; reflexivity|discriminate|cbn [length]; unfold room in Hroom; lia|reflexivity|].
      unfold relist, set_slice_at. cbn [slices l3 set_wpos set_len set_slices len wpos pinned curp fromshm recycled leases].
      rewrite Hsl2, <- Hlen2, upd_nth_app. repeat split.
    + replace (Nat.min 1 (room cur)) with 1 by lia. cbn [Nat.eqb firstn]. rewrite Hsa.
      eexists. eexists. split; [reflexivity|].
      eapply (single_put m l pre cur [b]); [exact Hok|exact Hw|exact Hsl|exact Ewp|discriminate|cbn [length]; unfold room in Hnz; lia|reflexivity|].
      unfold relist. cbn [slices set_len set_slices len wpos pinned curp fromshm recycled leases]. repeat split.
Qed.

(* ---------------------------------------------------------------------------------------- *)
(* Reserve (three-way)                                                                       *)
(* ---------------------------------------------------------------------------------------- *)
(* the third way: a new slice for the whole request *)
Definition reserve3 (bs : list byte) (m0 : shm) (l0 : lbuf) : outcome (shm * lbuf) :=
  let size := length bs in
  let '(m1, l1) :=
    match allocShmBuffer m0 size with
    | Some (b, m1) => (m1, push_back l0 b)
    | None => (m0, set_fromshm (push_back l0 (heap_slice (Nat.max size heapMin))) false)
    end in
  let j := length (slices l1) - 1 in
  let l2 := set_len (set_wpos l1 (WAt j)) (len l1 + Z.of_nat size) in
  match nth_error (slices l2) j with
  | None => Panic 2
  | Some b => match sl_reserve m1 l2 j b bs with
              | Some r => r
              | None => Err 1
              end
  end.

Lemma tight_single_list n ss : Forall (fun s => 0 < room s) ss -> tight n ss -> length ss = 1 -> exists s, ss = [s] /\ 0 < n <= room s.
Proof.
  intros _ Ht Hl. destruct ss as [|s [|s' r]]; cbn in Hl; try lia. exists s. split; [reflexivity|apply tight_single; exact Ht].
Qed.

Lemma reserve3_ok bs m0 l0 : store_ok m0 -> WBw m0 l0 -> bs <> [] ->
  exists m' l', reserve3 bs m0 l0 = Ok (m', l') /\ wrote m0 l0 bs m' l'.
Proof.
  intros Hok Hw Hne. pose proof Hw as [W1 W2 W3 W4 W5].
  assert (Hpos : 0 < length bs) by (destruct bs; [congruence|cbn; lia]).
  (* both branches allocate exactly one slice that can hold the request *)
  assert (Hal : exists m1 l1 b, (match allocShmBuffer m0 (length bs) with
                                  | Some (b, m1) => (m1, push_back l0 b)
                                  | None => (m0, set_fromshm (push_back l0 (heap_slice (Nat.max (length bs) heapMin))) false)
                                  end) = (m1, l1)
                                /\ alloc_facts m0 l0 m1 l1 [b] /\ length bs <= room b).
  { destruct (allocShmBuffer m0 (length bs)) as [[b m1]|] eqn:E.
    - exists m1, (push_back l0 b), b. split; [reflexivity|].
      pose proof (allocated_single m0 l0 (length bs) b m1 Hok (nodup_frees m0 l0 W5) Hpos E) as A.
      destruct (alloc_facts_of m0 l0 _ _ _ _ _ Hok W5 W1 W2 A) as [F Ht]. cbn [app] in F, Ht.
      split; [exact F|]. apply tight_single in Ht. lia.
    - eexists. eexists. exists (heap_slice (Nat.max (length bs) heapMin)). split; [reflexivity|].
      pose proof (allocated_heap m0 l0 (length bs) (Nat.max (length bs) heapMin) Hok (nodup_frees m0 l0 W5) Hpos ltac:(lia)) as A.
      destruct (alloc_facts_of m0 l0 _ _ _ _ _ Hok W5 W1 W2 A) as [F Ht]. cbn [app] in F, Ht.
      split; [exact F|]. apply tight_single in Ht. lia. }
  destruct Hal as [m1 [l1 [b [Eal [A Hroom]]]]]. unfold reserve3. rewrite Eal.
  pose proof (WBw_alloc m0 l0 m1 l1 [b] Hw A) as Hw1. pose proof A as [A1 A2 A3 A4 A5 A6 A7 A8 A9 A10].
  assert (Hj : length (slices l1) - 1 = length (slices l0)) by (rewrite A1, app_length; cbn; lia).
  rewrite Hj. cbn [slices set_len set_wpos]. rewrite A1, nth_error_app_mid.
  assert (Hb : wslice_ok m1 b) by (rewrite A1 in A3; apply Forall_app in A3; destruct A3 as [_ A3]; inversion A3; assumption).
  rewrite (sl_reserve_spec m1 _ (length (slices l0)) b bs Hb).
  assert (Hfit : wr b + length bs <= cap b) by (unfold room in Hroom; destruct Hb as [_ [_ [? _]]]; lia).
  destruct (Nat.leb_spec (wr b + length bs) (cap b)) as [_|]; [|lia].
  eexists. eexists. split; [reflexivity|].
  eapply wrote_after_alloc; [exact A|].
  set (lb := set_wpos l1 (WAt (length (slices l0)))).
  eapply (wrote_after_step m1 l1 m1 lb); [apply wstep_set_wpos_r, wstep_refl, (ws_ok _ _ _ _ A2)|reflexivity|].
  eapply (single_put m1 lb (slices l0) b bs); [exact (ws_ok _ _ _ _ A2)|apply WBw_set_wpos; exact Hw1|exact A1|reflexivity|exact Hne|exact Hfit|reflexivity|].
  unfold relist, set_slice_at. cbn [slices lb set_wpos set_len set_slices len wpos pinned curp fromshm recycled leases].
  rewrite A1, upd_nth_app. repeat split.
Qed.

Theorem reserve_ok m l bs : wpre m l -> bs <> [] ->
  exists m' l', reserve bs m l = Ok (m', l') /\ wrote m l bs m' l'.
Proof.
  intros Hpre Hne. pose proof (WBw_of_wpre m l Hpre) as Hw. destruct Hpre as [Hok [Hwb Hown]]. pose proof Hwb as [W1 W2 W3 W4 W5 W6 W7].
  assert (Hpos : 0 < length bs) by (destruct bs; [congruence|cbn; lia]).
  unfold reserve. destruct (Nat.eqb_spec (length bs) 0) as [|_]; [lia|].
  unfold ensure_wslice. destruct (wpos l) as [|i|] eqn:Ewp; [| |contradiction].
  - (* no write slice: alloc(size), write slice := front *)
    destruct (lb_alloc m l (length bs)) as [m1 l1] eqn:Eal.
    destruct (alloc_step m l (length bs) m1 l1 Hok Hown W1 W2 Hpos Eal) as [new [A Ht]].
    pose proof (WBw_alloc m l m1 l1 new Hw A) as Hw1. pose proof A as [A1 A2 A3 A4 A5 A6 A7 A8 A9 A10].
    rewrite W4 in A1. cbn [app] in A1.
    assert (Hrooms : Forall (fun s => 0 < room s) new) by (eapply Forall_impl; [|exact A6]; intros s Hs; apply Hs).
    destruct new as [|s rest]; [destruct Ht; congruence|].
    assert (Hfp : front_ptr l1 = WAt 0) by (unfold front_ptr; rewrite A1; reflexivity). rewrite Hfp.
    set (l0 := set_wpos l1 (WAt 0)). unfold wslice. cbn [wpos l0 set_wpos slices]. rewrite A1. cbn [nth_error bind].
    assert (Hs : wslice_ok m1 s) by (rewrite A1 in A3; inversion A3; assumption).
    rewrite (sl_reserve_spec m1 l0 0 s bs Hs).
    assert (Hw0 : WBw m1 l0) by (apply WBw_set_wpos; exact Hw1).
    destruct (Nat.leb_spec (wr s + length bs) (cap s)) as [Hfit|Hnofit].
    + (* first way *)
      assert (rest = []).
      { destruct rest as [|s' r]; [reflexivity|]. destruct (tight_cons _ _ _ _ (or_intror I) Ht) as [Hlt _]. unfold room in Hlt. lia. }
      subst rest. cbn [bind]. eexists. eexists. split; [reflexivity|].
      eapply wrote_after_alloc; [exact A|].
      eapply (wrote_after_step m1 l1 m1 l0); [apply wstep_set_wpos_r, wstep_refl, (ws_ok _ _ _ _ A2)|reflexivity|].
      eapply (single_put m1 l0 [] s bs); [exact (ws_ok _ _ _ _ A2)|exact Hw0|exact A1|reflexivity|exact Hne|exact Hfit|reflexivity|].
      unfold relist, set_slice_at. cbn [slices l0 set_wpos set_len set_slices len wpos pinned curp fromshm recycled leases].
      rewrite A1. cbn [upd_nth app]. repeat split.
    + destruct rest as [|s' r].
      { apply tight_single in Ht. unfold room in Ht. destruct Hs as [_ [_ [? _]]]. lia. }
      destruct (tight_cons _ _ _ _ (or_intror I) Ht) as [Hlt Ht'].
      assert (Hs' : wslice_ok m1 s') by (rewrite A1 in A3; inversion A3 as [|? ? _ A3']; inversion A3'; assumption).
      rewrite (sl_reserve_spec m1 l0 1 s' bs Hs').
      destruct (Nat.leb_spec (wr s' + length bs) (cap s')) as [Hfit'|Hnofit'].
      * (* second way: the next slice *)
        assert (r = []).
        { destruct r as [|s'' r']; [reflexivity|]. destruct (tight_cons _ _ _ _ (or_intror I) Ht') as [Hlt' _]. unfold room in Hlt, Hlt'.
          destruct Hs' as [_ [_ [? _]]]. lia. }
        subst r. cbn [bind]. eexists. eexists. split; [reflexivity|].
        eapply wrote_after_alloc; [exact A|].
        set (lb := set_wpos l1 (WAt 1)).
        eapply (wrote_after_step m1 l1 m1 lb); [apply wstep_set_wpos_r, wstep_refl, (ws_ok _ _ _ _ A2)|reflexivity|].
        eapply (single_put m1 lb [s] s' bs); [exact (ws_ok _ _ _ _ A2)|apply WBw_set_wpos; exact Hw1|exact A1|reflexivity|exact Hne|exact Hfit'|reflexivity|].
        unfold relist, set_slice_at. cbn [slices l0 lb set_wpos set_len set_slices len wpos pinned curp fromshm recycled leases].
        rewrite A1. cbn [upd_nth app]. repeat split.
      * (* third way *)
        destruct (reserve3_ok bs m1 l0 (ws_ok _ _ _ _ A2) Hw0 Hne) as [m' [l' [Hr Hwrote]]].
        unfold reserve3 in Hr. rewrite Hr. eexists. eexists. split; [reflexivity|].
        eapply wrote_after_alloc; [exact A|].
        eapply (wrote_after_step m1 l1 m1 l0); [apply wstep_set_wpos_r, wstep_refl, (ws_ok _ _ _ _ A2)|reflexivity|exact Hwrote].
  - (* a write slice exists: it is the last slice *)
    destruct (exists_last (l := slices l)) as [pre [cur Hsl]]; [intros E; rewrite E in W4; cbn in W4; lia|].
    assert (Hi : i = length pre) by (rewrite Hsl, app_length in W4; cbn in W4; lia). subst i.
    assert (Hcur : wslice_ok m cur) by (rewrite Hsl in W1; apply Forall_app in W1; destruct W1 as [_ W1]; inversion W1; assumption).
    assert (Hnth : nth_error (slices l) (length pre) = Some cur) by (rewrite Hsl; apply nth_error_app_mid).
    unfold wslice. rewrite Ewp, Hnth. cbn [bind]. rewrite (sl_reserve_spec m l (length pre) cur bs Hcur).
    destruct (Nat.leb_spec (wr cur + length bs) (cap cur)) as [Hfit|Hnofit].
    + cbn [bind]. eexists. eexists. split; [reflexivity|].
      eapply (single_put m l pre cur bs); [exact Hok|exact Hw|exact Hsl|exact Ewp|exact Hne|exact Hfit|reflexivity|].
      unfold relist, set_slice_at. cbn [slices set_len set_slices len wpos pinned curp fromshm recycled leases].
      rewrite Hsl, upd_nth_app. repeat split.
    + assert (Hn1 : nth_error (slices l) (S (length pre)) = None) by (apply nth_error_None; rewrite Hsl, app_length; cbn; lia).
      rewrite Hn1.
      destruct (reserve3_ok bs m l Hok Hw Hne) as [m' [l' [Hr Hwrote]]].
      unfold reserve3 in Hr. rewrite Hr. eexists. eexists. split; [reflexivity|exact Hwrote].
Qed.
