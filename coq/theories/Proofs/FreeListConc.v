(* The ABA-free concurrent invariant of the free list (C01 / C02, `_partial_aba_free`):
   for every number of slots, ANY number of threads, every program of alloc / free / update operations
   and EVERY schedule in which no head-CAS of bufferList.pop succeeds with a stale head version,
   the free slots form a duplicate-free chain from head to tail whose links are complete or pending
   in exactly one pusher, and every other slot has exactly one owner.

   The model (Model/FreeList.v) is not changed: the ghost state (head version, the version each
   thread saw when it loaded head) is layered on top of `step` and only OBSERVES it.            *)
From Coq Require Import List ZArith Lia Bool Arith Permutation.
From Shm Require Import Gen.Consts Model.FreeList Proofs.FreeListProofs Proofs.FreeListSeq.
Import ListNotations.
Open Scope Z_scope.

(* ---------- ghost instrumentation ---------- *)
(* the step of thread p loads `head` (pop's first load, or the reload at the end of a loop iteration) *)
Definition loads_head (p : tlocal) : bool :=
  match pc p with
  | Idle => match normalize (held p) (todo p) with Alloc :: _ => true | _ => false end
  | PopReload _ => true
  | _ => false
  end.
(* the step of thread p is a head-CAS that succeeds *)
Definition cas_ok (m : mem) (p : tlocal) : bool :=
  match pc p with PopCas oh _ _ => m_head m =? oh | _ => false end.

Record gst := { gs : st; ver : nat; seen : nat -> nat }.

Definition stepg (g : gst) (i : nat) : gst :=
  match nth_error (thr (gs g)) i with
  | None => g
  | Some p =>
      {| gs := step (gs g) i;
         ver := if cas_ok (mm (gs g)) p then S (ver g) else ver g;
         seen := if loads_head p then (fun j => if Nat.eqb j i then ver g else seen g j) else seen g |}
  end.

Definition ginit (s : st) : gst := {| gs := s; ver := 0; seen := fun _ => 0%nat |}.
Definition rung (sched : list nat) (g : gst) : gst := fold_left stepg sched g.

(* the step of thread i is a head-CAS that succeeds although head was changed (by a successful CAS)
   since thread i loaded it: the ABA of bufferList.pop *)
Definition stale_success (g : gst) (i : nat) : bool :=
  match nth_error (thr (gs g)) i with
  | Some p => cas_ok (mm (gs g)) p && negb (Nat.eqb (seen g i) (ver g))
  | None => false
  end.

Fixpoint aba_free (sched : list nat) (g : gst) : bool :=
  match sched with
  | [] => true
  | i :: r => negb (stale_success g i) && aba_free r (stepg g i)
  end.

Lemma gs_stepg g i : gs (stepg g i) = step (gs g) i.
Proof. unfold stepg, step. destruct (nth_error (thr (gs g)) i); reflexivity. Qed.

Lemma gs_rung sched : forall g, gs (rung sched g) = run sched (gs g).
Proof.
  induction sched as [|i r IH]; intros g; [reflexivity|].
  unfold rung, run in *. cbn [fold_left]. rewrite IH, gs_stepg. reflexivity.
Qed.

(* ---------- list lemmas ---------- *)
Lemma nth_split {A} (l : list A) i p :
  nth_error l i = Some p ->
  exists r1 r2, l = r1 ++ p :: r2 /\ length r1 = i /\ forall p', set_nth i p' l = r1 ++ p' :: r2.
Proof.
  revert i; induction l as [|a l IH]; intros [|i] H; simpl in H; try discriminate.
  - inversion H; subst. exists [], l. repeat split; auto.
  - destruct (IH i H) as [r1 [r2 [E [Hl Hs]]]]. exists (a :: r1), r2. repeat split.
    + simpl. rewrite <- E. reflexivity.
    + simpl. rewrite Hl. reflexivity.
    + intros p'. simpl. rewrite Hs. reflexivity.
Qed.

Lemma nth_other {A} (r1 r2 : list A) p j q :
  nth_error (r1 ++ p :: r2) j = Some q -> j <> length r1 -> In q (r1 ++ r2).
Proof.
  revert j; induction r1 as [|a r1 IH]; intros j H Hne; simpl in *.
  - destruct j; [congruence|]. simpl in H. eapply nth_error_In; eauto.
  - destruct j; simpl in H.
    + inversion H; subst. left; reflexivity.
    + right. apply (IH j); auto.
Qed.

Lemma in_flat_map_of {A B} (f : A -> list B) l q x : In q l -> In x (f q) -> In x (flat_map f l).
Proof. intros. apply in_flat_map. eauto. Qed.

Lemma perm_frame {A} (X X' Y Y' O1 O2 : list A) :
  Permutation (X' ++ Y') (X ++ Y) -> Permutation (X' ++ O1 ++ Y' ++ O2) (X ++ O1 ++ Y ++ O2).
Proof.
  intros P.
  assert (Q : forall X Y : list A, Permutation (X ++ O1 ++ Y ++ O2) ((X ++ Y) ++ O1 ++ O2)).
  { intros U V. rewrite <- app_assoc. apply Permutation_app_head. apply Permutation_app_swap_app. }
  rewrite (Q X' Y'), (Q X Y). apply Permutation_app_tail. exact P.
Qed.

(* ---------- adjacency in the chain ---------- *)
Definition adj (x y : Z) (C : list Z) : Prop := exists A B, C = A ++ x :: y :: B.

Lemma adj_in x y C : adj x y C -> In x C /\ In y C.
Proof. intros [A [B ->]]. split; apply in_or_app; right; simpl; auto. Qed.

Lemma adj_cons x y a C : adj x y C -> adj x y (a :: C).
Proof. intros [A [B ->]]. exists (a :: A), B. reflexivity. Qed.

Lemma adj_tl x y C : adj x y C -> x <> hd 0 C -> adj x y (tl C).
Proof.
  intros [A [B ->]] Hne. destruct A as [|a A]; simpl in *; [congruence|]. exists A, B. reflexivity.
Qed.

Lemma adj_of_tl x y C : adj x y (tl C) -> adj x y C.
Proof. destruct C; simpl; intros H; [destruct H as [A [B E]]; destruct A; discriminate|apply adj_cons; exact H]. Qed.

Lemma adj_snoc x y C b : adj x y C -> adj x y (C ++ [b]).
Proof. intros [A [B ->]]. exists A, (B ++ [b]). rewrite <- app_assoc. reflexivity. Qed.

Lemma adj_last C b : C <> [] -> adj (last C 0) b (C ++ [b]).
Proof.
  intros H. destruct (exists_last H) as [C' [x ->]]. rewrite last_last. exists C', []. rewrite <- app_assoc. reflexivity.
Qed.

Lemma adj_snoc_inv x y C b : adj x y (C ++ [b]) -> adj x y C \/ (C <> [] /\ x = last C 0 /\ y = b).
Proof.
  intros [A [B E]]. destruct (@exists_last _ (x :: y :: B) ltac:(discriminate)) as [T [z ET]].
  destruct B as [|b1 B'].
  - right. change (A ++ [x; y]) with (A ++ [x] ++ [y]) in E. rewrite app_assoc in E.
    apply app_inj_tail in E. destruct E as [E1 E2]. subst. split; [destruct A; discriminate|].
    rewrite last_last. auto.
  - left. destruct (@exists_last _ (b1 :: B') ltac:(discriminate)) as [B2 [z2 EB]].
    rewrite EB in E. change (A ++ x :: y :: B2 ++ [z2]) with (A ++ (x :: y :: B2) ++ [z2]) in E.
    rewrite app_assoc in E. apply app_inj_tail in E. destruct E as [E1 _]. exists A, B2. auto.
Qed.

Lemma adj_fun x y y' C : NoDup C -> adj x y C -> adj x y' C -> y = y'.
Proof.
  intros Hnd [A [B E]] [A' [B' E']]. rewrite E in E', Hnd. clear E C.
  revert A' E'. induction A as [|a A IH]; intros A' E'.
  - destruct A' as [|a' A'']; cbn [app] in E'.
    + injection E' as E1 E2. exact E1.
    + injection E' as E1 E2. exfalso. cbn [app] in Hnd. apply NoDup_cons_iff in Hnd. destruct Hnd as [Hx _].
      apply Hx. rewrite E2. apply in_or_app; right; left; reflexivity.
  - cbn [app] in Hnd. apply NoDup_cons_iff in Hnd. destruct Hnd as [Ha Hnd].
    destruct A' as [|a' A'']; cbn [app] in E'.
    + injection E' as E1 E2. exfalso. apply Ha. rewrite E1. apply in_or_app; right; left; reflexivity.
    + injection E' as E1 E2. apply (IH Hnd A''). exact E2.
Qed.

Lemma adj_not_last x y C : NoDup C -> adj x y C -> x <> last C 0.
Proof.
  intros Hnd [A [B ->]] E.
  assert (Hl : last (A ++ x :: y :: B) 0 = last (y :: B) 0).
  { clear. induction A as [|a A IH]; [reflexivity|]. rewrite <- IH. cbn [app]. destruct (A ++ x :: y :: B) eqn:E; [destruct A; discriminate|reflexivity]. }
  rewrite Hl in E. apply NoDup_remove_2 in Hnd. apply Hnd. apply in_or_app; right.
  rewrite E. apply last_in. discriminate.
Qed.

Lemma adj_head2 a b C' x y : adj x y (a :: b :: C') -> (x = a /\ y = b) \/ adj x y (b :: C').
Proof.
  intros [A [B E]]. destruct A as [|a0 A]; cbn [app] in E.
  - left; split; congruence.
  - right. exists A, B. congruence.
Qed.

(* ---------- the invariant ---------- *)
(* slots in the hands of a thread's in-progress pop (after its CAS) or push (before its CAS) *)
Definition pcown (c : fpc) : list Z :=
  match c with
  | PopClr oh | PopUse1 oh | PopUse2 oh _ | PopCnt oh | PopRcpb oh | PopRcap oh | PopRstart oh | PopRsize oh => [oh]
  | PushR2 b _ | PushR3 b _ | PushTail b _ | PushCas b _ _ => [b]
  | _ => []
  end.
Definition owned (p : tlocal) : list Z := held p ++ pcown (pc p).
(* the chain slot whose link a pusher is completing (between its tail-CAS and its flag store) *)
Definition pend (c : fpc) : list Z :=
  match c with PushL1 _ ot _ | PushL2 _ ot _ | PushL3 _ ot _ _ => [ot] | _ => [] end.
Definition all_owned (l : list tlocal) : list Z := flat_map owned l.
Definition all_pend (l : list tlocal) : list Z := flat_map (fun p => pend (pc p)) l.

Definition th_ok (p : tlocal) : Prop := t_ok p /\ lost p = 0.

Section Inv.
Variables n cpb : Z.
Hypothesis Hn : 1 <= n.
Hypothesis Hcpb : 0 <= cpb.

Definition slot (o : Z) : Prop := In o (L0 n cpb).

(* per-program-point assertions; fr = "head has not been changed since this thread loaded it" *)
Definition pc_ok (m : mem) (C : list Z) (fr : Prop) (p : tlocal) : Prop :=
  match pc p with
  | Idle | PopRestore | PopReload _ | PopChk _ => True
  | PopFaa oh | PopLoop oh _ => slot oh /\ (fr -> oh = hd 0 C)
  | PopNext oh _ => slot oh /\ (fr -> oh = hd 0 C /\ has_next (s_flag m oh) = true)
  | PopCas oh nx _ => slot oh /\ (fr -> has_next (s_flag m oh) = true /\ exists C', C = oh :: nx :: C')
  | PopClr _ | PopUse1 _ | PopUse2 _ _ | PopCnt _ | PopRcpb _ | PopRcap _ | PopRstart _ | PopRsize _ => True
  | PushR2 _ None | PushR3 _ None => True
  | PushTail b None | PushCas b _ None => has_next (s_flag m b) = false
  | PushL1 b ot None => adj ot b C /\ has_next (s_flag m ot) = false
  | PushL2 b ot None | PushL3 b ot _ None => adj ot b C /\ has_next (s_flag m ot) = false /\ s_next m ot = b
  | PushSz _ None | PushCnt _ None => True
  | UpdStart b _ | UpdNext b _ | UpdF1 b | UpdF2 b _ => In b (held p)
  | _ => False
  end.

Record GInv (g : gst) (C : list Z) : Prop := {
  g_ne : C <> [];
  g_head : m_head (mm (gs g)) = hd 0 C;
  g_tail : m_tail (mm (gs g)) = last C 0;
  g_geom : m_n (mm (gs g)) = n /\ m_cpb (mm (gs g)) = cpb;
  g_perm : Permutation (C ++ all_owned (thr (gs g))) (L0 n cpb);
  g_link : forall x y, adj x y C ->
             (has_next (s_flag (mm (gs g)) x) = true -> s_next (mm (gs g)) x = y) /\
             (has_next (s_flag (mm (gs g)) x) = false -> In x (all_pend (thr (gs g))));
  g_last : has_next (s_flag (mm (gs g)) (last C 0)) = false;
  g_pend : NoDup (all_pend (thr (gs g)));
  g_pc : forall j p, nth_error (thr (gs g)) j = Some p ->
                     pc_ok (mm (gs g)) C (seen g j = ver g) p /\ th_ok p;
  g_seen : forall j, (seen g j <= ver g)%nat }.

Lemma stride_pos : 0 < cpb + c_bufferHeaderSize.
Proof. pose proof hdr_pos. lia. Qed.

Lemma L0_nodup : NoDup (L0 n cpb).
Proof. apply slots0_nodup. apply stride_pos. Qed.

Lemma slot_valid m o : m_n m = n -> m_cpb m = cpb -> slot o ->
  valid_off m o = true /\ (o + stride m <=? m_n m * stride m) = true.
Proof.
  intros En Ec Ho. pose proof hdr_pos as Hh. apply slots0_in in Ho. destruct Ho as [i [Hi ->]].
  unfold valid_off, stride. rewrite En, Ec. set (st := cpb + c_bufferHeaderSize).
  assert (Hst : 0 < st) by apply stride_pos.
  assert (Z.of_nat i * st + st <= n * st) by nia.
  split; [apply andb_true_iff; split|]; apply Z.leb_le; try nia; unfold st in *; lia.
Qed.

(* ----- frame lemmas: what a step of one thread preserves of ANOTHER thread's assertion ----- *)
Lemma pend_in_chain m C fr q y : pc_ok m C fr q -> In y (pend (pc q)) -> exists b, adj y b C.
Proof.
  unfold pc_ok. destruct (pc q) as [ | | | | | | | | | | | | | | | |b k|b k|b k|b ot k|b ot k|b ot k|b ot v k|b k|b k| | | | | | | | | | | | ];
    cbn [pend]; intros H Hin; try contradiction; (destruct k; [contradiction|]);
    destruct Hin as [<-|[]]; exists b; apply H.
Qed.

(* flag / next unchanged; the chain may change at its ends *)
Lemma pc_ok_chain m m' C C' (fr fr' : Prop) q :
  s_flag m' = s_flag m -> s_next m' = s_next m ->
  (fr' -> fr /\ hd 0 C' = hd 0 C /\ forall oh nx C1, C = oh :: nx :: C1 -> exists C2, C' = oh :: nx :: C2) ->
  (forall x y, adj x y C -> has_next (s_flag m x) = false -> adj x y C') ->
  pc_ok m C fr q -> pc_ok m' C' fr' q.
Proof.
  intros Ef En Hfr Hadj. unfold pc_ok. rewrite Ef, En.
  destruct (pc q) as [ | | | | | | | | | | | | | | | |b k|b k|b k|b ot k|b ot k|b ot k|b ot v k|b k|b k| | | | | | | | | | | | ];
    try exact (fun H => H); try (destruct k; exact (fun H => H)).
  - intros [H1 H2]. split; auto. intros F. destruct (Hfr F) as [F0 [Eh _]]. rewrite Eh. auto.
  - intros [H1 H2]. split; auto. intros F. destruct (Hfr F) as [F0 [Eh _]]. rewrite Eh. auto.
  - intros [H1 H2]. split; auto. intros F. destruct (Hfr F) as [F0 [Eh _]]. rewrite Eh. auto.
  - intros [H1 H2]. split; auto. intros F. destruct (Hfr F) as [F0 [_ Hc]]. destruct (H2 F0) as [Hf [C1 E1]].
    split; auto. apply (Hc _ _ _ E1).
  - destruct k; auto. intros [H1 H2]. split; auto.
  - destruct k; auto. intros [H1 [H2 H3]]. split; auto.
  - destruct k; auto. intros [H1 [H2 H3]]. split; auto.
Qed.

(* a store to flag / next of slot x; the chain and the versions do not change *)
Lemma pc_ok_write m m' C (fr : Prop) q x :
  (forall o, o <> x -> s_flag m' o = s_flag m o /\ s_next m' o = s_next m o) ->
  (~ In x C \/ (has_next (s_flag m x) = true -> has_next (s_flag m' x) = true)) -> C <> [] ->
  ~ In x (pcown (pc q)) -> ~ In x (pend (pc q)) ->
  pc_ok m C fr q -> pc_ok m' C fr q.
Proof.
  intros He Hx Hne Hown Hpend.
  assert (Hhd : In (hd 0 C) C) by (destruct C; [congruence|left; reflexivity]).
  assert (Hmono : forall oh, In oh C -> has_next (s_flag m oh) = true -> has_next (s_flag m' oh) = true).
  { intros oh Hin Hf. destruct (Z.eq_dec oh x) as [->|Hne'].
    - destruct Hx as [Hx|Hx]; [contradiction|auto].
    - destruct (He oh Hne') as [-> _]. exact Hf. }
  unfold pc_ok.
  destruct (pc q) as [ | | | | | | | | | | | | | | | |b k|b k|b k|b ot k|b ot k|b ot k|b ot v k|b k|b k| | | | | | | | | | | | ];
    try exact (fun H => H); try (destruct k; exact (fun H => H)); cbn [pcown pend] in Hown, Hpend.
  - intros [H1 H2]. split; auto. intros F. destruct (H2 F) as [E Hf]. split; auto. apply Hmono; auto. rewrite E; exact Hhd.
  - intros [H1 H2]. split; auto. intros F. destruct (H2 F) as [Hf [C1 E1]]. split; eauto. apply Hmono; auto.
    rewrite E1. left; reflexivity.
  - destruct k; auto. assert (b <> x) by (intros ->; apply Hown; left; reflexivity).
    destruct (He b H) as [-> _]. auto.
  - destruct k; auto. assert (b <> x) by (intros ->; apply Hown; left; reflexivity).
    destruct (He b H) as [-> _]. auto.
  - destruct k; auto. assert (ot <> x) by (intros ->; apply Hpend; left; reflexivity).
    destruct (He ot H) as [-> _]. auto.
  - destruct k; auto. assert (ot <> x) by (intros ->; apply Hpend; left; reflexivity).
    destruct (He ot H) as [-> ->]. auto.
  - destruct k; auto. assert (ot <> x) by (intros ->; apply Hpend; left; reflexivity).
    destruct (He ot H) as [-> ->]. auto.
Qed.

(* ----- consequences of the invariant ----- *)
Lemma NoDup_app_disj {A} (X B : list A) x : NoDup (X ++ B) -> In x X -> ~ In x B.
Proof.
  induction X as [|a X IH]; cbn [app]; intros Hnd Hin; [contradiction|].
  apply NoDup_cons_iff in Hnd. destruct Hnd as [Ha Hnd]. destruct Hin as [->|Hin]; auto.
  intros Hb. apply Ha. apply in_or_app; right; exact Hb.
Qed.

Lemma nodup_mid_out {A} (U X B : list A) x : NoDup (U ++ X ++ B) -> In x X -> ~ In x (U ++ B).
Proof.
  intros Hnd. apply NoDup_app_disj. eapply Permutation_NoDup; [|exact Hnd]. apply Permutation_app_swap_app.
Qed.

Lemma nodup_mid_drop {A} (U X B : list A) : NoDup (U ++ X ++ B) -> NoDup (U ++ B).
Proof.
  intros Hnd. assert (H : NoDup (X ++ U ++ B)) by (eapply Permutation_NoDup; [|exact Hnd]; apply Permutation_app_swap_app).
  clear Hnd. induction X as [|a X IH]; auto. cbn [app] in H. apply NoDup_cons_iff in H. apply IH, H.
Qed.

Lemma ginv_nodup g C : GInv g C -> NoDup (C ++ all_owned (thr (gs g))).
Proof. intros H. eapply Permutation_NoDup; [apply Permutation_sym, (g_perm _ _ H)|apply L0_nodup]. Qed.

Lemma ginv_nodup_chain g C : GInv g C -> NoDup C.
Proof. intros H. apply ginv_nodup in H. clear -H. induction C as [|a C IH]; [constructor|].
  cbn [app] in H. apply NoDup_cons_iff in H. destruct H as [Ha H]. constructor; auto.
  intros Hi; apply Ha; apply in_or_app; left; exact Hi. Qed.

Lemma ginv_slot_chain g C x : GInv g C -> In x C -> slot x.
Proof. intros H Hx. unfold slot. eapply Permutation_in; [apply (g_perm _ _ H)|]. apply in_or_app; left; exact Hx. Qed.

Lemma ginv_slot_owned g C i p x : GInv g C -> nth_error (thr (gs g)) i = Some p -> In x (owned p) -> slot x.
Proof.
  intros H Hp Hx. unfold slot. eapply Permutation_in; [apply (g_perm _ _ H)|]. apply in_or_app; right.
  unfold all_owned. apply in_flat_map. exists p. split; [eapply nth_error_In; eauto|exact Hx].
Qed.

Lemma ginv_owned_not_chain g C i p x : GInv g C -> nth_error (thr (gs g)) i = Some p -> In x (owned p) -> ~ In x C.
Proof.
  intros H Hp Hx Hc. pose proof (ginv_nodup _ _ H) as Hnd.
  apply (NoDup_app_disj _ _ x Hnd Hc). unfold all_owned. apply in_flat_map. exists p. split; [eapply nth_error_In; eauto|exact Hx].
Qed.

Lemma ginv_pend_adj g C z : GInv g C -> In z (all_pend (thr (gs g))) -> exists y, adj z y C.
Proof.
  intros H Hz. unfold all_pend in Hz. apply in_flat_map in Hz. destruct Hz as [q [Hq Hz]].
  apply In_nth_error in Hq. destruct Hq as [j Hj]. destruct (g_pc _ _ H j q Hj) as [Hpc _].
  eapply pend_in_chain; eauto.
Qed.

Definition frame_ok (g : gst) (C : list Z) (i : nat) (p : tlocal) (m' : mem) (C' : list Z) (v' : nat) (sn' : nat -> nat) : Prop :=
  forall j q, j <> i -> nth_error (thr (gs g)) j = Some q -> pc_ok (mm (gs g)) C (seen g j = ver g) q ->
    (forall x, In x (owned p) -> ~ In x (owned q)) -> (forall x, In x (pend (pc p)) -> ~ In x (pend (pc q))) ->
    pc_ok m' C' (sn' j = v') q.

(* reassembly of the invariant after a step of thread i *)
Lemma assemble g C i p m' p' C' v' sn' :
  GInv g C -> nth_error (thr (gs g)) i = Some p ->
  C' <> [] -> m_head m' = hd 0 C' -> m_tail m' = last C' 0 -> (m_n m' = n /\ m_cpb m' = cpb) ->
  Permutation (C' ++ owned p') (C ++ owned p) ->
  (pend (pc p') = pend (pc p) \/ pend (pc p') = [] \/
   (exists x, pend (pc p') = [x] /\ pend (pc p) = [] /\ ~ In x (all_pend (thr (gs g))))) ->
  (forall x y, adj x y C' ->
     (has_next (s_flag m' x) = true -> s_next m' x = y) /\
     (has_next (s_flag m' x) = false ->
        In x (pend (pc p')) \/ (In x (all_pend (thr (gs g))) /\ ~ In x (pend (pc p))))) ->
  has_next (s_flag m' (last C' 0)) = false ->
  pc_ok m' C' (sn' i = v') p' -> th_ok p' ->
  frame_ok g C i p m' C' v' sn' ->
  (forall j, (sn' j <= v')%nat) ->
  GInv {| gs := {| mm := m'; thr := set_nth i p' (thr (gs g)) |}; ver := v'; seen := sn' |} C'.
Proof.
  intros G Hp Hne Hh Ht Hg Hperm Hpend Hlink Hlast Hpc Hth Hfr Hsn.
  destruct (nth_split _ _ _ Hp) as [r1 [r2 [E [Hlen Hset]]]].
  pose proof (ginv_nodup _ _ G) as Hnd. pose proof (g_pend _ _ G) as Hpnd. pose proof (g_perm _ _ G) as HP.
  unfold all_owned in Hnd, HP. unfold all_pend in Hpnd, Hpend, Hlink. rewrite E in Hnd, HP, Hpnd, Hpend, Hlink.
  rewrite flat_map_app in Hnd, HP, Hpnd, Hpend, Hlink. cbn [flat_map] in Hnd, HP, Hpnd, Hpend, Hlink.
  set (O1 := flat_map owned r1) in *. set (O2 := flat_map owned r2) in *.
  set (P1 := flat_map (fun p => pend (pc p)) r1) in *. set (P2 := flat_map (fun p => pend (pc p)) r2) in *.
  assert (HsetO : all_owned (set_nth i p' (thr (gs g))) = O1 ++ owned p' ++ O2).
  { rewrite Hset. unfold all_owned. rewrite flat_map_app. reflexivity. }
  assert (HsetP : all_pend (set_nth i p' (thr (gs g))) = P1 ++ pend (pc p') ++ P2).
  { rewrite Hset. unfold all_pend. rewrite flat_map_app. reflexivity. }
  constructor; cbn [gs mm thr ver seen]; auto.
  - rewrite HsetO. eapply Permutation_trans; [|exact HP]. apply perm_frame. exact Hperm.
  - intros x y Ha. destruct (Hlink x y Ha) as [L1 L2]. split; auto. intros Hf. rewrite HsetP.
    destruct (L2 Hf) as [Hin|[Hin Hnot]].
    + apply in_or_app; right; apply in_or_app; left; exact Hin.
    + apply in_app_or in Hin. destruct Hin as [Hin|Hin]; [apply in_or_app; left; exact Hin|].
      apply in_app_or in Hin. destruct Hin as [Hin|Hin]; [contradiction|].
      apply in_or_app; right; apply in_or_app; right; exact Hin.
  - rewrite HsetP. destruct Hpend as [Ep|[Ep|[x [Ep [Ep0 Hx]]]]].
    + rewrite Ep. exact Hpnd.
    + rewrite Ep. cbn [app]. eapply nodup_mid_drop; exact Hpnd.
    + rewrite Ep. rewrite Ep0 in Hpnd, Hx. cbn [app] in Hpnd, Hx |- *.
      eapply Permutation_NoDup; [apply Permutation_middle|]. constructor; auto.
  - intros j q Hq. destruct (Nat.eq_dec i j) as [<-|Hne'].
    + rewrite (nth_error_set_nth_eq _ _ _ _ Hp) in Hq. inversion Hq; subst q. split; auto.
    + rewrite nth_error_set_nth_neq in Hq by auto. destruct (g_pc _ _ G j q Hq) as [Hq1 Hq2]. split; auto.
      assert (Hin : In q (r1 ++ r2)).
      { rewrite E in Hq. eapply nth_other; eauto. lia. }
      apply (Hfr j q); auto.
      * intros x Hx Hxq. apply (nodup_mid_out (C ++ O1) (owned p) O2 x).
        { rewrite <- app_assoc. exact Hnd. }
        { exact Hx. }
        { rewrite <- app_assoc. apply in_or_app; right. apply in_app_or in Hin. destruct Hin as [Hin|Hin].
          - apply in_or_app; left. eapply in_flat_map_of; eauto.
          - apply in_or_app; right. eapply in_flat_map_of; eauto. }
      * intros x Hx Hxq. apply (nodup_mid_out P1 (pend (pc p)) P2 x Hpnd Hx).
        apply in_app_or in Hin. destruct Hin as [Hin|Hin].
        { apply in_or_app; left. eapply (in_flat_map_of (fun p => pend (pc p))); eauto. }
        { apply in_or_app; right. eapply (in_flat_map_of (fun p => pend (pc p))); eauto. }
Qed.

Definition same_hdr (m m' : mem) : Prop :=
  s_flag m' = s_flag m /\ s_next m' = s_next m /\ m_head m' = m_head m /\ m_tail m' = m_tail m /\
  m_n m' = m_n m /\ m_cpb m' = m_cpb m.

(* a step that touches neither flag / next of any slot nor head / tail (loads, FAAs on size / counter,
   stores to the size / start fields) *)
Lemma assemble0 g C i p m' p' sn' :
  GInv g C -> nth_error (thr (gs g)) i = Some p -> same_hdr (mm (gs g)) m' ->
  Permutation (owned p') (owned p) -> pend (pc p') = pend (pc p) ->
  pc_ok m' C (sn' i = ver g) p' -> th_ok p' ->
  (forall j, j <> i -> sn' j = seen g j) -> (sn' i <= ver g)%nat ->
  GInv {| gs := {| mm := m'; thr := set_nth i p' (thr (gs g)) |}; ver := ver g; seen := sn' |} C.
Proof.
  intros G Hp [Ef [En [Eh [Et [Enn Ec]]]]] Hperm Hpend Hpc Hth Hsn Hsi.
  apply (assemble g C i p m' p' C (ver g) sn' G Hp); auto.
  - apply (g_ne _ _ G).
  - rewrite Eh. apply (g_head _ _ G).
  - rewrite Et. apply (g_tail _ _ G).
  - rewrite Enn, Ec. apply (g_geom _ _ G).
  - apply Permutation_app_head. exact Hperm.
  - intros x y Ha. rewrite Ef, En. destruct (g_link _ _ G x y Ha) as [L1 L2]. split; auto.
    intros Hf. rewrite Hpend. destruct (in_dec Z.eq_dec x (pend (pc p))); auto.
  - rewrite Ef. apply (g_last _ _ G).
  - intros j q Hne Hq Hqpc _ _. rewrite (Hsn j Hne). eapply pc_ok_chain; eauto.
  - intros j. destruct (Nat.eq_dec j i) as [->|Hne]; auto. rewrite Hsn by auto. apply (g_seen _ _ G).
Qed.

(* a store to flag / next of a slot x the stepping thread owns *)
Lemma assemble1 g C i p m' p' x :
  GInv g C -> nth_error (thr (gs g)) i = Some p -> In x (owned p) ->
  (forall o, o <> x -> s_flag m' o = s_flag (mm (gs g)) o /\ s_next m' o = s_next (mm (gs g)) o) ->
  m_head m' = m_head (mm (gs g)) -> m_tail m' = m_tail (mm (gs g)) ->
  m_n m' = m_n (mm (gs g)) -> m_cpb m' = m_cpb (mm (gs g)) ->
  Permutation (owned p') (owned p) -> pend (pc p') = pend (pc p) ->
  pc_ok m' C (seen g i = ver g) p' -> th_ok p' ->
  GInv {| gs := {| mm := m'; thr := set_nth i p' (thr (gs g)) |}; ver := ver g; seen := seen g |} C.
Proof.
  intros G Hp Hx He Eh Et Enn Ec Hperm Hpend Hpc Hth.
  pose proof (ginv_owned_not_chain _ _ _ _ _ G Hp Hx) as HxC.
  assert (HeC : forall o, In o C -> s_flag m' o = s_flag (mm (gs g)) o /\ s_next m' o = s_next (mm (gs g)) o).
  { intros o Ho. apply He. intros ->. contradiction. }
  apply (assemble g C i p m' p' C (ver g) (seen g) G Hp); auto.
  - apply (g_ne _ _ G).
  - rewrite Eh. apply (g_head _ _ G).
  - rewrite Et. apply (g_tail _ _ G).
  - rewrite Enn, Ec. apply (g_geom _ _ G).
  - apply Permutation_app_head. exact Hperm.
  - intros a y Ha. destruct (HeC a (proj1 (adj_in _ _ _ Ha))) as [-> ->].
    destruct (g_link _ _ G a y Ha) as [L1 L2]. split; auto.
    intros Hf. rewrite Hpend. destruct (in_dec Z.eq_dec a (pend (pc p))); auto.
  - destruct (HeC (last C 0) (last_in C 0 (g_ne _ _ G))) as [-> _]. apply (g_last _ _ G).
  - intros j q Hne Hq Hqpc Hdis _. apply (pc_ok_write (mm (gs g)) m' C _ q x); auto.
    + apply (g_ne _ _ G).
    + intros Hi. apply (Hdis x Hx). unfold owned. apply in_or_app; right; exact Hi.
    + intros Hi. destruct (pend_in_chain _ _ _ _ _ Hqpc Hi) as [b Hb]. apply HxC. apply (adj_in _ _ _ Hb).
  - apply (g_seen _ _ G).
Qed.

Lemma stepg_eq g i p m' p' :
  nth_error (thr (gs g)) i = Some p -> tstep (mm (gs g)) p = (m', p') ->
  stepg g i = {| gs := {| mm := m'; thr := set_nth i p' (thr (gs g)) |};
                 ver := if cas_ok (mm (gs g)) p then S (ver g) else ver g;
                 seen := if loads_head p then (fun j => if Nat.eqb j i then ver g else seen g j) else seen g |}.
Proof. intros Hp Et. unfold stepg, step. rewrite Hp, Et. reflexivity. Qed.

Ltac red_t H :=
  cbn [tstep fst snd pc todo held res dead lost mk mkh finish enter_loop after_push
       m_size m_head m_tail m_counter m_cpb m_n m_base m_len s_cap s_size s_start s_next s_flag
       set_size set_head set_tail set_counter set_ssize set_sstart set_snext set_sflag negb] in H.
Ltac red_g :=
  cbn [pc todo held res dead lost mk mkh finish owned pcown pend app cas_ok loads_head
       m_size m_head m_tail m_counter m_cpb m_n m_base m_len s_cap s_size s_start s_next s_flag
       set_size set_head set_tail set_counter set_ssize set_sstart set_snext set_sflag].
Ltac same := repeat split; reflexivity.
Ltac thok := split; [eassumption | assumption].
Ltac gseen G := apply (g_seen _ _ G).

Lemma hd_in (l : list Z) : l <> [] -> In (hd 0 l) l.
Proof. destruct l; [congruence|left; reflexivity]. Qed.

Lemma step_ginv g C i :
  GInv g C -> stale_success g i = false -> exists C', GInv (stepg g i) C'.
Proof.
  intros G Hss. destruct (nth_error (thr (gs g)) i) as [p|] eqn:Hp.
  2: { exists C. unfold stepg. rewrite Hp. exact G. }
  destruct (g_pc _ _ G i p Hp) as [Hpc [[Htd Hpcn] Hlost]].
  destruct (tstep (mm (gs g)) p) as [m' p'] eqn:Et.
  destruct (tstep_count _ _ _ _ (conj Htd Hpcn) Et) as [_ [_ Hok']].
  rewrite (stepg_eq g i p m' p' Hp Et).
  unfold stale_success in Hss; rewrite Hp in Hss.
  pose proof (g_geom _ _ G) as [Hgn Hgc]. pose proof (g_ne _ _ G) as Hne.
  pose proof (g_head _ _ G) as Hhead. pose proof (g_tail _ _ G) as Htail.
  set (m := mm (gs g)) in *.
  unfold pc_ok in Hpc.
  destruct p as [c td hl rs dd ls]. cbn [pc todo held lost] in *.
  destruct c; cbn [pc_nochain] in Hpcn; try discriminate.
  - (* Idle *)
    unfold tstep in Et. cbn [pc todo held res dead lost] in Et.
    unfold loads_head. cbn [pc todo held cas_ok].
    pose proof (normalize_nochain hl td Htd) as Hnn.
    destruct (normalize hl td) as [|o r] eqn:En.
    + injection Et as <- <-. exists C.
      apply (assemble0 g C i _ _ _ _ G Hp); try same; try reflexivity; try thok; try gseen G; try exact I; try assumption.
    + assert (Hh : o <> Alloc -> hl <> []) by (intros; eapply normalize_held; eauto).
      destruct o.
      * (* Alloc *) injection Et as <- <-. exists C.
        apply (assemble0 g C i _ _ _ _ G Hp); try same; try reflexivity; try thok; try gseen G; try exact I; try assumption.
        -- unfold pc_ok; red_g. split.
           ++ apply (ginv_slot_chain _ _ _ G). rewrite Hhead. apply hd_in, Hne.
           ++ intros _. exact Hhead.
        -- intros j Hj. apply Nat.eqb_neq in Hj. rewrite Hj. reflexivity.
        -- rewrite Nat.eqb_refl. lia.
      * (* FreeOldest *) injection Et as <- <-. exists C.
        destruct hl as [|b H']; [exfalso; apply Hh; [discriminate|reflexivity]|].
        apply (assemble0 g C i _ _ _ _ G Hp); try same; try reflexivity; try thok; try gseen G; try exact I; try assumption.
        -- unfold owned; red_g. cbn [hd tl]. rewrite app_nil_r. apply Permutation_sym, Permutation_cons_append.
      * (* FreeNewest *) injection Et as <- <-. exists C.
        destruct (@exists_last _ hl (Hh ltac:(discriminate))) as [H' [b ->]].
        apply (assemble0 g C i _ _ _ _ G Hp); try same; try reflexivity; try thok; try gseen G; try exact I; try assumption.
        -- unfold owned; red_g. rewrite last_last, removelast_last, app_nil_r. reflexivity.
      * (* Update *) injection Et as <- <-. exists C.
        apply (assemble0 g C i _ _ _ _ G Hp); try same; try reflexivity; try thok; try gseen G; try exact I; try assumption.
        -- unfold pc_ok; red_g. apply hd_in. apply Hh. discriminate.
      * (* FreeChain *) cbn [forallb op_nochain andb] in Hnn. discriminate.
  - (* PopFaa *)
    destruct Hpc as [Hsl Hfr]. destruct (slot_valid m oh Hgn Hgc Hsl) as [Hv _].
    red_t Et. unfold enter_loop in Et. rewrite retry_pos, Hv in Et. injection Et as <- <-.
    exists C. destruct (m_size m - 1 <=? 0).
    + apply (assemble0 g C i _ _ _ _ G Hp); try same; try reflexivity; try thok; try gseen G; try exact I; try assumption.
    + apply (assemble0 g C i _ _ _ _ G Hp); try same; try reflexivity; try thok; try gseen G; try exact I; try assumption.
  - (* PopRestore *)
    red_t Et. injection Et as <- <-. exists C.
    apply (assemble0 g C i _ _ _ _ G Hp); try same; try reflexivity; try thok; try gseen G; try exact I; try assumption.
  - (* PopLoop *)
    destruct Hpc as [Hsl Hfr]. red_t Et. injection Et as <- <-. exists C.
    destruct (has_next (s_flag m oh)) eqn:Ef.
    + apply (assemble0 g C i _ _ _ _ G Hp); try same; try reflexivity; try thok; try gseen G; try exact I; try assumption.
      unfold pc_ok; red_g. split; auto.
    + apply (assemble0 g C i _ _ _ _ G Hp); try same; try reflexivity; try thok; try gseen G; try exact I; try assumption.
  - (* PopNext *)
    destruct Hpc as [Hsl Hfr]. red_t Et. injection Et as <- <-. exists C.
    apply (assemble0 g C i _ _ _ _ G Hp); try same; try reflexivity; try thok; try gseen G; try exact I; try assumption.
    unfold pc_ok; red_g. split; auto. intros F. destruct (Hfr F) as [Eoh Hf]. split; auto.
    destruct C as [|c0 [|c1 C1]]; [congruence| |].
    * cbn [hd] in Eoh. subst c0. pose proof (g_last _ _ G) as Hl. cbn [last] in Hl. fold m in Hl. congruence.
    * cbn [hd] in Eoh. subst c0. exists C1. f_equal. f_equal.
      destruct (g_link _ _ G oh c1 (ex_intro _ [] (ex_intro _ C1 eq_refl))) as [L1 _]. symmetry. apply L1. exact Hf.
  - (* PopCas *)
    destruct Hpc as [Hsl Hfr]. red_t Et. red_g. destruct (m_head m =? oh) eqn:Ecas.
    + injection Et as <- <-. cbn [cas_ok pc] in Hss. rewrite Ecas in Hss. cbn [andb] in Hss. apply negb_false_iff, Nat.eqb_eq in Hss.
      destruct (Hfr Hss) as [Hf [C1 EC]]. exists (nx :: C1).
      assert (Hstale : forall j, seen g j <> S (ver g)) by (intros j; pose proof (g_seen _ _ G j); lia).
      apply (assemble g C i _ _ _ (nx :: C1) _ _ G Hp); try same; try reflexivity; try thok; red_g; auto.
      * discriminate.
      * rewrite Htail, EC. reflexivity.
      * unfold owned; red_g. rewrite EC, app_nil_r. rewrite app_assoc.
        apply Permutation_sym. apply (Permutation_cons_append ((nx :: C1) ++ hl) oh).
      * intros x y Ha. assert (Ha' : adj x y C) by (rewrite EC; apply adj_cons; exact Ha).
        destruct (g_link _ _ G x y Ha') as [L1 L2]. split; auto.
      * rewrite <- (g_last _ _ G). rewrite EC. reflexivity.
      * intros j q Hj Hq Hqpc _ _. eapply pc_ok_chain; try exact Hqpc; try reflexivity.
        -- intros F. exfalso. apply (Hstale j F).
        -- intros x y Ha Hfx. rewrite EC in Ha. destruct (adj_head2 _ _ _ _ _ Ha) as [[-> _]|Ha']; [|exact Ha'].
           change (has_next (s_flag m oh) = false) in Hfx. congruence.
      * intros j. pose proof (g_seen _ _ G j). lia.
    + injection Et as <- <-. exists C.
      apply (assemble0 g C i _ _ _ _ G Hp); try same; try reflexivity; try thok; try gseen G; try exact I; try assumption.
  - (* PopReload *)
    assert (Hsl : slot (m_head m)) by (apply (ginv_slot_chain _ _ _ G); rewrite Hhead; apply hd_in, Hne).
    destruct (slot_valid m _ Hgn Hgc Hsl) as [Hv _].
    red_t Et. unfold enter_loop in Et. fold m in Et. rewrite Hv in Et. injection Et as <- <-. exists C. red_g.
    destruct (i0 + 1 <? c_popRetryBound).
    + apply (assemble0 g C i _ _ _ _ G Hp); try same; try reflexivity; try thok; try exact I; try assumption.
      * unfold pc_ok; red_g. auto.
      * intros j Hj. apply Nat.eqb_neq in Hj. rewrite Hj. reflexivity.
      * rewrite Nat.eqb_refl. lia.
    + apply (assemble0 g C i _ _ _ _ G Hp); try same; try reflexivity; try thok; try exact I; try assumption.
      * intros j Hj. apply Nat.eqb_neq in Hj. rewrite Hj. reflexivity.
      * rewrite Nat.eqb_refl. lia.
  - (* PopChk *)
    red_t Et. injection Et as <- <-. exists C.
    destruct (m_size m <=? 1);
      apply (assemble0 g C i _ _ _ _ G Hp); try same; try reflexivity; try thok; try gseen G; try exact I; try assumption.
  - (* PopClr *)
    red_t Et. injection Et as <- <-. exists C.
    apply (assemble1 g C i _ _ _ oh G Hp); try same; try reflexivity; try thok; try exact I.
    + unfold owned; red_g. apply in_or_app; right; left; reflexivity.
    + intros o Ho; red_g; rewrite ?fupd_other by exact Ho; split; reflexivity.
  - (* PopUse1 *)
    red_t Et. injection Et as <- <-. exists C.
    apply (assemble0 g C i _ _ _ _ G Hp); try same; try reflexivity; try thok; try gseen G; try exact I; try assumption.
  - (* PopUse2 *)
    red_t Et. injection Et as <- <-. exists C.
    apply (assemble1 g C i _ _ _ oh G Hp); try same; try reflexivity; try thok; try exact I.
    + unfold owned; red_g. apply in_or_app; right; left; reflexivity.
    + intros o Ho; red_g; rewrite ?fupd_other by exact Ho; split; reflexivity.
  - (* PopCnt *)
    red_t Et. injection Et as <- <-. exists C.
    apply (assemble0 g C i _ _ _ _ G Hp); try same; try reflexivity; try thok; try gseen G; try exact I; try assumption.
  - (* PopRcpb *)
    assert (Hsl : slot oh).
    { apply (ginv_slot_owned _ _ _ _ _ G Hp). unfold owned; red_g. apply in_or_app; right; left; reflexivity. }
    destruct (slot_valid m oh Hgn Hgc Hsl) as [_ Hv].
    red_t Et. rewrite Hv in Et. injection Et as <- <-. exists C.
    apply (assemble0 g C i _ _ _ _ G Hp); try same; try reflexivity; try thok; try gseen G; try exact I; try assumption.
  - (* PopRcap *)
    red_t Et. injection Et as <- <-. exists C.
    apply (assemble0 g C i _ _ _ _ G Hp); try same; try reflexivity; try thok; try gseen G; try exact I; try assumption.
  - (* PopRstart *)
    red_t Et. injection Et as <- <-. exists C.
    apply (assemble0 g C i _ _ _ _ G Hp); try same; try reflexivity; try thok; try gseen G; try exact I; try assumption.
  - (* PopRsize *)
    red_t Et. injection Et as <- <-. exists C.
    apply (assemble0 g C i _ _ _ _ G Hp); try same; try reflexivity; try thok; try gseen G; try exact I; try assumption.
    unfold owned; red_g. rewrite app_nil_r. reflexivity.
  - (* PushR2 *)
    destruct k; [discriminate|]. red_t Et. injection Et as <- <-. exists C.
    apply (assemble0 g C i _ _ _ _ G Hp); try same; try reflexivity; try thok; try gseen G; try exact I; try assumption.
  - (* PushR3 *)
    destruct k; [discriminate|]. red_t Et. injection Et as <- <-. exists C.
    apply (assemble1 g C i _ _ _ b G Hp); try same; try reflexivity; try thok; try exact I.
    + unfold owned; red_g. apply in_or_app; right; left; reflexivity.
    + intros o Ho; red_g; rewrite ?fupd_other by exact Ho; split; reflexivity.
    + unfold pc_ok; red_g. rewrite fupd_same. apply has_next_zero.
  - (* PushTail *)
    destruct k; [discriminate|]. red_t Et. injection Et as <- <-. exists C.
    apply (assemble0 g C i _ _ _ _ G Hp); try same; try reflexivity; try thok; try gseen G; try exact I; try assumption.
  - (* PushCas *)
    destruct k; [discriminate|]. red_t Et. red_g. destruct (m_tail m =? ot) eqn:Ecas.
    + apply Z.eqb_eq in Ecas.
      assert (Hot : ot = last C 0) by congruence.
      assert (Hsl : slot ot) by (apply (ginv_slot_chain _ _ _ G); rewrite Hot; apply last_in, Hne).
      destruct (slot_valid m ot Hgn Hgc Hsl) as [Hv _]. rewrite Hv in Et. red_t Et. injection Et as <- <-.
      exists (C ++ [b]).
      pose proof (ginv_nodup_chain _ _ G) as HndC.
      apply (assemble g C i _ _ _ (C ++ [b]) _ _ G Hp); try same; try reflexivity; try thok; red_g; try gseen G.
      * destruct C; discriminate.
      * rewrite hd_app_ne by exact Hne. exact Hhead.
      * rewrite last_last. reflexivity.
      * unfold owned; red_g. rewrite !app_nil_r, <- app_assoc. apply Permutation_app_head. apply Permutation_app_comm.
      * right; right. exists ot. repeat split; auto. intros Hin.
        destruct (ginv_pend_adj _ _ _ G Hin) as [y Hy]. apply (adj_not_last _ _ _ HndC Hy). exact Hot.
      * intros x y Ha. destruct (adj_snoc_inv _ _ _ _ Ha) as [Ha'|[_ [-> ->]]].
        -- destruct (g_link _ _ G x y Ha') as [L1 L2]. split; auto.
        -- pose proof (g_last _ _ G) as Hl. fold m in Hl. split; [congruence|]. intros _. left. left. exact Hot.
      * rewrite last_last. exact Hpc.
      * unfold pc_ok; red_g. split.
        -- rewrite Hot. apply adj_last. exact Hne.
        -- rewrite Hot. apply (g_last _ _ G).
      * intros j q Hj Hq Hqpc _ _. eapply pc_ok_chain; try exact Hqpc; try reflexivity.
        -- intros F. split; [exact F|]. split; [apply hd_app_ne; exact Hne|].
           intros oh nx C1 ->. exists (C1 ++ [b]). reflexivity.
        -- intros x y Ha _. apply adj_snoc. exact Ha.
    + injection Et as <- <-. exists C.
      apply (assemble0 g C i _ _ _ _ G Hp); try same; try reflexivity; try thok; try gseen G; try exact I; try assumption.
  - (* PushL1 *)
    destruct k; [contradiction|]. destruct Hpc as [Hadj Hfl]. red_t Et. injection Et as <- <-. exists C.
    pose proof (adj_in _ _ _ Hadj) as [HotC _].
    apply (assemble g C i _ _ _ C _ _ G Hp); try same; try reflexivity; try thok; red_g; try gseen G; try assumption.
    + left; reflexivity.
    + intros x y Ha. destruct (g_link _ _ G x y Ha) as [L1 L2]. fold m in L1, L2. split.
      * intros Hf. destruct (Z.eq_dec x ot) as [->|Hx]; [congruence|]. rewrite fupd_other by exact Hx. auto.
      * intros Hf. destruct (Z.eq_dec x ot) as [->|Hx]; [left; left; reflexivity|].
        right. split; auto. intros [E|[]]. congruence.
    + apply (g_last _ _ G).
    + unfold pc_ok; red_g. rewrite fupd_same. auto.
    + intros j q Hj Hq Hqpc Hdo Hdp. apply (pc_ok_write m _ C _ q ot); try assumption.
      * intros o Ho; red_g; rewrite ?fupd_other by exact Ho; split; reflexivity.
      * right. red_g. auto.
      * intros Hi. apply (ginv_owned_not_chain g C j q ot G Hq); [|exact HotC].
        unfold owned. apply in_or_app; right; exact Hi.
      * apply Hdp. left; reflexivity.
  - (* PushL2 *)
    destruct k; [contradiction|]. red_t Et. injection Et as <- <-. exists C.
    apply (assemble0 g C i _ _ _ _ G Hp); try same; try reflexivity; try thok; try gseen G; try exact I; try assumption.
  - (* PushL3 *)
    destruct k; [contradiction|]. destruct Hpc as [Hadj [Hfl Hnx]]. red_t Et. injection Et as <- <-. exists C.
    pose proof (adj_in _ _ _ Hadj) as [HotC _]. pose proof (ginv_nodup_chain _ _ G) as HndC.
    apply (assemble g C i _ _ _ C _ _ G Hp); try same; try reflexivity; try thok; red_g; try gseen G; try assumption.
    + right; left; reflexivity.
    + intros x y Ha. destruct (g_link _ _ G x y Ha) as [L1 L2]. fold m in L1, L2.
      destruct (Z.eq_dec x ot) as [->|Hx].
      * rewrite fupd_same, has_next_set. split; [|discriminate]. intros _. rewrite Hnx. apply (adj_fun ot b y C HndC Hadj Ha).
      * rewrite fupd_other by exact Hx. split; auto. intros Hf. right. split; auto. intros [E|[]]. congruence.
    + rewrite fupd_other; [apply (g_last _ _ G)|]. intros E. apply (adj_not_last _ _ _ HndC Hadj). auto.
    + intros j q Hj Hq Hqpc Hdo Hdp. apply (pc_ok_write m _ C _ q ot); try assumption.
      * intros o Ho; red_g; rewrite ?fupd_other by exact Ho; split; reflexivity.
      * right. red_g. intros _. rewrite fupd_same. apply has_next_set.
      * intros Hi. apply (ginv_owned_not_chain g C j q ot G Hq); [|exact HotC].
        unfold owned. apply in_or_app; right; exact Hi.
      * apply Hdp. left; reflexivity.
  - (* PushSz *)
    destruct k; [contradiction|]. red_t Et. injection Et as <- <-. exists C.
    apply (assemble0 g C i _ _ _ _ G Hp); try same; try reflexivity; try thok; try gseen G; try exact I; try assumption.
  - (* PushCnt *)
    destruct k; [contradiction|]. red_t Et. injection Et as <- <-. exists C.
    apply (assemble0 g C i _ _ _ _ G Hp); try same; try reflexivity; try thok; try gseen G; try exact I; try assumption.
  - (* UpdStart *)
    red_t Et. injection Et as <- <-. exists C. destruct lk.
    + apply (assemble0 g C i _ _ _ _ G Hp); try same; try reflexivity; try thok; try gseen G; try exact I; try assumption.
    + apply (assemble0 g C i _ _ _ _ G Hp); try same; try reflexivity; try thok; try gseen G; try exact I; try assumption.
  - (* UpdNext *)
    red_t Et. injection Et as <- <-. exists C.
    apply (assemble1 g C i _ _ _ b G Hp); try same; try reflexivity; try thok; try exact I; try assumption.
    + unfold owned; red_g. apply in_or_app; left; assumption.
    + intros o Ho; red_g; rewrite ?fupd_other by exact Ho; split; reflexivity.
  - (* UpdF1 *)
    red_t Et. injection Et as <- <-. exists C.
    apply (assemble0 g C i _ _ _ _ G Hp); try same; try reflexivity; try thok; try gseen G; try exact I; try assumption.
  - (* UpdF2 *)
    red_t Et. injection Et as <- <-. exists C.
    apply (assemble1 g C i _ _ _ b G Hp); try same; try reflexivity; try thok; try exact I; try assumption.
    + unfold owned; red_g. apply in_or_app; left; assumption.
    + intros o Ho; red_g; rewrite ?fupd_other by exact Ho; split; reflexivity.
Qed.

(* ----- the initial state ----- *)
Lemma linked_adj m L x y : linked m L -> adj x y L -> has_next (s_flag m x) = true /\ s_next m x = y.
Proof.
  intros Hl [A [B ->]]. induction A as [|a A IH]; cbn [app] in *.
  - destruct Hl as [H1 [H2 _]]. auto.
  - apply IH. destruct (A ++ x :: y :: B) eqn:E; [destruct A; discriminate|]. apply Hl.
Qed.

Lemma linked_last m L : L <> [] -> linked m L -> has_next (s_flag m (last L 0)) = false.
Proof.
  induction L as [|a L IH]; [congruence|]. intros _ Hl. destruct L as [|b L'].
  - exact Hl.
  - change (last (a :: b :: L') 0) with (last (b :: L') 0). apply IH; [discriminate|]. apply Hl.
Qed.

Lemma adj_linked m L :
  L <> [] -> (forall x y, adj x y L -> has_next (s_flag m x) = true /\ s_next m x = y) ->
  has_next (s_flag m (last L 0)) = false -> linked m L.
Proof.
  induction L as [|a L IH]; [congruence|]. intros _ Ha Hl. destruct L as [|b L'].
  - exact Hl.
  - destruct (Ha a b (ex_intro _ [] (ex_intro _ L' eq_refl))) as [H1 H2].
    cbn [linked]. split; [exact H1|split; [exact H2|]]. apply IH; [discriminate| |exact Hl].
    intros x y Hxy. apply Ha. apply adj_cons. exact Hxy.
Qed.

Definition t_init (t : list fop) : tlocal := {| pc := Idle; todo := t; held := []; res := []; dead := false; lost := 0 |}.

Lemma init_thr base len progs : thr (init n cpb base len progs) = map t_init progs.
Proof. reflexivity. Qed.

Lemma init_owned progs : all_owned (map t_init progs) = [] /\ all_pend (map t_init progs) = [].
Proof. induction progs as [|a l [IH1 IH2]]; [split; reflexivity|]. cbn [map all_owned all_pend flat_map] in *. 
  unfold all_owned, all_pend in *. rewrite IH1, IH2. split; reflexivity. Qed.

Lemma ginit_inv base len progs :
  progs_nochain progs -> GInv (ginit (init n cpb base len progs)) (L0 n cpb).
Proof.
  intros Hnc. pose proof (init_rep n cpb base len Hn Hcpb) as R.
  destruct (init_owned progs) as [EO EP].
  constructor; cbn [ginit gs ver seen]; rewrite ?init_thr, ?EO, ?EP.
  - apply (r_ne _ _ _ R).
  - apply (r_head _ _ _ R).
  - apply (r_tail _ _ _ R).
  - split; reflexivity.
  - rewrite app_nil_r. reflexivity.
  - intros x y Ha. destruct (linked_adj _ _ _ _ (r_link _ _ _ R) Ha) as [H1 H2]. cbn [init mm]. split; [auto|congruence].
  - apply linked_last; [apply (r_ne _ _ _ R)|apply (r_link _ _ _ R)].
  - constructor.
  - intros j p Hj. rewrite nth_error_map in Hj. destruct (nth_error progs j) as [t|] eqn:E; [|discriminate].
    injection Hj as <-. split; [exact I|]. split; [|reflexivity]. split; [|reflexivity].
    apply Hnc. eapply nth_error_In; eauto.
  - intros j. lia.
Qed.

(* ----- every ABA-free execution ----- *)
Lemma rung_inv sched : forall g C,
  GInv g C -> aba_free sched g = true -> exists C', GInv (rung sched g) C'.
Proof.
  induction sched as [|i r IH]; intros g C G Ha.
  - exists C. exact G.
  - cbn [aba_free] in Ha. apply andb_true_iff in Ha. destruct Ha as [H1 H2]. apply negb_true_iff in H1.
    destruct (step_ginv g C i G H1) as [C1 G1]. unfold rung. cbn [fold_left]. apply (IH _ C1 G1 H2).
Qed.

Theorem aba_free_invariant base len progs sched :
  progs_nochain progs -> aba_free sched (ginit (init n cpb base len progs)) = true ->
  exists C, GInv (rung sched (ginit (init n cpb base len progs))) C.
Proof. intros Hnc Ha. eapply rung_inv; [apply ginit_inv; exact Hnc|exact Ha]. Qed.

(* ----- conclusions ----- *)
Lemma owned_split l :
  Permutation (all_owned l) (flat_map held l ++ flat_map (fun p => pcown (pc p)) l).
Proof.
  induction l as [|p l IH]; [constructor|]. unfold all_owned in *. cbn [flat_map]. unfold owned at 1.
  rewrite <- !app_assoc. apply Permutation_app_head.
  eapply Permutation_trans; [apply Permutation_app_head; exact IH|]. apply Permutation_app_swap_app.
Qed.

Lemma slot_is_slot m o : m_n m = n -> m_cpb m = cpb -> slot o -> is_slot m o = true.
Proof.
  intros En Ec Ho. apply slots0_in in Ho. destruct Ho as [i [Hi ->]].
  unfold is_slot, stride. rewrite En, Ec. set (st := cpb + c_bufferHeaderSize).
  assert (0 < st) by apply stride_pos.
  rewrite Z_mod_mult, Z.eqb_refl, andb_true_r. apply andb_true_iff; split; [apply Z.leb_le|apply Z.ltb_lt]; nia.
Qed.

(* C01 for ABA-free executions: at every moment the buffers held by all threads (and those in the hands
   of an unfinished pop or push) are pairwise distinct slots of the region *)
Lemma ginv_no_double_ownership g C : GInv g C ->
  NoDup (all_held (gs g)) /\ (forall x, In x (all_held (gs g)) -> slot x) /\
  nodupb (all_held (gs g)) = true /\ forallb (is_slot (mm (gs g))) (all_held (gs g)) = true.
Proof.
  intros G. pose proof (ginv_nodup _ _ G) as Hnd. apply NoDup_app_r in Hnd.
  assert (Hnh : NoDup (all_held (gs g))).
  { eapply NoDup_app_l. eapply Permutation_NoDup; [apply owned_split|exact Hnd]. }
  assert (Hsl : forall x, In x (all_held (gs g)) -> slot x).
  { intros x Hx. unfold slot. eapply Permutation_in; [apply (g_perm _ _ G)|]. apply in_or_app; right.
    eapply Permutation_in; [apply Permutation_sym, owned_split|]. apply in_or_app; left; exact Hx. }
  destruct (g_geom _ _ G) as [En Ec].
  repeat split; auto.
  - apply nodupb_true; exact Hnh.
  - apply forallb_forall. intros x Hx. apply slot_is_slot; auto.
Qed.

Theorem aba_free_no_double_ownership base len progs sched :
  progs_nochain progs -> aba_free sched (ginit (init n cpb base len progs)) = true ->
  let s := run sched (init n cpb base len progs) in
  nodupb (all_held s) = true /\ forallb (is_slot (mm s)) (all_held s) = true.
Proof.
  intros Hnc Ha s. destruct (aba_free_invariant base len progs sched Hnc Ha) as [C G].
  destruct (ginv_no_double_ownership _ _ G) as [_ [_ [H1 H2]]]. rewrite gs_rung in H1, H2. cbn [ginit gs] in H1, H2.
  split; assumption.
Qed.

(* C02 for ABA-free executions: when every thread has finished and nothing is held, the free count is
   the capacity and the walk from head visits every slot exactly once and ends at tail *)
Lemma finished_idle p : finished p = true -> pc p = Idle.
Proof. unfold finished. destruct (pc p); try discriminate. reflexivity. Qed.

Lemma all_idle_lists l : (forall p, In p l -> pc p = Idle) ->
  all_owned l = flat_map held l /\ all_pend l = [].
Proof.
  induction l as [|p l IH]; intros H; [split; reflexivity|].
  destruct (IH (fun q Hq => H q (or_intror Hq))) as [E1 E2]. unfold all_owned, all_pend in *. cbn [flat_map].
  rewrite E1, E2. unfold owned. rewrite (H p (or_introl eq_refl)). cbn [pcown pend]. rewrite app_nil_r. split; reflexivity.
Qed.

Lemma held_nil_nheld l : flat_map held l = [] -> nheld l = 0.
Proof.
  induction l as [|p l IH]; [reflexivity|]. cbn [flat_map nheld fold_right]. intros H.
  apply app_eq_nil in H. destruct H as [H1 H2]. rewrite H1. cbn [length]. unfold nheld in IH. rewrite (IH H2). reflexivity.
Qed.

Lemma whole_of_linked m C :
  C <> [] -> linked m C -> Permutation C (L0 n cpb) -> m_n m = n -> m_cpb m = cpb ->
  m_head m = hd 0 C -> m_tail m = last C 0 -> chain_whole m = true.
Proof.
  intros Hne Hl P En Ec Hh Ht.
  assert (Hlen : Z.of_nat (length C) = n) by (rewrite (Permutation_length P); apply L0_length; lia).
  assert (Hsl : forall o, In o C -> slot o) by (intros o Ho; unfold slot; eapply Permutation_in; eauto).
  assert (Hnd : NoDup C) by (eapply Permutation_NoDup; [apply Permutation_sym; exact P|apply L0_nodup]).
  unfold chain_whole. rewrite Hh. rewrite (walk_linked m C); auto.
  - rewrite Hlen, En, Z.eqb_refl. cbn [andb]. rewrite (nodupb_true _ Hnd). cbn [andb].
    rewrite (last_indep C (-1) 0) by exact Hne. rewrite Ht, Z.eqb_refl, andb_true_r.
    apply forallb_forall. intros o Ho. apply slot_is_slot; auto.
  - intros o Ho. apply (slot_valid m o En Ec (Hsl o Ho)).
  - rewrite En. lia.
Qed.

Lemma ginv_quiescent g C : GInv g C ->
  forallb finished (thr (gs g)) = true -> all_held (gs g) = [] ->
  chain_whole (mm (gs g)) = true /\ all_idle (thr (gs g)) /\ nheld (thr (gs g)) = 0.
Proof.
  intros G Hf Hh. destruct (g_geom _ _ G) as [En Ec].
  assert (Hidle : forall p, In p (thr (gs g)) -> pc p = Idle).
  { intros p Hp. apply finished_idle. eapply forallb_forall in Hf; eauto. }
  destruct (all_idle_lists _ Hidle) as [EO EP]. unfold all_held in Hh.
  pose proof (g_perm _ _ G) as P. rewrite EO, Hh, app_nil_r in P.
  assert (Hidle2 : all_idle (thr (gs g))).
  { intros j p Hj. split; [apply Hidle; eapply nth_error_In; eauto|]. apply (g_pc _ _ G j p Hj). }
  assert (Hnh : nheld (thr (gs g)) = 0) by (apply held_nil_nheld; exact Hh).
  assert (Hlk : linked (mm (gs g)) C).
  { apply adj_linked; [apply (g_ne _ _ G)| |apply (g_last _ _ G)].
    intros x y Ha. destruct (g_link _ _ G x y Ha) as [L1 L2]. rewrite EP in L2.
    destruct (has_next (s_flag (mm (gs g)) x)) eqn:E; [auto|]. destruct (L2 eq_refl). }
  split; [|split; [exact Hidle2|exact Hnh]].
  apply (whole_of_linked _ C); auto; try apply G.
Qed.

Theorem aba_free_quiescent_whole base len progs sched :
  progs_nochain progs -> aba_free sched (ginit (init n cpb base len progs)) = true ->
  let s := run sched (init n cpb base len progs) in
  forallb finished (thr s) = true -> all_held s = [] ->
  m_size (mm s) = n /\ chain_whole (mm s) = true.
Proof.
  intros Hnc Ha s Hf Hh. destruct (aba_free_invariant base len progs sched Hnc Ha) as [C G].
  assert (Es : gs (rung sched (ginit (init n cpb base len progs))) = s) by (rewrite gs_rung; reflexivity).
  destruct (ginv_quiescent _ _ G) as [Hw [Hi Hnh]]; rewrite ?Es; auto.
  rewrite Es in Hw, Hi, Hnh. split; [|exact Hw].
  pose proof (count_exact_at_rest n cpb base len progs sched Hnc Hi) as Hc. fold s in Hc. lia.
Qed.

(* the free slots are never lost either: at every moment of an ABA-free execution the chain together
   with the buffers held and those in the hands of an unfinished pop / push is exactly the set of slots *)
Theorem aba_free_no_slot_lost base len progs sched :
  progs_nochain progs -> aba_free sched (ginit (init n cpb base len progs)) = true ->
  let s := run sched (init n cpb base len progs) in
  exists C, C <> [] /\ m_head (mm s) = hd 0 C /\ m_tail (mm s) = last C 0 /\ Permutation (C ++ all_owned (thr s)) (L0 n cpb).
Proof.
  intros Hnc Ha s. destruct (aba_free_invariant base len progs sched Hnc Ha) as [C G].
  assert (Es : gs (rung sched (ginit (init n cpb base len progs))) = s) by (rewrite gs_rung; reflexivity).
  exists C. rewrite <- Es. repeat split; apply G.
Qed.

(* ----- who may store to a slot header ----- *)
Lemma flat_map_disj {B} (f : tlocal -> list B) l i j p q x :
  NoDup (flat_map f l) -> i <> j -> nth_error l i = Some p -> nth_error l j = Some q ->
  In x (f p) -> ~ In x (f q).
Proof.
  intros Hnd Hij Hp Hq Hx Hxq. destruct (nth_split _ _ _ Hp) as [r1 [r2 [E [Hlen _]]]].
  rewrite E in Hnd, Hq. rewrite flat_map_app in Hnd. cbn [flat_map] in Hnd.
  apply (nodup_mid_out _ _ _ x Hnd Hx).
  assert (Hin : In q (r1 ++ r2)) by (eapply nth_other; eauto; lia).
  apply in_app_or in Hin. destruct Hin as [Hin|Hin]; apply in_or_app; [left|right]; eapply in_flat_map_of; eauto.
Qed.

(* the slot whose header (size / start / next / flag) the next step of the thread stores to *)
Definition store_target (p : tlocal) : option Z :=
  match pc p with
  | Idle => match normalize (held p) (todo p) with
            | FreeOldest :: _ => Some (hd 0 (held p))
            | FreeNewest :: _ => Some (last (held p) 0)
            | Update _ _ :: _ => Some (hd 0 (held p))
            | _ => None
            end
  | PopClr oh | PopUse2 oh _ => Some oh
  | ChPushR1 b _ | PushR2 b _ | PushR3 b _ => Some b
  | PushL1 _ ot _ | PushL3 _ ot _ _ => Some ot
  | UpdStart b _ | UpdNext b _ | UpdF2 b _ => Some b
  | _ => None
  end.

Lemma ginv_store_exclusive g C i p x :
  GInv g C -> nth_error (thr (gs g)) i = Some p -> store_target p = Some x ->
  slot x /\ (In x (owned p) \/ (In x (pend (pc p)) /\ In x C)) /\
  forall j q, j <> i -> nth_error (thr (gs g)) j = Some q -> ~ In x (owned q) /\ ~ In x (pend (pc q)).
Proof.
  intros G Hp Hst. destruct (g_pc _ _ G i p Hp) as [Hpc [[Htd Hpcn] _]].
  assert (Hcase : In x (owned p) \/ (In x (pend (pc p)) /\ In x C)).
  { unfold store_target in Hst. unfold pc_ok in Hpc. unfold owned. destruct (pc p) eqn:Epc; try discriminate; cbn [pcown pend].
    - pose proof (normalize_held (held p) (todo p)) as Hh.
      destruct (normalize (held p) (todo p)) as [|o r]; [discriminate|].
      specialize (Hh o r eq_refl). left. apply in_or_app; left.
      destruct o; try discriminate; injection Hst as <-.
      + apply hd_in. apply Hh. discriminate.
      + apply last_in. apply Hh. discriminate.
      + apply hd_in. apply Hh. discriminate.
    - injection Hst as <-. left. apply in_or_app; right; left; reflexivity.
    - injection Hst as <-. left. apply in_or_app; right; left; reflexivity.
    - injection Hst as <-. left. apply in_or_app; right; left; reflexivity.
    - injection Hst as <-. left. apply in_or_app; right; left; reflexivity.
    - injection Hst as <-. right. destruct k; [contradiction|]. split; [left; reflexivity|]. apply (adj_in _ _ _ (proj1 Hpc)).
    - injection Hst as <-. right. destruct k; [contradiction|]. split; [left; reflexivity|]. apply (adj_in _ _ _ (proj1 Hpc)).
    - injection Hst as <-. left. apply in_or_app; left. exact Hpc.
    - injection Hst as <-. left. apply in_or_app; left. exact Hpc.
    - injection Hst as <-. left. apply in_or_app; left. exact Hpc. }
  pose proof (ginv_nodup _ _ G) as Hnd.
  split; [|split; [exact Hcase|]].
  - destruct Hcase as [Ho|[_ Hc]]; [eapply ginv_slot_owned; eauto|eapply ginv_slot_chain; eauto].
  - intros j q Hj Hq. destruct (g_pc _ _ G j q Hq) as [Hqpc _]. destruct Hcase as [Ho|[Hpe Hc]].
    + split.
      * apply (flat_map_disj owned (thr (gs g)) i j p q x); auto. eapply NoDup_app_r; exact Hnd.
      * intros Hi. destruct (pend_in_chain _ _ _ _ _ Hqpc Hi) as [b Hb].
        apply (ginv_owned_not_chain g C i p x G Hp Ho). apply (adj_in _ _ _ Hb).
    + split.
      * intros Hi. apply (ginv_owned_not_chain g C j q x G Hq Hi). exact Hc.
      * apply (flat_map_disj (fun p => pend (pc p)) (thr (gs g)) i j p q x); auto. apply (g_pend _ _ G).
Qed.

(* C01, foreign-write clause for ABA-free executions: whenever a thread is about to store to the header of
   a slot, that slot is a slot of the region which this thread holds / has just popped / is pushing, or
   it is the free chain slot behind which this thread (and no other) is linking its buffer; no other
   thread holds it, has it in an unfinished pop / push, or is linking behind it *)
Theorem aba_free_no_foreign_write base len progs sched :
  progs_nochain progs -> aba_free sched (ginit (init n cpb base len progs)) = true ->
  let s := run sched (init n cpb base len progs) in
  forall i p x, nth_error (thr s) i = Some p -> store_target p = Some x ->
    is_slot (mm s) x = true /\ (In x (owned p) \/ In x (pend (pc p))) /\
    forall j q, j <> i -> nth_error (thr s) j = Some q -> ~ In x (owned q) /\ ~ In x (pend (pc q)).
Proof.
  intros Hnc Ha s i p x Hp Hst. destruct (aba_free_invariant base len progs sched Hnc Ha) as [C G].
  assert (Es : gs (rung sched (ginit (init n cpb base len progs))) = s) by (rewrite gs_rung; reflexivity).
  rewrite <- Es in Hp. destruct (ginv_store_exclusive _ _ _ _ _ G Hp Hst) as [Hsl [Hc Hex]].
  destruct (g_geom _ _ G) as [En Ec]. rewrite Es in En, Ec, Hex.
  split; [apply slot_is_slot; auto|]. split; [tauto|exact Hex].
Qed.

(* store_target is exact: a step changes no header field of any other slot *)
Lemma tstep_stores m p m' p' :
  tstep m p = (m', p') -> forall o, store_target p <> Some o ->
  s_size m' o = s_size m o /\ s_start m' o = s_start m o /\ s_next m' o = s_next m o /\
  s_flag m' o = s_flag m o /\ s_cap m' o = s_cap m o.
Proof.
  intros H o Ho. unfold tstep in H. unfold store_target in Ho. revert Ho.
  destruct (pc p) eqn:Epc; cbn [pc todo held res dead lost] in H;
    repeat match type of H with
           | context [match ?x with _ => _ end] => destruct x
           | context [if ?x then _ else _] => destruct x
           end; unfold enter_loop, after_push, ch_loop in H;
    repeat match type of H with
           | context [match ?x with _ => _ end] => destruct x
           | context [if ?x then _ else _] => destruct x
           end; inversion H; subst; intros Ho;
    cbn [s_cap s_size s_start s_next s_flag set_size set_head set_tail set_counter set_ssize set_sstart set_snext set_sflag];
    rewrite ?fupd_other by (intros ->; apply Ho; reflexivity); repeat split; reflexivity.
Qed.

End Inv.

(* ---------- when is an execution ABA-free?  One allocating thread suffices ---------- *)
(* If at most one thread ever allocates (any number of threads recycle / update), no head-CAS can be
   stale: head is only changed by that thread's own CAS.  So for such programs the theorems above hold
   for EVERY schedule, without the aba_free hypothesis. *)
Definition is_alloc (o : fop) : bool := match o with Alloc => true | _ => false end.
Definition has_alloc (ops : list fop) : bool := existsb is_alloc ops.
Definition pop_pc (c : fpc) : bool :=
  match c with
  | PopFaa _ | PopRestore | PopLoop _ _ | PopNext _ _ | PopCas _ _ _ | PopReload _ | PopChk _ | PopClr _
  | PopUse1 _ | PopUse2 _ _ | PopCnt _ | PopRcpb _ | PopRcap _ | PopRstart _ | PopRsize _ => true
  | _ => false
  end.
Definition pre_cas (c : fpc) : bool :=
  match c with PopFaa _ | PopLoop _ _ | PopNext _ _ | PopCas _ _ _ => true | _ => false end.

Lemma normalize_no_alloc h ops : has_alloc ops = false -> has_alloc (normalize h ops) = false.
Proof.
  induction ops as [|o r IH]; [auto|]. intros H. cbn [has_alloc existsb] in H. apply orb_false_iff in H. destruct H as [Ho Hr].
  destruct o; cbn [is_alloc] in Ho; try discriminate; cbn [normalize]; destruct h; auto;
    cbn [has_alloc existsb is_alloc orb]; exact Hr.
Qed.

Lemma tl_no_alloc ops : has_alloc ops = false -> has_alloc (tl ops) = false.
Proof. destruct ops; auto. cbn [has_alloc existsb tl]. intros H. apply orb_false_iff in H. apply H. Qed.

Lemma nonpop_step m p m' p' :
  has_alloc (todo p) = false -> pop_pc (pc p) = false -> tstep m p = (m', p') ->
  has_alloc (todo p') = false /\ pop_pc (pc p') = false /\ cas_ok m p = false /\ loads_head p = false.
Proof.
  intros Ha Hpp H. unfold tstep in H. unfold cas_ok, loads_head.
  pose proof (normalize_no_alloc (held p) (todo p) Ha) as Hn.
  pose proof (tl_no_alloc _ Ha) as Ht. pose proof (tl_no_alloc _ Hn) as Hnt.
  destruct (pc p) eqn:Epc; cbn [pop_pc] in Hpp; try discriminate; cbn [pc todo held res dead lost] in H.
  1: { destruct (normalize (held p) (todo p)) as [|o r] eqn:En.
       - inversion H; subst. cbn [todo pc]. auto.
       - destruct o; [cbn [has_alloc existsb is_alloc orb] in Hn; discriminate| | | |];
           unfold ch_loop in H; inversion H; subst; cbn [todo pc mk mkh pop_pc];
           repeat match goal with |- context [if ?x then _ else _] => destruct x end; auto. }
  all: unfold after_push, ch_loop in H;
    repeat match type of H with
           | context [match ?x with _ => _ end] => destruct x
           | context [if ?x then _ else _] => destruct x
           end; inversion H; subst; cbn [todo pc mk mkh finish die die_pop pop_pc has_alloc existsb]; auto.
Qed.

Lemma precas_step m p m' p' :
  tstep m p = (m', p') -> pre_cas (pc p') = true ->
  cas_ok m p = false /\ (loads_head p = true \/ pre_cas (pc p) = true).
Proof.
  intros H. unfold tstep in H. unfold cas_ok, loads_head.
  destruct (pc p) eqn:Epc; cbn [pc todo held res dead lost] in H.
  1: { destruct (normalize (held p) (todo p)) as [|o r] eqn:En.
       - inversion H; subst. cbn [pc pre_cas]. discriminate.
       - destruct o; unfold ch_loop in H; inversion H; subst; cbn [pc mk mkh pre_cas];
           repeat match goal with |- context [if ?x then _ else _] => destruct x end; cbn [pre_cas]; auto; discriminate. }
  all: unfold enter_loop, after_push, ch_loop in H;
    repeat match type of H with
           | context [match ?x with _ => _ end] => destruct x eqn:?
           | context [if ?x then _ else _] => destruct x eqn:?
           end; inversion H; subst; cbn [pc mk mkh finish die die_pop pre_cas]; auto; try discriminate.
Qed.

Definition SP (i0 : nat) (g : gst) : Prop :=
  (forall j p, j <> i0 -> nth_error (thr (gs g)) j = Some p -> has_alloc (todo p) = false /\ pop_pc (pc p) = false) /\
  (forall p, nth_error (thr (gs g)) i0 = Some p -> pre_cas (pc p) = true -> seen g i0 = ver g).

Lemma sp_no_stale i0 g i : SP i0 g -> stale_success g i = false.
Proof.
  intros [H1 H2]. unfold stale_success. destruct (nth_error (thr (gs g)) i) as [p|] eqn:Hp; [|reflexivity].
  destruct (Nat.eq_dec i i0) as [->|Hne].
  - unfold cas_ok. destruct (pc p) eqn:Epc; try reflexivity.
    rewrite (H2 p Hp) by (rewrite Epc; reflexivity). rewrite Nat.eqb_refl. apply andb_false_r.
  - destruct (H1 i p Hne Hp) as [_ Hpp]. unfold cas_ok. destruct (pc p); try reflexivity. discriminate.
Qed.

Lemma sp_step i0 g i : SP i0 g -> SP i0 (stepg g i).
Proof.
  intros [H1 H2]. destruct (nth_error (thr (gs g)) i) as [p|] eqn:Hp.
  2: { unfold stepg. rewrite Hp. split; assumption. }
  destruct (tstep (mm (gs g)) p) as [m' p'] eqn:Et. rewrite (stepg_eq g i p m' p' Hp Et).
  destruct (Nat.eq_dec i i0) as [->|Hne].
  - split; cbn [gs thr ver seen].
    + intros j q Hj Hq. rewrite nth_error_set_nth_neq in Hq by auto. apply (H1 j q Hj Hq).
    + intros q Hq Hpre. rewrite (nth_error_set_nth_eq _ _ _ _ Hp) in Hq. injection Hq as <-.
      destruct (precas_step _ _ _ _ Et Hpre) as [Hc Hor]. rewrite Hc.
      destruct (loads_head p) eqn:El.
      * rewrite Nat.eqb_refl. reflexivity.
      * destruct Hor as [Hor|Hor]; [discriminate|]. apply (H2 p Hp Hor).
  - destruct (H1 i p Hne Hp) as [Ha Hpp].
    destruct (nonpop_step _ _ _ _ Ha Hpp Et) as [Ha' [Hpp' [Hc Hl]]]. rewrite Hc, Hl.
    split; cbn [gs thr ver seen].
    + intros j q Hj Hq. destruct (Nat.eq_dec i j) as [<-|Hij].
      * rewrite (nth_error_set_nth_eq _ _ _ _ Hp) in Hq. injection Hq as <-. auto.
      * rewrite nth_error_set_nth_neq in Hq by auto. apply (H1 j q Hj Hq).
    + intros q Hq. rewrite nth_error_set_nth_neq in Hq by auto. apply (H2 q Hq).
Qed.

Lemma sp_aba_free i0 sched : forall g, SP i0 g -> aba_free sched g = true.
Proof.
  induction sched as [|i r IH]; intros g H; [reflexivity|].
  cbn [aba_free]. rewrite (sp_no_stale i0 g i H). cbn [negb andb]. apply IH. apply sp_step. exact H.
Qed.

Definition single_allocator (i0 : nat) (progs : list (list fop)) : Prop :=
  forall j t, j <> i0 -> nth_error progs j = Some t -> has_alloc t = false.

Theorem single_allocator_aba_free n cpb base len progs i0 sched :
  single_allocator i0 progs -> aba_free sched (ginit (init n cpb base len progs)) = true.
Proof.
  intros Hs. apply (sp_aba_free i0). split; cbn [ginit gs ver seen init thr].
  - intros j p Hj Hq. rewrite nth_error_map in Hq. destruct (nth_error progs j) as [t|] eqn:E; [|discriminate].
    injection Hq as <-. cbn [todo pc pop_pc]. split; [apply (Hs j t Hj E)|reflexivity].
  - reflexivity.
Qed.

(* C01 / C02 for every schedule when only one thread allocates (any number of threads free / update) *)
Theorem single_allocator_no_double_ownership n cpb base len progs i0 sched :
  1 <= n -> 0 <= cpb -> progs_nochain progs -> single_allocator i0 progs ->
  let s := run sched (init n cpb base len progs) in
  nodupb (all_held s) = true /\ forallb (is_slot (mm s)) (all_held s) = true.
Proof.
  intros Hn Hc Hnc Hs. apply (aba_free_no_double_ownership n cpb Hn Hc base len progs sched Hnc).
  apply (single_allocator_aba_free _ _ _ _ _ i0). exact Hs.
Qed.

Theorem single_allocator_quiescent_whole n cpb base len progs i0 sched :
  1 <= n -> 0 <= cpb -> progs_nochain progs -> single_allocator i0 progs ->
  let s := run sched (init n cpb base len progs) in
  forallb finished (thr s) = true -> all_held s = [] ->
  m_size (mm s) = n /\ chain_whole (mm s) = true.
Proof.
  intros Hn Hc Hnc Hs. apply (aba_free_quiescent_whole n cpb Hn Hc base len progs sched Hnc).
  apply (single_allocator_aba_free _ _ _ _ _ i0). exact Hs.
Qed.

(* ---------- every offset an allocation returns is a slot of the region ---------- *)
Lemma tstep_res m p m' p' :
  tstep m p = (m', p') ->
  res p' = res p \/ exists r, res p' = res p ++ [r] /\ forall o, r = RAlloc (Some o) -> pc p = PopRsize o.
Proof.
  intros H. unfold tstep in H.
  destruct (pc p) eqn:Epc; cbn [pc todo held res dead lost] in H;
    repeat match type of H with
           | context [match ?x with _ => _ end] => destruct x
           | context [if ?x then _ else _] => destruct x
           end; unfold enter_loop, after_push, ch_loop in H;
    repeat match type of H with
           | context [match ?x with _ => _ end] => destruct x
           | context [if ?x then _ else _] => destruct x
           end; inversion H; subst; cbn [res mk mkh finish die die_pop]; auto;
    right; eexists; (split; [reflexivity|]); intros o Eo; try discriminate; injection Eo as <-; reflexivity.
Qed.

Definition RInv (n cpb : Z) (g : gst) : Prop :=
  forall j p o, nth_error (thr (gs g)) j = Some p -> In (RAlloc (Some o)) (res p) -> slot n cpb o.

Lemma step_rinv n cpb g C i : 1 <= n -> 0 <= cpb -> GInv n cpb g C -> RInv n cpb g -> RInv n cpb (stepg g i).
Proof.
  intros Hn Hc G R. destruct (nth_error (thr (gs g)) i) as [p|] eqn:Hp.
  2: { unfold stepg. rewrite Hp. exact R. }
  destruct (tstep (mm (gs g)) p) as [m' p'] eqn:Et. rewrite (stepg_eq g i p m' p' Hp Et).
  intros j q o Hq Ho. cbn [gs thr] in Hq. destruct (Nat.eq_dec i j) as [<-|Hij].
  - rewrite (nth_error_set_nth_eq _ _ _ _ Hp) in Hq. injection Hq as <-.
    destruct (tstep_res _ _ _ _ Et) as [E|[r [E Hr]]]; rewrite E in Ho.
    + apply (R i p o Hp Ho).
    + apply in_app_or in Ho. destruct Ho as [Ho|[Ho|[]]]; [apply (R i p o Hp Ho)|].
      specialize (Hr o Ho). apply (ginv_slot_owned n cpb g C i p o G Hp).
      unfold owned. rewrite Hr. apply in_or_app; right; left; reflexivity.
  - rewrite nth_error_set_nth_neq in Hq by auto. apply (R j q o Hq Ho).
Qed.

Lemma rung_inv2 n cpb sched : 1 <= n -> 0 <= cpb -> forall g C,
  GInv n cpb g C -> RInv n cpb g -> aba_free sched g = true ->
  exists C', GInv n cpb (rung sched g) C' /\ RInv n cpb (rung sched g).
Proof.
  intros Hn Hc. induction sched as [|i r IH]; intros g C G R Ha.
  - exists C. split; assumption.
  - cbn [aba_free] in Ha. apply andb_true_iff in Ha. destruct Ha as [H1 H2]. apply negb_true_iff in H1.
    destruct (step_ginv n cpb Hn Hc g C i G H1) as [C1 G1]. unfold rung. cbn [fold_left].
    apply (IH _ C1 G1 (step_rinv n cpb g C i Hn Hc G R) H2).
Qed.

Theorem aba_free_results_are_slots n cpb base len progs sched :
  1 <= n -> 0 <= cpb -> progs_nochain progs ->
  aba_free sched (ginit (init n cpb base len progs)) = true ->
  let s := run sched (init n cpb base len progs) in
  forall j p o, nth_error (thr s) j = Some p -> In (RAlloc (Some o)) (res p) -> is_slot (mm s) o = true.
Proof.
  intros Hn Hc Hnc Ha s j p o Hp Ho.
  assert (R0 : RInv n cpb (ginit (init n cpb base len progs))).
  { intros j0 p0 o0 Hq Hin. cbn [ginit gs init thr] in Hq. rewrite nth_error_map in Hq.
    destruct (nth_error progs j0); [|discriminate]. injection Hq as <-. destruct Hin. }
  destruct (rung_inv2 n cpb sched Hn Hc _ _ (ginit_inv n cpb Hn Hc base len progs Hnc) R0 Ha) as [C [G R]].
  assert (Es : gs (rung sched (ginit (init n cpb base len progs))) = s) by (rewrite gs_rung; reflexivity).
  destruct (g_geom _ _ _ _ G) as [En Ec]. rewrite Es in En, Ec.
  apply (slot_is_slot n cpb Hn Hc); auto. apply (R j p o); [rewrite Es; exact Hp|exact Ho].
Qed.

(* ---------- size accounting: the free count is the chain length minus reservations of poppers that have
   not yet taken (or given back) a slot and minus pushes that have linked but not yet counted ---------- *)
Definition debt (c : fpc) : Z := FreeListProofs.adj c - Z.of_nat (length (pcown c)).
Definition debts (l : list tlocal) : Z := fold_right (fun p a => debt (pc p) + a) 0 l.

Lemma debt_nonneg c : 0 <= debt c.
Proof. unfold debt. destruct c; cbn [FreeListProofs.adj pcown length]; lia. Qed.
Lemma debts_nonneg l : 0 <= debts l.
Proof. induction l as [|p l IH]; cbn [debts fold_right]; [lia|]. pose proof (debt_nonneg (pc p)). unfold debts in IH. lia. Qed.

Lemma total_owned l : (forall p, In p l -> lost p = 0) ->
  total l = Z.of_nat (length (all_owned l)) + debts l.
Proof.
  induction l as [|p l IH]; intros H; [reflexivity|].
  unfold all_owned in *. cbn [total fold_right flat_map debts]. rewrite app_length. unfold owned at 1. rewrite app_length.
  unfold total, debts in IH. rewrite IH by (intros q Hq; apply H; right; exact Hq).
  unfold weight, debt. rewrite (H p (or_introl eq_refl)). lia.
Qed.

Theorem aba_free_size_accounting n cpb base len progs sched :
  1 <= n -> 0 <= cpb -> progs_nochain progs ->
  aba_free sched (ginit (init n cpb base len progs)) = true ->
  let s := run sched (init n cpb base len progs) in
  exists C, C <> [] /\ m_head (mm s) = hd 0 C /\ m_tail (mm s) = last C 0 /\
            m_size (mm s) = Z.of_nat (length C) - debts (thr s) /\ 0 <= debts (thr s).
Proof.
  intros Hn Hc Hnc Ha s. destruct (aba_free_invariant n cpb Hn Hc base len progs sched Hnc Ha) as [C G].
  assert (Es : gs (rung sched (ginit (init n cpb base len progs))) = s) by (rewrite gs_rung; reflexivity).
  exists C. pose proof (g_ne _ _ _ _ G) as H1. pose proof (g_head _ _ _ _ G) as H2. pose proof (g_tail _ _ _ _ G) as H3.
  pose proof (g_perm _ _ _ _ G) as P. rewrite Es in H2, H3, P.
  repeat (split; [assumption|]). split; [|apply debts_nonneg].
  destruct (run_cinv n cpb base len progs sched Hnc) as [Hsum _]. fold s in Hsum.
  rewrite (total_owned (thr s)) in Hsum.
  - apply Permutation_length in P. rewrite app_length in P. pose proof (L0_length n cpb ltac:(lia)). lia.
  - intros p Hp. apply In_nth_error in Hp. destruct Hp as [j Hj]. rewrite <- Es in Hj. apply (g_pc _ _ _ _ G j p Hj).
Qed.

(* ---------- capacity field: never written, by any step of any execution ---------- *)
Lemma tstep_cap m p m' p' : tstep m p = (m', p') ->
  s_cap m' = s_cap m /\ m_cpb m' = m_cpb m /\ m_n m' = m_n m /\ m_base m' = m_base m /\ m_len m' = m_len m.
Proof.
  intros H. unfold tstep in H.
  destruct (pc p) eqn:Epc; cbn [pc todo held res dead lost] in H;
    repeat match type of H with
           | context [match ?x with _ => _ end] => destruct x
           | context [if ?x then _ else _] => destruct x
           end; unfold enter_loop, after_push, ch_loop in H;
    repeat match type of H with
           | context [match ?x with _ => _ end] => destruct x
           | context [if ?x then _ else _] => destruct x
           end; inversion H; subst; repeat split; reflexivity.
Qed.

Theorem run_cap n cpb base len progs sched :
  let s := run sched (init n cpb base len progs) in
  (forall o, s_cap (mm s) o = cpb) /\ m_cpb (mm s) = cpb /\ m_n (mm s) = n.
Proof.
  cbv zeta. unfold run.
  assert (H0 : (forall o, s_cap (mm (init n cpb base len progs)) o = cpb) /\ m_cpb (mm (init n cpb base len progs)) = cpb /\ m_n (mm (init n cpb base len progs)) = n)
    by (repeat split; reflexivity).
  revert H0. generalize (init n cpb base len progs). induction sched as [|i r IH]; intros s H; [exact H|].
  cbn [fold_left]. apply IH. unfold step. destruct (nth_error (thr s) i) as [p|]; [|exact H].
  destruct (tstep (mm s) p) as [m' p'] eqn:Et. destruct (tstep_cap _ _ _ _ Et) as [E1 [E2 [E3 _]]].
  cbn [mm]. rewrite E1, E2, E3. exact H.
Qed.
