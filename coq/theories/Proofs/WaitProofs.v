(* Proofs about Model/Wait.v: no-lost-notification invariants of readMore, timeout-not-early, enough
   data on Ok, stability of an enabled wake-up, Flush's retry bound, AcceptStream/initProtocol.
   (The inductive invariant itself is in Proofs/WaitInv.v.) *)
From Coq Require Import List ZArith Lia Bool Arith.
From Shm Require Import Gen.Consts Model.Wait Proofs.WaitInv.
Import ListNotations.
Open Scope Z_scope.

(* --- the statements --- *)
Lemma no_lost_notify : forall evs, let s := run evs init in
  ((0 < pend s)%nat -> rd_waiting (rd s) = true -> token s = true \/ epc s = true) /\
  (ss s <> SOpen -> closeN s = true \/ ppc s = true \/ lc_mid_open (lc s) = true \/ dpc s = true) /\
  (sclosing s = true -> closeN s = true).
Proof.
  intros evs s. destruct (winv_run evs init winv_init) as [h1 h2 h3 _ _]. fold s in h1, h2, h3. auto.
Qed.

Lemma wake_stable : forall s e, rd s = RParked -> wake_enabled s = true -> is_reader_ev e = false ->
  rd (step s e) = RParked /\ wake_enabled (step s e) = true.
Proof.
  intros s e Hr Hw He.
  destruct s as [pend0 rbuf0 token0 closeN0 ss0 epc0 ppc0 lc0 sclosing0 dpc0 cbmode0 now0 dl0 tmr0 tch0 ptick0 use_t0 armed0 rd0 minsz0 res0].
  cbn in Hr. subst rd0. unfold wake_enabled in *. cbn in Hw.
  destruct e; try discriminate; unfold step; cbn [step_gen]; unfold cb_busy;
    cbn [pend rbuf token closeN ss epc ppc lc sclosing dpc cbmode now dl tmr tch ptick use_t armed rd minsz res];
    brk; cbn; rewrite ?orb_true_r; auto.
  (* Fire: tch becomes true *)
  all: try (split; [reflexivity|]; destruct token0, closeN0, use_t0, tch0; cbn in *; auto).
Qed.

Lemma wake_or_helper : forall evs, let s := run evs init in
  rd s = RParked ->
  ((0 < pend s)%nat \/ ss s <> SOpen \/ sclosing s = true) ->
  wake_enabled s = true \/ helper_pending s = true.
Proof.
  intros evs s Hr Hc. destruct (winv_run evs init winv_init) as [h1 h2 h3 h8 h9].
  fold s in h1, h2, h3, h8, h9. unfold wake_enabled, helper_pending. rewrite Hr in *. cbn in *.
  destruct Hc as [Hc|[Hc|Hc]].
  - destruct (h1 Hc eq_refl) as [E|E]; rewrite E; cbn; rewrite ?orb_true_r; auto.
  - destruct (h2 Hc) as [E|[E|[E|E]]]; [| | |right; rewrite E; rewrite ?orb_true_r; reflexivity].
    + left. rewrite E. rewrite orb_true_r. reflexivity.
    + right. rewrite E. rewrite orb_true_r. reflexivity.
    + right. unfold lc_mid_open in E. destruct (lc s) as [| |o|o|o|o]; try discriminate; destruct o; try discriminate;
        cbn; rewrite ?orb_true_r; reflexivity.
  - left. rewrite (h3 Hc). rewrite orb_true_r. reflexivity.
Qed.

(* the deadline: a parked reader whose deadline has passed has the timer value in its channel, or the runtime
   is at the step that puts it there (FireB), or the expiry itself is enabled (Fire / FireA) *)
Lemma wake_or_helper_deadline : forall evs, let s := run evs init in
  rd s = RParked -> use_t s = true -> armed s <= now s ->
  tch s = true \/ ptick s = true \/ tmr s = Some (armed s).
Proof.
  intros evs s Hr Hu Ha. destruct (tinv_run evs init tinv_init) as [h4 h5 h7].
  fold s in h7. rewrite Hr in h7. apply (h7 eq_refl Hu).
Qed.

(* the death of the session releases a parked reader whatever the state of its stream *)
Lemma session_close_releases : forall evs, let s := run evs init in
  rd s = RParked -> sclosing s = true -> wake_enabled s = true.
Proof.
  intros evs s Hr Hc. destruct (winv_run evs init winv_init) as [_ _ h3 _ _]. fold s in h3.
  unfold wake_enabled. rewrite (h3 Hc). rewrite orb_true_r. reflexivity.
Qed.

(* "a read returns when either end closes the stream": a parked reader whose stream is not open has a
   ready select branch, or the closer is at the step that readies it *)
Definition close_releases_full : Prop :=
  forall evs, let s := run evs init in
    rd s = RParked -> ss s <> SOpen -> wake_enabled s = true \/ helper_pending s = true.

Lemma close_releases : close_releases_full.
Proof. intros evs s Hr Hc. apply (wake_or_helper evs Hr). right. left. exact Hc. Qed.

(* ... and that closer is not held up by the reader: within two of ITS OWN steps, enabled whatever the reader
   does, closeNotifyCh is closed.  In particular, with callbacks installed Stream.close notifies BEFORE it waits
   for the callback goroutine (a reader parked inside OnData cannot block it); without callbacks its clean()
   does not wait for anything. *)
Lemma close_helper_enabled : forall s,
  ppc s = true \/ lc_mid_open (lc s) = true \/ dpc s = true ->
  exists es, (length es <= 2)%nat /\ forallb (fun e => negb (is_reader_ev e)) es = true /\ closeN (run es s) = true.
Proof.
  intros s [H|[H|H]].
  - exists [PClose2]. split; [cbn; lia|]. split; [reflexivity|]. unfold run; cbn [fold_left]. unfold step; cbn [step_gen]. rewrite H. reflexivity.
  - unfold lc_mid_open in H.
    destruct s as [pend0 rbuf0 token0 closeN0 ss0 epc0 ppc0 lc0 sclosing0 dpc0 cbmode0 now0 dl0 tmr0 tch0 ptick0 use_t0 armed0 rd0 minsz0 res0].
    cbn in H. destruct lc0 as [| |o|o|o|o]; try discriminate; destruct o; try discriminate.
    all: try (exists [LNotify]; split; [cbn; lia|]; split; [reflexivity|]; unfold run; cbn [fold_left]; unfold step; cbn [step_gen];
              destruct cbmode0; cbn; rewrite ?orb_true_r; reflexivity).
    (* LCased: with callbacks one step (notify), without callbacks clean then notify *)
    all: destruct cbmode0;
      [ exists [LNotify]; split; [cbn; lia|]; split; [reflexivity|]; unfold run; cbn [fold_left]; unfold step; cbn [step_gen]; cbn; rewrite ?orb_true_r; reflexivity
      | exists [LClean; LNotify]; split; [cbn; lia|]; split; [reflexivity|]; unfold run; cbn [fold_left]; unfold step; cbn [step_gen]; unfold cb_busy; cbn; rewrite ?orb_true_r; reflexivity ].
  - exists [LDefer2]. split; [cbn; lia|]. split; [reflexivity|]. unfold run; cbn [fold_left]. unfold step; cbn [step_gen]. rewrite H. reflexivity.
Qed.

(* REGRESSION: the order of Stream.close before the repair (Wait ; clean ; notify).  Callbacks installed; Close
   has read callbackInProcess == 0; data arrives, the callback goroutine enters OnData which parks in a read for
   more; close() wins its CAS and waits for the callback goroutine BEFORE it would close closeNotifyCh: *)
Definition witness_close_waits_for_ondata : list ev :=
  [SetCb; EAdd 4; EFin; RCall 8; RStep; RStep; RWake BNotify; RStep; LLoad; LCas].

Lemma old_close_order_deadlocks :
  let s := run_old_close witness_close_waits_for_ondata init in
  rd s = RParked /\ ss s = SClosed /\ wake_enabled s = false /\ lc s = LCased SOpen /\
  step_old_close s LClean = s /\ step_old_close s LNotify = s /\ step_old_close s PClose1 = s /\
  step_old_close s PClose2 = s /\ step_old_close s LDefer1 = s /\ step_old_close s LDefer2 = s /\ step_old_close s EFin = s.
Proof. vm_compute. repeat split. Qed.

Lemma new_close_order_releases :
  let s := run (witness_close_waits_for_ondata ++ [LNotify; RWake BClose; RStep; LClean]) init in
  res s = Some RErrClosed /\ lc s = LIdle /\ closeN s = true.
Proof. vm_compute. repeat split. Qed.

Lemma timeout_step : forall s e, TInv s ->
  res (step s e) = Some RErrTimeout -> res s <> Some RErrTimeout ->
  exists d, dl s = Some d /\ d <= now s.
Proof.
  intros s e [h4 h5 h7].
  destruct s as [pend0 rbuf0 token0 closeN0 ss0 epc0 ppc0 lc0 sclosing0 dpc0 cbmode0 now0 dl0 tmr0 tch0 ptick0 use_t0 armed0 rd0 minsz0 res0].
  cbn in h4, h5, h7.
  destruct e; unfold step; cbn [step_gen]; unfold cb_busy, reader_step, wake, take_tick, finish_early, finish_late, move_to, set_rd;
    cbn [pend rbuf token closeN ss epc ppc lc sclosing dpc cbmode now dl tmr tch ptick use_t armed rd minsz res];
    brk; cbn; intros A B; try congruence.
  (* the only case left: the parked select took the timer branch *)
  all: norm; exists armed0; cbn in *; intuition congruence.
Qed.

(* "ErrTimeout is never early", in full: over EVERY schedule, the two-step expiry FireA/FireB included *)
Definition timeout_not_early_full : Prop :=
  forall evs e, let s := run evs init in
    res (step s e) = Some RErrTimeout -> res s <> Some RErrTimeout ->
    exists d, dl s = Some d /\ d <= now s.

Lemma timeout_not_early : timeout_not_early_full.
Proof. intros evs e s. apply timeout_step. apply tinv_run. exact tinv_init. Qed.

(* REGRESSION: the history that refuted the statement while readMore re-armed one shared timer.  First read:
   deadline 10, data arrives just as the timer expires (FireA: Stop() reports false, the value is not in the
   channel yet); the reader is woken by the data and returns; the value lands afterwards (FireB) - in the channel
   of THAT call's timer.  Next read (one more byte), deadline 2010, at time 10: a timer of its own, the select
   has no ready timer branch. *)
Definition witness_stale_tick : list ev :=
  [SetDL (Some 10); RCall 1; RStep; RStep; RStep; Tick 10; EAdd 1; EFin; FireA; RWake BNotify; RStep; FireB;
   SetDL (Some 2010); RCall 2; RStep; RStep].

Lemma stale_tick_regression :
  let s := run witness_stale_tick init in
  rd s = RParked /\ use_t s = true /\ tch s = false /\ step s (RWake BTimer) = s.
Proof. vm_compute. repeat split. Qed.

Lemma enough : forall evs n, let s := run evs init in res s = Some (ROk n) -> (minsz s <= n)%nat.
Proof. intros evs n s. destruct (winv_run evs init winv_init) as [_ _ _ h8 _]. apply h8. Qed.

(* the timer value a parked call can see is in ITS channel only at or after the deadline this call armed
   (no value of an earlier call's timer is ever visible) *)
Lemma timer_sound : forall evs, let s := run evs init in
  rd_pre (rd s) = false -> use_t s = true -> tch s = true -> armed s <= now s /\ dl s = Some (armed s).
Proof.
  intros evs s Hr Hu Ht. destruct (tinv_run evs init tinv_init) as [h4 h5 h7].
  fold s in h7. destruct (h7 Hr Hu) as [A [B _]]. split; [apply B; assumption|assumption].
Qed.

(* ---------------------------------------------------------------------------------------- *)
(* Flush                                                                                      *)
(* ---------------------------------------------------------------------------------------- *)
Lemma flush_loop_spec : forall fuel i env,
  let '(r, k) := flush_loop fuel i env in
  (i <= k <= i + fuel)%nat /\
  (forall j, (i <= j)%nat -> (S j < k)%nat -> env j = FPutFull) /\
  (r = FRQueueFull -> k = (i + fuel)%nat /\ forall j, (i <= j < k)%nat -> env j = FPutFull) /\
  (r <> FRQueueFull -> (i < k)%nat /\ env (pred k) <> FPutFull).
Proof.
  induction fuel as [|f IH]; intros i env; cbn [flush_loop].
  - split; [lia|]. split; [intros; lia|]. split; [intros _; split; [lia|intros; lia]|intro H; congruence].
  - destruct (env i) eqn:E.
    + specialize (IH (S i) env). destruct (flush_loop f (S i) env) as [r k].
      destruct IH as [A [B [C D]]]. split; [lia|]. split.
      * intros j Hj Hk. destruct (Nat.eq_dec j i) as [->|Hne]; [assumption|]. apply B; lia.
      * split.
        -- intro Hr. destruct (C Hr) as [C1 C2]. split; [lia|]. intros j Hj.
           destruct (Nat.eq_dec j i) as [->|Hne]; [assumption|]. apply C2; lia.
        -- intro Hr. destruct (D Hr) as [D1 D2]. split; [lia|assumption].
    + split; [lia|]. split; [intros; lia|]. split; [intro; discriminate|]. intros _. split; [lia|]. cbn. congruence.
    + split; [lia|]. split; [intros; lia|]. split; [intro; discriminate|]. intros _. split; [lia|]. cbn. congruence.
    + split; [lia|]. split; [intros; lia|]. split; [intro; discriminate|]. intros _. split; [lia|]. cbn. congruence.
    + split; [lia|]. split; [intros; lia|]. split; [intro; discriminate|]. intros _. split; [lia|]. cbn. congruence.
Qed.

Lemma flush_bounded : forall first_full env,
  let '(r, k) := flush_retry first_full env in
  (Z.of_nat k <= c_flushRetryBound) /\
  (r = FRQueueFull -> Z.of_nat k = c_flushRetryBound /\ forall j, (j < k)%nat -> env j = FPutFull).
Proof.
  intros ff env. unfold flush_retry. destruct ff.
  - pose proof (flush_loop_spec (Z.to_nat c_flushRetryBound) 0 env) as H.
    destruct (flush_loop (Z.to_nat c_flushRetryBound) 0 env) as [r k]. destruct H as [A [_ [C _]]].
    assert (Hb : 0 <= c_flushRetryBound) by (vm_compute; discriminate).
    split; [lia|]. intro Hr. destruct (C Hr) as [C1 C2]. split; [lia|]. intros j Hj. apply C2. lia.
  - split; [vm_compute; discriminate|]. intro; discriminate.
Qed.

(* ---------------------------------------------------------------------------------------- *)
(* AcceptStream / initProtocol                                                                *)
(* ---------------------------------------------------------------------------------------- *)
Record SInv (s : sst2) : Prop := {
  s_flag : shutdown_flag s = true -> shutdownCh s = true \/ closer s = CFlagged \/ closer s = CNotified;
  s_done : shutdownCh s = true -> shutdown_flag s = true;
  s_cl : closer s <> CIdle -> shutdown_flag s = true;
  s_acc : acc s = WShutdown -> shutdownCh s = true;
  s_itch : itch s = true -> t_start s + t_out s <= now2 s;
  s_ito : ini s = WTimeout -> t_start s + t_out s <= now2 s;
  s_ipark : ini s = WParked -> itmr s = true \/ itch s = true }.

Lemma sinv_init : SInv init2.
Proof. constructor; cbn; intros; try discriminate; auto. Qed.

Ltac brk2 :=
  repeat match goal with
         | |- context [match ?x with WIdle => _ | _ => _ end] => is_var x; destruct x
         | |- context [match ?x with CIdle => _ | _ => _ end] => is_var x; destruct x
         | |- context [match ?x with O => _ | S _ => _ end] => is_var x; destruct x
         | |- context [if ?c then _ else _] => is_var c; destruct c
         | |- context [if ?c then _ else _] => destruct c eqn:?
         end.

Lemma sinv_step : forall s e, SInv s -> SInv (step2 s e).
Proof.
  intros s e [h1 h2 h2' h3 h4 h5 h6].
  destruct s as [aq sf sc cl ac nw ts to ir ic im ii]. cbn in h1, h2, h2', h3, h4, h5, h6.
  destruct e; cbn [step2]; cbn [acceptq shutdown_flag shutdownCh closer acc now2 t_start t_out ires itch itmr ini];
    brk2; constructor; fld.
Qed.

Lemma sinv_run : forall evs s, SInv s -> SInv (run2 evs s).
Proof.
  induction evs as [|e r IH]; intros s HI; [exact HI|].
  change (run2 (e :: r) s) with (run2 r (step2 s e)). apply IH. apply sinv_step. assumption.
Qed.

Lemma session_waiters : forall evs, let s := run2 evs init2 in
  (* IsClosed() implies shutdownCh is closed or Session.Close is on its way to close it *)
  (shutdown_flag s = true -> shutdownCh s = true \/ closer s = CFlagged \/ closer s = CNotified) /\
  (* AcceptStream returns the shutdown error only after shutdown *)
  (acc s = WShutdown -> shutdownCh s = true) /\
  (* once shutdownCh is closed a parked AcceptStream has a ready branch, for ever *)
  (forall e, acc s = WParked -> shutdownCh s = true ->
     (forall b, e <> AccWake b) -> e <> AccCall -> acc (step2 s e) = WParked /\ shutdownCh (step2 s e) = true) /\
  (* initProtocol: the timeout outcome only at or after start + InitializeTimeout; while it waits the
     timer is armed or has fired, so from that time on Fire2 or the timeout branch is enabled *)
  (ini s = WTimeout -> t_start s + t_out s <= now2 s) /\
  (ini s = WParked -> itmr s = true \/ itch s = true).
Proof.
  intros evs s. destruct (sinv_run evs init2 sinv_init) as [h1 h2 h2' h3 h4 h5 h6].
  fold s in h1, h2, h3, h4, h5, h6. repeat split; try assumption.
  - destruct s as [aq sf sc cl ac nw ts to ir ic im ii]. cbn in *. subst.
    destruct e; cbn [step2]; cbn [acceptq shutdown_flag shutdownCh closer acc now2 t_start t_out ires itch itmr ini];
      brk2; cbn; try reflexivity; try congruence.
    all: try (exfalso; eapply H1; reflexivity).
  - destruct s as [aq sf sc cl ac nw ts to ir ic im ii]. cbn in *. subst.
    destruct e; cbn [step2]; cbn [acceptq shutdown_flag shutdownCh closer acc now2 t_start t_out ires itch itmr ini];
      brk2; cbn; try reflexivity; try congruence.
Qed.

(* ---------------------------------------------------------------------------------------- *)
(* the socket-write hand-off and the unbounded slow-path send                                 *)
(* ---------------------------------------------------------------------------------------- *)
Record HInv (s : hs) : Prop := {
  h_spin : sl s = SLSpin -> htok s = true \/ fp s = FPHold \/ fp s = FPNotify;
  h_wr : hwriting s = true <-> (sl s = SLWrite \/ fp s = FPHold);
  h_mutex : ~ (sl s = SLWrite /\ fp s = FPHold) }.

Lemma hinv_init : forall c, HInv (inith c).
Proof.
  intro c. constructor; cbn.
  - discriminate.
  - split; [discriminate|intros [H|H]; discriminate].
  - intros [H _]. discriminate.
Qed.

Lemma hinv_step : forall s e, HInv s -> HInv (steph s e).
Proof.
  intros s e [h1 [h2a h2b] h3]. destruct s as [q c w t l f k]. cbn in h1, h2a, h2b, h3.
  destruct e; cbn [steph sq scap hwriting htok sl fp sock_full];
    repeat match goal with
           | |- context [match ?x with SLIdle => _ | _ => _ end] => is_var x; destruct x
           | |- context [match ?x with FPIdle => _ | _ => _ end] => is_var x; destruct x
           | |- context [match ?x with O => _ | S _ => _ end] => is_var x; destruct x
           | |- context [if ?b then _ else _] => is_var b; destruct b
           | |- context [if ?b then _ else _] => destruct b eqn:?
           end;
    constructor; cbn; try tauto; try (intuition (try congruence; try discriminate)).
Qed.

Lemma hinv_run : forall evs s, HInv s -> HInv (runh evs s).
Proof.
  induction evs as [|e r IH]; intros s HI; [exact HI|].
  change (runh (e :: r) s) with (runh r (steph s e)). apply IH. apply hinv_step. assumption.
Qed.

Lemma handoff : forall c evs, let s := runh evs (inith c) in
  (sl s = SLSpin -> htok s = true \/ fp s = FPHold \/ fp s = FPNotify) /\
  (hwriting s = true <-> (sl s = SLWrite \/ fp s = FPHold)) /\
  ~ (sl s = SLWrite /\ fp s = FPHold).
Proof. intros c evs s. destruct (hinv_run evs (inith c) (hinv_init c)) as [A B C]. fold s in A, B, C. auto. Qed.

Lemma slow_send_blocks_only_when_full : forall s e,
  fp s <> FPBlocked -> fp (steph s e) = FPBlocked -> e = HFpTry /\ hwriting s = true /\ sq s = scap s \/ (scap s < sq s)%nat.
Proof.
  intros s e H1 H2. destruct s as [q c w t l f k]. cbn in H1.
  destruct e; cbn [steph sq scap hwriting htok sl fp sock_full] in H2;
    repeat match type of H2 with
           | context [match ?x with SLIdle => _ | _ => _ end] => is_var x; destruct x
           | context [match ?x with FPIdle => _ | _ => _ end] => is_var x; destruct x
           | context [match ?x with O => _ | S _ => _ end] => is_var x; destruct x
           | context [if ?b then _ else _] => is_var b; destruct b
           | context [if ?b then _ else _] => destruct b eqn:?
           end; cbn [fp sq scap hwriting] in *; try congruence.
  all: try match goal with H : (_ <? _)%nat = false |- _ => apply Nat.ltb_ge in H end.
  all: try (destruct (Nat.eq_dec q c) as [->|?]; [left; auto|right; lia]).
Qed.

Lemma sq_bounded : forall c evs, (sq (runh evs (inith c)) <= c)%nat /\ scap (runh evs (inith c)) = c.
Proof.
  intros c evs. assert (G : forall s, (sq s <= scap s)%nat -> forall evs, (sq (runh evs s) <= scap (runh evs s))%nat /\ scap (runh evs s) = scap s).
  { clear. intros s H evs. revert s H. induction evs as [|e r IH]; intros s H; [cbn; auto|].
    change (runh (e :: r) s) with (runh r (steph s e)).
    assert (H' : (sq (steph s e) <= scap (steph s e))%nat /\ scap (steph s e) = scap s).
    { destruct s as [q c w t l f k]. cbn in H.
      destruct e; cbn [steph sq scap hwriting htok sl fp sock_full];
        repeat match goal with
               | |- context [match ?x with SLIdle => _ | _ => _ end] => is_var x; destruct x
               | |- context [match ?x with FPIdle => _ | _ => _ end] => is_var x; destruct x
               | |- context [match ?x with O => _ | S _ => _ end] => is_var x; destruct x
               | |- context [if ?b then _ else _] => is_var b; destruct b
               | |- context [if ?b then _ else _] => destruct b eqn:?
               end; cbn;
        repeat match goal with H : (_ <? _)%nat = true |- _ => apply Nat.ltb_lt in H end; split; try reflexivity; lia. }
    destruct H' as [A B]. destruct (IH _ A) as [C D]. split; [assumption|congruence]. }
  destruct (G (inith c) ltac:(cbn; lia) evs) as [A B]. cbn in B. rewrite B in A. auto.
Qed.

(* "wakeUpPeer / hotRestart never block", in full *)
Definition wakeup_never_blocks_full : Prop := forall c evs, fp (runh evs (inith c)) <> FPBlocked.

Definition witness_sendch_full : list hev := [HSock true; HEnq; HTake; HEnq; HEnq; HFpTry].

Lemma wakeup_never_blocks_refuted : ~ wakeup_never_blocks_full.
Proof. intro H. apply (H 2%nat witness_sendch_full). vm_compute. reflexivity. Qed.

(* ... and in the state the witness reaches nothing can move until the peer reads its socket again *)
Lemma stuck_until_peer_resumes : forall s e, stuckh s = true -> (forall b, e <> HSock b) -> steph s e = s.
Proof.
  intros s e H Hne. destruct s as [q c w t l f k]. unfold stuckh in H. cbn in H.
  destruct f; try discriminate. destruct l; try discriminate.
  apply andb_prop in H. destruct H as [Hk Hq]. destruct k; try discriminate. apply Nat.eqb_eq in Hq. subst q.
  destruct e; cbn [steph sq scap hwriting htok sl fp sock_full]; try reflexivity.
  - rewrite Nat.ltb_irrefl. reflexivity.
  - rewrite Nat.ltb_irrefl. reflexivity.
  - exfalso. apply (Hne full). reflexivity.
Qed.

Lemma stuck_reachable : stuckh (runh witness_sendch_full (inith 2)) = true.
Proof. vm_compute. reflexivity. Qed.

(* ---------------------------------------------------------------------------------------- *)
(* the peer's close notification is never dropped                                             *)
(* ---------------------------------------------------------------------------------------- *)
Lemma pc_step_inv : forall s e, (pc_notified s = true -> pc_covered s = true) ->
  (pc_notified (pc_step true s e) = true -> pc_covered (pc_step true s e) = true).
Proof.
  intros s e H. destruct s as [cl nt er se dd fb qf sf iq isk gc]. unfold pc_covered in *. cbn in H.
  destruct e; cbn [pc_step].
  - destruct cl; cbn; exact H.
  - cbn [pc_closed pc_notified]. destruct cl, nt; cbn [andb negb]; try (cbn; exact H).
    unfold pc_notify. cbn [pc_closed pc_notified pc_err pc_sockerr pc_dead pc_fallback pc_qfull pc_sockfail in_queue in_sock got_close].
    destruct dd, fb, qf, sf; cbn; intros _; rewrite ?orb_true_r; reflexivity.
  - cbn. exact H.
  - cbn. exact H.
  - cbn. exact H.
  - cbn. intro Hn. rewrite ?orb_true_r. reflexivity.
  - cbn [in_queue]. destruct iq; cbn; [|exact H]. intro Hn. rewrite ?orb_true_r. reflexivity.
  - cbn [in_sock]. destruct isk; cbn; [|exact H]. intro Hn. rewrite ?orb_true_r. reflexivity.
Qed.

Lemma peer_close_notification_in_flight : forall evs, let s := pc_run true evs in
  pc_notified s = true -> pc_covered s = true.
Proof.
  intro evs. unfold pc_run.
  assert (G : forall s, (pc_notified s = true -> pc_covered s = true) ->
              pc_notified (fold_left (pc_step true) evs s) = true -> pc_covered (fold_left (pc_step true) evs s) = true).
  { induction evs as [|e r IH]; intros s H; [exact H|]. cbn [fold_left]. apply IH. apply pc_step_inv. exact H. }
  apply G. cbn. discriminate.
Qed.

(* ---------------------------------------------------------------------------------------- *)
(* peer death reaches Session.Close                                                           *)
(* ---------------------------------------------------------------------------------------- *)
(* every epoll event that carries the hang-up bit calls onRemoteClose, whatever else it carries (data to read,
   write readiness) and whatever a read on the fd would find (data, EAGAIN, EOF or an error such as ECONNRESET) *)
Lemma peer_death_closes_session : forall e rr, EventConn.ev_rdhup e = true -> closes_session e rr = true.
Proof.
  intros e rr H. unfold closes_session, closes_session_with, EventConn.handle_event. rewrite H. reflexivity.
Qed.

(* ... and Session.Close releases a parked reader in every stream state *)
Lemma peer_death_releases : forall e rr evs, EventConn.ev_rdhup e = true ->
  closes_session e rr = true /\
  (let s := run (evs ++ [SClose]) init in rd s = RParked -> wake_enabled s = true).
Proof.
  intros e rr evs H. split; [apply peer_death_closes_session; assumption|].
  intros s Hr. apply (session_close_releases (evs ++ [SClose]) Hr).
  subst s. unfold run. rewrite fold_left_app. cbn [fold_left]. unfold step; cbn [step_gen]. reflexivity.
Qed.

(* an EOF found by onReadReady closes too (an orderly shutdown seen without the hang-up bit) *)
Lemma eof_closes_session : forall e, EventConn.ev_rdhup e = false -> EventConn.ev_in e = true -> closes_session e RdEOF = true.
Proof.
  intros e H1 H2. unfold closes_session, closes_session_with, EventConn.handle_event. rewrite H1, H2.
  destruct (EventConn.ev_out e); reflexivity.
Qed.
