(* Invariants of the multiplexing model (C07): per-transport FIFO, validity and uniqueness of every
   item handed to a transport, the end mark is the last item a writer sends; consequences: isolation /
   no duplication for all schedules and fault patterns, order + end-mark placement for streams that
   use a single transport. *)
From Coq Require Import List ZArith Lia Bool Arith Permutation.
From Shm Require Import Gen.Consts Model.Wakeup Model.Mux Proofs.WakeupProofs.
Import ListNotations.
Open Scope nat_scope.

Definition projV (v : via) (l : list entry) : list item :=
  map fst (filter (fun e => via_eqb (snd e) v) l).
Definition xitems (l : list xev) : list item :=
  flat_map (fun e => match e with XItem x => [x] | XPoll => [] end) l.
Definition lhand (x : mspc) : list item :=
  match x with LCas e | LWait e | LWrite e => xitems [fst e] | _ => [] end.

(* the socket item a handler holds while it empties the queue, then the items still on the connection *)
Definition kheld (c : mcpc) : list item := match c with KFbH x | KFbT x | KFbInc x => [x] | _ => [] end.
Definition sockpart (st : mst) : list item := kheld (mcons st) ++ xitems (msock st).

Definition valid (pr : list mlocal) (x : item) : Prop :=
  exists p, nth_error pr (fst x) = Some p /\
            match snd x with DData k => k < nxt p | DEnd => closed p = true end.

Fixpoint end_last (s : nat) (l : list item) : Prop :=
  match l with
  | [] => True
  | x :: r => (x = (s, DEnd) -> forall y, In y r -> fst y <> s) /\ end_last s r
  end.

Record MInv (st : mst) : Prop := {
  m_fq : projV VQ (deliv st) ++ queue st = projV VQ (flog st);
  m_fs : projV VS (deliv st) ++ sockpart st ++ lhand (msl st) ++ xitems (map fst (msendch st))
         = projV VS (flog st);
  m_valid : forall x, In x (map fst (flog st)) -> valid (mprods st) x;
  m_nodup : NoDup (map fst (flog st));
  m_end : forall s, end_last s (map fst (flog st)) }.

(* ---------- list lemmas ---------- *)
Lemma projV_app v a b : projV v (a ++ b) = projV v a ++ projV v b.
Proof. unfold projV. rewrite filter_app, map_app. reflexivity. Qed.
Lemma xitems_app a b : xitems (a ++ b) = xitems a ++ xitems b.
Proof. unfold xitems. apply flat_map_app. Qed.
Lemma end_last_app s l x :
  end_last s l -> (fst x = s -> ~ In (s, DEnd) l) -> end_last s (l ++ [x]).
Proof.
  induction l as [|a l IH]; simpl; intros H Hx.
  - split; [intros _ y []|exact I].
  - destruct H as [Ha Hl]. split.
    + intros -> y Hy. apply in_app_or in Hy. destruct Hy as [Hy|[<-|[]]]; [apply Ha; auto|].
      intros E. apply (Hx E). left; reflexivity.
    + apply IH; auto. intros E Hin. apply (Hx E). right; exact Hin.
Qed.
Lemma NoDup_app_one {A} (l : list A) x : NoDup l -> ~ In x l -> NoDup (l ++ [x]).
Proof.
  induction l as [|a l IH]; simpl; intros H Hx.
  - constructor; [intros []|constructor].
  - inversion H; subst. constructor.
    + intros Hin. apply in_app_or in Hin. destruct Hin as [Hin|[<-|[]]]; auto.
    + apply IH; auto.
Qed.
Lemma In_projV v x l : In x (projV v l) -> In (x, v) l.
Proof.
  unfold projV. intros H. apply in_map_iff in H. destruct H as [[y w] [<- H]].
  apply filter_In in H. destruct H as [H E]. simpl in *. destruct w, v; simpl in E; try discriminate; exact H.
Qed.
Lemma projV_In v x l : In (x, v) l -> In x (projV v l).
Proof.
  intros H. unfold projV. apply in_map_iff. exists (x, v). split; auto.
  apply filter_In. split; auto. destruct v; reflexivity.
Qed.
Lemma projV_incl v l x : In x (projV v l) -> In x (map fst l).
Proof. intros H. apply In_projV in H. apply in_map_iff. exists (x, v). auto. Qed.
Lemma perm_proj l : Permutation (map fst l) (projV VQ l ++ projV VS l).
Proof.
  induction l as [|[x v] l IH]; simpl; auto. unfold projV in *. simpl. destruct v; simpl.
  - constructor. exact IH.
  - apply Permutation_cons_app. exact IH.
Qed.

(* ---------- validity under updates of a writer's local state ---------- *)
Lemma valid_upd pr i p p' x :
  nth_error pr i = Some p -> nxt p <= nxt p' -> (closed p = true -> closed p' = true) ->
  valid pr x -> valid (set_nth i p' pr) x.
Proof.
  intros Hp Hn Hc [q [Hq Hv]]. unfold valid.
  destruct (Nat.eq_dec i (fst x)) as [E|E].
  - subst i. rewrite Hq in Hp. inversion Hp; subst q. exists p'. split.
    + eapply nth_error_set_nth_eq; eauto.
    + destruct (snd x); auto. lia.
  - exists q. split; auto. rewrite nth_error_set_nth_neq; auto.
Qed.

Lemma fresh_data st i p :
  MInv st -> nth_error (mprods st) i = Some p -> ~ In (i, DData (nxt p)) (map fst (flog st)).
Proof.
  intros H Hp Hin. apply (m_valid st H) in Hin. destruct Hin as [q [Hq Hv]]. simpl in *.
  rewrite Hp in Hq. inversion Hq; subst. lia.
Qed.
Lemma fresh_end st i p :
  MInv st -> nth_error (mprods st) i = Some p -> closed p = false -> ~ In (i, DEnd) (map fst (flog st)).
Proof.
  intros H Hp Hc Hin. apply (m_valid st H) in Hin. destruct Hin as [q [Hq Hv]]. simpl in *.
  rewrite Hp in Hq. inversion Hq; subst. congruence.
Qed.

(* a step that hands nothing to a transport and delivers nothing *)
Lemma inv_pc_only st i p p' :
  MInv st -> nth_error (mprods st) i = Some p -> nxt p <= nxt p' -> (closed p = true -> closed p' = true) ->
  forall st', queue st' = queue st -> sockpart st' = sockpart st -> msl st' = msl st ->
              xitems (map fst (msendch st')) = xitems (map fst (msendch st)) ->
              flog st' = flog st -> deliv st' = deliv st -> mprods st' = set_nth i p' (mprods st) ->
              MInv st'.
Proof.
  intros H Hp Hn Hc st' Eq Es El Ec Ef Ed Epr. destruct H as [Hfq Hfs Hv Hnd He].
  constructor; rewrite ?Eq, ?Es, ?El, ?Ec, ?Ef, ?Ed, ?Epr; auto.
  intros x Hx. eapply valid_upd; [exact Hp | exact Hn | exact Hc | apply Hv, Hx].
Qed.

(* handing a new item of stream i to a transport *)
Lemma inv_put st i p p' x v :
  MInv st -> nth_error (mprods st) i = Some p -> fst x = i ->
  ~ In x (map fst (flog st)) -> (~ In (i, DEnd) (map fst (flog st))) ->
  nxt p <= nxt p' -> (closed p = true -> closed p' = true) ->
  match snd x with DData k => k < nxt p' | DEnd => closed p' = true end ->
  forall st', flog st' = flog st ++ [(x, v)] -> deliv st' = deliv st -> mprods st' = set_nth i p' (mprods st) ->
              sockpart st' = sockpart st -> msl st' = msl st ->
              (match v with
               | VQ => queue st' = queue st ++ [x] /\ msendch st' = msendch st
               | VS => queue st' = queue st /\ exists o, msendch st' = msendch st ++ [(XItem x, o)]
               end) ->
              MInv st'.
Proof.
  intros H Hp Hx Hfresh Hnoend Hn Hc Hval st' Ef Ed Epr Es El Ev. destruct H as [Hfq Hfs Hv Hnd He].
  constructor; rewrite ?Ef, ?Ed, ?Epr, ?Es, ?El.
  - rewrite projV_app. destruct v.
    + destruct Ev as [-> _]. unfold projV at 3; simpl. rewrite app_assoc, Hfq. reflexivity.
    + destruct Ev as [-> _]. unfold projV at 3; simpl. rewrite app_nil_r. exact Hfq.
  - rewrite projV_app. destruct v.
    + destruct Ev as [_ ->]. unfold projV at 3; simpl. rewrite app_nil_r. exact Hfs.
    + destruct Ev as [_ [o ->]]. unfold projV at 3; simpl.
      rewrite map_app, xitems_app; simpl. rewrite <- Hfs, <- !app_assoc. reflexivity.
  - intros y Hy. rewrite map_app in Hy. apply in_app_or in Hy. destruct Hy as [Hy|[<-|[]]].
    + eapply valid_upd; eauto.
    + simpl. exists p'. split; [rewrite Hx; eapply nth_error_set_nth_eq; eauto | exact Hval].
  - rewrite map_app; simpl. apply NoDup_app_one; auto.
  - intros s. rewrite map_app; simpl. apply end_last_app; auto.
    intros E. simpl in E. subst s. rewrite Hx. exact Hnoend.
Qed.

(* ---------- preservation ---------- *)
Ltac pc_only H Hp q :=
  apply (inv_pc_only _ _ _ q H Hp); simpl;
  first [ reflexivity | lia | solve [intros; congruence] | solve [auto]
        | (unfold sockpart; simpl; rewrite ?map_app, ?xitems_app; simpl; rewrite ?app_nil_r; reflexivity) ].

Ltac put_tac H Hp Ecl :=
  unfold sockpart; simpl; try reflexivity;
  try solve [eapply fresh_data; eauto]; try solve [eapply fresh_end; eauto];
  try lia; try congruence; try solve [split; eauto].

Lemma mpstep_g_inv sticky i st : MInv st -> MInv (mpstep_g sticky i st).
Proof.
  intros H. unfold mpstep_g. destruct (nth_error (mprods st) i) as [p|] eqn:Hp; auto.
  destruct (mpc_ p) eqn:Epc.
  - (* MIdle *)
    destruct (mtodo p) as [|[shmok qfull|qfull] r]; auto.
    + destruct (closed p) eqn:Ecl; [pc_only H Hp (mfin p)|].
      destruct (sticky && infb p || negb shmok).
      * apply (inv_put st i p (mloc MWait (OFlush shmok qfull :: r) (S (nxt p)) true false) (i, DData (nxt p)) VS H Hp);
          put_tac H Hp Ecl.
      * destruct qfull.
        -- pc_only H Hp (mloc MIdle (tl (OFlush shmok true :: r)) (S (nxt p)) false false).
        -- apply (inv_put st i p (mloc MMark (OFlush shmok false :: r) (S (nxt p)) false false) (i, DData (nxt p)) VQ H Hp);
             put_tac H Hp Ecl.
    + destruct (closed p) eqn:Ecl; [pc_only H Hp (mfin p)|].
      destruct (infb p || qfull).
      * apply (inv_put st i p (mloc MWait (OClose qfull :: r) (nxt p) (infb p) true) (i, DEnd) VS H Hp);
          put_tac H Hp Ecl.
      * apply (inv_put st i p (mloc MMark (OClose qfull :: r) (nxt p) (infb p) true) (i, DEnd) VQ H Hp);
          put_tac H Hp Ecl.
  - destruct (mflag st); [pc_only H Hp (mfin p) | pc_only H Hp (mmkp MWr p)].
  - destruct (mwriting st); [pc_only H Hp (mmkp MSlow p) | pc_only H Hp (mmkp MEv p)].
  - pc_only H Hp (mfin p).
  - pc_only H Hp (mmkp MRel p).
  - pc_only H Hp (mmkp MNotify p).
  - pc_only H Hp (mfin p).
  - destruct (existsb (Nat.eqb i) (acks st)); [pc_only H Hp (mfin p) | exact H].
Qed.

Lemma inv_same st st' :
  MInv st -> queue st' = queue st -> sockpart st' = sockpart st ->
  lhand (msl st') ++ xitems (map fst (msendch st')) = lhand (msl st) ++ xitems (map fst (msendch st)) ->
  flog st' = flog st -> deliv st' = deliv st -> mprods st' = mprods st -> MInv st'.
Proof.
  intros [Hfq Hfs Hv Hnd He] Eq Es El Ef Ed Ep.
  constructor; rewrite ?Eq, ?Es, ?El, ?Ef, ?Ed, ?Ep; auto.
Qed.

Ltac rw_eqs :=
  repeat match goal with
         | E : msock _ = _ |- _ => rewrite E
         | E : queue _ = _ |- _ => rewrite E
         | E : msendch _ = _ |- _ => rewrite E
         | E : msl _ = _ |- _ => rewrite E
         | E : mcons _ = _ |- _ => rewrite E
         end.
Ltac same H := apply (inv_same _ _ H); unfold sockpart; simpl; rw_eqs; rewrite ?xitems_app, ?app_nil_r; simpl; rewrite ?app_nil_r; reflexivity.

Lemma mcstep_inv st : MInv st -> MInv (mcstep st).
Proof.
  intros H. unfold mcstep. destruct (mcons st) eqn:Ec.
  - destruct (msock st) as [|[|x] r] eqn:Es; [exact H | same H | same H].
  - same H.
  - destruct (queue st); same H.
  - destruct (queue st) as [|x q] eqn:Eq; [same H|].
    destruct H as [Hfq Hfs Hv Hnd He]. constructor; simpl; auto.
    + rewrite projV_app. unfold projV at 2; simpl. rewrite <- Hfq, Eq, <- !app_assoc. reflexivity.
    + rewrite projV_app. unfold projV at 2; simpl. rewrite app_nil_r.
      unfold sockpart in *. simpl. rewrite Ec in Hfs. exact Hfs.
  - same H.
  - same H.
  - destruct empty; same H.
  - same H.
  - same H.
  - (* KFbT: the queue is empty: the held socket item reaches its stream *)
    destruct (queue st) as [|e q] eqn:Eq; [|same H].
    destruct H as [Hfq Hfs Hv Hnd He]. constructor; simpl; auto.
    + rewrite projV_app. unfold projV at 2; simpl. rewrite app_nil_r, <- Hfq, Eq. reflexivity.
    + rewrite projV_app. unfold projV at 2; simpl.
      unfold sockpart in *. simpl. rewrite Ec in Hfs. simpl in Hfs. rewrite <- Hfs, <- !app_assoc. reflexivity.
  - (* KFbInc: pop in front of the held item *)
    destruct (queue st) as [|e q] eqn:Eq; [same H|].
    destruct H as [Hfq Hfs Hv Hnd He]. constructor; simpl; auto.
    + rewrite projV_app. unfold projV at 2; simpl. rewrite <- Hfq, Eq, <- !app_assoc. reflexivity.
    + rewrite projV_app. unfold projV at 2; simpl. rewrite app_nil_r.
      unfold sockpart in *. simpl. rewrite Ec in Hfs. exact Hfs.
Qed.

Lemma msstep_inv st : MInv st -> MInv (msstep st).
Proof.
  intros H. unfold msstep. destruct (msl st) as [|e|e|e|o] eqn:El.
  - destruct (msendch st) as [|e r] eqn:Es; [exact H|].
    apply (inv_same _ _ H); simpl; rewrite ?El, ?Es; simpl; rewrite ?app_nil_r; reflexivity.
  - destruct (mwriting st); apply (inv_same _ _ H); simpl; rewrite ?El; reflexivity.
  - destruct (mnotif st); [|exact H]. apply (inv_same _ _ H); simpl; rewrite ?El; reflexivity.
  - destruct H as [Hfq Hfs Hv Hnd He]. constructor; simpl; auto.
    unfold sockpart in *. simpl. rewrite <- Hfs, El, xitems_app. simpl. rewrite <- !app_assoc. reflexivity.
  - apply (inv_same _ _ H); simpl; rewrite ?El; reflexivity.
Qed.

Lemma minit_inv progs : MInv (minit progs).
Proof.
  constructor; simpl; auto.
  - intros x [].
  - constructor.
Qed.

Lemma mstep_g_inv sticky st w : MInv st -> MInv (mstep_g sticky st w).
Proof. destruct w; simpl; [apply mpstep_g_inv | apply mcstep_inv | apply msstep_inv]. Qed.
Lemma mstep_inv st w : MInv st -> MInv (mstep st w).
Proof. apply mstep_g_inv. Qed.

(* isolation / FIFO do not depend on how the fallback flag is maintained *)
Theorem mrun_g_inv sticky progs sched : MInv (mrun_g sticky sched (minit progs)).
Proof.
  unfold mrun_g. generalize (minit_inv progs). generalize (minit progs).
  induction sched as [|w sched IH]; simpl; intros s H; auto. apply IH, mstep_g_inv, H.
Qed.

Theorem mrun_inv progs sched : MInv (mrun sched (minit progs)).
Proof.
  unfold mrun, mrun_g. generalize (minit_inv progs). generalize (minit progs).
  induction sched as [|w sched IH]; simpl; intros s H; auto. apply IH, mstep_inv, H.
Qed.

(* ---------- consequences ---------- *)

(* every delivered entry was handed to that transport by a writer, is valid for the writer of the
   stream it is delivered to, and no item is delivered twice — for all schedules and fault patterns *)
Lemma deliv_in_flog st x v : MInv st -> In (x, v) (deliv st) -> In (x, v) (flog st).
Proof.
  intros H Hin. apply In_projV. apply (projV_In v) in Hin. destruct v.
  - rewrite <- (m_fq st H). apply in_or_app. left; exact Hin.
  - rewrite <- (m_fs st H). apply in_or_app. left; exact Hin.
Qed.

Lemma NoDup_app_l {A} (a b : list A) : NoDup (a ++ b) -> NoDup a.
Proof.
  induction a as [|x a IH]; simpl; intros H; [constructor|].
  inversion H; subst. constructor; auto. intros Hin. apply H2. apply in_or_app. left; exact Hin.
Qed.
Lemma perm_4 {A} (a b c d : list A) : Permutation ((a ++ b) ++ (c ++ d)) ((a ++ c) ++ (b ++ d)).
Proof.
  rewrite <- !app_assoc. apply Permutation_app_head. rewrite !app_assoc.
  apply Permutation_app_tail. apply Permutation_app_comm.
Qed.

Theorem isolation progs sched :
  let st := mrun sched (minit progs) in
  (forall x v, In (x, v) (deliv st) -> In (x, v) (flog st) /\ valid (mprods st) x) /\
  NoDup (map fst (deliv st)).
Proof.
  intros st. pose proof (mrun_inv progs sched) as H. fold st in H. split.
  - intros x v Hin. pose proof (deliv_in_flog st x v H Hin) as Hf. split; auto.
    apply (m_valid st H). apply in_map_iff. exists (x, v). auto.
  - eapply Permutation_NoDup; [apply Permutation_sym, perm_proj|].
    pose proof (m_nodup st H) as Hnd.
    eapply Permutation_NoDup in Hnd; [|apply perm_proj].
    rewrite <- (m_fq st H), <- (m_fs st H) in Hnd.
    eapply Permutation_NoDup in Hnd; [|apply perm_4].
    apply NoDup_app_l in Hnd. exact Hnd.
Qed.

Theorem transport_fifo progs sched :
  let st := mrun sched (minit progs) in
  (exists rest, projV VQ (deliv st) ++ rest = projV VQ (flog st)) /\
  (exists rest, projV VS (deliv st) ++ rest = projV VS (flog st)).
Proof.
  intros st. pose proof (mrun_inv progs sched) as H. fold st in H. split; eexists.
  - apply (m_fq st H).
  - apply (m_fs st H).
Qed.

Lemma filt_proj s v (l : list entry) :
  (forall x w, In (x, w) l -> fst x = s -> w = v) ->
  filter (of_stream s) (map fst l) = filter (of_stream s) (projV v l).
Proof.
  induction l as [|[x w] l IH]; simpl; intros Hl; auto.
  unfold projV in *. simpl. destruct (of_stream s x) eqn:Eo.
  - assert (w = v) by (apply (Hl x w); auto; unfold of_stream in Eo; apply Nat.eqb_eq in Eo; auto). subst w.
    replace (via_eqb v v) with true by (destruct v; reflexivity). simpl. rewrite Eo. f_equal. apply IH.
    intros y w' Hy. apply Hl. right; exact Hy.
  - destruct (via_eqb w v); simpl; rewrite ?Eo; apply IH; intros y w' Hy; apply Hl; right; exact Hy.
Qed.

Lemma ditem_eqb_refl d : ditem_eqb d d = true.
Proof. destruct d; simpl; auto. apply Nat.eqb_refl. Qed.
Lemma is_prefix_app a b : is_prefix a (a ++ b) = true.
Proof. induction a as [|x a IH]; simpl; auto. rewrite ditem_eqb_refl, IH. reflexivity. Qed.

Lemma end_last_filter s L A B :
  end_last s L -> filter (of_stream s) L = A ++ B -> In (s, DEnd) A -> B = [].
Proof.
  revert A B. induction L as [|x r IH]; simpl; intros A B He Hf Hin.
  - destruct A; [destruct Hin | discriminate].
  - destruct He as [Hx Hr]. destruct (of_stream s x) eqn:Eo.
    + destruct A as [|a A']; [destruct Hin|]. simpl in Hf. inversion Hf; subst a.
      destruct Hin as [Hin|Hin].
      * assert (Hnone : filter (of_stream s) r = []).
        { clear -Hx Hin. specialize (Hx Hin). induction r as [|y r IHr]; simpl; auto.
          destruct (of_stream s y) eqn:Ey.
          - exfalso. apply (Hx y); [left; auto|]. unfold of_stream in Ey. apply Nat.eqb_eq in Ey. auto.
          - apply IHr. intros z Hz. apply Hx. right; auto. }
        rewrite Hnone in H1. symmetry in H1. apply app_eq_nil in H1. tauto.
      * eapply IH; eauto.
    + eapply IH; eauto.
Qed.

Lemma filter_of_stream_fst s L x : In x (filter (of_stream s) L) -> fst x = s.
Proof. intros H. apply filter_In in H. destruct H as [_ H]. unfold of_stream in H. apply Nat.eqb_eq in H. auto. Qed.

Lemma existsb_end_in s (l : list item) :
  (forall x, In x l -> fst x = s) -> existsb (ditem_eqb DEnd) (map snd l) = true -> In (s, DEnd) l.
Proof.
  intros Hs H. apply existsb_exists in H. destruct H as [d [Hd Hd2]].
  destruct d; simpl in Hd2; try discriminate.
  apply in_map_iff in Hd. destruct Hd as [[a b] [Hb Hin]]. simpl in Hb. subst b.
  specialize (Hs _ Hin). simpl in Hs. subst a. exact Hin.
Qed.

(* a stream whose items all travelled through one transport is delivered in order, with the end
   mark (if delivered) after everything its writer sent *)
Theorem single_transport_ordered progs sched s v :
  let st := mrun sched (minit progs) in
  (forall x w, In (x, w) (flog st) -> fst x = s -> w = v) ->
  ordered s st = true.
Proof.
  intros st Hone. pose proof (mrun_inv progs sched) as H. fold st in H.
  assert (HoneD : forall x w, In (x, w) (deliv st) -> fst x = s -> w = v).
  { intros x w Hin. apply Hone. apply deliv_in_flog; auto. }
  assert (Hsplit : exists rest, filter (of_stream s) (map fst (deliv st)) ++ rest
                                = filter (of_stream s) (map fst (flog st))).
  { rewrite (filt_proj s v (deliv st) HoneD), (filt_proj s v (flog st) Hone).
    destruct v.
    - rewrite <- (m_fq st H), filter_app. eexists; reflexivity.
    - rewrite <- (m_fs st H), filter_app. eexists; reflexivity. }
  destruct Hsplit as [rest Hsplit].
  unfold ordered, seen, sent. rewrite <- Hsplit, map_app, is_prefix_app. simpl.
  unfold end_after_all, seen, sent. rewrite <- Hsplit.
  destruct (existsb (ditem_eqb DEnd) (map snd (filter (of_stream s) (map fst (deliv st))))) eqn:Ee; auto.
  apply (existsb_end_in s) in Ee; [|intros x Hx; eapply filter_of_stream_fst; eauto].
  pose proof (m_end st H s) as Hel.
  assert (Hrest : rest = []) by (eapply end_last_filter; [exact Hel | symmetry; exact Hsplit | exact Ee]).
  subst rest. rewrite app_nil_r in *.
  apply in_split in Ee. destruct Ee as [l1 [l2 El]].
  assert (Hl2 : l2 = []).
  { eapply (end_last_filter s _ (l1 ++ [(s, DEnd)]) l2 Hel).
    - rewrite <- Hsplit, El, <- app_assoc. reflexivity.
    - apply in_or_app. right; left; reflexivity. }
  subst l2. rewrite El, map_app, rev_app_distr. simpl. apply Nat.eqb_refl.
Qed.

(* ---------- regression runs: the former witnesses against the order statement ---------- *)
Definition order_full : Prop :=
  forall progs sched s, ordered s (mrun sched (minit progs)) = true.

Definition rP i n := repeat (WProd i) n.
Definition rC n := repeat WCons n.
Definition rS n := repeat WSend n.

(* (a) — repaired by "close through the socket when the stream is in fallback state" (c91430a):
   m0 through the queue (polling event written, not yet handled), shared memory exhausted: m1 through the
   socket, close.  Formerly the close element went through the queue and the consumer delivered
   m0, END, m1; now the close event follows m1 on the socket. *)
Definition wit_a_progs := [[OFlush true false; OFlush false false; OClose false]].
Definition wit_a_sched := rP 0 6 ++ rP 0 1 ++ rS 4 ++ rP 0 1 ++ rP 0 1 ++ rC 40 ++ rS 5 ++ rP 0 1 ++ rC 8.
Lemma reg_a :
  let st := mrun wit_a_sched (minit wit_a_progs) in
  seen 0 st = [DData 0; DData 1; DEnd] /\ sent 0 st = [DData 0; DData 1; DEnd] /\ ordered 0 st = true /\
  map snd (flog st) = [VQ; VS; VS].
Proof. vm_compute. repeat split. Qed.

(* (b) — repaired by "empty the queue before a socket item is handed to its stream": writer 0 wins
   markWorking and is pre-empted before it writes the polling event; writer 1 puts b0 (markWorking fails:
   no event), then flushes b1 through the socket.  Formerly b1 was delivered before b0.  Now the handler of
   the fallback event pops a0 and b0 first: already while writer 0 is still paused (first run below) stream 1
   has received b0, b1 in this order. *)
Definition wit_b_progs := [[OFlush true false]; [OFlush true false; OFlush false false]].
Definition wit_b_paused := rP 0 2 ++ rP 1 2 ++ rP 1 1 ++ rS 4 ++ rP 1 1 ++ rC 12.
Definition wit_b_sched := wit_b_paused ++ rP 0 4 ++ rC 30.
Lemma reg_b :
  (let st := mrun wit_b_paused (minit wit_b_progs) in
   map mpc_ (mprods st) = [MWr; MIdle] /\ seen 1 st = [DData 0; DData 1] /\ seen 0 st = [DData 0]) /\
  (let st := mrun wit_b_sched (minit wit_b_progs) in
   seen 1 st = [DData 0; DData 1] /\ sent 1 st = [DData 0; DData 1] /\ ordered 1 st = true /\ ordered 0 st = true).
Proof. vm_compute. repeat split. Qed.

(* (b') the same window with a close: formerly (after the repair of (a) alone) b1, END, b0 *)
Definition wit_e_progs := [[OFlush true false]; [OFlush true false; OFlush false false; OClose false]].
Definition wit_e_sched := rP 0 2 ++ rP 1 2 ++ rP 1 1 ++ rS 4 ++ rP 1 1 ++ rP 1 1 ++ rS 5 ++ rP 1 1 ++ rC 20 ++ rP 0 4 ++ rC 30.
Lemma reg_e :
  let st := mrun wit_e_sched (minit wit_e_progs) in
  seen 1 st = [DData 0; DData 1; DEnd] /\ sent 1 st = [DData 0; DData 1; DEnd] /\ ordered 1 st = true.
Proof. vm_compute. repeat split. Qed.

(* non-vacuity of the single-transport theorem: stream 0 uses only the queue, stream 1 only the socket
   (falls back from its first message, closed through the socket) *)
Definition ex_progs := [[OFlush true false; OFlush true false; OClose false]; [OFlush false false; OFlush true false; OClose true]].
Definition ex_sched := rP 0 6 ++ rP 1 1 ++ rS 5 ++ rP 1 2 ++ rP 0 2 ++ rS 5 ++ rP 1 2 ++ rC 20 ++ rS 5 ++ rP 1 1 ++ rP 0 6 ++ rC 40.
