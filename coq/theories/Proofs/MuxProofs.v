(* Invariants of the multiplexing model (C07): per-transport FIFO, validity and uniqueness of every
   item handed to a transport, the end mark is the last item a writer sends; consequences: isolation /
   no duplication for all schedules and fault patterns, order + end-mark placement for streams that
   use a single transport. *)
From Coq Require Import List ZArith Lia Bool Arith Permutation.
From Shm Require Import Gen.Consts Model.Wakeup Model.Mux Proofs.WakeupProofs.
Import ListNotations.
Open Scope nat_scope.

Definition projV (v : via) (l : list entry) : list item :=
  map fst (filter (fun e => via_eqb (snd e) v) l).
Definition xitems (l : list xev) : list item :=
  flat_map (fun e => match e with XItem x => [x] | XPoll => [] end) l.
Definition lhand (x : mspc) : list item :=
  match x with LCas e | LWait e | LWrite e => xitems [fst e] | _ => [] end.

Definition valid (pr : list mlocal) (x : item) : Prop :=
  exists p, nth_error pr (fst x) = Some p /\
            match snd x with DData k => k < nxt p | DEnd => closed p = true end.

Fixpoint end_last (s : nat) (l : list item) : Prop :=
  match l with
  | [] => True
  | x :: r => (x = (s, DEnd) -> forall y, In y r -> fst y <> s) /\ end_last s r
  end.

Record MInv (st : mst) : Prop := {
  m_fq : projV VQ (deliv st) ++ queue st = projV VQ (flog st);
  m_fs : projV VS (deliv st) ++ xitems (msock st) ++ lhand (msl st) ++ xitems (map fst (msendch st))
         = projV VS (flog st);
  m_valid : forall x, In x (map fst (flog st)) -> valid (mprods st) x;
  m_nodup : NoDup (map fst (flog st));
  m_end : forall s, end_last s (map fst (flog st)) }.

(* ---------- list lemmas ---------- *)
Lemma projV_app v a b : projV v (a ++ b) = projV v a ++ projV v b.
Proof. unfold projV. rewrite filter_app, map_app. reflexivity. Qed.
Lemma xitems_app a b : xitems (a ++ b) = xitems a ++ xitems b.
Proof. unfold xitems. apply flat_map_app. Qed.
Lemma end_last_app s l x :
  end_last s l -> (fst x = s -> ~ In (s, DEnd) l) -> end_last s (l ++ [x]).
Proof.
  induction l as [|a l IH]; simpl; intros H Hx.
  - split; [intros _ y []|exact I].
  - destruct H as [Ha Hl]. split.
    + intros -> y Hy. apply in_app_or in Hy. destruct Hy as [Hy|[<-|[]]]; [apply Ha; auto|].
      intros E. apply (Hx E). left; reflexivity.
    + apply IH; auto. intros E Hin. apply (Hx E). right; exact Hin.
Qed.
Lemma NoDup_app_one {A} (l : list A) x : NoDup l -> ~ In x l -> NoDup (l ++ [x]).
Proof.
  induction l as [|a l IH]; simpl; intros H Hx.
  - constructor; [intros []|constructor].
  - inversion H; subst. constructor.
    + intros Hin. apply in_app_or in Hin. destruct Hin as [Hin|[<-|[]]]; auto.
    + apply IH; auto.
Qed.
Lemma In_projV v x l : In x (projV v l) -> In (x, v) l.
Proof.
  unfold projV. intros H. apply in_map_iff in H. destruct H as [[y w] [<- H]].
  apply filter_In in H. destruct H as [H E]. simpl in *. destruct w, v; simpl in E; try discriminate; exact H.
Qed.
Lemma projV_In v x l : In (x, v) l -> In x (projV v l).
Proof.
  intros H. unfold projV. apply in_map_iff. exists (x, v). split; auto.
  apply filter_In. split; auto. destruct v; reflexivity.
Qed.
Lemma projV_incl v l x : In x (projV v l) -> In x (map fst l).
Proof. intros H. apply In_projV in H. apply in_map_iff. exists (x, v). auto. Qed.
Lemma perm_proj l : Permutation (map fst l) (projV VQ l ++ projV VS l).
Proof.
  induction l as [|[x v] l IH]; simpl; auto. unfold projV in *. simpl. destruct v; simpl.
  - constructor. exact IH.
  - apply Permutation_cons_app. exact IH.
Qed.

(* ---------- validity under updates of a writer's local state ---------- *)
Lemma valid_upd pr i p p' x :
  nth_error pr i = Some p -> nxt p <= nxt p' -> (closed p = true -> closed p' = true) ->
  valid pr x -> valid (set_nth i p' pr) x.
Proof.
  intros Hp Hn Hc [q [Hq Hv]]. unfold valid.
  destruct (Nat.eq_dec i (fst x)) as [E|E].
  - subst i. rewrite Hq in Hp. inversion Hp; subst q. exists p'. split.
    + eapply nth_error_set_nth_eq; eauto.
    + destruct (snd x); auto. lia.
  - exists q. split; auto. rewrite nth_error_set_nth_neq; auto.
Qed.

Lemma fresh_data st i p :
  MInv st -> nth_error (mprods st) i = Some p -> ~ In (i, DData (nxt p)) (map fst (flog st)).
Proof.
  intros H Hp Hin. apply (m_valid st H) in Hin. destruct Hin as [q [Hq Hv]]. simpl in *.
  rewrite Hp in Hq. inversion Hq; subst. lia.
Qed.
Lemma fresh_end st i p :
  MInv st -> nth_error (mprods st) i = Some p -> closed p = false -> ~ In (i, DEnd) (map fst (flog st)).
Proof.
  intros H Hp Hc Hin. apply (m_valid st H) in Hin. destruct Hin as [q [Hq Hv]]. simpl in *.
  rewrite Hp in Hq. inversion Hq; subst. congruence.
Qed.

(* a step that hands nothing to a transport and delivers nothing *)
Lemma inv_pc_only st i p p' :
  MInv st -> nth_error (mprods st) i = Some p -> nxt p <= nxt p' -> (closed p = true -> closed p' = true) ->
  forall st', queue st' = queue st -> xitems (msock st') = xitems (msock st) -> msl st' = msl st ->
              xitems (map fst (msendch st')) = xitems (map fst (msendch st)) ->
              flog st' = flog st -> deliv st' = deliv st -> mprods st' = set_nth i p' (mprods st) ->
              MInv st'.
Proof.
  intros H Hp Hn Hc st' Eq Es El Ec Ef Ed Epr. destruct H as [Hfq Hfs Hv Hnd He].
  constructor; rewrite ?Eq, ?Es, ?El, ?Ec, ?Ef, ?Ed, ?Epr; auto.
  intros x Hx. eapply valid_upd; [exact Hp | exact Hn | exact Hc | apply Hv, Hx].
Qed.

(* handing a new item of stream i to a transport *)
Lemma inv_put st i p p' x v :
  MInv st -> nth_error (mprods st) i = Some p -> fst x = i ->
  ~ In x (map fst (flog st)) -> (~ In (i, DEnd) (map fst (flog st))) ->
  nxt p <= nxt p' -> (closed p = true -> closed p' = true) ->
  match snd x with DData k => k < nxt p' | DEnd => closed p' = true end ->
  forall st', flog st' = flog st ++ [(x, v)] -> deliv st' = deliv st -> mprods st' = set_nth i p' (mprods st) ->
              msock st' = msock st -> msl st' = msl st ->
              (match v with
               | VQ => queue st' = queue st ++ [x] /\ msendch st' = msendch st
               | VS => queue st' = queue st /\ exists o, msendch st' = msendch st ++ [(XItem x, o)]
               end) ->
              MInv st'.
Proof.
  intros H Hp Hx Hfresh Hnoend Hn Hc Hval st' Ef Ed Epr Es El Ev. destruct H as [Hfq Hfs Hv Hnd He].
  constructor; rewrite ?Ef, ?Ed, ?Epr, ?Es, ?El.
  - rewrite projV_app. destruct v.
    + destruct Ev as [-> _]. unfold projV at 3; simpl. rewrite app_assoc, Hfq. reflexivity.
    + destruct Ev as [-> _]. unfold projV at 3; simpl. rewrite app_nil_r. exact Hfq.
  - rewrite projV_app. destruct v.
    + destruct Ev as [_ ->]. unfold projV at 3; simpl. rewrite app_nil_r. exact Hfs.
    + destruct Ev as [_ [o ->]]. unfold projV at 3; simpl.
      rewrite map_app, xitems_app; simpl. rewrite <- Hfs, <- !app_assoc. reflexivity.
  - intros y Hy. rewrite map_app in Hy. apply in_app_or in Hy. destruct Hy as [Hy|[<-|[]]].
    + eapply valid_upd; eauto.
    + simpl. exists p'. split; [rewrite Hx; eapply nth_error_set_nth_eq; eauto | exact Hval].
  - rewrite map_app; simpl. apply NoDup_app_one; auto.
  - intros s. rewrite map_app; simpl. apply end_last_app; auto.
    intros E. simpl in E. subst s. rewrite Hx. exact Hnoend.
Qed.

(* ---------- preservation ---------- *)
Ltac pc_only H Hp q :=
  apply (inv_pc_only _ _ _ q H Hp); simpl; try reflexivity; try lia; auto;
  rewrite ?map_app, ?xitems_app; simpl; rewrite ?app_nil_r; reflexivity.

Lemma mpstep_inv i st : MInv st -> MInv (mpstep i st).
Proof.
  intros H. unfold mpstep. destruct (nth_error (mprods st) i) as [p|] eqn:Hp; auto.
  destruct (mpc_ p) eqn:Epc.
  - (* MIdle *)
    destruct (mtodo p) as [|[shmok qfull|qfull] r] eqn:Et; auto.
    + destruct (closed p) eqn:Ecl; [pc_only H Hp (mfin p)|].
      destruct (infb p || negb shmok).
      * eapply (inv_put st i p _ (i, DData (nxt p)) VS H Hp); simpl; try reflexivity; auto.
        -- eapply fresh_data; eauto.
        -- eapply fresh_end; eauto.
        -- congruence.
        -- split; eauto.
      * destruct qfull.
        -- pc_only H Hp (mloc MIdle (tl (mtodo p)) (S (nxt p)) false false).
        -- eapply (inv_put st i p _ (i, DData (nxt p)) VQ H Hp); simpl; try reflexivity; auto.
           ++ eapply fresh_data; eauto.
           ++ eapply fresh_end; eauto.
           ++ congruence.
    + destruct (closed p) eqn:Ecl; [pc_only H Hp (mfin p)|].
      destruct qfull.
      * eapply (inv_put st i p _ (i, DEnd) VS H Hp); simpl; try reflexivity; auto.
        -- eapply fresh_end; eauto.
        -- eapply fresh_end; eauto.
        -- split; eauto.
      * eapply (inv_put st i p _ (i, DEnd) VQ H Hp); simpl; try reflexivity; auto.
        -- eapply fresh_end; eauto.
        -- eapply fresh_end; eauto.
  - destruct (mflag st); [pc_only H Hp (mfin p) | pc_only H Hp (mmkp MWr p)].
  - destruct (mwriting st); [pc_only H Hp (mmkp MSlow p) | pc_only H Hp (mmkp MEv p)].
  - pc_only H Hp (mfin p).
  - pc_only H Hp (mmkp MRel p).
  - pc_only H Hp (mmkp MNotify p).
  - pc_only H Hp (mfin p).
  - destruct (existsb (Nat.eqb i) (acks st)); [pc_only H Hp (mfin p) | exact H].
Qed.
