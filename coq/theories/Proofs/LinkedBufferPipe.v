(* The whole pipe: a global invariant (store, ownership of every slot, send buffer, pending chains,
   receive buffer, leases) preserved by EVERY operation of Model/LinkedBuffer.step, from which the
   full refinement to the byte queue (C06) and the lease safety (C08) follow. *)
From Coq Require Import List ZArith Lia Bool Arith.
From Shm Require Import Gen.Consts Model.LinkedBuffer Proofs.LinkedBufferProofs Proofs.LinkedBufferStore
  Proofs.LinkedBufferWriter Proofs.LinkedBufferXfer.
Import ListNotations.
Close Scope Z_scope.
Open Scope nat_scope.

(* ---------------------------------------------------------------------------------------- *)
(* how a reader operation may transform the receive buffer                                   *)
(* ---------------------------------------------------------------------------------------- *)
Section Revolve.
Variable m : shm.

Inductive rstep : lbuf -> lbuf -> Prop :=
| rs_adv l s r k : slices l = s :: r -> rstep l (set_front l (adv k s))
| rs_next l l' : read_next l = Ok l' -> rstep l l'
| rs_len l z : rstep l (set_len l z)
| rs_curp l : rstep l (set_curp l true)
| rs_lease l s r le : slices l = s :: r -> curp l = true -> l_shm le = shmf s -> l_off le = off s ->
    (l_shm le = true -> lease_bytes m le = l_bytes le) -> rstep l (set_leases l (leases l ++ [le])).

Inductive revolve : lbuf -> lbuf -> Prop :=
| rv_refl l : revolve l l
| rv_step l l1 l2 : rstep l l1 -> revolve l1 l2 -> revolve l l2.

Lemma revolve_trans a b c : revolve a b -> revolve b c -> revolve a c.
Proof. induction 1; intros H'; [exact H'|]. eapply rv_step; [eassumption|]. apply IHrevolve. exact H'. Qed.
Lemma revolve_one a b : rstep a b -> revolve a b.
Proof. intros H. eapply rv_step; [exact H|apply rv_refl]. Qed.

Lemma bind_ok {A B} (o : outcome A) (f : A -> outcome B) b : bind o f = Ok b -> exists a, o = Ok a /\ f a = Ok b.
Proof. destruct o; cbn [bind]; intros H; try discriminate. eexists. split; [reflexivity|exact H]. Qed.

Lemma sl_take_inv k s bs n : sl_take m k s = Ok (bs, n) ->
  n = Nat.min k (ssize s) /\ bs = firstn n (skipn (rd s) (sdata m s)).
Proof. unfold sl_take. destruct (_ <=? _); [|discriminate]. intros H. injection H as <- <-. auto. Qed.

Lemma opt_next_revolve l s0 l1 :
  (if ssize s0 =? 0 then read_next l else Ok l) = Ok l1 -> revolve l l1.
Proof. destruct (ssize s0 =? 0); intros H; [apply revolve_one, rs_next; exact H|injection H as <-; apply rv_refl]. Qed.

Lemma rb_slow_revolve : forall fuel n acc l bs l', rb_slow m fuel n acc l = Ok (bs, l') -> revolve l l'.
Proof.
  induction fuel as [|fuel IH]; intros n acc l bs l' H; destruct n as [|n']; cbn [rb_slow] in H;
    try (injection H as _ <-; apply rv_refl); try discriminate.
  destruct (slices l) as [|s r] eqn:Es; [discriminate|].
  apply bind_ok in H. destruct H as [[bs0 k] [_ H]].
  destruct (k =? S n').
  - injection H as _ <-. apply revolve_one. eapply rs_adv; exact Es.
  - apply bind_ok in H. destruct H as [l2 [Hn H]]. eapply rv_step; [eapply rs_adv; exact Es|].
    eapply rv_step; [apply rs_next; exact Hn|]. eapply IH; exact H.
Qed.

Lemma rs_slow_revolve : forall fuel n acc l bs l', rs_slow m fuel n acc l = Ok (bs, l') -> revolve l l'.
Proof.
  induction fuel as [|fuel IH]; intros n acc l bs l' H; destruct n as [|n']; cbn [rs_slow] in H;
    try (injection H as _ <-; apply rv_refl); try discriminate.
  destruct (slices l) as [|s0 r0] eqn:Es; [discriminate|].
  apply bind_ok in H. destruct H as [l1 [H1 H]]. apply opt_next_revolve in H1.
  destruct (slices l1) as [|s r] eqn:Es1; [discriminate|].
  apply bind_ok in H. destruct H as [[bs0 k] [_ H]].
  eapply revolve_trans; [exact H1|]. eapply rv_step; [eapply rs_adv; exact Es1|]. eapply IH; exact H.
Qed.

Lemma discard_loop_revolve : forall fuel n d l k l', discard_loop fuel n d l = Ok (k, l') -> revolve l l'.
Proof.
  induction fuel as [|fuel IH]; intros n d l k l' H; cbn [discard_loop] in H; [discriminate|].
  destruct (slices l) as [|s r] eqn:Es; [discriminate|].
  destruct (n - Nat.min n (ssize s) =? 0).
  - injection H as _ <-. apply revolve_one. eapply rs_adv; exact Es.
  - apply bind_ok in H. destruct H as [l2 [Hn H]]. eapply rv_step; [eapply rs_adv; exact Es|].
    eapply rv_step; [apply rs_next; exact Hn|]. eapply IH; exact H.
Qed.

Lemma read_loop_revolve : forall fuel n acc l bs l', read_loop m fuel n acc l = Ok (bs, l') -> revolve l l'.
Proof.
  induction fuel as [|fuel IH]; intros n acc l bs l' H; cbn [read_loop] in H; [discriminate|].
  destruct (slices l) as [|s r] eqn:Es; [injection H as _ <-; apply rv_refl|].
  destruct (n =? 0); [injection H as _ <-; apply rv_refl|].
  apply bind_ok in H. destruct H as [[bs0 k] [_ H]].
  destruct (k =? n).
  - injection H as _ <-. apply revolve_one. eapply rs_adv; exact Es.
  - apply bind_ok in H. destruct H as [l2 [Hn H]]. eapply rv_step; [eapply rs_adv; exact Es|].
    eapply rv_step; [apply rs_next; exact Hn|]. eapply IH; exact H.
Qed.

Lemma lease_of_take s n bs k : sl_take m n s = Ok (bs, k) -> n <= ssize s ->
  l_shm (mk_lease s n bs) = true -> lease_bytes m (mk_lease s n bs) = l_bytes (mk_lease s n bs).
Proof.
  intros H Hn Hs. apply sl_take_inv in H. destruct H as [Hk ->]. unfold lease_bytes, mk_lease in *. cbn [l_shm l_off l_lo l_hi l_bytes] in *.
  replace (rd s + n - rd s) with n by lia. replace k with n by lia.
  f_equal. f_equal. unfold sdata. cbn [shmf off]. rewrite Hs. reflexivity.
Qed.

Lemma fast_path_revolve l s r n k bs z : slices l = s :: r ->
  (l_shm (mk_lease s n bs) = true -> lease_bytes m (mk_lease s n bs) = l_bytes (mk_lease s n bs)) ->
  revolve l (set_leases (set_front (set_len (set_curp l true) z) (adv k s)) (leases l ++ [mk_lease s n bs])).
Proof.
  intros Es Hb.
  apply rv_step with (l1 := set_curp l true); [apply rs_curp|].
  apply rv_step with (l1 := set_len (set_curp l true) z); [apply rs_len|].
  apply rv_step with (l1 := set_front (set_len (set_curp l true) z) (adv k s)); [apply rs_adv with (r := r); exact Es|].
  apply revolve_one.
  apply (rs_lease (set_front (set_len (set_curp l true) z) (adv k s)) (adv k s) r (mk_lease s n bs)).
  - cbn [slices set_front set_slices set_len set_curp]. rewrite Es. reflexivity.
  - reflexivity.
  - reflexivity.
  - reflexivity.
  - exact Hb.
Qed.

Lemma read_bytes_revolve n l bs l' : read_bytes m n l = Ok (bs, l') -> revolve l l'.
Proof.
  unfold read_bytes. destruct (n =? 0); [intros H; injection H as _ <-; apply rv_refl|].
  destruct (slices l) as [|s0 r0] eqn:Es; [discriminate|]. intros H.
  apply bind_ok in H. destruct H as [l1 [H1 H]]. apply opt_next_revolve in H1.
  eapply revolve_trans; [exact H1|].
  destruct (slices l1) as [|s r] eqn:Es1; [discriminate|].
  destruct (Nat.leb_spec n (ssize s)) as [Hle|_].
  - apply bind_ok in H. destruct H as [[bs0 k] [Ht H]]. injection H as _ <-.
    apply (fast_path_revolve l1 s r n k bs0 _ Es1). intros Hs. eapply lease_of_take; eassumption.
  - eapply rv_step; [apply rs_len|]. eapply rb_slow_revolve; exact H.
Qed.

Lemma read_string_revolve n l bs l' : read_string m n l = Ok (bs, l') -> revolve l l'.
Proof.
  unfold read_string. destruct (n =? 0); [intros H; injection H as _ <-; apply rv_refl|].
  destruct (slices l) as [|s r] eqn:Es; [discriminate|]. intros H.
  destruct (n <=? ssize s).
  - apply bind_ok in H. destruct H as [[bs0 k] [_ H]]. injection H as _ <-.
    eapply rv_step; [eapply rs_adv; exact Es|]. apply revolve_one, rs_len.
  - apply bind_ok in H. destruct H as [[bs0 l1] [H1 H]]. injection H as _ <-.
    eapply revolve_trans; [eapply rs_slow_revolve; exact H1|]. apply revolve_one, rs_len.
Qed.

Lemma peek_revolve n l bs l' : peek m n l = Ok (bs, l') -> revolve l l'.
Proof.
  unfold peek. destruct (n =? 0); [intros H; injection H as _ <-; apply rv_refl|].
  destruct (slices l) as [|s r] eqn:Es; [discriminate|]. intros H.
  apply bind_ok in H. destruct H as [[bs0 k] [Ht H]].
  destruct (Nat.eqb_spec k n) as [->|_].
  - injection H as _ <-. apply rv_step with (l1 := set_curp l true); [apply rs_curp|]. apply revolve_one.
    apply (rs_lease (set_curp l true) s r (mk_lease s n bs0)); [exact Es|reflexivity|reflexivity|reflexivity|].
    intros Hs. pose proof (sl_take_inv _ _ _ _ Ht) as [Hk _]. eapply lease_of_take; [exact Ht|lia|exact Hs].
  - apply bind_ok in H. destruct H as [res [_ H]]. injection H as _ <-. apply rv_refl.
Qed.

Lemma discard_revolve n l k l' : discard n l = Ok (k, l') -> revolve l l'.
Proof.
  unfold discard. destruct (n =? 0); [intros H; injection H as _ <-; apply rv_refl|]. intros H.
  apply bind_ok in H. destruct H as [[k0 l1] [H1 H]]. injection H as _ <-.
  eapply revolve_trans; [eapply discard_loop_revolve; exact H1|]. apply revolve_one, rs_len.
Qed.

Lemma read_byte_revolve l b l' : read_byte m l = Ok (b, l') -> revolve l l'.
Proof.
  unfold read_byte. destruct (slices l) as [|s r] eqn:Es; [discriminate|]. intros H.
  apply bind_ok in H. destruct H as [[bs k] [_ H]].
  destruct (k =? 1).
  - destruct bs; [discriminate|]. injection H as _ <-. eapply rv_step; [eapply rs_adv; exact Es|]. apply revolve_one, rs_len.
  - apply bind_ok in H. destruct H as [l1 [Hn H]].
    eapply rv_step; [eapply rs_adv; exact Es|]. eapply rv_step; [apply rs_next; exact Hn|].
    destruct (slices l1) as [|s1 r1] eqn:Es1; [discriminate|].
    apply bind_ok in H. destruct H as [[bs1 k1] [_ H]]. destruct bs1; [discriminate|]. injection H as _ <-.
    eapply rv_step; [eapply rs_adv; exact Es1|]. apply revolve_one, rs_len.
Qed.

Lemma read_copy_revolve n l bs l' : read_copy m n l = Ok (bs, l') -> revolve l l'.
Proof.
  unfold read_copy. destruct (n =? 0); [intros H; injection H as _ <-; apply rv_refl|]. intros H.
  apply bind_ok in H. destruct H as [[bs0 l1] [H1 H]]. injection H as _ <-.
  eapply revolve_trans; [eapply read_loop_revolve; exact H1|]. apply revolve_one, rs_len.
Qed.

(* --- what every evolution preserves -------------------------------------------------------- *)
(* the owned slots are conserved: each slice is still in the list, parked, or handed to recycle *)
Definition rown (l : lbuf) (x : nat) : nat :=
  cnt (offs (slices l)) x + cnt (offs (pinned l)) x + cnt (offs (recycled l)) x.

Definition rslots (l : lbuf) : list slice := slices l ++ pinned l ++ recycled l.

(* leases are held: by the pinned front slice or by a parked slice *)
Definition lease_held (l : lbuf) (le : lease) : Prop :=
  l_shm le = true ->
  (curp l = true /\ exists s r, slices l = s :: r /\ shmf s = true /\ off s = l_off le) \/ In (l_off le) (offs (pinned l)).
Definition leases_ok (l : lbuf) : Prop :=
  forall le, In le (leases l) -> lease_held l le /\ (l_shm le = true -> lease_bytes m le = l_bytes le).

Definition sliceP (P : slice -> Prop) : Prop := forall s k, P s -> P (adv k s).

Lemma offs_adv k s r : offs (adv k s :: r) = offs (s :: r).
Proof. unfold offs. cbn [flat_map adv shmf off]. reflexivity. Qed.

Lemma rstep_keeps l l' (P : slice -> Prop) : sliceP P -> rstep l l' ->
  (forall x, rown l' x = rown l x) /\ (Forall P (rslots l) -> Forall P (rslots l')) /\ (leases_ok l -> leases_ok l')
  /\ (Forall P (slices l) -> Forall P (slices l')) /\ (rwp l -> rwp l').
Proof.
  intros HP H. destruct H as [l s r k Es|l l' Hn|l z|l|l s r le Es Hc H1 H2 H3].
  - split; [|split; [|split; [|split; [cbn [slices set_front set_slices]; rewrite Es; cbn [tl]; intros HF; inversion HF; subst; constructor; [apply HP; assumption|assumption]
      |unfold rwp; cbn [slices wpos set_front set_slices]; rewrite Es; cbn [tl length]; intros [Hx|Hx]; [discriminate|right; exact Hx]]]]].
    + intros x. unfold rown. cbn [slices set_front set_slices pinned recycled]. rewrite Es. cbn [tl]. rewrite offs_adv. reflexivity.
    + unfold rslots. cbn [slices set_front set_slices pinned recycled]. rewrite Es. cbn [tl app].
      intros HF. inversion HF; subst. constructor; [apply HP; assumption|assumption].
    + intros HL le Hin. destruct (HL le Hin) as [Hh Hb]. split; [|exact Hb]. intros Hs. destruct (Hh Hs) as [[Hc [s0 [r0 [E0 [E1 E2]]]]]|Hp].
      * left. split; [exact Hc|]. rewrite Es in E0. injection E0 as <- <-. exists (adv k s), r.
        cbn [slices set_front set_slices]. rewrite Es. auto.
      * right. exact Hp.
  - unfold read_next in Hn. destruct (slices l) as [|s r] eqn:Es; [discriminate|]. injection Hn as <-.
    split; [|split; [|split; [|split; [intros HF; inversion HF; subst; destruct (shmf s); [destruct (curp l)|]; assumption|]]]].
    4: { unfold rwp. rewrite Es. intros [Hnil|Hw]; [discriminate|]. replace (length (s :: r) - 1) with (length r) in Hw by (cbn [length]; lia).
         assert (Hsl : forall X : lbuf, slices X = r -> wpos X = wptr_pop (wpos l) -> slices X = [] \/ wpos X = WAt (length (slices X) - 1)).
         { intros X HX HW. rewrite HX, HW, Hw. destruct r as [|a r']; [left; reflexivity|right]. cbn [length wptr_pop]. f_equal. lia. }
         destruct (shmf s); [destruct (curp l)|]; apply Hsl; reflexivity. }
    + intros x. unfold rown. destruct (shmf s) eqn:E; [destruct (curp l)|];
        cbn [slices pinned recycled set_curp set_pinned set_recycled set_wpos set_slices]; rewrite ?offs_app, ?cnt_app, ?Es;
        rewrite ?(offs_cons_shm s r E), ?(offs_cons_shm s [] E), ?(offs_cons_heap s r E), ?cnt_cons, ?cnt_nil; try lia;
        change (offs []) with (@nil nat); rewrite ?cnt_nil; lia.
    + unfold rslots. rewrite Es. intros HF. inversion HF as [|? ? Hs HF']; subst.
      apply Forall_app in HF'. destruct HF' as [F1 F2]. apply Forall_app in F2. destruct F2 as [F2 F3].
      destruct (shmf s); [destruct (curp l)|];
        cbn [slices pinned recycled set_curp set_pinned set_recycled set_wpos set_slices];
        repeat (apply Forall_app; split); auto.
    + intros HL le Hin. assert (Hin0 : In le (leases l)) by (destruct (shmf s); [destruct (curp l)|]; exact Hin).
      destruct (HL le Hin0) as [Hh Hb]. split; [|exact Hb]. intros Hs. right.
      destruct (Hh Hs) as [[Hc [s0 [r0 [E0 [E1 E2]]]]]|Hp].
      * rewrite Es in E0. injection E0 as <- <-. rewrite E1, Hc.
        cbn [pinned set_curp set_pinned set_wpos set_slices]. rewrite offs_app. apply in_or_app. right.
        rewrite (offs_cons_shm s [] E1). left. exact E2.
      * destruct (shmf s); [destruct (curp l)|]; cbn [pinned set_curp set_pinned set_recycled set_wpos set_slices]; auto.
        rewrite offs_app. apply in_or_app. left. exact Hp.
  - split; [intros x; reflexivity|]. split; [auto|]. split; [|split; auto]. intros HL le Hin. exact (HL le Hin).
  - split; [intros x; reflexivity|]. split; [auto|]. split; [|split; auto]. intros HL le Hin. destruct (HL le Hin) as [Hh Hb]. split; [|exact Hb].
    intros Hs. destruct (Hh Hs) as [[Hc X]|Hp]; [left; split; [reflexivity|exact X]|right; exact Hp].
  - split; [intros x; reflexivity|]. split; [auto|]. split; [|split; auto]. intros HL le0 Hin. cbn [leases set_leases] in Hin.
    apply in_app_or in Hin. destruct Hin as [Hin|[<-|[]]].
    + destruct (HL le0 Hin) as [Hh Hb]. split; [|exact Hb]. exact Hh.
    + split; [|exact H3]. intros Hs. left. split; [exact Hc|]. exists s, r. rewrite <- H1, <- H2. auto.
Qed.

Lemma revolve_keeps l l' (P : slice -> Prop) : sliceP P -> revolve l l' ->
  (forall x, rown l' x = rown l x) /\ (Forall P (rslots l) -> Forall P (rslots l')) /\ (leases_ok l -> leases_ok l')
  /\ (Forall P (slices l) -> Forall P (slices l')) /\ (rwp l -> rwp l').
Proof.
  intros HP H. induction H as [l|l l1 l2 Hs _ IH]; [split; [intros x; reflexivity|]; split; [auto|]; split; [auto|]; split; auto|].
  destruct (rstep_keeps l l1 P HP Hs) as [A1 [A2 [A3 [A4 A5]]]]. destruct IH as [B1 [B2 [B3 [B4 B5]]]].
  split; [intros x; rewrite B1; apply A1|]. split; [auto|]. split; [auto|]. split; auto.
Qed.

End Revolve.

(* ---------------------------------------------------------------------------------------- *)
(* frames: each component only looks at the slots it owns                                    *)
(* ---------------------------------------------------------------------------------------- *)
Lemma slice_ok_frame m m' s : (shmf s = true -> slot_at m' (off s) = slot_at m (off s)) -> slice_ok m s -> slice_ok m' s.
Proof. intros Hf [H1 H2]. split; [exact H1|]. rewrite (sdata_frame m m' s Hf). exact H2. Qed.

Lemma WF_frame m m' l : (forall x, In x (offs (slices l)) -> slot_at m' x = slot_at m x) -> WF m l -> WF m' l.
Proof.
  intros Hf [H1 H2 H3]. constructor.
  - rewrite content_bodies, (bodies_frame m m' (slices l) Hf), <- content_bodies. exact H1.
  - exact H2.
  - rewrite Forall_forall in *. intros s Hs. apply (slice_ok_frame m m'); [|apply H3; exact Hs].
    intros E. apply Hf. apply in_offs. exists s. auto.
Qed.

Lemma content_frame m m' l : (forall x, In x (offs (slices l)) -> slot_at m' x = slot_at m x) -> content m' l = content m l.
Proof. intros Hf. rewrite !content_bodies. apply bodies_frame. exact Hf. Qed.

Lemma WB_frame m m' l : (forall x, In x (offs (slices l)) -> slot_at m' x = slot_at m x) -> WB m l -> WB m' l.
Proof.
  intros Hf [W1 W2 W3 W4 W5 W6 W7]. constructor; auto.
  - apply (wslices_frame m m'); assumption.
  - rewrite (content_frame m m' l Hf). exact W3.
Qed.

Lemma recyclable_frame m m' ss : (forall x, In x (offs ss) -> slot_at m' x = slot_at m x) ->
  Forall (recyclable m) ss -> Forall (recyclable m') ss.
Proof.
  intros Hf H. rewrite Forall_forall in *. intros s Hs E. destruct (H s Hs E) as [t [Ht Hc]]. exists t. split; [|exact Hc].
  rewrite Hf; [exact Ht|]. apply in_offs. exists s. auto.
Qed.

Lemma lease_bytes_frame m m' le : (l_shm le = true -> slot_at m' (l_off le) = slot_at m (l_off le)) -> lease_bytes m' le = lease_bytes m le.
Proof.
  intros Hf. unfold lease_bytes. f_equal. f_equal. apply sdata_frame. cbn [shmf off]. exact Hf.
Qed.

Lemma lease_held_in l le : lease_held l le -> l_shm le = true -> In (l_off le) (offs (slices l)) \/ In (l_off le) (offs (pinned l)).
Proof.
  intros H Hs. destruct (H Hs) as [[_ [s [r [E [E1 E2]]]]]|Hp]; [left|right; exact Hp].
  rewrite E, (offs_cons_shm s r E1). left. exact E2.
Qed.

Lemma leases_ok_frame m m' l :
  (forall x, In x (offs (slices l)) \/ In x (offs (pinned l)) -> slot_at m' x = slot_at m x) -> leases_ok m l -> leases_ok m' l.
Proof.
  intros Hf H le Hin. destruct (H le Hin) as [Hh Hb]. split; [exact Hh|]. intros Hs.
  rewrite (lease_bytes_frame m m' le); [apply Hb; exact Hs|]. intros _. apply Hf. apply lease_held_in; assumption.
Qed.

Lemma leases_ok_data m m' l : same_data m m' -> leases_ok m l -> leases_ok m' l.
Proof.
  intros Hd H le Hin. destruct (H le Hin) as [Hh Hb]. split; [exact Hh|]. intros Hs. rewrite (lease_bytes_same m m' le Hd). apply Hb. exact Hs.
Qed.

(* ---------------------------------------------------------------------------------------- *)
(* the invariant of the pipe                                                                 *)
(* ---------------------------------------------------------------------------------------- *)
Definition allshm (ss : list slice) : Prop := Forall (fun x => shmf x = true) ss.

(* [ext] = the slots owned by the OTHER direction of the stream pair (nothing for a single pipe), [Eg] = their
   contents when the step started (ghost): an operation of this direction never touches them *)
Section WithExt.
Variable ext : list nat.
Variable Eg : nat -> option slot.

Record Inv (s : sys) (sp : spec) (idss : list (list nat)) : Prop := {
  iv_ok : store_ok (mem s);
  iv_wb : WB (mem s) (snd s);
  iv_pw : content (mem s) (snd s) = pw sp;
  iv_pend : pend_ok (mem s) (pend s) idss (infl sp);
  iv_wf : WF (mem s) (rcv s);
  iv_av : content (mem s) (rcv s) = av sp;
  iv_rec : recycled (rcv s) = [];
  iv_own : forall x, cnt (frees (mem s)) x + cnt (offs (slices (snd s))) x + cnt (concat idss) x
                     + cnt (offs (slices (rcv s))) x + cnt (offs (pinned (rcv s))) x + cnt (offs (oth s)) x + cnt ext x <= 1;
  iv_rslots : Forall (recyclable (mem s)) (slices (rcv s) ++ pinned (rcv s));
  iv_oth : Forall (fun b => shmf b = true) (oth s) /\ Forall (recyclable (mem s)) (oth s);
  iv_shm1 : idss <> [] -> allshm (slices (rcv s));
  iv_shm2 : infb s = false -> allshm (slices (rcv s)) /\ (forall d, ~ In (PFallback d) (pend s));
  iv_leases : leases_ok (mem s) (rcv s);
  iv_ext : forall x, 0 < cnt ext x -> slot_at (mem s) x = Eg x;
  iv_start : start0 (slices (rcv s));
  iv_rwp : rwp (rcv s);
  iv_saux : pinned (snd s) = [] /\ recycled (snd s) = [] /\ leases (snd s) = [] }.

(* what the spec must see *)
Lemma Inv_lens s sp idss : Inv s sp idss ->
  len (rcv s) = Z.of_nat (length (av sp)) /\ len (snd s) = Z.of_nat (length (pw sp)).
Proof.
  intros I. split.
  - rewrite (wf_len _ _ (iv_wf _ _ _ I)), (iv_av _ _ _ I). reflexivity.
  - rewrite (wb_len _ _ (iv_wb _ _ _ I)), (iv_pw _ _ _ I). reflexivity.
Qed.

(* C08, as a consequence of the invariant *)
Theorem Inv_leases_safe s sp idss le : Inv s sp idss -> In le (leases (rcv s)) -> l_shm le = true ->
  ~ In (l_off le) (frees (mem s)) /\ lease_bytes (mem s) le = l_bytes le
  /\ ~ In (l_off le) (offs (slices (snd s))) /\ ~ In (l_off le) (offs (oth s)) /\ ~ In (l_off le) (concat idss).
Proof.
  intros I Hin Hs. destruct (iv_leases _ _ _ I le Hin) as [Hh Hb].
  pose proof (lease_held_in _ _ Hh Hs) as Hown. pose proof (iv_own _ _ _ I (l_off le)) as Hc.
  assert (Hpos : 0 < cnt (offs (slices (rcv s))) (l_off le) + cnt (offs (pinned (rcv s))) (l_off le)).
  { destruct Hown as [H|H]; apply cnt_In in H; lia. }
  repeat split; try (apply cnt_notin; lia). apply Hb. exact Hs.
Qed.

Lemma Inv_spec_eq s sp sp' idss : pw sp' = pw sp -> infl sp' = infl sp -> av sp' = av sp -> Inv s sp idss -> Inv s sp' idss.
Proof. intros E1 E2 E3 [I1 I2 I3 I4 I5 I6 I7 I8 I9 I10 I11 I12 I13 I14 I15 I16 I17]. constructor; auto; congruence. Qed.

Lemma wpre_of_Inv s sp idss : Inv s sp idss -> wpre (mem s) (snd s).
Proof.
  intros I. split; [exact (iv_ok _ _ _ I)|]. split; [exact (iv_wb _ _ _ I)|]. intros x. pose proof (iv_own _ _ _ I x). lia.
Qed.

(* --- writer operations ---------------------------------------------------------------------- *)
Lemma Inv_writer s sp idss bs m' l' :
  Inv s sp idss -> wrote (mem s) (snd s) bs m' l' ->
  Inv (with_mem_snd s m' l') (with_pw sp (pw sp ++ bs)) idss.
Proof.
  intros [I1 I2 I3 I4 I5 I6 I7 I8 I9 [I10a I10b] I11 I12 I13 I14 I15 I16 I17] [[C1 C2 C3 C4 C5 C6 C7 C8 C9] Wwb Wc Wown].
  assert (Hother : forall x, 0 < cnt (concat idss) x + cnt (offs (slices (rcv s))) x + cnt (offs (pinned (rcv s))) x + cnt (offs (oth s)) x + cnt ext x ->
                             slot_at m' x = slot_at (mem s) x).
  { intros x Hx. apply C3. apply cnt_notin. specialize (C1 x). specialize (I8 x). lia. }
  constructor; cbn [mem snd pend rcv oth infb with_mem_snd with_pw pw infl av].
  - exact C4.
  - exact Wwb.
  - rewrite Wc, I3. reflexivity.
  - apply (pend_ok_frame (mem s)); [|exact I4]. intros x Hx. apply Hother. apply cnt_In in Hx. lia.
  - apply (WF_frame (mem s)); [|exact I5]. intros x Hx. apply Hother. apply cnt_In in Hx. lia.
  - rewrite (content_frame (mem s) m'); [exact I6|]. intros x Hx. apply Hother. apply cnt_In in Hx. lia.
  - exact I7.
  - intros x. specialize (C1 x). specialize (I8 x). lia.
  - apply (recyclable_frame (mem s)); [|exact I9]. intros x Hx. rewrite offs_app in Hx. apply Hother.
    apply in_app_or in Hx. destruct Hx as [Hx|Hx]; apply cnt_In in Hx; lia.
  - split; [exact I10a|]. apply (recyclable_frame (mem s)); [|exact I10b]. intros x Hx. apply Hother. apply cnt_In in Hx. lia.
  - exact I11.
  - exact I12.
  - apply (leases_ok_frame (mem s)); [|exact I13]. intros x Hx. apply Hother. destruct Hx as [Hx|Hx]; apply cnt_In in Hx; lia.
  - intros x Hx. rewrite Hother by lia. exact (I14 x Hx).
  - exact I15.
  - exact I16.
  - destruct I17 as [A1 [A2 A3]]. repeat split; congruence.
Qed.

(* --- other owners of slots ------------------------------------------------------------------- *)
Lemma Inv_oalloc s sp idss n b m1 :
  Inv s sp idss -> allocShmBuffer (mem s) n = Some (b, m1) ->
  Inv {| mem := m1; snd := snd s; infb := infb s; pend := pend s; rcv := rcv s; oth := oth s ++ [b] |} sp idss.
Proof.
  intros [I1 I2 I3 I4 I5 I6 I7 I8 I9 [I10a I10b] I11 I12 I13 I14 I15 I16 I17] Hal.
  assert (Hnd : NoDup (frees (mem s))) by (apply NoDup_cnt; intros x; specialize (I8 x); lia).
  destruct (allocShmBuffer_spec _ _ _ _ I1 Hnd Hal) as [j P]. destruct P as [[P1 P2 P3 [t [P4 [P5 [P6 [P7 P8]]]]] P9 P10 P11 P12 P13 P14] _].
  assert (Hother : forall x, x <> off b -> slot_at m1 x = slot_at (mem s) x) by exact P9.
  assert (Hnot : forall x, cnt (frees (mem s)) x = 0 -> x <> off b).
  { intros x Hx ->. apply cnt_In in P2. lia. }
  assert (Hoffs : offs (oth s ++ [b]) = offs (oth s) ++ [off b]) by (rewrite offs_app, (offs_cons_shm b [] P1); reflexivity).
  constructor; cbn [mem snd pend rcv oth infb].
  - exact P14.
  - apply (WB_frame (mem s)); [|exact I2]. intros x Hx. apply Hother, Hnot. apply cnt_In in Hx. specialize (I8 x). lia.
  - rewrite (content_frame (mem s) m1); [exact I3|]. intros x Hx. apply Hother, Hnot. apply cnt_In in Hx. specialize (I8 x). lia.
  - apply (pend_ok_frame (mem s)); [|exact I4]. intros x Hx. apply Hother, Hnot. apply cnt_In in Hx. specialize (I8 x). lia.
  - apply (WF_frame (mem s)); [|exact I5]. intros x Hx. apply Hother, Hnot. apply cnt_In in Hx. specialize (I8 x). lia.
  - rewrite (content_frame (mem s) m1); [exact I6|]. intros x Hx. apply Hother, Hnot. apply cnt_In in Hx. specialize (I8 x). lia.
  - exact I7.
  - intros x. rewrite Hoffs, cnt_app, cnt_cons, cnt_nil. specialize (P3 x). specialize (I8 x). lia.
  - apply (recyclable_frame (mem s)); [|exact I9]. intros x Hx. rewrite offs_app in Hx. apply Hother, Hnot.
    apply in_app_or in Hx. specialize (I8 x). destruct Hx as [Hx|Hx]; apply cnt_In in Hx; lia.
  - split; [apply Forall_app; split; [exact I10a|constructor; [exact P1|constructor]]|].
    apply Forall_app. split.
    + apply (recyclable_frame (mem s)); [|exact I10b]. intros x Hx. apply Hother, Hnot. apply cnt_In in Hx. specialize (I8 x). lia.
    + constructor; [|constructor]. intros _. exists (hdr_clearflag t). split; [exact P5|exact P8].
  - exact I11.
  - exact I12.
  - apply (leases_ok_frame (mem s)); [|exact I13]. intros x Hx. apply Hother, Hnot. specialize (I8 x). destruct Hx as [Hx|Hx]; apply cnt_In in Hx; lia.
  - intros x Hx. rewrite Hother; [exact (I14 x Hx)|]. apply Hnot. specialize (I8 x). lia.
  - exact I15.
  - exact I16.
  - exact I17.
Qed.

Lemma nth_error_split_offs (ss : list slice) i b : nth_error ss i = Some b -> shmf b = true ->
  forall x, cnt (offs ss) x = cnt (offs (firstn i ss ++ skipn (S i) ss)) x + ind (off b) x.
Proof.
  intros Hn Hb x. rewrite <- (firstn_skipn i ss) at 1. rewrite !offs_app, !cnt_app.
  assert (Hsk : skipn i ss = b :: skipn (S i) ss).
  { clear Hb x. revert i Hn. induction ss as [|a ss IH]; intros i Hn; destruct i; cbn in *; try discriminate.
    - injection Hn as ->. reflexivity.
    - apply IH. exact Hn. }
  rewrite Hsk, (offs_cons_shm b _ Hb), cnt_cons. lia.
Qed.

Lemma Inv_ofill s sp idss i b bs :
  Inv s sp idss -> nth_error (oth s) i = Some b ->
  Inv {| mem := upd_slot (mem s) (off b) (slot_write 0 (firstn (cap b) bs)); snd := snd s; infb := infb s; pend := pend s;
         rcv := rcv s; oth := oth s |} sp idss.
Proof.
  intros [I1 I2 I3 I4 I5 I6 I7 I8 I9 [I10a I10b] I11 I12 I13 I14 I15 I16 I17] Hn.
  assert (Hb : shmf b = true) by (rewrite Forall_forall in I10a; apply I10a; eapply nth_error_In; exact Hn).
  assert (Hin : In (off b) (offs (oth s))) by (apply in_offs; exists b; split; [eapply nth_error_In; exact Hn|auto]).
  set (m1 := upd_slot (mem s) (off b) (slot_write 0 (firstn (cap b) bs))).
  assert (Hother : forall x, x <> off b -> slot_at m1 x = slot_at (mem s) x) by (intros x Hx; apply slot_at_upd_other; exact Hx).
  assert (Hnot : forall x, cnt (offs (oth s)) x = 0 -> x <> off b) by (intros x Hx ->; apply cnt_In in Hin; lia).
  constructor; cbn [mem snd pend rcv oth infb].
  - apply store_ok_upd; [exact I1|intros t; split; [reflexivity|cbn [slot_write st_data]; apply length_overwrite]|].
    apply cnt_notin. apply cnt_In in Hin. specialize (I8 (off b)). lia.
  - apply (WB_frame (mem s)); [|exact I2]. intros x Hx. apply Hother, Hnot. apply cnt_In in Hx. specialize (I8 x). lia.
  - rewrite (content_frame (mem s) m1); [exact I3|]. intros x Hx. apply Hother, Hnot. apply cnt_In in Hx. specialize (I8 x). lia.
  - apply (pend_ok_frame (mem s)); [|exact I4]. intros x Hx. apply Hother, Hnot. apply cnt_In in Hx. specialize (I8 x). lia.
  - apply (WF_frame (mem s)); [|exact I5]. intros x Hx. apply Hother, Hnot. apply cnt_In in Hx. specialize (I8 x). lia.
  - rewrite (content_frame (mem s) m1); [exact I6|]. intros x Hx. apply Hother, Hnot. apply cnt_In in Hx. specialize (I8 x). lia.
  - exact I7.
  - exact I8.
  - apply (recyclable_frame (mem s)); [|exact I9]. intros x Hx. rewrite offs_app in Hx. apply Hother, Hnot.
    apply in_app_or in Hx. specialize (I8 x). destruct Hx as [Hx|Hx]; apply cnt_In in Hx; lia.
  - split; [exact I10a|]. eapply Forall_impl; [|exact I10b]. intros a Ha. apply (recyclable_stable (mem s)); [|exact Ha].
    apply cap_stable_upd. reflexivity.
  - exact I11.
  - exact I12.
  - apply (leases_ok_frame (mem s)); [|exact I13]. intros x Hx. apply Hother, Hnot. specialize (I8 x). destruct Hx as [Hx|Hx]; apply cnt_In in Hx; lia.
  - intros x Hx. rewrite Hother; [exact (I14 x Hx)|]. apply Hnot. specialize (I8 x). lia.
  - exact I15.
  - exact I16.
  - exact I17.
Qed.

Lemma Inv_ofree s sp idss i b :
  Inv s sp idss -> nth_error (oth s) i = Some b ->
  Inv {| mem := recycle (mem s) b; snd := snd s; infb := infb s; pend := pend s; rcv := rcv s;
         oth := firstn i (oth s) ++ skipn (S i) (oth s) |} sp idss.
Proof.
  intros [I1 I2 I3 I4 I5 I6 I7 I8 I9 [I10a I10b] I11 I12 I13 I14 I15 I16 I17] Hn.
  assert (Hbin : In b (oth s)) by (eapply nth_error_In; exact Hn).
  assert (Hb : shmf b = true) by (rewrite Forall_forall in I10a; apply I10a; exact Hbin).
  assert (Hin : In (off b) (offs (oth s))) by (apply in_offs; exists b; auto).
  assert (Hrb : recyclable (mem s) b) by (rewrite Forall_forall in I10b; apply I10b; exact Hbin).
  assert (Hnf : ~ In (off b) (frees (mem s))) by (apply cnt_notin; apply cnt_In in Hin; specialize (I8 (off b)); lia).
  pose proof (recycle_spec (mem s) b I1 Hb Hnf (Hrb Hb)) as [R1 R2 R3 R4 R5].
  pose proof (nth_error_split_offs (oth s) i b Hn Hb) as Hsplit.
  assert (Hnot : forall x, cnt (offs (oth s)) x = 0 -> x <> off b) by (intros x Hx ->; apply cnt_In in Hin; lia).
  assert (Hsub : forall a, In a (firstn i (oth s) ++ skipn (S i) (oth s)) -> In a (oth s)).
  { intros a Ha. apply in_app_or in Ha. destruct Ha as [Ha|Ha].
    - rewrite <- (firstn_skipn i (oth s)). apply in_or_app. left. exact Ha.
    - rewrite <- (firstn_skipn (S i) (oth s)). apply in_or_app. right. exact Ha. }
  constructor; cbn [mem snd pend rcv oth infb].
  - exact R5.
  - apply (WB_frame (mem s)); [|exact I2]. intros x Hx. apply R3, Hnot. apply cnt_In in Hx. specialize (I8 x). lia.
  - rewrite (content_frame (mem s) _); [exact I3|]. intros x Hx. apply R3, Hnot. apply cnt_In in Hx. specialize (I8 x). lia.
  - apply (pend_ok_frame (mem s)); [|exact I4]. intros x Hx. apply R3, Hnot. apply cnt_In in Hx. specialize (I8 x). lia.
  - apply (WF_frame (mem s)); [|exact I5]. intros x Hx. apply R3, Hnot. apply cnt_In in Hx. specialize (I8 x). lia.
  - rewrite (content_frame (mem s) _); [exact I6|]. intros x Hx. apply R3, Hnot. apply cnt_In in Hx. specialize (I8 x). lia.
  - exact I7.
  - intros x. rewrite R1. specialize (Hsplit x). specialize (I8 x). lia.
  - apply (recyclable_frame (mem s)); [|exact I9]. intros x Hx. rewrite offs_app in Hx. apply R3, Hnot.
    apply in_app_or in Hx. specialize (I8 x). destruct Hx as [Hx|Hx]; apply cnt_In in Hx; lia.
  - rewrite Forall_forall in I10a, I10b. split; apply Forall_forall; intros a Ha.
    + apply I10a, Hsub, Ha.
    + apply (recyclable_stable (mem s)); [apply cap_stable_recycle|apply I10b, Hsub, Ha].
  - exact I11.
  - exact I12.
  - apply (leases_ok_frame (mem s)); [|exact I13]. intros x Hx. apply R3, Hnot. specialize (I8 x). destruct Hx as [Hx|Hx]; apply cnt_In in Hx; lia.
  - intros x Hx. rewrite R3; [exact (I14 x Hx)|]. apply Hnot. specialize (I8 x). lia.
  - exact I15.
  - exact I16.
  - exact I17.
Qed.

(* --- Flush ------------------------------------------------------------------------------------ *)
Lemma pend_ok_snoc_root m ps idss bs o ids bytes :
  pend_ok m ps idss bs -> (forall d, ~ In (PFallback d) ps) -> chain_ok m o ids bytes ->
  pend_ok m (ps ++ [PRoot o]) (idss ++ [ids]) (bs ++ bytes).
Proof.
  intros H Hno Hc. induction H as [|o' ids' bytes' ps idss bs Hc' Hp IH|d ps bs Hd Hp IH].
  - cbn [app]. rewrite <- (app_nil_r bytes). apply po_root; [exact Hc|constructor].
  - cbn [app]. rewrite <- app_assoc. apply po_root; [exact Hc'|]. apply IH. intros d Hin. apply (Hno d). right. exact Hin.
  - exfalso. apply (Hno (fallback_slice d)). left. reflexivity.
Qed.

Lemma pend_ok_snoc_fb m ps idss bs d :
  pend_ok m ps idss bs -> d <> [] -> pend_ok m (ps ++ [PFallback (fallback_slice d)]) idss (bs ++ d).
Proof.
  intros H Hd. induction H as [|o' ids' bytes' ps idss bs Hc' Hp IH|d' ps bs Hd' Hp IH].
  - cbn [app]. assert (E : pend_ok m [PFallback (fallback_slice d)] [] (d ++ [])) by (apply po_fb; [exact Hd|constructor]).
    rewrite app_nil_r in E. exact E.
  - cbn [app]. rewrite <- app_assoc. apply po_root; [exact Hc'|exact IH].
  - cbn [app]. rewrite <- app_assoc. apply po_fb; [exact Hd'|exact IH].
Qed.

Lemma WB_clean m l : WB m (clean l).
Proof.
  constructor; cbn [clean slices wpos len fromshm]; try constructor; try reflexivity; try (intros H; congruence).
  - cbn. lia.
  - constructor.
Qed.

Lemma content_clean m l : content m (clean l) = [].
Proof. reflexivity. Qed.

Lemma Inv_flush_fallback s sp idss m1 :
  Inv s sp idss -> (0 < len (snd s))%Z ->
  (forall x, ~ In x (offs (slices (snd s))) -> slot_at m1 x = slot_at (mem s) x) ->
  free m1 = free (mem s) -> cls m1 = cls (mem s) -> store_ok m1 -> same_data (mem s) m1 -> cap_stable (mem s) m1 ->
  let l2 := set_leases (clean (snd s)) [] in
  Inv {| mem := recycle_all m1 (slices (snd s)); snd := clean l2; infb := true;
         pend := pend s ++ [PFallback (fallback_slice (underlying m1 (snd s)))]; rcv := rcv s; oth := oth s |}
      {| pw := []; infl := infl sp ++ pw sp; av := av sp |} idss.
Proof.
  intros [I1 I2 I3 I4 I5 I6 I7 I8 I9 [I10a I10b] I11 I12 I13 I14 I15 I16 I17] Hlen Hfr Hfree Hcls Hok1 Hsd Hcs l2.
  pose proof I2 as [W1 W2 W3 W4 W5 W6 W7].
  assert (Hfrees : frees m1 = frees (mem s)) by (unfold frees; rewrite Hfree; reflexivity).
  assert (Hund : underlying m1 (snd s) = pw sp).
  { unfold underlying. destruct (wpos (snd s)) as [|i|]; [| |contradiction].
    - unfold content in W3. rewrite W4 in W3. cbn in W3. lia.
    - rewrite firstn_all2 by lia. change (concat (map (body m1) (slices (snd s)))) with (content m1 (snd s)).
      rewrite (content_same _ _ _ Hsd). exact I3. }
  assert (Hrec : Forall (recyclable m1) (slices (snd s))).
  { eapply Forall_impl; [|exact W1]. intros a [_ [_ [_ [_ Ha]]]]. apply (recyclable_stable (mem s)); [exact Hcs|].
    intros E. destruct (Ha E) as [t [Ht [Hc _]]]. exists t. auto. }
  assert (Hdis : forall x, In x (offs (slices (snd s))) -> ~ In x (frees m1)).
  { intros x Hx. rewrite Hfrees. apply cnt_notin. apply cnt_In in Hx. specialize (I8 x). lia. }
  pose proof (recycle_all_spec (slices (snd s)) m1 Hok1 Hrec W2 Hdis) as [R1 R2 R3 R4 R5].
  set (m2 := recycle_all m1 (slices (snd s))) in *.
  assert (Hother : forall x, cnt (offs (slices (snd s))) x = 0 -> slot_at m2 x = slot_at (mem s) x).
  { intros x Hx. apply cnt_notin in Hx. rewrite R2 by exact Hx. apply Hfr. exact Hx. }
  assert (Hpwne : pw sp <> []).
  { intros E. rewrite W3, I3, E in Hlen. cbn in Hlen. lia. }
  constructor; cbn [mem snd pend rcv oth infb pw infl av].
  - exact R4.
  - apply WB_clean.
  - reflexivity.
  - rewrite Hund. apply pend_ok_snoc_fb; [|exact Hpwne]. apply (pend_ok_frame (mem s)); [|exact I4].
    intros x Hx. apply Hother. apply cnt_In in Hx. specialize (I8 x). lia.
  - apply (WF_frame (mem s)); [|exact I5]. intros x Hx. apply Hother. apply cnt_In in Hx. specialize (I8 x). lia.
  - rewrite (content_frame (mem s) m2); [exact I6|]. intros x Hx. apply Hother. apply cnt_In in Hx. specialize (I8 x). lia.
  - exact I7.
  - intros x. rewrite R1, Hfrees. cbn [clean slices l2 set_leases]. change (offs []) with (@nil nat). rewrite cnt_nil. specialize (I8 x). lia.
  - apply (recyclable_frame (mem s)); [|exact I9]. intros x Hx. rewrite offs_app in Hx. apply Hother.
    apply in_app_or in Hx. specialize (I8 x). destruct Hx as [Hx|Hx]; apply cnt_In in Hx; lia.
  - split; [exact I10a|]. apply (recyclable_frame (mem s)); [|exact I10b]. intros x Hx. apply Hother. apply cnt_In in Hx. specialize (I8 x). lia.
  - exact I11.
  - intros E. discriminate.
  - apply (leases_ok_frame (mem s)); [|exact I13]. intros x Hx. apply Hother. specialize (I8 x). destruct Hx as [Hx|Hx]; apply cnt_In in Hx; lia.
  - intros x Hx. rewrite Hother; [exact (I14 x Hx)|]. specialize (I8 x). lia.
  - exact I15.
  - exact I16.
  - destruct I17 as [A1 [A2 A3]]. cbn [clean l2 set_leases pinned recycled leases]. repeat split; auto.
Qed.

Lemma Inv_flush s sp idss : Inv s sp idss ->
  exists s' idss', flush s = Ok s' /\ Inv s' {| pw := []; infl := infl sp ++ pw sp; av := av sp |} idss'.
Proof.
  intros I. pose proof I as [I1 I2 I3 I4 I5 I6 I7 I8 I9 [I10a I10b] I11 I12 I13 I14 I15 I16 I17]. pose proof I2 as [W1 W2 W3 W4 W5 W6 W7].
  unfold flush_gen. destruct (Z.eqb_spec (len (snd s)) 0) as [Hz|Hnz].
  - exists s, idss. split; [reflexivity|].
    assert (Hpw : pw sp = []) by (apply length_zero_iff_nil; rewrite W3, I3 in Hz; lia).
    apply (Inv_spec_eq s sp); cbn [pw infl av]; auto. rewrite Hpw, app_nil_r. reflexivity.
  - assert (Hlen : (0 < len (snd s))%Z) by (rewrite W3 in *; lia).
    destruct (fromshm (snd s)) eqn:Ef.
    + destruct (done_chain (mem s) (snd s) (wpre_of_Inv _ _ _ I) Ef Hlen) as [m1 [Hd [[D1 D2 D3 D4 D5 D6 D7] Hne]]].
      rewrite Hd. cbn [bind]. rewrite Ef. cbn [negb]. rewrite orb_false_r.
      cbn [andb].     (* the sticky variant *)
      destruct (infb s) eqn:Eb.
      * (* the stream is already in fallback state *)
        unfold lb_recycle, clean_pinned. rewrite (proj1 I17). eexists. exists idss. split; [reflexivity|].
        apply (Inv_flush_fallback s sp idss m1 I Hlen D2 D3 D4 D5 D6 D7).
      * (* through shared memory *)
        destruct (slices (snd s)) as [|f r] eqn:Esl; [congruence|]. rewrite <- Esl in *.
        eexists. exists (idss ++ [offs (slices (snd s))]). split; [reflexivity|].
        destruct (I12 eq_refl) as [Hrs Hnofb].
        assert (Hother : forall x, cnt (offs (slices (snd s))) x = 0 -> slot_at m1 x = slot_at (mem s) x).
        { intros x Hx. apply D2. apply cnt_notin. exact Hx. }
        assert (Hfrees : frees m1 = frees (mem s)) by (unfold frees; rewrite D3; reflexivity).
        assert (Hhd : off (hd dummy (slices (snd s))) = off f) by (rewrite Esl; reflexivity).
        constructor; cbn [mem snd pend rcv oth infb pw infl av].
        -- exact D5.
        -- apply WB_clean.
        -- reflexivity.
        -- apply pend_ok_snoc_root; [|exact Hnofb|].
           ++ apply (pend_ok_frame (mem s)); [|exact I4]. intros x Hx. apply Hother. apply cnt_In in Hx. specialize (I8 x). lia.
           ++ rewrite <- Hhd, <- I3. exact D1.
        -- apply (WF_frame (mem s)); [|exact I5]. intros x Hx. apply Hother. apply cnt_In in Hx. specialize (I8 x). lia.
        -- rewrite (content_frame (mem s) m1); [exact I6|]. intros x Hx. apply Hother. apply cnt_In in Hx. specialize (I8 x). lia.
        -- exact I7.
        -- intros x. rewrite Hfrees, concat_app, cnt_app. cbn [concat clean slices]. rewrite app_nil_r.
           change (offs []) with (@nil nat). rewrite cnt_nil. specialize (I8 x). lia.
        -- apply (recyclable_frame (mem s)); [|exact I9]. intros x Hx. rewrite offs_app in Hx. apply Hother.
           apply in_app_or in Hx. specialize (I8 x). destruct Hx as [Hx|Hx]; apply cnt_In in Hx; lia.
        -- split; [exact I10a|]. apply (recyclable_frame (mem s)); [|exact I10b]. intros x Hx. apply Hother. apply cnt_In in Hx. specialize (I8 x). lia.
        -- intros _. exact Hrs.
        -- intros _. split; [exact Hrs|]. intros d Hin. apply in_app_or in Hin. destruct Hin as [Hin|[Hin|[]]]; [apply (Hnofb d); exact Hin|discriminate].
        -- apply (leases_ok_frame (mem s)); [|exact I13]. intros x Hx. apply Hother. specialize (I8 x). destruct Hx as [Hx|Hx]; apply cnt_In in Hx; lia.
        -- intros x Hx. rewrite Hother; [exact (I14 x Hx)|]. specialize (I8 x). lia.
        -- exact I15.
        -- exact I16.
        -- destruct I17 as [A1 [A2 A3]]. cbn [clean pinned recycled leases]. repeat split; auto.
    + (* the buffer left shared memory: fallback *)
      unfold lb_done. rewrite Ef. cbn [bind]. rewrite Ef. cbn [negb]. rewrite orb_true_r.
      unfold lb_recycle, clean_pinned. rewrite (proj1 I17). eexists. exists idss. split; [reflexivity|].
      apply (Inv_flush_fallback s sp idss (mem s) I Hlen); auto.
      * apply same_data_refl.
      * apply cap_stable_refl.
Qed.

(* --- Stream.readMore (without the waiting) ---------------------------------------------------- *)
Lemma lease_held_prefix l l' le : (exists app, slices l' = slices l ++ app) -> pinned l' = pinned l -> curp l' = curp l ->
  lease_held l le -> lease_held l' le.
Proof.
  intros [app Ha] Hp Hc H Hs. destruct (H Hs) as [[C [s [r [E [E1 E2]]]]]|Hin].
  - left. split; [congruence|]. exists s, (r ++ app). rewrite Ha, E. auto.
  - right. rewrite Hp. exact Hin.
Qed.

Lemma Inv_read_more s sp idss n : Inv s sp idss ->
  match spec_more n sp with
  | None => read_more n s = Blocked
  | Some sp1 => exists s1 idss1, read_more n s = Ok s1 /\ Inv s1 sp1 idss1 /\ n <= length (av sp1)
  end.
Proof.
  intros I. pose proof (Inv_lens _ _ _ I) as [Hl _]. pose proof I as [I1 I2 I3 I4 I5 I6 I7 I8 I9 [I10a I10b] I11 I12 I13 I14 I15 I16 I17].
  unfold spec_more, read_more. rewrite Hl.
  destruct (Nat.ltb_spec (length (av sp)) n) as [Hlt|Hge].
  - destruct (Z.ltb_spec (Z.of_nat (length (av sp))) (Z.of_nat n)) as [_|]; [|lia].
    destruct (move_to_spec (pend s) idss (infl sp) (mem s) (rcv s) I1 I5 I4) as [m1 [l1 [Hrun [M Mshm]]]].
    + intros x. specialize (I8 x). lia.
    + exact I11.
    + rewrite Hrun. cbn [bind]. destruct M as [M1 M2 M3 M4 Mm M6 M7 M8 Mc Ms M9 M10 M11 M12 M13 Mst Mrw].
      assert (Hl1 : len l1 = Z.of_nat (length (av sp ++ infl sp))).
      { rewrite (wf_len _ _ M1), M2, I6. reflexivity. }
      rewrite Hl1, app_length.
      destruct (Nat.ltb_spec (length (av sp) + length (infl sp)) n) as [Hb|Hnb].
      * destruct (Z.ltb_spec (Z.of_nat (length (av sp) + length (infl sp))) (Z.of_nat n)) as [_|]; [reflexivity|lia].
      * destruct (Z.ltb_spec (Z.of_nat (length (av sp) + length (infl sp))) (Z.of_nat n)) as [|_]; [lia|].
        eexists. exists []. split; [reflexivity|]. split; [|cbn [av]; rewrite app_length; lia].
        assert (Hother : forall x, cnt (concat idss) x = 0 -> cnt (offs (slices (rcv s))) x = 0 -> slot_at m1 x = slot_at (mem s) x).
        { intros x H1 H2. apply M4; apply cnt_notin; assumption. }
        destruct M9 as [app Happ].
        constructor; cbn [mem snd pend rcv oth infb pw infl av].
        -- exact M6.
        -- apply (WB_frame (mem s)); [|exact I2]. intros x Hx. apply cnt_In in Hx. specialize (I8 x). apply Hother; lia.
        -- rewrite (content_frame (mem s) m1); [exact I3|]. intros x Hx. apply cnt_In in Hx. specialize (I8 x). apply Hother; lia.
        -- constructor.
        -- exact M1.
        -- rewrite M2, I6. reflexivity.
        -- rewrite M12. exact I7.
        -- intros x. specialize (M3 x). specialize (I8 x). rewrite M10. cbn [concat]. rewrite cnt_nil. lia.
        -- apply Forall_app in I9. destruct I9 as [I9a I9b]. apply Forall_app. split; [apply Ms; exact I9a|].
           rewrite M10. eapply Forall_impl; [|exact I9b]. intros a Ha. apply (recyclable_stable (mem s)); [exact Mc|exact Ha].
        -- split; [exact I10a|]. eapply Forall_impl; [|exact I10b]. intros a Ha. apply (recyclable_stable (mem s)); [exact Mc|exact Ha].
        -- intros E. congruence.
        -- intros Eb. destruct (I12 Eb) as [Hrs Hnofb]. split; [apply Mshm; assumption|intros d []].
        -- intros le Hin. rewrite M13 in Hin. destruct (I13 le Hin) as [Hh Hb]. split.
           ++ apply (lease_held_prefix (rcv s) l1); [exists app; exact Happ|exact M10|exact M11|exact Hh].
           ++ intros Hs. rewrite (lease_bytes_same (mem s) m1 le M8). apply Hb. exact Hs.
        -- intros x Hx. specialize (I8 x). rewrite Hother by lia. exact (I14 x Hx).
        -- apply Mst. exact I15.
        -- apply Mrw. exact I16.
        -- exact I17.
  - destruct (Z.ltb_spec (Z.of_nat (length (av sp))) (Z.of_nat n)) as [|_]; [lia|].
    exists s, idss. split; [reflexivity|]. split; [exact I|exact Hge].
Qed.

(* --- a reader operation on a buffer that holds enough ------------------------------------------ *)
Lemma reader_step {A} s sp idss (f : shm -> lbuf -> outcome (A * lbuf)) (g : A -> res) a l2 c :
  Inv s sp idss -> f (mem s) (rcv s) = Ok (a, l2) -> revolve (mem s) (rcv s) l2 ->
  WF (mem s) l2 -> content (mem s) l2 = c ->
  (allshm (slices (rcv s)) -> allshm (slices l2)) ->
  exists s', rd_op s f g = Ok (g a, s') /\ Inv s' (with_av sp c) idss.
Proof.
  intros [I1 I2 I3 I4 I5 I6 I7 I8 I9 [I10a I10b] I11 I12 I13 I14 I15 I16 I17] Hf Hrev Hwf Hc Hshm.
  unfold rd_op. rewrite Hf. cbn [bind]. unfold settle. eexists. split; [reflexivity|].
  destruct (revolve_keeps (mem s) (rcv s) l2 (recyclable (mem s)) (fun s0 k H => H) Hrev) as [K1 [K2 [K3 [K4 K5]]]].
  assert (Hrs : Forall (recyclable (mem s)) (rslots l2)).
  { apply K2. unfold rslots. rewrite I7, app_nil_r. exact I9. }
  unfold rslots in Hrs. apply Forall_app in Hrs. destruct Hrs as [Hr1 Hr23]. apply Forall_app in Hr23. destruct Hr23 as [Hr2 Hr3].
  assert (Hrown : forall x, cnt (offs (slices l2)) x + cnt (offs (pinned l2)) x + cnt (offs (recycled l2)) x
                            = cnt (offs (slices (rcv s))) x + cnt (offs (pinned (rcv s))) x).
  { intros x. pose proof (K1 x) as E. unfold rown in E. rewrite I7 in E. change (offs []) with (@nil nat) in E. rewrite cnt_nil in E. lia. }
  assert (Hnd : NoDup (offs (recycled l2))) by (apply NoDup_cnt; intros x; specialize (Hrown x); specialize (I8 x); lia).
  assert (Hdis : forall x, In x (offs (recycled l2)) -> ~ In x (frees (mem s))).
  { intros x Hx. apply cnt_notin. apply cnt_In in Hx. specialize (Hrown x). specialize (I8 x). lia. }
  pose proof (recycle_all_spec (recycled l2) (mem s) I1 Hr3 Hnd Hdis) as [R1 R2 R3 R4 R5].
  set (m2 := recycle_all (mem s) (recycled l2)) in *.
  assert (Hother : forall x, cnt (offs (recycled l2)) x = 0 -> slot_at m2 x = slot_at (mem s) x).
  { intros x Hx. apply R2. apply cnt_notin. exact Hx. }
  constructor; cbn [mem snd pend rcv oth infb with_mem_rcv with_av pw infl av slices pinned recycled set_recycled leases curp].
  - exact R4.
  - apply (WB_frame (mem s)); [|exact I2]. intros x Hx. apply cnt_In in Hx. specialize (I8 x). specialize (Hrown x). apply Hother; lia.
  - rewrite (content_frame (mem s) m2); [exact I3|]. intros x Hx. apply cnt_In in Hx. specialize (I8 x). specialize (Hrown x). apply Hother; lia.
  - apply (pend_ok_frame (mem s)); [|exact I4]. intros x Hx. apply cnt_In in Hx. specialize (I8 x). specialize (Hrown x). apply Hother; lia.
  - apply (WF_same (mem s) m2 _ R5). apply (WF_fields (mem s) l2); [reflexivity|reflexivity|exact Hwf].
  - rewrite (content_same _ _ _ R5). exact Hc.
  - reflexivity.
  - intros x. rewrite R1. specialize (Hrown x). specialize (I8 x). lia.
  - apply Forall_app. split; [eapply Forall_impl; [|exact Hr1]|eapply Forall_impl; [|exact Hr2]]; intros a0 Ha;
      (apply (recyclable_stable (mem s)); [apply cap_stable_recycle_all|exact Ha]).
  - split; [exact I10a|]. eapply Forall_impl; [|exact I10b]. intros a0 Ha. apply (recyclable_stable (mem s)); [apply cap_stable_recycle_all|exact Ha].
  - intros E. apply Hshm. apply I11. exact E.
  - intros Eb. destruct (I12 Eb) as [Hrs Hnofb]. split; [apply Hshm; exact Hrs|exact Hnofb].
  - apply (leases_ok_data (mem s) m2 _ R5). intros le Hin. exact (K3 I13 le Hin).
  - intros x Hx. specialize (Hrown x). specialize (I8 x). rewrite Hother by lia. exact (I14 x Hx).
  - destruct (revolve_keeps (mem s) (rcv s) l2 (fun s0 => start s0 = 0) (fun s0 k H => H) Hrev) as [_ [_ [_ [S4 _]]]]. exact (S4 I15).
  - exact (K5 I16).
  - exact I17.
Qed.

(* --- releases and close ------------------------------------------------------------------------ *)
Lemma leases_ok_nil m l : leases l = [] -> leases_ok m l.
Proof. intros E le Hin. rewrite E in Hin. contradiction. Qed.

Lemma Inv_clean_pinned s sp idss :
  Inv s sp idss ->
  let '(m1, l1) := clean_pinned (mem s) (rcv s) in
  Inv (with_mem_rcv s m1 (set_leases l1 [])) sp idss /\ pinned l1 = [] /\ slices l1 = slices (rcv s) /\ wpos l1 = wpos (rcv s)
  /\ len l1 = len (rcv s).
Proof.
  intros I. pose proof I as [I1 I2 I3 I4 I5 I6 I7 I8 I9 [I10a I10b] I11 I12 I13 I14 I15 I16 I17]. unfold clean_pinned.
  destruct (pinned (rcv s)) as [|p ps] eqn:Ep.
  - split; [|auto]. constructor; cbn [mem snd pend rcv oth infb with_mem_rcv slices pinned recycled set_leases leases]; auto.
    + apply (WF_fields (mem s) (rcv s)); [reflexivity|reflexivity|exact I5].
    + rewrite Ep. exact I8.
    + rewrite Ep. exact I9.
    + apply leases_ok_nil. reflexivity.
  - rewrite <- Ep in *. apply Forall_app in I9. destruct I9 as [I9a I9b].
    assert (Hnd : NoDup (offs (pinned (rcv s)))) by (apply NoDup_cnt; intros x; specialize (I8 x); lia).
    assert (Hdis : forall x, In x (offs (pinned (rcv s))) -> ~ In x (frees (mem s))).
    { intros x Hx. apply cnt_notin. apply cnt_In in Hx. specialize (I8 x). lia. }
    pose proof (recycle_all_spec (pinned (rcv s)) (mem s) I1 I9b Hnd Hdis) as [R1 R2 R3 R4 R5].
    set (m1 := recycle_all (mem s) (pinned (rcv s))) in *.
    assert (Hother : forall x, cnt (offs (pinned (rcv s))) x = 0 -> slot_at m1 x = slot_at (mem s) x).
    { intros x Hx. apply R2. apply cnt_notin. exact Hx. }
    split; [|auto].
    constructor; cbn [mem snd pend rcv oth infb with_mem_rcv slices pinned recycled set_leases set_curp set_pinned leases].
    + exact R4.
    + apply (WB_frame (mem s)); [|exact I2]. intros x Hx. apply cnt_In in Hx. specialize (I8 x). apply Hother; lia.
    + rewrite (content_frame (mem s) m1); [exact I3|]. intros x Hx. apply cnt_In in Hx. specialize (I8 x). apply Hother; lia.
    + apply (pend_ok_frame (mem s)); [|exact I4]. intros x Hx. apply cnt_In in Hx. specialize (I8 x). apply Hother; lia.
    + apply (WF_same (mem s) m1 _ R5). apply (WF_fields (mem s) (rcv s)); [reflexivity|reflexivity|exact I5].
    + rewrite (content_same _ _ _ R5). exact I6.
    + exact I7.
    + intros x. rewrite R1. change (offs []) with (@nil nat). rewrite cnt_nil. specialize (I8 x). lia.
    + rewrite app_nil_r. eapply Forall_impl; [|exact I9a]. intros a Ha. apply (recyclable_stable (mem s)); [apply cap_stable_recycle_all|exact Ha].
    + split; [exact I10a|]. eapply Forall_impl; [|exact I10b]. intros a Ha. apply (recyclable_stable (mem s)); [apply cap_stable_recycle_all|exact Ha].
    + exact I11.
    + exact I12.
    + apply leases_ok_nil. reflexivity.
    + intros x Hx. specialize (I8 x). rewrite Hother by lia. exact (I14 x Hx).
    + exact I15.
    + exact I16.
    + exact I17.
Qed.

Lemma Inv_drop_front s sp idss x r :
  Inv s sp idss -> slices (rcv s) = x :: r -> ssize x = 0 -> leases (rcv s) = [] -> wpos (rcv s) = WAt 0 ->
  Inv (with_mem_rcv s (recycle (mem s) x) (set_wpos (set_slices (rcv s) r) WNil)) sp idss.
Proof.
  intros I Es Hz Hle Hwp0. pose proof I as [I1 I2 I3 I4 I5 I6 I7 I8 I9 [I10a I10b] I11 I12 I13 I14 I15 I16 I17].
  assert (Hrnil : length r = 0).
  { destruct I16 as [Hn|Hw]; [congruence|]. rewrite Es, Hwp0 in Hw. cbn [length] in Hw. injection Hw as Hw. lia. }
  assert (Hst' : start0 r) by (unfold start0 in *; rewrite Es in I15; inversion I15; assumption).
  pose proof I5 as [G1 G2 G3]. rewrite Es in G2, G3. inversion G3 as [|? ? Gx Gr]; subst.
  assert (Hb0 : body (mem s) x = []) by (apply length_zero_iff_nil; rewrite (body_length (mem s) x Gx); exact Hz).
  assert (Hc0 : content (mem s) (set_wpos (set_slices (rcv s) r) WNil) = content (mem s) (rcv s)).
  { unfold content. cbn [slices set_wpos set_slices]. rewrite Es. cbn [map concat]. rewrite Hb0. reflexivity. }
  assert (Hwf0 : WF (mem s) (set_wpos (set_slices (rcv s) r) WNil)).
  { constructor.
    - rewrite Hc0. exact G1.
    - cbn [slices set_wpos set_slices]. apply tailpos_tl. exact G2.
    - exact Gr. }
  rewrite Es in I9. cbn [app] in I9. inversion I9 as [|? ? Rx Rr]; subst.
  destruct (shmf x) eqn:Ex.
  - assert (Hoffs : offs (slices (rcv s)) = off x :: offs r) by (rewrite Es; apply offs_cons_shm; exact Ex).
    assert (Hnf : ~ In (off x) (frees (mem s))).
    { apply cnt_notin. specialize (I8 (off x)). rewrite Hoffs, cnt_cons, ind_same in I8. lia. }
    pose proof (recycle_spec (mem s) x I1 Ex Hnf (Rx Ex)) as [R1 R2 R3 R4 R5].
    assert (Hother : forall y, y <> off x -> slot_at (recycle (mem s) x) y = slot_at (mem s) y) by exact R3.
    assert (Hne : forall y, cnt (offs (slices (rcv s))) y = 0 \/ (0 < cnt (offs r) y) -> y <> off x).
    { intros y Hy ->. specialize (I8 (off x)). rewrite Hoffs, cnt_cons, ind_same in *. lia. }
    pose proof (same_data_recycle (mem s) x) as Hsd.
    constructor; cbn [mem snd pend rcv oth infb with_mem_rcv slices pinned recycled set_wpos set_slices leases].
    + exact R5.
    + apply (WB_frame (mem s)); [|exact I2]. intros y Hy. apply cnt_In in Hy. specialize (I8 y). apply Hother, Hne. left. lia.
    + rewrite (content_frame (mem s) _); [exact I3|]. intros y Hy. apply cnt_In in Hy. specialize (I8 y). apply Hother, Hne. left. lia.
    + apply (pend_ok_frame (mem s)); [|exact I4]. intros y Hy. apply cnt_In in Hy. specialize (I8 y). apply Hother, Hne. left. lia.
    + apply (WF_same _ _ _ Hsd). exact Hwf0.
    + rewrite (content_same _ _ _ Hsd), Hc0. exact I6.
    + exact I7.
    + intros y. rewrite R1. specialize (I8 y). rewrite Hoffs, cnt_cons in I8. lia.
    + eapply Forall_impl; [|exact Rr]. intros a Ha. apply (recyclable_stable (mem s)); [apply cap_stable_recycle|exact Ha].
    + split; [exact I10a|]. eapply Forall_impl; [|exact I10b]. intros a Ha. apply (recyclable_stable (mem s)); [apply cap_stable_recycle|exact Ha].
    + intros E. specialize (I11 E). unfold allshm in *. rewrite Es in I11. inversion I11; assumption.
    + intros E. destruct (I12 E) as [A B]. split; [|exact B]. unfold allshm in *. rewrite Es in A. inversion A; assumption.
    + apply leases_ok_nil. exact Hle.
    + intros y Hy. specialize (I8 y). rewrite Hother; [exact (I14 y Hy)|apply Hne; left; lia].
    + exact Hst'.
    + left. apply length_zero_iff_nil. exact Hrnil.
    + exact I17.
  - rewrite (recycle_heap (mem s) x Ex).
    assert (Hoffs : offs (slices (rcv s)) = offs r) by (rewrite Es; apply offs_cons_heap; exact Ex).
    constructor; cbn [mem snd pend rcv oth infb with_mem_rcv slices pinned recycled set_wpos set_slices leases]; auto.
    + rewrite Hc0. exact I6.
    + intros y. specialize (I8 y). rewrite Hoffs in I8. exact I8.
    + intros E. specialize (I11 E). unfold allshm in *. rewrite Es in I11. inversion I11; assumption.
    + intros E. destruct (I12 E) as [A B]. split; [|exact B]. unfold allshm in *. rewrite Es in A. inversion A; assumption.
    + apply leases_ok_nil. exact Hle.
    + left. apply length_zero_iff_nil. exact Hrnil.
Qed.

Lemma Inv_release s sp idss : Inv s sp idss ->
  let '(m1, l1) := release (mem s) (rcv s) in Inv (with_mem_rcv s m1 l1) sp idss.
Proof.
  intros I. pose proof (Inv_clean_pinned s sp idss I) as H. unfold release.
  destruct (clean_pinned (mem s) (rcv s)) as [m1 l1]. destruct H as [I' [Hp [Hs [Hw Hl]]]].
  cbn [slices set_leases wpos].
  destruct (slices l1) as [|x r] eqn:Es; [exact I'|].
  destruct (wpos l1) as [|[|k]|] eqn:Ew; try exact I'.
  destruct (Nat.eqb_spec (ssize x) 0) as [Hz|Hnz]; [|exact I'].
  pose proof (Inv_drop_front (with_mem_rcv s m1 (set_leases l1 [])) sp idss x r I') as D.
  cbn [mem rcv with_mem_rcv slices set_leases leases wpos] in D. apply D; auto.
Qed.

(* what the slice kept by releasePreviousReadAndReserve looks like (it is adopted as a write buffer when
   Stream.ReleaseReadAndReuse swaps) *)
Definition reserved_shape (m1 : shm) (l1 : lbuf) : Prop :=
  pinned l1 = [] /\ leases l1 = [] /\
  (len l1 = 0%Z -> length (slices l1) = 1 ->
   exists y t, slices l1 = [y] /\ shmf y = true /\ rd y = 0 /\ wr y = 0 /\ slot_at m1 (off y) = Some t /\ st_hasnext t = false).

Lemma Inv_release_reserve s sp idss : Inv s sp idss ->
  let '(m1, l1) := release_reserve (mem s) (rcv s) in Inv (with_mem_rcv s m1 l1) sp idss /\ reserved_shape m1 l1.
Proof.
  intros I. pose proof (Inv_clean_pinned s sp idss I) as H. unfold release_reserve.
  destruct (clean_pinned (mem s) (rcv s)) as [m1 l1]. destruct H as [I' [Hp [Hs [Hw Hl]]]].
  cbn [len set_leases slices].
  destruct (Z.eqb_spec (len l1) 0) as [Hz|Hnz];
    [|split; [exact I'|split; [exact Hp|split; [reflexivity|cbn [len set_leases]; intros; lia]]]].
  destruct (slices l1) as [|x [|x2 r]] eqn:Es;
    try (split; [exact I'|split; [exact Hp|split; [reflexivity|cbn [slices set_leases]; rewrite Es; cbn [length]; intros; lia]]]).
  pose proof I' as [I1 I2 I3 I4 I5 I6 I7 I8 I9 [I10a I10b] I11 I12 I13 I14 I15 I16 I17].
  cbn [mem snd pend rcv oth infb with_mem_rcv slices pinned recycled set_leases leases] in *.
  assert (Hav : av sp = []).
  { apply length_zero_iff_nil. destruct I5 as [G1 _ _]. cbn [len set_leases] in G1. rewrite I6 in G1. lia. }
  rewrite Es in I9. cbn [app] in I9. inversion I9 as [|? ? Rx Rr]; subst.
  destruct (shmf x) eqn:Ex.
  - (* keep the slot as the next write buffer: reset header and indices *)
    assert (Hoffs : offs [x] = [off x]) by (apply (offs_cons_shm x [] Ex)).
    assert (Hnf : ~ In (off x) (frees m1)).
    { apply cnt_notin. specialize (I8 (off x)). rewrite Es, Hoffs, cnt_cons, ind_same in I8. lia. }
    set (m2 := upd_slot m1 (off x) hdr_reset).
    assert (Hother : forall y, y <> off x -> slot_at m2 y = slot_at m1 y) by (intros y Hy; apply slot_at_upd_other; exact Hy).
    assert (Hne : forall y, cnt (offs [x]) y = 0 -> y <> off x).
    { intros y Hy ->. rewrite Hoffs, cnt_cons, ind_same in Hy. lia. }
    assert (Hsd : same_data m1 m2) by (apply same_data_upd_hdr; reflexivity).
    split; [|split; [exact Hp|split; [reflexivity|]]].
    2: { intros _ _. destruct (Rx Ex) as [t [Ht _]]. exists (sreset x), (hdr_reset t). repeat split; auto.
         unfold m2. apply slot_at_upd_same. exact Ht. }
    constructor; cbn [mem snd pend rcv oth infb with_mem_rcv slices pinned recycled set_slices set_leases leases].
    + apply store_ok_upd; [exact I1|intros t; split; reflexivity|exact Hnf].
    + apply (WB_frame m1); [|exact I2]. intros y Hy. apply cnt_In in Hy. specialize (I8 y). rewrite Es in I8. apply Hother, Hne. lia.
    + rewrite (content_frame m1 m2); [exact I3|]. intros y Hy. apply cnt_In in Hy. specialize (I8 y). rewrite Es in I8. apply Hother, Hne. lia.
    + apply (pend_ok_frame m1); [|exact I4]. intros y Hy. apply cnt_In in Hy. specialize (I8 y). rewrite Es in I8. apply Hother, Hne. lia.
    + constructor.
      * unfold content. cbn [slices set_slices map concat len set_leases]. rewrite (body_nil m2 (sreset x)) by reflexivity. cbn. exact Hz.
      * cbn [slices set_slices tl]. constructor.
      * cbn [slices set_slices]. constructor; [|constructor]. unfold slice_ok, sreset. cbn [rd wr]. lia.
    + rewrite Hav. unfold content. cbn [slices set_slices map concat]. rewrite (body_nil m2 (sreset x)) by reflexivity. reflexivity.
    + exact I7.
    + intros y. specialize (I8 y). rewrite Es in I8. exact I8.
    + cbn [app]. constructor; [|eapply Forall_impl; [|exact Rr]; intros a Ha; apply (recyclable_stable m1); [apply cap_stable_upd; reflexivity|exact Ha]].
      apply (recyclable_stable m1 m2 (sreset x)); [apply cap_stable_upd; reflexivity|exact Rx].
    + split; [exact I10a|]. eapply Forall_impl; [|exact I10b]. intros a Ha. apply (recyclable_stable m1); [apply cap_stable_upd; reflexivity|exact Ha].
    + intros _. constructor; [exact Ex|constructor].
    + intros E. destruct (I12 E) as [A B]. split; [constructor; [exact Ex|constructor]|exact B].
    + apply leases_ok_nil. reflexivity.
    + intros y Hy. specialize (I8 y). rewrite Es in I8. rewrite Hother; [exact (I14 y Hy)|apply Hne; lia].
    + unfold start0 in *. rewrite Es in I15. inversion I15; subst. constructor; [assumption|constructor].
    + right. unfold rwp in I16. cbn [slices wpos set_leases set_slices] in *. rewrite Es in I16.
      destruct I16 as [Hn|Hw0]; [discriminate|]. exact Hw0.
    + exact I17.
  - (* a heap slice is simply dropped *)
    assert (Hoffs : offs [x] = []) by (apply (offs_cons_heap x [] Ex)).
    split; [|split; [exact Hp|split; [reflexivity|cbn; intros; lia]]].
    constructor; cbn [mem snd pend rcv oth infb with_mem_rcv slices pinned recycled set_wpos set_slices set_leases leases]; auto.
    + constructor; cbn [slices set_wpos set_slices set_leases len]; [rewrite Hz; reflexivity|constructor|constructor].
    + intros y. specialize (I8 y). rewrite Es, Hoffs in I8. exact I8.
    + intros _. constructor.
    + intros E. destruct (I12 E) as [A B]. split; [constructor|exact B].
    + apply leases_ok_nil. reflexivity.
    + constructor.
    + left. reflexivity.
Qed.

Lemma Inv_close0 s sp idss : Inv s sp idss ->
  Inv (with_mem_rcv s (recycle_all (mem s) (slices (rcv s))) (set_leases (clean (rcv s)) [])) (with_av sp []) idss.
Proof.
  intros I. pose proof I as [I1 I2 I3 I4 I5 I6 I7 I8 I9 [I10a I10b] I11 I12 I13 I14 I15 I16 I17].
  apply Forall_app in I9. destruct I9 as [I9a I9b].
  assert (Hnd : NoDup (offs (slices (rcv s)))) by (apply NoDup_cnt; intros x; specialize (I8 x); lia).
  assert (Hdis : forall x, In x (offs (slices (rcv s))) -> ~ In x (frees (mem s))).
  { intros x Hx. apply cnt_notin. apply cnt_In in Hx. specialize (I8 x). lia. }
  pose proof (recycle_all_spec (slices (rcv s)) (mem s) I1 I9a Hnd Hdis) as [R1 R2 R3 R4 R5].
  set (m1 := recycle_all (mem s) (slices (rcv s))) in *.
  assert (Hother : forall x, cnt (offs (slices (rcv s))) x = 0 -> slot_at m1 x = slot_at (mem s) x).
  { intros x Hx. apply R2. apply cnt_notin. exact Hx. }
  constructor; cbn [mem snd pend rcv oth infb with_mem_rcv with_av pw infl av slices pinned recycled set_leases clean leases].
  - exact R4.
  - apply (WB_frame (mem s)); [|exact I2]. intros x Hx. apply cnt_In in Hx. specialize (I8 x). apply Hother; lia.
  - rewrite (content_frame (mem s) m1); [exact I3|]. intros x Hx. apply cnt_In in Hx. specialize (I8 x). apply Hother; lia.
  - apply (pend_ok_frame (mem s)); [|exact I4]. intros x Hx. apply cnt_In in Hx. specialize (I8 x). apply Hother; lia.
  - constructor; cbn; constructor.
  - reflexivity.
  - exact I7.
  - intros x. rewrite R1. change (offs []) with (@nil nat). rewrite cnt_nil. specialize (I8 x). lia.
  - cbn [app]. eapply Forall_impl; [|exact I9b]. intros a Ha. apply (recyclable_stable (mem s)); [apply cap_stable_recycle_all|exact Ha].
  - split; [exact I10a|]. eapply Forall_impl; [|exact I10b]. intros a Ha. apply (recyclable_stable (mem s)); [apply cap_stable_recycle_all|exact Ha].
  - intros _. constructor.
  - intros E. destruct (I12 E) as [A B]. split; [constructor|exact B].
  - apply leases_ok_nil. reflexivity.
  - intros x Hx. specialize (I8 x). rewrite Hother by lia. exact (I14 x Hx).
  - constructor.
  - left. reflexivity.
  - exact I17.
Qed.

(* recycle(): the parked slices first (cleanPinnedList), then the list *)
Lemma Inv_close s sp idss : Inv s sp idss ->
  let '(m1, l1) := lb_recycle (mem s) (rcv s) in Inv (with_mem_rcv s m1 l1) (with_av sp []) idss.
Proof.
  intros I. pose proof (Inv_clean_pinned s sp idss I) as H. unfold lb_recycle.
  destruct (clean_pinned (mem s) (rcv s)) as [m1 l1]. destruct H as [I' _].
  exact (Inv_close0 _ _ _ I').
Qed.

(* ---------------------------------------------------------------------------------------- *)
(* every operation preserves the invariant and answers like the byte queue                   *)
(* ---------------------------------------------------------------------------------------- *)
Lemma Inv_eta s sp idss : Inv s sp idss ->
  Inv {| mem := mem s; snd := snd s; infb := infb s; pend := pend s; rcv := rcv s; oth := oth s |} sp idss.
Proof. destruct s. auto. Qed.

Lemma revolve_allshm m l l' : revolve m l l' -> allshm (slices l) -> allshm (slices l').
Proof.
  intros H. destruct (revolve_keeps m l l' (fun x => shmf x = true) (fun s0 k E => E) H) as [_ [_ [_ [K _]]]]. exact K.
Qed.

(* the state ReleaseReadAndReuse leaves in the send position *)
Lemma adopt_wrote m l n b m1 :
  store_ok m -> (forall x, cnt (frees m) x + cnt (offs (slices l)) x <= 1) -> slices l = [] -> len l = 0%Z ->
  allocShmBuffer m n = Some (b, m1) ->
  wrote m l [] m1 (set_wpos (push_back l b) (WAt 0)).
Proof.
  intros Hok Hown Hsl Hlen Hal.
  assert (Hnd : NoDup (frees m)) by (apply NoDup_cnt; intros x; specialize (Hown x); lia).
  destruct (allocShmBuffer_spec m n b m1 Hok Hnd Hal) as [j [P _]].
  pose proof (popsR_snoc m [] m j b m1 Hnd (popsR_nil m Hok Hnd) P) as PR. cbn [app] in PR.
  destruct PR as [Q1 Q2 Q3 Q4 Q5 Q6]. inversion Q2 as [|? ? Hb _]; subst.
  destruct (fresh_wslice_ok m m1 b Hok Hb) as [Hwb [Hbody [Hwr Hroom]]].
  assert (Hshm : shmf b = true) by (destruct Hb; assumption).
  assert (Hoffs : offs [b] = [off b]) by (apply (offs_cons_shm b [] Hshm)).
  constructor.
  - constructor; try reflexivity; cbn [slices set_wpos push_back set_slices]; rewrite ?Hsl; cbn [app].
    + intros x. specialize (Q1 x). change (offs []) with (@nil nat). rewrite cnt_nil. lia.
    + intros x. specialize (Q1 x). lia.
    + intros x Hx. apply Q3. exact Hx.
    + exact Q5.
    + exact Q4.
  - constructor; cbn [slices set_wpos push_back set_slices wpos len fromshm]; rewrite ?Hsl; cbn [app length].
    + constructor; [exact Hwb|constructor].
    + rewrite Hoffs. constructor; [intros []|constructor].
    + unfold content. cbn [slices set_wpos push_back set_slices]. rewrite Hsl. cbn [app map concat]. rewrite Hbody. cbn. exact Hlen.
    + reflexivity.
    + intros _ H. rewrite Hlen in H. lia.
    + intros _. constructor; [exact Hshm|constructor].
    + intros _. split; [lia|constructor; [exact Hshm|constructor]].
  - unfold content. cbn [slices set_wpos push_back set_slices]. rewrite Hsl. cbn [app map concat]. rewrite Hbody. reflexivity.
  - intros x. cbn [slices set_wpos push_back set_slices]. rewrite Hsl. cbn [app]. specialize (Q1 x). specialize (Hown x). lia.
Qed.

Lemma Inv_with_pw_nil s sp idss : Inv s sp idss -> Inv s (with_pw sp (pw sp ++ [])) idss.
Proof. apply Inv_spec_eq; cbn; auto. apply app_nil_r. Qed.

Theorem step_inv s sp idss o : Inv s sp idss ->
  match spec_step sp o with
  | None => step s o = Blocked
  | Some (x, sp') => exists y s' idss', step s o = Ok (y, s') /\ res_agree o x y /\ Inv s' sp' idss'
  end.
Proof.
  intros I. pose proof (wpre_of_Inv _ _ _ I) as Hpre.
  assert (Hwb : forall bs, bs <> [] -> exists y s' idss', (do (n, m1, l1) <- write_bytes bs (mem s) (snd s); Ok (RN n, with_mem_snd s m1 l1)) = Ok (y, s')
                 /\ RN (length bs) = y /\ Inv s' (with_pw sp (pw sp ++ bs)) idss').
  { intros bs Hne. destruct (write_bytes_ok _ _ bs Hpre Hne) as [m' [l' [Hr Hw]]]. rewrite Hr. cbn [bind].
    eexists. eexists. exists idss. split; [reflexivity|]. split; [reflexivity|]. apply Inv_writer; assumption. }
  assert (Hread : forall n, 0 < n ->
            match spec_more n sp with
            | None => read_more n s = Blocked
            | Some sp1 => exists s1 idss1, read_more n s = Ok s1 /\ Inv s1 sp1 idss1 /\ n <= length (av sp1)
                          /\ (Z.of_nat n <= len (rcv s1))%Z
            end).
  { intros n Hn. pose proof (Inv_read_more s sp idss n I) as H. destruct (spec_more n sp) as [sp1|]; [|exact H].
    destruct H as [s1 [idss1 [H1 [H2 H3]]]]. exists s1, idss1. split; [exact H1|]. split; [exact H2|]. split; [exact H3|].
    destruct (Inv_lens _ _ _ H2) as [E _]. rewrite E. apply Nat2Z.inj_le. exact H3. }
  destruct o; cbn [spec_step step_gen].
  - (* WBytes *)
    destruct bs as [|b0 bs0] eqn:Eb.
    + cbn [write_bytes bind length]. eexists. eexists. exists idss. split; [reflexivity|]. split; [reflexivity|].
      apply Inv_eta. apply Inv_with_pw_nil. exact I.
    + rewrite <- Eb. destruct (Hwb bs ltac:(rewrite Eb; discriminate)) as [y [s' [idss' [H1 [H2 H3]]]]]. exists y, s', idss'. auto.
  - (* WByte *)
    destruct (write_byte_ok _ _ b Hpre) as [m' [l' [Hr Hw]]]. rewrite Hr. cbn [bind].
    eexists. eexists. exists idss. split; [reflexivity|]. split; [reflexivity|]. apply Inv_writer; assumption.
  - (* WReserve *)
    destruct bs as [|b0 bs0] eqn:Eb.
    + unfold reserve. cbn [length Nat.eqb bind]. eexists. eexists. exists idss. split; [reflexivity|]. split; [reflexivity|].
      apply Inv_eta. apply Inv_with_pw_nil. exact I.
    + rewrite <- Eb. destruct (reserve_ok _ _ bs Hpre ltac:(rewrite Eb; discriminate)) as [m' [l' [Hr Hw]]]. rewrite Hr. cbn [bind].
      eexists. eexists. exists idss. split; [reflexivity|]. split; [reflexivity|]. apply Inv_writer; assumption.
  - (* WString *)
    destruct bs as [|b0 bs0] eqn:Eb.
    + cbn [write_bytes bind length]. eexists. eexists. exists idss. split; [reflexivity|]. split; [reflexivity|].
      apply Inv_eta. apply Inv_with_pw_nil. exact I.
    + rewrite <- Eb. destruct (Hwb bs ltac:(rewrite Eb; discriminate)) as [y [s' [idss' [H1 [H2 H3]]]]]. exists y, s', idss'. auto.
  - (* WWrite *)
    destruct bs as [|b0 bs0] eqn:Eb.
    + eexists. eexists. exists idss. split; [reflexivity|]. split; [reflexivity|]. exact I.
    + rewrite <- Eb. destruct (write_bytes_ok _ _ bs Hpre ltac:(rewrite Eb; discriminate)) as [m' [l' [Hr Hw]]]. rewrite Hr. cbn [bind].
      pose proof (Inv_writer s sp idss bs m' l' I Hw) as I1.
      destruct (Inv_flush _ _ _ I1) as [s' [idss' [Hf I2]]]. rewrite Hf. cbn [bind].
      exists (RN (length bs)), s', idss'. split; [reflexivity|]. split; [reflexivity|]. exact I2.
  - (* WFlush *)
    destruct (Inv_flush _ _ _ I) as [s' [idss' [Hf I2]]]. rewrite Hf. cbn [bind].
    exists RUnit, s', idss'. split; [reflexivity|]. split; [reflexivity|]. exact I2.
  - (* WAdopt *)
    destruct (slices (snd s)) as [|x0 r0] eqn:Esl; [|eexists; eexists; exists idss; split; [reflexivity|]; split; [exact Logic.I|exact I]].
    destruct (wpos (snd s)) eqn:Ewp; try (eexists; eexists; exists idss; split; [reflexivity|]; split; [exact Logic.I|exact I]).
    destruct (allocShmBuffer (mem s) n) as [[b m1]|] eqn:Eal; [|eexists; eexists; exists idss; split; [reflexivity|]; split; [exact Logic.I|exact I]].
    eexists. eexists. exists idss. split; [reflexivity|]. split; [exact Logic.I|].
    destruct Hpre as [Hok [Hw Hown]].
    assert (Hlen : len (snd s) = 0%Z) by (rewrite (wb_len _ _ Hw); unfold content; rewrite Esl; reflexivity).
    pose proof (adopt_wrote (mem s) (snd s) n b m1 Hok Hown Esl Hlen Eal) as Hwr.
    apply (Inv_spec_eq _ (with_pw sp (pw sp ++ []))); [cbn; symmetry; apply app_nil_r|reflexivity|reflexivity|].
    apply Inv_writer; assumption.
  - (* RBytes *)
    destruct (Nat.eqb_spec n 0) as [Hz|Hnz]; [eexists; eexists; exists idss; split; [reflexivity|]; split; [reflexivity|exact I]|].
    specialize (Hread n ltac:(lia)). destruct (spec_more n sp) as [sp1|]; [|rewrite Hread; reflexivity].
    destruct Hread as [s1 [idss1 [H1 [I1 [Hn Hl]]]]]. rewrite H1. cbn [bind].
    destruct (read_bytes_refines (mem s1) n (rcv s1) (iv_wf _ _ _ I1) ltac:(lia) Hl) as [l2 [Hr [Hc Hwf]]].
    rewrite (iv_av _ _ _ I1) in Hr, Hc.
    destruct (reader_step s1 sp1 idss1 (fun m l => read_bytes m n l) RData _ l2 _ I1 Hr (read_bytes_revolve _ _ _ _ _ Hr) Hwf Hc
                (revolve_allshm _ _ _ (read_bytes_revolve _ _ _ _ _ Hr))) as [s' [Hs I2]].
    exists (RData (firstn n (av sp1))), s', idss1. split; [exact Hs|split; [reflexivity|exact I2]].
  - (* RPeek *)
    destruct (Nat.eqb_spec n 0) as [Hz|Hnz]; [eexists; eexists; exists idss; split; [reflexivity|]; split; [reflexivity|exact I]|].
    specialize (Hread n ltac:(lia)). destruct (spec_more n sp) as [sp1|]; [|rewrite Hread; reflexivity].
    destruct Hread as [s1 [idss1 [H1 [I1 [Hn Hl]]]]]. rewrite H1. cbn [bind].
    destruct (peek_refines (mem s1) n (rcv s1) (iv_wf _ _ _ I1) ltac:(lia) Hl) as [l2 [Hr [Hs1 [Hl1 _]]]].
    rewrite (iv_av _ _ _ I1) in Hr.
    assert (Hwf : WF (mem s1) l2) by (apply (WF_fields (mem s1) (rcv s1)); [exact Hs1|exact Hl1|exact (iv_wf _ _ _ I1)]).
    assert (Hc : content (mem s1) l2 = av sp1) by (unfold content; rewrite Hs1; exact (iv_av _ _ _ I1)).
    destruct (reader_step s1 sp1 idss1 (fun m l => peek m n l) RData _ l2 _ I1 Hr (peek_revolve _ _ _ _ _ Hr) Hwf Hc
                (revolve_allshm _ _ _ (peek_revolve _ _ _ _ _ Hr))) as [s' [Hs I2]].
    exists (RData (firstn n (av sp1))), s', idss1. split; [exact Hs|]. split; [reflexivity|].
    apply (Inv_spec_eq _ (with_av sp1 (av sp1))); auto.
  - (* RDiscard *)
    destruct (Nat.eqb_spec n 0) as [Hz|Hnz].
    + subst n. assert (E : spec_more 0 sp = Some sp) by (unfold spec_more; reflexivity). rewrite E.
      eexists. eexists. exists idss. split; [reflexivity|]. split; [reflexivity|]. apply (Inv_spec_eq _ sp); auto.
    + specialize (Hread n ltac:(lia)). destruct (spec_more n sp) as [sp1|]; [|rewrite Hread; reflexivity].
      destruct Hread as [s1 [idss1 [H1 [I1 [Hn Hl]]]]]. rewrite H1. cbn [bind].
      destruct (discard_refines (mem s1) n (rcv s1) (iv_wf _ _ _ I1) Hl) as [l2 [Hr [Hc [Hwf _]]]].
      rewrite (iv_av _ _ _ I1) in Hc.
      destruct (reader_step s1 sp1 idss1 (fun _ l => discard n l) RN _ l2 _ I1 Hr (discard_revolve (mem s1) _ _ _ _ Hr) Hwf Hc
                  (revolve_allshm _ _ _ (discard_revolve (mem s1) _ _ _ _ Hr))) as [s' [Hs I2]].
      exists (RN n), s', idss1. split; [exact Hs|split; [reflexivity|exact I2]].
  - (* RByte *)
    specialize (Hread 1 ltac:(lia)). destruct (spec_more 1 sp) as [sp1|]; [|rewrite Hread; reflexivity].
    destruct Hread as [s1 [idss1 [H1 [I1 [Hn Hl]]]]]. rewrite H1. cbn [bind].
    destruct (read_byte_refines (mem s1) (rcv s1) (iv_wf _ _ _ I1) ltac:(lia)) as [b [l2 [Hr [Hc [Hwf _]]]]].
    rewrite (iv_av _ _ _ I1) in Hc. destruct (av sp1) as [|b0 r0] eqn:Ea; [cbn in Hn; lia|]. injection Hc as <- Hc.
    destruct (reader_step s1 sp1 idss1 (fun m l => read_byte m l) RB _ l2 _ I1 Hr (read_byte_revolve _ _ _ _ Hr) Hwf (eq_sym Hc)
                (revolve_allshm _ _ _ (read_byte_revolve _ _ _ _ Hr))) as [s' [Hs I2]].
    exists (RB b0), s', idss1. split; [exact Hs|split; [reflexivity|exact I2]].
  - (* RString *)
    destruct (Nat.eqb_spec n 0) as [Hz|Hnz]; [eexists; eexists; exists idss; split; [reflexivity|]; split; [reflexivity|exact I]|].
    specialize (Hread n ltac:(lia)). destruct (spec_more n sp) as [sp1|]; [|rewrite Hread; reflexivity].
    destruct Hread as [s1 [idss1 [H1 [I1 [Hn Hl]]]]]. rewrite H1. cbn [bind].
    destruct (read_string_refines (mem s1) n (rcv s1) (iv_wf _ _ _ I1) ltac:(lia) Hl) as [l2 [Hr [Hc [Hwf _]]]].
    rewrite (iv_av _ _ _ I1) in Hr, Hc.
    destruct (reader_step s1 sp1 idss1 (fun m l => read_string m n l) RData _ l2 _ I1 Hr (read_string_revolve _ _ _ _ _ Hr) Hwf Hc
                (revolve_allshm _ _ _ (read_string_revolve _ _ _ _ _ Hr))) as [s' [Hs I2]].
    exists (RData (firstn n (av sp1))), s', idss1. split; [exact Hs|split; [reflexivity|exact I2]].
  - (* RRead *)
    destruct (Nat.eqb_spec n 0) as [Hz|Hnz]; [eexists; eexists; exists idss; split; [reflexivity|]; split; [reflexivity|exact I]|].
    specialize (Hread 1 ltac:(lia)). destruct (spec_more 1 sp) as [sp1|]; [|rewrite Hread; reflexivity].
    destruct Hread as [s1 [idss1 [H1 [I1 [Hn Hl]]]]]. rewrite H1. cbn [bind].
    destruct (read_copy_refines (mem s1) n (rcv s1) (iv_wf _ _ _ I1) ltac:(lia)) as [l2 [Hr [Hc [Hwf _]]]].
    rewrite (iv_av _ _ _ I1) in Hr, Hc.
    destruct (reader_step s1 sp1 idss1 (fun m l => read_copy m n l) RData _ l2 _ I1 Hr (read_copy_revolve _ _ _ _ _ Hr) Hwf Hc
                (revolve_allshm _ _ _ (read_copy_revolve _ _ _ _ _ Hr))) as [s' [Hs I2]].
    eexists. exists s', idss1. split; [exact Hs|]. split; [reflexivity|exact I2].
  - (* RRelease *)
    pose proof (Inv_release s sp idss I) as H. destruct (release (mem s) (rcv s)) as [m1 l1].
    eexists. eexists. exists idss. split; [reflexivity|]. split; [reflexivity|exact H].
  - (* RReleaseReuse *)
    pose proof (Inv_release_reserve s sp idss I) as H. destruct (release_reserve (mem s) (rcv s)) as [m1 l1].
    eexists. eexists. exists idss. split; [reflexivity|]. split; [reflexivity|exact (proj1 H)].
  - (* RClose *)
    pose proof (Inv_close s sp idss I) as H. destruct (lb_recycle (mem s) (rcv s)) as [m1 l1].
    eexists. eexists. exists idss. split; [reflexivity|]. split; [reflexivity|exact H].
  - (* RPeerClose: the sweep of the callback goroutine does not run for a half-closed stream *)
    cbv iota.
    eexists. eexists. exists idss. split; [reflexivity|]. split; [reflexivity|exact I].
  - (* OAlloc *)
    destruct (allocShmBuffer (mem s) n) as [[b m1]|] eqn:Eal.
    + eexists. eexists. exists idss. split; [reflexivity|]. split; [exact Logic.I|]. exact (Inv_oalloc s sp idss n b m1 I Eal).
    + eexists. eexists. exists idss. split; [reflexivity|]. split; [exact Logic.I|exact I].
  - (* OFill *)
    destruct (nth_error (oth s) i) as [b|] eqn:En.
    + eexists. eexists. exists idss. split; [reflexivity|]. split; [reflexivity|]. exact (Inv_ofill s sp idss i b bs I En).
    + eexists. eexists. exists idss. split; [reflexivity|]. split; [reflexivity|exact I].
  - (* OFree *)
    destruct (nth_error (oth s) i) as [b|] eqn:En.
    + eexists. eexists. exists idss. split; [reflexivity|]. split; [reflexivity|]. exact (Inv_ofree s sp idss i b I En).
    + eexists. eexists. exists idss. split; [reflexivity|]. split; [reflexivity|exact I].
Qed.

(* ---------------------------------------------------------------------------------------- *)
(* from the invariant to the refinement; the initial state                                   *)
(* ---------------------------------------------------------------------------------------- *)
Theorem agrees_of_Inv : forall ops s sp idss, Inv s sp idss -> agrees s sp ops.
Proof.
  induction ops as [|o ops IH]; intros s sp idss I; [exact Logic.I|]. cbn [agrees].
  pose proof (step_inv s sp idss o I) as H. destruct (spec_step sp o) as [[x sp']|].
  - destruct H as [y [s' [idss' [H1 [H2 H3]]]]]. exists y, s'. split; [exact H1|]. split; [exact H2|].
    destruct (Inv_lens _ _ _ H3) as [L1 L2]. split; [exact L1|]. split; [exact L2|]. eapply IH; exact H3.
  - split; [exact H|]. eapply IH; exact I.
Qed.

End WithExt.

(* the guard createFreeBufferList enforces: no size class of capacity 0 *)
Definition cfg_ok (cfg : list (nat * nat)) : Prop := Forall (fun p => 0 < fst p) cfg.

Lemma init_classes_spec : forall cfg base fs ss, init_classes cfg base = (fs, ss) ->
  length fs = length cfg /\ concat fs = seq base (length ss) /\
  (forall i f o, nth_error fs i = Some f -> In o f ->
     base <= o /\ nth_error ss (o - base) = Some (fresh_slot (fst (nth i cfg (0, 0))))) /\
  (forall k t, nth_error ss k = Some t -> exists c, In c (map fst cfg) /\ t = fresh_slot c).
Proof.
  induction cfg as [|[c k] r IH]; intros base fs ss H; cbn [init_classes] in H.
  - injection H as <- <-. repeat split; auto; intros; destruct i || destruct k; discriminate.
  - destruct (init_classes r (base + k)) as [fs0 ss0] eqn:E. injection H as <- <-.
    destruct (IH _ _ _ E) as [A [B [C D]]]. split; [cbn; lia|]. split; [|split].
    + cbn [concat]. rewrite B, app_length, repeat_length, seq_app. reflexivity.
    + intros i f o Hi Ho. destruct i as [|i]; cbn [nth_error nth fst] in *.
      * injection Hi as <-. apply in_seq in Ho. split; [lia|].
        rewrite nth_error_app1 by (rewrite repeat_length; lia). apply nth_error_repeat. lia.
      * destruct (C i f o Hi Ho) as [C1 C2]. split; [lia|].
        rewrite nth_error_app2 by (rewrite repeat_length; lia). rewrite repeat_length.
        replace (o - base - k) with (o - (base + k)) by lia. exact C2.
    + intros j t Hj. destruct (Nat.lt_ge_cases j k) as [Hlt|Hge].
      * rewrite nth_error_app1 in Hj by (rewrite repeat_length; lia). rewrite nth_error_repeat in Hj by lia. injection Hj as <-.
        exists c. split; [left; reflexivity|reflexivity].
      * rewrite nth_error_app2 in Hj by (rewrite repeat_length; lia). destruct (D _ _ Hj) as [c' [D1 D2]].
        exists c'. split; [right; exact D1|exact D2].
Qed.

Lemma init_store cfg : cfg_ok cfg -> store_ok (init_shm cfg) /\ NoDup (frees (init_shm cfg)).
Proof.
  intros Hc. unfold init_shm. destruct (init_classes cfg 0) as [fs ss] eqn:E.
  destruct (init_classes_spec cfg 0 fs ss E) as [A [B [C D]]]. split.
  - constructor; cbn [free cls slots].
    + rewrite map_length. exact A.
    + unfold cfg_ok in Hc. rewrite Forall_forall in *. intros x Hx. apply in_map_iff in Hx. destruct Hx as [p [<- Hp]]. apply Hc. exact Hp.
    + intros o t Ht. unfold slot_at in Ht. cbn [slots] in Ht. destruct (D _ _ Ht) as [c [D1 ->]].
      cbn [fresh_slot st_data st_cap]. rewrite repeat_length. auto.
    + intros i f o Hi Ho. destruct (C i f o Hi Ho) as [_ C2]. rewrite Nat.sub_0_r in C2.
      exists (fresh_slot (fst (nth i cfg (0, 0)))). unfold slot_at. cbn [slots]. split; [exact C2|].
      cbn [fresh_slot st_cap st_size st_start]. split; [|auto].
      symmetry. apply (map_nth fst cfg (0, 0) i).
  - unfold frees. cbn [free]. rewrite B. apply seq_NoDup.
Qed.

Definition Inv1 := Inv [] (fun _ => None).    (* a single pipe: nothing is owned by another direction *)

Lemma Inv_init cfg : cfg_ok cfg -> Inv1 (init_sys cfg) spec0 [].
Proof.
  unfold Inv1.
  intros Hc. destruct (init_store cfg Hc) as [Hok Hnd].
  constructor; cbn [init_sys mem snd pend rcv oth infb spec0 pw infl av empty_buf slices pinned recycled leases concat app].
  - exact Hok.
  - apply (WB_clean (init_shm cfg) empty_buf).
  - reflexivity.
  - constructor.
  - apply WF_empty.
  - reflexivity.
  - reflexivity.
  - intros x. change (offs []) with (@nil nat). rewrite !cnt_nil. apply NoDup_cnt with (x := x) in Hnd. lia.
  - constructor.
  - split; constructor.
  - intros H. congruence.
  - intros _. split; [constructor|intros d []].
  - intros le [].
  - intros x Hx. rewrite cnt_nil in Hx. lia.
  - constructor.
  - left. reflexivity.
  - repeat split.
Qed.

(* C06: the whole pipe refines the byte queue *)
Theorem pipe_refines cfg ops : cfg_ok cfg -> agrees (init_sys cfg) spec0 ops.
Proof. intros Hc. eapply (agrees_of_Inv [] (fun _ => None)). apply Inv_init. exact Hc. Qed.

(* the invariant holds in every state reachable from the initial one *)
Fixpoint spec_run (sp : spec) (ops : list op) : spec :=
  match ops with
  | [] => sp
  | o :: r => match spec_step sp o with Some (_, sp') => spec_run sp' r | None => spec_run sp r end
  end.

Theorem reachable_Inv ext Eg : forall ops s sp idss s', Inv ext Eg s sp idss -> run s ops = Ok s' -> exists idss', Inv ext Eg s' (spec_run sp ops) idss'.
Proof.
  induction ops as [|o ops IH]; intros s sp idss s' I H; cbn [run spec_run] in *.
  - injection H as <-. exists idss. exact I.
  - pose proof (step_inv ext Eg s sp idss o I) as Hs. destruct (spec_step sp o) as [[x sp']|].
    + destruct Hs as [y [s1 [idss1 [H1 [_ I1]]]]]. rewrite H1 in H. eapply IH; eassumption.
    + rewrite Hs in H. eapply IH; eassumption.
Qed.

(* C08: in every reachable state every live lease is safe *)
Theorem leases_safe cfg ops s' le : cfg_ok cfg -> run (init_sys cfg) ops = Ok s' ->
  In le (leases (rcv s')) -> l_shm le = true ->
  ~ In (l_off le) (frees (mem s')) /\ lease_bytes (mem s') le = l_bytes le
  /\ ~ In (l_off le) (offs (slices (snd s'))) /\ ~ In (l_off le) (offs (oth s')).
Proof.
  intros Hc Hrun Hin Hs. destruct (reachable_Inv _ _ ops _ _ _ _ (Inv_init cfg Hc) Hrun) as [idss' I].
  destruct (Inv_leases_safe _ _ _ _ _ le I Hin Hs) as [A [B [C [D _]]]]. auto.
Qed.

(* only fast-path ReadBytes / Peek create leases: every other result is a copy *)
Theorem no_panic cfg ops : cfg_ok cfg -> forall w, run (init_sys cfg) ops <> Panic w.
Proof.
  intros Hc w. assert (G : forall ops s sp idss, Inv1 s sp idss -> run s ops <> Panic w).
  { clear ops. induction ops as [|o ops IH]; intros s sp idss I; cbn [run]; [discriminate|].
    pose proof (step_inv _ _ s sp idss o I) as Hs. destruct (spec_step sp o) as [[x sp']|].
    - destruct Hs as [y [s1 [idss1 [H1 [_ I1]]]]]. rewrite H1. eapply IH; exact I1.
    - rewrite Hs. eapply IH; exact I. }
  eapply G. apply Inv_init. exact Hc.
Qed.

(* ---------------------------------------------------------------------------------------- *)
(* slow paths hand out copies: a lease is created only when the bytes lie inside one slice   *)
(* ---------------------------------------------------------------------------------------- *)
Lemma read_next_leases l l' : read_next l = Ok l' -> leases l' = leases l.
Proof.
  unfold read_next. destruct (slices l) as [|s r]; [discriminate|]. intros H. injection H as <-.
  destruct (shmf s); [destruct (curp l)|]; reflexivity.
Qed.

Lemma rb_slow_leases m : forall fuel n acc l bs l', rb_slow m fuel n acc l = Ok (bs, l') -> leases l' = leases l.
Proof.
  induction fuel as [|fuel IH]; intros n acc l bs l' H; destruct n as [|n']; cbn [rb_slow] in H;
    try (injection H as _ <-; reflexivity); try discriminate.
  destruct (slices l) as [|s r] eqn:Es; [discriminate|].
  apply bind_ok in H. destruct H as [[bs0 k] [_ H]].
  destruct (k =? S n').
  - injection H as _ <-. reflexivity.
  - apply bind_ok in H. destruct H as [l2 [Hn H]]. rewrite (IH _ _ _ _ _ H), (read_next_leases _ _ Hn). reflexivity.
Qed.

Theorem read_bytes_lease_cases m n l bs l' : read_bytes m n l = Ok (bs, l') ->
  leases l' = leases l \/ exists s, leases l' = leases l ++ [mk_lease s n bs] /\ n <= ssize s.
Proof.
  unfold read_bytes. destruct (n =? 0); [intros H; injection H as _ <-; left; reflexivity|].
  destruct (slices l) as [|s0 r0] eqn:Es; [discriminate|]. intros H.
  apply bind_ok in H. destruct H as [l1 [H1 H]].
  assert (Hl1 : leases l1 = leases l).
  { destruct (ssize s0 =? 0); [apply read_next_leases; exact H1|injection H1 as <-; reflexivity]. }
  destruct (slices l1) as [|s r] eqn:Es1; [discriminate|].
  destruct (Nat.leb_spec n (ssize s)) as [Hle|_].
  - apply bind_ok in H. destruct H as [[bs0 k] [Ht H]]. injection H as <- <-. right. exists s.
    cbn [leases set_leases]. rewrite Hl1. split; [reflexivity|exact Hle].
  - left. rewrite (rb_slow_leases _ _ _ _ _ _ _ H). exact Hl1.
Qed.

Theorem peek_lease_cases m n l bs l' : peek m n l = Ok (bs, l') ->
  l' = l \/ exists s, leases l' = leases l ++ [mk_lease s n bs] /\ n <= ssize s.
Proof.
  unfold peek. destruct (n =? 0); [intros H; injection H as _ <-; left; reflexivity|].
  destruct (slices l) as [|s r] eqn:Es; [discriminate|]. intros H.
  apply bind_ok in H. destruct H as [[bs0 k] [Ht H]].
  destruct (Nat.eqb_spec k n) as [->|_].
  - injection H as <- <-. right. exists s. split; [reflexivity|]. apply sl_take_inv in Ht. destruct Ht as [Hk _]. lia.
  - apply bind_ok in H. destruct H as [res [_ H]]. injection H as _ <-. left. reflexivity.
Qed.
