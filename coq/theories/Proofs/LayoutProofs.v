(* Proofs about Model/Layout.v (property C03). *)
From Coq Require Import List ZArith Lia Bool ZifyBool.
From Shm Require Import Gen.Consts Model.Layout.
Import ListNotations.
Open Scope Z_scope.

Ltac consts :=
  unfold c_bufferHeaderSize, c_bufferListHeaderSize, c_bufferManagerHeaderSize, c_bmCapOffset,
    c_bufferCapOffset, c_bufferSizeOffset, c_bufferDataStartOffset, c_nextBufferOffset, c_bufferFlagOffset,
    c_queueHeaderLength, c_queueElementLen, c_queueCount,
    off_create_list_size, off_create_list_cap, off_create_list_head, off_create_list_tail,
    off_create_list_capPerBuffer, off_create_list_counter,
    off_map_list_size, off_map_list_cap, off_map_list_head, off_map_list_tail,
    off_map_list_capPerBuffer, off_map_list_counter,
    off_map_queue_head, off_map_queue_tail, off_map_queue_workingFlag, c_percentDivisor, c_percentSumMax in *.

(* ---------------------------------------------------------------------------------------------- *)
(* facts about the generated constants that the layout depends on; each is re-checked against the
   current Gen/Consts.v: a creator/mapper disagreement on a geometric field stops the build here *)
Definition geometric_offsets_agree : Prop :=
  off_map_list_size = off_create_list_size /\ off_map_list_cap = off_create_list_cap /\
  off_map_list_head = off_create_list_head /\ off_map_list_tail = off_create_list_tail /\
  off_map_list_capPerBuffer = off_create_list_capPerBuffer.
Lemma offsets_agree : geometric_offsets_agree.
Proof. repeat split; reflexivity. Qed.

(* all fields are 4-byte words that lie inside the list header and do not overlap (per side) *)
Fixpoint separated (l : list Z) : Prop :=
  match l with
  | [] => True
  | x :: r => Forall (fun y => x + 4 <= y \/ y + 4 <= x) r /\ separated r
  end.
Lemma create_offsets_wf :
  Forall (fun k => 0 <= k /\ k + 4 <= c_bufferListHeaderSize) create_offsets /\ separated create_offsets.
Proof. unfold create_offsets; consts; cbn [separated]; repeat constructor; lia. Qed.
Lemma map_offsets_wf :
  Forall (fun k => 0 <= k /\ k + 4 <= c_bufferListHeaderSize) map_offsets /\ separated map_offsets.
Proof. unfold map_offsets; consts; cbn [separated]; repeat constructor; lia. Qed.
Lemma manager_header_wf : 2 <= c_bmCapOffset /\ c_bmCapOffset + 4 <= c_bufferManagerHeaderSize.
Proof. consts; lia. Qed.
Lemma slot_header_wf :
  Forall (fun k => 0 <= k /\ k + 4 <= c_bufferHeaderSize) slot_header_offsets /\ separated slot_header_offsets.
Proof. unfold slot_header_offsets; consts; cbn [separated]; repeat constructor; lia. Qed.
Lemma queue_header_wf :
  4 <= off_map_queue_head /\ off_map_queue_head + 8 <= off_map_queue_tail /\
  off_map_queue_tail + 8 <= off_map_queue_workingFlag /\ off_map_queue_workingFlag + 4 <= c_queueHeaderLength.
Proof. consts; lia. Qed.

(* ---------------------------------------------------------------------------------------------- *)
Lemma w32_small x : 0 <= x < 4294967296 -> w32 x = x.
Proof. intros; unfold w32; apply Z.mod_small; lia. Qed.
Lemma w32_range x : 0 <= w32 x < 4294967296.
Proof. unfold w32; apply Z.mod_pos_bound; lia. Qed.
Lemma w32_once x : 4294967296 <= x < 8589934592 -> w32 x = x - 4294967296.
Proof. intros; unfold w32. symmetry. apply (Z.mod_unique x 4294967296 1); lia. Qed.

Lemma upd_same m a v : upd m a v a = v.
Proof. unfold upd; rewrite Z.eqb_refl; reflexivity. Qed.
Lemma upd_other m a v x : x <> a -> upd m a v x = m x.
Proof. intros; unfold upd. destruct (x =? a) eqn:E; [lia | reflexivity]. Qed.

(* ---------------------------------------------------------------------------------------------- *)
(* the chain-initialising loop cannot panic when nothing wraps *)
Lemma chain_loop_ok fuel : forall i num cpb rlen,
  0 <= cpb -> 0 <= i -> i + Z.of_nat fuel = num ->
  num * (cpb + c_bufferHeaderSize) = rlen -> rlen < 4294967296 ->
  chain_loop fuel i (i * (cpb + c_bufferHeaderSize)) num cpb rlen = true.
Proof.
  induction fuel as [|f IH]; intros i num cpb rlen Hc Hi Hn Hr Hlt; [reflexivity|].
  cbn [chain_loop].
  assert (Hstep : (i + 1) * (cpb + c_bufferHeaderSize) <= num * (cpb + c_bufferHeaderSize))
    by (apply Z.mul_le_mono_nonneg_r; consts; lia).
  assert (Hpos : 0 <= i * (cpb + c_bufferHeaderSize)) by (apply Z.mul_nonneg_nonneg; consts; lia).
  replace ((i + 1) * (cpb + c_bufferHeaderSize)) with (i * (cpb + c_bufferHeaderSize) + cpb + c_bufferHeaderSize) in Hstep by ring.
  specialize (IH (i + 1) num cpb rlen Hc ltac:(lia) ltac:(lia) Hr Hlt).
  replace ((i + 1) * (cpb + c_bufferHeaderSize)) with (i * (cpb + c_bufferHeaderSize) + cpb + c_bufferHeaderSize) in IH by ring.
  remember (i * (cpb + c_bufferHeaderSize)) as P.
  rewrite (w32_small (P + cpb)) by (consts; lia).
  rewrite (w32_small (P + cpb + c_bufferHeaderSize)) by (consts; lia).
  rewrite IH.
  rewrite (w32_small (P + c_bufferSizeOffset)) by (consts; lia).
  rewrite (w32_small (P + c_bufferDataStartOffset)) by (consts; lia).
  rewrite (w32_small (P + c_nextBufferOffset)) by (consts; lia).
  rewrite (w32_small (P + c_bufferFlagOffset)) by (consts; lia).
  destruct (i <? w32 (num - 1)); consts; lia.
Qed.

Lemma chain_init_ok_true num cpb :
  0 < num -> 0 <= cpb -> num * (cpb + c_bufferHeaderSize) < 4294967296 ->
  chain_init_ok num cpb (num * (cpb + c_bufferHeaderSize)) ((num - 1) * (cpb + c_bufferHeaderSize)) = true.
Proof.
  intros Hn Hc Hlt. unfold chain_init_ok.
  pose proof (chain_loop_ok (Z.to_nat num) 0 num cpb _ Hc ltac:(lia) ltac:(lia) eq_refl Hlt) as Hl.
  rewrite Z.mul_0_l in Hl. rewrite Hl.
  replace (num * (cpb + c_bufferHeaderSize) - (num - 1) * (cpb + c_bufferHeaderSize)) with (cpb + c_bufferHeaderSize) by ring.
  assert ((num - 1) * (cpb + c_bufferHeaderSize) <= num * (cpb + c_bufferHeaderSize))
    by (apply Z.mul_le_mono_nonneg_r; consts; lia).
  consts; lia.
Qed.

Lemma chain_init_fast_eq num cpb rlen tail : chain_init_fast num cpb rlen tail = chain_init_ok num cpb rlen tail.
Proof.
  unfold chain_init_fast.
  destruct ((0 <? num) && (0 <=? cpb) && (num * (cpb + c_bufferHeaderSize) =? rlen) && (rlen <? 4294967296)
            && (tail =? (num - 1) * (cpb + c_bufferHeaderSize)) && (c_bufferCapOffset =? 0)
            && forallb (fun k => (0 <=? k) && (k <? c_bufferHeaderSize)) slot_header_offsets) eqn:E; [|reflexivity].
  repeat (apply andb_prop in E; destruct E as [E ?]).
  assert (num * (cpb + c_bufferHeaderSize) = rlen) by lia. subst rlen.
  assert (tail = (num - 1) * (cpb + c_bufferHeaderSize)) by lia. subst tail.
  symmetry; apply chain_init_ok_true; lia.
Qed.

(* the correspondence shortcut computes the same function as the model *)
Lemma create_fbl_gen_ext chk1 chk2 : (forall a b c d, chk1 a b c d = chk2 a b c d) ->
  forall num cpb memLen off m, create_fbl_gen chk1 num cpb memLen off m = create_fbl_gen chk2 num cpb memLen off m.
Proof. intros H num cpb memLen off m. unfold create_fbl_gen. cbv zeta. rewrite H. reflexivity. Qed.

Lemma create_loop_gen_ext chk1 chk2 : (forall a b c d, chk1 a b c d = chk2 a b c d) ->
  forall pairs rc memLen off sum m,
  create_loop_gen chk1 pairs rc memLen off sum m = create_loop_gen chk2 pairs rc memLen off sum m.
Proof.
  intros H pairs. induction pairs as [|[size pct] rest IH]; intros rc memLen off sum m; [reflexivity|].
  cbn [create_loop_gen]. cbv zeta. rewrite (create_fbl_gen_ext chk1 chk2 H).
  destruct (c_percentSumMax <? w32 (sum + pct)); [reflexivity|].
  destruct (w32 (size + c_bufferHeaderSize) <? c_bufferHeaderSize); [reflexivity|].
  destruct (w32 (size + c_bufferHeaderSize) =? 0); [reflexivity|].
  destruct (create_fbl_gen chk2 _ size memLen off m) as [[c m1]|e|p]; try reflexivity.
  rewrite IH. reflexivity.
Qed.

Lemma create_bm_fast_eq pairs memLen m0 : create_bm_fast pairs memLen m0 = create_bm pairs memLen m0.
Proof.
  unfold create_bm_fast, create_bm, create_bm_gen.
  rewrite (create_loop_gen_ext chain_init_fast chain_init_ok chain_init_fast_eq). reflexivity.
Qed.

(* ---------------------------------------------------------------------------------------------- *)
(* one class: createFreeBufferList under the no-wrap guards *)
Definition mk_class (off num cpb : Z) : class :=
  {| cl_off := off; cl_regionOff := off + c_bufferListHeaderSize;
     cl_regionLen := num * (cpb + c_bufferHeaderSize); cl_size := num; cl_cap := num; cl_head := 0;
     cl_tail := (num - 1) * (cpb + c_bufferHeaderSize); cl_capPerBuffer := cpb |}.

Lemma create_fbl_spec num cpb memLen off m :
  0 <= off < 4294967296 -> 0 <= memLen -> memLen + c_bufferListHeaderSize < 4294967296 ->
  0 <= cpb <= memLen -> 0 <= num -> num * (cpb + c_bufferHeaderSize) < 4294967296 ->
  match create_fbl num cpb memLen off m with
  | Panic _ => False
  | Err _ => True
  | Ok (c, m') =>
    1 <= num /\ 1 <= cpb /\
    off + c_bufferListHeaderSize + num * (cpb + c_bufferHeaderSize) <= memLen /\
    list_mem_size num cpb = c_bufferListHeaderSize + num * (cpb + c_bufferHeaderSize) /\
    c = mk_class off num cpb /\
    m' = write_list_header m off num ((num - 1) * (cpb + c_bufferHeaderSize)) cpb
  end.
Proof.
  intros Hoff Hmem Hguard Hcpb Hnum Hprod.
  unfold create_fbl, create_fbl_gen.
  destruct ((num =? 0) || (cpb =? 0)) eqn:E0; [exact I|].
  assert (Hs : w32 (cpb + c_bufferHeaderSize) = cpb + c_bufferHeaderSize) by (apply w32_small; consts; lia).
  assert (HP0 : 0 < num * (cpb + c_bufferHeaderSize)) by (apply Z.mul_pos_pos; consts; lia).
  assert (HPt : 0 <= (num - 1) * (cpb + c_bufferHeaderSize)) by (apply Z.mul_nonneg_nonneg; consts; lia).
  assert (HPl : (num - 1) * (cpb + c_bufferHeaderSize) <= num * (cpb + c_bufferHeaderSize))
    by (apply Z.mul_le_mono_nonneg_r; consts; lia).
  assert (Hn32 : 1 <= num <= num * (cpb + c_bufferHeaderSize)) by (consts; nia).
  assert (HA : list_mem_size num cpb = w32 (c_bufferListHeaderSize + num * (cpb + c_bufferHeaderSize))).
  { unfold list_mem_size. rewrite Hs. rewrite (w32_small (num * _)) by lia. reflexivity. }
  rewrite Hs, (w32_small (num - 1)) by lia.
  rewrite (w32_small ((num - 1) * _)) by lia.
  rewrite HA. cbv zeta.
  remember (num * (cpb + c_bufferHeaderSize)) as P.
  remember ((num - 1) * (cpb + c_bufferHeaderSize)) as T.
  rewrite (w32_small memLen) by (consts; lia).
  (* does 36 + P wrap? *)
  destruct (Z_lt_ge_dec (c_bufferListHeaderSize + P) 4294967296) as [Hnw|Hw].
  2:{ (* it wraps: atLeast < header size, so the region would be empty or reversed: Err *)
      rewrite (w32_once (c_bufferListHeaderSize + P)) by (consts; lia).
      destruct ((memLen <? w32 (off + (c_bufferListHeaderSize + P - 4294967296))) || (memLen <? off)
                || (memLen <? c_bufferListHeaderSize + P - 4294967296)) eqn:E1; [exact I|].
      rewrite (w32_small (off + c_bufferListHeaderSize)) by (consts; lia).
      rewrite (w32_small (off + _)) by (consts; lia).
      destruct (off + (c_bufferListHeaderSize + P - 4294967296) <=? off + c_bufferListHeaderSize) eqn:E2; [exact I|].
      consts; lia. }
  rewrite (w32_small (c_bufferListHeaderSize + P)) by (consts; lia).
  destruct ((memLen <? w32 (off + (c_bufferListHeaderSize + P))) || (memLen <? off)
            || (memLen <? c_bufferListHeaderSize + P)) eqn:E1; [exact I|].
  assert (Hoffle : off <= memLen) by lia.
  rewrite (w32_small (off + c_bufferListHeaderSize)) by (consts; lia).
  (* does off + atLeast wrap? then the end lies before the start: Err *)
  destruct (Z_lt_ge_dec (off + (c_bufferListHeaderSize + P)) 4294967296) as [Hnw2|Hw2].
  2:{ rewrite (w32_once (off + _)) in * by (consts; lia).
      destruct (off + (c_bufferListHeaderSize + P) - 4294967296 <=? off + c_bufferListHeaderSize) eqn:E2; [exact I|].
      consts; lia. }
  rewrite (w32_small (off + (c_bufferListHeaderSize + P))) in * by (consts; lia).
  destruct (off + (c_bufferListHeaderSize + P) <=? off + c_bufferListHeaderSize) eqn:E2; [exact I|].
  assert (Hfit : off + c_bufferListHeaderSize + P <= memLen) by lia.
  (* header field pointers are in bounds *)
  assert (E3 : existsb (fun k => memLen <=? w32 (off + k)) create_offsets = false).
  { unfold create_offsets. cbn [existsb].
    rewrite !w32_small by (consts; lia). consts; lia. }
  rewrite E3.
  destruct (memLen <? off + (c_bufferListHeaderSize + P)) eqn:E4; [lia|].
  replace (off + (c_bufferListHeaderSize + P) - (off + c_bufferListHeaderSize)) with P by ring.
  subst P T. rewrite chain_init_ok_true by lia. cbn [negb].
  repeat split; try lia.
Qed.

Lemma list_mem_size_small num cpb :
  0 <= num -> 0 <= cpb ->
  c_bufferListHeaderSize + num * (cpb + c_bufferHeaderSize) < 4294967296 ->
  list_mem_size num cpb = c_bufferListHeaderSize + num * (cpb + c_bufferHeaderSize).
Proof.
  intros Hn Hc Hlt. unfold list_mem_size.
  assert (0 <= num * (cpb + c_bufferHeaderSize)) by (apply Z.mul_nonneg_nonneg; consts; lia).
  destruct (Z.eq_dec num 0) as [->|Hnz].
  { rewrite !Z.mul_0_l. rewrite (w32_small 0) by lia. apply w32_small; consts; lia. }
  assert (cpb + c_bufferHeaderSize <= num * (cpb + c_bufferHeaderSize)) by (consts; nia).
  rewrite (w32_small (cpb + _)) by (consts; lia).
  rewrite (w32_small (num * _)) by (consts; lia).
  apply w32_small; consts; lia.
Qed.

Lemma write_list_header_frame m off num tail cpb a :
  0 <= off -> off + c_bufferListHeaderSize <= 4294967296 ->
  a < off \/ off + c_bufferListHeaderSize <= a ->
  write_list_header m off num tail cpb a = m a.
Proof.
  intros Hoff Hlt Ha. unfold write_list_header.
  rewrite !w32_small by (consts; lia).
  repeat (rewrite upd_other by (consts; lia)). reflexivity.
Qed.

(* the mapping side re-derives exactly the creator's class from the header the creator wrote *)
Lemma map_fbl_after_create m m' off num cpb memLen :
  0 <= off -> 0 <= memLen -> memLen < 4294967296 ->
  1 <= num -> 1 <= cpb ->
  off + c_bufferListHeaderSize + num * (cpb + c_bufferHeaderSize) <= memLen ->
  (forall a, off <= a < off + c_bufferListHeaderSize ->
             m' a = write_list_header m off num ((num - 1) * (cpb + c_bufferHeaderSize)) cpb a) ->
  map_fbl memLen off m' = Ok (mk_class off num cpb).
Proof.
  intros Hoff Hmem Hguard Hnum Hcpb Hfit Hm'.
  assert (HP0 : 0 < num * (cpb + c_bufferHeaderSize)) by (apply Z.mul_pos_pos; consts; lia).
  pose proof (list_mem_size_small num cpb ltac:(lia) ltac:(lia) ltac:(consts; lia)) as HA.
  pose proof offsets_agree as (Es & Ec & Eh & Et & Ep).
  unfold map_fbl.
  destruct (memLen <? c_bufferListHeaderSize + off) eqn:E1; [consts; lia|].
  assert (E2 : existsb (fun k => memLen <=? w32 (off + k)) map_offsets = false).
  { unfold map_offsets. cbn [existsb]. rewrite !w32_small by (consts; lia). consts; lia. }
  rewrite E2. rewrite Es, Ec, Eh, Et, Ep.
  rewrite !Hm' by (rewrite w32_small by (consts; lia); consts; lia).
  unfold write_list_header.
  rewrite (w32_small (off + off_create_list_size)), (w32_small (off + off_create_list_cap)),
    (w32_small (off + off_create_list_head)), (w32_small (off + off_create_list_tail)),
    (w32_small (off + off_create_list_capPerBuffer)), (w32_small (off + off_create_list_counter)),
    (w32_small (off + c_bufferListHeaderSize)) by (consts; lia).
  assert (Rsize : forall mm v1 v2 v3 v4 v5 v6,
    upd (upd (upd (upd (upd (upd mm (off + off_create_list_size) v1) (off + off_create_list_cap) v2)
      (off + off_create_list_head) v3) (off + off_create_list_tail) v4) (off + off_create_list_capPerBuffer) v5)
      (off + off_create_list_counter) v6 (off + off_create_list_size) = v1).
  { intros. repeat (rewrite upd_other by (consts; lia)). apply upd_same. }
  assert (Rcap : forall mm v1 v2 v3 v4 v5 v6,
    upd (upd (upd (upd (upd (upd mm (off + off_create_list_size) v1) (off + off_create_list_cap) v2)
      (off + off_create_list_head) v3) (off + off_create_list_tail) v4) (off + off_create_list_capPerBuffer) v5)
      (off + off_create_list_counter) v6 (off + off_create_list_cap) = v2).
  { intros. repeat (rewrite upd_other by (consts; lia)). apply upd_same. }
  assert (Rhead : forall mm v1 v2 v3 v4 v5 v6,
    upd (upd (upd (upd (upd (upd mm (off + off_create_list_size) v1) (off + off_create_list_cap) v2)
      (off + off_create_list_head) v3) (off + off_create_list_tail) v4) (off + off_create_list_capPerBuffer) v5)
      (off + off_create_list_counter) v6 (off + off_create_list_head) = v3).
  { intros. repeat (rewrite upd_other by (consts; lia)). apply upd_same. }
  assert (Rtail : forall mm v1 v2 v3 v4 v5 v6,
    upd (upd (upd (upd (upd (upd mm (off + off_create_list_size) v1) (off + off_create_list_cap) v2)
      (off + off_create_list_head) v3) (off + off_create_list_tail) v4) (off + off_create_list_capPerBuffer) v5)
      (off + off_create_list_counter) v6 (off + off_create_list_tail) = v4).
  { intros. repeat (rewrite upd_other by (consts; lia)). apply upd_same. }
  assert (Rcpb : forall mm v1 v2 v3 v4 v5 v6,
    upd (upd (upd (upd (upd (upd mm (off + off_create_list_size) v1) (off + off_create_list_cap) v2)
      (off + off_create_list_head) v3) (off + off_create_list_tail) v4) (off + off_create_list_capPerBuffer) v5)
      (off + off_create_list_counter) v6 (off + off_create_list_capPerBuffer) = v5).
  { intros. repeat (rewrite upd_other by (consts; lia)). apply upd_same. }
  rewrite Rsize, Rcap, Rhead, Rtail, Rcpb. cbv zeta.
  rewrite HA.
  rewrite (w32_small memLen) by (consts; lia).
  rewrite (w32_small (off + (_ + _))) by (consts; lia).
  destruct ((memLen <? off + (c_bufferListHeaderSize + num * (cpb + c_bufferHeaderSize)))
            || (off + (c_bufferListHeaderSize + num * (cpb + c_bufferHeaderSize)) <? off + c_bufferListHeaderSize)) eqn:E3;
    [consts; lia|].
  unfold mk_class. f_equal. f_equal. ring.
Qed.

(* ---------------------------------------------------------------------------------------------- *)
(* the loop over the pairs lays the classes out one after the other *)
Definition class_end (c : class) : Z := cl_regionOff c + cl_regionLen c.
Definition class_wf (c : class) : Prop :=
  c = mk_class (cl_off c) (cl_cap c) (cl_capPerBuffer c) /\ 1 <= cl_cap c /\ 1 <= cl_capPerBuffer c /\
  cl_capPerBuffer c + c_bufferHeaderSize < 4294967296.
Fixpoint laid_out (off : Z) (cs : list class) (off' : Z) : Prop :=
  match cs with
  | [] => off' = off
  | c :: r => class_wf c /\ cl_off c = off /\ laid_out (class_end c) r off'
  end.

Lemma create_loop_spec pairs : forall rc memLen off sum m,
  0 <= off < 4294967296 -> 0 <= memLen -> memLen + c_bufferListHeaderSize < 4294967296 ->
  Forall (fun p => 0 <= fst p <= memLen) pairs ->
  match create_loop pairs rc memLen off sum m with
  | Panic _ => False
  | Err _ => True
  | Ok (cs, off', m') =>
      laid_out off cs off' /\ off <= off' /\ off' <= Z.max off memLen /\
      map cl_capPerBuffer cs = map fst pairs /\
      (forall a, a < off \/ off' <= a -> m' a = m a) /\
      (pairs <> [] -> off' <= memLen) /\
      (forall m2, (forall a, off <= a < off' -> m2 a = m' a) -> map_loop (length pairs) memLen off m2 = Ok cs)
  end.
Proof.
  unfold create_loop.
  induction pairs as [|[size pct] rest IH]; intros rc memLen off sum m Hoff Hmem Hguard Hall.
  { cbn. repeat split; try lia. intros H; congruence. }
  inversion Hall as [|p l Hsz Hrest]; subst p l. cbn [fst] in Hsz.
  cbn [create_loop_gen]. cbv zeta.
  destruct (c_percentSumMax <? w32 (sum + pct)); [exact I|].
  rewrite (w32_small (size + c_bufferHeaderSize)) by (consts; lia).
  destruct (size + c_bufferHeaderSize <? c_bufferHeaderSize) eqn:Ew; [exact I|].
  destruct (size + c_bufferHeaderSize =? 0) eqn:Ez; [consts; lia|].
  remember (w32 (w64 (rc * pct) / c_percentDivisor)) as X.
  assert (HX : 0 <= X < 4294967296) by (subst X; apply w32_range).
  remember (X / (size + c_bufferHeaderSize)) as num.
  assert (Hnum : 0 <= num) by (subst num; apply Z.div_pos; consts; lia).
  assert (Hprod : num * (size + c_bufferHeaderSize) <= X).
  { subst num. rewrite Z.mul_comm. apply Z.mul_div_le. consts; lia. }
  pose proof (create_fbl_spec num size memLen off m Hoff Hmem Hguard Hsz Hnum ltac:(lia)) as Hf.
  unfold create_fbl in Hf.
  destruct (create_fbl_gen chain_init_ok num size memLen off m) as [[c m1]|e|p]; [|exact I|exact Hf].
  destruct Hf as (Hn1 & Hc1 & Hfit & HA & Hc & Hm1).
  rewrite HA.
  remember (num * (size + c_bufferHeaderSize)) as P.
  assert (HP0 : 0 < P) by (subst P; apply Z.mul_pos_pos; consts; lia).
  rewrite (w32_small (off + _)) by (consts; lia).
  specialize (IH rc memLen (off + (c_bufferListHeaderSize + P)) (w32 (sum + pct)) m1
                 ltac:(consts; lia) Hmem Hguard Hrest).
  destruct (create_loop_gen chain_init_ok rest rc memLen (off + (c_bufferListHeaderSize + P)) (w32 (sum + pct)) m1)
    as [[[cs off'] m']|e|p]; [|exact I|exact IH].
  destruct IH as (Hlay & Hle & Hin & Hmap & Hframe & _ & Hml).
  assert (Hend : class_end c = off + (c_bufferListHeaderSize + P)).
  { subst c. unfold class_end, mk_class. cbn [cl_regionOff cl_regionLen]. subst P. ring. }
  assert (Hoff' : off' <= memLen) by (consts; lia).
  split; [|split; [|split; [|split; [|split; [|split]]]]].
  - cbn [laid_out]. split; [|split].
    + subst c. unfold class_wf, mk_class. cbn [cl_off cl_cap cl_capPerBuffer].
      split; [reflexivity|]. consts; lia.
    + subst c. reflexivity.
    + rewrite Hend. exact Hlay.
  - consts; lia.
  - consts; lia.
  - cbn [map fst]. rewrite Hmap. subst c. reflexivity.
  - intros a Ha. rewrite Hframe by (consts; lia). subst m1.
    apply write_list_header_frame; consts; lia.
  - intros _. exact Hoff'.
  - intros m2 Hm2. cbn [length map_loop]. rewrite (w32_small off) by lia.
    rewrite (map_fbl_after_create m m2 off num size memLen) by
      (try (consts; lia); try (subst P; exact Hfit);
       intros a Ha; rewrite Hm2 by (consts; lia); rewrite Hframe by (consts; lia); subst m1; subst P; reflexivity).
    unfold mk_class at 1 2. cbn [cl_cap cl_capPerBuffer].
    rewrite HA.
    rewrite (w32_small (off + _)) by (consts; lia).
    rewrite Hml by (intros a Ha; apply Hm2; consts; lia). subst c. reflexivity.
Qed.

(* ---------------------------------------------------------------------------------------------- *)
(* the vocabulary of the property statement *)

(* every slot lies behind the manager header, behind its own list header, inside its region, and the
   region inside the mapping *)
Definition slots_in_bounds (memLen : Z) (cs : list class) : Prop :=
  forall c i, In c cs -> 0 <= i < cl_cap c ->
    c_bufferManagerHeaderSize <= cl_off c /\
    cl_off c + c_bufferListHeaderSize <= cl_regionOff c /\
    cl_regionOff c <= slot_lo c i /\
    slot_hi c i <= cl_regionOff c + cl_regionLen c /\
    cl_regionOff c + cl_regionLen c <= memLen.

(* two different slots (of one class or of two classes) never share a byte *)
Definition slots_disjoint (cs : list class) : Prop :=
  forall j1 j2 c1 c2 i1 i2,
    nth_error cs j1 = Some c1 -> nth_error cs j2 = Some c2 ->
    0 <= i1 < cl_cap c1 -> 0 <= i2 < cl_cap c2 -> (j1 <> j2 \/ i1 <> i2) ->
    slot_hi c1 i1 <= slot_lo c2 i2 \/ slot_hi c2 i2 <= slot_lo c1 i1.

(* list headers overlap neither each other nor any slot *)
Definition headers_clear (cs : list class) : Prop :=
  forall j1 j2 c1 c2,
    nth_error cs j1 = Some c1 -> nth_error cs j2 = Some c2 ->
    (j1 <> j2 -> cl_off c1 + c_bufferListHeaderSize <= cl_off c2 \/ cl_off c2 + c_bufferListHeaderSize <= cl_off c1) /\
    (forall i, 0 <= i < cl_cap c2 ->
               cl_off c1 + c_bufferListHeaderSize <= slot_lo c2 i \/ slot_hi c2 i <= cl_off c1).

Definition layout_ok (pairs : list (Z * Z)) (memLen : Z) (cs : list class) : Prop :=
  map cl_capPerBuffer cs = map fst pairs /\
  Forall (fun c => 1 <= cl_cap c) cs /\
  slots_in_bounds memLen cs /\ slots_disjoint cs /\ headers_clear cs.

(* ---------------------------------------------------------------------------------------------- *)
Lemma class_wf_span c : class_wf c ->
  0 <= cl_regionLen c /\ cl_regionOff c = cl_off c + c_bufferListHeaderSize /\
  forall i, 0 <= i < cl_cap c ->
    slot_lo c i = cl_regionOff c + i * (cl_capPerBuffer c + c_bufferHeaderSize) /\
    slot_hi c i = cl_regionOff c + (i + 1) * (cl_capPerBuffer c + c_bufferHeaderSize) /\
    cl_regionOff c <= slot_lo c i /\ slot_hi c i <= class_end c.
Proof.
  destruct c as [o ro rl sz cp hd tl cpb]. unfold class_wf, mk_class, class_end, slot_hi, slot_lo, stride.
  cbn [cl_off cl_regionOff cl_regionLen cl_size cl_cap cl_head cl_tail cl_capPerBuffer].
  intros (Hc & Hcap & Hcpb & Hs). injection Hc as Hro Hrl Hsz Hhd Htl.
  rewrite (w32_small (cpb + _)) by (consts; lia).
  assert (0 <= cp * (cpb + c_bufferHeaderSize)) by (apply Z.mul_nonneg_nonneg; consts; lia).
  split; [lia|]. split; [exact Hro|].
  intros i Hi.
  assert (0 <= i * (cpb + c_bufferHeaderSize)) by (apply Z.mul_nonneg_nonneg; consts; lia).
  assert ((i + 1) * (cpb + c_bufferHeaderSize) <= cp * (cpb + c_bufferHeaderSize))
    by (apply Z.mul_le_mono_nonneg_r; consts; lia).
  repeat split; try lia; ring.
Qed.

Lemma laid_out_mono cs : forall off off', laid_out off cs off' -> off <= off'.
Proof.
  induction cs as [|c r IH]; intros off off' H; cbn [laid_out] in H.
  - lia.
  - destruct H as (Hwf & Hoff & Hr). apply IH in Hr.
    destruct (class_wf_span c Hwf) as (Hlen & Hro & _). unfold class_end in Hr. consts; lia.
Qed.

Lemma laid_out_extent cs : forall off off' c, laid_out off cs off' -> In c cs ->
  class_wf c /\ off <= cl_off c /\ class_end c <= off'.
Proof.
  induction cs as [|c0 r IH]; intros off off' c H Hin; [destruct Hin|].
  cbn [laid_out] in H. destruct H as (Hwf & Hoff & Hr).
  destruct (class_wf_span c0 Hwf) as (Hlen & Hro & _).
  destruct Hin as [->|Hin].
  - split; [exact Hwf|]. split; [lia|]. apply laid_out_mono in Hr. exact Hr.
  - destruct (IH _ _ c Hr Hin) as (Hw & Hlo & Hhi). split; [exact Hw|]. split; [|exact Hhi].
    unfold class_end in Hlo. consts; lia.
Qed.

Lemma laid_out_order cs : forall off off' j1 j2 c1 c2, laid_out off cs off' ->
  nth_error cs j1 = Some c1 -> nth_error cs j2 = Some c2 -> (j1 < j2)%nat ->
  class_end c1 <= cl_off c2.
Proof.
  induction cs as [|c0 r IH]; intros off off' j1 j2 c1 c2 H H1 H2 Hlt.
  { destruct j1; discriminate. }
  cbn [laid_out] in H. destruct H as (Hwf & Hoff & Hr).
  destruct j2 as [|j2]; [lia|]. cbn [nth_error] in H2.
  destruct j1 as [|j1]; cbn [nth_error] in H1.
  - injection H1 as <-. apply nth_error_In in H2.
    destruct (laid_out_extent _ _ _ c2 Hr H2) as (_ & Hlo & _). exact Hlo.
  - apply (IH _ _ j1 j2 c1 c2 Hr H1 H2). lia.
Qed.

Lemma laid_out_layout_ok pairs memLen cs off' :
  laid_out c_bufferManagerHeaderSize cs off' -> off' <= memLen ->
  map cl_capPerBuffer cs = map fst pairs ->
  layout_ok pairs memLen cs.
Proof.
  intros Hlay Hmem Hmap.
  assert (Hext := fun c => laid_out_extent cs _ _ c Hlay).
  (* everything a class owns lies in [cl_off, class_end), and classes follow each other *)
  assert (Hsep : forall j1 j2 c1 c2, nth_error cs j1 = Some c1 -> nth_error cs j2 = Some c2 ->
                 (j1 < j2)%nat -> class_end c1 <= cl_off c2)
    by (intros; eapply laid_out_order; eauto).
  split; [exact Hmap|]. split; [|split; [|split]].
  - apply Forall_forall. intros c Hin. destruct (Hext c Hin) as ((_ & Hcap & _) & _). exact Hcap.
  - intros c i Hin Hi. destruct (Hext c Hin) as (Hwf & Hlo & Hhi).
    destruct (class_wf_span c Hwf) as (Hlen & Hro & Hsl). destruct (Hsl i Hi) as (_ & _ & H1 & H2).
    unfold class_end in *. repeat split; lia.
  - intros j1 j2 c1 c2 i1 i2 H1 H2 Hi1 Hi2 Hne.
    destruct (Hext c1 (nth_error_In _ _ H1)) as (Hwf1 & _ & _).
    destruct (Hext c2 (nth_error_In _ _ H2)) as (Hwf2 & _ & _).
    destruct (class_wf_span c1 Hwf1) as (_ & Hro1 & Hsl1). destruct (Hsl1 i1 Hi1) as (Hlo1 & Hhi1 & Hb1 & He1).
    destruct (class_wf_span c2 Hwf2) as (_ & Hro2 & Hsl2). destruct (Hsl2 i2 Hi2) as (Hlo2 & Hhi2 & Hb2 & He2).
    destruct (lt_eq_lt_dec j1 j2) as [[Hlt|Heq]|Hgt].
    + left. specialize (Hsep j1 j2 c1 c2 H1 H2 Hlt). consts; lia.
    + subst j2. rewrite H1 in H2. injection H2 as <-.
      destruct Hne as [Hne|Hne]; [congruence|].
      destruct Hwf1 as (_ & _ & Hcpb & _).
      rewrite Hlo1, Hhi1, Hlo2, Hhi2.
      destruct (Z_lt_ge_dec i1 i2) as [Hl|Hg].
      * left. assert ((i1 + 1) * (cl_capPerBuffer c1 + c_bufferHeaderSize) <= i2 * (cl_capPerBuffer c1 + c_bufferHeaderSize))
          by (apply Z.mul_le_mono_nonneg_r; consts; lia). lia.
      * right. assert ((i2 + 1) * (cl_capPerBuffer c1 + c_bufferHeaderSize) <= i1 * (cl_capPerBuffer c1 + c_bufferHeaderSize))
          by (apply Z.mul_le_mono_nonneg_r; consts; lia). lia.
    + right. specialize (Hsep j2 j1 c2 c1 H2 H1 Hgt). consts; lia.
  - intros j1 j2 c1 c2 H1 H2.
    destruct (Hext c1 (nth_error_In _ _ H1)) as (Hwf1 & _ & _).
    destruct (Hext c2 (nth_error_In _ _ H2)) as (Hwf2 & _ & _).
    destruct (class_wf_span c1 Hwf1) as (Hlen1 & Hro1 & _).
    destruct (class_wf_span c2 Hwf2) as (Hlen2 & Hro2 & Hsl2).
    split.
    + intros Hne. destruct (lt_eq_lt_dec j1 j2) as [[Hlt|Heq]|Hgt]; [|congruence|].
      * left. specialize (Hsep j1 j2 c1 c2 H1 H2 Hlt). unfold class_end in Hsep. consts; lia.
      * right. specialize (Hsep j2 j1 c2 c1 H2 H1 Hgt). unfold class_end in Hsep. consts; lia.
    + intros i Hi. destruct (Hsl2 i Hi) as (_ & _ & Hb2 & He2).
      destruct (lt_eq_lt_dec j1 j2) as [[Hlt|Heq]|Hgt].
      * left. specialize (Hsep j1 j2 c1 c2 H1 H2 Hlt). unfold class_end in Hsep. consts; lia.
      * subst j2. rewrite H1 in H2. injection H2 as <-. left. lia.
      * right. specialize (Hsep j2 j1 c2 c1 H2 H1 Hgt). lia.
Qed.

(* ---------------------------------------------------------------------------------------------- *)
(* top level: createBufferManager, and mappingBufferManager on what it wrote *)

(* VerifyConfig's rules that concern the layout: at least one pair, no size above the capacity *)
Definition pairs_ok (memLen : Z) (pairs : list (Z * Z)) : Prop :=
  pairs <> [] /\ Forall (fun p => 0 <= fst p <= memLen) pairs.

Definition buffers_result_ok (pairs : list (Z * Z)) (memLen : Z) (m0 : mem) : Prop :=
  match create_bm pairs memLen m0 with
  | Err _ => True
  | Panic _ => False
  | Ok (cs, _) => layout_ok pairs memLen cs
  end.

Lemma create_bm_spec pairs memLen m0 :
  0 <= memLen -> pairs_ok memLen pairs -> memLen + c_bufferListHeaderSize < 4294967296 ->
  match create_bm pairs memLen m0 with
  | Err _ => True
  | Panic _ => False
  | Ok (cs, m') =>
    (exists off', laid_out c_bufferManagerHeaderSize cs off' /\ off' <= memLen) /\
    layout_ok pairs memLen cs /\
    (Z.of_nat (length pairs) < 65536 -> map_bm memLen m' = Ok cs)
  end.
Proof.
  intros Hmem (Hne & Hall) Hguard.
  unfold create_bm, create_bm_gen.
  destruct (memLen <=? 0) eqn:E0; [exact I|].
  pose proof (create_loop_spec pairs (region_cap (Z.of_nat (length pairs)) memLen) memLen
                c_bufferManagerHeaderSize 0 (upd m0 0 (w16 (Z.of_nat (length pairs))))
                ltac:(consts; lia) Hmem Hguard Hall) as Hl.
  unfold create_loop in Hl.
  destruct (create_loop_gen chain_init_ok pairs _ memLen c_bufferManagerHeaderSize 0 _)
    as [[[cs off'] m']|e|p]; [|exact I|exact Hl].
  destruct Hl as (Hlay & Hle & _ & Hmap & Hframe & Hin & Hml).
  specialize (Hin Hne).
  destruct pairs as [|p0 rest]; [congruence|].
  destruct (memLen <=? c_bmCapOffset) eqn:E1; [consts; lia|].
  split; [exists off'; split; [exact Hlay|exact Hin]|].
  split; [eapply laid_out_layout_ok; eauto|].
  intros Hn16.
  unfold map_bm.
  destruct ((memLen <=? c_bmCapOffset) || (memLen <=? 0)) eqn:E2; [lia|].
  rewrite upd_same.
  rewrite (upd_other _ c_bmCapOffset _ 0) by (consts; lia).
  rewrite Hframe by (consts; lia). rewrite upd_same.
  remember (Z.of_nat (length (p0 :: rest))) as n.
  assert (Hn1 : 1 <= n) by (subst n; cbn [length]; lia).
  assert (Hw16 : w16 (w16 n) = n) by (unfold w16; rewrite Z.mod_mod by lia; apply Z.mod_small; lia).
  rewrite Hw16.
  rewrite (w32_small (off' - _)) by (consts; lia).
  destruct ((memLen <? c_bufferManagerHeaderSize + (off' - c_bufferManagerHeaderSize)) || (n =? 0)) eqn:E3; [lia|].
  subst n. rewrite Nat2Z.id.
  apply Hml. intros a Ha. apply upd_other. consts; lia.
Qed.

(* ---------------------------------------------------------------------------------------------- *)
(* queues *)
Definition qbase (q : queue) : Z := q_head_at q - off_map_queue_head.
(* header fields where the generated offsets say, ring directly behind the header, cap elements long *)
Definition queue_wf (q : queue) : Prop :=
  q_tail_at q = qbase q + off_map_queue_tail /\ q_flag_at q = qbase q + off_map_queue_workingFlag /\
  q_lo q = qbase q + c_queueHeaderLength /\ q_hi q = q_lo q + c_queueElementLen * q_cap q.

Definition queues_ok (cap : Z) (A : qmanager) (memSize : Z) : Prop :=
  let s := qm_send A in let r := qm_recv A in
  q_cap s = cap /\ q_cap r = cap /\ queue_wf s /\ queue_wf r /\
  0 <= qbase s /\ 0 <= qbase r /\ q_hi s <= memSize /\ q_hi r <= memSize /\
  (q_hi s <= qbase r \/ q_hi r <= qbase s).

(* one side creates with `create`, the peer maps the same memory with `map` *)
Definition queues_result_ok_of (create : Z -> mem -> outcome (qmanager * Z * mem))
  (map : Z -> mem -> outcome qmanager) (cap : Z) (m : mem) : Prop :=
  exists A memSize m' B,
    create cap m = Ok (A, memSize, m') /\ map memSize m' = Ok B /\
    queues_ok cap A memSize /\
    qm_send B = qm_recv A /\ qm_recv B = qm_send A.
Definition queues_result_ok := queues_result_ok_of create_qm map_qm.
Definition queues_result_ok_memfd := queues_result_ok_of create_qm_memfd map_qm_memfd.

(* the cross-wiring of the generated half indices: what the creating side uses for its send queue is
   what the mapping side uses for its receive queue and vice versa, and one side's two queues use
   different halves.  Re-checked against the current source on every build. *)
Definition cross_wired (cs cr ms mr : Z) : Prop :=
  ms = cr /\ mr = cs /\ ((cs = 0 /\ cr <> 0) \/ (cs <> 0 /\ cr = 0)).
Lemma wiring_file : cross_wired off_halves_createQueueManager_sendQueue off_halves_createQueueManager_recvQueue
                                off_halves_mappingQueueManager_sendQueue off_halves_mappingQueueManager_recvQueue.
Proof. unfold cross_wired. split; [reflexivity|]. split; [reflexivity|].
  unfold off_halves_createQueueManager_sendQueue, off_halves_createQueueManager_recvQueue. lia. Qed.
Lemma wiring_memfd : cross_wired off_halves_createQueueManagerWithMemFd_sendQueue off_halves_createQueueManagerWithMemFd_recvQueue
                                 off_halves_mappingQueueManagerMemfd_sendQueue off_halves_mappingQueueManagerMemfd_recvQueue.
Proof. unfold cross_wired. split; [reflexivity|]. split; [reflexivity|].
  unfold off_halves_createQueueManagerWithMemFd_sendQueue, off_halves_createQueueManagerWithMemFd_recvQueue. lia. Qed.

Definition queue_at (base cap : Z) : queue :=
  {| q_cap := cap; q_head_at := base + off_map_queue_head; q_tail_at := base + off_map_queue_tail;
     q_flag_at := base + off_map_queue_workingFlag; q_lo := base + c_queueHeaderLength;
     q_hi := base + (c_queueHeaderLength + c_queueElementLen * cap) |}.

Lemma map_q_eq base dataLen dataCap m cap :
  0 <= cap ->
  m base = cap -> c_queueHeaderLength + c_queueElementLen * cap <= dataLen -> dataLen <= dataCap ->
  map_q base dataLen dataCap m = Ok (queue_at base cap).
Proof.
  intros Hcap Hm Hlen Hcapd. unfold map_q. rewrite Hm.
  destruct (dataLen <=? 0) eqn:E0; [consts; lia|].
  cbn [existsb].
  destruct ((dataLen <=? off_map_queue_head) || ((dataLen <=? off_map_queue_tail) || ((dataLen <=? off_map_queue_workingFlag) || false))) eqn:E1;
    [consts; lia|].
  destruct ((c_queueHeaderLength + cap * c_queueElementLen <? c_queueHeaderLength) || (dataCap <? c_queueHeaderLength + cap * c_queueElementLen)) eqn:E2;
    [consts; lia|].
  unfold queue_at. rewrite (Z.mul_comm cap). reflexivity.
Qed.

Definition create_q_mem (m : mem) (base cap : Z) : mem :=
  upd (upd (upd (upd m base cap) (base + off_map_queue_head) 0) (base + off_map_queue_tail) 0)
      (base + off_map_queue_workingFlag) 0.

Lemma create_q_eq base dataLen dataCap m cap :
  0 <= cap < 4294967296 ->
  c_queueHeaderLength + c_queueElementLen * cap <= dataLen -> dataLen <= dataCap ->
  create_q base dataLen dataCap cap m = Ok (queue_at base cap, create_q_mem m base cap).
Proof.
  intros Hcap Hlen Hcapd. unfold create_q.
  destruct (dataLen <=? 0) eqn:E0; [consts; lia|].
  rewrite (w32_small cap) by (consts; lia).
  rewrite (map_q_eq base dataLen dataCap _ cap) by (try lia; apply upd_same).
  reflexivity.
Qed.

Lemma create_q_mem_read m base cap a :
  a < base \/ base + c_queueHeaderLength <= a -> create_q_mem m base cap a = m a.
Proof.
  intros Ha. unfold create_q_mem. repeat (rewrite upd_other by (consts; lia)). reflexivity.
Qed.

Lemma create_q_mem_cap m base cap : create_q_mem m base cap base = cap.
Proof. unfold create_q_mem. repeat (rewrite upd_other by (consts; lia)). apply upd_same. Qed.

Lemma half_slice_lower half : half_slice (half * 2) 0 = (0, half, half * 2).
Proof. unfold half_slice. cbn [Z.eqb]. rewrite Z.div_mul by lia. reflexivity. Qed.
Lemma half_slice_upper half idx : idx <> 0 -> half_slice (half * 2) idx = (half, half, half).
Proof.
  intros H. unfold half_slice. destruct (idx =? 0) eqn:E; [lia|].
  rewrite Z.div_mul by lia. replace (half * 2 - half) with half by ring. reflexivity.
Qed.

Lemma queues_spec_gen cs cr ms mr cap m :
  cross_wired cs cr ms mr ->
  0 <= cap < 4294967296 ->
  queues_result_ok_of (create_qm_gen cs cr) (map_qm_gen ms mr) cap m.
Proof.
  intros (-> & -> & Hw) Hcap.
  remember (c_queueHeaderLength + c_queueElementLen * cap) as half.
  assert (Hhalf : c_queueHeaderLength <= half) by (consts; lia).
  assert (Hms : queue_mem_size cap * c_queueCount = half * 2) by (unfold queue_mem_size; consts; lia).
  unfold queues_result_ok_of.
  destruct Hw as [(-> & Hr)|(Hs & ->)].
  - (* send queue created on the lower half *)
    assert (Hc : create_qm_gen 0 cr cap m =
                 Ok ({| qm_send := queue_at 0 cap; qm_recv := queue_at half cap |}, half * 2,
                     create_q_mem (create_q_mem m 0 cap) half cap)).
    { unfold create_qm_gen. rewrite Hms, half_slice_lower, (half_slice_upper half cr Hr).
      rewrite (create_q_eq 0 half (half * 2) m cap) by (consts; lia).
      rewrite (create_q_eq half half half _ cap) by (consts; lia). reflexivity. }
    assert (Hm : map_qm_gen cr 0 (half * 2) (create_q_mem (create_q_mem m 0 cap) half cap) =
                 Ok {| qm_send := queue_at half cap; qm_recv := queue_at 0 cap |}).
    { unfold map_qm_gen. rewrite half_slice_lower, (half_slice_upper half cr Hr).
      rewrite (map_q_eq half half half _ cap) by (try (consts; lia); apply create_q_mem_cap).
      rewrite (map_q_eq 0 half (half * 2) _ cap)
        by (try (consts; lia); rewrite create_q_mem_read by (consts; lia); apply create_q_mem_cap).
      reflexivity. }
    do 4 eexists. split; [exact Hc|]. split; [exact Hm|]. split; [|split; reflexivity].
    unfold queues_ok, queue_wf, qbase, queue_at.
    cbn [qm_send qm_recv q_cap q_head_at q_tail_at q_flag_at q_lo q_hi].
    repeat split; consts; lia.
  - (* send queue created on the upper half *)
    assert (Hc : create_qm_gen cs 0 cap m =
                 Ok ({| qm_send := queue_at half cap; qm_recv := queue_at 0 cap |}, half * 2,
                     create_q_mem (create_q_mem m half cap) 0 cap)).
    { unfold create_qm_gen. rewrite Hms, half_slice_lower, (half_slice_upper half cs Hs).
      rewrite (create_q_eq half half half m cap) by (consts; lia).
      rewrite (create_q_eq 0 half (half * 2) _ cap) by (consts; lia). reflexivity. }
    assert (Hm : map_qm_gen 0 cs (half * 2) (create_q_mem (create_q_mem m half cap) 0 cap) =
                 Ok {| qm_send := queue_at 0 cap; qm_recv := queue_at half cap |}).
    { unfold map_qm_gen. rewrite half_slice_lower, (half_slice_upper half cs Hs).
      rewrite (map_q_eq 0 half (half * 2) _ cap) by (try (consts; lia); apply create_q_mem_cap).
      rewrite (map_q_eq half half half _ cap)
        by (try (consts; lia); rewrite create_q_mem_read by (consts; lia); apply create_q_mem_cap).
      reflexivity. }
    do 4 eexists. split; [exact Hc|]. split; [exact Hm|]. split; [|split; reflexivity].
    unfold queues_ok, queue_wf, qbase, queue_at.
    cbn [qm_send qm_recv q_cap q_head_at q_tail_at q_flag_at q_lo q_hi].
    repeat split; consts; lia.
Qed.

Lemma queues_spec cap m : 0 <= cap < 4294967296 -> queues_result_ok cap m.
Proof. intros. unfold queues_result_ok, create_qm, map_qm. apply queues_spec_gen; [exact wiring_file|lia]. Qed.

Lemma queues_spec_memfd cap m : 0 <= cap < 4294967296 -> queues_result_ok_memfd cap m.
Proof. intros. unfold queues_result_ok_memfd, create_qm_memfd, map_qm_memfd. apply queues_spec_gen; [exact wiring_memfd|lia]. Qed.

(* ---------------------------------------------------------------------------------------------- *)
(* the full statements (inputs range over what the Go types allow) and the proved parts *)
Definition uint32_pairs (pairs : list (Z * Z)) : Prop :=
  Forall (fun p => 0 <= fst p < 4294967296 /\ 0 <= snd p < 4294967296) pairs.

Definition buffers_full : Prop :=
  forall pairs memLen m0, 0 <= memLen < 9223372036854775808 -> uint32_pairs pairs -> pairs_ok memLen pairs ->
    buffers_result_ok pairs memLen m0.

Definition peer_view_full : Prop :=
  forall pairs memLen m0 cs m', 0 <= memLen < 9223372036854775808 -> uint32_pairs pairs -> pairs_ok memLen pairs ->
    create_bm pairs memLen m0 = Ok (cs, m') -> map_bm memLen m' = Ok cs.

Definition queues_full : Prop :=
  forall cap m, 0 <= cap < 4294967296 -> queues_result_ok cap m.

Lemma buffers_partial pairs memLen m0 :
  0 <= memLen -> pairs_ok memLen pairs -> memLen + c_bufferListHeaderSize < 4294967296 ->
  buffers_result_ok pairs memLen m0.
Proof.
  intros Hmem Hok Hguard. unfold buffers_result_ok.
  pose proof (create_bm_spec pairs memLen m0 Hmem Hok Hguard) as H.
  destruct (create_bm pairs memLen m0) as [[cs m']|e|p]; [exact (proj1 (proj2 H))|exact I|exact H].
Qed.

Lemma peer_view_partial pairs memLen m0 cs m' :
  0 <= memLen -> pairs_ok memLen pairs -> memLen + c_bufferListHeaderSize < 4294967296 ->
  Z.of_nat (length pairs) < 65536 ->
  create_bm pairs memLen m0 = Ok (cs, m') -> map_bm memLen m' = Ok cs.
Proof.
  intros Hmem Hok Hguard Hn Hc.
  pose proof (create_bm_spec pairs memLen m0 Hmem Hok Hguard) as H.
  rewrite Hc in H. exact (proj2 (proj2 H) Hn).
Qed.

(* witnesses at the 4 GiB corner *)
Definition wit_div0 : list (Z * Z) := [(4294967276, 100)].
Definition wit_caseB : list (Z * Z) := [(944892668, 22); (3350074472, 4294967295); (42949651, 1)].
Definition wit_mem : Z := 4294967295.
Definition zero_mem : mem := fun _ => 0.

(* regression (/repo db4e530): Size = 2^32 - 20 wraps the uint32 stride Size + 20 to 0 — the divisor of the
   slot count before the repair (integer divide by zero, former known finding
   C03:slice-size-plus-header-wraps); createBufferManager now answers with an error *)
Lemma wit_div0_regression :
  w32 (4294967276 + c_bufferHeaderSize) = 0 /\ create_bm wit_div0 wit_mem zero_mem = Err 6.
Proof. split; vm_compute; reflexivity. Qed.

(* three one-slot classes, every size below the mapping length and far from the uint32 limit; a
   percentage of 2^32-1 steps the running sum back from 22 to 21.  The third list header lands in the
   last 36 bytes below 4 GiB, offset+36 wraps, and its buffer region is placed at offset 0 — over the
   manager header and the first class.  The mapping side rejects this layout. *)
Definition wit_caseB_classes : list class :=
  [ mk_class 8 1 944892668; mk_class 944892732 1 3350074472;
    {| cl_off := 4294967260; cl_regionOff := 0; cl_regionLen := 42949671; cl_size := 1; cl_cap := 1;
       cl_head := 0; cl_tail := 0; cl_capPerBuffer := 42949651 |} ].

Lemma wit_caseB_created :
  exists m', create_bm wit_caseB wit_mem zero_mem = Ok (wit_caseB_classes, m') /\
             map_bm wit_mem m' = Err 11.
Proof.
  eexists. split.
  - vm_compute. reflexivity.
  - vm_compute. reflexivity.
Qed.

Lemma wit_caseB_ok : 0 <= wit_mem < 9223372036854775808 /\ uint32_pairs wit_caseB /\ pairs_ok wit_mem wit_caseB /\
                     Forall (fun p => fst p + c_bufferHeaderSize < 4294967296) wit_caseB.
Proof.
  unfold wit_mem, wit_caseB, uint32_pairs, pairs_ok.
  split; [lia|]. split; [repeat constructor; cbn; lia|]. split; [split; [discriminate|]|]; repeat constructor; cbn; consts; lia.
Qed.

Lemma wit_caseB_not_ok : ~ layout_ok wit_caseB wit_mem wit_caseB_classes.
Proof.
  intros (_ & _ & Hb & _ & _).
  (* slot 0 of the third class starts at offset 0, in front of its own header *)
  specialize (Hb (nth 2 wit_caseB_classes (mk_class 0 0 0)) 0).
  cbn [nth wit_caseB_classes] in Hb.
  destruct Hb as (_ & H & _).
  - cbn. right; right; left; reflexivity.
  - cbn. lia.
  - cbn in H. consts. lia.
Qed.

Lemma buffers_refuted : ~ buffers_full.
Proof.
  intros H. destruct wit_caseB_ok as (Hm & Hu & Hp & _).
  specialize (H wit_caseB wit_mem zero_mem Hm Hu Hp). unfold buffers_result_ok in H.
  destruct wit_caseB_created as (m' & Hc & _). rewrite Hc in H. exact (wit_caseB_not_ok H).
Qed.

Lemma peer_view_refuted : ~ peer_view_full.
Proof.
  intros H. destruct wit_caseB_ok as (Hm & Hu & Hp & _).
  destruct wit_caseB_created as (m' & Hc & Hmap).
  specialize (H wit_caseB wit_mem zero_mem _ _ Hm Hu Hp Hc). rewrite Hmap in H. discriminate H.
Qed.

(* queues: since 97d22d3 (ring end computed in int) the full statement holds for every uint32 capacity *)
Definition queues_full_memfd : Prop :=
  forall cap m, 0 <= cap < 4294967296 -> queues_result_ok_memfd cap m.
Lemma queues_full_holds : queues_full.
Proof. intros cap m H. apply queues_spec. exact H. Qed.
Lemma queues_full_memfd_holds : queues_full_memfd.
Proof. intros cap m H. apply queues_spec_memfd. exact H. Qed.

(* regression: what the uint32 formula used before 97d22d3 gave — an end below the 24-byte header
   (slice bounds panic) for cap = 357913940, and a "357913942-entry" ring of 8 bytes *)
Lemma ring_end_uint32_regression :
  ring_end_uint32 357913940 = 8 /\ ring_end_uint32 357913942 = 32 /\
  c_queueHeaderLength + 357913942 * c_queueElementLen = 4294967328.
Proof. vm_compute. repeat split. Qed.

(* ---------------------------------------------------------------------------------------------- *)
(* the initial free chain: the loop links slot i (at i*stride) to slot i+1, the last slot has no
   successor and is the tail — i.e. following the chain from head = 0 visits exactly the slots
   slot_lo c 0 .. slot_lo c (cap-1) of the geometric statement, each once, in order *)
Definition chain_spec (num cpb : Z) : list (Z * option Z) :=
  map (fun k => let i := Z.of_nat k in
                (i * (cpb + c_bufferHeaderSize),
                 if i <? num - 1 then Some ((i + 1) * (cpb + c_bufferHeaderSize)) else None))
      (seq 0 (Z.to_nat num)).

Lemma chain_links_spec fuel : forall k num cpb,
  0 <= cpb -> Z.of_nat k + Z.of_nat fuel = num -> num * (cpb + c_bufferHeaderSize) < 4294967296 ->
  chain_links fuel (Z.of_nat k) (Z.of_nat k * (cpb + c_bufferHeaderSize)) num cpb =
  map (fun k => let i := Z.of_nat k in
                (i * (cpb + c_bufferHeaderSize),
                 if i <? num - 1 then Some ((i + 1) * (cpb + c_bufferHeaderSize)) else None))
      (seq k fuel).
Proof.
  induction fuel as [|f IH]; intros k num cpb Hc Hn Hlt; [reflexivity|].
  cbn [chain_links seq map]. cbv zeta.
  assert (Hstep : (Z.of_nat k + 1) * (cpb + c_bufferHeaderSize) <= num * (cpb + c_bufferHeaderSize))
    by (apply Z.mul_le_mono_nonneg_r; consts; lia).
  assert (Hpos : 0 <= Z.of_nat k * (cpb + c_bufferHeaderSize)) by (apply Z.mul_nonneg_nonneg; consts; lia).
  assert (Hnext : w32 (w32 (Z.of_nat k * (cpb + c_bufferHeaderSize) + cpb) + c_bufferHeaderSize)
                  = (Z.of_nat k + 1) * (cpb + c_bufferHeaderSize)).
  { replace ((Z.of_nat k + 1) * (cpb + c_bufferHeaderSize))
      with (Z.of_nat k * (cpb + c_bufferHeaderSize) + cpb + c_bufferHeaderSize) in * by ring.
    remember (Z.of_nat k * (cpb + c_bufferHeaderSize)) as P.
    rewrite (w32_small (P + cpb)) by (consts; lia). apply w32_small. consts; lia. }
  rewrite Hnext.
  rewrite (w32_small (num - 1)) by (consts; nia).
  f_equal.
  replace (Z.of_nat k + 1) with (Z.of_nat (S k)) by lia.
  apply IH; lia.
Qed.

Lemma initial_chain_spec num cpb :
  0 <= cpb -> 0 <= num -> num * (cpb + c_bufferHeaderSize) < 4294967296 ->
  initial_chain num cpb = chain_spec num cpb.
Proof.
  intros Hc Hn Hlt. unfold initial_chain, chain_spec.
  apply (chain_links_spec (Z.to_nat num) 0 num cpb Hc); lia.
Qed.

(* ---------------------------------------------------------------------------------------------- *)
(* configurations the real code accepts.  VerifyConfig computes the percent sum in int and demands
   sum = 100: no percentage can wrap the uint32 running sum of createBufferManager, every budget is an
   honest share of the region, and the classes cannot outgrow the mapping — so the 36 bytes below
   4 GiB need no guard.  A size whose stride size + 20 wraps in uint32 is rejected by createBufferManager
   itself since /repo db4e530.  What remains forced: the list headers alone must fit (VerifyConfig does
   not bound the number of pairs). *)
Fixpoint sum_pct (pairs : list (Z * Z)) : Z :=
  match pairs with [] => 0 | p :: r => snd p + sum_pct r end.

Definition config_ok (memLen : Z) (pairs : list (Z * Z)) : Prop :=
  0 <= memLen < 4294967296 /\                                  (* Config.ShareMemoryBufferCap is a uint32 *)
  pairs <> [] /\                                               (* VerifyConfig: BufferSliceSizes not empty *)
  Forall (fun p => 0 <= fst p <= memLen /\ 0 <= snd p) pairs /\ (* VerifyConfig: Size <= ShareMemoryBufferCap *)
  sum_pct pairs = 100 /\                                       (* VerifyConfig: sum of Percent (in int) = 100 *)
  (* forced by the proof, NOT enforced by the code: *)
  c_bufferListHeaderSize * Z.of_nat (length pairs) + c_bufferManagerHeaderSize <= memLen.

Lemma create_fbl_spec_fit num cpb memLen off m :
  0 <= off -> 0 <= memLen < 4294967296 -> 0 <= cpb -> cpb + c_bufferHeaderSize < 4294967296 -> 0 <= num ->
  off + c_bufferListHeaderSize + num * (cpb + c_bufferHeaderSize) <= memLen ->
  match create_fbl num cpb memLen off m with
  | Panic _ => False
  | Err _ => True
  | Ok (c, m') =>
    1 <= num /\ 1 <= cpb /\
    list_mem_size num cpb = c_bufferListHeaderSize + num * (cpb + c_bufferHeaderSize) /\
    c = mk_class off num cpb /\
    m' = write_list_header m off num ((num - 1) * (cpb + c_bufferHeaderSize)) cpb
  end.
Proof.
  intros Hoff Hmem Hcpb Hs32 Hnum Hfit.
  unfold create_fbl, create_fbl_gen.
  destruct ((num =? 0) || (cpb =? 0)) eqn:E0; [exact I|].
  assert (Hs : w32 (cpb + c_bufferHeaderSize) = cpb + c_bufferHeaderSize) by (apply w32_small; consts; lia).
  assert (HP0 : 0 < num * (cpb + c_bufferHeaderSize)) by (apply Z.mul_pos_pos; consts; lia).
  assert (HPt : 0 <= (num - 1) * (cpb + c_bufferHeaderSize)) by (apply Z.mul_nonneg_nonneg; consts; lia).
  assert (HPl : (num - 1) * (cpb + c_bufferHeaderSize) <= num * (cpb + c_bufferHeaderSize))
    by (apply Z.mul_le_mono_nonneg_r; consts; lia).
  assert (Hn32 : 1 <= num <= num * (cpb + c_bufferHeaderSize)) by (consts; nia).
  pose proof (list_mem_size_small num cpb ltac:(lia) ltac:(lia) ltac:(consts; lia)) as HA.
  rewrite Hs, (w32_small (num - 1)) by (consts; lia).
  rewrite (w32_small ((num - 1) * _)) by (consts; lia).
  rewrite HA. cbv zeta.
  remember (num * (cpb + c_bufferHeaderSize)) as P.
  remember ((num - 1) * (cpb + c_bufferHeaderSize)) as T.
  rewrite (w32_small memLen) by lia.
  rewrite (w32_small (off + (c_bufferListHeaderSize + P))) by (consts; lia).
  rewrite (w32_small (off + c_bufferListHeaderSize)) by (consts; lia).
  destruct ((memLen <? off + (c_bufferListHeaderSize + P)) || (memLen <? off)
            || (memLen <? c_bufferListHeaderSize + P)) eqn:E1; [exact I|].
  destruct (off + (c_bufferListHeaderSize + P) <=? off + c_bufferListHeaderSize) eqn:E2; [exact I|].
  assert (E3 : existsb (fun k => memLen <=? w32 (off + k)) create_offsets = false).
  { unfold create_offsets. cbn [existsb]. rewrite !w32_small by (consts; lia). consts; lia. }
  rewrite E3.
  destruct (memLen <? off + (c_bufferListHeaderSize + P)) eqn:E4; [consts; lia|].
  replace (off + (c_bufferListHeaderSize + P) - (off + c_bufferListHeaderSize)) with P by ring.
  subst P T. rewrite chain_init_ok_true by (consts; lia). cbn [negb].
  repeat split; try lia.
Qed.

Lemma sum_pct_nonneg pairs : Forall (fun p : Z * Z => 0 <= snd p) pairs -> 0 <= sum_pct pairs.
Proof. induction 1; cbn [sum_pct]; lia. Qed.

Lemma length_le_sum_pct pairs : Forall (fun p : Z * Z => 1 <= snd p) pairs -> Z.of_nat (length pairs) <= sum_pct pairs.
Proof. induction 1; cbn [sum_pct length]; lia. Qed.

Lemma create_loop_spec_config pairs : forall rc memLen off sum m,
  0 <= rc < 4294967296 -> 0 <= memLen < 4294967296 -> 0 <= off -> 0 <= sum ->
  sum + sum_pct pairs <= 100 ->
  Forall (fun p => 0 <= fst p < 4294967296 /\ 0 <= snd p) pairs ->
  100 * (off + c_bufferListHeaderSize * Z.of_nat (length pairs)) + rc * sum_pct pairs <= 100 * memLen ->
  match create_loop pairs rc memLen off sum m with
  | Panic _ => False
  | Err _ => True
  | Ok (cs, off', m') =>
      laid_out off cs off' /\ off <= off' /\ off' <= Z.max off memLen /\
      map cl_capPerBuffer cs = map fst pairs /\
      (forall a, a < off \/ off' <= a -> m' a = m a) /\
      (pairs <> [] -> off' <= memLen) /\
      Forall (fun p => 1 <= snd p) pairs /\
      (forall m2, (forall a, off <= a < off' -> m2 a = m' a) -> map_loop (length pairs) memLen off m2 = Ok cs)
  end.
Proof.
  unfold create_loop.
  induction pairs as [|[size pct] rest IH]; intros rc memLen off sum m Hrc Hmem Hoff Hsum Hle Hall Hbud.
  { cbn. repeat split; try lia. intros H; congruence. constructor. }
  inversion Hall as [|p l Hsz Hrest]; subst p l. cbn [fst snd] in Hsz. destruct Hsz as ((Hsz0 & Hszu) & Hpct).
  cbn [sum_pct snd length] in Hle, Hbud.
  assert (Hsr : 0 <= sum_pct rest).
  { apply sum_pct_nonneg. eapply Forall_impl; [|exact Hrest]. cbn. intros a Ha; lia. }
  cbn [create_loop_gen]. cbv zeta.
  rewrite (w32_small (sum + pct)) by lia.
  destruct (c_percentSumMax <? sum + pct); [exact I|].
  (* a stride that wraps in uint32 is rejected (db4e530) *)
  destruct (Z_lt_ge_dec (size + c_bufferHeaderSize) 4294967296) as [Hsz32|Hwrap].
  2:{ rewrite (w32_once (size + c_bufferHeaderSize)) by (consts; lia).
      destruct (size + c_bufferHeaderSize - 4294967296 <? c_bufferHeaderSize) eqn:Ew; [exact I|consts; lia]. }
  rewrite (w32_small (size + c_bufferHeaderSize)) by (consts; lia).
  destruct (size + c_bufferHeaderSize <? c_bufferHeaderSize) eqn:Ew; [exact I|].
  destruct (size + c_bufferHeaderSize =? 0) eqn:Ez; [consts; lia|].
  (* the budget of this class is an honest share: no uint64 / uint32 wrap *)
  assert (Hrp : 0 <= rc * pct) by (apply Z.mul_nonneg_nonneg; lia).
  assert (Hrp2 : rc * pct <= rc * 100) by (apply Z.mul_le_mono_nonneg_l; lia).
  assert (Hw64 : w64 (rc * pct) = rc * pct) by (unfold w64; apply Z.mod_small; lia).
  rewrite Hw64.
  assert (HXle : rc * pct / c_percentDivisor <= rc).
  { consts. apply Z.div_le_upper_bound; lia. }
  assert (HX0 : 0 <= rc * pct / c_percentDivisor) by (consts; apply Z.div_pos; lia).
  assert (HX100 : c_percentDivisor * (rc * pct / c_percentDivisor) <= rc * pct) by (consts; apply Z.mul_div_le; lia).
  rewrite (w32_small (rc * pct / c_percentDivisor)) by lia.
  remember (rc * pct / c_percentDivisor) as X.
  remember (X / (size + c_bufferHeaderSize)) as num.
  assert (Hnum : 0 <= num) by (subst num; apply Z.div_pos; consts; lia).
  assert (Hprod : num * (size + c_bufferHeaderSize) <= X).
  { subst num. rewrite Z.mul_comm. apply Z.mul_div_le. consts; lia. }
  rewrite Z.mul_add_distr_l in Hbud.
  assert (Hrs : 0 <= rc * sum_pct rest) by (apply Z.mul_nonneg_nonneg; lia).
  remember (num * (size + c_bufferHeaderSize)) as P.
  assert (Hfit : off + c_bufferListHeaderSize + P <= memLen) by (consts; lia).
  pose proof (create_fbl_spec_fit num size memLen off m Hoff Hmem Hsz0 Hsz32 Hnum ltac:(subst P; exact Hfit)) as Hf.
  unfold create_fbl in Hf.
  destruct (create_fbl_gen chain_init_ok num size memLen off m) as [[c m1]|e|p]; [|exact I|exact Hf].
  destruct Hf as (Hn1 & Hc1 & HA & Hc & Hm1).
  rewrite HA. rewrite <- HeqP.
  assert (HP0 : 0 < P) by (subst P; apply Z.mul_pos_pos; consts; lia).
  rewrite (w32_small (off + _)) by (consts; lia).
  specialize (IH rc memLen (off + (c_bufferListHeaderSize + P)) (sum + pct) m1
                 Hrc Hmem ltac:(consts; lia) ltac:(lia) ltac:(lia) Hrest ltac:(consts; lia)).
  destruct (create_loop_gen chain_init_ok rest rc memLen (off + (c_bufferListHeaderSize + P)) (sum + pct) m1)
    as [[[cs off'] m']|e|p]; [|exact I|exact IH].
  destruct IH as (Hlay & Hle' & Hin & Hmap & Hframe & _ & Hp1 & Hml).
  assert (Hend : class_end c = off + (c_bufferListHeaderSize + P)).
  { subst c. unfold class_end, mk_class. cbn [cl_regionOff cl_regionLen]. subst P. ring. }
  assert (Hoff' : off' <= memLen) by (consts; lia).
  assert (Hpct1 : 1 <= pct).
  { destruct (Z.eq_dec pct 0) as [->|Hnz]; [|lia].
    rewrite Z.mul_0_r in HeqX. consts. rewrite Z.div_0_l in HeqX by lia. lia. }
  split; [|split; [|split; [|split; [|split; [|split; [|split]]]]]].
  - cbn [laid_out]. split; [|split].
    + subst c. unfold class_wf, mk_class. cbn [cl_off cl_cap cl_capPerBuffer].
      split; [reflexivity|]. consts; lia.
    + subst c. reflexivity.
    + rewrite Hend. exact Hlay.
  - consts; lia.
  - consts; lia.
  - cbn [map fst]. rewrite Hmap. subst c. reflexivity.
  - intros a Ha. rewrite Hframe by (consts; lia). subst m1.
    apply write_list_header_frame; consts; lia.
  - intros _. exact Hoff'.
  - constructor; [exact Hpct1|exact Hp1].
  - intros m2 Hm2. cbn [length map_loop]. rewrite (w32_small off) by (consts; lia).
    rewrite (map_fbl_after_create m m2 off num size memLen) by
      (try (consts; lia); try (subst P; exact Hfit);
       intros a Ha; rewrite Hm2 by (consts; lia); rewrite Hframe by (consts; lia); subst m1; reflexivity).
    unfold mk_class at 1 2. cbn [cl_cap cl_capPerBuffer].
    rewrite HA. rewrite <- HeqP.
    rewrite (w32_small (off + _)) by (consts; lia).
    rewrite Hml by (intros a Ha; apply Hm2; consts; lia). subst c. reflexivity.
Qed.

Lemma create_bm_spec_config pairs memLen m0 :
  config_ok memLen pairs ->
  match create_bm pairs memLen m0 with
  | Err _ => True
  | Panic _ => False
  | Ok (cs, m') =>
    (exists off', laid_out c_bufferManagerHeaderSize cs off' /\ off' <= memLen) /\
    layout_ok pairs memLen cs /\ map_bm memLen m' = Ok cs
  end.
Proof.
  intros (Hmem & Hne & Hall & Hsum & Hhdr).
  unfold create_bm, create_bm_gen.
  destruct (memLen <=? 0) eqn:E0; [exact I|].
  remember (Z.of_nat (length pairs)) as n.
  assert (Hn0 : 0 <= n) by lia.
  assert (Hrc : region_cap n memLen = memLen - c_bufferListHeaderSize * n - c_bufferManagerHeaderSize).
  { unfold region_cap, w64. apply Z.mod_small. consts; lia. }
  rewrite Hrc.
  assert (Hall' : Forall (fun p => 0 <= fst p < 4294967296 /\ 0 <= snd p) pairs).
  { apply Forall_forall. intros p Hin.
    rewrite Forall_forall in Hall. specialize (Hall p Hin). lia. }
  pose proof (create_loop_spec_config pairs (memLen - c_bufferListHeaderSize * n - c_bufferManagerHeaderSize) memLen
                c_bufferManagerHeaderSize 0 (upd m0 0 (w16 n))
                ltac:(consts; lia) Hmem ltac:(consts; lia) ltac:(lia) ltac:(lia) Hall'
                ltac:(rewrite Hsum, <- Heqn; consts; lia)) as Hl.
  unfold create_loop in Hl.
  destruct (create_loop_gen chain_init_ok pairs _ memLen c_bufferManagerHeaderSize 0 _)
    as [[[cs off'] m']|e|p]; [|exact I|exact Hl].
  destruct Hl as (Hlay & Hle & _ & Hmap & Hframe & Hin & Hp1 & Hml).
  specialize (Hin Hne).
  assert (Hn100 : n <= 100) by (subst n; rewrite <- Hsum; apply length_le_sum_pct; exact Hp1).
  destruct pairs as [|p0 rest]; [congruence|].
  destruct (memLen <=? c_bmCapOffset) eqn:E1; [consts; lia|].
  split; [exists off'; split; [exact Hlay|exact Hin]|].
  split; [eapply laid_out_layout_ok; eauto|].
  unfold map_bm.
  destruct ((memLen <=? c_bmCapOffset) || (memLen <=? 0)) eqn:E2; [lia|].
  rewrite upd_same.
  rewrite (upd_other _ c_bmCapOffset _ 0) by (consts; lia).
  rewrite Hframe by (consts; lia). rewrite upd_same.
  assert (Hn1 : 1 <= n) by (subst n; cbn [length]; lia).
  assert (Hw16 : w16 (w16 n) = n) by (unfold w16; rewrite Z.mod_mod by lia; apply Z.mod_small; lia).
  rewrite Hw16.
  rewrite (w32_small (off' - _)) by (consts; lia).
  destruct ((memLen <? c_bufferManagerHeaderSize + (off' - c_bufferManagerHeaderSize)) || (n =? 0)) eqn:E3; [lia|].
  subst n. rewrite Nat2Z.id.
  apply Hml. intros a Ha. apply upd_other. consts; lia.
Qed.

Lemma buffers_config pairs memLen m0 : config_ok memLen pairs -> buffers_result_ok pairs memLen m0.
Proof.
  intros H. unfold buffers_result_ok. pose proof (create_bm_spec_config pairs memLen m0 H) as Hc.
  destruct (create_bm pairs memLen m0) as [[cs m']|e|p]; [exact (proj1 (proj2 Hc))|exact I|exact Hc].
Qed.

Lemma peer_view_config pairs memLen m0 cs m' :
  config_ok memLen pairs -> create_bm pairs memLen m0 = Ok (cs, m') -> map_bm memLen m' = Ok cs.
Proof.
  intros H Hc. pose proof (create_bm_spec_config pairs memLen m0 H) as Hs. rewrite Hc in Hs. exact (proj2 (proj2 Hs)).
Qed.

(* VerifyConfig rejects the refuting witness (its percentages sum to 4294967318 in int, not 100); it accepts
   the former division-by-zero configuration (capacity 2^32-1 >= 1 MiB, one size <= capacity, percent 100),
   which is config_ok and therefore covered by buffers_config: an error since db4e530 *)
Lemma wit_caseB_rejected_by_VerifyConfig : sum_pct wit_caseB <> 100.
Proof. vm_compute. discriminate. Qed.
Lemma wit_div0_accepted_by_VerifyConfig :
  1048576 <= wit_mem < 4294967296 /\ wit_div0 <> [] /\
  Forall (fun p => 0 <= fst p <= wit_mem /\ 0 <= snd p) wit_div0 /\ sum_pct wit_div0 = 100 /\
  c_bufferListHeaderSize * Z.of_nat (length wit_div0) + c_bufferManagerHeaderSize <= wit_mem.
Proof.
  unfold wit_mem, wit_div0. split; [lia|]. split; [discriminate|]. split; [repeat constructor; cbn; lia|].
  split; [reflexivity|]. cbn [length]. consts. lia.
Qed.

Lemma wit_div0_config_ok : config_ok wit_mem wit_div0.
Proof.
  destruct wit_div0_accepted_by_VerifyConfig as (H1 & H2 & H3 & H4 & H5).
  unfold config_ok. repeat split; try assumption; lia.
Qed.

(* ---------------------------------------------------------------------------------------------- *)
(* the peer's view does not depend on the allocation state: the allocator (bufferList.pop / push, on
   either side) changes the size / head / tail words of the list headers and nothing else of them;
   mappingBufferManager derives every extent from the cap and capPerBuffer words *)

(* class c with its three state words re-read from memory m *)
Definition restate (m : mem) (c : class) : class :=
  {| cl_off := cl_off c; cl_regionOff := cl_regionOff c; cl_regionLen := cl_regionLen c;
     cl_size := m (w32 (cl_off c + off_map_list_size)); cl_cap := cl_cap c;
     cl_head := m (w32 (cl_off c + off_map_list_head)); cl_tail := m (w32 (cl_off c + off_map_list_tail));
     cl_capPerBuffer := cl_capPerBuffer c |}.

(* an address that holds the size, head or tail word of one of the classes *)
Definition state_cell (cs : list class) (a : Z) : Prop :=
  exists c, In c cs /\ (a = w32 (cl_off c + off_map_list_size) \/ a = w32 (cl_off c + off_map_list_head) \/
                        a = w32 (cl_off c + off_map_list_tail)).

Definition geometry_cells_hold (m : mem) (c : class) : Prop :=
  m (w32 (cl_off c + off_map_list_cap)) = cl_cap c /\
  m (w32 (cl_off c + off_map_list_capPerBuffer)) = cl_capPerBuffer c.

Lemma map_fbl_cells m2 off num cpb memLen :
  0 <= off -> 0 <= memLen < 4294967296 -> 1 <= num -> 1 <= cpb ->
  off + c_bufferListHeaderSize + num * (cpb + c_bufferHeaderSize) <= memLen ->
  m2 (w32 (off + off_map_list_cap)) = num -> m2 (w32 (off + off_map_list_capPerBuffer)) = cpb ->
  map_fbl memLen off m2 = Ok (restate m2 (mk_class off num cpb)).
Proof.
  intros Hoff Hmem Hnum Hcpb Hfit Hcap Hcp.
  assert (HP0 : 0 < num * (cpb + c_bufferHeaderSize)) by (apply Z.mul_pos_pos; consts; lia).
  pose proof (list_mem_size_small num cpb ltac:(lia) ltac:(lia) ltac:(consts; lia)) as HA.
  unfold map_fbl.
  destruct (memLen <? c_bufferListHeaderSize + off) eqn:E1; [consts; lia|].
  assert (E2 : existsb (fun k => memLen <=? w32 (off + k)) map_offsets = false).
  { unfold map_offsets. cbn [existsb]. rewrite !w32_small by (consts; lia). consts; lia. }
  rewrite E2. rewrite Hcap, Hcp. cbv zeta. rewrite HA.
  rewrite (w32_small memLen) by lia.
  rewrite (w32_small (off + (_ + _))) by (consts; lia).
  rewrite (w32_small (off + c_bufferListHeaderSize)) by (consts; lia).
  destruct ((memLen <? off + (c_bufferListHeaderSize + num * (cpb + c_bufferHeaderSize)))
            || (off + (c_bufferListHeaderSize + num * (cpb + c_bufferHeaderSize)) <? off + c_bufferListHeaderSize)) eqn:E3;
    [consts; lia|].
  unfold restate, mk_class. cbn [cl_off cl_regionOff cl_regionLen cl_cap cl_capPerBuffer].
  f_equal. f_equal. ring.
Qed.

Lemma map_loop_layout cs : forall off off' memLen m2,
  laid_out off cs off' -> 0 <= off -> off' <= memLen -> 0 <= memLen < 4294967296 ->
  Forall (geometry_cells_hold m2) cs ->
  map_loop (length cs) memLen off m2 = Ok (map (restate m2) cs).
Proof.
  induction cs as [|c r IH]; intros off off' memLen m2 Hlay Hoff Hle Hmem Hcells; [reflexivity|].
  cbn [laid_out] in Hlay. destruct Hlay as (Hwf & Hco & Hr).
  inversion Hcells as [|x l Hc Hrest]; subst x l.
  pose proof (laid_out_mono _ _ _ Hr) as Hmono.
  destruct (class_wf_span c Hwf) as (Hlen & Hro & _).
  destruct Hwf as (Hmk & Hcap & Hcpb & Hs32).
  destruct Hc as (Hc1 & Hc2).
  assert (Hend : class_end c = off + c_bufferListHeaderSize + cl_cap c * (cl_capPerBuffer c + c_bufferHeaderSize)).
  { pose proof (f_equal cl_regionLen Hmk) as Hrl. unfold mk_class in Hrl. cbn [cl_regionLen] in Hrl.
    unfold class_end. rewrite Hro, Hrl, Hco. ring. }
  cbn [length map_loop map]. rewrite (w32_small off) by (unfold class_end in *; consts; lia).
  rewrite Hco in Hc1, Hc2.
  rewrite (map_fbl_cells m2 off (cl_cap c) (cl_capPerBuffer c) memLen Hoff Hmem Hcap Hcpb ltac:(lia) Hc1 Hc2).
  assert (Hre : restate m2 (mk_class off (cl_cap c) (cl_capPerBuffer c)) = restate m2 c).
  { rewrite <- Hco. rewrite <- Hmk. reflexivity. }
  rewrite Hre. cbn [restate cl_cap cl_capPerBuffer].
  rewrite (list_mem_size_small (cl_cap c) (cl_capPerBuffer c)) by (consts; lia).
  rewrite (w32_small (off + _)) by (consts; lia).
  replace (off + (c_bufferListHeaderSize + cl_cap c * (cl_capPerBuffer c + c_bufferHeaderSize))) with (class_end c) by lia.
  rewrite (IH (class_end c) off' memLen m2 Hr ltac:(consts; lia) Hle Hmem Hrest). reflexivity.
Qed.

(* what a successful mapping read: the class list mirrors the cap / capPerBuffer words *)
Lemma map_loop_inv n : forall memLen used m cs,
  map_loop n memLen used m = Ok cs -> length cs = n /\ Forall (geometry_cells_hold m) cs.
Proof.
  induction n as [|n IH]; intros memLen used m cs H; cbn [map_loop] in H.
  { injection H as <-. split; [reflexivity|constructor]. }
  destruct (map_fbl memLen (w32 used) m) as [c|e|p] eqn:Ef; try discriminate.
  destruct (map_loop n memLen _ m) as [cs'|e|p] eqn:El; try discriminate.
  injection H as <-. destruct (IH _ _ _ _ El) as (Hlen & Hall).
  split; [cbn [length]; congruence|]. constructor; [|exact Hall].
  unfold map_fbl in Ef.
  destruct (memLen <? c_bufferListHeaderSize + w32 used); [discriminate|].
  destruct (existsb _ map_offsets); [discriminate|].
  cbv zeta in Ef.
  destruct (_ || _); [discriminate|]. destruct (_ || _); [discriminate|].
  injection Ef as <-. split; reflexivity.
Qed.

Lemma laid_out_headers_apart cs off off' c c2 : laid_out off cs off' -> In c cs -> In c2 cs ->
  cl_off c = cl_off c2 \/ cl_off c + c_bufferListHeaderSize <= cl_off c2 \/ cl_off c2 + c_bufferListHeaderSize <= cl_off c.
Proof.
  intros Hlay H1 H2.
  destruct (In_nth_error _ _ H1) as (j1 & Hj1). destruct (In_nth_error _ _ H2) as (j2 & Hj2).
  destruct (laid_out_extent _ _ _ c Hlay H1) as (Hwf1 & _ & _).
  destruct (laid_out_extent _ _ _ c2 Hlay H2) as (Hwf2 & _ & _).
  destruct (class_wf_span c Hwf1) as (Hl1 & Hr1 & _). destruct (class_wf_span c2 Hwf2) as (Hl2 & Hr2 & _).
  destruct (lt_eq_lt_dec j1 j2) as [[Hlt|Heq]|Hgt].
  - right; left. pose proof (laid_out_order _ _ _ _ _ _ _ Hlay Hj1 Hj2 Hlt) as H. unfold class_end in H. lia.
  - left. subst j2. congruence.
  - right; right. pose proof (laid_out_order _ _ _ _ _ _ _ Hlay Hj2 Hj1 Hgt) as H. unfold class_end in H. lia.
Qed.

Lemma peer_view_state_independent memLen cs off' m' :
  laid_out c_bufferManagerHeaderSize cs off' -> off' <= memLen -> 0 <= memLen < 4294967296 ->
  map_bm memLen m' = Ok cs ->
  forall m2, (forall a, ~ state_cell cs a -> m2 a = m' a) ->
  map_bm memLen m2 = Ok (map (restate m2) cs).
Proof.
  intros Hlay Hle Hmem Hmap m2 Hm2.
  (* header addresses of the classes are small and behind the manager header *)
  assert (Hhdr : forall c, In c cs -> c_bufferManagerHeaderSize <= cl_off c /\ cl_off c + c_bufferListHeaderSize <= memLen).
  { intros c Hin. destruct (laid_out_extent _ _ _ c Hlay Hin) as (Hwf & Hlo & Hhi).
    destruct (class_wf_span c Hwf) as (Hl & Hr & _). unfold class_end in Hhi. lia. }
  assert (Hns : forall a, (forall c, In c cs -> a < cl_off c \/ cl_off c + c_bufferListHeaderSize <= a \/
                              (a = cl_off c + off_map_list_cap \/ a = cl_off c + off_map_list_capPerBuffer)) ->
                          ~ state_cell cs a).
  { intros a Ha (c & Hin & Hc). specialize (Ha c Hin). destruct (Hhdr c Hin) as (H8 & Hm).
    rewrite !w32_small in Hc by (consts; lia). consts. lia. }
  unfold map_bm in *.
  destruct ((memLen <=? c_bmCapOffset) || (memLen <=? 0)) eqn:E0; [discriminate|].
  rewrite (Hm2 0) by (apply Hns; intros c Hin; destruct (Hhdr c Hin); consts; lia).
  rewrite (Hm2 c_bmCapOffset) by (apply Hns; intros c Hin; destruct (Hhdr c Hin); consts; lia).
  destruct ((memLen <? c_bufferManagerHeaderSize + m' c_bmCapOffset) || (w16 (m' 0) =? 0)) eqn:E1; [discriminate|].
  destruct (map_loop_inv _ _ _ _ _ Hmap) as (Hlen & Hcells).
  rewrite <- Hlen.
  apply (map_loop_layout cs _ off'); try assumption; [consts; lia|].
  apply Forall_forall. intros c Hin. rewrite Forall_forall in Hcells. destruct (Hcells c Hin) as (H1 & H2).
  destruct (Hhdr c Hin) as (H8 & Hm).
  unfold geometry_cells_hold.
  rewrite !w32_small in * by (consts; lia).
  rewrite !Hm2; [split; assumption| |].
  - apply Hns. intros c2 Hin2. destruct (laid_out_headers_apart _ _ _ c c2 Hlay Hin Hin2) as [He|[Hl|Hg]]; consts; lia.
  - apply Hns. intros c2 Hin2. destruct (laid_out_headers_apart _ _ _ c c2 Hlay Hin Hin2) as [He|[Hl|Hg]]; consts; lia.
Qed.

Lemma restate_geometry m c :
  cl_off (restate m c) = cl_off c /\ cl_regionOff (restate m c) = cl_regionOff c /\
  cl_regionLen (restate m c) = cl_regionLen c /\ cl_cap (restate m c) = cl_cap c /\
  cl_capPerBuffer (restate m c) = cl_capPerBuffer c.
Proof. repeat split. Qed.

Lemma peer_view_independent_config pairs memLen m0 cs m' :
  config_ok memLen pairs -> create_bm pairs memLen m0 = Ok (cs, m') ->
  forall m2, (forall a, ~ state_cell cs a -> m2 a = m' a) ->
  map_bm memLen m2 = Ok (map (restate m2) cs).
Proof.
  intros Hok Hc. pose proof (create_bm_spec_config pairs memLen m0 Hok) as Hs. rewrite Hc in Hs.
  destruct Hs as ((off' & Hlay & Hle) & _ & Hmap). destruct Hok as (Hmem & _).
  exact (peer_view_state_independent memLen cs off' m' Hlay Hle Hmem Hmap).
Qed.

Lemma peer_view_independent_partial pairs memLen m0 cs m' :
  0 <= memLen -> pairs_ok memLen pairs -> memLen + c_bufferListHeaderSize < 4294967296 ->
  Z.of_nat (length pairs) < 65536 ->
  create_bm pairs memLen m0 = Ok (cs, m') ->
  forall m2, (forall a, ~ state_cell cs a -> m2 a = m' a) ->
  map_bm memLen m2 = Ok (map (restate m2) cs).
Proof.
  intros Hmem Hok Hguard Hn Hc. pose proof (create_bm_spec pairs memLen m0 Hmem Hok Hguard) as Hs. rewrite Hc in Hs.
  destruct Hs as ((off' & Hlay & Hle) & _ & Hmap).
  apply (peer_view_state_independent memLen cs off' m' Hlay Hle ltac:(consts; lia) (Hmap Hn)).
Qed.

Lemma peer_view_independent_config_geom pairs memLen m0 cs m' :
  config_ok memLen pairs -> create_bm pairs memLen m0 = Ok (cs, m') ->
  forall m2, (forall a, ~ state_cell cs a -> m2 a = m' a) ->
  map_bm memLen m2 = Ok (map (restate m2) cs) /\
  Forall (fun c => cl_off (restate m2 c) = cl_off c /\ cl_regionOff (restate m2 c) = cl_regionOff c /\
                   cl_regionLen (restate m2 c) = cl_regionLen c /\ cl_cap (restate m2 c) = cl_cap c /\
                   cl_capPerBuffer (restate m2 c) = cl_capPerBuffer c) cs.
Proof.
  intros Hok Hc m2 Hm2. split; [exact (peer_view_independent_config pairs memLen m0 cs m' Hok Hc m2 Hm2)|].
  apply Forall_forall. intros c _. apply restate_geometry.
Qed.
