(* Proofs about Model/LinkedBuffer.v.
   Part A: every reader operation of a well-formed receive buffer refines the byte list [content].
   Part B: recycling never changes a data byte; appending a fallback slice appends its bytes.
   Part C: the pipe restricted to the covered op set refines the byte-queue specification.
   Part D: leases (C08). *)
From Coq Require Import List ZArith Lia Bool Arith Permutation.
From Shm Require Import Gen.Consts Model.LinkedBuffer.
Import ListNotations.
Close Scope Z_scope.
Open Scope nat_scope.

(* ---------------------------------------------------------------------------------------- *)
(* list facts                                                                                *)
(* ---------------------------------------------------------------------------------------- *)
Lemma firstn_app_le {A} (a b : list A) n : n <= length a -> firstn n (a ++ b) = firstn n a.
Proof. intros. rewrite firstn_app. replace (n - length a) with 0 by lia. simpl. apply app_nil_r. Qed.
Lemma skipn_app_le {A} (a b : list A) n : n <= length a -> skipn n (a ++ b) = skipn n a ++ b.
Proof. intros. rewrite skipn_app. replace (n - length a) with 0 by lia. reflexivity. Qed.
Lemma firstn_app_ge {A} (a b : list A) n : length a <= n -> firstn n (a ++ b) = a ++ firstn (n - length a) b.
Proof. intros. rewrite firstn_app. rewrite firstn_all2 by lia. reflexivity. Qed.
Lemma skipn_app_ge {A} (a b : list A) n : length a <= n -> skipn n (a ++ b) = skipn (n - length a) b.
Proof. intros. rewrite skipn_app. rewrite skipn_all2 by lia. reflexivity. Qed.
Lemma skipn_skipn' {A} (l : list A) a b : skipn a (skipn b l) = skipn (b + a) l.
Proof.
  revert l; induction b as [|b IH]; intros l; [reflexivity|].
  destruct l as [|x l]; [now rewrite !skipn_nil|]. cbn [skipn plus]. apply IH.
Qed.
Lemma firstn_firstn_le {A} (l : list A) a b : a <= b -> firstn a (firstn b l) = firstn a l.
Proof. intros. rewrite firstn_firstn. f_equal. lia. Qed.
Lemma skipn_firstn' {A} (l : list A) k n : k <= n -> skipn k (firstn n l) = firstn (n - k) (skipn k l).
Proof. intros. rewrite firstn_skipn_comm. f_equal. f_equal. lia. Qed.

(* ---------------------------------------------------------------------------------------- *)
(* Part A — slices and reader ops over a fixed store                                         *)
(* ---------------------------------------------------------------------------------------- *)
Section ReaderProofs.
Variable m : shm.

Definition slice_ok (s : slice) : Prop := rd s <= wr s /\ wr s <= length (sdata m s).
Definition content (l : lbuf) : list byte := concat (map (body m) (slices l)).
Definition tailpos (ss : list slice) : Prop := Forall (fun s => 0 < ssize s) ss.
Record WF (l : lbuf) : Prop := {
  wf_len : len l = Z.of_nat (length (content l));
  wf_tail : tailpos (tl (slices l));         (* only the front slice may be exhausted *)
  wf_ok : Forall slice_ok (slices l) }.

Lemma body_length s : slice_ok s -> length (body m s) = ssize s.
Proof. intros [H1 H2]. unfold body, ssize. rewrite firstn_length, skipn_length. lia. Qed.

Lemma sdata_adv k s : sdata m (adv k s) = sdata m s.
Proof. reflexivity. Qed.

Lemma body_adv k s : k <= ssize s -> body m (adv k s) = skipn k (body m s).
Proof.
  intros Hk. unfold body. rewrite sdata_adv. unfold ssize in *. cbn [adv rd wr].
  rewrite skipn_firstn' by lia. rewrite skipn_skipn'. f_equal. lia.
Qed.

Lemma ok_adv k s : slice_ok s -> k <= ssize s -> slice_ok (adv k s).
Proof. intros [H1 H2] Hk. unfold slice_ok, ssize in *. rewrite sdata_adv. cbn [adv rd wr]. lia. Qed.

Lemma ssize_adv k s : ssize (adv k s) = ssize s - k.
Proof. unfold ssize. cbn [adv rd wr]. lia. Qed.

Lemma sl_take_ok k s : slice_ok s ->
  sl_take m k s = Ok (firstn (Nat.min k (ssize s)) (body m s), Nat.min k (ssize s)).
Proof.
  intros [H1 H2]. unfold sl_take. unfold ssize in *.
  destruct (Nat.leb_spec (rd s + Nat.min k (wr s - rd s)) (length (sdata m s))) as [_|Hc]; [|lia].
  unfold body, ssize. rewrite firstn_firstn_le by lia. reflexivity.
Qed.

(* characterising lemmas for the record updates *)
Lemma content_cons l s r : slices l = s :: r -> content l = body m s ++ concat (map (body m) r).
Proof. intros E. unfold content. rewrite E. reflexivity. Qed.
Lemma content_nil l : slices l = [] -> content l = [].
Proof. intros E. unfold content. rewrite E. reflexivity. Qed.

Lemma slices_set_front l s : slices (set_front l s) = s :: tl (slices l).
Proof. reflexivity. Qed.

(* the facts about a state that the loops thread along *)
Definition shape (l : lbuf) : Prop := tailpos (tl (slices l)) /\ Forall slice_ok (slices l).

Lemma shape_of_WF l : WF l -> shape l.
Proof. intros [_ H1 H2]. split; assumption. Qed.

Lemma tailpos_tl ss : tailpos ss -> tailpos (tl ss).
Proof. destruct ss; simpl; auto. intros H; inversion H; auto. Qed.

(* read_next on a non-empty list: content loses the front body *)
Lemma read_next_spec l s r : slices l = s :: r ->
  exists l', read_next l = Ok l' /\ slices l' = r /\ len l' = len l /\ leases l' = leases l.
Proof.
  intros E. unfold read_next. rewrite E. eexists. split; [reflexivity|].
  destruct (shmf s); [destruct (curp l)|]; repeat split; reflexivity.
Qed.

(* generic consumption step: advance the front slice by k <= its size *)
Lemma content_adv_front l s r k : slices l = s :: r -> k <= ssize s ->
  content (set_front l (adv k s)) = skipn k (body m s) ++ concat (map (body m) r).
Proof.
  intros E Hk. unfold content. rewrite slices_set_front, E. cbn [tl map concat]. rewrite body_adv by assumption. reflexivity.
Qed.

(* --- ReadBytes slow loop ------------------------------------------------------------------ *)
Lemma rb_slow_spec : forall fuel n acc l,
  n <= length (content l) -> length (slices l) < fuel -> shape l ->
  exists l', rb_slow m fuel n acc l = Ok (acc ++ firstn n (content l), l')
          /\ content l' = skipn n (content l) /\ len l' = len l /\ shape l' /\ leases l' = leases l.
Proof.
  induction fuel as [|fuel IH]; intros n acc l Hn Hf [Ht Hok]; [lia|].
  destruct n as [|n'].
  { cbn [rb_slow]. exists l. rewrite app_nil_r. repeat split; auto. }
  cbn [rb_slow]. set (n := S n') in *.
  destruct (slices l) as [|s r] eqn:Es.
  { rewrite (content_nil l Es) in Hn. simpl in Hn. lia. }
  pose proof (content_cons l s r Es) as Hc. rewrite Hc in *. rewrite app_length in Hn.
  inversion Hok as [|? ? Hs Hr]; subst. simpl in Ht, Hf.
  rewrite (sl_take_ok n s Hs). cbn [bind]. pose proof (body_length s Hs) as Hbl.
  destruct (Nat.eqb_spec (Nat.min n (ssize s)) n) as [Ek|Ek].
  - assert (Hle : n <= ssize s) by lia. rewrite Ek.
    rewrite firstn_app_le, skipn_app_le by lia.
    eexists. split; [reflexivity|]. rewrite (content_adv_front l s r n Es Hle).
    repeat split; auto.
    + rewrite slices_set_front, Es. exact Ht.
    + rewrite slices_set_front, Es. cbn [tl]. constructor; [apply ok_adv; assumption|assumption].
  - assert (Hlt : ssize s < n) by lia.
    replace (Nat.min n (ssize s)) with (ssize s) by lia.
    set (l1 := set_front l (adv (ssize s) s)).
    assert (E1 : slices l1 = adv (ssize s) s :: r) by (unfold l1; rewrite slices_set_front, Es; reflexivity).
    destruct (read_next_spec l1 _ _ E1) as [l2 [Hrn [E2 [Hl2 Hle2]]]]. rewrite Hrn. cbn [bind].
    destruct (IH (n - ssize s) (acc ++ firstn (ssize s) (body m s)) l2) as [l' [Hres [Hc' [Hl' [Hs' Hle']]]]].
    + unfold content. rewrite E2. lia.
    + rewrite E2. lia.
    + split; rewrite E2; [apply tailpos_tl; exact Ht | exact Hr].
    + exists l'. rewrite Hres. split.
      * rewrite firstn_all2 by lia. rewrite firstn_app_ge by lia. rewrite Hbl.
        unfold content at 1. rewrite E2. rewrite app_assoc. reflexivity.
      * rewrite Hc', Hl', Hl2, Hle', Hle2. unfold content at 1. rewrite E2.
        rewrite skipn_app_ge by lia. rewrite Hbl. repeat split; auto; apply Hs'.
Qed.

(* an exhausted front slice followed by more data: the optional readNextSlice *)
Lemma skip_empty_front l s0 r0 : slices l = s0 :: r0 -> shape l -> 0 < length (content l) ->
  exists l1 s r, (if ssize s0 =? 0 then read_next l else Ok l) = Ok l1
     /\ slices l1 = s :: r /\ content l1 = content l /\ len l1 = len l /\ shape l1 /\ 0 < ssize s
     /\ leases l1 = leases l
     /\ (ssize s0 <> 0 -> l1 = l).
Proof.
  intros Es Hsh Hpos. pose proof Hsh as [Ht Hok]. pose proof (content_cons l s0 r0 Es) as Hc.
  rewrite Es in Ht, Hok.
  inversion Hok as [|? ? Hs Hr]; subst. pose proof (body_length s0 Hs) as Hbl. simpl in Ht.
  destruct (Nat.eqb_spec (ssize s0) 0) as [Ez|Ez].
  - destruct (read_next_spec l s0 r0 Es) as [l1 [Hrn [E1 [Hl1 Hle1]]]].
    destruct r0 as [|s r].
    { rewrite Hc, app_length, Hbl, Ez in Hpos. simpl in Hpos. lia. }
    exists l1, s, r. rewrite Hrn. repeat split; auto.
    + unfold content at 1. rewrite E1, Hc.
      assert (body m s0 = []) as -> by (apply length_zero_iff_nil; lia). reflexivity.
    + rewrite E1. simpl. inversion Ht; assumption.
    + rewrite E1. exact Hr.
    + inversion Ht; assumption.
    + intros; lia.
  - exists l, s0, r0. repeat split; auto; try apply Hsh. lia.
Qed.

Theorem read_bytes_refines n l : WF l -> 0 < n -> (Z.of_nat n <= len l)%Z ->
  exists l', read_bytes m n l = Ok (firstn n (content l), l')
          /\ content l' = skipn n (content l) /\ WF l'.
Proof.
  intros Hwf Hpos Hle. pose proof (shape_of_WF l Hwf) as Hsh. destruct Hwf as [Hlen _ _].
  unfold read_bytes. destruct (Nat.eqb_spec n 0) as [|_]; [lia|].
  destruct (slices l) as [|s0 r0] eqn:Es.
  { rewrite (content_nil l Es) in Hlen. simpl in Hlen. lia. }
  destruct (skip_empty_front l s0 r0 Es Hsh) as [l1 [s [r [H1 [Es1 [Hc1 [Hl1 [[Ht1 Hok1] [Hsp [Hle1 _]]]]]]]]]]; [lia|].
  rewrite H1. cbn [bind]. rewrite Es1.
  pose proof (content_cons l1 s r Es1) as Hcs. rewrite Hc1 in Hcs.
  rewrite Es1 in Ht1, Hok1.
  inversion Hok1 as [|? ? Hs Hr]; subst. pose proof (body_length s Hs) as Hbl. simpl in Ht1.
  destruct (Nat.leb_spec n (ssize s)) as [Ef|Ef].
  - rewrite (sl_take_ok n s Hs). cbn [bind]. replace (Nat.min n (ssize s)) with n by lia.
    eexists. split; [rewrite Hcs, firstn_app_le by lia; reflexivity|].
    assert (Hc' : content (set_leases (set_front (set_len (set_curp l1 true) (len l1 - Z.of_nat n)%Z) (adv n s)) (leases l1 ++ [mk_lease s n (firstn n (body m s))]))
                  = skipn n (content l)).
    { transitivity (content (set_front l1 (adv n s))); [reflexivity|].
      rewrite (content_adv_front l1 s r n Es1 Ef), Hcs, skipn_app_le by lia. reflexivity. }
    split; [exact Hc'|]. constructor.
    + rewrite Hc'. cbn [len set_leases set_front set_slices set_len]. rewrite skipn_length. lia.
    + cbn [slices set_leases set_front set_slices set_len set_curp]. rewrite Es1. exact Ht1.
    + cbn [slices set_leases set_front set_slices set_len set_curp]. rewrite Es1. cbn [tl].
      constructor; [apply ok_adv; [assumption|lia]|assumption].
  - destruct (rb_slow_spec (S (length (slices l1))) n [] (set_len l1 (len l1 - Z.of_nat n)%Z)) as [l' [Hr' [Hc' [Hl' [[Ht' Hok'] _]]]]].
    + change (content (set_len l1 (len l1 - Z.of_nat n)%Z)) with (content l1). rewrite Hc1. lia.
    + cbn [slices set_len]. lia.
    + split; cbn [slices set_len]; rewrite Es1; [exact Ht1 | exact Hok1].
    + change (content (set_len l1 (len l1 - Z.of_nat n)%Z)) with (content l1) in Hr', Hc'.
      rewrite Hc1 in Hr', Hc'. cbn [app] in Hr'.
      exists l'. split; [exact Hr'|]. split; [exact Hc'|]. constructor; auto.
      rewrite Hl', Hc', skipn_length. cbn [len set_len]. lia.
Qed.

(* --- ReadString ----------------------------------------------------------------------------- *)
Lemma rs_slow_spec : forall fuel n acc l,
  n <= length (content l) -> 2 * length (slices l) + n < fuel -> shape l ->
  exists l', rs_slow m fuel n acc l = Ok (acc ++ firstn n (content l), l')
          /\ content l' = skipn n (content l) /\ len l' = len l /\ shape l' /\ leases l' = leases l.
Proof.
  induction fuel as [|fuel IH]; intros n acc l Hn Hf Hsh; [lia|].
  destruct n as [|n'].
  { cbn [rs_slow]. exists l. rewrite app_nil_r. repeat split; auto; apply Hsh. }
  cbn [rs_slow]. set (n := S n') in *.
  destruct (slices l) as [|s0 r0] eqn:Es.
  { rewrite (content_nil l Es) in Hn. simpl in Hn. lia. }
  destruct (skip_empty_front l s0 r0 Es Hsh) as [l1 [s [r [H1 [Es1 [Hc1 [Hl1 [[Ht1 Hok1] [Hsp [Hle1 Hsame]]]]]]]]]]; [lia|].
  rewrite H1. cbn [bind]. rewrite Es1.
  pose proof (content_cons l1 s r Es1) as Hcs. rewrite Hc1 in Hcs.
  rewrite Es1 in Ht1, Hok1.
  inversion Hok1 as [|? ? Hs Hr]; subst. pose proof (body_length s Hs) as Hbl. simpl in Ht1.
  rewrite (sl_take_ok n s Hs). cbn [bind].
  set (k := Nat.min n (ssize s)). assert (Hk : k <= ssize s) by lia. assert (Hkpos : 0 < k) by lia.
  assert (Hlen1 : length (slices l1) <= length (slices l)).
  { rewrite Es, Es1. destruct (Nat.eq_dec (ssize s0) 0) as [Ez|Ez].
    - unfold read_next in H1. rewrite Es in H1. rewrite Ez in H1. cbn [Nat.eqb] in H1.
      assert (slices l1 = r0).
      { injection H1 as <-. destruct (shmf s0); [destruct (curp l)|]; reflexivity. }
      rewrite Es1 in H. rewrite <- H. simpl. lia.
    - rewrite (Hsame Ez) in Es1. rewrite Es in Es1. injection Es1 as <- <-. lia. }
  destruct (IH (n - k) (acc ++ firstn k (body m s)) (set_front l1 (adv k s))) as [l' [Hr' [Hc' [Hl' [Hs' Hle']]]]].
  - rewrite (content_adv_front l1 s r k Es1 Hk). rewrite app_length, skipn_length.
    rewrite Hcs, app_length in Hn. lia.
  - rewrite slices_set_front, Es1. cbn [tl length]. rewrite Es1 in Hlen1. simpl in Hlen1. lia.
  - split; rewrite slices_set_front, Es1; cbn [tl]; [exact Ht1|].
    constructor; [apply ok_adv; assumption|assumption].
  - exists l'. rewrite Hr'. rewrite (content_adv_front l1 s r k Es1 Hk) in Hr', Hc' |- *.
    rewrite Hcs. split; [|split; [|split; [|split]]].
    + f_equal. rewrite <- app_assoc. f_equal.
      destruct (Nat.le_gt_cases n (ssize s)) as [Hle|Hgt].
      * replace k with n by lia. replace (n - n) with 0 by lia. rewrite firstn_app_le by lia. cbn [firstn]. now rewrite app_nil_r.
      * replace k with (ssize s) by lia. rewrite skipn_all2 by lia. cbn [app].
        rewrite firstn_all2 by lia. rewrite firstn_app_ge by lia. rewrite Hbl. reflexivity.
    + rewrite Hc'. destruct (Nat.le_gt_cases n (ssize s)) as [Hle|Hgt].
      * replace k with n by lia. replace (n - n) with 0 by lia. rewrite skipn_app_le by lia. reflexivity.
      * replace k with (ssize s) by lia. rewrite (skipn_all2 (body m s)) by lia. cbn [app].
        rewrite skipn_app_ge by lia. rewrite Hbl. reflexivity.
    + rewrite Hl'. cbn [len set_front set_slices]. exact Hl1.
    + exact Hs'.
    + rewrite Hle'. cbn [leases set_front set_slices]. exact Hle1.
Qed.

Theorem read_string_refines n l : WF l -> 0 < n -> (Z.of_nat n <= len l)%Z ->
  exists l', read_string m n l = Ok (firstn n (content l), l')
          /\ content l' = skipn n (content l) /\ WF l' /\ leases l' = leases l.
Proof.
  intros Hwf Hpos Hle. pose proof (shape_of_WF l Hwf) as Hsh. destruct Hwf as [Hlen Ht Hok].
  unfold read_string. destruct (Nat.eqb_spec n 0) as [|_]; [lia|].
  destruct (slices l) as [|s r] eqn:Es.
  { rewrite (content_nil l Es) in Hlen. simpl in Hlen. lia. }
  pose proof (content_cons l s r Es) as Hcs.
  inversion Hok as [|? ? Hs Hr]; subst. pose proof (body_length s Hs) as Hbl. simpl in Ht.
  destruct (Nat.leb_spec n (ssize s)) as [Ef|Ef].
  - rewrite (sl_take_ok n s Hs). cbn [bind]. replace (Nat.min n (ssize s)) with n by lia.
    eexists. split; [rewrite Hcs, firstn_app_le by lia; reflexivity|].
    assert (Hc' : content (set_len (set_front l (adv n s)) (len l - Z.of_nat n)%Z) = skipn n (content l)).
    { change (content (set_len (set_front l (adv n s)) (len l - Z.of_nat n)%Z)) with (content (set_front l (adv n s))).
      rewrite (content_adv_front l s r n Es Ef), Hcs, skipn_app_le by lia. reflexivity. }
    split; [exact Hc'|]. split; [|reflexivity]. constructor.
    + rewrite Hc'. cbn [len set_len]. rewrite skipn_length. lia.
    + cbn [slices set_len set_front set_slices]. rewrite Es. exact Ht.
    + cbn [slices set_len set_front set_slices]. rewrite Es. cbn [tl].
      constructor; [apply ok_adv; [assumption|lia]|assumption].
  - destruct (rs_slow_spec (2 * S (length (slices l)) + n) n [] l) as [l' [Hr' [Hc' [Hl' [[Ht' Hok'] Hle']]]]].
    + lia.
    + rewrite Es. simpl. lia.
    + rewrite Es. exact Hsh.
    + rewrite Es in Hr'. rewrite Hr'. cbn [bind app]. eexists. split; [reflexivity|].
      change (content (set_len l' (len l' - Z.of_nat n)%Z)) with (content l').
      split; [exact Hc'|]. split; [|exact Hle']. constructor; auto.
      change (content (set_len l' (len l' - Z.of_nat n)%Z)) with (content l').
      rewrite Hc', skipn_length. cbn [len set_len]. lia.
Qed.

(* --- Peek ----------------------------------------------------------------------------------- *)
Lemma peek_rest_spec : forall ss n acc,
  Forall slice_ok ss -> n <= length (concat (map (body m) ss)) ->
  peek_rest m n acc ss = Ok (acc ++ firstn n (concat (map (body m) ss))).
Proof.
  induction ss as [|s r IH]; intros n acc Hok Hn.
  - simpl in Hn. assert (n = 0) by lia. subst. cbn. now rewrite app_nil_r.
  - destruct n as [|n']; [cbn; now rewrite app_nil_r|]. set (n := S n') in *.
    inversion Hok as [|? ? Hs Hr]; subst. pose proof (body_length s Hs) as Hbl.
    cbn [peek_rest]. fold n. rewrite (sl_take_ok n s Hs). cbn [bind].
    cbn [map concat] in *. rewrite app_length in Hn.
    rewrite IH; [|assumption|lia]. f_equal. rewrite <- app_assoc. f_equal.
    destruct (Nat.le_gt_cases n (ssize s)) as [Hle|Hgt].
    + replace (Nat.min n (ssize s)) with n by lia. replace (n - n) with 0 by lia.
      rewrite firstn_app_le by lia. cbn [firstn]. now rewrite app_nil_r.
    + replace (Nat.min n (ssize s)) with (ssize s) by lia.
      rewrite firstn_all2 by lia. rewrite firstn_app_ge by lia. rewrite Hbl. reflexivity.
Qed.

Theorem peek_refines n l : WF l -> 0 < n -> (Z.of_nat n <= len l)%Z ->
  exists l', peek m n l = Ok (firstn n (content l), l')
          /\ slices l' = slices l /\ len l' = len l /\ pinned l' = pinned l /\ recycled l' = recycled l
          /\ wpos l' = wpos l.
Proof.
  intros [Hlen Ht Hok] Hpos Hle. unfold peek. destruct (Nat.eqb_spec n 0) as [|_]; [lia|].
  destruct (slices l) as [|s r] eqn:Es.
  { rewrite (content_nil l Es) in Hlen. simpl in Hlen. lia. }
  pose proof (content_cons l s r Es) as Hcs. rewrite Hcs in *. rewrite app_length in Hlen.
  inversion Hok as [|? ? Hs Hr]; subst. pose proof (body_length s Hs) as Hbl.
  rewrite (sl_take_ok n s Hs). cbn [bind].
  destruct (Nat.eqb_spec (Nat.min n (ssize s)) n) as [Ek|Ek].
  - rewrite Ek. eexists. split; [rewrite firstn_app_le by lia; reflexivity|]. repeat split; auto.
  - replace (Nat.min n (ssize s)) with (ssize s) by lia.
    rewrite peek_rest_spec; [|assumption|lia]. cbn [bind]. exists l. split; [|repeat split; auto].
    rewrite firstn_all2 by lia. rewrite firstn_app_ge by lia. rewrite Hbl. reflexivity.
Qed.

(* --- Discard -------------------------------------------------------------------------------- *)
Lemma discard_loop_spec : forall fuel n d l,
  n <= length (content l) -> length (slices l) < fuel -> shape l -> slices l <> [] ->
  exists l', discard_loop fuel n d l = Ok (d + n, l')
          /\ content l' = skipn n (content l) /\ len l' = len l /\ shape l' /\ leases l' = leases l.
Proof.
  induction fuel as [|fuel IH]; intros n d l Hn Hf [Ht Hok] Hne; [lia|].
  cbn [discard_loop]. destruct (slices l) as [|s r] eqn:Es; [congruence|].
  pose proof (content_cons l s r Es) as Hc. rewrite Hc in *. rewrite app_length in Hn.
  inversion Hok as [|? ? Hs Hr]; subst. simpl in Ht, Hf. pose proof (body_length s Hs) as Hbl.
  destruct (Nat.eqb_spec (n - Nat.min n (ssize s)) 0) as [Ek|Ek].
  - assert (Hle : n <= ssize s) by lia. replace (Nat.min n (ssize s)) with n by lia.
    eexists. split; [reflexivity|]. rewrite (content_adv_front l s r n Es Hle).
    rewrite skipn_app_le by lia. repeat split; auto.
    + rewrite slices_set_front, Es. exact Ht.
    + rewrite slices_set_front, Es. cbn [tl]. constructor; [apply ok_adv; assumption|assumption].
  - assert (Hlt : ssize s < n) by lia. replace (Nat.min n (ssize s)) with (ssize s) by lia.
    set (l1 := set_front l (adv (ssize s) s)).
    assert (E1 : slices l1 = adv (ssize s) s :: r) by (unfold l1; rewrite slices_set_front, Es; reflexivity).
    destruct (read_next_spec l1 _ _ E1) as [l2 [Hrn [E2 [Hl2 Hle2]]]]. rewrite Hrn. cbn [bind].
    assert (Hrne : r <> []).
    { intros ->. simpl in Hn. lia. }
    destruct (IH (n - ssize s) (d + ssize s) l2) as [l' [Hr' [Hc' [Hl' [Hs' Hle']]]]].
    + unfold content. rewrite E2. lia.
    + rewrite E2. lia.
    + split; rewrite E2; [apply tailpos_tl; exact Ht | exact Hr].
    + rewrite E2. exact Hrne.
    + exists l'. rewrite Hr'. split; [f_equal; f_equal; lia|].
      rewrite Hc', Hl', Hl2, Hle', Hle2. unfold content at 1. rewrite E2.
      rewrite skipn_app_ge by lia. rewrite Hbl. repeat split; auto; apply Hs'.
Qed.

Theorem discard_refines n l : WF l -> (Z.of_nat n <= len l)%Z -> slices l <> [] ->
  exists l', discard n l = Ok (n, l') /\ content l' = skipn n (content l) /\ WF l' /\ leases l' = leases l.
Proof.
  intros Hwf Hle Hne. pose proof (shape_of_WF l Hwf) as Hsh. destruct Hwf as [Hlen _ _].
  unfold discard.
  destruct (discard_loop_spec (S (length (slices l))) n 0 l) as [l' [Hr' [Hc' [Hl' [[Ht' Hok'] Hle']]]]]; auto; [lia|].
  rewrite Hr'. cbn [bind plus]. eexists. split; [reflexivity|].
  change (content (set_len l' (len l' - Z.of_nat n)%Z)) with (content l').
  split; [exact Hc'|]. split; [|exact Hle']. constructor; auto.
  change (content (set_len l' (len l' - Z.of_nat n)%Z)) with (content l').
  rewrite Hc', skipn_length. cbn [len set_len]. lia.
Qed.

(* --- ReadByte ------------------------------------------------------------------------------- *)
Theorem read_byte_refines l : WF l -> (0 < len l)%Z ->
  exists b l', read_byte m l = Ok (b, l') /\ content l = b :: content l' /\ WF l' /\ leases l' = leases l.
Proof.
  intros Hwf Hpos. pose proof (shape_of_WF l Hwf) as Hsh. destruct Hwf as [Hlen Ht Hok].
  unfold read_byte. destruct (slices l) as [|s r] eqn:Es.
  { rewrite (content_nil l Es) in Hlen. simpl in Hlen. lia. }
  pose proof (content_cons l s r Es) as Hcs.
  inversion Hok as [|? ? Hs Hr]; subst. pose proof (body_length s Hs) as Hbl. simpl in Ht.
  rewrite (sl_take_ok 1 s Hs). cbn [bind].
  destruct (Nat.eqb_spec (Nat.min 1 (ssize s)) 1) as [Ek|Ek].
  - rewrite Ek. destruct (body m s) as [|b bs] eqn:Eb; [simpl in Hbl; lia|]. cbn [firstn].
    exists b. eexists. split; [reflexivity|].
    assert (Hc' : content (set_len (set_front l (adv 1 s)) (len l - 1)%Z) = bs ++ concat (map (body m) r)).
    { change (content (set_len (set_front l (adv 1 s)) (len l - 1)%Z)) with (content (set_front l (adv 1 s))).
      rewrite (content_adv_front l s r 1 Es) by lia. rewrite Eb. reflexivity. }
    split; [rewrite Hc', Hcs; reflexivity|]. split; [|reflexivity]. constructor.
    + rewrite Hc'. cbn [len set_len]. rewrite Hlen, Hcs. cbn [app length]. lia.
    + cbn [slices set_len set_front set_slices]. rewrite Es. exact Ht.
    + cbn [slices set_len set_front set_slices]. rewrite Es. cbn [tl].
      constructor; [apply ok_adv; [assumption|lia]|assumption].
  - assert (Ez : ssize s = 0) by lia. replace (Nat.min 1 (ssize s)) with 0 by lia.
    set (l0 := set_front l (adv 0 s)).
    assert (E0 : slices l0 = adv 0 s :: r) by (unfold l0; rewrite slices_set_front, Es; reflexivity).
    destruct (read_next_spec l0 _ _ E0) as [l1 [Hrn [E1 [Hl1 Hle1]]]]. rewrite Hrn. cbn [bind].
    assert (Hb0 : body m s = []) by (apply length_zero_iff_nil; lia).
    rewrite Hcs, Hb0 in Hlen. cbn [app] in Hlen.
    destruct r as [|s1 r1]; [simpl in Hlen; lia|]. rewrite E1.
    inversion Hr as [|? ? Hs1 Hr1]; subst. inversion Ht as [|? ? Hp1 Ht1]; subst.
    pose proof (body_length s1 Hs1) as Hbl1.
    rewrite (sl_take_ok 1 s1 Hs1). cbn [bind]. replace (Nat.min 1 (ssize s1)) with 1 by lia.
    destruct (body m s1) as [|b bs] eqn:Eb; [simpl in Hbl1; lia|]. cbn [firstn].
    exists b. eexists. split; [reflexivity|].
    assert (Hc' : content (set_len (set_front l1 (adv 1 s1)) (len l1 - 1)%Z) = bs ++ concat (map (body m) r1)).
    { change (content (set_len (set_front l1 (adv 1 s1)) (len l1 - 1)%Z)) with (content (set_front l1 (adv 1 s1))).
      rewrite (content_adv_front l1 s1 r1 1 E1) by lia. rewrite Eb. reflexivity. }
    split; [rewrite Hc', Hcs, Hb0; cbn [map concat app]; rewrite Eb; reflexivity|].
    split; [|cbn [leases set_len set_front set_slices]; rewrite Hle1; reflexivity]. constructor.
    + rewrite Hc'. cbn [len set_len]. rewrite Hl1. change (len l0) with (len l). rewrite Hlen.
      cbn [map concat]. rewrite Eb. cbn [app length]. lia.
    + cbn [slices set_len set_front set_slices]. rewrite E1. exact Ht1.
    + cbn [slices set_len set_front set_slices]. rewrite E1. cbn [tl].
      constructor; [apply ok_adv; [assumption|lia]|assumption].
Qed.

(* --- Read (copy) ---------------------------------------------------------------------------- *)
Lemma read_loop_spec : forall fuel n acc l,
  length (slices l) < fuel -> shape l -> 0 < n ->
  let k := Nat.min n (length (content l)) in
  exists l', read_loop m fuel n acc l = Ok (acc ++ firstn k (content l), l')
          /\ content l' = skipn k (content l) /\ len l' = len l /\ shape l' /\ leases l' = leases l.
Proof.
  induction fuel as [|fuel IH]; intros n acc l Hf [Ht Hok] Hpos k; [lia|].
  cbn [read_loop]. destruct (slices l) as [|s r] eqn:Es.
  { exists l. subst k. rewrite (content_nil l Es). cbn. rewrite firstn_nil, skipn_nil, app_nil_r.
    repeat split; auto; rewrite Es; auto. }
  destruct (Nat.eqb_spec n 0) as [|_]; [lia|].
  pose proof (content_cons l s r Es) as Hc. subst k. rewrite Hc in *. rewrite app_length.
  inversion Hok as [|? ? Hs Hr]; subst. simpl in Ht, Hf. pose proof (body_length s Hs) as Hbl.
  rewrite (sl_take_ok n s Hs). cbn [bind].
  destruct (Nat.eqb_spec (Nat.min n (ssize s)) n) as [Ek|Ek].
  - assert (Hle : n <= ssize s) by lia. rewrite Ek.
    replace (Nat.min n (length (body m s) + length (concat (map (body m) r)))) with n by lia.
    rewrite firstn_app_le, skipn_app_le by lia.
    eexists. split; [reflexivity|]. rewrite (content_adv_front l s r n Es Hle).
    repeat split; auto.
    + rewrite slices_set_front, Es. exact Ht.
    + rewrite slices_set_front, Es. cbn [tl]. constructor; [apply ok_adv; assumption|assumption].
  - assert (Hlt : ssize s < n) by lia. replace (Nat.min n (ssize s)) with (ssize s) by lia.
    set (l1 := set_front l (adv (ssize s) s)).
    assert (E1 : slices l1 = adv (ssize s) s :: r) by (unfold l1; rewrite slices_set_front, Es; reflexivity).
    destruct (read_next_spec l1 _ _ E1) as [l2 [Hrn [E2 [Hl2 Hle2]]]]. rewrite Hrn. cbn [bind].
    destruct (IH (n - ssize s) (acc ++ firstn (ssize s) (body m s)) l2) as [l' [Hr' [Hc' [Hl' [Hs' Hle']]]]].
    + rewrite E2. lia.
    + split; rewrite E2; [apply tailpos_tl; exact Ht | exact Hr].
    + lia.
    + exists l'. rewrite Hr'. unfold content in Hr', Hc' |- *. rewrite E2 in *.
      set (R := concat (map (body m) r)) in *.
      replace (Nat.min n (length (body m s) + length R)) with (length (body m s) + Nat.min (n - ssize s) (length R)) by lia.
      split.
      * rewrite firstn_all2 by lia. rewrite firstn_app_ge by lia. rewrite <- app_assoc. do 3 f_equal. lia.
      * rewrite Hc', Hl', Hl2, Hle', Hle2. rewrite skipn_app_ge by lia. repeat split; auto; try apply Hs'. f_equal. lia.
Qed.

Theorem read_copy_refines n l : WF l -> 0 < n ->
  let k := Nat.min n (length (content l)) in
  exists l', read_copy m n l = Ok (firstn k (content l), l')
          /\ content l' = skipn k (content l) /\ WF l' /\ leases l' = leases l.
Proof.
  intros Hwf Hpos k. pose proof (shape_of_WF l Hwf) as Hsh. destruct Hwf as [Hlen _ _].
  unfold read_copy. destruct (Nat.eqb_spec n 0) as [|_]; [lia|].
  destruct (read_loop_spec (S (length (slices l))) n [] l) as [l' [Hr' [Hc' [Hl' [[Ht' Hok'] Hle']]]]]; auto.
  fold k in Hr', Hc'. rewrite Hr'. cbn [bind app]. eexists. split; [reflexivity|].
  change (content (set_len l' (len l' - Z.of_nat (length (firstn k (content l))))%Z)) with (content l').
  split; [exact Hc'|]. split; [|exact Hle']. constructor; auto.
  change (content (set_len l' (len l' - Z.of_nat (length (firstn k (content l))))%Z)) with (content l').
  rewrite Hc', skipn_length, firstn_length. cbn [len set_len]. lia.
Qed.

End ReaderProofs.
