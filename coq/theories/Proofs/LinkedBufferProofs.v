(* Proofs about Model/LinkedBuffer.v.
   Part A: every reader operation of a well-formed receive buffer refines the byte list [content].
   Part B: recycling never changes a data byte; appending a fallback slice appends its bytes.
   Part C: the pipe restricted to the covered op set refines the byte-queue specification.
   Part D: leases (C08). *)
From Coq Require Import List ZArith Lia Bool Arith Permutation.
From Shm Require Import Gen.Consts Model.LinkedBuffer.
Import ListNotations.
Close Scope Z_scope.
Open Scope nat_scope.

(* ---------------------------------------------------------------------------------------- *)
(* list facts                                                                                *)
(* ---------------------------------------------------------------------------------------- *)
Lemma firstn_app_le {A} (a b : list A) n : n <= length a -> firstn n (a ++ b) = firstn n a.
Proof. intros. rewrite firstn_app. replace (n - length a) with 0 by lia. simpl. apply app_nil_r. Qed.
Lemma skipn_app_le {A} (a b : list A) n : n <= length a -> skipn n (a ++ b) = skipn n a ++ b.
Proof. intros. rewrite skipn_app. replace (n - length a) with 0 by lia. reflexivity. Qed.
Lemma firstn_app_ge {A} (a b : list A) n : length a <= n -> firstn n (a ++ b) = a ++ firstn (n - length a) b.
Proof. intros. rewrite firstn_app. rewrite firstn_all2 by lia. reflexivity. Qed.
Lemma skipn_app_ge {A} (a b : list A) n : length a <= n -> skipn n (a ++ b) = skipn (n - length a) b.
Proof. intros. rewrite skipn_app. rewrite skipn_all2 by lia. reflexivity. Qed.
Lemma skipn_skipn' {A} (l : list A) a b : skipn a (skipn b l) = skipn (b + a) l.
Proof.
  revert l; induction b as [|b IH]; intros l; [reflexivity|].
  destruct l as [|x l]; [now rewrite !skipn_nil|]. cbn [skipn plus]. apply IH.
Qed.
Lemma firstn_firstn_le {A} (l : list A) a b : a <= b -> firstn a (firstn b l) = firstn a l.
Proof. intros. rewrite firstn_firstn. f_equal. lia. Qed.
Lemma skipn_firstn' {A} (l : list A) k n : k <= n -> skipn k (firstn n l) = firstn (n - k) (skipn k l).
Proof. intros. rewrite firstn_skipn_comm. f_equal. f_equal. lia. Qed.

(* ---------------------------------------------------------------------------------------- *)
(* Part A — slices and reader ops over a fixed store                                         *)
(* ---------------------------------------------------------------------------------------- *)
Section ReaderProofs.
Variable m : shm.

Definition slice_ok (s : slice) : Prop := rd s <= wr s /\ wr s <= length (sdata m s).
Definition content (l : lbuf) : list byte := concat (map (body m) (slices l)).
Definition tailpos (ss : list slice) : Prop := Forall (fun s => 0 < ssize s) ss.
Record WF (l : lbuf) : Prop := {
  wf_len : len l = Z.of_nat (length (content l));
  wf_tail : tailpos (tl (slices l));         (* only the front slice may be exhausted *)
  wf_ok : Forall slice_ok (slices l) }.

Lemma body_length s : slice_ok s -> length (body m s) = ssize s.
Proof. intros [H1 H2]. unfold body, ssize. rewrite firstn_length, skipn_length. lia. Qed.

Lemma sdata_adv k s : sdata m (adv k s) = sdata m s.
Proof. reflexivity. Qed.

Lemma body_adv k s : k <= ssize s -> body m (adv k s) = skipn k (body m s).
Proof.
  intros Hk. unfold body. rewrite sdata_adv. unfold ssize in *. cbn [adv rd wr].
  rewrite skipn_firstn' by lia. rewrite skipn_skipn'. f_equal. lia.
Qed.

Lemma ok_adv k s : slice_ok s -> k <= ssize s -> slice_ok (adv k s).
Proof. intros [H1 H2] Hk. unfold slice_ok, ssize in *. rewrite sdata_adv. cbn [adv rd wr]. lia. Qed.

Lemma ssize_adv k s : ssize (adv k s) = ssize s - k.
Proof. unfold ssize. cbn [adv rd wr]. lia. Qed.

Lemma sl_take_ok k s : slice_ok s ->
  sl_take m k s = Ok (firstn (Nat.min k (ssize s)) (body m s), Nat.min k (ssize s)).
Proof.
  intros [H1 H2]. unfold sl_take. unfold ssize in *.
  destruct (Nat.leb_spec (rd s + Nat.min k (wr s - rd s)) (length (sdata m s))) as [_|Hc]; [|lia].
  unfold body, ssize. rewrite firstn_firstn_le by lia. reflexivity.
Qed.

(* characterising lemmas for the record updates *)
Lemma content_cons l s r : slices l = s :: r -> content l = body m s ++ concat (map (body m) r).
Proof. intros E. unfold content. rewrite E. reflexivity. Qed.
Lemma content_nil l : slices l = [] -> content l = [].
Proof. intros E. unfold content. rewrite E. reflexivity. Qed.

Lemma slices_set_front l s : slices (set_front l s) = s :: tl (slices l).
Proof. reflexivity. Qed.

(* the facts about a state that the loops thread along *)
Definition shape (l : lbuf) : Prop := tailpos (tl (slices l)) /\ Forall slice_ok (slices l).

Lemma shape_of_WF l : WF l -> shape l.
Proof. intros [_ H1 H2]. split; assumption. Qed.

Lemma tailpos_tl ss : tailpos ss -> tailpos (tl ss).
Proof. destruct ss; simpl; auto. intros H; inversion H; auto. Qed.

(* read_next on a non-empty list: content loses the front body *)
Lemma read_next_spec l s r : slices l = s :: r ->
  exists l', read_next l = Ok l' /\ slices l' = r /\ len l' = len l /\ leases l' = leases l.
Proof.
  intros E. unfold read_next. rewrite E. eexists. split; [reflexivity|].
  destruct (shmf s); [destruct (curp l)|]; repeat split; reflexivity.
Qed.

(* generic consumption step: advance the front slice by k <= its size *)
Lemma content_adv_front l s r k : slices l = s :: r -> k <= ssize s ->
  content (set_front l (adv k s)) = skipn k (body m s) ++ concat (map (body m) r).
Proof.
  intros E Hk. unfold content. rewrite slices_set_front, E. cbn [tl map concat]. rewrite body_adv by assumption. reflexivity.
Qed.

(* --- ReadBytes slow loop ------------------------------------------------------------------ *)
Lemma rb_slow_spec : forall fuel n acc l,
  n <= length (content l) -> length (slices l) < fuel -> shape l ->
  exists l', rb_slow m fuel n acc l = Ok (acc ++ firstn n (content l), l')
          /\ content l' = skipn n (content l) /\ len l' = len l /\ shape l' /\ leases l' = leases l.
Proof.
  induction fuel as [|fuel IH]; intros n acc l Hn Hf [Ht Hok]; [lia|].
  destruct n as [|n'].
  { cbn [rb_slow]. exists l. rewrite app_nil_r. repeat split; auto. }
  cbn [rb_slow]. set (n := S n') in *.
  destruct (slices l) as [|s r] eqn:Es.
  { rewrite (content_nil l Es) in Hn. simpl in Hn. lia. }
  pose proof (content_cons l s r Es) as Hc. rewrite Hc in *. rewrite app_length in Hn.
  inversion Hok as [|? ? Hs Hr]; subst. simpl in Ht, Hf.
  rewrite (sl_take_ok n s Hs). cbn [bind]. pose proof (body_length s Hs) as Hbl.
  destruct (Nat.eqb_spec (Nat.min n (ssize s)) n) as [Ek|Ek].
  - assert (Hle : n <= ssize s) by lia. rewrite Ek.
    rewrite firstn_app_le, skipn_app_le by lia.
    eexists. split; [reflexivity|]. rewrite (content_adv_front l s r n Es Hle).
    repeat split; auto.
    + rewrite slices_set_front, Es. exact Ht.
    + rewrite slices_set_front, Es. cbn [tl]. constructor; [apply ok_adv; assumption|assumption].
  - assert (Hlt : ssize s < n) by lia.
    replace (Nat.min n (ssize s)) with (ssize s) by lia.
    set (l1 := set_front l (adv (ssize s) s)).
    assert (E1 : slices l1 = adv (ssize s) s :: r) by (unfold l1; rewrite slices_set_front, Es; reflexivity).
    destruct (read_next_spec l1 _ _ E1) as [l2 [Hrn [E2 [Hl2 Hle2]]]]. rewrite Hrn. cbn [bind].
    destruct (IH (n - ssize s) (acc ++ firstn (ssize s) (body m s)) l2) as [l' [Hres [Hc' [Hl' [Hs' Hle']]]]].
    + unfold content. rewrite E2. lia.
    + rewrite E2. lia.
    + split; rewrite E2; [apply tailpos_tl; exact Ht | exact Hr].
    + exists l'. rewrite Hres. split.
      * rewrite firstn_all2 by lia. rewrite firstn_app_ge by lia. rewrite Hbl.
        unfold content at 1. rewrite E2. rewrite app_assoc. reflexivity.
      * rewrite Hc', Hl', Hl2, Hle', Hle2. unfold content at 1. rewrite E2.
        rewrite skipn_app_ge by lia. rewrite Hbl. repeat split; auto; apply Hs'.
Qed.

(* an exhausted front slice followed by more data: the optional readNextSlice *)
Lemma skip_empty_front l s0 r0 : slices l = s0 :: r0 -> shape l -> 0 < length (content l) ->
  exists l1 s r, (if ssize s0 =? 0 then read_next l else Ok l) = Ok l1
     /\ slices l1 = s :: r /\ content l1 = content l /\ len l1 = len l /\ shape l1 /\ 0 < ssize s
     /\ leases l1 = leases l
     /\ (ssize s0 <> 0 -> l1 = l).
Proof.
  intros Es Hsh Hpos. pose proof Hsh as [Ht Hok]. pose proof (content_cons l s0 r0 Es) as Hc.
  rewrite Es in Ht, Hok.
  inversion Hok as [|? ? Hs Hr]; subst. pose proof (body_length s0 Hs) as Hbl. simpl in Ht.
  destruct (Nat.eqb_spec (ssize s0) 0) as [Ez|Ez].
  - destruct (read_next_spec l s0 r0 Es) as [l1 [Hrn [E1 [Hl1 Hle1]]]].
    destruct r0 as [|s r].
    { rewrite Hc, app_length, Hbl, Ez in Hpos. simpl in Hpos. lia. }
    exists l1, s, r. rewrite Hrn. repeat split; auto.
    + unfold content at 1. rewrite E1, Hc.
      assert (body m s0 = []) as -> by (apply length_zero_iff_nil; lia). reflexivity.
    + rewrite E1. simpl. inversion Ht; assumption.
    + rewrite E1. exact Hr.
    + inversion Ht; assumption.
    + intros; lia.
  - exists l, s0, r0. repeat split; auto; try apply Hsh. lia.
Qed.

Theorem read_bytes_refines n l : WF l -> 0 < n -> (Z.of_nat n <= len l)%Z ->
  exists l', read_bytes m n l = Ok (firstn n (content l), l')
          /\ content l' = skipn n (content l) /\ WF l'.
Proof.
  intros Hwf Hpos Hle. pose proof (shape_of_WF l Hwf) as Hsh. destruct Hwf as [Hlen _ _].
  unfold read_bytes. destruct (Nat.eqb_spec n 0) as [|_]; [lia|].
  destruct (slices l) as [|s0 r0] eqn:Es.
  { rewrite (content_nil l Es) in Hlen. simpl in Hlen. lia. }
  destruct (skip_empty_front l s0 r0 Es Hsh) as [l1 [s [r [H1 [Es1 [Hc1 [Hl1 [[Ht1 Hok1] [Hsp [Hle1 _]]]]]]]]]]; [lia|].
  rewrite H1. cbn [bind]. rewrite Es1.
  pose proof (content_cons l1 s r Es1) as Hcs. rewrite Hc1 in Hcs.
  rewrite Es1 in Ht1, Hok1.
  inversion Hok1 as [|? ? Hs Hr]; subst. pose proof (body_length s Hs) as Hbl. simpl in Ht1.
  destruct (Nat.leb_spec n (ssize s)) as [Ef|Ef].
  - rewrite (sl_take_ok n s Hs). cbn [bind]. replace (Nat.min n (ssize s)) with n by lia.
    eexists. split; [rewrite Hcs, firstn_app_le by lia; reflexivity|].
    assert (Hc' : content (set_leases (set_front (set_len (set_curp l1 true) (len l1 - Z.of_nat n)%Z) (adv n s)) (leases l1 ++ [mk_lease s n (firstn n (body m s))]))
                  = skipn n (content l)).
    { transitivity (content (set_front l1 (adv n s))); [reflexivity|].
      rewrite (content_adv_front l1 s r n Es1 Ef), Hcs, skipn_app_le by lia. reflexivity. }
    split; [exact Hc'|]. constructor.
    + rewrite Hc'. cbn [len set_leases set_front set_slices set_len]. rewrite skipn_length. lia.
    + cbn [slices set_leases set_front set_slices set_len set_curp]. rewrite Es1. exact Ht1.
    + cbn [slices set_leases set_front set_slices set_len set_curp]. rewrite Es1. cbn [tl].
      constructor; [apply ok_adv; [assumption|lia]|assumption].
  - destruct (rb_slow_spec (S (length (slices l1))) n [] (set_len l1 (len l1 - Z.of_nat n)%Z)) as [l' [Hr' [Hc' [Hl' [[Ht' Hok'] _]]]]].
    + change (content (set_len l1 (len l1 - Z.of_nat n)%Z)) with (content l1). rewrite Hc1. lia.
    + cbn [slices set_len]. lia.
    + split; cbn [slices set_len]; rewrite Es1; [exact Ht1 | exact Hok1].
    + change (content (set_len l1 (len l1 - Z.of_nat n)%Z)) with (content l1) in Hr', Hc'.
      rewrite Hc1 in Hr', Hc'. cbn [app] in Hr'. rewrite Es1 in Hr'.
      exists l'. split; [exact Hr'|]. split; [exact Hc'|]. constructor; auto.
      rewrite Hl', Hc', skipn_length. cbn [len set_len]. lia.
Qed.

(* --- ReadString ----------------------------------------------------------------------------- *)
Lemma rs_slow_spec : forall fuel n acc l,
  n <= length (content l) -> 2 * length (slices l) + n < fuel -> shape l ->
  exists l', rs_slow m fuel n acc l = Ok (acc ++ firstn n (content l), l')
          /\ content l' = skipn n (content l) /\ len l' = len l /\ shape l' /\ leases l' = leases l.
Proof.
  induction fuel as [|fuel IH]; intros n acc l Hn Hf Hsh; [lia|].
  destruct n as [|n'].
  { cbn [rs_slow]. exists l. rewrite app_nil_r. repeat split; auto; apply Hsh. }
  cbn [rs_slow]. set (n := S n') in *.
  destruct (slices l) as [|s0 r0] eqn:Es.
  { rewrite (content_nil l Es) in Hn. simpl in Hn. lia. }
  destruct (skip_empty_front l s0 r0 Es Hsh) as [l1 [s [r [H1 [Es1 [Hc1 [Hl1 [[Ht1 Hok1] [Hsp [Hle1 Hsame]]]]]]]]]]; [lia|].
  rewrite H1. cbn [bind]. rewrite Es1.
  pose proof (content_cons l1 s r Es1) as Hcs. rewrite Hc1 in Hcs.
  rewrite Es1 in Ht1, Hok1.
  inversion Hok1 as [|? ? Hs Hr]; subst. pose proof (body_length s Hs) as Hbl. simpl in Ht1.
  rewrite (sl_take_ok n s Hs). cbn [bind].
  set (k := Nat.min n (ssize s)). assert (Hk : k <= ssize s) by lia. assert (Hkpos : 0 < k) by lia.
  assert (Hlen1 : length (slices l1) <= length (slices l)).
  { rewrite Es, Es1. destruct (Nat.eq_dec (ssize s0) 0) as [Ez|Ez].
    - unfold read_next in H1. rewrite Es in H1. rewrite Ez in H1. cbn [Nat.eqb] in H1.
      assert (slices l1 = r0).
      { injection H1 as <-. destruct (shmf s0); [destruct (curp l)|]; reflexivity. }
      rewrite Es1 in H. rewrite <- H. simpl. lia.
    - rewrite (Hsame Ez) in Es1. rewrite Es in Es1. injection Es1 as <- <-. lia. }
  destruct (IH (n - k) (acc ++ firstn k (body m s)) (set_front l1 (adv k s))) as [l' [Hr' [Hc' [Hl' [Hs' Hle']]]]].
  - rewrite (content_adv_front l1 s r k Es1 Hk). rewrite app_length, skipn_length.
    rewrite Hcs, app_length in Hn. lia.
  - rewrite slices_set_front, Es1. cbn [tl length]. rewrite Es1, Es in Hlen1. cbn [length] in Hlen1, Hf. lia.
  - split; rewrite slices_set_front, Es1; cbn [tl]; [exact Ht1|].
    constructor; [apply ok_adv; assumption|assumption].
  - exists l'. rewrite Hr'. rewrite (content_adv_front l1 s r k Es1 Hk) in Hr', Hc' |- *.
    rewrite Hcs. split; [|split; [|split; [|split]]].
    + assert (HX : firstn k (body m s) ++ firstn (n - k) (skipn k (body m s) ++ concat (map (body m) r))
                   = firstn n (body m s ++ concat (map (body m) r))).
      { destruct (Nat.le_gt_cases n (ssize s)) as [Hle|Hgt].
        * replace k with n by lia. replace (n - n) with 0 by lia. rewrite firstn_O, app_nil_r, firstn_app_le by lia. reflexivity.
        * replace k with (ssize s) by lia. rewrite skipn_all2 by lia. cbn [app].
          rewrite firstn_all2 by lia. rewrite firstn_app_ge by lia. rewrite Hbl. reflexivity. }
      rewrite <- app_assoc, HX. reflexivity.
    + rewrite Hc'. destruct (Nat.le_gt_cases n (ssize s)) as [Hle|Hgt].
      * replace k with n by lia. replace (n - n) with 0 by lia. cbn [skipn]. rewrite (skipn_app_le (body m s)) by lia. reflexivity.
      * replace k with (ssize s) by lia. rewrite (skipn_all2 (body m s)) by lia. cbn [app].
        rewrite skipn_app_ge by lia. rewrite Hbl. reflexivity.
    + rewrite Hl'. cbn [len set_front set_slices]. exact Hl1.
    + exact Hs'.
    + rewrite Hle'. cbn [leases set_front set_slices]. exact Hle1.
Qed.

Theorem read_string_refines n l : WF l -> 0 < n -> (Z.of_nat n <= len l)%Z ->
  exists l', read_string m n l = Ok (firstn n (content l), l')
          /\ content l' = skipn n (content l) /\ WF l' /\ leases l' = leases l.
Proof.
  intros Hwf Hpos Hle. pose proof (shape_of_WF l Hwf) as Hsh. destruct Hwf as [Hlen Ht Hok].
  unfold read_string. destruct (Nat.eqb_spec n 0) as [|_]; [lia|].
  destruct (slices l) as [|s r] eqn:Es.
  { rewrite (content_nil l Es) in Hlen. simpl in Hlen. lia. }
  pose proof (content_cons l s r Es) as Hcs.
  inversion Hok as [|? ? Hs Hr]; subst. pose proof (body_length s Hs) as Hbl. simpl in Ht.
  destruct (Nat.leb_spec n (ssize s)) as [Ef|Ef].
  - rewrite (sl_take_ok n s Hs). cbn [bind]. replace (Nat.min n (ssize s)) with n by lia.
    eexists. split; [rewrite Hcs, firstn_app_le by lia; reflexivity|].
    assert (Hc' : content (set_len (set_front l (adv n s)) (len l - Z.of_nat n)%Z) = skipn n (content l)).
    { change (content (set_len (set_front l (adv n s)) (len l - Z.of_nat n)%Z)) with (content (set_front l (adv n s))).
      rewrite (content_adv_front l s r n Es Ef), Hcs, skipn_app_le by lia. reflexivity. }
    split; [exact Hc'|]. split; [|reflexivity]. constructor.
    + rewrite Hc'. cbn [len set_len]. rewrite skipn_length. lia.
    + cbn [slices set_len set_front set_slices]. rewrite Es. exact Ht.
    + cbn [slices set_len set_front set_slices]. rewrite Es. cbn [tl].
      constructor; [apply ok_adv; [assumption|lia]|assumption].
  - destruct (rs_slow_spec (2 * S (length (slices l)) + n) n [] l) as [l' [Hr' [Hc' [Hl' [[Ht' Hok'] Hle']]]]].
    + lia.
    + rewrite Es. simpl. lia.
    + exact Hsh.
    + rewrite Es in Hr'. rewrite Hr'. cbn [bind app]. eexists. split; [reflexivity|].
      change (content (set_len l' (len l' - Z.of_nat n)%Z)) with (content l').
      split; [exact Hc'|]. split; [|exact Hle']. constructor; auto.
      change (content (set_len l' (len l' - Z.of_nat n)%Z)) with (content l').
      rewrite Hc', skipn_length. cbn [len set_len]. lia.
Qed.

(* --- Peek ----------------------------------------------------------------------------------- *)
Lemma peek_rest_spec : forall ss n acc,
  Forall slice_ok ss -> n <= length (concat (map (body m) ss)) ->
  peek_rest m n acc ss = Ok (acc ++ firstn n (concat (map (body m) ss))).
Proof.
  induction ss as [|s r IH]; intros n acc Hok Hn.
  - simpl in Hn. assert (n = 0) by lia. subst. cbn. now rewrite app_nil_r.
  - destruct n as [|n']; [cbn; now rewrite app_nil_r|]. set (n := S n') in *.
    inversion Hok as [|? ? Hs Hr]; subst. pose proof (body_length s Hs) as Hbl.
    cbn [peek_rest]. fold n. rewrite (sl_take_ok n s Hs). cbn [bind].
    cbn [map concat] in *. rewrite app_length in Hn.
    rewrite IH; [|assumption|lia]. f_equal. rewrite <- app_assoc. f_equal.
    destruct (Nat.le_gt_cases n (ssize s)) as [Hle|Hgt].
    + replace (Nat.min n (ssize s)) with n by lia. replace (n - n) with 0 by lia.
      rewrite firstn_O, app_nil_r, firstn_app_le by lia. reflexivity.
    + replace (Nat.min n (ssize s)) with (ssize s) by lia.
      rewrite firstn_all2 by lia. rewrite firstn_app_ge by lia. rewrite Hbl. reflexivity.
Qed.

Theorem peek_refines n l : WF l -> 0 < n -> (Z.of_nat n <= len l)%Z ->
  exists l', peek m n l = Ok (firstn n (content l), l')
          /\ slices l' = slices l /\ len l' = len l /\ pinned l' = pinned l /\ recycled l' = recycled l
          /\ wpos l' = wpos l.
Proof.
  intros [Hlen Ht Hok] Hpos Hle. unfold peek. destruct (Nat.eqb_spec n 0) as [|_]; [lia|].
  destruct (slices l) as [|s r] eqn:Es.
  { rewrite (content_nil l Es) in Hlen. simpl in Hlen. lia. }
  pose proof (content_cons l s r Es) as Hcs. rewrite Hcs in *. rewrite app_length in Hlen.
  inversion Hok as [|? ? Hs Hr]; subst. pose proof (body_length s Hs) as Hbl.
  rewrite (sl_take_ok n s Hs). cbn [bind].
  destruct (Nat.eqb_spec (Nat.min n (ssize s)) n) as [Ek|Ek].
  - rewrite Ek. eexists. split; [rewrite firstn_app_le by lia; reflexivity|]. repeat split; auto.
  - replace (Nat.min n (ssize s)) with (ssize s) by lia.
    rewrite peek_rest_spec; [|assumption|lia]. cbn [bind]. exists l. split; [|repeat split; auto].
    rewrite firstn_all2 by lia. rewrite firstn_app_ge by lia. rewrite Hbl. reflexivity.
Qed.

(* --- Discard -------------------------------------------------------------------------------- *)
Lemma discard_loop_spec : forall fuel n d l,
  n <= length (content l) -> length (slices l) < fuel -> shape l -> slices l <> [] ->
  exists l', discard_loop fuel n d l = Ok (d + n, l')
          /\ content l' = skipn n (content l) /\ len l' = len l /\ shape l' /\ leases l' = leases l.
Proof.
  induction fuel as [|fuel IH]; intros n d l Hn Hf [Ht Hok] Hne; [lia|].
  cbn [discard_loop]. destruct (slices l) as [|s r] eqn:Es; [congruence|].
  pose proof (content_cons l s r Es) as Hc. rewrite Hc in *. rewrite app_length in Hn.
  inversion Hok as [|? ? Hs Hr]; subst. simpl in Ht, Hf. pose proof (body_length s Hs) as Hbl.
  destruct (Nat.eqb_spec (n - Nat.min n (ssize s)) 0) as [Ek|Ek].
  - assert (Hle : n <= ssize s) by lia. replace (Nat.min n (ssize s)) with n by lia.
    eexists. split; [reflexivity|]. rewrite (content_adv_front l s r n Es Hle).
    rewrite skipn_app_le by lia. repeat split; auto.
    + rewrite slices_set_front, Es. exact Ht.
    + rewrite slices_set_front, Es. cbn [tl]. constructor; [apply ok_adv; assumption|assumption].
  - assert (Hlt : ssize s < n) by lia. replace (Nat.min n (ssize s)) with (ssize s) by lia.
    set (l1 := set_front l (adv (ssize s) s)).
    assert (E1 : slices l1 = adv (ssize s) s :: r) by (unfold l1; rewrite slices_set_front, Es; reflexivity).
    destruct (read_next_spec l1 _ _ E1) as [l2 [Hrn [E2 [Hl2 Hle2]]]]. rewrite Hrn. cbn [bind].
    assert (Hrne : r <> []).
    { intros ->. simpl in Hn. lia. }
    destruct (IH (n - ssize s) (d + ssize s) l2) as [l' [Hr' [Hc' [Hl' [Hs' Hle']]]]].
    + unfold content. rewrite E2. lia.
    + rewrite E2. lia.
    + split; rewrite E2; [apply tailpos_tl; exact Ht | exact Hr].
    + rewrite E2. exact Hrne.
    + exists l'. rewrite Hr'. split; [f_equal; f_equal; lia|].
      rewrite Hc', Hl', Hl2, Hle', Hle2. unfold content at 1. rewrite E2.
      rewrite skipn_app_ge by lia. rewrite Hbl. repeat split; auto; apply Hs'.
Qed.

Theorem discard_refines n l : WF l -> (Z.of_nat n <= len l)%Z ->
  exists l', discard n l = Ok (n, l') /\ content l' = skipn n (content l) /\ WF l' /\ leases l' = leases l.
Proof.
  intros Hwf Hle. pose proof (shape_of_WF l Hwf) as Hsh.
  unfold discard. destruct (Nat.eqb_spec n 0) as [->|Hn0].
  { exists l. cbn [skipn]. auto. }
  destruct Hwf as [Hlen _ _].
  assert (Hne : slices l <> []).
  { intros E. rewrite (content_nil l E) in Hlen. simpl in Hlen. lia. }
  destruct (discard_loop_spec (S (length (slices l))) n 0 l) as [l' [Hr' [Hc' [Hl' [[Ht' Hok'] Hle']]]]]; auto; [lia|].
  rewrite Hr'. cbn [bind plus]. eexists. split; [reflexivity|].
  change (content (set_len l' (len l' - Z.of_nat n)%Z)) with (content l').
  split; [exact Hc'|]. split; [|exact Hle']. constructor; auto.
  change (content (set_len l' (len l' - Z.of_nat n)%Z)) with (content l').
  rewrite Hc', skipn_length. cbn [len set_len]. lia.
Qed.

(* --- ReadByte ------------------------------------------------------------------------------- *)
Theorem read_byte_refines l : WF l -> (0 < len l)%Z ->
  exists b l', read_byte m l = Ok (b, l') /\ content l = b :: content l' /\ WF l' /\ leases l' = leases l.
Proof.
  intros Hwf Hpos. pose proof (shape_of_WF l Hwf) as Hsh. destruct Hwf as [Hlen Ht Hok].
  unfold read_byte. destruct (slices l) as [|s r] eqn:Es.
  { rewrite (content_nil l Es) in Hlen. simpl in Hlen. lia. }
  pose proof (content_cons l s r Es) as Hcs.
  inversion Hok as [|? ? Hs Hr]; subst. pose proof (body_length s Hs) as Hbl. simpl in Ht.
  rewrite (sl_take_ok 1 s Hs). cbn [bind].
  destruct (Nat.eqb_spec (Nat.min 1 (ssize s)) 1) as [Ek|Ek].
  - rewrite Ek. destruct (body m s) as [|b bs] eqn:Eb; [simpl in Hbl; lia|]. cbn [firstn].
    exists b. eexists. split; [reflexivity|].
    assert (Hc' : content (set_len (set_front l (adv 1 s)) (len l - 1)%Z) = bs ++ concat (map (body m) r)).
    { change (content (set_len (set_front l (adv 1 s)) (len l - 1)%Z)) with (content (set_front l (adv 1 s))).
      rewrite (content_adv_front l s r 1 Es) by lia. rewrite Eb. reflexivity. }
    split; [rewrite Hc', Hcs; reflexivity|]. split; [|reflexivity]. constructor.
    + rewrite Hc'. cbn [len set_len]. rewrite Hlen, Hcs. cbn [app length]. lia.
    + cbn [slices set_len set_front set_slices]. rewrite Es. exact Ht.
    + cbn [slices set_len set_front set_slices]. rewrite Es. cbn [tl].
      constructor; [apply ok_adv; [assumption|lia]|assumption].
  - assert (Ez : ssize s = 0) by lia. replace (Nat.min 1 (ssize s)) with 0 by lia.
    set (l0 := set_front l (adv 0 s)).
    assert (E0 : slices l0 = adv 0 s :: r) by (unfold l0; rewrite slices_set_front, Es; reflexivity).
    destruct (read_next_spec l0 _ _ E0) as [l1 [Hrn [E1 [Hl1 Hle1]]]]. rewrite Hrn. cbn [bind].
    assert (Hb0 : body m s = []) by (apply length_zero_iff_nil; lia).
    rewrite Hcs, Hb0 in Hlen. cbn [app] in Hlen.
    destruct r as [|s1 r1]; [simpl in Hlen; lia|]. rewrite E1.
    inversion Hr as [|? ? Hs1 Hr1]; subst. inversion Ht as [|? ? Hp1 Ht1]; subst.
    pose proof (body_length s1 Hs1) as Hbl1.
    rewrite (sl_take_ok 1 s1 Hs1). cbn [bind]. replace (Nat.min 1 (ssize s1)) with 1 by lia.
    destruct (body m s1) as [|b bs] eqn:Eb; [simpl in Hbl1; lia|]. cbn [firstn].
    exists b. eexists. split; [reflexivity|].
    assert (Hc' : content (set_len (set_front l1 (adv 1 s1)) (len l1 - 1)%Z) = bs ++ concat (map (body m) r1)).
    { change (content (set_len (set_front l1 (adv 1 s1)) (len l1 - 1)%Z)) with (content (set_front l1 (adv 1 s1))).
      rewrite (content_adv_front l1 s1 r1 1 E1) by lia. rewrite Eb. reflexivity. }
    split; [rewrite Hc', Hcs, Hb0; cbn [map concat app]; rewrite Eb; reflexivity|].
    split; [|cbn [leases set_len set_front set_slices]; rewrite Hle1; reflexivity]. constructor.
    + rewrite Hc'. cbn [len set_len]. rewrite Hl1. change (len l0) with (len l). rewrite Hlen.
      cbn [map concat]. rewrite Eb. cbn [app length]. lia.
    + cbn [slices set_len set_front set_slices]. rewrite E1. exact Ht1.
    + cbn [slices set_len set_front set_slices]. rewrite E1. cbn [tl].
      constructor; [apply ok_adv; [assumption|lia]|assumption].
Qed.

(* --- Read (copy) ---------------------------------------------------------------------------- *)
Lemma read_loop_spec : forall fuel n acc l,
  length (slices l) < fuel -> shape l -> 0 < n ->
  let k := Nat.min n (length (content l)) in
  exists l', read_loop m fuel n acc l = Ok (acc ++ firstn k (content l), l')
          /\ content l' = skipn k (content l) /\ len l' = len l /\ shape l' /\ leases l' = leases l.
Proof.
  induction fuel as [|fuel IH]; intros n acc l Hf [Ht Hok] Hpos k; [lia|].
  cbn [read_loop]. destruct (slices l) as [|s r] eqn:Es.
  { exists l. subst k. rewrite (content_nil l Es). cbn. rewrite firstn_nil, skipn_nil, app_nil_r.
    repeat split; auto; rewrite Es; auto. }
  destruct (Nat.eqb_spec n 0) as [|_]; [lia|].
  pose proof (content_cons l s r Es) as Hc. subst k. rewrite Hc in *. rewrite app_length.
  inversion Hok as [|? ? Hs Hr]; subst. simpl in Ht, Hf. pose proof (body_length s Hs) as Hbl.
  rewrite (sl_take_ok n s Hs). cbn [bind].
  destruct (Nat.eqb_spec (Nat.min n (ssize s)) n) as [Ek|Ek].
  - assert (Hle : n <= ssize s) by lia. rewrite Ek.
    replace (Nat.min n (length (body m s) + length (concat (map (body m) r)))) with n by lia.
    rewrite firstn_app_le, skipn_app_le by lia.
    eexists. split; [reflexivity|]. rewrite (content_adv_front l s r n Es Hle).
    repeat split; auto.
    + rewrite slices_set_front, Es. exact Ht.
    + rewrite slices_set_front, Es. cbn [tl]. constructor; [apply ok_adv; assumption|assumption].
  - assert (Hlt : ssize s < n) by lia. replace (Nat.min n (ssize s)) with (ssize s) by lia.
    set (l1 := set_front l (adv (ssize s) s)).
    assert (E1 : slices l1 = adv (ssize s) s :: r) by (unfold l1; rewrite slices_set_front, Es; reflexivity).
    destruct (read_next_spec l1 _ _ E1) as [l2 [Hrn [E2 [Hl2 Hle2]]]]. rewrite Hrn. cbn [bind].
    destruct (IH (n - ssize s) (acc ++ firstn (ssize s) (body m s)) l2) as [l' [Hr' [Hc' [Hl' [Hs' Hle']]]]].
    + rewrite E2. lia.
    + split; rewrite E2; [apply tailpos_tl; exact Ht | exact Hr].
    + lia.
    + exists l'. rewrite Hr'. unfold content in Hr', Hc' |- *. rewrite E2 in *.
      set (R := concat (map (body m) r)) in *.
      replace (Nat.min n (length (body m s) + length R)) with (length (body m s) + Nat.min (n - ssize s) (length R)) by lia.
      split.
      * rewrite (firstn_all2 (n := ssize s) (body m s)) by lia.
        rewrite (firstn_app_ge (body m s) R) by lia.
        replace (length (body m s) + Nat.min (n - ssize s) (length R) - length (body m s)) with (Nat.min (n - ssize s) (length R)) by lia.
        rewrite <- app_assoc. reflexivity.
      * rewrite Hc', Hl', Hl2, Hle', Hle2. rewrite (skipn_app_ge (body m s) R) by lia.
        replace (length (body m s) + Nat.min (n - ssize s) (length R) - length (body m s)) with (Nat.min (n - ssize s) (length R)) by lia.
        repeat split; auto; apply Hs'.
Qed.

Theorem read_copy_refines n l : WF l -> 0 < n ->
  let k := Nat.min n (length (content l)) in
  exists l', read_copy m n l = Ok (firstn k (content l), l')
          /\ content l' = skipn k (content l) /\ WF l' /\ leases l' = leases l.
Proof.
  intros Hwf Hpos k. pose proof (shape_of_WF l Hwf) as Hsh. destruct Hwf as [Hlen _ _].
  unfold read_copy. destruct (Nat.eqb_spec n 0) as [|_]; [lia|].
  destruct (read_loop_spec (S (length (slices l))) n [] l) as [l' [Hr' [Hc' [Hl' [[Ht' Hok'] Hle']]]]]; auto.
  fold k in Hr', Hc'. rewrite Hr'. cbn [bind app]. eexists. split; [reflexivity|].
  change (content (set_len l' (len l' - Z.of_nat (length (firstn k (content l))))%Z)) with (content l').
  split; [exact Hc'|]. split; [|exact Hle']. constructor; auto.
  change (content (set_len l' (len l' - Z.of_nat (length (firstn k (content l))))%Z)) with (content l').
  rewrite Hc', skipn_length, firstn_length. cbn [len set_len]. lia.
Qed.

End ReaderProofs.

(* ---------------------------------------------------------------------------------------- *)
(* Part B — recycling and header updates never change a data byte                            *)
(* ---------------------------------------------------------------------------------------- *)
Lemma nth_upd_nth {A} (f : A -> A) : forall (l : list A) n k,
  nth_error (upd_nth n f l) k = if k =? n then option_map f (nth_error l k) else nth_error l k.
Proof.
  induction l as [|x l IH]; intros n k.
  - destruct n; cbn [upd_nth]; destruct k; cbn; try reflexivity; destruct (k =? n); reflexivity.
  - destruct n as [|n]; destruct k as [|k]; cbn [upd_nth nth_error Nat.eqb]; try reflexivity.
    apply IH.
Qed.

Definition same_data (m m' : shm) : Prop := forall x, sdata m' x = sdata m x.

Lemma same_data_upd_hdr m o f : (forall t, st_data (f t) = st_data t) -> same_data m (upd_slot m o f).
Proof.
  intros Hf x. unfold sdata, upd_slot, with_slots. cbn [slots]. destruct (shmf x); [|reflexivity].
  rewrite nth_upd_nth. destruct (off x =? o); [|reflexivity].
  destruct (nth_error (slots m) (off x)); cbn [option_map]; [apply Hf|reflexivity].
Qed.

Lemma same_data_refl m : same_data m m. Proof. intros x; reflexivity. Qed.
Lemma same_data_trans a b c : same_data a b -> same_data b c -> same_data a c.
Proof. intros H1 H2 x. rewrite H2. apply H1. Qed.

Lemma same_data_with_free m f : same_data m (with_free m f).
Proof. intros x. reflexivity. Qed.

Lemma same_data_recycle m s : same_data m (recycle m s).
Proof.
  unfold recycle. destruct (shmf s); [|apply same_data_refl].
  destruct (find_class (cap s) (cls m) 0); [|apply same_data_refl].
  eapply same_data_trans; [apply same_data_with_free|]. apply same_data_upd_hdr. reflexivity.
Qed.

Lemma same_data_recycle_all ss : forall m, same_data m (recycle_all m ss).
Proof.
  induction ss as [|s r IH]; intros m; [apply same_data_refl|].
  unfold recycle_all in *. cbn [fold_left]. eapply same_data_trans; [apply same_data_recycle|apply IH].
Qed.

Lemma body_same m m' s : same_data m m' -> body m' s = body m s.
Proof. intros H. unfold body. rewrite H. reflexivity. Qed.

Lemma content_same m m' l : same_data m m' -> content m' l = content m l.
Proof.
  intros H. unfold content. f_equal. apply map_ext. intros s. apply body_same, H.
Qed.

Lemma WF_same m m' l : same_data m m' -> WF m l -> WF m' l.
Proof.
  intros H [H1 H2 H3]. constructor.
  - rewrite (content_same m m' l H). exact H1.
  - exact H2.
  - eapply Forall_impl; [|exact H3]. intros s [Ha Hb]. split; [exact Ha|]. rewrite H. exact Hb.
Qed.

(* fields other than the slice list do not matter for content / WF *)
Lemma WF_fields m l l' : slices l' = slices l -> len l' = len l -> WF m l -> WF m l'.
Proof.
  intros Hs Hl [H1 H2 H3]. constructor.
  - unfold content. rewrite Hs, Hl. exact H1.
  - rewrite Hs. exact H2.
  - rewrite Hs. exact H3.
Qed.

Lemma settle_ok m l : WF m l ->
  let '(m', l') := settle m l in
  same_data m m' /\ WF m' l' /\ content m' l' = content m l /\ leases l' = leases l.
Proof.
  intros Hwf. unfold settle. pose proof (same_data_recycle_all (recycled l) m) as Hsd.
  split; [exact Hsd|]. split; [|split; [|reflexivity]].
  - apply (WF_same m _ _ Hsd). apply (WF_fields m l); [reflexivity|reflexivity|exact Hwf].
  - rewrite (content_same m _ _ Hsd). reflexivity.
Qed.

(* appendBufferSlice of a non-empty slice appends its bytes and keeps the buffer well formed *)
Lemma append_slice_ok m l s : WF m l -> slice_ok m s -> 0 < ssize s ->
  WF m (append_slice l s) /\ content m (append_slice l s) = content m l ++ body m s.
Proof.
  intros [H1 H2 H3] Hs Hp.
  assert (Hc : content m (append_slice l s) = content m l ++ body m s).
  { unfold content, append_slice. destruct (shmf s); cbn [slices set_wpos set_len set_fromshm push_back set_slices];
      rewrite map_app, concat_app; cbn [map concat]; rewrite app_nil_r; reflexivity. }
  split; [|exact Hc]. constructor.
  - rewrite Hc, app_length, (body_length m s Hs).
    unfold append_slice. destruct (shmf s); cbn [len set_wpos set_len set_fromshm push_back set_slices]; lia.
  - assert (Hsl : slices (append_slice l s) = slices l ++ [s]) by (unfold append_slice; destruct (shmf s); reflexivity).
    rewrite Hsl. destruct (slices l) as [|x r]; [constructor|]. cbn [app tl] in *.
    apply Forall_app. split; [exact H2|]. constructor; [exact Hp|constructor].
  - assert (Hsl : slices (append_slice l s) = slices l ++ [s]) by (unfold append_slice; destruct (shmf s); reflexivity).
    rewrite Hsl. apply Forall_app. split; [exact H3|]. constructor; [exact Hs|constructor].
Qed.

(* the heap slice built by handleFallbackData carries exactly the flushed bytes *)
Lemma fallback_delivery m l d : WF m l -> d <> [] ->
  WF m (append_slice l (fallback_slice d)) /\ content m (append_slice l (fallback_slice d)) = content m l ++ d.
Proof.
  intros Hwf Hd.
  assert (Hb : body m (fallback_slice d) = d).
  { unfold body, fallback_slice, ssize, sdata. cbn. rewrite Nat.sub_0_r. apply firstn_all. }
  rewrite <- Hb at 3. apply append_slice_ok; [exact Hwf| |].
  - unfold slice_ok, fallback_slice, sdata. cbn. lia.
  - unfold ssize, fallback_slice. cbn. destruct d; [congruence|cbn; lia].
Qed.

(* release / releasePreviousReadAndReserve keep the content *)
Lemma clean_pinned_ok m l : WF m l ->
  let '(m', l') := clean_pinned m l in same_data m m' /\ slices l' = slices l /\ len l' = len l /\ wpos l' = wpos l.
Proof.
  intros _. unfold clean_pinned. destruct (pinned l) as [|p ps] eqn:E.
  - split; [apply same_data_refl|repeat split].
  - split; [apply same_data_recycle_all|repeat split].
Qed.

Lemma release_ok m l : WF m l ->
  let '(m', l') := release m l in WF m' l' /\ content m' l' = content m l /\ leases l' = [].
Proof.
  intros Hwf. unfold release. pose proof (clean_pinned_ok m l Hwf) as Hcp.
  destruct (clean_pinned m l) as [m1 l1]. destruct Hcp as [Hsd [Hs [Hl Hw]]].
  assert (Hwf1 : WF m1 (set_leases l1 [])).
  { apply (WF_same m m1 _ Hsd). apply (WF_fields m l); [exact Hs|exact Hl|exact Hwf]. }
  assert (Hc1 : content m1 (set_leases l1 []) = content m l).
  { rewrite (content_same m m1 _ Hsd). unfold content. cbn [slices set_leases]. rewrite Hs. reflexivity. }
  cbn [slices set_leases wpos].
  destruct (slices l1) as [|s r] eqn:Es; [split; [exact Hwf1|split; [exact Hc1|reflexivity]]|].
  destruct (wpos l1) as [|[|k]|]; try (split; [exact Hwf1|split; [exact Hc1|reflexivity]]).
  destruct (Nat.eqb_spec (ssize s) 0) as [Ez|Ez]; [|split; [exact Hwf1|split; [exact Hc1|reflexivity]]].
  destruct Hwf1 as [G1 G2 G3]. cbn [slices set_leases] in G2, G3. rewrite Es in G2, G3.
  inversion G3 as [|? ? Gs Gr]; subst.
  assert (Hb0 : body m1 s = []) by (apply length_zero_iff_nil; rewrite (body_length m1 s Gs); exact Ez).
  pose proof (same_data_recycle m1 s) as Hsd2.
  assert (Hc2 : content (recycle m1 s) (set_wpos (set_slices (set_leases l1 []) r) WNil) = content m l).
  { rewrite (content_same m1 _ _ Hsd2). rewrite <- Hc1. unfold content. cbn [slices set_wpos set_slices set_leases].
    rewrite Es. cbn [map concat]. rewrite Hb0. reflexivity. }
  split; [|split; [exact Hc2|reflexivity]].
  apply (WF_same m1 _ _ Hsd2). constructor.
  - cbn [len set_wpos set_slices set_leases]. cbn [len set_leases] in G1. rewrite G1. f_equal. f_equal.
    unfold content. cbn [slices set_wpos set_slices set_leases]. rewrite Es. cbn [map concat]. rewrite Hb0. reflexivity.
  - cbn [slices set_wpos set_slices]. cbn [tl] in G2. apply tailpos_tl. exact G2.
  - cbn [slices set_wpos set_slices]. exact Gr.
Qed.

Lemma release_reserve_ok m l : WF m l ->
  let '(m', l') := release_reserve m l in WF m' l' /\ content m' l' = content m l /\ leases l' = [].
Proof.
  intros Hwf. unfold release_reserve. pose proof (clean_pinned_ok m l Hwf) as Hcp.
  destruct (clean_pinned m l) as [m1 l1]. destruct Hcp as [Hsd [Hs [Hl Hw]]].
  assert (Hwf1 : WF m1 (set_leases l1 [])).
  { apply (WF_same m m1 _ Hsd). apply (WF_fields m l); [exact Hs|exact Hl|exact Hwf]. }
  assert (Hc1 : content m1 (set_leases l1 []) = content m l).
  { rewrite (content_same m m1 _ Hsd). unfold content. cbn [slices set_leases]. rewrite Hs. reflexivity. }
  cbn [len set_leases slices].
  destruct (Z.eqb_spec (len l1) 0) as [Ez|Ez]; [|split; [exact Hwf1|split; [exact Hc1|reflexivity]]].
  destruct (slices l1) as [|s [|s2 r]] eqn:Es; try (split; [exact Hwf1|split; [exact Hc1|reflexivity]]).
  destruct Hwf1 as [G1 G2 G3]. cbn [slices set_leases len] in G1, G2, G3.
  assert (Hcz : content m1 (set_leases l1 []) = []).
  { apply length_zero_iff_nil. lia. }
  destruct (shmf s) eqn:Esh.
  - pose proof (same_data_upd_hdr m1 (off s) hdr_reset (fun t => eq_refl)) as Hsd2.
    assert (Hb : body m1 (sreset s) = []) by (unfold body, ssize, sreset; cbn; reflexivity).
    assert (Hc2 : content m1 (set_slices (set_leases l1 []) [sreset s]) = []).
    { unfold content. cbn [slices set_slices map concat]. rewrite Hb. reflexivity. }
    split; [|split; [|reflexivity]].
    + apply (WF_same m1 _ _ Hsd2). constructor.
      * rewrite Hc2. cbn [len set_slices set_leases]. rewrite Ez. reflexivity.
      * cbn [slices set_slices tl]. constructor.
      * cbn [slices set_slices]. constructor; [|constructor]. unfold slice_ok, sreset. cbn [rd wr]. lia.
    + rewrite (content_same m1 _ _ Hsd2), Hc2, <- Hc1, Hcz. reflexivity.
  - assert (Hc2 : content m1 (set_wpos (set_slices (set_leases l1 []) []) (wptr_pop (wpos (set_leases l1 [])))) = []) by reflexivity.
    split; [|split; [|reflexivity]].
    + constructor.
      * rewrite Hc2. cbn [len set_wpos set_slices set_leases]. rewrite Ez. reflexivity.
      * cbn [slices set_wpos set_slices tl]. constructor.
      * cbn [slices set_wpos set_slices]. constructor.
    + rewrite Hc2, <- Hc1, Hcz. reflexivity.
Qed.

(* ---------------------------------------------------------------------------------------- *)
(* Part C — the byte-queue specification and the refinement of the pipe                      *)
(* ---------------------------------------------------------------------------------------- *)
(* pending_w: written, not flushed; infl: flushed, not yet moved into the receive buffer (what
   Stream.readMore moves when Len() is too small); av: what Len() of the reader counts *)
Record spec := { pw : list byte; infl : list byte; av : list byte }.
Definition spec0 : spec := {| pw := []; infl := []; av := [] |}.

Definition spec_more (n : nat) (sp : spec) : option spec :=
  if length (av sp) <? n then
    if length (av sp) + length (infl sp) <? n then None
    else Some {| pw := pw sp; infl := []; av := av sp ++ infl sp |}
  else Some sp.
Definition with_av (sp : spec) (a : list byte) : spec := {| pw := pw sp; infl := infl sp; av := a |}.
Definition with_pw (sp : spec) (a : list byte) : spec := {| pw := a; infl := infl sp; av := av sp |}.

(* None = the call would wait *)
Definition spec_step (sp : spec) (o : op) : option (res * spec) :=
  match o with
  | WBytes bs | WString bs => Some (RN (length bs), with_pw sp (pw sp ++ bs))
  | WByte b => Some (RUnit, with_pw sp (pw sp ++ [b]))
  | WReserve bs => Some (RUnit, with_pw sp (pw sp ++ bs))
  | WWrite bs => match bs with
                 | [] => Some (RN 0, sp)
                 | _ => Some (RN (length bs), {| pw := []; infl := infl sp ++ pw sp ++ bs; av := av sp |})
                 end
  | WFlush => Some (RUnit, {| pw := []; infl := infl sp ++ pw sp; av := av sp |})
  | WAdopt _ => Some (RUnit, sp)      (* result depends on the allocator *)
  | RBytes n | RString n =>
      if n =? 0 then Some (RData [], sp) else
      match spec_more n sp with
      | Some sp1 => Some (RData (firstn n (av sp1)), with_av sp1 (skipn n (av sp1)))
      | None => None end
  | RPeek n =>
      if n =? 0 then Some (RData [], sp) else
      match spec_more n sp with
      | Some sp1 => Some (RData (firstn n (av sp1)), sp1)     (* Peek consumes nothing *)
      | None => None end
  | RDiscard n =>
      match spec_more n sp with
      | Some sp1 => Some (RN n, with_av sp1 (skipn n (av sp1)))
      | None => None end
  | RByte =>
      match spec_more 1 sp with
      | Some sp1 => match av sp1 with b :: r => Some (RB b, with_av sp1 r) | [] => None end
      | None => None end
  | RRead n =>
      if n =? 0 then Some (RData [], sp) else
      match spec_more 1 sp with
      | Some sp1 => let k := Nat.min n (length (av sp1)) in
                    Some (RData (firstn k (av sp1)), with_av sp1 (skipn k (av sp1)))
      | None => None end
  | RRelease | RReleaseReuse => Some (RUnit, sp)
  | RClose => Some (RUnit, with_av sp [])
  | RPeerClose => Some (RUnit, sp)     (* the peer's close changes nothing the reader can observe before it reads on *)
  | OAlloc _ => Some (RUnit, sp)      (* result depends on the allocator, not on the byte queue *)
  | OFill _ _ | OFree _ => Some (RUnit, sp)
  end.

Definition res_agree (o : op) (x y : res) : Prop := match o with OAlloc _ | WAdopt _ => True | _ => x = y end.

(* op by op: same outcome, same bytes / n, Len of both buffers as the byte queue says *)
Fixpoint agrees (s : sys) (sp : spec) (ops : list op) : Prop :=
  match ops with
  | [] => True
  | o :: r =>
    match spec_step sp o with
    | None => step s o = Blocked /\ agrees s sp r
    | Some (x, sp') =>
        exists y s', step s o = Ok (y, s') /\ res_agree o x y
                  /\ len (rcv s') = Z.of_nat (length (av sp')) /\ len (snd s') = Z.of_nat (length (pw sp'))
                  /\ agrees s' sp' r
    end
  end.

(* the covered op set of the proved refinement: every reader operation of a size (0 included) that
   the receive buffer can satisfy, and the two releases *)
Definition covered (a : list byte) (o : op) : Prop :=
  match o with
  | RBytes n | RPeek n | RString n | RDiscard n => n <= length a
  | RByte => 0 < length a
  | RRead n => n = 0 \/ 0 < length a
  | RRelease | RReleaseReuse => True
  | _ => False
  end.
Fixpoint covered_all (sp : spec) (ops : list op) : Prop :=
  match ops with
  | [] => True
  | o :: r => covered (av sp) o /\
              match spec_step sp o with Some (_, sp') => covered_all sp' r | None => False end
  end.

Lemma read_more_enough n s : (Z.of_nat n <= len (rcv s))%Z -> read_more n s = Ok s.
Proof. intros H. unfold read_more. destruct (Z.ltb_spec (len (rcv s)) (Z.of_nat n)); [lia|reflexivity]. Qed.

Lemma spec_more_enough n sp : n <= length (av sp) -> spec_more n sp = Some sp.
Proof. intros H. unfold spec_more. destruct (Nat.ltb_spec (length (av sp)) n); [lia|reflexivity]. Qed.

Lemma rd_op_ok {A} s (f : shm -> lbuf -> outcome (A * lbuf)) (g : A -> res) a l1 c :
  f (mem s) (rcv s) = Ok (a, l1) -> WF (mem s) l1 -> content (mem s) l1 = c ->
  exists s', rd_op s f g = Ok (g a, s') /\ WF (mem s') (rcv s') /\ content (mem s') (rcv s') = c
             /\ snd s' = snd s /\ leases (rcv s') = leases l1.
Proof.
  intros Hf Hwf Hc. unfold rd_op. rewrite Hf. cbn [bind].
  pose proof (settle_ok (mem s) l1 Hwf) as Hst. destruct (settle (mem s) l1) as [m2 l2].
  destruct Hst as [_ [Hwf2 [Hc2 Hle2]]].
  eexists. split; [reflexivity|]. cbn [mem rcv snd with_mem_rcv]. rewrite Hc2. auto.
Qed.

Theorem reader_refines : forall ops s sp,
  WF (mem s) (rcv s) -> content (mem s) (rcv s) = av sp -> len (snd s) = Z.of_nat (length (pw sp)) ->
  covered_all sp ops -> agrees s sp ops.
Proof.
  induction ops as [|o ops IH]; intros s sp Hwf Hc Hsnd Hcov; [exact I|].
  destruct Hcov as [Hco Hrest]. cbn [agrees].
  pose proof Hwf as [Hlen _ _]. rewrite Hc in Hlen.
  (* common closing step *)
  assert (Hclose : forall x sp' y s',
            step s o = Ok (y, s') -> x = y -> WF (mem s') (rcv s') -> content (mem s') (rcv s') = av sp' ->
            snd s' = snd s -> pw sp' = pw sp -> covered_all sp' ops ->
            exists y0 s0, step s o = Ok (y0, s0) /\ res_agree o x y0
               /\ len (rcv s0) = Z.of_nat (length (av sp')) /\ len (snd s0) = Z.of_nat (length (pw sp'))
               /\ agrees s0 sp' ops).
  { intros x sp' y s' Hst Hxy Hwf' Hc' Hs' Hp' Hcov'. exists y, s'. split; [exact Hst|].
    split; [destruct o; try exact I; exact Hxy|].
    split; [destruct Hwf' as [G _ _]; rewrite G, Hc'; reflexivity|].
    split; [rewrite Hs', Hp'; exact Hsnd|].
    apply IH; auto. rewrite Hs', Hp'. exact Hsnd. }
  destruct o; cbn [covered] in Hco; try contradiction; cbn [spec_step] in Hrest |- *.
  - (* RBytes *)
    destruct (Nat.eqb_spec n 0) as [Hz|Hnz].
    { eapply (Hclose _ sp _ s); [cbn [step_gen]; destruct (Nat.eqb_spec n 0); [reflexivity|lia]|reflexivity|exact Hwf|exact Hc
                                |reflexivity|reflexivity|exact Hrest]. }
    rewrite (spec_more_enough n sp) in Hrest |- * by lia.
    destruct (read_bytes_refines (mem s) n (rcv s) Hwf) as [l1 [Hr [Hc1 Hwf1]]]; [lia|lia|].
    destruct (rd_op_ok s (fun m l => read_bytes m n l) RData _ l1 _ Hr Hwf1 Hc1) as [s' [Hst [Hwf' [Hc' [Hs' _]]]]].
    eapply Hclose; [cbn [step_gen]; destruct (Nat.eqb_spec n 0); [lia|]; rewrite read_more_enough by lia; cbn [bind]; exact Hst
                   |rewrite Hc; reflexivity|exact Hwf'|rewrite Hc', Hc; reflexivity|exact Hs'|reflexivity|exact Hrest].
  - (* RPeek *)
    destruct (Nat.eqb_spec n 0) as [Hz|Hnz].
    { eapply (Hclose _ sp _ s); [cbn [step_gen]; destruct (Nat.eqb_spec n 0); [reflexivity|lia]|reflexivity|exact Hwf|exact Hc
                                |reflexivity|reflexivity|exact Hrest]. }
    rewrite (spec_more_enough n sp) in Hrest |- * by lia.
    destruct (peek_refines (mem s) n (rcv s) Hwf) as [l1 [Hr [Hs1 [Hl1 _]]]]; [lia|lia|].
    assert (Hwf1 : WF (mem s) l1) by (apply (WF_fields (mem s) (rcv s)); assumption).
    assert (Hc1 : content (mem s) l1 = content (mem s) (rcv s)) by (unfold content; rewrite Hs1; reflexivity).
    destruct (rd_op_ok s (fun m l => peek m n l) RData _ l1 _ Hr Hwf1 Hc1) as [s' [Hst [Hwf' [Hc' [Hs' _]]]]].
    eapply Hclose; [cbn [step_gen]; destruct (Nat.eqb_spec n 0); [lia|]; rewrite read_more_enough by lia; cbn [bind]; exact Hst
                   |rewrite Hc; reflexivity|exact Hwf'|rewrite Hc', Hc; reflexivity|exact Hs'|reflexivity|exact Hrest].
  - (* RDiscard *)
    rewrite (spec_more_enough n sp) in Hrest |- * by lia.
    destruct (Nat.eqb_spec n 0) as [Hz|Hnz].
    { subst n. eapply (Hclose _ (with_av sp (skipn 0 (av sp))) _ s); [cbn [step_gen Nat.eqb]; reflexivity|reflexivity|exact Hwf|exact Hc
                                |reflexivity|reflexivity|exact Hrest]. }
    destruct (discard_refines (mem s) n (rcv s) Hwf) as [l1 [Hr [Hc1 [Hwf1 _]]]]; [lia|].
    destruct (rd_op_ok s (fun _ l => discard n l) RN _ l1 _ Hr Hwf1 Hc1) as [s' [Hst [Hwf' [Hc' [Hs' _]]]]].
    eapply Hclose; [cbn [step_gen]; destruct (Nat.eqb_spec n 0); [lia|]; rewrite read_more_enough by lia; cbn [bind]; exact Hst
                   |reflexivity|exact Hwf'|rewrite Hc', Hc; reflexivity|exact Hs'|reflexivity|exact Hrest].
  - (* RByte *)
    rewrite (spec_more_enough 1 sp) in Hrest |- * by lia.
    destruct (read_byte_refines (mem s) (rcv s) Hwf) as [b [l1 [Hr [Hc1 [Hwf1 _]]]]]; [lia|].
    rewrite Hc in Hc1. destruct (av sp) as [|b0 r0] eqn:Ea; [simpl in Hco; lia|]. injection Hc1 as <- Hc1.
    destruct (rd_op_ok s (fun m l => read_byte m l) RB _ l1 _ Hr Hwf1 (eq_sym Hc1)) as [s' [Hst [Hwf' [Hc' [Hs' _]]]]].
    eapply Hclose; [cbn [step_gen]; rewrite read_more_enough by (simpl in Hlen; lia); cbn [bind]; exact Hst
                   |reflexivity|exact Hwf'|rewrite Hc'; reflexivity|exact Hs'|reflexivity|exact Hrest].
  - (* RString *)
    destruct (Nat.eqb_spec n 0) as [Hz|Hnz].
    { eapply (Hclose _ sp _ s); [cbn [step_gen]; destruct (Nat.eqb_spec n 0); [reflexivity|lia]|reflexivity|exact Hwf|exact Hc
                                |reflexivity|reflexivity|exact Hrest]. }
    rewrite (spec_more_enough n sp) in Hrest |- * by lia.
    destruct (read_string_refines (mem s) n (rcv s) Hwf) as [l1 [Hr [Hc1 [Hwf1 _]]]]; [lia|lia|].
    destruct (rd_op_ok s (fun m l => read_string m n l) RData _ l1 _ Hr Hwf1 Hc1) as [s' [Hst [Hwf' [Hc' [Hs' _]]]]].
    eapply Hclose; [cbn [step_gen]; destruct (Nat.eqb_spec n 0); [lia|]; rewrite read_more_enough by lia; cbn [bind]; exact Hst
                   |rewrite Hc; reflexivity|exact Hwf'|rewrite Hc', Hc; reflexivity|exact Hs'|reflexivity|exact Hrest].
  - (* RRead *)
    destruct (Nat.eqb_spec n 0) as [Hz|Hnz].
    { eapply (Hclose _ sp _ s); [cbn [step_gen]; destruct (Nat.eqb_spec n 0); [reflexivity|lia]|reflexivity|exact Hwf|exact Hc
                                |reflexivity|reflexivity|exact Hrest]. }
    assert (Hpos : 0 < length (av sp)) by (destruct Hco; [lia|assumption]).
    rewrite (spec_more_enough 1 sp) in Hrest |- * by lia.
    destruct (read_copy_refines (mem s) n (rcv s) Hwf) as [l1 [Hr [Hc1 [Hwf1 _]]]]; [lia|].
    destruct (rd_op_ok s (fun m l => read_copy m n l) RData _ l1 _ Hr Hwf1 Hc1) as [s' [Hst [Hwf' [Hc' [Hs' _]]]]].
    eapply Hclose; [cbn [step_gen]; destruct (Nat.eqb_spec n 0); [lia|]; rewrite read_more_enough by lia; cbn [bind]; exact Hst
                   |rewrite Hc; reflexivity|exact Hwf'|rewrite Hc', Hc; reflexivity|exact Hs'|reflexivity|exact Hrest].
  - (* RRelease *)
    pose proof (release_ok (mem s) (rcv s) Hwf) as Hrel.
    destruct (release (mem s) (rcv s)) as [m1 l1] eqn:Erel. destruct Hrel as [Hwf1 [Hc1 _]].
    eapply (Hclose RUnit sp RUnit (with_mem_rcv s m1 l1)); [cbn [step_gen]; rewrite Erel; reflexivity|reflexivity|exact Hwf1
                   |cbn [mem rcv with_mem_rcv]; rewrite Hc1; exact Hc|reflexivity|reflexivity|exact Hrest].
  - (* RReleaseReuse *)
    pose proof (release_reserve_ok (mem s) (rcv s) Hwf) as Hrel.
    destruct (release_reserve (mem s) (rcv s)) as [m1 l1] eqn:Erel. destruct Hrel as [Hwf1 [Hc1 _]].
    eapply (Hclose RUnit sp RUnit (with_mem_rcv s m1 l1)); [cbn [step_gen]; rewrite Erel; reflexivity|reflexivity|exact Hwf1
                   |cbn [mem rcv with_mem_rcv]; rewrite Hc1; exact Hc|reflexivity|reflexivity|exact Hrest].
Qed.

(* transport through the socket: moveTo of fallback slices appends exactly the flushed bytes *)
Lemma move_to_fallback : forall ds m l,
  WF m l -> Forall (fun d => d <> []) ds ->
  exists l', move_to m l (map (fun d => PFallback (fallback_slice d)) ds) = Ok (m, l')
          /\ WF m l' /\ content m l' = content m l ++ concat ds.
Proof.
  induction ds as [|d ds IH]; intros m l Hwf Hds.
  - exists l. cbn. rewrite app_nil_r. auto.
  - inversion Hds as [|? ? Hd Hr]; subst. cbn [map move_to].
    destruct (fallback_delivery m l d Hwf Hd) as [Hwf1 Hc1].
    destruct (IH m _ Hwf1 Hr) as [l' [Hm [Hwf' Hc']]]. exists l'. split; [exact Hm|]. split; [exact Hwf'|].
    rewrite Hc', Hc1. cbn [concat]. now rewrite app_assoc.
Qed.

Lemma WF_empty m : WF m empty_buf.
Proof. constructor; cbn; constructor. Qed.

(* whatever was flushed through the fallback transport, in whatever pieces, every covered reader
   sequence on the freshly filled receive buffer behaves like the byte queue *)
Theorem fallback_pipe_refines cfg ds ops :
  Forall (fun d => d <> []) ds ->
  let s0 := init_sys cfg in
  exists l', move_to (mem s0) (rcv s0) (map (fun d => PFallback (fallback_slice d)) ds) = Ok (mem s0, l')
    /\ (covered_all {| pw := []; infl := []; av := concat ds |} ops ->
        agrees (with_mem_rcv s0 (mem s0) l') {| pw := []; infl := []; av := concat ds |} ops).
Proof.
  intros Hds s0. destruct (move_to_fallback ds (mem s0) (rcv s0) (WF_empty _) Hds) as [l' [Hm [Hwf Hc]]].
  exists l'. split; [exact Hm|]. intros Hcov. apply reader_refines; auto.
Qed.

(* ---------------------------------------------------------------------------------------- *)
(* the full statement; the two size-0 scenarios that used to refute it (nil dereferences,      *)
(* repaired by the size <= 0 guards of Discard and Reserve) are kept as regression lemmas      *)
(* ---------------------------------------------------------------------------------------- *)
Definition pipe_full : Prop := forall cfg ops, agrees (init_sys cfg) spec0 ops.

Lemma discard0_ok : forall s, step s (RDiscard 0) = Ok (RN 0, s).
Proof. reflexivity. Qed.

Lemma reserve0_ok : forall s, step s (WReserve []) = Ok (RUnit, s).
Proof. intros s. cbn [step_gen reserve length Nat.eqb bind]. destruct s; reflexivity. Qed.

Lemma size0_regression : agrees (init_sys [(16, 2)]) spec0 [RDiscard 0; OAlloc 16; WReserve []; RDiscard 0].
Proof. vm_compute. repeat (eexists; repeat split). Qed.

(* ---------------------------------------------------------------------------------------- *)
(* Part D — leases (C08)                                                                     *)
(* ---------------------------------------------------------------------------------------- *)
(* D1: no operation other than a writer operation / a fill by the owner of a slot changes a data
   byte of the store: reading (fast, slow), peeking, discarding, the move of pending data (incl.
   the header surgery of the empty-slice unlinking), releasing, closing, allocating, freeing. *)
Lemma chain_same_data : forall fuel m l o m' l', chain fuel m l o = Ok (m', l') -> same_data m m'.
Proof.
  induction fuel as [|fuel IH]; intros m l o m' l' H; [discriminate|].
  cbn [chain] in H. destruct (nth_error (slots m) o) as [t|]; [|injection H as <- _; apply same_data_refl].
  destruct (ssize (slice_of_slot o t) =? 0).
  - destruct (slices l) as [|x r].
    + apply IH in H. eapply same_data_trans; [apply same_data_recycle|exact H].
    + destruct (negb (shmf (last (x :: r) (slice_of_slot o t)))); [discriminate|].
      destruct (st_hasnext t).
      * apply IH in H. eapply same_data_trans; [|exact H].
        eapply same_data_trans; [|apply same_data_recycle]; apply same_data_upd_hdr; reflexivity.
      * injection H as <- _.
        eapply same_data_trans; [|apply same_data_recycle]; apply same_data_upd_hdr; reflexivity.
  - destruct (st_hasnext t); [apply IH in H; exact H|injection H as <- _; apply same_data_refl].
Qed.

Lemma move_to_same_data : forall ps m l m' l', move_to m l ps = Ok (m', l') -> same_data m m'.
Proof.
  induction ps as [|p ps IH]; intros m l m' l' H; cbn [move_to] in H.
  - injection H as <- _. apply same_data_refl.
  - destruct p as [o|s].
    + destruct (chain (S (length (slots m))) m l o) as [[m1 l1]| | |] eqn:E; cbn [bind] in H; try discriminate.
      eapply same_data_trans; [eapply chain_same_data; exact E|eapply IH; exact H].
    + eapply IH; exact H.
Qed.

Lemma read_more_same_data n s s' : read_more n s = Ok s' -> same_data (mem s) (mem s') /\ snd s' = snd s /\ oth s' = oth s.
Proof.
  unfold read_more. destruct (len (rcv s) <? Z.of_nat n)%Z.
  - destruct (move_to (mem s) (rcv s) (pend s)) as [[m1 l1]| | |] eqn:E; cbn [bind]; try discriminate.
    destruct (len l1 <? Z.of_nat n)%Z; [discriminate|]. intros H. injection H as <-. cbn [mem snd oth].
    split; [eapply move_to_same_data; exact E|auto].
  - intros H. injection H as <-. split; [apply same_data_refl|auto].
Qed.

Lemma rd_op_same_data {A} s (f : shm -> lbuf -> outcome (A * lbuf)) (g : A -> res) y s' :
  rd_op s f g = Ok (y, s') -> same_data (mem s) (mem s').
Proof.
  unfold rd_op. destruct (f (mem s) (rcv s)) as [[a l1]| | |]; cbn [bind]; try discriminate.
  unfold settle. intros H. injection H as _ <-. cbn [mem with_mem_rcv]. apply same_data_recycle_all.
Qed.

Lemma clean_pinned_same_data m l : same_data m (fst (clean_pinned m l)).
Proof. unfold clean_pinned. destruct (pinned l); cbn [fst]; [apply same_data_refl|apply same_data_recycle_all]. Qed.

Lemma release_same_data m l : same_data m (fst (release m l)).
Proof.
  unfold release. pose proof (clean_pinned_same_data m l) as H. destruct (clean_pinned m l) as [m1 l1]. cbn [fst] in H.
  cbn [slices set_leases wpos]. destruct (slices l1) as [|x r]; [exact H|].
  destruct (wpos l1) as [|[|k]|]; try exact H. destruct (ssize x =? 0); cbn [fst]; [|exact H].
  eapply same_data_trans; [exact H|apply same_data_recycle].
Qed.

Lemma release_reserve_same_data m l : same_data m (fst (release_reserve m l)).
Proof.
  unfold release_reserve. pose proof (clean_pinned_same_data m l) as H. destruct (clean_pinned m l) as [m1 l1]. cbn [fst] in H.
  cbn [len set_leases slices]. destruct (len l1 =? 0)%Z; [|exact H].
  destruct (slices l1) as [|x [|x2 r]]; try exact H. destruct (shmf x); cbn [fst]; [|exact H].
  eapply same_data_trans; [exact H|apply same_data_upd_hdr; reflexivity].
Qed.

(* the operations that do not write payload bytes *)
Definition nonwriting (o : op) : bool :=
  match o with
  | RBytes _ | RPeek _ | RDiscard _ | RByte | RString _ | RRead _ | RRelease | RReleaseReuse | RClose
  | OAlloc _ | OFree _ => true
  | _ => false
  end.

Lemma pop_class_same_data m i s m' : pop_class m i = Some (s, m') -> same_data m m'.
Proof.
  unfold pop_class. destruct (nth_error (free m) i) as [[|a [|b r]]|]; try discriminate.
  destruct (nth_error (slots m) a); [|discriminate]. intros H. injection H as _ <-.
  eapply same_data_trans; [apply same_data_with_free|apply same_data_upd_hdr; reflexivity].
Qed.
Lemma alloc_first_same_data : forall cs m size i s m', alloc_first m size cs i = Some (s, m') -> same_data m m'.
Proof.
  induction cs as [|c cs IH]; intros m size i s m' H; cbn [alloc_first] in H; [discriminate|].
  destruct (size <=? c); [|eapply IH; exact H].
  destruct (pop_class m i) as [[s1 m1]|] eqn:E; [injection H as _ <-; eapply pop_class_same_data; exact E|eapply IH; exact H].
Qed.

Theorem step_same_data s o y s' : nonwriting o = true -> step s o = Ok (y, s') -> same_data (mem s) (mem s').
Proof.
  intros Hn H. destruct o; try discriminate Hn; cbn [step_gen] in H.
  - destruct (n =? 0); [injection H as _ <-; apply same_data_refl|].
    destruct (read_more n s) as [s1| | |] eqn:E; cbn [bind] in H; try discriminate.
    apply read_more_same_data in E. apply rd_op_same_data in H. eapply same_data_trans; [apply E|exact H].
  - destruct (n =? 0); [injection H as _ <-; apply same_data_refl|].
    destruct (read_more n s) as [s1| | |] eqn:E; cbn [bind] in H; try discriminate.
    apply read_more_same_data in E. apply rd_op_same_data in H. eapply same_data_trans; [apply E|exact H].
  - destruct (n =? 0); [injection H as _ <-; apply same_data_refl|].
    destruct (read_more n s) as [s1| | |] eqn:E; cbn [bind] in H; try discriminate.
    apply read_more_same_data in E. apply rd_op_same_data in H. eapply same_data_trans; [apply E|exact H].
  - destruct (read_more 1 s) as [s1| | |] eqn:E; cbn [bind] in H; try discriminate.
    apply read_more_same_data in E. apply rd_op_same_data in H. eapply same_data_trans; [apply E|exact H].
  - destruct (n =? 0); [injection H as _ <-; apply same_data_refl|].
    destruct (read_more n s) as [s1| | |] eqn:E; cbn [bind] in H; try discriminate.
    apply read_more_same_data in E. apply rd_op_same_data in H. eapply same_data_trans; [apply E|exact H].
  - destruct (n =? 0); [injection H as _ <-; apply same_data_refl|].
    destruct (read_more 1 s) as [s1| | |] eqn:E; cbn [bind] in H; try discriminate.
    apply read_more_same_data in E. apply rd_op_same_data in H. eapply same_data_trans; [apply E|exact H].
  - pose proof (release_same_data (mem s) (rcv s)) as G. destruct (release (mem s) (rcv s)) as [m1 l1].
    injection H as _ <-. exact G.
  - pose proof (release_reserve_same_data (mem s) (rcv s)) as G. destruct (release_reserve (mem s) (rcv s)) as [m1 l1].
    injection H as _ <-. exact G.
  - unfold lb_recycle in H. pose proof (clean_pinned_same_data (mem s) (rcv s)) as G.
    destruct (clean_pinned (mem s) (rcv s)) as [m1 l1]. cbn [fst] in G. injection H as _ <-. cbn [mem with_mem_rcv].
    eapply same_data_trans; [exact G|apply same_data_recycle_all].
  - unfold allocShmBuffer in H. destruct (n <=? last (cls (mem s)) 0).
    + destruct (alloc_first (mem s) n (cls (mem s)) 0) as [[b m1]|] eqn:E.
      * injection H as _ <-. cbn [mem]. eapply alloc_first_same_data; exact E.
      * injection H as _ <-. apply same_data_refl.
    + injection H as _ <-. apply same_data_refl.
  - destruct (nth_error (oth s) i); injection H as _ <-; cbn [mem]; [apply same_data_recycle|apply same_data_refl].
Qed.

(* what a lease denotes *)
Definition lease_bytes (m : shm) (le : lease) : list byte :=
  firstn (l_hi le - l_lo le)
         (skipn (l_lo le) (sdata m {| shmf := l_shm le; off := l_off le; cap := 0; start := 0; rd := 0; wr := 0; heap := [] |})).

Lemma lease_bytes_same m m' le : same_data m m' -> lease_bytes m' le = lease_bytes m le.
Proof. intros H. unfold lease_bytes. rewrite H. reflexivity. Qed.

Fixpoint run (s : sys) (ops : list op) : outcome sys :=
  match ops with
  | [] => Ok s
  | o :: r => match step s o with Ok (_, s') => run s' r | Err e => Err e | Panic w => Panic w | Blocked => run s r end
  end.

Theorem run_same_data : forall ops s s', forallb nonwriting ops = true -> run s ops = Ok s' -> same_data (mem s) (mem s').
Proof.
  induction ops as [|o ops IH]; intros s s' Hn H; cbn [run] in H.
  - injection H as <-. apply same_data_refl.
  - cbn [forallb] in Hn. apply andb_prop in Hn. destruct Hn as [Ho Hr].
    destruct (step s o) as [[y s1]| | |] eqn:E; try discriminate.
    + eapply same_data_trans; [eapply step_same_data; [exact Ho|exact E]|eapply IH; [exact Hr|exact H]].
    + eapply IH; [exact Hr|exact H].
Qed.

(* D2: after the release the parked slots are in the free lists again *)
Definition shm_wf (m : shm) : Prop := length (free m) = length (cls m).

Lemma in_concat_upd_nth (a : nat) : forall (L : list (list nat)) i x,
  In x (concat (upd_nth i (fun f => f ++ [a]) L)) <-> (In x (concat L) \/ (i < length L /\ x = a)).
Proof.
  induction L as [|f L IH]; intros i x.
  - destruct i; cbn; split; intros H; try tauto; destruct H as [H|[H _]]; [tauto|lia|tauto|lia].
  - destruct i as [|i]; cbn [upd_nth concat length].
    + rewrite !in_app_iff. cbn [In]. split; intros H.
      * destruct H as [[H|[H|[]]]|H]; [tauto| |tauto]. right. split; [lia|auto].
      * destruct H as [[H|H]|[_ H]]; auto.
    + rewrite !in_app_iff, IH. split; intros H.
      * destruct H as [H|[H|[H1 H2]]]; auto. right. split; [lia|auto].
      * destruct H as [[H|H]|[H1 H2]]; auto. right. right. split; [lia|auto].
Qed.

Lemma find_class_bound c : forall cs k i, find_class c cs k = Some i -> k <= i < k + length cs.
Proof.
  induction cs as [|x cs IH]; intros k i H; cbn [find_class] in H; [discriminate|].
  destruct (x =? c); [injection H as <-; cbn; lia|]. apply IH in H. cbn [length]. lia.
Qed.
Lemma find_class_some c : forall cs k, In c cs -> exists i, find_class c cs k = Some i.
Proof.
  induction cs as [|x cs IH]; intros k H; [contradiction|]. cbn [find_class].
  destruct (Nat.eqb_spec x c) as [|Hne]; [eexists; reflexivity|]. destruct H as [H|H]; [congruence|]. apply IH, H.
Qed.

Lemma free_recycle m s x :
  In x (concat (free (recycle m s))) <->
  (In x (concat (free m)) \/ (shmf s = true /\ x = off s /\ exists i, find_class (cap s) (cls m) 0 = Some i /\ i < length (free m))).
Proof.
  unfold recycle. destruct (shmf s); [|split; [auto|intros [H|[H _]]; [auto|discriminate]]].
  destruct (find_class (cap s) (cls m) 0) as [i|] eqn:E.
  - unfold upd_slot, with_slots, with_free. cbn [free]. rewrite in_concat_upd_nth. split; intros H.
    + destruct H as [H|[H1 H2]]; auto. right. repeat split; auto. exists i. auto.
    + destruct H as [H|[_ [H2 [j [Hj Hl]]]]]; auto. injection Hj as <-. auto.
  - split; [auto|]. intros [H|[_ [_ [j [Hj _]]]]]; [auto|discriminate].
Qed.

Lemma recycle_wf m s : shm_wf m -> shm_wf (recycle m s) /\ cls (recycle m s) = cls m.
Proof.
  unfold shm_wf, recycle. intros H. destruct (shmf s); [|auto]. destruct (find_class (cap s) (cls m) 0); [|auto].
  unfold upd_slot, with_slots, with_free. cbn [free cls]. split; [|reflexivity].
  rewrite <- H. clear. generalize (free m) n. induction l as [|f L IH]; intros i; destruct i; cbn; auto.
Qed.

Lemma recycle_all_frees : forall ps m p, shm_wf m -> In p ps -> shmf p = true -> In (cap p) (cls m) ->
  In (off p) (concat (free (recycle_all m ps))).
Proof.
  induction ps as [|q ps IH]; intros m p Hwf Hin Hs Hc; [contradiction|].
  unfold recycle_all in *. cbn [fold_left]. destruct (recycle_wf m q Hwf) as [Hwf' Hcls].
  destruct Hin as [->|Hin].
  - assert (G : In (off p) (concat (free (recycle m p)))).
    { apply free_recycle. right. repeat split; auto. destruct (find_class_some (cap p) (cls m) 0 Hc) as [i Hi].
      exists i. split; [exact Hi|]. apply find_class_bound in Hi. unfold shm_wf in Hwf. lia. }
    clear IH. revert G Hwf'. generalize (recycle m p). induction ps as [|q ps IH2]; intros m1 G Hw; [exact G|].
    cbn [fold_left]. apply IH2; [apply free_recycle; auto|apply recycle_wf, Hw].
  - apply IH; auto. rewrite Hcls. exact Hc.
Qed.

Theorem release_frees_parked m l p : shm_wf m -> In p (pinned l) -> shmf p = true -> In (cap p) (cls m) ->
  let '(m', l') := release m l in In (off p) (concat (free m')) /\ pinned l' = [] /\ leases l' = [].
Proof.
  intros Hwf Hin Hs Hc. unfold release, clean_pinned. destruct (pinned l) as [|q ps] eqn:Ep; [contradiction|].
  pose proof (recycle_all_frees (q :: ps) m p Hwf Hin Hs Hc) as G.
  cbn [slices set_leases wpos set_curp set_pinned].
  destruct (slices l) as [|x r]; [auto|]. destruct (wpos l) as [|[|k]|]; auto.
  destruct (ssize x =? 0); auto. split; [apply free_recycle; auto|auto].
Qed.
