(* Invariants of the stream-pool model for every capacity, every history of the atomic labels, any
   number of callers (C15). *)
From Coq Require Import List ZArith Lia Bool Arith.
From Shm Require Import Gen.Consts Model.Pool.
Import ListNotations.
Open Scope Z_scope.

Definition in_ring (s : st) (i : Z) : Prop := head s <= i < tail s.
Definition slot_at (s : st) (i : Z) : nat := slots s (i mod cap s).
Definition heldx (s : st) (x : nat) : Prop := In x (map snd (held s)).

(* the part of the invariant that talks about ring, held list and the id counter *)
Record RingInv (s : st) : Prop := {
  r_ht : 0 <= head s <= tail s;
  r_le : tail s - head s <= cap s;
  r_inj : forall i j, in_ring s i -> in_ring s j -> slot_at s i = slot_at s j -> i = j;
  r_hnd : NoDup (map snd (held s));
  r_disj : forall i, in_ring s i -> ~ heldx s (slot_at s i);
  r_rfresh : forall i, in_ring s i -> (slot_at s i < nstreams s)%nat;
  r_hfresh : forall x, heldx s x -> (x < nstreams s)%nat;
  r_prep : forall x, In x (prep s) -> heldx s x }.   (* a stream inside PutBack is still held by the putting caller *)

(* the part that talks about streams, sessions and their tables *)
Record TabInv (s : st) : Prop := {
  t_cur : (cur s < nsess s)%nat;
  t_sess : forall x, (x < nstreams s)%nat -> (ssess (streams s x) < nsess s)%nat;
  t_tab : forall k x, In x (table (sessions s k)) <->
                      ((x < nstreams s)%nat /\ ssess (streams s x) = k /\ sst (streams s x) <> Closed);
  t_tnd : forall k, NoDup (table (sessions s k)) }.

Definition Base (s : st) : Prop := RingInv s /\ TabInv s.

Lemma pooled_iff s x : pooled s x <-> exists i, in_ring s i /\ slot_at s i = x.
Proof. unfold pooled, in_ring, slot_at. tauto. Qed.

(* ---------- frames ---------- *)
Lemma ring_frame s s' :
  cap s' = cap s -> slots s' = slots s -> head s' = head s -> tail s' = tail s ->
  held s' = held s -> nstreams s' = nstreams s -> prep s' = prep s -> RingInv s -> RingInv s'.
Proof.
  intros Hc Hs Hh Ht Hd Hn Hp [A B C D E F G H].
  constructor; unfold in_ring, slot_at, heldx in *; rewrite ?Hc, ?Hs, ?Hh, ?Ht, ?Hd, ?Hn, ?Hp; auto.
Qed.

Lemma tab_frame s s' :
  streams s' = streams s -> nstreams s' = nstreams s -> sessions s' = sessions s ->
  cur s' = cur s -> nsess s' = nsess s -> TabInv s -> TabInv s'.
Proof.
  intros H1 H2 H3 H4 H5 [A B C D].
  constructor; rewrite ?H1, ?H2, ?H3, ?H4, ?H5; auto.
Qed.

Lemma pooled_frame s s' x :
  cap s' = cap s -> slots s' = slots s -> head s' = head s -> tail s' = tail s ->
  (pooled s' x <-> pooled s x).
Proof. intros Hc Hs Hh Ht. unfold pooled. rewrite Hc, Hs, Hh, Ht. tauto. Qed.

(* ---------- small facts ---------- *)
Lemma updn_eq {A} (f : nat -> A) k v : updn f k v k = v.
Proof. unfold updn. rewrite Nat.eqb_refl. reflexivity. Qed.
Lemma updn_neq {A} (f : nat -> A) k v i : i <> k -> updn f k v i = f i.
Proof. unfold updn. intro H. apply Nat.eqb_neq in H. rewrite H. reflexivity. Qed.

Lemma remove_nat_in x y l : In y (remove_nat x l) <-> In y l /\ y <> x.
Proof.
  unfold remove_nat. rewrite filter_In. split; intros [A B]; split; auto.
  - apply negb_true_iff, Nat.eqb_neq in B. exact B.
  - apply negb_true_iff, Nat.eqb_neq. exact B.
Qed.
Lemma remove_nat_nodup x l : NoDup l -> NoDup (remove_nat x l).
Proof. apply NoDup_filter. Qed.

Lemma mod_neq a b c : 0 < b - a < c -> a mod c <> b mod c.
Proof.
  intros H E.
  assert (Hc : c <> 0) by lia.
  pose proof (Z.div_mod a c Hc) as Ha. pose proof (Z.div_mod b c Hc) as Hb.
  rewrite E in Ha.
  assert (b - a = c * (b / c - a / c)) by lia.
  assert (0 < b / c - a / c) by nia.
  nia.
Qed.

Lemma existsb_eqb_in x l : existsb (Nat.eqb x) l = true <-> In x l.
Proof.
  rewrite existsb_exists. split.
  - intros [y [A B]]. apply Nat.eqb_eq in B. subst. exact A.
  - intro A. exists x. split; [exact A | apply Nat.eqb_refl].
Qed.

Lemma pair_eqb_true a b : pair_eqb a b = true <-> a = b.
Proof.
  destruct a as [a1 a2], b as [b1 b2]. unfold pair_eqb. cbn [fst snd].
  rewrite andb_true_iff, !Nat.eqb_eq. split; [intros [-> ->]; reflexivity | intro H; inversion H; auto].
Qed.

Lemma holds_in c x s : holds c x s = true <-> In (c, x) (held s).
Proof.
  unfold holds. rewrite existsb_exists. split.
  - intros [p [A B]]. apply pair_eqb_true in B. subst. exact A.
  - intro A. exists (c, x). split; [exact A | apply pair_eqb_true; reflexivity].
Qed.

Lemma holds_heldx c x s : holds c x s = true -> heldx s x.
Proof. intro H. apply holds_in in H. unfold heldx. apply in_map_iff. exists (c, x). auto. Qed.

(* a held stream is not pooled *)
Lemma held_not_pooled s x : RingInv s -> heldx s x -> ~ pooled s x.
Proof. intros R H [i [Hi E]]. apply (r_disj s R i Hi). unfold slot_at. rewrite E. exact H. Qed.

(* ---------- stream updates that keep session and closedness ---------- *)
Lemma tab_set_stream s x v :
  ssess v = ssess (streams s x) -> (sst v = Closed <-> sst (streams s x) = Closed) ->
  TabInv s -> TabInv (set_stream x v s).
Proof.
  intros Hs Hc [A B C D]. constructor; cbn [set_stream streams nstreams sessions cur nsess]; auto.
  - intros y Hy. destruct (Nat.eq_dec y x) as [->|N]; [rewrite updn_eq, Hs | rewrite updn_neq by exact N]; auto.
  - intros k y. rewrite C. destruct (Nat.eq_dec y x) as [->|N]; [rewrite updn_eq, Hs | rewrite updn_neq by exact N]; tauto.
Qed.

Lemma base_set_stream s x v :
  ssess v = ssess (streams s x) -> (sst v = Closed <-> sst (streams s x) = Closed) ->
  Base s -> Base (set_stream x v s).
Proof.
  intros Hs Hc [R T]. split.
  - eapply ring_frame; [.. | exact R]; reflexivity.
  - apply tab_set_stream; assumption.
Qed.

(* ---------- session updates that keep the table ---------- *)
Lemma tab_set_session s k v :
  table v = table (sessions s k) -> TabInv s -> TabInv (set_session k v s).
Proof.
  intros Ht [A B C D]. constructor; cbn [set_session streams nstreams sessions cur nsess]; auto.
  - intros k' y. destruct (Nat.eq_dec k' k) as [->|N]; [rewrite updn_eq, Ht | rewrite updn_neq by exact N]; apply C.
  - intros k'. destruct (Nat.eq_dec k' k) as [->|N]; [rewrite updn_eq, Ht | rewrite updn_neq by exact N]; apply D.
Qed.

Lemma base_set_session s k v :
  table v = table (sessions s k) -> Base s -> Base (set_session k v s).
Proof.
  intros Ht [R T]. split.
  - eapply ring_frame; [.. | exact R]; reflexivity.
  - apply tab_set_session; assumption.
Qed.

(* ---------- close_stream ---------- *)
Lemma tab_close_stream s x : TabInv s -> TabInv (close_stream x s).
Proof.
  intros T. unfold close_stream.
  destruct (sst (streams s x)) eqn:E; try exact T.
  all: destruct T as [A B C D]; constructor;
    cbn [set_session set_stream streams nstreams sessions cur nsess]; auto.
  all: try (intros y Hy; destruct (Nat.eq_dec y x) as [->|N];
            [rewrite updn_eq; cbn [closed_of ssess]; auto | rewrite updn_neq by exact N; auto]).
  all: try (intros k y; destruct (Nat.eq_dec k (ssess (streams s x))) as [->|Nk];
    [ rewrite updn_eq; cbn [with_table table]; rewrite remove_nat_in, C;
      destruct (Nat.eq_dec y x) as [->|N];
      [ rewrite updn_eq; cbn [closed_of ssess sst]; intuition congruence
      | rewrite updn_neq by exact N; tauto ]
    | rewrite updn_neq by exact Nk; rewrite C;
      destruct (Nat.eq_dec y x) as [->|N];
      [ rewrite updn_eq; cbn [closed_of ssess sst]; intuition congruence
      | rewrite updn_neq by exact N; tauto ] ]).
  all: intros k; destruct (Nat.eq_dec k (ssess (streams s x))) as [->|Nk];
    [ rewrite updn_eq; cbn [with_table table]; apply remove_nat_nodup, D
    | rewrite updn_neq by exact Nk; apply D ].
Qed.

Lemma close_stream_ring s x :
  cap (close_stream x s) = cap s /\ slots (close_stream x s) = slots s /\ head (close_stream x s) = head s /\
  tail (close_stream x s) = tail s /\ held (close_stream x s) = held s /\ nstreams (close_stream x s) = nstreams s /\
  fx (close_stream x s) = fx s /\ cur (close_stream x s) = cur s /\ nsess (close_stream x s) = nsess s /\
  fy (close_stream x s) = fy s /\ prep (close_stream x s) = prep s.
Proof. unfold close_stream. destruct (sst (streams s x)); repeat split; reflexivity. Qed.

Lemma base_close_stream s x : Base s -> Base (close_stream x s).
Proof.
  intros [R T]. split; [| apply tab_close_stream; exact T].
  destruct (close_stream_ring s x) as (A & B & C & D & E & F & _ & _ & _ & _ & G).
  eapply ring_frame; [.. | exact R]; assumption.
Qed.

Lemma close_stream_other s x y : y <> x -> streams (close_stream x s) y = streams s y.
Proof.
  intro N. unfold close_stream. destruct (sst (streams s x)); cbn [set_session set_stream streams]; auto;
  rewrite updn_neq by exact N; reflexivity.
Qed.
Lemma close_stream_closed s x : sst (streams (close_stream x s) x) = Closed.
Proof.
  unfold close_stream. destruct (sst (streams s x)) eqn:E; cbn [set_session set_stream streams]; auto;
  rewrite updn_eq; reflexivity.
Qed.
Lemma close_stream_shut s x k : shut (sessions (close_stream x s) k) = shut (sessions s k).
Proof.
  unfold close_stream. destruct (sst (streams s x)); cbn [set_session set_stream sessions]; auto;
  (destruct (Nat.eq_dec k (ssess (streams s x))) as [->|N];
   [rewrite updn_eq; reflexivity | rewrite updn_neq by exact N; reflexivity]).
Qed.
Lemma close_stream_table s x k y :
  In y (table (sessions (close_stream x s) k)) -> In y (table (sessions s k)) /\ (sst (streams s x) <> Closed -> k = ssess (streams s x) -> y <> x).
Proof.
  unfold close_stream. destruct (sst (streams s x)) eqn:E; cbn [set_session set_stream sessions].
  2:{ intro H. split; [exact H | congruence]. }
  all: destruct (Nat.eq_dec k (ssess (streams s x))) as [->|N];
    [ rewrite updn_eq; cbn [with_table table]; rewrite remove_nat_in; intros [A B]; split; auto
    | rewrite updn_neq by exact N; intro H; split; [exact H | congruence] ].
Qed.

(* ---------- ring pop / push ---------- *)
Lemma pop_spec s x s1 :
  ring_pop s = Some (x, s1) ->
  head s < tail s /\ x = slot_at s (head s) /\ s1 = set_head (head s + 1) s.
Proof.
  unfold ring_pop. destruct (tail s >? head s) eqn:E; [| discriminate].
  intro H. inversion H. subst. split; [lia | split; reflexivity].
Qed.

Lemma ring_pop_inv s x s1 :
  ring_pop s = Some (x, s1) -> RingInv s ->
  RingInv s1 /\ pooled s x /\ ~ pooled s1 x /\ ~ heldx s1 x /\ (x < nstreams s1)%nat /\
  (forall y, pooled s y <-> (y = x \/ pooled s1 y)).
Proof.
  intros Hp R. apply pop_spec in Hp. destruct Hp as (Hlt & Hx & ->). subst x.
  pose proof R as [A B C D E F G].
  assert (Hin : in_ring s (head s)) by (unfold in_ring; lia).
  split; [| split; [| split; [| split; [| split]]]].
  - constructor; unfold in_ring, slot_at, heldx in *; cbn [set_head head tail cap slots held nstreams]; auto; try lia.
    + intros i j Hi Hj. apply C; lia.
    + intros i Hi. apply E; lia.
    + intros i Hi. apply F; lia.
  - exists (head s). split; [exact Hin | reflexivity].
  - intros [i [Hi Ei]]. cbn [set_head head tail cap slots] in *.
    assert (i = head s). { apply C; unfold in_ring; try lia. exact Ei. }
    lia.
  - unfold heldx. cbn [set_head held]. apply E. exact Hin.
  - cbn [set_head nstreams]. apply F. exact Hin.
  - intro y. unfold pooled. cbn [set_head head tail cap slots]. split.
    + intros [i [Hi Ei]]. destruct (Z.eq_dec i (head s)) as [->|N].
      * left. symmetry. exact Ei.
      * right. exists i. split; [lia | exact Ei].
    + intros [->|[i [Hi Ei]]].
      * exists (head s). split; [lia | reflexivity].
      * exists i. split; [lia | exact Ei].
Qed.

Lemma push_spec x s s2 :
  ring_push x s = Some s2 ->
  tail s - head s < cap s /\
  s2 = {| fx := fx s; fy := fy s; prep := prep s; cap := cap s; slots := updz (slots s) (tail s mod cap s) x; head := head s; tail := tail s + 1;
          streams := streams s; nstreams := nstreams s;
          sessions := sessions s; cur := cur s; nsess := nsess s; held := held s |}.
Proof.
  unfold ring_push. destruct (tail s - head s <? cap s) eqn:E; [| discriminate].
  intro H. inversion H. split; [lia | reflexivity].
Qed.

Lemma ring_push_inv x s s2 :
  ring_push x s = Some s2 -> RingInv s -> ~ pooled s x -> ~ heldx s x -> (x < nstreams s)%nat ->
  RingInv s2 /\ (forall y, pooled s2 y <-> (y = x \/ pooled s y)).
Proof.
  intros Hp R Np Nh Hf. apply push_spec in Hp. destruct Hp as (Hlt & ->).
  pose proof R as [A B C D E F G].
  assert (Hold : forall i, in_ring s i -> updz (slots s) (tail s mod cap s) x (i mod cap s) = slot_at s i).
  { intros i Hi. unfold updz, in_ring in *. destruct (i mod cap s =? tail s mod cap s) eqn:Q; [| reflexivity].
    apply Z.eqb_eq in Q. exfalso. apply (mod_neq i (tail s) (cap s)); [lia | exact Q]. }
  assert (Hnew : updz (slots s) (tail s mod cap s) x (tail s mod cap s) = x).
  { unfold updz. rewrite Z.eqb_refl. reflexivity. }
  assert (Hcase : forall i, head s <= i < tail s + 1 -> (i = tail s \/ in_ring s i)) by (unfold in_ring; intros; lia).
  split.
  - constructor; unfold in_ring, slot_at, heldx in *; cbn [head tail cap slots held nstreams]; auto; try lia.
    + intros i j Hi Hj. destruct (Hcase i Hi) as [->|Hi']; destruct (Hcase j Hj) as [->|Hj']; auto;
        rewrite ?Hnew, ?(Hold _ Hi'), ?(Hold _ Hj').
      * intro Q. exfalso. apply Np. exists j. split; [exact Hj' | symmetry; exact Q].
      * intro Q. exfalso. apply Np. exists i. split; [exact Hi' | exact Q].
      * apply C; assumption.
    + intros i Hi. destruct (Hcase i Hi) as [->|Hi']; rewrite ?Hnew, ?(Hold _ Hi'); auto.
    + intros i Hi. destruct (Hcase i Hi) as [->|Hi']; rewrite ?Hnew, ?(Hold _ Hi'); auto.
  - intro y. unfold pooled. cbn [head tail cap slots]. split.
    + intros [i [Hi Ei]]. destruct (Hcase i Hi) as [->|Hi'].
      * left. rewrite Hnew in Ei. symmetry. exact Ei.
      * right. exists i. split; [exact Hi' | rewrite (Hold _ Hi') in Ei; exact Ei].
    + intros [->|[i [Hi Ei]]].
      * exists (tail s). split; [lia | exact Hnew].
      * exists i. split; [lia | rewrite (Hold i Hi); exact Ei].
Qed.

(* ---------- held list ---------- *)
Lemma NoDup_app_single {A} (l : list A) x : NoDup l -> ~ In x l -> NoDup (l ++ [x]).
Proof.
  induction l as [|a l IH]; intros Hn Hx; cbn.
  - constructor; [intros [] | constructor].
  - inversion Hn; subst. constructor.
    + rewrite in_app_iff. cbn. intros [H|[H|[]]]; [auto | subst; apply Hx; left; reflexivity].
    + apply IH; [assumption | intro H; apply Hx; right; exact H].
Qed.

Lemma ring_add_held c x s :
  RingInv s -> ~ pooled s x -> ~ heldx s x -> (x < nstreams s)%nat -> RingInv (add_held c x s).
Proof.
  intros [A B C D E F G HP] Np Nh Hf.
  constructor; unfold in_ring, slot_at, heldx, add_held in *; cbn [set_held head tail cap slots held nstreams prep]; auto.
  4:{ intros y Hy. rewrite map_app, in_app_iff. left. apply HP. exact Hy. }
  - rewrite map_app. cbn [map snd]. apply NoDup_app_single; assumption.
  - intros i Hi. rewrite map_app, in_app_iff. cbn [map snd In]. intros [H|[H|[]]].
    + apply (E i Hi H).
    + apply Np. exists i. split; [exact Hi | symmetry; exact H].
  - intros y. rewrite map_app, in_app_iff. cbn [map snd In]. intros [H|[H|[]]]; [auto | subst; exact Hf].
Qed.

Lemma nodup_snd_unique {A B} (l : list (A * B)) a b x :
  NoDup (map snd l) -> In (a, x) l -> In (b, x) l -> a = b.
Proof.
  induction l as [|[p q] l IH]; cbn [map snd In]; intros Hn Ha Hb; [contradiction |].
  inversion Hn as [|? ? Hq Hn']; subst.
  destruct Ha as [Ha|Ha]; destruct Hb as [Hb|Hb].
  - congruence.
  - inversion Ha; subst. exfalso. apply Hq. apply in_map_iff. exists (b, x). auto.
  - inversion Hb; subst. exfalso. apply Hq. apply in_map_iff. exists (a, x). auto.
  - apply IH; assumption.
Qed.

Lemma nodup_map_filter {A B} (f : A -> B) (g : A -> bool) l : NoDup (map f l) -> NoDup (map f (filter g l)).
Proof.
  induction l as [|a l IH]; cbn [map filter]; intro Hn; [constructor |].
  inversion Hn as [|? ? Hq Hn']; subst. destruct (g a); cbn [map]; [constructor |]; auto.
  intro H. apply Hq. apply in_map_iff in H. destruct H as [y [E Hy]]. apply filter_In in Hy.
  apply in_map_iff. exists y. tauto.
Qed.

Lemma ring_rem_held c x s :
  RingInv s -> holds c x s = true ->
  (~ In x (prep s) -> RingInv (rem_held c x s)) /\ ~ heldx (rem_held c x s) x /\
  (forall y, heldx s y <-> (y = x \/ heldx (rem_held c x s) y)).
Proof.
  intros R Hh. pose proof R as [A B C D E F G HP]. apply holds_in in Hh.
  assert (Hsub : forall y, heldx (rem_held c x s) y -> heldx s y).
  { unfold heldx, rem_held. cbn [set_held held]. intros y H. apply in_map_iff in H. destruct H as [p [Ep Hp]].
    apply filter_In in Hp. apply in_map_iff. exists p. tauto. }
  assert (Hnot : ~ heldx (rem_held c x s) x).
  { unfold heldx, rem_held. cbn [set_held held]. intro H. apply in_map_iff in H. destruct H as [[c' x'] [Ep Hp]].
    cbn [snd] in Ep. subst x'. apply filter_In in Hp. destruct Hp as [Hp Hq].
    assert (c' = c) by (eapply nodup_snd_unique; eauto). subst c'.
    apply negb_true_iff in Hq. assert (pair_eqb (c, x) (c, x) = true) by (apply pair_eqb_true; reflexivity). congruence. }
  assert (Hiff : forall y, heldx s y <-> (y = x \/ heldx (rem_held c x s) y)).
  { intro y. split.
    + intro H. destruct (Nat.eq_dec y x) as [->|N]; [left; reflexivity | right].
      unfold heldx, rem_held in *. cbn [set_held held]. apply in_map_iff in H. destruct H as [[c' y'] [Ep Hp]].
      cbn [snd] in Ep. subst y'. apply in_map_iff. exists (c', y). split; [reflexivity |].
      apply filter_In. split; [exact Hp |]. apply negb_true_iff. destruct (pair_eqb (c, x) (c', y)) eqn:Q; [| reflexivity].
      apply pair_eqb_true in Q. inversion Q. congruence.
    + intros [->|H]; [| apply Hsub; exact H]. unfold heldx. apply in_map_iff. exists (c, x). auto. }
  split; [| split; [exact Hnot | exact Hiff]].
  intro Np. constructor; unfold in_ring, slot_at in *; cbn [rem_held set_held head tail cap slots nstreams prep]; auto.
  - unfold rem_held. cbn [set_held held]. apply nodup_map_filter. exact D.
  - intros i Hi H. apply (E i Hi). apply Hsub. exact H.
  - intros y Hy. destruct (proj1 (Hiff y) (HP y Hy)) as [->|H]; [contradiction | exact H].
Qed.

(* the last step of PutBack: the stream leaves the caller's hands and the set of prepared streams together *)
Definition unprep (x : nat) (s : st) : st := set_prep (filter (fun y => negb (Nat.eqb y x)) (prep s)) s.
Lemma ring_unprep x s : RingInv s -> RingInv (unprep x s) /\ ~ In x (prep (unprep x s)).
Proof.
  intros [A B C D E F G HP]. split.
  - constructor; unfold in_ring, slot_at, heldx in *; cbn [unprep set_prep head tail cap slots held nstreams prep]; auto.
    intros y Hy. apply filter_In in Hy. apply HP, Hy.
  - cbn [unprep set_prep prep]. rewrite filter_In. intros [_ H]. rewrite Nat.eqb_refl in H. discriminate.
Qed.

Lemma memn_in x l : memn x l = true <-> In x l.
Proof.
  unfold memn. rewrite existsb_exists. split.
  - intros [y [A B]]. apply Nat.eqb_eq in B. subst. exact A.
  - intro A. exists x. split; [exact A | apply Nat.eqb_refl].
Qed.
Lemma owns_holds c x s : owns c x s = true -> holds c x s = true /\ ~ In x (prep s).
Proof.
  unfold owns. rewrite andb_true_iff. intros [A B]. split; [exact A |]. intro H. apply memn_in in H. rewrite H in B. discriminate.
Qed.

Lemma rem_held_fields c x s :
  cap (rem_held c x s) = cap s /\ slots (rem_held c x s) = slots s /\ head (rem_held c x s) = head s /\
  tail (rem_held c x s) = tail s /\ nstreams (rem_held c x s) = nstreams s /\ streams (rem_held c x s) = streams s /\
  sessions (rem_held c x s) = sessions s /\ cur (rem_held c x s) = cur s /\ nsess (rem_held c x s) = nsess s /\
  fx (rem_held c x s) = fx s.
Proof. repeat split; reflexivity. Qed.

(* ---------- OpenStream ---------- *)
Lemma open_stream_base c s s' x :
  open_stream c s = (s', RGot x) -> Base s ->
  Base s' /\ x = nstreams s /\ shut (sessions s (cur s)) = false.
Proof.
  unfold open_stream. intros H [R T].
  destruct (shut (sessions s (cur s))) eqn:Hs; [inversion H |].
  destruct (unhealthy (sessions s (cur s))) eqn:Hu; [inversion H |].
  inversion H; subst; clear H. split; [| split; reflexivity].
  set (x := nstreams s).
  set (s1 := {| fx := fx s; fy := fy s; prep := prep s; cap := cap s; slots := slots s; head := head s; tail := tail s;
                streams := updn (streams s) x (new_stream (cur s)); nstreams := S x;
                sessions := updn (sessions s) (cur s) (with_table (table (sessions s (cur s)) ++ [x]) (sessions s (cur s)));
                cur := cur s; nsess := nsess s; held := held s |}).
  pose proof R as [A B C D E F G]. pose proof T as [TA TB TC TD].
  assert (Ex : x = nstreams s) by reflexivity.
  assert (R1 : RingInv s1).
  { constructor; unfold in_ring, slot_at, heldx in *; cbn [s1 head tail cap slots held nstreams]; auto.
    - intros i Hi. specialize (F i Hi). lia.
    - intros y Hy. specialize (G y Hy). lia. }
  assert (Np : ~ pooled s1 x).
  { intros [i [Hi Ei]]. cbn [s1 head tail cap slots] in *. specialize (F i Hi). unfold slot_at in F. rewrite Ei in F. unfold x in F. lia. }
  assert (Nh : ~ heldx s1 x).
  { unfold heldx. cbn [s1 held]. intro H. specialize (G x H). unfold x in G. lia. }
  split.
  - apply ring_add_held; auto; cbn [s1 nstreams]; lia.
  - eapply tab_frame with (s := s1); try reflexivity.
    assert (Nx : ~ In x (table (sessions s (cur s)))).
    { intro H. apply TC in H. unfold x in H. lia. }
    constructor; cbn [s1 streams nstreams sessions cur nsess]; auto.
    + intros y Hy. destruct (Nat.eq_dec y x) as [->|N]; [rewrite updn_eq; cbn [new_stream ssess]; exact TA |].
      rewrite updn_neq by exact N. apply TB. unfold x in N. lia.
    + intros k y. destruct (Nat.eq_dec k (cur s)) as [->|Nk].
      * rewrite updn_eq. cbn [with_table table]. rewrite in_app_iff. cbn [In]. rewrite TC.
        destruct (Nat.eq_dec y x) as [->|N].
        -- rewrite updn_eq. cbn [new_stream ssess sst]. split; [intros _ | intros _; right; left; reflexivity].
           split; [lia | split; [reflexivity | discriminate]].
        -- rewrite updn_neq by exact N. unfold x in N. split.
           ++ intros [H|[H|[]]]; [| exfalso; lia]. split; [lia | tauto].
           ++ intros (H1 & H2 & H3). left. split; [lia | tauto].
      * rewrite updn_neq by exact Nk. rewrite TC.
        destruct (Nat.eq_dec y x) as [->|N].
        -- rewrite updn_eq. cbn [new_stream ssess sst]. unfold x. split; [intros (H1 & _); lia | intros (_ & H2 & _); congruence].
        -- rewrite updn_neq by exact N. unfold x in N. split; intros (H1 & H2); split; try tauto; lia.
    + intros k. destruct (Nat.eq_dec k (cur s)) as [->|Nk].
      * rewrite updn_eq. cbn [with_table table]. apply NoDup_app_single; [apply TD | exact Nx].
      * rewrite updn_neq by exact Nk. apply TD.
Qed.

(* ---------- the pop loop of getOrOpenStream ---------- *)
Lemma get_loop_ind (P : st -> Prop) (Q : st -> nat -> Prop) :
  (forall s x s1, P s -> ring_pop s = Some (x, s1) ->
     (negb (shut (sessions s1 (ssess (streams s1 x)))) && is_open (streams s1 x) = true -> Q s1 x) /\
     (negb (shut (sessions s1 (ssess (streams s1 x)))) && is_open (streams s1 x) = false -> P (discard x s1))) ->
  forall fuel s s1 r, P s -> get_loop fuel s = (s1, r) -> match r with Some x => Q s1 x | None => P s1 end.
Proof.
  intros Hstep fuel. induction fuel as [|f IH]; intros s s1 r HP H; cbn [get_loop] in H.
  - inversion H; subst. exact HP.
  - destruct (ring_pop s) as [[x s0]|] eqn:Ep.
    + destruct (Hstep s x s0 HP Ep) as [H1 H2].
      destruct (negb (shut (sessions s0 (ssess (streams s0 x)))) && is_open (streams s0 x)) eqn:Ec.
      * inversion H; subst. apply H1. reflexivity.
      * apply (IH _ _ _ (H2 eq_refl) H).
    + inversion H; subst. exact HP.
Qed.

Lemma discard_base x s : Base s -> Base (discard x s).
Proof. intro B. unfold discard. destruct (fx s); [apply base_close_stream |]; exact B. Qed.

Lemma discard_ring s x :
  cap (discard x s) = cap s /\ slots (discard x s) = slots s /\ head (discard x s) = head s /\
  tail (discard x s) = tail s /\ held (discard x s) = held s /\ nstreams (discard x s) = nstreams s /\
  fx (discard x s) = fx s /\ cur (discard x s) = cur s /\ nsess (discard x s) = nsess s /\
  fy (discard x s) = fy s /\ prep (discard x s) = prep s.
Proof. pose proof (close_stream_ring s x) as H. unfold discard. destruct (fx s) eqn:E; [exact H | repeat split; try reflexivity; exact E]. Qed.

Definition got_ok (s : st) (x : nat) : Prop :=
  Base s /\ ~ pooled s x /\ ~ heldx s x /\ (x < nstreams s)%nat /\
  sst (streams s x) = Opened /\ shut (sessions s (ssess (streams s x))) = false.

Lemma is_open_true v : is_open v = true <-> sst v = Opened.
Proof. unfold is_open. destruct (sst v); cbn; split; congruence. Qed.

Lemma get_loop_base fuel s s1 r :
  Base s -> get_loop fuel s = (s1, r) -> match r with Some x => got_ok s1 x | None => Base s1 end.
Proof.
  apply (get_loop_ind Base got_ok). clear. intros s x s1 [R T] Hp.
  destruct (ring_pop_inv s x s1 Hp R) as (R1 & _ & Np & Nh & Hf & _).
  assert (T1 : TabInv s1).
  { apply pop_spec in Hp. destruct Hp as (_ & _ & ->). eapply tab_frame; [.. | exact T]; reflexivity. }
  split.
  - intro Hc. apply andb_true_iff in Hc. destruct Hc as [Ha Hb].
    apply negb_true_iff in Ha. apply is_open_true in Hb.
    exact (conj (conj R1 T1) (conj Np (conj Nh (conj Hf (conj Hb Ha))))).
  - intros _. apply discard_base. split; assumption.
Qed.

(* ---------- every label preserves the base invariant ---------- *)
Lemma base_add_held c x s : got_ok s x -> Base (add_held c x s).
Proof.
  intros ([R T] & Np & Nh & Hf & _). split.
  - apply ring_add_held; assumption.
  - eapply tab_frame; [.. | exact T]; reflexivity.
Qed.

Lemma do_get_base c s : Base s -> Base (fst (do_get c s)).
Proof.
  intro B. unfold do_get. destruct (unhealthy (sessions s (cur s))); [exact B |].
  destruct (get_loop (Z.to_nat (tail s - head s)) s) as [s1 [x|]] eqn:E.
  - pose proof (get_loop_base _ _ _ _ B E) as G. cbn [fst]. apply base_add_held. exact G.
  - pose proof (get_loop_base _ _ _ _ B E) as B1. cbn in B1.
    destruct (open_stream c s1) as [s2 r] eqn:Eo. cbn [fst].
    destruct r; try (unfold open_stream in Eo;
      destruct (shut (sessions s1 (cur s1))); [inversion Eo; subst; exact B1 |];
      destruct (unhealthy (sessions s1 (cur s1))); inversion Eo; subst; exact B1).
    apply (open_stream_base c s1 s2 x Eo B1).
Qed.

Lemma recycled_base v : ssess (recycled_for_reuse v) = ssess v /\ sst (recycled_for_reuse v) = sst v.
Proof.
  unfold recycled_for_reuse. destruct (rbuf v) as [|r [|r' l]]; try (split; reflexivity).
  destruct (r =? 0); split; reflexivity.
Qed.

Lemma do_put_prepare_base c x s : Base s -> Base (fst (do_put_prepare c x s)).
Proof.
  intros [R T]. unfold do_put_prepare. destruct (owns c x s) eqn:Ho; cbn [negb fst]; [| split; assumption].
  destruct (owns_holds _ _ _ Ho) as [Hh Hnp].
  destruct (ring_rem_held c x s R Hh) as (R0 & Nh & Hsub). specialize (R0 Hnp).
  assert (T0 : TabInv (rem_held c x s)) by (eapply tab_frame; [.. | exact T]; reflexivity).
  destruct (infb (streams s x)); [apply base_close_stream; split; assumption |].
  destruct (resettable (fy s) (streams s x)); cbn [negb fst]; [| apply base_close_stream; split; assumption].
  destruct (recycled_base (streams s x)) as [E1 E2].
  assert (B1 : Base (set_stream x (recycled_for_reuse (streams s x)) s)).
  { apply base_set_stream; [exact E1 | rewrite E2; tauto | split; assumption]. }
  destruct B1 as [R1 T1]. split; [| eapply tab_frame; [.. | exact T1]; reflexivity].
  destruct R1 as [A B C D E F G HP].
  constructor; unfold in_ring, slot_at, heldx in *; cbn [set_prep set_stream head tail cap slots held nstreams prep] in *; auto.
  intros y [<-|Hy]; [eapply holds_heldx; exact Hh | apply HP; exact Hy].
Qed.

Lemma push_prelude c x s :
  RingInv s -> holds c x s = true ->
  let s1 := set_prep (filter (fun y => negb (Nat.eqb y x)) (prep s)) (rem_held c x s) in
  RingInv s1 /\ ~ heldx s1 x /\ ~ pooled s1 x /\ (x < nstreams s1)%nat /\ ~ In x (prep s1) /\
  (forall y, heldx s y <-> (y = x \/ heldx s1 y)).
Proof.
  intros R Hh s1. destruct (ring_unprep x s R) as [Ru Nu].
  assert (Hh' : holds c x (unprep x s) = true) by exact Hh.
  destruct (ring_rem_held c x (unprep x s) Ru Hh') as (R0 & Nh & Hsub). specialize (R0 Nu).
  change (rem_held c x (unprep x s)) with s1 in *.
  split; [exact R0 | split; [exact Nh | split; [| split; [| split; [exact Nu | exact Hsub]]]]].
  - assert (P : pooled s1 x <-> pooled s x) by (apply pooled_frame; reflexivity). rewrite P.
    apply held_not_pooled; [exact R | eapply holds_heldx; exact Hh].
  - apply (r_hfresh s R). eapply holds_heldx; exact Hh.
Qed.

Lemma do_put_push_base c x s : Base s -> Base (fst (do_put_push c x s)).
Proof.
  intros [R T]. unfold do_put_push. destruct (holds c x s && memn x (prep s)) eqn:Hc; cbn [negb fst]; [| split; assumption].
  apply andb_true_iff in Hc. destruct Hc as [Hh _].
  destruct (push_prelude c x s R Hh) as (R1 & Nh & Np & Hf & _ & _).
  set (s1 := set_prep (filter (fun y => negb (Nat.eqb y x)) (prep s)) (rem_held c x s)) in *.
  assert (T1 : TabInv s1) by (eapply tab_frame; [.. | exact T]; reflexivity).
  destruct (ring_push x s1) as [s2|] eqn:Ep; cbn [fst]; [| apply base_close_stream; split; assumption].
  split.
  - apply (proj1 (ring_push_inv x s1 s2 Ep R1 Np Nh Hf)).
  - apply push_spec in Ep. destruct Ep as (_ & ->). eapply tab_frame; [.. | exact T1]; reflexivity.
Qed.

Lemma do_cleanup_base k s : Base s -> Base (do_cleanup k s).
Proof.
  intros [R T]. unfold do_cleanup.
  destruct (shut (sessions s k) && negb (cleaned (sessions s k))) eqn:E; [| split; assumption].
  split; [eapply ring_frame; [.. | exact R]; reflexivity |].
  destruct T as [TA TB TC TD]. constructor; cbn [streams nstreams sessions cur nsess]; auto.
  - intros y Hy. destruct (existsb (Nat.eqb y) (table (sessions s k))); cbn [closed_of ssess]; auto.
  - intros k' y. destruct (Nat.eq_dec k' k) as [->|Nk].
    + rewrite updn_eq. cbn [table In]. split; [tauto |].
      intros (H1 & H2 & H3). destruct (existsb (Nat.eqb y) (table (sessions s k))) eqn:Q.
      * cbn [closed_of sst] in H3. congruence.
      * assert (In y (table (sessions s k))) by (apply TC; tauto).
        apply existsb_eqb_in in H. congruence.
    + rewrite updn_neq by exact Nk. rewrite TC.
      destruct (existsb (Nat.eqb y) (table (sessions s k))) eqn:Q.
      * apply existsb_eqb_in in Q. apply TC in Q. cbn [closed_of ssess sst]. intuition congruence.
      * tauto.
  - intros k'. destruct (Nat.eq_dec k' k) as [->|Nk]; [rewrite updn_eq; cbn [table]; constructor | rewrite updn_neq by exact Nk; apply TD].
Qed.

Lemma do_rebuild_base s : Base s -> Base (do_rebuild s).
Proof.
  intros [R T]. unfold do_rebuild. destruct (shut (sessions s (cur s))); [| split; assumption].
  split; [eapply ring_frame; [.. | exact R]; reflexivity |].
  destruct T as [TA TB TC TD]. constructor; cbn [streams nstreams sessions cur nsess]; auto.
  - intros y Hy. specialize (TB y Hy). lia.
  - intros k y. destruct (Nat.eq_dec k (nsess s)) as [->|Nk].
    + rewrite updn_eq. cbn [new_session table In]. split; [tauto |]. intros (H1 & H2 & _). specialize (TB y H1). lia.
    + rewrite updn_neq by exact Nk. apply TC.
  - intros k. destruct (Nat.eq_dec k (nsess s)) as [->|Nk]; [rewrite updn_eq; constructor | rewrite updn_neq by exact Nk; apply TD].
Qed.

Lemma do_bg_pop_base s : Base s -> Base (do_bg_pop s).
Proof.
  intros [R T]. unfold do_bg_pop. destruct (shut (sessions s (cur s))); [| split; assumption].
  destruct (ring_pop s) as [[x s1]|] eqn:Ep; [| split; assumption].
  apply base_close_stream. destruct (ring_pop_inv s x s1 Ep R) as (R1 & _). split; [exact R1 |].
  apply pop_spec in Ep. destruct Ep as (_ & _ & ->). eapply tab_frame; [.. | exact T]; reflexivity.
Qed.

Ltac stream_upd := apply base_set_stream; cbn [ssess sst]; solve [reflexivity | tauto | intuition congruence].

Lemma step_base s l : Base s -> Base (fst (step s l)).
Proof.
  intro B. destruct l; cbn [step].
  - apply do_get_base; exact B.
  - apply do_put_prepare_base; exact B.
  - apply do_put_push_base; exact B.
  - destruct (owns c x s && (0 <? n)); cbn [fst]; [| exact B]. unfold do_write. stream_upd.
  - destruct (owns c x s); cbn [fst]; [| exact B]. unfold do_flush.
    destruct (sumz (sbuf (streams s x)) =? 0); [exact B |].
    destruct (is_open (streams s x)) eqn:Ho; cbn [negb]; [| stream_upd].
    destruct (sheap (streams s x) || infb (streams s x)); [apply base_set_session; [reflexivity |] |]; stream_upd.
  - destruct (owns c x s); cbn [fst]; [| exact B]. unfold do_read. stream_upd.
  - destruct (owns c x s); cbn [fst]; [| exact B]. unfold do_release.
    destruct (rbuf (streams s x)) as [|r [|r' t]]; try exact B. destruct (r =? 0); [stream_upd | exact B].
  - destruct (owns c x s); cbn [fst]; [| exact B]. apply base_close_stream; exact B.
  - cbn [fst]. unfold do_peer_data. destruct (x <? nstreams s)%nat; cbn [negb]; [| exact B].
    destruct fb.
    + assert (B1 : Base (set_session (ssess (streams s x)) (with_unhealthy true (sessions s (ssess (streams s x)))) s))
        by (apply base_set_session; [reflexivity | exact B]).
      destruct (in_table x s); [| exact B1]. apply base_set_stream; cbn [ssess sst set_session streams]; solve [reflexivity | tauto | exact B1].
    + destruct (in_table x s); [| exact B]. stream_upd.
  - cbn [fst]. unfold do_peer_close. destruct ((x <? nstreams s)%nat && is_open (streams s x)) eqn:E; [| exact B].
    apply andb_true_iff in E. destruct E as [_ E]. apply is_open_true in E.
    apply base_set_stream; cbn [ssess sst]; [reflexivity | rewrite E; split; discriminate | exact B].
  - cbn [fst]. apply base_set_session; [reflexivity | exact B].
  - cbn [fst]. unfold do_sess_loss. apply base_set_session; [reflexivity | exact B].
  - cbn [fst]. apply do_cleanup_base; exact B.
  - cbn [fst]. apply do_bg_pop_base; exact B.
  - cbn [fst]. apply do_rebuild_base; exact B.
Qed.

Lemma init_base f g c : 0 <= c -> Base (init f g c).
Proof.
  intro Hc. split.
  - constructor; unfold in_ring, slot_at, heldx; cbn [init head tail cap slots held nstreams map]; try lia;
      try (intros; lia); try tauto; try constructor.
    intros x [].
  - constructor; cbn [init streams nstreams sessions cur nsess new_session table In]; try lia; try (intros; lia).
    all: try (intros k x; split; [tauto | intros (H & _); lia]).
    all: intros; constructor.
Qed.

Lemma run_base s h : Base s -> Base (run s h).
Proof. revert s. induction h as [|l t IH]; intros s B; cbn [run]; [exact B | apply IH, step_base, B]. Qed.

(* ================= properties of the pooled streams ================= *)
Lemma close_stream_self s x :
  streams (close_stream x s) x = closed_of (streams s x) \/ streams (close_stream x s) x = streams s x.
Proof.
  unfold close_stream. destruct (sst (streams s x)); cbn [set_session set_stream streams]; auto;
  rewrite updn_eq; left; reflexivity.
Qed.

Lemma close_stream_pooled s x y : pooled (close_stream x s) y <-> pooled s y.
Proof. destruct (close_stream_ring s x) as (A & B & C & D & _). apply pooled_frame; assumption. Qed.

Definition with_half (v : stream) : stream :=
  {| sst := HalfClosed; ssess := ssess v; rbuf := rbuf v; sbuf := sbuf v; sheap := sheap v; pend := pend v; infb := infb v |}.
Definition with_pend (n : Z) (fb : bool) (v : stream) : stream :=
  {| sst := sst v; ssess := ssess v; rbuf := rbuf v; sbuf := sbuf v; sheap := sheap v; pend := pend v ++ [(n, fb)]; infb := infb v |}.

Definition parked (s : st) (x : nat) : Prop := pooled s x \/ In x (prep s).

Lemma close_stream_parked s x y : parked (close_stream x s) y <-> parked s y.
Proof.
  unfold parked. rewrite close_stream_pooled.
  rewrite (proj2 (proj2 (proj2 (proj2 (proj2 (proj2 (proj2 (proj2 (proj2 (proj2 (close_stream_ring s x))))))))))). tauto.
Qed.

Lemma owns_not_parked c x s : RingInv s -> owns c x s = true -> ~ parked s x.
Proof.
  intros R Ho [H|H]; destruct (owns_holds _ _ _ Ho) as [Hh Hnp]; [| contradiction].
  apply (held_not_pooled s x R); [eapply holds_heldx; exact Hh | exact H].
Qed.

Section PoolProp.
  Variable P : stream -> Prop.
  Hypothesis P_closed : forall v, P v -> P (closed_of v).

  Definition PoolP (s : st) : Prop := forall x, parked s x -> P (streams s x).

  (* what the environment / the callers must respect for P to stay true of the parked streams
     (parked = in the ring, or prepared by a PutBack that has not pushed yet) *)
  Definition guardP (s : st) (l : label) : Prop :=
    match l with
    | PutPrepare c x => owns c x s = true -> resettable (fy s) (streams s x) = true -> infb (streams s x) = false ->
                        P (recycled_for_reuse (streams s x))
    | PeerData x n fb => parked s x -> P (streams s x) -> P (with_pend n fb (streams s x))
    | PeerClose x => parked s x -> P (streams s x) -> sst (streams s x) = Opened -> P (with_half (streams s x))
    | _ => True
    end.

  Lemma poolP_close_stream s x : PoolP s -> PoolP (close_stream x s).
  Proof.
    intros H y Hy. apply (proj1 (close_stream_parked s x y)) in Hy. destruct (Nat.eq_dec y x) as [->|N].
    - destruct (close_stream_self s x) as [E|E]; rewrite E; [apply P_closed |]; apply H; exact Hy.
    - rewrite close_stream_other by exact N. apply H; exact Hy.
  Qed.

  Lemma poolP_set_stream_np s x v : ~ parked s x -> PoolP s -> PoolP (set_stream x v s).
  Proof.
    intros Np H y Hy. assert (Hy' : parked s y) by exact Hy.
    cbn [set_stream streams]. rewrite updn_neq; [apply H; exact Hy' | intro; subst; tauto].
  Qed.

  Lemma poolP_set_stream_p s x v : P v -> PoolP s -> PoolP (set_stream x v s).
  Proof.
    intros Pv H y Hy. assert (Hy' : parked s y) by exact Hy.
    cbn [set_stream streams]. destruct (Nat.eq_dec y x) as [->|N]; [rewrite updn_eq; exact Pv | rewrite updn_neq by exact N; apply H; exact Hy'].
  Qed.

  Lemma poolP_set_session s k v : PoolP s -> PoolP (set_session k v s).
  Proof. intros H y Hy. apply (H y Hy). Qed.

  Lemma poolP_discard s x : PoolP s -> PoolP (discard x s).
  Proof. unfold discard. destruct (fx s); [apply poolP_close_stream | auto]. Qed.

  Lemma poolP_pop s x s1 : ring_pop s = Some (x, s1) -> RingInv s -> PoolP s -> PoolP s1 /\ P (streams s1 x).
  Proof.
    intros Hp R H. destruct (ring_pop_inv s x s1 Hp R) as (_ & Px & _ & _ & _ & Hiff).
    apply pop_spec in Hp. destruct Hp as (_ & _ & ->). split.
    - intros y [Hy|Hy]; apply (H y); [left; apply Hiff; right; exact Hy | right; exact Hy].
    - apply (H x). left. exact Px.
  Qed.

  Lemma get_loop_poolP fuel s s1 r :
    Base s -> PoolP s -> get_loop fuel s = (s1, r) ->
    PoolP s1 /\ match r with Some x => P (streams s1 x) | None => True end.
  Proof.
    intros B H E.
    pose proof (get_loop_ind (fun s => Base s /\ PoolP s) (fun s x => PoolP s /\ P (streams s x))) as G.
    specialize (G ltac:(
      intros s0 x s2 [[R T] HP] Hp; destruct (poolP_pop s0 x s2 Hp R HP) as [H1 H2];
      split; [intros _; split; assumption |];
      intros _; split; [| apply poolP_discard; exact H1];
      apply discard_base; split; [apply (ring_pop_inv s0 x s2 Hp R) |];
      apply pop_spec in Hp; destruct Hp as (_ & _ & ->); eapply tab_frame; [.. | exact T]; reflexivity) fuel s s1 r (conj B H) E).
    destruct r; [exact G | split; [apply G | exact I]].
  Qed.

  Lemma step_poolP s l : Base s -> guardP s l -> PoolP s -> PoolP (fst (step s l)).
  Proof.
    intros B Hg H. pose proof B as [R T]. destruct l; cbn [step].
    - (* Get *)
      unfold do_get. destruct (unhealthy (sessions s (cur s))); [exact H |].
      destruct (get_loop (Z.to_nat (tail s - head s)) s) as [s1 [x|]] eqn:E.
      + destruct (get_loop_poolP _ _ _ _ B H E) as [H1 _]. cbn [fst]. intros y Hy. apply (H1 y Hy).
      + destruct (get_loop_poolP _ _ _ _ B H E) as [H1 _].
        pose proof (get_loop_base _ _ _ _ B E) as B1. cbn in B1.
        unfold open_stream. destruct (shut (sessions s1 (cur s1))); [exact H1 |].
        destruct (unhealthy (sessions s1 (cur s1))); [exact H1 |]. cbn [fst].
        intros y Hy. assert (Hy' : parked s1 y) by exact Hy.
        cbn [add_held set_held streams]. rewrite updn_neq; [apply H1; exact Hy' |].
        destruct B1 as [R1 _]. destruct Hy' as [[i [Hi Ei]]|Hp].
        * pose proof (r_rfresh s1 R1 i Hi) as F. unfold slot_at in F. rewrite Ei in F. lia.
        * pose proof (r_hfresh s1 R1 y (r_prep s1 R1 y Hp)). lia.
    - (* PutPrepare *)
      unfold do_put_prepare. destruct (owns c x s) eqn:Ho; cbn [negb fst]; [| exact H].
      assert (H0 : PoolP (rem_held c x s)) by (intros y Hy; apply (H y Hy)).
      destruct (infb (streams s x)) eqn:Hf; [apply poolP_close_stream; exact H0 |].
      destruct (resettable (fy s) (streams s x)) eqn:Hr; cbn [negb fst]; [| apply poolP_close_stream; exact H0].
      assert (Pv : P (recycled_for_reuse (streams s x))) by (apply Hg; assumption).
      intros y Hy. cbn [set_prep set_stream streams]. destruct (Nat.eq_dec y x) as [->|N]; [rewrite updn_eq; exact Pv |].
      rewrite updn_neq by exact N. apply H. destruct Hy as [Hy|Hy]; [left; exact Hy | right].
      cbn [set_prep prep In] in Hy. destruct Hy as [Hy|Hy]; [congruence | exact Hy].
    - (* PutPush *)
      unfold do_put_push. destruct (holds c x s && memn x (prep s)) eqn:Hc; cbn [negb fst]; [| exact H].
      apply andb_true_iff in Hc. destruct Hc as [Hh Hm]. apply memn_in in Hm.
      destruct (push_prelude c x s R Hh) as (R1 & Nh & Np & Hf & _ & _).
      set (s1 := set_prep (filter (fun y => negb (Nat.eqb y x)) (prep s)) (rem_held c x s)) in *.
      assert (Px : P (streams s x)) by (apply H; right; exact Hm).
      assert (H1 : forall y, parked s1 y -> P (streams s1 y)).
      { intros y [Hy|Hy]; apply (H y); [left; exact Hy | right]. cbn [s1 set_prep prep] in Hy. apply filter_In in Hy. apply Hy. }
      destruct (ring_push x s1) as [s2|] eqn:Ep; cbn [fst]; [| apply poolP_close_stream; exact H1].
      destruct (ring_push_inv x s1 s2 Ep R1 Np Nh Hf) as (_ & Hiff).
      apply push_spec in Ep. destruct Ep as (_ & ->). intros y [Hy|Hy]; cbn [streams].
      + apply Hiff in Hy. destruct Hy as [->|Hy]; [exact Px | apply H1; left; exact Hy].
      + apply H1. right. exact Hy.
    - destruct (owns c x s && (0 <? n)) eqn:Hh; cbn [fst]; [| exact H]. apply andb_true_iff in Hh. destruct Hh as [Hh _].
      apply poolP_set_stream_np; [apply (owns_not_parked c); assumption | exact H].
    - destruct (owns c x s) eqn:Hh; cbn [fst]; [| exact H].
      assert (Np : ~ parked s x) by (apply (owns_not_parked c); assumption).
      unfold do_flush. destruct (sumz (sbuf (streams s x)) =? 0); [exact H |].
      destruct (is_open (streams s x)); cbn [negb]; [| apply poolP_set_stream_np; assumption].
      destruct (sheap (streams s x) || infb (streams s x)); [apply poolP_set_session |]; apply poolP_set_stream_np; assumption.
    - destruct (owns c x s) eqn:Hh; cbn [fst]; [| exact H].
      apply poolP_set_stream_np; [apply (owns_not_parked c); assumption | exact H].
    - destruct (owns c x s) eqn:Hh; cbn [fst]; [| exact H].
      assert (Np : ~ parked s x) by (apply (owns_not_parked c); assumption).
      unfold do_release. destruct (rbuf (streams s x)) as [|r [|r' t]]; try exact H.
      destruct (r =? 0); [apply poolP_set_stream_np; assumption | exact H].
    - destruct (owns c x s) eqn:Hh; cbn [fst]; [| exact H]. apply poolP_close_stream; exact H.
    - (* PeerData *)
      cbn [fst]. unfold do_peer_data. destruct (x <? nstreams s)%nat; cbn [negb]; [| exact H].
      assert (Hx : PoolP (set_stream x (with_pend n fb (streams s x)) s)).
      { intros y Hy. assert (Hy' : parked s y) by exact Hy. cbn [set_stream streams].
        destruct (Nat.eq_dec y x) as [->|N]; [rewrite updn_eq; apply Hg; [exact Hy' | apply H; exact Hy'] | rewrite updn_neq by exact N; apply H; exact Hy']. }
      destruct fb; destruct (in_table x s); try exact H; try exact Hx; intros y Hy; first [apply (Hx y Hy) | apply (H y Hy)].
    - (* PeerClose *)
      cbn [fst]. unfold do_peer_close. destruct ((x <? nstreams s)%nat && is_open (streams s x)) eqn:E; [| exact H].
      apply andb_true_iff in E. destruct E as [_ E]. apply is_open_true in E.
      intros y Hy. assert (Hy' : parked s y) by exact Hy. cbn [set_stream streams].
      destruct (Nat.eq_dec y x) as [->|N]; [rewrite updn_eq; apply Hg; [exact Hy' | apply H; exact Hy' | exact E] | rewrite updn_neq by exact N; apply H; exact Hy'].
    - cbn [fst]. apply poolP_set_session; exact H.
    - cbn [fst]. apply poolP_set_session; exact H.
    - (* SessCleanup *)
      cbn [fst]. unfold do_cleanup. destruct (shut (sessions s k) && negb (cleaned (sessions s k))); [| exact H].
      intros y Hy. assert (Hy' : parked s y) by exact Hy. cbn [streams].
      destruct (existsb (Nat.eqb y) (table (sessions s k))); [apply P_closed |]; apply H; exact Hy'.
    - (* BgPop *)
      cbn [fst]. unfold do_bg_pop. destruct (shut (sessions s (cur s))); [| exact H].
      destruct (ring_pop s) as [[x s1]|] eqn:Ep; [| exact H].
      apply poolP_close_stream. apply (poolP_pop s x s1 Ep R H).
    - cbn [fst]. unfold do_rebuild. destruct (shut (sessions s (cur s))); [| exact H]. intros y Hy. apply (H y Hy).
  Qed.
End PoolProp.

(* ================= histories under a guard ================= *)
Fixpoint guarded (G : st -> label -> Prop) (s : st) (h : list label) : Prop :=
  match h with [] => True | l :: t => G s l /\ guarded G (fst (step s l)) t end.

Lemma run_poolP (P : stream -> Prop) (G : st -> label -> Prop) :
  (forall v, P v -> P (closed_of v)) -> (forall s l, G s l -> guardP P s l) ->
  forall h s, Base s -> PoolP P s -> guarded G s h -> PoolP P (run s h).
Proof.
  intros Pc HG h. induction h as [|l t IH]; intros s B H Hg; cbn [run]; [exact H |].
  destruct Hg as [Hl Ht]. apply IH; [apply step_base; exact B | apply step_poolP; auto | exact Ht].
Qed.

Lemma init_poolP P f g c : PoolP P (init f g c).
Proof. intros x [[i [Hi _]]|[]]. cbn [init head tail] in Hi. lia. Qed.

(* ---------- cleanliness ---------- *)
(* "carries no bytes of an earlier use", part 1: the buffers *)
Definition clean_bytes (v : stream) : Prop := sumz (rbuf v) = 0 /\ sumz (sbuf v) = 0 /\ infb v = false.
(* part 2: nothing waiting in pendingData *)
Definition clean_pend (v : stream) : Prop := pend v = [].
Definition clean_stream (v : stream) : Prop :=
  sumz (rbuf v) = 0 /\ pend v = [] /\ sumz (sbuf v) = 0 /\ infb v = false.

(* what part 1 needs from the callers - nothing once reset() rejects unflushed bytes (fy = true):
   a caller gives a stream back only with an empty send buffer *)
Definition bytes_guard (s : st) (l : label) : Prop :=
  match l with
  | PutPrepare c x => fy s = true \/ (owns c x s = true -> sumz (sbuf (streams s x)) = 0)
  | _ => True
  end.
(* what part 2 needs from the peer: it sends nothing to a stream while it is pooled (or on its way into the pool) *)
Definition pend_guard (s : st) (l : label) : Prop :=
  match l with
  | PeerData x _ _ => ~ parked s x
  | _ => True
  end.

Lemma bytes_closed v : clean_bytes v -> clean_bytes (closed_of v).
Proof. intros (_ & _ & D). unfold clean_bytes. cbn [closed_of rbuf sbuf infb sumz fold_right]. auto. Qed.
Lemma pend_closed v : clean_pend v -> clean_pend (closed_of v).
Proof. intros _. reflexivity. Qed.

Lemma resettable_spec g v : resettable g v = true ->
  sst v = Opened /\ sumz (rbuf v) = 0 /\ pend v = [] /\ (g = true -> sumz (sbuf v) = 0).
Proof.
  unfold resettable. rewrite !andb_true_iff. intros [[[A B] C] D].
  apply is_open_true in A. apply Z.eqb_eq in B. destruct (pend v); [| discriminate].
  repeat split; auto. intro G. subst g. cbn [negb orb] in D. apply Z.eqb_eq in D. exact D.
Qed.

Lemma recycled_sst v : sst (recycled_for_reuse v) = sst v /\ ssess (recycled_for_reuse v) = ssess v /\ infb (recycled_for_reuse v) = false.
Proof.
  unfold recycled_for_reuse. destruct (rbuf v) as [|r [|r' t]]; try (repeat split; reflexivity).
  destruct (r =? 0); repeat split; reflexivity.
Qed.

Lemma bytes_guardP s l : bytes_guard s l -> guardP clean_bytes s l.
Proof.
  destruct l; cbn [bytes_guard guardP]; auto.
  intros Hg Hh Hr Hf. apply resettable_spec in Hr. destruct Hr as (A & B & C & D).
  assert (Hs : sumz (sbuf (streams s x)) = 0) by (destruct Hg as [Hg|Hg]; [apply D, Hg | apply Hg, Hh]).
  unfold clean_bytes, recycled_for_reuse. destruct (rbuf (streams s x)) as [|r [|r' t]] eqn:Er;
    try (cbn [rbuf sbuf infb]; rewrite ?Er; auto).
  destruct (r =? 0); cbn [rbuf sbuf infb sumz fold_right]; rewrite ?Er; auto.
Qed.

Lemma pend_guardP s l : pend_guard s l -> guardP clean_pend s l.
Proof.
  destruct l; cbn [pend_guard guardP]; auto.
  - intros _ _ Hr _. apply resettable_spec in Hr. destruct Hr as (_ & _ & C & _).
    unfold clean_pend, recycled_for_reuse. destruct (rbuf (streams s x)) as [|r [|r' t]]; try exact C. destruct (r =? 0); exact C.
  - intros Hg Hp. contradiction.
Qed.

(* the fallback flag of a pooled stream is clear, whatever callers and peer do *)
Lemma nofb_guardP s l : guardP (fun v => infb v = false) s l.
Proof.
  destruct l; cbn [guardP]; auto.
  intros _ _ _. apply recycled_sst.
Qed.

Lemma do_get_spec (P : stream -> Prop) c s s' x :
  (forall v, P v -> P (closed_of v)) ->
  Base s -> PoolP P s -> do_get c s = (s', RGot x) ->
  (P (streams s' x) \/ streams s' x = new_stream (cur s')) /\
  sst (streams s' x) = Opened /\ shut (sessions s' (ssess (streams s' x))) = false /\ heldx s' x.
Proof.
  intros Pc B H. unfold do_get. destruct (unhealthy (sessions s (cur s))); [discriminate |].
  destruct (get_loop (Z.to_nat (tail s - head s)) s) as [s1 [x0|]] eqn:E.
  - intro Q. inversion Q; subst. destruct (get_loop_poolP P Pc _ _ _ _ B H E) as [_ Px].
    pose proof (get_loop_base _ _ _ _ B E) as (_ & _ & _ & _ & Ho & Hs).
    assert (Hh : In x (map snd (held s1 ++ [(c, x)]))) by (rewrite map_app, in_app_iff; right; left; reflexivity).
    unfold heldx. cbn [add_held set_held streams sessions held]. repeat split; auto.
  - unfold open_stream. destruct (shut (sessions s1 (cur s1))) eqn:Hs; [discriminate |].
    destruct (unhealthy (sessions s1 (cur s1))); [discriminate |].
    intro Q. inversion Q; subst.
    assert (Hh : In (nstreams s1) (map snd (held s1 ++ [(c, nstreams s1)]))) by (rewrite map_app, in_app_iff; right; left; reflexivity).
    unfold heldx. cbn [add_held set_held streams sessions cur held].
    rewrite updn_eq. cbn [new_stream sst ssess]. rewrite updn_eq. cbn [with_table shut]. repeat split; auto.
Qed.

(* ================= no leak ================= *)
Definition no_half (v : stream) : Prop := sst v <> HalfClosed.

(* every stream registered in a live session's table is held by a caller or sits in the ring *)
Definition Owned (s : st) : Prop :=
  forall k x, shut (sessions s k) = false -> In x (table (sessions s k)) -> pooled s x \/ heldx s x.

(* the hypothesis under which today's code does not leak: the peer closes no stream while it is
   pooled - or the repair is in (fx = true) and the hypothesis is void *)
Definition leak_guard (s : st) (l : label) : Prop :=
  fx s = true \/ match l with PeerClose x => ~ parked s x | _ => True end.

Definition LeakInv (s : st) : Prop := Owned s /\ (fx s = false -> PoolP no_half s).

Lemma no_half_closed v : no_half v -> no_half (closed_of v).
Proof. intros _. unfold no_half. cbn. discriminate. Qed.

Lemma leak_guardP s l : fx s = false -> leak_guard s l -> guardP no_half s l.
Proof.
  intros Hf [Hg|Hg]; [congruence |]. destruct l; cbn [guardP]; auto.
  - intros _ Hr _. apply resettable_spec in Hr. unfold no_half. destruct (recycled_sst (streams s x)) as [-> _].
    destruct Hr as [-> _]. discriminate.
  - intros Hp. contradiction.
Qed.

Lemma get_loop_fx fuel : forall s s1 r, get_loop fuel s = (s1, r) -> fx s1 = fx s.
Proof.
  induction fuel as [|f IH]; intros s s1 r H; cbn [get_loop] in H; [inversion H; reflexivity |].
  destruct (ring_pop s) as [[x s0]|] eqn:Ep; [| inversion H; reflexivity].
  apply pop_spec in Ep. destruct Ep as (_ & _ & ->).
  destruct (negb _ && _); [inversion H; reflexivity |].
  apply IH in H. rewrite H. destruct (discard_ring (set_head (head s + 1) s) x) as (_ & _ & _ & _ & _ & _ & E & _). exact E.
Qed.

Lemma close_stream_fx s x : fx (close_stream x s) = fx s.
Proof. apply (close_stream_ring s x). Qed.

Lemma step_fx s l : fx (fst (step s l)) = fx s.
Proof.
  destruct l; cbn [step].
  - unfold do_get. destruct (unhealthy _); [reflexivity |].
    destruct (get_loop _ s) as [s1 [x|]] eqn:E; apply get_loop_fx in E; cbn [fst]; [exact E |].
    unfold open_stream. destruct (shut _); [exact E |]. destruct (unhealthy _); exact E.
  - unfold do_put_prepare. destruct (owns c x s); cbn [negb fst]; [| reflexivity].
    destruct (infb _); [cbn [fst]; rewrite close_stream_fx; reflexivity |].
    destruct (resettable _ _); cbn [negb fst]; [reflexivity | rewrite close_stream_fx; reflexivity].
  - unfold do_put_push. destruct (_ && _); cbn [negb fst]; [| reflexivity].
    destruct (ring_push _ _) as [s2|] eqn:Ep; cbn [fst]; [apply push_spec in Ep; destruct Ep as (_ & ->); reflexivity | rewrite close_stream_fx; reflexivity].
  - destruct (_ && _); reflexivity.
  - destruct (owns c x s); cbn [fst]; [| reflexivity]. unfold do_flush.
    destruct (_ =? 0); [reflexivity |]. destruct (is_open _); cbn [negb]; [| reflexivity]. destruct (_ || _); reflexivity.
  - destruct (owns c x s); reflexivity.
  - destruct (owns c x s); cbn [fst]; [| reflexivity]. unfold do_release.
    destruct (rbuf _) as [|r [|r' t]]; try reflexivity. destruct (r =? 0); reflexivity.
  - destruct (owns c x s); cbn [fst]; [apply close_stream_fx | reflexivity].
  - cbn [fst]. unfold do_peer_data. destruct (_ <? _)%nat; cbn [negb]; [| reflexivity]. destruct fb; destruct (in_table x s); reflexivity.
  - cbn [fst]. unfold do_peer_close. destruct (_ && _); reflexivity.
  - reflexivity.
  - reflexivity.
  - cbn [fst]. unfold do_cleanup. destruct (_ && _); reflexivity.
  - cbn [fst]. unfold do_bg_pop. destruct (shut _); [| reflexivity].
    destruct (ring_pop s) as [[x s1]|] eqn:Ep; [| reflexivity]. rewrite close_stream_fx.
    apply pop_spec in Ep. destruct Ep as (_ & _ & ->). reflexivity.
  - cbn [fst]. unfold do_rebuild. destruct (shut _); reflexivity.
Qed.

Lemma run_fx s h : fx (run s h) = fx s.
Proof. revert s. induction h as [|l t IH]; intros s; cbn [run]; [reflexivity | rewrite IH; apply step_fx]. Qed.

Lemma get_loop_fy fuel : forall s s1 r, get_loop fuel s = (s1, r) -> fy s1 = fy s.
Proof.
  induction fuel as [|f IH]; intros s s1 r H; cbn [get_loop] in H; [inversion H; reflexivity |].
  destruct (ring_pop s) as [[x s0]|] eqn:Ep; [| inversion H; reflexivity].
  apply pop_spec in Ep. destruct Ep as (_ & _ & ->).
  destruct (negb _ && _); [inversion H; reflexivity |].
  apply IH in H. rewrite H. destruct (discard_ring (set_head (head s + 1) s) x) as (_ & _ & _ & _ & _ & _ & _ & _ & _ & E & _). exact E.
Qed.

Lemma close_stream_fy s x : fy (close_stream x s) = fy s.
Proof. apply (close_stream_ring s x). Qed.

Lemma step_fy s l : fy (fst (step s l)) = fy s.
Proof.
  destruct l; cbn [step].
  - unfold do_get. destruct (unhealthy _); [reflexivity |].
    destruct (get_loop _ s) as [s1 [x|]] eqn:E; apply get_loop_fy in E; cbn [fst]; [exact E |].
    unfold open_stream. destruct (shut _); [exact E |]. destruct (unhealthy _); exact E.
  - unfold do_put_prepare. destruct (owns c x s); cbn [negb fst]; [| reflexivity].
    destruct (infb _); [cbn [fst]; rewrite close_stream_fy; reflexivity |].
    destruct (resettable _ _); cbn [negb fst]; [reflexivity | rewrite close_stream_fy; reflexivity].
  - unfold do_put_push. destruct (_ && _); cbn [negb fst]; [| reflexivity].
    destruct (ring_push _ _) as [s2|] eqn:Ep; cbn [fst]; [apply push_spec in Ep; destruct Ep as (_ & ->); reflexivity | rewrite close_stream_fy; reflexivity].
  - destruct (_ && _); reflexivity.
  - destruct (owns c x s); cbn [fst]; [| reflexivity]. unfold do_flush.
    destruct (_ =? 0); [reflexivity |]. destruct (is_open _); cbn [negb]; [| reflexivity]. destruct (_ || _); reflexivity.
  - destruct (owns c x s); reflexivity.
  - destruct (owns c x s); cbn [fst]; [| reflexivity]. unfold do_release.
    destruct (rbuf _) as [|r [|r' t]]; try reflexivity. destruct (r =? 0); reflexivity.
  - destruct (owns c x s); cbn [fst]; [apply close_stream_fy | reflexivity].
  - cbn [fst]. unfold do_peer_data. destruct (_ <? _)%nat; cbn [negb]; [| reflexivity]. destruct fb; destruct (in_table x s); reflexivity.
  - cbn [fst]. unfold do_peer_close. destruct (_ && _); reflexivity.
  - reflexivity.
  - reflexivity.
  - cbn [fst]. unfold do_cleanup. destruct (_ && _); reflexivity.
  - cbn [fst]. unfold do_bg_pop. destruct (shut _); [| reflexivity].
    destruct (ring_pop s) as [[x s1]|] eqn:Ep; [| reflexivity]. rewrite close_stream_fy.
    apply pop_spec in Ep. destruct Ep as (_ & _ & ->). reflexivity.
  - cbn [fst]. unfold do_rebuild. destruct (shut _); reflexivity.
Qed.

Lemma run_fy s h : fy (run s h) = fy s.
Proof. revert s. induction h as [|l t IH]; intros s; cbn [run]; [reflexivity | rewrite IH; apply step_fy]. Qed.

Lemma not_in_table_after_close s x k : TabInv s -> ~ In x (table (sessions (close_stream x s) k)).
Proof.
  intros T H. pose proof (tab_close_stream s x T) as T'. apply (t_tab _ T') in H.
  destruct H as (_ & _ & H). apply H. apply close_stream_closed.
Qed.

Lemma owned_mono s s' :
  (forall k x, shut (sessions s' k) = false -> In x (table (sessions s' k)) ->
               shut (sessions s k) = false /\ In x (table (sessions s k))) ->
  (forall x, pooled s x -> pooled s' x) -> (forall x, heldx s x -> heldx s' x) ->
  Owned s -> Owned s'.
Proof.
  intros H1 H2 H3 O k x Hs Hi. destruct (H1 k x Hs Hi) as [A B]. destruct (O k x A B); [left | right]; auto.
Qed.

Lemma close_stream_tab_sub s x k y :
  shut (sessions (close_stream x s) k) = false -> In y (table (sessions (close_stream x s) k)) ->
  shut (sessions s k) = false /\ In y (table (sessions s k)).
Proof.
  intros A B. rewrite close_stream_shut in A. split; [exact A |]. apply (close_stream_table s x k y B).
Qed.

Lemma owned_close_stream s x : Owned s -> Owned (close_stream x s).
Proof.
  apply owned_mono.
  - apply close_stream_tab_sub.
  - intros y. apply close_stream_pooled.
  - intros y Hy. unfold heldx. rewrite (proj1 (proj2 (proj2 (proj2 (proj2 (close_stream_ring s x)))))). exact Hy.
Qed.

(* Owned up to one stream x that is in transit (popped / taken from the held list) *)
Definition OwnedBut (x : nat) (s : st) : Prop :=
  forall k y, shut (sessions s k) = false -> In y (table (sessions s k)) -> pooled s y \/ heldx s y \/ y = x.

Lemma ownedbut_close s x : TabInv s -> OwnedBut x s -> Owned (close_stream x s).
Proof.
  intros T O k y Hs Hi.
  assert (N : y <> x) by (intro; subst; eapply not_in_table_after_close; eauto).
  destruct (close_stream_tab_sub s x k y Hs Hi) as [A B].
  destruct (O k y A B) as [H|[H|H]]; [left; apply close_stream_pooled; exact H | right | contradiction].
  unfold heldx. rewrite (proj1 (proj2 (proj2 (proj2 (proj2 (close_stream_ring s x)))))). exact H.
Qed.

Lemma get_loop_owned fuel s s1 r :
  Base s -> LeakInv s -> get_loop fuel s = (s1, r) ->
  match r with Some x => OwnedBut x s1 | None => Owned s1 end.
Proof.
  intros B L E.
  assert (Hstep : forall s x s1, Base s /\ LeakInv s -> ring_pop s = Some (x, s1) ->
     (negb (shut (sessions s1 (ssess (streams s1 x)))) && is_open (streams s1 x) = true -> OwnedBut x s1) /\
     (negb (shut (sessions s1 (ssess (streams s1 x)))) && is_open (streams s1 x) = false -> Base (discard x s1) /\ LeakInv (discard x s1))).
  2:{ pose proof (get_loop_ind (fun s => Base s /\ LeakInv s) (fun s x => OwnedBut x s) Hstep fuel s s1 r (conj B L) E) as G'.
      destruct r; [exact G' | apply G']. }
  clear. intros s x s1 [[R T] [O NH]] Hp.
  destruct (ring_pop_inv s x s1 Hp R) as (R1 & Px & Np & Nh & Hf & Hiff).
  pose proof Hp as Hp'. apply pop_spec in Hp'. destruct Hp' as (_ & _ & E1).
  assert (T1 : TabInv s1) by (subst s1; eapply tab_frame; [.. | exact T]; reflexivity).
  assert (OB : OwnedBut x s1).
  { intros k y Hs Hi. assert (Hs' : shut (sessions s k) = false) by (subst s1; exact Hs).
    assert (Hi' : In y (table (sessions s k))) by (subst s1; exact Hi).
    destruct (O k y Hs' Hi') as [H|H].
    - apply Hiff in H. destruct H as [->|H]; auto.
    - right. left. subst s1. exact H. }
  split; [intros _; exact OB |].
  intro Hc. split; [apply discard_base; split; assumption |].
  assert (Hfx : fx s1 = fx s) by (subst s1; reflexivity).
  split.
  - unfold discard. destruct (fx s1) eqn:F; [apply ownedbut_close; assumption |].
    intros k y Hs Hi. destruct (OB k y Hs Hi) as [H|[H|H]]; auto. subst y. exfalso.
    apply (t_tab _ T1) in Hi. destruct Hi as (_ & Hk & Hn). subst k.
    rewrite Hs in Hc. cbn [negb andb] in Hc.
    assert (Hx : sst (streams s1 x) = HalfClosed).
    { unfold is_open in Hc. destruct (sst (streams s1 x)); cbn in Hc; congruence. }
    assert (F' : fx s = false) by congruence.
    apply (NH F' x (or_introl Px)). subst s1. exact Hx.
  - destruct (discard_ring s1 x) as (_ & _ & _ & _ & _ & _ & Fd & _). rewrite Fd, Hfx. intro F.
    apply poolP_discard; [apply no_half_closed |].
    intros y Hy. assert (Hy' : parked s y) by (destruct Hy as [Hy|Hy]; [left; apply Hiff; right; exact Hy | right; subst s1; exact Hy]). subst s1. apply (NH F y Hy').
Qed.

Lemma step_owned s l : Base s -> LeakInv s -> Owned (fst (step s l)).
Proof.
  intros B L. pose proof B as [R T]. pose proof L as [O NH]. destruct l; cbn [step].
  - (* Get *)
    unfold do_get. destruct (unhealthy (sessions s (cur s))); [exact O |].
    destruct (get_loop (Z.to_nat (tail s - head s)) s) as [s1 [x|]] eqn:E.
    + pose proof (get_loop_owned _ _ _ _ B L E) as OB. cbn [fst].
      intros k y Hs Hi. destruct (OB k y Hs Hi) as [H|[H|H]].
      * left. exact H.
      * right. unfold heldx. cbn [add_held set_held held]. rewrite map_app, in_app_iff. left. exact H.
      * right. unfold heldx. cbn [add_held set_held held]. rewrite map_app, in_app_iff. right. left. symmetry. exact H.
    + pose proof (get_loop_owned _ _ _ _ B L E) as O1. cbn in O1.
      unfold open_stream. destruct (shut (sessions s1 (cur s1))) eqn:Hs1; [exact O1 |].
      destruct (unhealthy (sessions s1 (cur s1))); [exact O1 |]. cbn [fst].
      intros k y Hs Hi. cbn [add_held set_held sessions] in Hs, Hi.
      unfold heldx. cbn [add_held set_held held]. rewrite map_app, in_app_iff. cbn [map snd In].
      destruct (Nat.eq_dec k (cur s1)) as [->|Nk].
      * rewrite updn_eq in Hs, Hi. cbn [with_table shut table] in Hs, Hi. apply in_app_iff in Hi. destruct Hi as [Hi|[Hi|[]]].
        -- destruct (O1 _ y Hs Hi) as [H|H]; [left; exact H | right; left; exact H].
        -- right. right. left. exact Hi.
      * rewrite updn_neq in Hs, Hi by exact Nk. destruct (O1 _ y Hs Hi) as [H|H]; [left; exact H | right; left; exact H].
  - (* PutPrepare *)
    unfold do_put_prepare. destruct (owns c x s) eqn:Ho; cbn [negb fst]; [| exact O].
    destruct (owns_holds _ _ _ Ho) as [Hh Hnp].
    destruct (ring_rem_held c x s R Hh) as (_ & Nh & Hsub).
    assert (T0 : TabInv (rem_held c x s)) by (eapply tab_frame; [.. | exact T]; reflexivity).
    assert (OB : OwnedBut x (rem_held c x s)).
    { intros k y Hs Hi. destruct (O k y Hs Hi) as [H|H]; [left; exact H |]. apply Hsub in H. destruct H as [->|H]; auto. }
    destruct (infb (streams s x)); [apply ownedbut_close; assumption |].
    destruct (resettable (fy s) (streams s x)); cbn [negb fst]; [| apply ownedbut_close; assumption].
    exact O.
  - (* PutPush *)
    unfold do_put_push. destruct (holds c x s && memn x (prep s)) eqn:Hc; cbn [negb fst]; [| exact O].
    apply andb_true_iff in Hc. destruct Hc as [Hh _].
    destruct (push_prelude c x s R Hh) as (R1 & Nh & Np & Hf & _ & Hsub).
    set (s1 := set_prep (filter (fun y => negb (Nat.eqb y x)) (prep s)) (rem_held c x s)) in *.
    assert (T1 : TabInv s1) by (eapply tab_frame; [.. | exact T]; reflexivity).
    assert (OB1 : OwnedBut x s1).
    { intros k y Hs Hi. destruct (O k y Hs Hi) as [H|H]; [left; exact H |]. apply Hsub in H. destruct H as [->|H]; auto. }
    destruct (ring_push x s1) as [s2|] eqn:Ep; cbn [fst]; [| apply ownedbut_close; assumption].
    destruct (ring_push_inv x s1 s2 Ep R1 Np Nh Hf) as (_ & Hiff).
    intros k y Hs Hi. apply push_spec in Ep. destruct Ep as (_ & E2).
    assert (Hs' : shut (sessions s1 k) = false) by (subst s2; exact Hs).
    assert (Hi' : In y (table (sessions s1 k))) by (subst s2; exact Hi).
    destruct (OB1 k y Hs' Hi') as [H|[H|H]].
    + left. apply Hiff. right. exact H.
    + right. subst s2. exact H.
    + left. apply Hiff. left. exact H.
  - destruct (_ && _); cbn [fst]; exact O.
  - destruct (owns c x s); cbn [fst]; [| exact O]. unfold do_flush.
    destruct (_ =? 0); [exact O |]. destruct (is_open _); cbn [negb]; [| exact O].
    destruct (_ || _); [| exact O].
    intros k y Hs Hi. cbn [set_session set_stream sessions] in Hs, Hi.
    destruct (Nat.eq_dec k (ssess (streams s x))) as [->|Nk]; [rewrite updn_eq in Hs, Hi | rewrite updn_neq in Hs, Hi by exact Nk]; apply (O _ y Hs Hi).
  - destruct (owns c x s); cbn [fst]; exact O.
  - destruct (owns c x s); cbn [fst]; [| exact O]. unfold do_release.
    destruct (rbuf _) as [|r [|r' t]]; try exact O. destruct (r =? 0); exact O.
  - destruct (owns c x s); cbn [fst]; [apply owned_close_stream |]; exact O.
  - cbn [fst]. unfold do_peer_data. destruct (_ <? _)%nat; cbn [negb]; [| exact O].
    assert (O1 : Owned (set_session (ssess (streams s x)) (with_unhealthy true (sessions s (ssess (streams s x)))) s)).
    { intros k y Hs Hi. cbn [set_session sessions] in Hs, Hi.
      destruct (Nat.eq_dec k (ssess (streams s x))) as [->|Nk]; [rewrite updn_eq in Hs, Hi | rewrite updn_neq in Hs, Hi by exact Nk]; apply (O _ y Hs Hi). }
    destruct fb; destruct (in_table x s); try exact O; exact O1.
  - cbn [fst]. unfold do_peer_close. destruct (_ && _); exact O.
  - cbn [fst]. intros k y Hs Hi. cbn [set_session sessions] in Hs, Hi.
    destruct (Nat.eq_dec k (cur s)) as [->|Nk]; [rewrite updn_eq in Hs, Hi | rewrite updn_neq in Hs, Hi by exact Nk]; apply (O _ y Hs Hi).
  - cbn [fst]. unfold do_sess_loss. intros k y Hs Hi. cbn [set_session sessions] in Hs, Hi.
    destruct (Nat.eq_dec k (cur s)) as [->|Nk]; [rewrite updn_eq in Hs; cbn in Hs; discriminate | rewrite updn_neq in Hs, Hi by exact Nk]; apply (O _ y Hs Hi).
  - cbn [fst]. unfold do_cleanup. destruct (_ && _); [| exact O].
    intros k' y Hs Hi. cbn [sessions] in Hs, Hi.
    destruct (Nat.eq_dec k' k) as [->|Nk]; [rewrite updn_eq in Hs; cbn in Hs; discriminate | rewrite updn_neq in Hs, Hi by exact Nk]; apply (O _ y Hs Hi).
  - cbn [fst]. unfold do_bg_pop. destruct (shut _); [| exact O].
    destruct (ring_pop s) as [[x s1]|] eqn:Ep; [| exact O].
    destruct (ring_pop_inv s x s1 Ep R) as (R1 & Px & Np & Nh & Hf & Hiff).
    pose proof Ep as Ep'. apply pop_spec in Ep'. destruct Ep' as (_ & _ & E1).
    apply ownedbut_close; [subst s1; eapply tab_frame; [.. | exact T]; reflexivity |].
    intros k y Hs Hi. assert (Hs' : shut (sessions s k) = false) by (subst s1; exact Hs).
    assert (Hi' : In y (table (sessions s k))) by (subst s1; exact Hi).
    destruct (O k y Hs' Hi') as [H|H]; [apply Hiff in H; destruct H as [->|H]; auto | right; left; subst s1; exact H].
  - cbn [fst]. unfold do_rebuild. destruct (shut _); [| exact O].
    intros k y Hs Hi. cbn [sessions] in Hs, Hi.
    destruct (Nat.eq_dec k (nsess s)) as [->|Nk]; [rewrite updn_eq in Hi; cbn in Hi; contradiction | rewrite updn_neq in Hs, Hi by exact Nk]; apply (O _ y Hs Hi).
Qed.

Lemma step_leak s l : Base s -> leak_guard s l -> LeakInv s -> LeakInv (fst (step s l)).
Proof.
  intros B G L. split; [apply step_owned; assumption |].
  rewrite step_fx. intro F. apply step_poolP; [apply no_half_closed | exact B | apply leak_guardP; assumption | apply L; exact F].
Qed.

Lemma run_leak h : forall s, Base s -> LeakInv s -> guarded leak_guard s h -> LeakInv (run s h).
Proof.
  induction h as [|l t IH]; intros s B L G; cbn [run]; [exact L |].
  destruct G as [Gl Gt]. apply IH; [apply step_base; exact B | apply step_leak; assumption | exact Gt].
Qed.

Lemma init_leak f g c : LeakInv (init f g c).
Proof. split; [intros k x _ H; cbn in H; contradiction | intros _; apply init_poolP]. Qed.

Lemma guarded_fx h : forall s, fx s = true -> guarded leak_guard s h.
Proof.
  induction h as [|l t IH]; intros s F; cbn [guarded]; [exact I |].
  split; [left; exact F | apply IH; rewrite step_fx; exact F].
Qed.

(* ================= the statements used by Props/C15.v ================= *)
Lemma heldx_holder s x : heldx s x <-> exists c, holder s c x.
Proof.
  unfold heldx, holder. rewrite in_map_iff. split.
  - intros [[c y] [E H]]. cbn [snd] in E. subst. exists c. exact H.
  - intros [c H]. exists (c, x). auto.
Qed.

Definition ring_ok (s : st) : Prop :=
  (forall c1 c2 x, holder s c1 x -> holder s c2 x -> c1 = c2) /\
  NoDup (map snd (held s)) /\
  (forall c x, holder s c x -> ~ pooled s x) /\
  0 <= tail s - head s <= cap s /\
  (forall i j, head s <= i < tail s -> head s <= j < tail s ->
               slots s (i mod cap s) = slots s (j mod cap s) -> i = j).

Lemma base_ring_ok s : Base s -> ring_ok s.
Proof.
  intros [R T]. pose proof R as [A B C D E F G]. repeat split; auto; try lia.
  - intros c1 c2 x H1 H2. eapply nodup_snd_unique; eauto.
  - intros c x H. apply held_not_pooled; [exact R |]. apply heldx_holder. exists c. exact H.
Qed.

Theorem ring_thm f g c h : 0 <= c -> ring_ok (run (init f g c) h).
Proof. intro Hc. apply base_ring_ok, run_base, init_base, Hc. Qed.

(* a stream inside PutBack (prepared, not pushed yet) is still in the hands of the putting caller, of nobody
   else, and not in the ring *)
Theorem put_exclusive_thm f g c h x :
  0 <= c -> let s := run (init f g c) h in
  prepared s x -> (exists cl, holder s cl x) /\ ~ pooled s x.
Proof.
  intros Hc s Hp. destruct (run_base (init f g c) h (init_base f g c Hc)) as [R _]. fold s in R.
  pose proof (r_prep s R x Hp) as Hh. split; [apply heldx_holder; exact Hh | apply held_not_pooled; assumption].
Qed.

Definition table_ok (s : st) : Prop :=
  forall k, NoDup (table (sessions s k)) /\
            forall x, In x (table (sessions s k)) <->
                      ((x < nstreams s)%nat /\ ssess (streams s x) = k /\ sst (streams s x) <> Closed).

Theorem table_thm f g c h : 0 <= c -> table_ok (run (init f g c) h).
Proof.
  intro Hc. destruct (run_base (init f g c) h (init_base f g c Hc)) as [_ T].
  intro k. split; [apply (t_tnd _ T) | intro x; apply (t_tab _ T)].
Qed.

Lemma guarded_true h : forall s, guarded (fun _ _ => True) s h.
Proof. induction h as [|l t IH]; intro s; cbn [guarded]; auto. Qed.

Definition got_live (s' : st) (cl x : nat) : Prop :=
  sst (streams s' x) = Opened /\ shut (sessions s' (ssess (streams s' x))) = false /\
  infb (streams s' x) = false /\ holder s' cl x /\ (forall c2, holder s' c2 x -> c2 = cl) /\ ~ pooled s' x.

Theorem clean_live_thm f g c h cl s' x :
  0 <= c -> step (run (init f g c) h) (Get cl) = (s', RGot x) -> got_live s' cl x.
Proof.
  intros Hc E. set (s := run (init f g c) h) in *.
  assert (B : Base s) by (apply run_base, init_base, Hc).
  assert (H : PoolP (fun v => infb v = false) s).
  { apply (run_poolP _ (fun _ _ => True)); [intros v Hv; exact Hv | intros; apply nofb_guardP | apply init_base, Hc | apply init_poolP | apply guarded_true]. }
  cbn [step] in E.
  destruct (do_get_spec (fun v => infb v = false) cl s s' x (fun v Hv => Hv) B H E) as (P1 & P2 & P3 & P4).
  assert (B' : Base s') by (change s' with (fst (s', RGot x)); rewrite <- E; apply do_get_base; exact B).
  destruct (base_ring_ok s' B') as (U1 & _ & U3 & _).
  assert (Hh : holder s' cl x).
  { unfold do_get in E. destruct (unhealthy (sessions s (cur s))); [discriminate |].
    destruct (get_loop _ s) as [s1 [x0|]].
    - inversion E; subst. unfold holder. cbn [add_held set_held held]. apply in_app_iff. right. left. reflexivity.
    - unfold open_stream in E. destruct (shut _); [discriminate |]. destruct (unhealthy _); [discriminate |].
      inversion E; subst. unfold holder. cbn [add_held set_held held]. apply in_app_iff. right. left. reflexivity. }
  repeat split; auto.
  - destruct P1 as [P1|P1]; [exact P1 | rewrite P1; reflexivity].
  - intros c2 H2. apply (U1 c2 cl x H2 Hh).
  - apply (U3 cl x Hh).
Qed.

(* part 1 of cleanliness under its guard, and unconditionally once reset() rejects unflushed bytes *)
Theorem clean_bytes_thm f g c h cl s' x :
  0 <= c -> guarded bytes_guard (init f g c) h ->
  step (run (init f g c) h) (Get cl) = (s', RGot x) -> clean_bytes (streams s' x).
Proof.
  intros Hc G E. set (s := run (init f g c) h) in *.
  assert (B : Base s) by (apply run_base, init_base, Hc).
  assert (H : PoolP clean_bytes s).
  { apply (run_poolP _ bytes_guard); [apply bytes_closed | apply bytes_guardP | apply init_base, Hc | apply init_poolP | exact G]. }
  cbn [step] in E. destruct (do_get_spec _ cl s s' x bytes_closed B H E) as ([P1|P1] & _); [exact P1 |].
  rewrite P1. unfold clean_bytes. cbn. auto.
Qed.

Lemma guarded_fy h : forall s, fy s = true -> guarded bytes_guard s h.
Proof.
  induction h as [|l t IH]; intros s F; cbn [guarded]; [exact I |].
  split; [destruct l; cbn [bytes_guard]; auto | apply IH; rewrite step_fy; exact F].
Qed.

Theorem clean_bytes_current_thm f c h cl s' x :
  0 <= c -> step (run (init f true c) h) (Get cl) = (s', RGot x) -> clean_bytes (streams s' x).
Proof. intros Hc E. eapply clean_bytes_thm; [exact Hc | apply guarded_fy; reflexivity | exact E]. Qed.

(* part 2 under its guard *)
Theorem partial_pend_thm f g c h cl s' x :
  0 <= c -> guarded pend_guard (init f g c) h ->
  step (run (init f g c) h) (Get cl) = (s', RGot x) -> pend (streams s' x) = [].
Proof.
  intros Hc G E. set (s := run (init f g c) h) in *.
  assert (B : Base s) by (apply run_base, init_base, Hc).
  assert (H : PoolP clean_pend s).
  { apply (run_poolP _ pend_guard); [apply pend_closed | apply pend_guardP | apply init_base, Hc | apply init_poolP | exact G]. }
  cbn [step] in E. destruct (do_get_spec _ cl s s' x pend_closed B H E) as ([P1|P1] & _); [exact P1 |].
  rewrite P1. reflexivity.
Qed.

Definition leak_free (s : st) : Prop :=
  forall k x, shut (sessions s k) = false ->
    (In x (table (sessions s k)) <->
     ((pooled s x \/ exists c, holder s c x) /\ ssess (streams s x) = k /\ sst (streams s x) <> Closed)).

Lemma leak_free_of s : Base s -> Owned s -> leak_free s.
Proof.
  intros [R T] O k x Hs. split.
  - intro Hi. pose proof (proj1 (t_tab _ T k x) Hi) as (_ & A & B). split; [| split; assumption].
    destruct (O k x Hs Hi) as [H|H]; [left; exact H | right; apply heldx_holder; exact H].
  - intros ([H|H] & A & B); apply (t_tab _ T); split; auto.
    + destruct H as [i [Hi Ei]]. pose proof (r_rfresh _ R i Hi) as F. unfold slot_at in F. rewrite Ei in F. exact F.
    + apply (r_hfresh _ R). apply heldx_holder. exact H.
Qed.

Theorem partial_no_leak_thm f g c h :
  0 <= c -> guarded leak_guard (init f g c) h -> leak_free (run (init f g c) h).
Proof.
  intros Hc G. apply leak_free_of; [apply run_base, init_base, Hc |].
  apply (run_leak h (init f g c)); [apply init_base, Hc | apply init_leak | exact G].
Qed.

Theorem fixed_no_leak_thm g c h : 0 <= c -> leak_free (run (init true g c) h).
Proof. intro Hc. apply partial_no_leak_thm; [exact Hc | apply guarded_fx; reflexivity]. Qed.

(* ================= witnesses (vm_compute) ================= *)
(* previous holder: request, response read completely, 5 more bytes written but never flushed, PutBack;
   next holder: Get *)
Definition witness_unflushed : list label :=
  [Get 0; Write 0 0 8 false; Flush 0 0; PeerData 0 16 false; Read 0 0 16; Write 0 0 5 false; PutPrepare 0 0; PutPush 0 0]%nat.
(* a response that arrives after PutBack is handed to the next holder *)
Definition witness_late : list label := [Get 0; Write 0 0 8 false; Flush 0 0; PutPrepare 0 0; PutPush 0 0; PeerData 0 16 false]%nat.
(* the peer closes a pooled stream *)
Definition witness_leak : list label := [Get 0; PutPrepare 0 0; PutPush 0 0; PeerClose 0; Get 0]%nat.

(* the FULL cleanliness statement (all clauses, no hypothesis) is false of EVERY variant of the model,
   the current code included: late data *)
Definition clean_full : Prop :=
  forall f g c h cl s' x, 0 <= c -> step (run (init f g c) h) (Get cl) = (s', RGot x) -> clean_stream (streams s' x).

Lemma clean_refuted : ~ clean_full.
Proof.
  intro H. specialize (H true true 2 witness_late 1%nat).
  destruct (step (run (init true true 2) witness_late) (Get 1)) as [s' r] eqn:E.
  assert (Er : r = RGot 0) by (change r with (snd (s', r)); rewrite <- E; vm_compute; reflexivity).
  subst r. specialize (H s' 0%nat ltac:(lia) eq_refl). destruct H as (_ & A & _).
  assert (Ev : pend (streams s' 0) = [(16, false)]) by (change s' with (fst (s', RGot 0%nat)); rewrite <- E; vm_compute; reflexivity).
  rewrite Ev in A. discriminate.
Qed.

(* regression, OLD code (reset() blind to the send buffer): the unflushed bytes surface in the RECEIVE
   buffer of the next holder; with the repair the stream is closed and a fresh one handed out *)
Lemma unflushed_witness_old_and_new :
  let old := step (run (init false false 2) witness_unflushed) (Get 1) in
  let new := step (run (init true true 2) witness_unflushed) (Get 1) in
  (snd old = RGot 0 /\ sumz (rbuf (streams (fst old) 0)) = 5) /\
  (snd new = RGot 1 /\ sst (streams (fst new) 0) = Closed /\ table (sessions (fst new) 0) = [1%nat]).
Proof. vm_compute. repeat split; reflexivity. Qed.

(* regression, OLD code (getOrOpenStream drops without Close): the stream closed by the peer while pooled
   stays in the table, owned by nobody; with the repair it is closed *)
Lemma leak_old_code : ~ (forall c h, 0 <= c -> leak_free (run (init false true c) h)).
Proof.
  intro H. specialize (H 2 witness_leak ltac:(lia) 0%nat 0%nat).
  set (s := run (init false true 2) witness_leak) in *.
  assert (Hs : shut (sessions s 0) = false) by (vm_compute; reflexivity).
  assert (Hi : In 0%nat (table (sessions s 0))) by (vm_compute; auto).
  apply (H Hs) in Hi. destruct Hi as ([P|[c P]] & _).
  - destruct P as [i [Hi _]]. assert (Eh : head s = 1) by (vm_compute; reflexivity).
    assert (Et : tail s = 1) by (vm_compute; reflexivity). lia.
  - unfold holder in P. assert (Eh : held s = [(0, 1)]%nat) by (vm_compute; reflexivity).
    rewrite Eh in P. destruct P as [P|[]]. inversion P.
Qed.

Lemma leak_witness_fixed :
  let s := run (init true true 2) witness_leak in table (sessions s 0) = [1%nat] /\ held s = [(0, 1)]%nat.
Proof. vm_compute. split; reflexivity. Qed.
