From Coq Require Import List ZArith Lia Bool Arith.
From Shm Require Import Gen.Consts Model.StreamState Proofs.StreamStateProofs.
Import ListNotations.
Open Scope Z_scope.

(* C10: a Close() always completes; the full close statement; both ends.  (Split from StreamStateProofs.v so that
   the files build in parallel.) *)
(* ====================================================================================================
   A Close() always completes (callbacks either installed from the start or never installed during the run):
   whoever is told to finish the close is still there to do it
   ==================================================================================================== *)
(* goroutine-side witnesses: threads that will still load callbackCloseState, or already run the exit close() *)
Definition Wg (s : est) : Z := cz g_w (gors s) + e_proxy (epc s) + s_proxy (spc s).

(* facts about the close state and the flag *)
Record InvK1 (cb0 : bool) (s : est) : Prop := {
  k_cb : b2z (cbset s) = b2z cb0;
  k_cs01 : cstate s = 0 \/ cstate s = 1;
  k_sp : s_busy (spc s) = 0;
  (* without callbacks nothing ever takes the flag, and Close() does not store the close state *)
  k_off : b2z cb0 = 0 -> inproc s = 0 /\ cstate s = 0 /\ e_cas (epc s) = 0 /\ cz g_all (gors s) = 0 /\ cz c_athalf (clos s) = 0;
  (* with callbacks every Close() that is past its first statement has stored callbackWaitExit *)
  k_cs : b2z cb0 = 1 -> cstate s = 1 \/ (cz c_past (clos s) = 0 /\ cz g_cbpast (gors s) = 0);
  k_kh : b2z (khalf s) = 0 \/ cstate s = 1;
  k_gc : cz g_xc (gors s) = 0 \/ cstate s = 1;
  k_bad : cz g_badclose (gors s) = 0 }.

Ltac finK1 s := cb; rw_eqs; rw_cnt; cb; try assumption; try (intros; assumption); czin; cb; uc; zeqh; uc; cb; try lia; czpos s; lia.
Lemma stepK1 cb0 s w : (w = WSet -> b2z cb0 = 1) -> InvC s -> InvK1 cb0 s -> InvK1 cb0 (step s w).
Proof.
  intros Hc [C1 C2 _ _] [K1 K2 K3 K4 K5 K6 K6a K6b]. pose proof (b2z_range cb0).
  constructor.
  - clear C1 C2 K2 K3 K4 K5 K6 K6a K6b. cases s w; try specialize (Hc eq_refl); brk; finK1 s.
  - clear C1 C2 K3 K4 K5 K6 K6a K6b. cases s w; try specialize (Hc eq_refl); brk; finK1 s.
  - clear C1 C2 K2 K4 K5 K6 K6a K6b. cases s w; try specialize (Hc eq_refl); brk; finK1 s.
  - clear K5 K6 K6a K6b. cases s w; try specialize (Hc eq_refl); brk; finK1 s.
  - clear C1 C2 K3 K6 K6a K6b. cases s w; try specialize (Hc eq_refl); brk; finK1 s.
  - cases s w; try specialize (Hc eq_refl); brk; finK1 s.
  - cases s w; try specialize (Hc eq_refl); brk; finK1 s.
  - clear C1 C2 K2 K3 K5 K6 K6a. cases s w; try specialize (Hc eq_refl); brk; finK1 s.
Qed.

Record InvK2 (s : est) : Prop := {
  (* a Close() that found callbackInProcess = 1 leaves the close to a thread that is still there *)
  k_F : cz c_athalf (clos s) = 0 \/ st s = c_streamClosed \/ Wg s > 0;
  k_R : cstate s = 0 \/ st s = c_streamClosed \/ cz c_busy (clos s) + Wg s > 0;
  k_ret2 : st s = c_streamClosed \/ cz c_ret (clos s) = 0 \/ cstate s = 1 }.

Ltac finK s := cb; rw_eqs; rw_cnt; cb; try assumption; czin; cb; uc; zeqh; uc; cb; try lia; czpos s; lia.
Lemma stepK2 cb0 s w : (w = WSet -> b2z cb0 = 1) -> InvP s -> InvC s -> InvK1 cb0 s -> InvK2 s -> InvK2 (step s w).
Proof.
  intros Hc [_ P2 P3 P3s _ _] [C1 C2 _ _] [K1 K2 K3 K4 K5 _ K6a K6b] [K7 K8 K9]. unfold Wg in *. pose proof (b2z_range cb0).
  constructor; unfold Wg.
  - clear P2 K2 K8 K9. cases s w; try specialize (Hc eq_refl); brk; finK s.
  - clear K9. cases s w; try specialize (Hc eq_refl); brk; finK s.
  - clear P3 C1 C2 K2 K6a K6b K7 K8. cases s w; try specialize (Hc eq_refl); brk; finK s.
Qed.

Record InvK (cb0 : bool) (s : est) : Prop := { k_1 : InvK1 cb0 s; k_2 : InvK2 s }.
Lemma stepK cb0 s w : (cb0 = true \/ w <> WSet) -> InvP s -> InvC s -> InvK cb0 s -> InvK cb0 (step s w).
Proof.
  intros Hw HP HC [H1 H2].
  assert (Hc : w = WSet -> b2z cb0 = 1) by (intros ->; destruct Hw as [->|Hw]; [reflexivity|congruence]).
  constructor; [apply stepK1; auto|eapply stepK2; eauto].
Qed.


Lemma initK cb0 inb n scr ups sy nds pks : InvK cb0 (init_rd cb0 inb n scr ups sy nds pks).
Proof.
  constructor; [destruct cb0; initc|constructor; unfold Wg; cbn; rewrite ?cz_repeat_false by reflexivity; uc; lia].
Qed.

(* callbacks are installed from the start, or SetCallbacks is not called during the run *)
Definition cb_stable (cb0 : bool) (sched : list who) : Prop := cb0 = true \/ ~ In WSet sched.
Lemma runK cb0 sched s : cb_stable cb0 sched -> InvAll s -> InvK cb0 s -> InvK cb0 (run sched s).
Proof.
  revert s; induction sched as [|w l IH]; simpl; intros s Hs HA HK; auto.
  apply IH.
  - destruct Hs as [Hs|Hs]; [left; auto|right; intros Hi; apply Hs; right; exact Hi].
  - apply stepAll, HA.
  - apply stepK; [|apply HA|apply HA|exact HK].
    destruct Hs as [Hs|Hs]; [left; auto|right; intros ->; apply Hs; left; reflexivity].
Qed.

(* ====================================================================================================
   C10
   ==================================================================================================== *)
(* OnRemoteClose is only reported for a close notification that was taken from the inbox *)
Record InvR (s : est) : Prop := {
  r_rem : nremote s + e_halfn (epc s) + e_half (epc s) <= ncl (processed s) }.
Lemma stepR s w : InvR s -> InvR (step s w).
Proof. intros [H1]. cases s w; brk; constructor; first [solve [fin s] | destruct e; fin s]. Qed.
Lemma initR cb0 inb n scr ups sy nds pks : InvR (init_rd cb0 inb n scr ups sy nds pks).
Proof. initc. Qed.
Lemma runR sched s : InvR s -> InvR (run sched s).
Proof. revert s; induction sched as [|w l IH]; simpl; intros s H; auto. apply IH, stepR, H. Qed.

Definition quiesc (s : est) : Prop :=
  epc s = EIdle /\ inbox s = [] /\ (forall i g, nth_error (gors s) i = Some g -> g = GExit) /\
  (forall i c, nth_error (clos s) i = Some c -> c = KRet \/ c = KStart) /\ (spc s = SIdle \/ spc s = SDone).
(* some Close() has returned: a closer thread's, or one that took the half-close branch (the only way
   a Close() issued inside OnData returns) *)
Definition close_returned (s : est) : Prop := (exists i, nth_error (clos s) i = Some KRet) \/ khalf s = true.
Definition closed_ok (s : est) : Prop :=
  st s = c_streamClosed /\ intable s = false /\ flush_res s = RErrStreamClosed /\ read_res s <> RBlocked /\
  nlocal s + nremote s = 1 /\
  ((nremote s = 1 /\ ncl (out s) = 0) \/ (nlocal s = 1 /\ ncl (out s) = 1)).

Lemma full_inv cb0 s :
  InvAll s -> InvK cb0 s -> quiesc s -> close_returned s -> closed_ok s.
Proof.
  intros HA HK [He [_ [Hg [Hcl Hsp]]]] Hret.
  destruct HA as [_ [Hacc [Hn1 Hn2] Hwake Hsent] [Htbl _ _] _ _].
  destruct HK as [[_ _ _ _ _ Hkh _ _] [_ HR Hret2]]. unfold Wg in HR.
  assert (G0 : forall f, f GExit = false -> cz f (gors s) = 0).
  { intros f Hf. apply cz_all_false. intros j g Hj. rewrite (Hg j g Hj). exact Hf. }
  assert (C0 : forall f, f KRet = false -> f KStart = false -> cz f (clos s) = 0).
  { intros f H1 H2. apply cz_all_false. intros j c Hj. destruct (Hcl j c Hj) as [->| ->]; auto. }
  assert (Hsb : s_proxy (spc s) = 0) by (destruct Hsp as [-> | ->]; reflexivity).
  rewrite (G0 g_w), (C0 c_busy), He, Hsb in HR by reflexivity. cbn [e_proxy] in HR.
  assert (Hst : st s = c_streamClosed).
  { destruct Hret as [[i Hi]|Hret].
    - pose proof (cz_pos_in c_ret (clos s) i KRet Hi eq_refl). lia.
    - rewrite Hret in Hkh. cbn [b2z] in Hkh. lia. }
  rewrite (G0 (gl c_pendcb)), (C0 c_pendcb), He in Hacc by reflexivity.
  rewrite (G0 (gl c_send)), (C0 c_send) in Hsent by reflexivity.
  specialize (Htbl Hst). rewrite (G0 (gl c_cleanT)), (C0 c_cleanT) in Htbl by reflexivity.
  assert (Hne : st s <> c_streamOpened) by (uc; lia).
  destruct (Z.eqb_spec (st s) c_streamOpened); [congruence|].
  destruct (Z.eqb_spec (st s) v_streamLocalHalfClosed); [uc; lia|]. cbn [e_halfn b2z] in Hacc.
  unfold closed_ok. split; [exact Hst|]. split.
  { destruct (intable s); simpl in Htbl; [lia|reflexivity]. }
  split; [apply flush_closed; auto|]. split; [apply read_not_blocked; auto|].
  pose proof (ncl_nonneg (out s)). lia.
Qed.

Section C10.
Variables (cb0 : bool) (inb : list ev) (ncl_ : nat) (scr : list (nat * nat)) (ups : list (list (list Z))) (sy : list nat) (nds : list nat) (pks : list bool).
Let s0 := init_rd cb0 inb ncl_ scr ups sy nds pks.

Theorem monotone sched sched' :
  let s := run sched s0 in let s' := run sched' s in
  (st s = c_streamOpened \/ st s = c_streamHalfClosed \/ st s = v_streamLocalHalfClosed \/ st s = c_streamClosed) /\
  (st s = c_streamClosed -> st s' = c_streamClosed) /\
  (st s = c_streamHalfClosed -> st s' = c_streamHalfClosed \/ st s' = c_streamClosed) /\
  (st s = v_streamLocalHalfClosed -> st s' = v_streamLocalHalfClosed \/ st s' = c_streamClosed).
Proof.
  intros s s'. pose proof (runAll sched s0 (initAll _ _ _ _ _ _ _ _)) as HA. fold s in HA.
  destruct HA as [[_ _ _ _ Hst _] _ _ _ _].
  pose proof (run_mono sched' s) as Hm. fold s' in Hm. unfold mono in Hm. uc. lia.
Qed.

Theorem callbacks_at_most_once sched :
  let s := run sched s0 in
  0 <= nlocal s /\ 0 <= nremote s /\ nlocal s + nremote s <= 1 /\
  (st s = c_streamOpened -> nlocal s + nremote s = 0) /\ ncl (out s) <= nlocal s.
Proof.
  intros s. pose proof (runAll sched s0 (initAll _ _ _ _ _ _ _ _)) as HA. fold s in HA.
  destruct HA as [_ [Hacc [Hn1 Hn2] Hwake Hsent] _ _ _]. czpos s.
  destruct (Z.eqb_spec (st s) c_streamOpened); destruct (Z.eqb_spec (st s) v_streamLocalHalfClosed);
    cbn [b2z] in Hacc; uc; repeat split; try lia.
Qed.

Theorem final_flush sched i :
  let s := run sched s0 in
  nth_error (clos s) i = Some KRet ->
  st s <> c_streamOpened /\ flush_res s = RErrStreamClosed /\ read_res s <> RBlocked.
Proof.
  intros s Hi. pose proof (runAll sched s0 (initAll _ _ _ _ _ _ _ _)) as HA. fold s in HA.
  destruct HA as [_ _ [_ Hret _] _ _].
  assert (Hst : st s <> c_streamOpened).
  { intros E. specialize (Hret E). pose proof (cz_pos_in c_ret (clos s) i KRet Hi eq_refl). lia. }
  split; [auto|split; [apply flush_closed|apply read_not_blocked]]; auto.
Qed.

(* a reader blocked in readMore is woken: once the state has left `opened`, closeNotifyCh is closed as soon as
   no thread stands between its state transition and its report *)
Theorem wake sched :
  let s := run sched s0 in
  st s <> c_streamOpened ->
  epc s <> EHalfN -> cz c_pendcb (clos s) = 0 -> cz (gl c_pendcb) (gors s) = 0 ->
  cnotify s = true.
Proof.
  intros s Hst He Hc Hg. pose proof (runAll sched s0 (initAll _ _ _ _ _ _ _ _)) as HA. fold s in HA.
  destruct HA as [_ [_ _ Hwake _] _ _ _].
  assert (Hh : e_halfn (epc s) = 0) by (destruct (epc s); simpl; auto; congruence).
  destruct (cnotify s); auto. cbn [b2z] in Hwake. lia.
Qed.

(* pending calls: an invocation of OnData parked in a blocking read (readMore's select) is woken by a close.
   (i) close() that waits for the callback goroutine (its CAS started from opened / localHalfClosed) has closed
   closeNotifyCh BEFORE the Wait: the goroutine it waits for is not stuck in its read.  (ii) in general, by `wake`:
   once the state has left `opened` and nobody stands between its transition and its report, the parked goroutine's
   next step leaves the select (parked_enabled) *)
Theorem close_wakes_parked sched i old :
  let s := run sched s0 in
  (nth_error (clos s) i = Some (CWait old) \/ (exists j more, nth_error (gors s) j = Some (GCbClose (CWait old) more)) \/
   (exists j, nth_error (gors s) j = Some (GClose (CWait old)))) ->
  isloc old = true -> cnotify s = true.
Proof.
  intros s Hw Ho.
  pose proof (runB sched s0 (initAll _ _ _ _ _ _ _ _) (initB _ _ _ _ _ _ _ _)) as [_ HB]. fold s in HB.
  pose proof (cz_nonneg c_waitA (clos s)). pose proof (cz_nonneg (gl c_waitA) (gors s)).
  destruct (cnotify s); [reflexivity|exfalso]. cbn [b2z] in HB.
  destruct Hw as [Hw|[[j [m Hw]]|[j Hw]]].
  - pose proof (cz_pos_in c_waitA (clos s) i _ Hw Ho). lia.
  - pose proof (cz_pos_in (gl c_waitA) (gors s) j _ Hw Ho). lia.
  - pose proof (cz_pos_in (gl c_waitA) (gors s) j _ Hw Ho). lia.
Qed.
Theorem parked_woken_by_close sched i nd cl :
  let s := run sched s0 in
  nth_error (gors s) i = Some (GRdPark nd cl) ->
  st s <> c_streamOpened -> epc s <> EHalfN -> cz c_pendcb (clos s) = 0 -> cz (gl c_pendcb) (gors s) = 0 ->
  nth_error (gors (step s (WGor i))) i <> Some (GRdPark nd cl).
Proof.
  intros s Hi Hst He Hc Hg. apply parked_enabled; [exact Hi|]. right. apply (wake sched); assumption.
Qed.

Theorem peer sched :
  let s := run sched s0 in
  ncl (processed s) > 0 -> epc s <> EHalf ->
  st s <> c_streamOpened /\ flush_res s = RErrStreamClosed /\ read_res s <> RBlocked /\
  (recv s ++ concat (pending s) = [] -> read_res s = REndOfStream).
Proof.
  intros s Hp He. pose proof (runAll sched s0 (initAll _ _ _ _ _ _ _ _)) as HA. fold s in HA.
  destruct HA as [_ _ [_ _ Hpeer] _ _].
  assert (Hst : st s <> c_streamOpened).
  { destruct (Hpeer Hp) as [H|H]; auto. destruct (epc s); simpl in H; try lia. congruence. }
  repeat split; auto; [apply flush_closed|apply read_not_blocked|]; auto.
  intros Hn. unfold read_res. rewrite Hn. destruct (Z.eqb_spec (st s) c_streamOpened); [congruence|reflexivity].
Qed.

(* the full statement: at quiescence after a returned Close() — from any goroutine, inside or during OnData,
   racing the peer's close notification, repeated — the stream is closed, out of the table, reported exactly
   once, and the peer was told unless it had told us *)
Theorem full sched :
  cb_stable cb0 sched ->
  let s := run sched s0 in quiesc s -> close_returned s -> closed_ok s.
Proof.
  intros Hs s. apply (full_inv cb0).
  - apply (runAll sched s0 (initAll _ _ _ _ _ _ _ _)).
  - apply runK; [exact Hs|apply initAll|apply initK].
Qed.
End C10.

(* ---------- two ends ---------- *)
Lemma step_io s w :
  (exists d, out (step s w) = out s ++ d) /\ processed (step s w) ++ inbox (step s w) = processed s ++ inbox s.
Proof.
  cases s w; brk; cb; rw_eqs; split;
    try (exists []; rewrite app_nil_r; reflexivity); try (eexists; reflexivity); try reflexivity;
    try (rewrite <- app_assoc; reflexivity); try (rewrite Ei; reflexivity).
Qed.
Lemma newout_app (e e' : est) d : out e' = out e ++ d -> newout e e' = d.
Proof.
  intros H. unfold newout. rewrite H. rewrite skipn_app, skipn_all, Nat.sub_diag. reflexivity.
Qed.

Lemma inboxP x s : InvP s -> InvP (set_inbox x s).
Proof. intros [H1 H2 H3 H3s H6 H7]. constructor; cb; assumption. Qed.
Lemma inboxA x s : InvA s -> InvA (set_inbox x s).
Proof. intros [H1 H2 H3 H4]. constructor; cb; assumption. Qed.
Lemma inboxT x s : InvT s -> InvT (set_inbox x s).
Proof. intros [H1 H2 H3]. constructor; cb; assumption. Qed.
Lemma inboxL x s : InvL s -> InvL (set_inbox x s).
Proof. intros [H1 H2 H3]. constructor; cb; assumption. Qed.
Lemma inboxC x s : InvC s -> InvC (set_inbox x s).
Proof. intros [H1 H2 H3 H4 H5 H6 H7 H8]. constructor; cb; assumption. Qed.
Lemma inboxR x s : InvR s -> InvR (set_inbox x s).
Proof. intros [H1]. constructor; cb; assumption. Qed.
Lemma inboxK cb0 x s : InvK cb0 s -> InvK cb0 (set_inbox x s).
Proof.
  intros [[H1 H2 H3 H4 H5 H6 H7 H8] [H9 H10 H11]]. constructor; constructor; unfold Wg in *; cb; assumption.
Qed.
Lemma inboxAll x s : InvAll s -> InvAll (set_inbox x s).
Proof. intros [H1 H2 H3 H4 H5]. constructor; [apply inboxP|apply inboxA|apply inboxT|apply inboxL|apply inboxC]; auto. Qed.

Record WInv (cba : bool) (w : world) : Prop := {
  w_a : InvAll (wa w); w_b : InvAll (wb w); w_ra : InvR (wa w); w_rb : InvR (wb w); w_ka : InvK cba (wa w);
  w_ab : processed (wb w) ++ inbox (wb w) = out (wa w);
  w_ba : processed (wa w) ++ inbox (wa w) = out (wb w) }.

(* on end A callbacks are installed from the start, or SetCallbacks is not called on A during the run *)
Definition wcb_stable (cba : bool) (sched : list (side * who)) : Prop := cba = true \/ ~ In (SA, WSet) sched.

Lemma wstepI cba w x : (cba = true \/ x <> (SA, WSet)) -> WInv cba w -> WInv cba (wstep w x).
Proof.
  intros Hx [Ha Hb Ra Rb Ka Hab Hba]. destruct x as [[|] t]; unfold wstep; cbn [fst snd].
  - destruct (step_io (wa w) t) as [[d Hd] Hio]. constructor; cbn [wa wb].
    + apply stepAll; auto.
    + apply inboxAll; auto.
    + apply stepR; auto.
    + apply inboxR; auto.
    + apply stepK; [|apply Ha|apply Ha|exact Ka].
      destruct Hx as [Hx|Hx]; [left; auto|right; intros ->; apply Hx; reflexivity].
    + cb. rewrite (newout_app _ _ _ Hd), app_assoc, Hab, Hd. reflexivity.
    + cb. rewrite Hio. exact Hba.
  - destruct (step_io (wb w) t) as [[d Hd] Hio]. constructor; cbn [wa wb].
    + apply inboxAll; auto.
    + apply stepAll; auto.
    + apply inboxR; auto.
    + apply stepR; auto.
    + apply inboxK; auto.
    + cb. rewrite Hio. exact Hab.
    + cb. rewrite (newout_app _ _ _ Hd), app_assoc, Hba, Hd. reflexivity.
Qed.
Lemma winitI cba cbb na nb sa sb ua ub : WInv cba (winit cba cbb na nb sa sb ua ub).
Proof. unfold winit, init. constructor; cbn [wa wb]; try apply initAll; try apply initR; try apply initK; reflexivity. Qed.
Lemma wrunI cba sched w : wcb_stable cba sched -> WInv cba w -> WInv cba (wrun sched w).
Proof.
  revert w; induction sched as [|x l IH]; simpl; intros w Hs H; auto. apply IH.
  - destruct Hs as [Hs|Hs]; [left; auto|right; intros Hi; apply Hs; right; exact Hi].
  - apply wstepI; auto. destruct Hs as [Hs|Hs]; [left; auto|right; intros ->; apply Hs; left; reflexivity].
Qed.

(* a Close() on end A reaches the peer: once B's event loop has drained its inbox, B's stream has left `opened` *)
Theorem propagates cba cbb na nb sa sb ua ub sched :
  wcb_stable cba sched ->
  let w := wrun sched (winit cba cbb na nb sa sb ua ub) in
  quiesc (wa w) -> close_returned (wa w) ->
  inbox (wb w) = [] -> epc (wb w) = EIdle ->
  st (wb w) <> c_streamOpened /\ flush_res (wb w) = RErrStreamClosed /\ read_res (wb w) <> RBlocked.
Proof.
  intros Hs w Hq Hr Hin He.
  pose proof (wrunI cba sched _ Hs (winitI cba cbb na nb sa sb ua ub)) as HW. fold w in HW.
  destruct HW as [Ha Hb Ra Rb Ka Hab Hba].
  assert (Hst : st (wb w) <> c_streamOpened).
  { assert (HA : (nremote (wa w) = 1 /\ ncl (out (wa w)) = 0) \/ (nlocal (wa w) = 1 /\ ncl (out (wa w)) = 1)).
    { destruct (full_inv cba (wa w) Ha Ka Hq Hr) as [_ [_ [_ [_ [_ H]]]]]. exact H. }
    destruct Hb as [_ [Bacc [Bn1 Bn2] _ Bsent] [_ _ Bpeer] _ _].
    destruct Ra as [Ra].
    destruct HA as [[Hrem _]|[_ Hsent]].
    - destruct Hq as [Qe _]. rewrite Qe in Ra. cbn [e_halfn e_half] in Ra.
      assert (Hp : ncl (processed (wa w)) >= 1) by lia.
      assert (Ho : ncl (out (wb w)) >= 1).
      { rewrite <- Hba, ncl_app. pose proof (ncl_nonneg (inbox (wa w))). lia. }
      czpos (wb w). intros E. rewrite E in Bacc. cbn in Bacc. uc. cbn in Bacc. lia.
    - rewrite Hin, app_nil_r in Hab. rewrite <- Hab in Hsent.
      destruct (Bpeer ltac:(lia)) as [H|H]; auto. rewrite He in H. simpl in H. lia. }
  split; [auto|split; [apply flush_closed|apply read_not_blocked]]; auto.
Qed.

