(* Invariant of the wake-up protocol model for any number of producers, every program and every
   schedule (C05). *)
From Coq Require Import List ZArith Lia Bool Arith.
From Shm Require Import Gen.Consts Model.Wakeup.
Import ListNotations.
Open Scope Z_scope.

Fixpoint sumf {A} (f : A -> nat) (l : list A) : nat :=
  match l with [] => O | x :: r => (f x + sumf f r)%nat end.

(* a producer that won markWorking and whose polling event is neither on the connection nor on sendCh yet *)
Definition preW (p : plocal) : nat := match pc p with PWr | PSlow | PEv => 1%nat | _ => 0%nat end.
(* a producer that has published its element and has not yet tried markWorking *)
Definition isM (p : plocal) : nat := match pc p with PMark => 1%nat | _ => 0%nat end.
(* the send loop holds a polling event it has taken from sendCh and not yet written *)
Definition hand (x : spc) : nat := match x with SCas EPoll | SWait EPoll | SWrite EPoll => 1%nat | _ => 0%nat end.

(* wake-ups on their way: polling events in flight, queued on sendCh, in the send loop's hands, or
   owed by a producer that won markWorking *)
Definition Wt (s : st) : nat := (npoll (sock s) + npoll (sendch s) + hand (sl s) + sumf preW (prods s))%nat.
Definition Mt (s : st) : nat := sumf isM (prods s).

Definition c_ok (s : st) : Prop :=
  match cons s with
  | CIdle => (flag s = true -> (Wt s > 0)%nat) /\ (tail s > head s -> (Wt s + Mt s > 0)%nat)
  | CPopT h => h = head s
  | CPopInc => head s < tail s
  | CSizeT => flag s = true -> (Wt s > 0)%nat
  | CSizeH t => (flag s = true -> (Wt s > 0)%nat) /\ (tail s > t -> (Wt s + Mt s > 0)%nat)
  (* the drain in front of a socket item never touches the flag: the idle consumer's obligation stays *)
  | CDrH => flag s = true -> (Wt s > 0)%nat
  | CDrT h => h = head s /\ (flag s = true -> (Wt s > 0)%nat)
  | CDrInc => head s < tail s /\ (flag s = true -> (Wt s > 0)%nat)
  | _ => True
  end.

Record Inv (s : st) : Prop := {
  i_ht : 0 <= head s <= tail s;
  i_cnt : (written s + sumf preW (prods s) + npoll (sendch s) + hand (sl s) = marks s)%nat;
  i_hd : (handled s + npoll (sock s) = written s)%nat;
  i_cons : c_ok s }.

(* ---------- list lemmas ---------- *)
Lemma nth_error_set_nth_eq {A} (l : list A) i x y :
  nth_error l i = Some y -> nth_error (set_nth i x l) i = Some x.
Proof. revert i; induction l as [|a l IH]; intros [|i] H; simpl in *; try discriminate; auto. Qed.
Lemma nth_error_set_nth_neq {A} (l : list A) i j x :
  i <> j -> nth_error (set_nth i x l) j = nth_error l j.
Proof. revert i j; induction l as [|a l IH]; intros [|i] [|j] H; simpl; auto; try congruence. Qed.
Lemma sumf_set_nth {A} (f : A -> nat) (l : list A) i p p' :
  nth_error l i = Some p -> (sumf f (set_nth i p' l) + f p = sumf f l + f p')%nat.
Proof.
  revert i; induction l as [|a l IH]; intros [|i] H; simpl in *; try discriminate.
  - inversion H; subst. lia.
  - specialize (IH i H). lia.
Qed.
Lemma sumf_pos {A} (f : A -> nat) (l : list A) :
  (sumf f l > 0)%nat -> exists i p, nth_error l i = Some p /\ (f p > 0)%nat.
Proof.
  induction l as [|a l IH]; simpl; intros H; [lia|].
  destruct (f a) eqn:E.
  - destruct IH as [i [p [Hp Hf]]]; [lia|]. exists (S i), p. auto.
  - exists O, a. simpl. split; auto. lia.
Qed.
Lemma sumf_zero {A} (f : A -> nat) (l : list A) :
  (forall p, In p l -> f p = 0%nat) -> sumf f l = 0%nat.
Proof. induction l as [|a l IH]; simpl; intros H; auto. rewrite (H a), IH; auto. Qed.
Lemma npoll_app a b : npoll (a ++ b) = (npoll a + npoll b)%nat.
Proof. unfold npoll. rewrite filter_app, app_length. reflexivity. Qed.

(* ---------- preservation ---------- *)
Lemma sumf_set_nth' {A} (f : A -> nat) (l : list A) i p p' a b :
  nth_error l i = Some p -> f p = a -> f p' = b -> (sumf f (set_nth i p' l) + a = sumf f l + b)%nat.
Proof. intros H <- <-. apply sumf_set_nth, H. Qed.

Ltac upd Hp Epc p' :=
  let H1 := fresh "Hw" in let H2 := fresh "Hm" in
  pose proof (sumf_set_nth' preW _ _ _ p' _ _ Hp ltac:(unfold preW; rewrite Epc; reflexivity) ltac:(unfold preW; simpl; reflexivity)) as H1;
  pose proof (sumf_set_nth' isM _ _ _ p' _ _ Hp ltac:(unfold isM; rewrite Epc; reflexivity) ltac:(unfold isM; simpl; reflexivity)) as H2;
  simpl in H1, H2.

Lemma npoll_poll : npoll [EPoll] = 1%nat. Proof. reflexivity. Qed.
Lemma npoll_other : npoll [EOther] = 0%nat. Proof. reflexivity. Qed.
Lemma npoll_cons_poll r : npoll (EPoll :: r) = S (npoll r). Proof. reflexivity. Qed.
Lemma npoll_cons_other r : npoll (EOther :: r) = npoll r. Proof. reflexivity. Qed.
Lemma npoll_nil : npoll [] = 0%nat. Proof. reflexivity. Qed.
Ltac nrm := simpl in *; rewrite ?npoll_app, ?npoll_poll, ?npoll_other, ?npoll_cons_poll, ?npoll_cons_other, ?npoll_nil in *; simpl in *.
Ltac fin_c Hc :=
  unfold c_ok, Wt, Mt in *; nrm;
  try (destruct (cons _); simpl in * ); intuition (try congruence; try lia).
Ltac fin_all Hc := constructor; [nrm; lia | nrm; lia | nrm; lia | fin_c Hc].

Lemma pstep_inv i s : Inv s -> Inv (pstep i s).
Proof.
  intros H. unfold pstep. destruct (nth_error (prods s) i) as [p|] eqn:Hp; auto.
  destruct H as [Hht Hcnt Hhd Hc].
  destruct (pc p) eqn:Epc.
  - (* PIdle *)
    destruct (todo p) as [|[|] r] eqn:Et; [constructor; auto| |].
    + upd Hp Epc (mkp PMark p).
      fin_all Hc.
    + upd Hp Epc (fin p).
      fin_all Hc.
  - (* PMark *)
    destruct (flag s) eqn:Ef.
    + upd Hp Epc (fin p). fin_all Hc.
    + upd Hp Epc (mkp PWr p). fin_all Hc.
  - (* PWr *)
    destruct (writing s) eqn:Ew.
    + upd Hp Epc (mkp PSlow p). fin_all Hc.
    + upd Hp Epc (mkp PEv p). fin_all Hc.
  - (* PSlow *)
    upd Hp Epc (fin p). fin_all Hc.
  - (* PEv *)
    upd Hp Epc (mkp PRel p). fin_all Hc.
  - (* PRel *)
    upd Hp Epc (mkp PNotify p). fin_all Hc.
  - (* PNotify *)
    upd Hp Epc (fin p). fin_all Hc.
Qed.

Lemma cstep_inv s : Inv s -> Inv (cstep s).
Proof.
  intros H. pose proof H as [Hht Hcnt Hhd Hc]. unfold c_ok, Wt, Mt in Hc. unfold cstep.
  destruct (cons s) eqn:Ec.
  - (* CIdle: take an event from the connection *)
    destruct (sock s) as [|[|] r] eqn:Es; [exact H | fin_all Hc | fin_all Hc].
  - fin_all Hc.
  - subst h. destruct (head s >=? tail s) eqn:Eh; [fin_all Hc|].
    rewrite Z.geb_leb in Eh. apply Z.leb_gt in Eh. fin_all Hc.
  - fin_all Hc.
  - fin_all Hc.
  - fin_all Hc.
  - destruct (t - head s =? 0) eqn:Et; [|fin_all Hc].
    apply Z.eqb_eq in Et. fin_all Hc.
  - fin_all Hc.
  - fin_all Hc.
  - destruct Hc as [Hh Hfw]. subst h. destruct (head s >=? tail s) eqn:Eh.
    + rewrite Z.geb_leb in Eh. apply Z.leb_le in Eh. fin_all Hfw.
    + rewrite Z.geb_leb in Eh. apply Z.leb_gt in Eh. fin_all Hfw.
  - fin_all Hc.
Qed.

Lemma sstep_inv s : Inv s -> Inv (sstep s).
Proof.
  intros H. pose proof H as [Hht Hcnt Hhd Hc]. unfold c_ok, Wt, Mt in Hc. unfold sstep.
  destruct (sl s) as [|e|e|e|] eqn:Es.
  - destruct (sendch s) as [|e r] eqn:Eq; [exact H|]. destruct e; fin_all Hc.
  - destruct (writing s); destruct e; fin_all Hc.
  - destruct (notif s); [|exact H]. destruct e; fin_all Hc.
  - destruct e; simpl; fin_all Hc.
  - fin_all Hc.
Qed.

Lemma init_inv progs : Inv (init progs).
Proof.
  assert (Hz : forall f, (forall p, pc p = PIdle -> f p = 0%nat) ->
               sumf f (map (fun t => {| pc := PIdle; todo := t; nsent := 0 |}) progs) = 0%nat).
  { intros f Hf. apply sumf_zero. intros p Hin. apply in_map_iff in Hin. destruct Hin as [t [<- _]]. apply Hf. reflexivity. }
  constructor; simpl; try lia.
  - rewrite Hz; [reflexivity|]. intros p Hp. unfold preW. rewrite Hp. reflexivity.
  - reflexivity.
  - unfold c_ok; simpl. split; [discriminate|lia].
Qed.

Lemma step_inv s w : Inv s -> Inv (step s w).
Proof. destruct w; simpl; [apply pstep_inv | apply cstep_inv | apply sstep_inv]. Qed.

Theorem run_inv progs sched : Inv (run sched (init progs)).
Proof.
  unfold run. generalize (init_inv progs). generalize (init progs).
  induction sched as [|w sched IH]; simpl; intros s H; auto. apply IH, step_inv, H.
Qed.

(* ---------- the statements of C05 ---------- *)

(* a producer between the publication of its element and the completion of its wake-up *)
Definition waking (p : plocal) : Prop :=
  match pc p with PMark | PWr | PSlow | PEv => True | _ => False end.

(* a polling event queued to be sent: on sendCh or taken from it by the send loop and not yet written *)
Definition queued_to_send (s : st) : nat := (npoll (sendch s) + hand (sl s))%nat.

Theorem inv_stranded progs sched :
  let s := run sched (init progs) in
  tail s > head s -> cons s = CIdle ->
  (npoll (sock s) > 0)%nat \/ (queued_to_send s > 0)%nat \/
  exists i p, nth_error (prods s) i = Some p /\ waking p.
Proof.
  intros s Hq Hc. pose proof (run_inv progs sched) as H. fold s in H.
  pose proof (i_cons s H) as Hk. unfold c_ok in Hk. rewrite Hc in Hk. destruct Hk as [_ Hk].
  specialize (Hk Hq). unfold Wt, Mt, queued_to_send in *.
  destruct (npoll (sock s)) eqn:E1; [|left; lia].
  destruct (npoll (sendch s) + hand (sl s))%nat eqn:E2; [|right; left; lia].
  right; right.
  assert (Hs : (sumf (fun p => preW p + isM p) (prods s) > 0)%nat).
  { assert (Hadd : forall l, sumf (fun p => preW p + isM p)%nat l = (sumf preW l + sumf isM l)%nat).
    { induction l as [|a l IH]; simpl; auto. rewrite IH. lia. }
    rewrite Hadd. lia. }
  apply sumf_pos in Hs. destruct Hs as [i [p [Hp Hf]]]. exists i, p. split; auto.
  unfold waking, preW, isM in *. destruct (pc p); simpl in Hf; auto; lia.
Qed.

Theorem quiescent_empty progs sched :
  let s := run sched (init progs) in
  (forall i p, nth_error (prods s) i = Some p -> ~ waking p) ->
  npoll (sock s) = 0%nat -> queued_to_send s = 0%nat -> cons s = CIdle ->
  tail s = head s.
Proof.
  intros s Hp Hs Hq Hc. pose proof (run_inv progs sched) as H. fold s in H.
  pose proof (i_ht s H) as Hht.
  destruct (Z.eq_dec (tail s) (head s)) as [|Hne]; auto.
  assert (Hgt : tail s > head s) by lia.
  pose proof (inv_stranded progs sched Hgt Hc) as HS. cbv zeta in HS. fold s in HS.
  destruct HS as [Ha|[Hb|[i [p [Hi Hw]]]]]; try lia.
  exfalso. apply (Hp i p Hi Hw).
Qed.

(* all producers finished: the form in which the property is stated *)
Definition finished (p : plocal) : Prop := pc p = PIdle /\ todo p = [].

Theorem quiescent_empty_finished progs sched :
  let s := run sched (init progs) in
  (forall p, In p (prods s) -> finished p) ->
  npoll (sock s) = 0%nat -> queued_to_send s = 0%nat -> cons s = CIdle ->
  tail s = head s.
Proof.
  intros s Hf. apply quiescent_empty. intros i p Hi Hw.
  apply nth_error_In in Hi. destruct (Hf p Hi) as [Hpc _]. unfold waking in Hw. rewrite Hpc in Hw. exact Hw.
Qed.

(* no more polling events are written than markWorking succeeded; every event handled was written *)
Theorem events_le_marks progs sched :
  let s := run sched (init progs) in
  (written s <= marks s)%nat /\ (handled s + npoll (sock s) = written s)%nat.
Proof.
  intros s. pose proof (run_inv progs sched) as H. fold s in H.
  pose proof (i_cnt s H). pose proof (i_hd s H). lia.
Qed.

(* while the flag is up and the consumer is idle a wake-up is on its way (never "busy" with nobody coming) *)
Theorem flag_up_has_wakeup progs sched :
  let s := run sched (init progs) in
  flag s = true -> cons s = CIdle -> (Wt s > 0)%nat.
Proof.
  intros s Hf Hc. pose proof (run_inv progs sched) as H. fold s in H.
  pose proof (i_cons s H) as Hk. unfold c_ok in Hk. rewrite Hc in Hk. apply Hk, Hf.
Qed.

(* the elements never outrun the counters *)
Theorem head_le_tail progs sched :
  let s := run sched (init progs) in 0 <= head s <= tail s.
Proof. intros s. apply (i_ht _ (run_inv progs sched)). Qed.
