(* C12 — proofs about Model/Handshake.v: codec round trip, wire/script invariant over all schedules
   (including stalls, deaths, timers and file removal), version / same-memory / acknowledgement
   consequences, resource accounting on the error paths, and the refutation witnesses. *)
From Coq Require Import List ZArith Bool Lia Arith.
From Shm Require Import Gen.Consts Model.Handshake.
Import ListNotations.
Open Scope Z_scope.

(* ------------------------------------------------------------------------------------------ *)
(* codec                                                                                       *)
(* ------------------------------------------------------------------------------------------ *)
Lemma rd16_u16be n : 0 <= n < 65536 -> rd16 ((n / 256) mod 256) (n mod 256) = n.
Proof. intros H. unfold rd16. rewrite (Z.mod_small (n / 256)) by (split; [apply Z.div_pos; lia | apply Z.div_lt_upper_bound; lia]).
  pose proof (Z.div_mod n 256 ltac:(lia)). lia. Qed.

Lemma rd32_u32be n : 0 <= n < 4294967296 ->
  rd32 ((n / 16777216) mod 256) ((n / 65536) mod 256) ((n / 256) mod 256) (n mod 256) = n.
Proof.
  intros H. unfold rd32.
  pose proof (Z.div_mod n 256 ltac:(lia)) as H0.
  pose proof (Z.div_mod (n / 256) 256 ltac:(lia)) as H1.
  pose proof (Z.div_mod (n / 256 / 256) 256 ltac:(lia)) as H2.
  rewrite Z.div_div in H1, H2 by lia. rewrite Z.div_div in H2 by lia.
  change (256 * 256) with 65536 in *. change (65536 * 256) with 16777216 in *.
  assert (0 <= n / 16777216 < 256) by (split; [apply Z.div_pos; lia | apply Z.div_lt_upper_bound; lia]).
  rewrite (Z.mod_small (n / 16777216)) by lia. lia.
Qed.

Lemma zlen_app {A} (a b : list A) : zlen (a ++ b) = zlen a + zlen b.
Proof. unfold zlen. rewrite app_length. lia. Qed.
Lemma zlen_nonneg {A} (a : list A) : 0 <= zlen a.
Proof. unfold zlen. lia. Qed.
Lemma firstn_zlen {A} (a b : list A) : firstn (Z.to_nat (zlen a)) (a ++ b) = a.
Proof. unfold zlen. rewrite Nat2Z.id. rewrite firstn_app, Nat.sub_diag, firstn_all. simpl. apply app_nil_r. Qed.
Lemma skipn_zlen {A} (a b : list A) : skipn (Z.to_nat (zlen a)) (a ++ b) = b.
Proof. unfold zlen. rewrite Nat2Z.id. rewrite skipn_app, Nat.sub_diag, skipn_all. reflexivity. Qed.

Definition meta_body (q b : bytes) : bytes := u16be (zlen q mod 65536) ++ q ++ u16be (zlen b mod 65536) ++ b.

Lemma generate_split ver ty q b :
  generate ver ty q b = encode_header (c_headerSize + 2 + zlen q + 2 + zlen b) ver ty ++ meta_body q b.
Proof. reflexivity. Qed.

(* the round trip: the receiver obtains (bufferPath, queuePath) exactly, for paths shorter than 2^16 *)
Lemma extract_meta_body q b : zlen q < 65536 -> zlen b < 65536 -> extract (meta_body q b) = Ok (b, q).
Proof.
  intros Hq Hb. pose proof (zlen_nonneg q) as Hq0. pose proof (zlen_nonneg b) as Hb0'.
  unfold meta_body. rewrite (Z.mod_small (zlen q) 65536), (Z.mod_small (zlen b) 65536) by lia.
  unfold extract, u16be.
  set (body := ([(zlen q / 256) mod 256; zlen q mod 256] ++ q ++ [(zlen b / 256) mod 256; zlen b mod 256] ++ b)).
  assert (Hn : zlen body = 2 + zlen q + 2 + zlen b).
  { unfold body, zlen. repeat rewrite app_length. simpl length. lia. }
  rewrite Hn.
  assert (H0 : nth 0 body 0 = (zlen q / 256) mod 256) by reflexivity.
  assert (H1 : nth 1 body 0 = zlen q mod 256) by reflexivity.
  rewrite H0, H1. rewrite (rd16_u16be (zlen q)) by lia.
  destruct (2 + zlen q + 2 + zlen b <? 2) eqn:E1; [apply Z.ltb_lt in E1; lia|].
  destruct (2 + zlen q + 2 + zlen b <? 2 + zlen q + 2) eqn:E3; [apply Z.ltb_lt in E3; lia|].
  assert (Hoff : Z.to_nat (2 + zlen q) = (2 + length q)%nat) by (unfold zlen; lia).
  rewrite Hoff.
  assert (Hb0 : nth (2 + length q) body 0 = (zlen b / 256) mod 256).
  { unfold body. change ([?x; ?y] ++ ?r) with (x :: y :: r). simpl nth.
    rewrite app_nth2 by lia. rewrite Nat.sub_diag. reflexivity. }
  assert (Hb1 : nth (S (2 + length q)) body 0 = zlen b mod 256).
  { unfold body. simpl nth. rewrite app_nth2 by lia.
    replace (S (length q) - length q)%nat with 1%nat by lia. reflexivity. }
  rewrite Hb0, Hb1. rewrite (rd16_u16be (zlen b)) by lia.
  destruct (2 + zlen q + 2 + zlen b <? 2 + zlen q + 2 + zlen b) eqn:E4; [apply Z.ltb_lt in E4; lia|].
  f_equal. f_equal.
  - unfold slice. replace (2 + zlen q + 2 + zlen b - (2 + zlen q + 2)) with (zlen b) by lia.
    replace (Z.to_nat (2 + zlen q + 2)) with (2 + (length q + 2))%nat by (unfold zlen; lia).
    unfold body. simpl skipn.
    rewrite <- (Nat.add_0_r (length q + 2)) at 1.
    replace (q ++ (zlen b / 256) mod 256 :: zlen b mod 256 :: b)
      with ((q ++ [(zlen b / 256) mod 256; zlen b mod 256]) ++ b) by (rewrite <- app_assoc; reflexivity).
    rewrite Nat.add_0_r.
    replace (length q + 2)%nat with (length (q ++ [(zlen b / 256) mod 256; zlen b mod 256])) by (rewrite app_length; reflexivity).
    rewrite skipn_app, Nat.sub_diag, skipn_all. simpl app.
    rewrite <- (app_nil_r b) at 2. apply firstn_zlen.
  - unfold slice. replace (2 + zlen q - 2) with (zlen q) by lia.
    unfold body. simpl skipn. apply firstn_zlen.
Qed.

Definition mkhdr (len ver ty : Z) : hdr := {| h_len := len; h_magic := c_magicNumber; h_ver := ver; h_type := ty |}.

Lemma magic_ok : rd16 ((c_magicNumber / 256) mod 256) (c_magicNumber mod 256) = c_magicNumber.
Proof. apply rd16_u16be. unfold c_magicNumber. lia. Qed.

Lemma parse_encode_header len ver ty rest :
  0 <= len < 4294967296 -> 0 <= ver < 256 -> 0 <= ty < 256 ->
  parse_header (encode_header len ver ty ++ rest) = Some (mkhdr len ver ty).
Proof.
  intros Hl Hv Ht. unfold encode_header, u32be, u16be. cbn [app parse_header].
  rewrite (Z.mod_small len), (Z.mod_small ver), (Z.mod_small ty) by lia.
  rewrite rd32_u32be by lia. rewrite magic_ok. reflexivity.
Qed.

Definition paths_ok (q b : bytes) : Prop := zlen q < 65536 /\ zlen b < 65536.

Lemma header_size_8 : c_headerSize = 8. Proof. reflexivity. Qed.

Lemma parse_generate ver ty q b :
  paths_ok q b -> 0 <= ver < 256 -> 0 <= ty < 256 ->
  parse_header (generate ver ty q b) = Some (mkhdr (c_headerSize + 2 + zlen q + 2 + zlen b) ver ty).
Proof.
  intros [Hq Hb] Hv Ht. pose proof (zlen_nonneg q). pose proof (zlen_nonneg b).
  rewrite generate_split. apply parse_encode_header; try lia. rewrite header_size_8. lia.
Qed.

Lemma encode_header_length len ver ty : length (encode_header len ver ty) = 8%nat.
Proof. reflexivity. Qed.

Lemma body_of_generate ver ty q b :
  paths_ok q b ->
  body_of (mkhdr (c_headerSize + 2 + zlen q + 2 + zlen b) ver ty) (generate ver ty q b) = Some (meta_body q b).
Proof.
  intros [Hq Hb]. pose proof (zlen_nonneg q). pose proof (zlen_nonneg b).
  unfold body_of. cbn [h_len mkhdr]. rewrite generate_split.
  replace (Z.to_nat c_headerSize) with (length (encode_header (c_headerSize + 2 + zlen q + 2 + zlen b) ver ty)) by reflexivity.
  rewrite skipn_app, Nat.sub_diag, skipn_all. cbn [app skipn].
  assert (Hn : zlen (meta_body q b) = 2 + zlen q + 2 + zlen b).
  { unfold meta_body, u16be, zlen. repeat rewrite app_length. simpl length. lia. }
  replace ((c_headerSize + 2 + zlen q + 2 + zlen b - c_headerSize) mod 4294967296) with (zlen (meta_body q b))
    by (rewrite Hn, Z.mod_small by lia; lia).
  rewrite Z.ltb_irrefl. f_equal. rewrite <- (app_nil_r (meta_body q b)) at 2. apply firstn_zlen.
Qed.

(* the property-level statement of the codec *)
Lemma codec_roundtrip ver ty q b :
  paths_ok q b -> 0 <= ver < 256 -> 0 <= ty < 256 ->
  exists h body, parse_header (generate ver ty q b) = Some h /\ h_ver h = ver /\ h_type h = ty /\
                 h_magic h = c_magicNumber /\ h_len h = zlen (generate ver ty q b) /\
                 body_of h (generate ver ty q b) = Some body /\ extract body = Ok (b, q).
Proof.
  intros Hp Hv Ht. exists (mkhdr (c_headerSize + 2 + zlen q + 2 + zlen b) ver ty), (meta_body q b).
  split; [apply parse_generate; assumption|]. repeat split.
  - cbn [h_len mkhdr]. rewrite generate_split. unfold meta_body, u16be, zlen. repeat rewrite app_length.
    rewrite encode_header_length. simpl length. rewrite header_size_8. lia.
  - apply body_of_generate; assumption.
  - destruct Hp. apply extract_meta_body; assumption.
Qed.

(* ------------------------------------------------------------------------------------------ *)
(* protocol: step lemmas for the frames the honest peers write                                 *)
(* ------------------------------------------------------------------------------------------ *)
(* the server's generation: at least ours, and a byte *)
Definition gens_ok (cfg : config) : Prop := c_maxSupportProtoVersion <= sgen cfg < 256.
Definition good (cfg : config) : Prop :=
  paths_ok (qpath cfg) (bpath cfg) /\ (qpath cfg <> bpath cfg /\ gens_ok cfg).

Lemma read_hdr8 v t rest po : 0 <= v < 256 -> 0 <= t < 256 ->
  read_frame (hdr8 v t :: rest) po = RdHdr (mkhdr c_headerSize v t) (encode_header c_headerSize v t) rest.
Proof.
  intros Hv Ht. unfold read_frame, hdr8.
  rewrite <- (app_nil_r (encode_header c_headerSize v t)) at 1.
  rewrite parse_encode_header by (rewrite ?header_size_8; lia). reflexivity.
Qed.

Lemma read_generate v t q b rest po : paths_ok q b -> 0 <= v < 256 -> 0 <= t < 256 ->
  read_frame (FBytes (generate v t q b) :: rest) po =
  RdHdr (mkhdr (c_headerSize + 2 + zlen q + 2 + zlen b) v t) (generate v t q b) rest.
Proof. intros Hp Hv Ht. unfold read_frame. rewrite parse_generate by assumption. reflexivity. Qed.

Lemma check_valid_ok l v t : v <> 0 -> c_minEventType <= t <= c_maxEventType -> check_valid (mkhdr l v t) = None.
Proof.
  intros Hv Ht. unfold check_valid. cbn [h_magic h_ver h_type mkhdr].
  rewrite Z.eqb_refl. cbn [negb orb].
  destruct (v =? 0) eqn:E; [apply Z.eqb_eq in E; lia|].
  destruct (t <? c_minEventType) eqn:E1; [apply Z.ltb_lt in E1; lia|].
  destruct (c_maxEventType <? t) eqn:E2; [apply Z.ltb_lt in E2; lia|]. reflexivity.
Qed.
Lemma expect_ok l v t : v <> 0 -> c_minEventType <= t <= c_maxEventType -> expect (mkhdr l v t) t = None.
Proof. intros Hv Ht. unfold expect. rewrite check_valid_ok by assumption. cbn [h_type mkhdr]. rewrite Z.eqb_refl. reflexivity. Qed.

Ltac consts := unfold c_maxSupportProtoVersion, c_protoVersion, c_typeExchangeProtoVersion,
  c_typeShareMemoryByFilePath, c_typeShareMemoryByMemfd, c_typeAckShareMemory, c_typeAckReadyRecvFD,
  c_minEventType, c_maxEventType, c_headerSize in *.

Lemma min_gens cfg : gens_ok cfg -> Z.min c_maxSupportProtoVersion (sgen cfg) = 3.
Proof. unfold gens_ok, c_maxSupportProtoVersion. lia. Qed.

Lemma cstep_waitver cfg ver rest po : mt cfg = MMemfd -> gens_ok cfg ->
  cstep cfg CWaitVer ver (hdr8 (sgen cfg) c_typeExchangeProtoVersion :: rest) po =
  Some (cwrite po 3 rest [FBytes (encode_header c_headerSize (sgen cfg) c_typeExchangeProtoVersion)]
          [FBytes (generate 3 c_typeShareMemoryByMemfd (qpath cfg) (bpath cfg))] CWaitAckReady).
Proof.
  intros Hm G. pose proof (min_gens cfg G) as Hmin. unfold gens_ok in G. unfold c_maxSupportProtoVersion in G.
  unfold cstep. rewrite read_hdr8 by (consts; lia). rewrite expect_ok by (consts; lia).
  cbn [h_ver mkhdr]. rewrite Hmin. rewrite Hm. reflexivity.
Qed.
Lemma cstep_waitackready cfg rest po :
  cstep cfg CWaitAckReady 3 (hdr8 3 c_typeAckReadyRecvFD :: rest) po =
  Some (cwrite po 3 rest [FBytes (encode_header c_headerSize 3 c_typeAckReadyRecvFD)]
          [FFds [bobj cfg; qobj cfg]] CWaitAckShare).
Proof. unfold cstep. rewrite read_hdr8 by (consts; lia). rewrite expect_ok by (consts; lia). reflexivity. Qed.
Lemma cstep_waitackshare cfg rest po :
  cstep cfg CWaitAckShare 3 (hdr8 3 c_typeAckShareMemory :: rest) po =
  Some {| co_pc := CDone ROk; co_ver := 3; co_inbox := rest;
          co_cons := [FBytes (encode_header c_headerSize 3 c_typeAckShareMemory)]; co_write := [] |}.
Proof. unfold cstep. rewrite read_hdr8 by (consts; lia). rewrite expect_ok by (consts; lia). reflexivity. Qed.

Lemma handle_file_generate f ver v t q b rest po ack : paths_ok q b ->
  handle_file f ver (mkhdr (c_headerSize + 2 + zlen q + 2 + zlen b) v t) (generate v t q b) rest po ack =
  match lookup q f with
  | None => Some (sfail ver None rest [FBytes (generate v t q b)] (RErr EMapQueue))
  | Some qo =>
      match lookup b f with
      | None => Some (sfail ver (Some (q, qo)) rest [FBytes (generate v t q b)] (RErr EMapBuffer))
      | Some bo =>
          match ack with
          | [] => Some {| so_pc := SDone ROk; so_ver := ver; so_mapq := Some (q, qo); so_mapb := Some (b, bo);
                          so_inbox := rest; so_cons := [FBytes (generate v t q b)]; so_write := [] |}
          | _ => if po
                 then Some {| so_pc := SDone ROk; so_ver := ver; so_mapq := Some (q, qo); so_mapb := Some (b, bo);
                              so_inbox := rest; so_cons := [FBytes (generate v t q b)]; so_write := ack |}
                 else Some {| so_pc := SDone (RErr EPipe); so_ver := ver; so_mapq := Some (q, qo); so_mapb := Some (b, bo);
                              so_inbox := rest; so_cons := [FBytes (generate v t q b)]; so_write := [] |}
          end
      end
  end.
Proof.
  intros Hp. unfold handle_file. cbn [h_len mkhdr].
  assert (Hl : (c_headerSize + 2 + zlen q + 2 + zlen b <? c_headerSize) = false)
    by (apply Z.ltb_ge; pose proof (zlen_nonneg q); pose proof (zlen_nonneg b); lia).
  rewrite Hl. rewrite body_of_generate by assumption.
  destruct Hp as [Hq Hb]. rewrite extract_meta_body by assumption. reflexivity.
Qed.

Lemma handle_file_generate_v2 f ver v t q b rest po : paths_ok q b ->
  handle_file f ver (mkhdr (c_headerSize + 2 + zlen q + 2 + zlen b) v t) (generate v t q b) rest po [] =
  match lookup q f with
  | None => Some (sfail ver None rest [FBytes (generate v t q b)] (RErr EMapQueue))
  | Some qo =>
      match lookup b f with
      | None => Some (sfail ver (Some (q, qo)) rest [FBytes (generate v t q b)] (RErr EMapBuffer))
      | Some bo => Some {| so_pc := SDone ROk; so_ver := ver; so_mapq := Some (q, qo); so_mapb := Some (b, bo);
                           so_inbox := rest; so_cons := [FBytes (generate v t q b)]; so_write := [] |}
      end
  end.
Proof. intros Hp. rewrite handle_file_generate by assumption. reflexivity. Qed.

Lemma sstep_first_file g f ver q b rest po : paths_ok q b ->
  sstep g f SWaitFirst ver (FBytes (generate c_protoVersion c_typeShareMemoryByFilePath q b) :: rest) po =
  handle_file f 2 (mkhdr (c_headerSize + 2 + zlen q + 2 + zlen b) c_protoVersion c_typeShareMemoryByFilePath)
              (generate c_protoVersion c_typeShareMemoryByFilePath q b) rest po [].
Proof.
  intros Hp. unfold sstep. rewrite read_generate by (try assumption; consts; lia).
  rewrite check_valid_ok by (consts; lia). reflexivity.
Qed.
Lemma sstep_first_exch cfg f ver rest po : gens_ok cfg ->
  sstep (sgen cfg) f SWaitFirst ver (hdr8 c_maxSupportProtoVersion c_typeExchangeProtoVersion :: rest) po =
  if po
  then Some {| so_pc := SWaitMeta; so_ver := 3; so_mapq := None; so_mapb := None; so_inbox := rest;
               so_cons := [FBytes (encode_header c_headerSize c_maxSupportProtoVersion c_typeExchangeProtoVersion)];
               so_write := [hdr8 (sgen cfg) c_typeExchangeProtoVersion] |}
  else Some (sfail 3 None rest [FBytes (encode_header c_headerSize c_maxSupportProtoVersion c_typeExchangeProtoVersion)] (RErr EPipe)).
Proof.
  intros G. pose proof (min_gens cfg G) as Hmin. unfold gens_ok in G.
  unfold sstep. rewrite read_hdr8 by (consts; lia). rewrite check_valid_ok by (consts; lia).
  cbn [h_ver h_type mkhdr].
  change (c_maxSupportProtoVersion =? c_initializerVersion_2) with false.
  change (c_initializerVersion_3 <=? c_maxSupportProtoVersion) with true. cbv iota.
  destruct (c_maxSupportProtoVersion <=? sgen cfg) eqn:E; [|apply Z.leb_gt in E; lia]. cbn [andb].
  rewrite Z.eqb_refl. rewrite Hmin. reflexivity.
Qed.
Lemma sstep_meta_memfd g f q b rest po : paths_ok q b ->
  sstep g f SWaitMeta 3 (FBytes (generate 3 c_typeShareMemoryByMemfd q b) :: rest) po =
  if po
  then Some {| so_pc := SWaitFds b q; so_ver := 3; so_mapq := None; so_mapb := None; so_inbox := rest;
               so_cons := [FBytes (generate 3 c_typeShareMemoryByMemfd q b)];
               so_write := [hdr8 3 c_typeAckReadyRecvFD] |}
  else Some (sfail 3 None rest [FBytes (generate 3 c_typeShareMemoryByMemfd q b)] (RErr EPipe)).
Proof.
  intros Hp. unfold sstep. rewrite read_generate by (try assumption; consts; lia).
  rewrite check_valid_ok by (consts; lia). cbn [h_type mkhdr].
  change (c_typeShareMemoryByMemfd =? c_typeShareMemoryByFilePath) with false.
  change (c_typeShareMemoryByMemfd =? c_typeShareMemoryByMemfd) with true. cbv iota.
  cbn [h_len mkhdr].
  assert (Hl : (c_headerSize + 2 + zlen q + 2 + zlen b <? c_headerSize) = false)
    by (apply Z.ltb_ge; pose proof (zlen_nonneg q); pose proof (zlen_nonneg b); lia).
  rewrite Hl. rewrite body_of_generate by assumption. destruct Hp as [Hq Hb]. rewrite extract_meta_body by assumption.
  reflexivity.
Qed.

(* ------------------------------------------------------------------------------------------ *)
(* list facts for the wire invariant                                                           *)
(* ------------------------------------------------------------------------------------------ *)
Definition prefix {A} (a s : list A) : Prop := exists r, s = a ++ r.

Lemma inbox_cases {A} (script out cons inbox : list A) :
  prefix out script -> out = cons ++ inbox ->
  inbox = [] \/ exists f rest, inbox = f :: rest /\ nth_error script (length cons) = Some f.
Proof.
  intros [r ->] ->. destruct inbox as [|f rest]; [left; reflexivity|right].
  exists f, rest. split; [reflexivity|]. rewrite <- app_assoc. rewrite nth_error_app2 by lia.
  rewrite Nat.sub_diag. reflexivity.
Qed.
Lemma prefix_snoc {A} (a s : list A) f : prefix a s -> nth_error s (length a) = Some f -> prefix (a ++ [f]) s.
Proof.
  intros [r ->] H. rewrite nth_error_app2 in H by lia. rewrite Nat.sub_diag in H.
  destruct r as [|x r']; [discriminate|]. cbn in H. injection H as ->.
  exists r'. rewrite <- app_assoc. reflexivity.
Qed.
Lemma prefix_nil {A} (s : list A) : prefix [] s.
Proof. exists s. reflexivity. Qed.
Lemma prefix_length {A} (a s : list A) : prefix a s -> (length a <= length s)%nat.
Proof. intros [r ->]. rewrite app_length. lia. Qed.

Lemma bytes_eqb_refl a : bytes_eqb a a = true.
Proof. induction a as [|x a IH]; [reflexivity|]. cbn. rewrite Z.eqb_refl, IH. reflexivity. Qed.
Lemma bytes_eqb_eq a : forall b, bytes_eqb a b = true -> a = b.
Proof.
  induction a as [|x a IH]; intros [|y b] H; try discriminate; [reflexivity|].
  cbn in H. apply andb_true_iff in H. destruct H as [H1 H2]. apply Z.eqb_eq in H1. f_equal; auto.
Qed.
Lemma lookup_remove_same p f : lookup p (remove_path p f) = None.
Proof.
  induction f as [|[p0 o0] f IH]; cbn; [reflexivity|].
  destruct (bytes_eqb p p0) eqn:E; [assumption|]. cbn. rewrite E. assumption.
Qed.
Lemma lookup_remove p p' f o : lookup p (remove_path p' f) = Some o -> lookup p f = Some o.
Proof.
  induction f as [|[p0 o0] f IH]; cbn; [auto|].
  destruct (bytes_eqb p' p0) eqn:E.
  - intros H. destruct (bytes_eqb p p0) eqn:E2; [|auto].
    apply bytes_eqb_eq in E. apply bytes_eqb_eq in E2. subst.
    rewrite lookup_remove_same in H. discriminate.
  - cbn. destruct (bytes_eqb p p0); auto.
Qed.

(* ------------------------------------------------------------------------------------------ *)
(* the invariant                                                                               *)
(* ------------------------------------------------------------------------------------------ *)
Definition cinv (cfg : config) (w : world) : Prop :=
  match cpc (wc w) with
  | CStart => c_out w = [] /\ c_cons w = []
  | CWaitVer => mt cfg = MMemfd /\ length (c_out w) = 1%nat /\ c_cons w = []
  | CWaitAckReady => mt cfg = MMemfd /\ length (c_out w) = 2%nat /\ length (c_cons w) = 1%nat /\ cver (wc w) = 3
  | CWaitAckShare => mt cfg = MMemfd /\ length (c_out w) = 3%nat /\ length (c_cons w) = 2%nat /\ cver (wc w) = 3
  | CDone ROk => cver (wc w) = negotiated cfg /\ (mt cfg = MMemfd -> length (c_cons w) = 3%nat)
  | CDone _ => True
  end.

Definition same_maps (cfg : config) (mq mb : option mapping) : Prop :=
  mq = Some (qpath cfg, qobj cfg) /\ mb = Some (bpath cfg, bobj cfg).

Definition sinv (cfg : config) (w : world) : Prop :=
  match spc (ws w) with
  | SWaitFirst => s_cons w = [] /\ s_out w = []
  | SWaitMeta => mt cfg = MMemfd /\ length (s_cons w) = 1%nat /\ length (s_out w) = 1%nat /\ sver (ws w) = 3
  | SWaitFds bp qp => mt cfg = MMemfd /\ length (s_cons w) = 2%nat /\ length (s_out w) = 2%nat /\ sver (ws w) = 3
                      /\ bp = bpath cfg /\ qp = qpath cfg
  | SDone ROk => sver (ws w) = negotiated cfg /\ (mt cfg = MMemfd -> length (s_out w) = 3%nat)
                 /\ (sopen (ws w) = true -> sret (ws w) = None \/ sret (ws w) = Some ROk ->
                     same_maps cfg (smapq (ws w)) (smapb (ws w)))
  | SDone _ => (length (s_out w) <= 2)%nat
  end.

Definition crinv (cfg : config) (w : world) : Prop :=
  match cret (wc w) with
  | None => copen (wc w) = true -> same_maps cfg (cmapq (wc w)) (cmapb (wc w))
  | Some ROk => cpc (wc w) = CDone ROk /\ (copen (wc w) = true -> same_maps cfg (cmapq (wc w)) (cmapb (wc w)))
  | Some _ => cmapq (wc w) = None /\ cmapb (wc w) = None /\ cdup (wc w) = false /\ (exists r, cpc (wc w) = CDone r)
  end.

Definition srinv (w : world) : Prop :=
  match spc (ws w) with SDone _ => True | _ => smapq (ws w) = None /\ smapb (ws w) = None end /\
  match sret (ws w) with
  | None => True
  | Some ROk => spc (ws w) = SDone ROk
  | Some (RErr e) => (exists r, spc (ws w) = SDone r) /\ smapq (ws w) = None /\ smapb (ws w) = None /\ sdup (ws w) = false
  | Some (RPanic y) => spc (ws w) = SDone (RPanic y) /\ smapq (ws w) = None /\ smapb (ws w) = None
  end.

Record Inv (cfg : config) (w : world) : Prop := {
  i_w1 : prefix (c_out w) (cscript cfg);
  i_w2 : c_out w = s_cons w ++ c2s w;
  i_w3 : prefix (s_out w) (sscript cfg);
  i_w4 : s_out w = c_cons w ++ s2c w;
  i_c : cinv cfg w;
  i_s : sinv cfg w;
  i_fs : forall p o, lookup p (fs w) = Some o -> lookup p (fs (init cfg)) = Some o;
  i_cr : crinv cfg w;
  i_sr : srinv w }.

Lemma inv_init cfg : Inv cfg (init cfg).
Proof.
  constructor; unfold init; cbn.
  - apply prefix_nil.
  - reflexivity.
  - apply prefix_nil.
  - reflexivity.
  - unfold cinv. cbn. destruct (client_rejects cfg); cbn; auto.
  - unfold sinv. cbn. auto.
  - auto.
  - unfold crinv, same_maps. cbn. destruct (client_rejects cfg); cbn; eauto 6.
  - unfold srinv. cbn. auto.
Qed.

Lemma lookup_init_q cfg : mt cfg = MFile -> lookup (qpath cfg) (fs (init cfg)) = Some (qobj cfg).
Proof. intros H. unfold init. cbn. rewrite H. cbn. rewrite bytes_eqb_refl. reflexivity. Qed.
Lemma lookup_init_b cfg : good cfg -> mt cfg = MFile -> lookup (bpath cfg) (fs (init cfg)) = Some (bobj cfg).
Proof.
  intros [_ [Hne _]] H. unfold init. cbn. rewrite H. cbn.
  destruct (bytes_eqb (bpath cfg) (qpath cfg)) eqn:E.
  - apply bytes_eqb_eq in E. congruence.
  - rewrite bytes_eqb_refl. reflexivity.
Qed.

Lemma negotiated_file cfg : gens_ok cfg -> mt cfg = MFile -> negotiated cfg = 2.
Proof. intros A H. unfold gens_ok in A. unfold negotiated, client_version. rewrite H. unfold c_protoVersion, c_maxSupportProtoVersion in *. lia. Qed.
Lemma negotiated_memfd cfg : gens_ok cfg -> mt cfg = MMemfd -> negotiated cfg = 3.
Proof. intros G H. unfold negotiated, client_version. rewrite H. apply min_gens. assumption. Qed.

Ltac wproj := cbn [wc ws c2s s2c fs c_out c_cons s_out s_cons cpc cver cmapq cmapb cdup cret copen cstall ctimed stimed
                   spc sver smapq smapb sdup sret sopen sstall
                   co_pc co_ver co_inbox co_cons co_write so_pc so_ver so_mapq so_mapb so_inbox so_cons so_write] in *.

(* ---- a client thread step ---- *)
Definition c_apply (w : world) (o : cstep_out) : world :=
  let c := wc w in
  {| wc := {| cpc := co_pc o; cver := co_ver o; cmapq := cmapq c; cmapb := cmapb c; cdup := cdup c;
              cret := cret c; copen := copen c; cstall := cstall c; ctimed := ctimed c |};
     ws := ws w; c2s := c2s w ++ co_write o; s2c := co_inbox o; fs := fs w;
     c_out := c_out w ++ co_write o; c_cons := c_cons w ++ co_cons o;
     s_out := s_out w; s_cons := s_cons w |}.

Lemma c_apply_inv cfg w o :
  Inv cfg w ->
  (match cpc (wc w) with CDone _ => False | _ => True end) ->
  s2c w = co_cons o ++ co_inbox o ->
  prefix (c_out w ++ co_write o) (cscript cfg) ->
  cinv cfg (c_apply w o) ->
  Inv cfg (c_apply w o).
Proof.
  intros I Hpc Hsplit Hpre Hc. destruct I as [W1 W2 W3 W4 Ic Is Ifs Icr Isr]. constructor; unfold c_apply; wproj; auto.
  - rewrite W2, app_assoc. reflexivity.
  - rewrite W4, Hsplit, app_assoc. reflexivity.
  - unfold crinv in *. wproj. destruct (cret (wc w)) as [[| |]|]; auto.
    + destruct Icr as [E _]. rewrite E in Hpc. contradiction.
    + destruct Icr as (_ & _ & _ & r & E). rewrite E in Hpc. contradiction.
    + destruct Icr as (_ & _ & _ & r & E). rewrite E in Hpc. contradiction.
Qed.

Lemma c_apply_fail cfg w ver inbox cons e :
  Inv cfg w ->
  (match cpc (wc w) with CDone _ => False | _ => True end) ->
  s2c w = cons ++ inbox ->
  Inv cfg (c_apply w (cfail ver inbox cons e)).
Proof.
  intros I Hpc Hs. apply c_apply_inv; auto; unfold cfail; wproj; auto.
  - rewrite app_nil_r. apply I.
  - unfold cinv, c_apply. wproj. exact Logic.I.
Qed.

Lemma inv_LC cfg w : good cfg -> Inv cfg w -> Inv cfg (step cfg w LC).
Proof.
  intros [Hp [Hne Hg]] I. unfold step. destruct (c_running (wc w)); [|assumption].
  pose proof (i_c _ _ I) as Hc. pose proof (i_w3 _ _ I) as H3. pose proof (i_w4 _ _ I) as H4.
  pose proof (i_w1 _ _ I) as H1.
  unfold cinv in Hc.
  destruct (cpc (wc w)) eqn:Epc.
  - (* CStart *)
    destruct Hc as [Ho Hcons]. cbn [cstep].
    destruct (mt cfg) eqn:Hm; unfold cwrite; destruct (sopen (ws w) && negb (ctimed (wc w))).
    + apply (c_apply_inv cfg w); wproj; auto; try (rewrite Epc; exact Logic.I).
      * rewrite Ho. cbn [app]. unfold cscript. rewrite Hm. exists []. reflexivity.
      * unfold cinv, c_apply. wproj. split; [rewrite negotiated_file by assumption; reflexivity|congruence].
    + apply (c_apply_fail cfg w (c_protoVersion) (s2c w) [] EPipe); auto. rewrite Epc; exact Logic.I.
    + apply (c_apply_inv cfg w); wproj; auto; try (rewrite Epc; exact Logic.I).
      * rewrite Ho. cbn [app]. unfold cscript. rewrite Hm. eexists. reflexivity.
      * unfold cinv, c_apply. wproj. rewrite Ho, Hcons. auto.
    + apply (c_apply_fail cfg w (cver (wc w)) (s2c w) [] EPipe); auto. rewrite Epc; exact Logic.I.
  - (* CWaitVer *)
    destruct Hc as (Hm & Hlo & Hcons).
    destruct (inbox_cases _ _ _ _ H3 H4) as [E | (f & rest & E & Hn)].
    + rewrite E. cbn [cstep read_frame]. destruct (sopen (ws w) && negb (ctimed (wc w))); [assumption|].
      apply (c_apply_fail cfg w (cver (wc w)) [] [] EEOF); auto. rewrite Epc; exact Logic.I.
    + rewrite Hcons in Hn. unfold sscript in Hn. rewrite Hm in Hn. cbn in Hn. injection Hn as <-.
      rewrite E, cstep_waitver by assumption. unfold cwrite. destruct (sopen (ws w) && negb (ctimed (wc w))).
      * apply (c_apply_inv cfg w); wproj; auto; try (rewrite Epc; exact Logic.I).
        -- apply prefix_snoc; [assumption|]. rewrite Hlo. unfold cscript. rewrite Hm. reflexivity.
        -- unfold cinv, c_apply. wproj. rewrite Hcons, app_length, Hlo. auto.
      * apply (c_apply_fail cfg w 3 rest _ EPipe); auto. rewrite Epc; exact Logic.I.
  - (* CWaitAckReady *)
    destruct Hc as (Hm & Hlo & Hlc & Hv).
    destruct (inbox_cases _ _ _ _ H3 H4) as [E | (f & rest & E & Hn)].
    + rewrite E. cbn [cstep read_frame]. destruct (sopen (ws w) && negb (ctimed (wc w))); [assumption|].
      apply (c_apply_fail cfg w (cver (wc w)) [] [] EEOF); auto. rewrite Epc; exact Logic.I.
    + rewrite Hlc in Hn. unfold sscript in Hn. rewrite Hm in Hn. cbn in Hn. injection Hn as <-.
      rewrite E, Hv, cstep_waitackready. unfold cwrite. destruct (sopen (ws w) && negb (ctimed (wc w))).
      * apply (c_apply_inv cfg w); wproj; auto; try (rewrite Epc; exact Logic.I).
        -- apply prefix_snoc; [assumption|]. rewrite Hlo. unfold cscript. rewrite Hm. reflexivity.
        -- unfold cinv, c_apply. wproj. rewrite !app_length, Hlo, Hlc. auto.
      * apply (c_apply_fail cfg w 3 rest _ EPipe); auto. rewrite Epc; exact Logic.I.
  - (* CWaitAckShare *)
    destruct Hc as (Hm & Hlo & Hlc & Hv).
    destruct (inbox_cases _ _ _ _ H3 H4) as [E | (f & rest & E & Hn)].
    + rewrite E. cbn [cstep read_frame]. destruct (sopen (ws w) && negb (ctimed (wc w))); [assumption|].
      apply (c_apply_fail cfg w (cver (wc w)) [] [] EEOF); auto. rewrite Epc; exact Logic.I.
    + rewrite Hlc in Hn. unfold sscript in Hn. rewrite Hm in Hn. cbn in Hn. injection Hn as <-.
      rewrite E, Hv, cstep_waitackshare.
      apply (c_apply_inv cfg w); wproj; auto; try (rewrite Epc; exact Logic.I).
      * rewrite app_nil_r. assumption.
      * unfold cinv, c_apply. wproj. rewrite negotiated_memfd by assumption.
        split; [reflexivity|]. intros _. rewrite app_length, Hlc. reflexivity.
  - (* CDone *) cbn [cstep]. assumption.
Qed.

(* ---- a server thread step ---- *)
Definition s_apply (w : world) (o : sstep_out) : world :=
  let s := ws w in
  {| wc := wc w;
     ws := {| spc := so_pc o; sver := so_ver o; smapq := so_mapq o; smapb := so_mapb o; sdup := sdup s;
              sret := sret s; sopen := sopen s; sstall := sstall s; stimed := stimed s |};
     c2s := so_inbox o; s2c := s2c w ++ so_write o; fs := fs w;
     c_out := c_out w; c_cons := c_cons w;
     s_out := s_out w ++ so_write o; s_cons := s_cons w ++ so_cons o |}.

Definition not_done (pc : spc_t) : Prop := match pc with SDone _ => False | _ => True end.

Lemma s_apply_inv cfg w o :
  Inv cfg w -> not_done (spc (ws w)) ->
  c2s w = so_cons o ++ so_inbox o ->
  prefix (s_out w ++ so_write o) (sscript cfg) ->
  sinv cfg (s_apply w o) ->
  (match so_pc o with SDone _ => True | _ => so_mapq o = None /\ so_mapb o = None end) ->
  Inv cfg (s_apply w o).
Proof.
  intros I Hpc Hsplit Hpre Hs Hm. destruct I as [W1 W2 W3 W4 Ic Is Ifs Icr Isr].
  constructor; unfold s_apply; wproj; auto.
  - rewrite W2, Hsplit, app_assoc. reflexivity.
  - rewrite W4, app_assoc. reflexivity.
  - unfold srinv in *. wproj. destruct Isr as [_ Isr]. split; [assumption|].
    destruct (sret (ws w)) as [[|e|y]|]; auto.
    + rewrite Isr in Hpc. contradiction.
    + destruct Isr as [[r E] _]. rewrite E in Hpc. contradiction.
    + destruct Isr as [E _]. rewrite E in Hpc. contradiction.
Qed.

Lemma s_apply_fail cfg w ver mq inbox cons e :
  Inv cfg w -> not_done (spc (ws w)) ->
  c2s w = cons ++ inbox -> (length (s_out w) <= 2)%nat ->
  Inv cfg (s_apply w (sfail ver mq inbox cons (RErr e))).
Proof.
  intros I Hpc Hs Hl. apply s_apply_inv; auto; unfold sfail; wproj; auto.
  - rewrite app_nil_r. apply I.
  - unfold sinv, s_apply. wproj. rewrite app_nil_r. assumption.
Qed.

Ltac sfold w :=
  match goal with
  | |- Inv ?cfg match Some ?o with _ => _ end => change (Inv cfg (s_apply w o))
  | |- Inv ?cfg _ => match goal with |- context [so_pc ?o] => change (Inv cfg (s_apply w o)) end
  end.

Lemma inv_LS cfg w : good cfg -> Inv cfg w -> Inv cfg (step cfg w LS).
Proof.
  intros [Hp [Hne Hg]] I. unfold step. destruct (s_running (ws w)); [|assumption].
  pose proof (i_s _ _ I) as Hs. pose proof (i_w1 _ _ I) as H1. pose proof (i_w2 _ _ I) as H2.
  pose proof (i_w3 _ _ I) as H3. pose proof (i_fs _ _ I) as Hfs.
  unfold sinv in Hs. fold (s_apply w).
  destruct (spc (ws w)) eqn:Epc.
  - (* SWaitFirst *)
    destruct Hs as [Hcons Hout].
    assert (Hnd : not_done (spc (ws w))) by (rewrite Epc; exact Logic.I).
    assert (Hl : (length (s_out w) <= 2)%nat) by (rewrite Hout; cbn; lia).
    destruct (inbox_cases _ _ _ _ H1 H2) as [E | (f & rest & E & Hn)].
    + rewrite E. cbn [sstep read_frame]. destruct (copen (wc w) && negb (stimed (ws w))); [assumption|].
      change (Inv cfg (s_apply w (sfail (sver (ws w)) None [] [] (RErr EEOF)))).
      apply s_apply_fail; auto.
    + rewrite Hcons in Hn. unfold cscript in Hn. destruct (mt cfg) eqn:Hm; cbn [nth_error length] in Hn; injection Hn as <-; rewrite E.
      * rewrite sstep_first_file, handle_file_generate_v2 by assumption.
        destruct (lookup (qpath cfg) (fs w)) as [qo|] eqn:Lq.
        2:{ change (Inv cfg (s_apply w (sfail 2 None rest [FBytes (generate c_protoVersion c_typeShareMemoryByFilePath (qpath cfg) (bpath cfg))] (RErr EMapQueue)))).
            apply s_apply_fail; auto. }
        destruct (lookup (bpath cfg) (fs w)) as [bo|] eqn:Lb.
        2:{ change (Inv cfg (s_apply w (sfail 2 (Some (qpath cfg, qo)) rest [FBytes (generate c_protoVersion c_typeShareMemoryByFilePath (qpath cfg) (bpath cfg))] (RErr EMapBuffer)))).
            apply s_apply_fail; auto. }
        sfold w.
        apply s_apply_inv; wproj; auto.
        -- rewrite app_nil_r. assumption.
        -- unfold sinv, s_apply. wproj. rewrite negotiated_file by assumption.
           split; [reflexivity|]. split; [congruence|]. intros _ _.
           apply Hfs in Lq. apply Hfs in Lb. rewrite lookup_init_q in Lq by assumption.
           assert (Gd : good cfg) by (split; [assumption|split; assumption]).
           rewrite lookup_init_b in Lb by assumption.
           injection Lq as <-. injection Lb as <-. split; reflexivity.
      * rewrite sstep_first_exch by assumption. destruct (copen (wc w) && negb (stimed (ws w))).
        -- sfold w.
           apply s_apply_inv; wproj; auto.
           ++ rewrite Hout. cbn [app]. unfold sscript. rewrite Hm. eexists. reflexivity.
           ++ unfold sinv, s_apply. wproj. rewrite Hcons, Hout. auto.
        -- sfold w.
           apply s_apply_fail; auto.
  - (* SWaitMeta *)
    destruct Hs as (Hm & Hlc & Hlo & Hv).
    assert (Hnd : not_done (spc (ws w))) by (rewrite Epc; exact Logic.I).
    assert (Hl : (length (s_out w) <= 2)%nat) by lia.
    destruct (inbox_cases _ _ _ _ H1 H2) as [E | (f & rest & E & Hn)].
    + rewrite E. cbn [sstep read_frame]. destruct (copen (wc w) && negb (stimed (ws w))); [assumption|].
      change (Inv cfg (s_apply w (sfail (sver (ws w)) None [] [] (RErr EEOF)))).
      apply s_apply_fail; auto.
    + rewrite Hlc in Hn. unfold cscript in Hn. rewrite Hm in Hn. cbn [nth_error length] in Hn. injection Hn as <-.
      rewrite E, Hv, sstep_meta_memfd by assumption. destruct (copen (wc w) && negb (stimed (ws w))).
      * sfold w.
        apply s_apply_inv; wproj; auto.
        -- apply prefix_snoc; [assumption|]. rewrite Hlo. unfold sscript. rewrite Hm. reflexivity.
        -- unfold sinv, s_apply. wproj. rewrite !app_length, Hlc, Hlo. cbn. auto 10.
      * sfold w.
        apply s_apply_fail; auto.
  - (* SWaitFds *)
    destruct Hs as (Hm & Hlc & Hlo & Hv & -> & ->).
    assert (Hnd : not_done (spc (ws w))) by (rewrite Epc; exact Logic.I).
    assert (Hl : (length (s_out w) <= 2)%nat) by lia.
    destruct (inbox_cases _ _ _ _ H1 H2) as [E | (f & rest & E & Hn)].
    + rewrite E. cbn [sstep]. destruct (copen (wc w) && negb (stimed (ws w))); [assumption|].
      change (Inv cfg (s_apply w (sfail (sver (ws w)) None [] [] (RErr ENoOob)))).
      apply s_apply_fail; auto.
    + rewrite Hlc in Hn. unfold cscript in Hn. rewrite Hm in Hn. cbn [nth_error length] in Hn. injection Hn as <-.
      rewrite E, Hv. cbn [sstep]. change (zlen [bobj cfg; qobj cfg] <? c_memfdCount) with false. cbv iota.
      destruct (copen (wc w) && negb (stimed (ws w))).
      * sfold w.
        apply s_apply_inv; wproj; auto.
        -- apply prefix_snoc; [assumption|]. rewrite Hlo. unfold sscript. rewrite Hm. reflexivity.
        -- unfold sinv, s_apply. wproj. rewrite negotiated_memfd by assumption.
           split; [reflexivity|]. split; [intros _; rewrite app_length, Hlo; reflexivity|].
           intros _ _. split; reflexivity.
      * sfold w.
        apply s_apply_inv; wproj; auto.
        -- rewrite app_nil_r. assumption.
        -- unfold sinv, s_apply. wproj. rewrite app_nil_r. assumption.
  - (* SDone *) cbn [sstep]. assumption.
Qed.

(* ---- returns, timers, adversary ---- *)
Lemma lookup_unlink p m f o : lookup p (unlink m f) = Some o -> lookup p f = Some o.
Proof. destruct m as [[p' o']|]; cbn; [apply lookup_remove|auto]. Qed.

Lemma inv_c_return cfg w r r0 :
  Inv cfg w -> cret (wc w) = None -> cpc (wc w) = CDone r0 -> (r = ROk -> r0 = ROk) -> Inv cfg (c_return w r).
Proof.
  intros I Hn Hd Hr. destruct I as [W1 W2 W3 W4 Ic Is Ifs Icr Isr].
  unfold c_return. destruct r as [|e|y].
  - constructor; unfold set_c; wproj; auto.
    unfold crinv in *. wproj. rewrite Hn in Icr. rewrite Hd, (Hr eq_refl). auto.
  - constructor; wproj; auto.
    + intros p o H. apply lookup_unlink in H. apply lookup_unlink in H. auto.
    + unfold crinv. wproj. eauto 6.
  - constructor; wproj; auto.
    + intros p o H. apply lookup_unlink in H. apply lookup_unlink in H. auto.
    + unfold crinv. wproj. eauto 6.
Qed.

Lemma inv_s_return cfg w r r0 :
  Inv cfg w -> sret (ws w) = None -> spc (ws w) = SDone r0 -> (r = ROk -> r0 = ROk) ->
  (forall y, r = RPanic y -> r0 = RPanic y) -> Inv cfg (s_return w r).
Proof.
  intros I Hn Hd Hr Hp. destruct I as [W1 W2 W3 W4 Ic Is Ifs Icr Isr].
  unfold s_return. destruct r as [|e|y].
  - constructor; unfold set_s; wproj; auto.
    + unfold sinv in *. wproj. destruct (spc (ws w)) as [| | |[| |]]; auto.
      destruct Is as (A & B & C). split; [assumption|split; [assumption|]]. intros H1 _. apply C; auto.
    + unfold srinv in *. wproj. destruct Isr as [A _]. split; [assumption|]. rewrite Hd, (Hr eq_refl). reflexivity.
  - constructor; wproj; auto.
    + unfold sinv in *. wproj. destruct (spc (ws w)) as [| | |[| |]]; auto.
      destruct Is as (A & B & C). split; [assumption|split; [assumption|]]. intros _ [H|H]; discriminate.
    + intros p o H. apply lookup_unlink in H. apply lookup_unlink in H. auto.
    + unfold srinv in *. wproj. split; [destruct (spc (ws w)); auto|]. eauto 6.
  - constructor; unfold set_s; wproj; auto.
    + unfold sinv in *. wproj. rewrite Hd in *. rewrite (Hp y eq_refl) in *. assumption.
    + unfold srinv in *. wproj. split; [destruct (spc (ws w)); auto|]. rewrite Hd, (Hp y eq_refl). auto.
Qed.

Lemma inv_step cfg w l : good cfg -> Inv cfg w -> Inv cfg (step cfg w l).
Proof.
  intros G I. destruct l.
  - apply inv_LC; assumption.
  - apply inv_LS; assumption.
  - unfold step. destruct (c_running (wc w)); [|assumption].
    destruct (cpc (wc w)) eqn:E; try assumption. destruct (cret (wc w)) eqn:E2; [assumption|].
    apply (inv_c_return cfg w _ r); auto. destruct (ctimed (wc w)); [discriminate|auto].
  - unfold step. destruct (s_running (ws w)); [|assumption].
    destruct (spc (ws w)) eqn:E; try assumption. destruct (sret (ws w)) eqn:E2; [assumption|].
    apply (inv_s_return cfg w _ r); auto.
    + destruct (stimed (ws w)); [destruct r; discriminate|auto].
    + destruct (stimed (ws w)); [destruct r; intros y H; try discriminate; assumption|auto].
  - unfold step. destruct (c_running (wc w)); [|assumption].
    destruct (cret (wc w)) eqn:E2; [assumption|]. destruct (cpc (wc w)) eqn:E.
    5:{ apply (inv_c_return cfg w _ r); auto. discriminate. }
    all: destruct I as [W1 W2 W3 W4 Ic Is Ifs Icr Isr]; constructor; unfold set_c; wproj; auto;
      [unfold cinv in *; wproj; rewrite E in *; assumption | unfold crinv in *; wproj; rewrite E2 in *; assumption].
  - unfold step. destruct (s_running (ws w)); [|assumption].
    destruct (sret (ws w)) eqn:E2; [assumption|]. destruct (spc (ws w)) as [| | |r] eqn:E.
    4:{ destruct r as [|e|y].
        - apply (inv_s_return cfg w _ ROk); auto; try discriminate.
        - apply (inv_s_return cfg w _ (RErr e)); auto; try discriminate.
        - apply (inv_s_return cfg w _ (RPanic y)); auto; try discriminate. }
    all: destruct I as [W1 W2 W3 W4 Ic Is Ifs Icr Isr]; constructor; unfold set_s; wproj; auto;
      [unfold sinv in *; wproj; rewrite E in *; assumption | unfold srinv in *; wproj; rewrite E, E2 in *; assumption].
  - destruct I as [W1 W2 W3 W4 Ic Is Ifs Icr Isr]. constructor; unfold step, set_c; wproj; auto.
  - destruct I as [W1 W2 W3 W4 Ic Is Ifs Icr Isr]. constructor; unfold step, set_s; wproj; auto.
  - destruct I as [W1 W2 W3 W4 Ic Is Ifs Icr Isr]. constructor; unfold step, set_c; wproj; auto.
    unfold crinv in *. wproj. destruct (cret (wc w)) as [[| |]|]; auto; try discriminate.
    + destruct Icr as [A B]. split; [assumption|discriminate].
    + destruct Icr as (A & B & C & D). auto.
    + destruct Icr as (A & B & C & D). auto.
  - destruct I as [W1 W2 W3 W4 Ic Is Ifs Icr Isr]. constructor; unfold step, set_s; wproj; auto.
    + unfold sinv in *. wproj. destruct (spc (ws w)) as [| | |[| |]]; auto.
      destruct Is as (A & B & C). split; [assumption|split; [assumption|]]. discriminate.
    + unfold srinv in *. wproj. destruct Isr as [A B]. split; [destruct (spc (ws w)); auto|].
      destruct (sret (ws w)) as [[|e|y]|]; auto.
      * destruct B as (B1 & _). auto.
      * destruct B as [B1 _]. auto.
  - destruct I as [W1 W2 W3 W4 Ic Is Ifs Icr Isr]. constructor; unfold step; wproj; auto.
    intros p o H. apply lookup_remove in H. auto.
  - destruct I as [W1 W2 W3 W4 Ic Is Ifs Icr Isr]. constructor; unfold step; wproj; auto.
    intros p o H. apply lookup_remove in H. auto.
Qed.

Lemma inv_run cfg sch : good cfg -> forall w, Inv cfg w -> Inv cfg (run cfg sch w).
Proof. intros G. unfold run. induction sch as [|l sch IH]; intros w I; cbn; [assumption|]. apply IH, inv_step; assumption. Qed.

Theorem inv_reachable cfg sch : good cfg -> Inv cfg (run cfg sch (init cfg)).
Proof. intros G. apply inv_run; [assumption|apply inv_init]. Qed.

(* ------------------------------------------------------------------------------------------ *)
(* consequences                                                                                *)
(* ------------------------------------------------------------------------------------------ *)
Theorem version_agreed cfg sch : good cfg ->
  let w := run cfg sch (init cfg) in
  (cret (wc w) = Some ROk -> cver (wc w) = negotiated cfg) /\
  (sret (ws w) = Some ROk -> sver (ws w) = negotiated cfg).
Proof.
  intros G w. destruct (inv_reachable cfg sch G) as [W1 W2 W3 W4 Ic Is Ifs Icr Isr]. fold w in W1, W2, W3, W4, Ic, Is, Ifs, Icr, Isr.
  split; intros H.
  - unfold crinv in Icr. rewrite H in Icr. destruct Icr as [E _]. unfold cinv in Ic. rewrite E in Ic. apply Ic.
  - unfold srinv in Isr. rewrite H in Isr. destruct Isr as [_ E]. unfold sinv in Is. rewrite E in Is. apply Is.
Qed.

Theorem same_memory cfg sch : good cfg ->
  let w := run cfg sch (init cfg) in
  (sret (ws w) = Some ROk -> sopen (ws w) = true -> same_maps cfg (smapq (ws w)) (smapb (ws w))) /\
  (cret (wc w) = Some ROk -> copen (wc w) = true -> same_maps cfg (cmapq (wc w)) (cmapb (wc w))).
Proof.
  intros G w. destruct (inv_reachable cfg sch G) as [W1 W2 W3 W4 Ic Is Ifs Icr Isr]. fold w in W1, W2, W3, W4, Ic, Is, Ifs, Icr, Isr.
  split; intros H Ho.
  - unfold srinv in Isr. rewrite H in Isr. destruct Isr as [_ E]. unfold sinv in Is. rewrite E in Is.
    destruct Is as (_ & _ & C). apply C; auto.
  - unfold crinv in Icr. rewrite H in Icr. destruct Icr as [_ C]. auto.
Qed.

(* with the V3 acknowledgement the client's success implies that the server's initialiser mapped the
   very memory the client created (what the V2 flow cannot give) *)
Theorem v3_ack_means_mapped cfg sch : good cfg -> mt cfg = MMemfd ->
  let w := run cfg sch (init cfg) in
  cpc (wc w) = CDone ROk ->
  spc (ws w) = SDone ROk /\
  (sopen (ws w) = true -> sret (ws w) = None \/ sret (ws w) = Some ROk -> same_maps cfg (smapq (ws w)) (smapb (ws w))).
Proof.
  intros G Hm w Hc. destruct (inv_reachable cfg sch G) as [W1 W2 W3 W4 Ic Is Ifs Icr Isr]. fold w in W1, W2, W3, W4, Ic, Is, Ifs, Icr, Isr.
  unfold cinv in Ic. rewrite Hc in Ic. destruct Ic as [_ L]. specialize (L Hm).
  assert (Hlen : (3 <= length (s_out w))%nat) by (rewrite W4, app_length; lia).
  unfold sinv in Is. destruct (spc (ws w)) as [| |bp qp|[|e|y]].
  - destruct Is as [_ E]. rewrite E in Hlen. cbn in Hlen. lia.
  - destruct Is as (_ & _ & E & _). lia.
  - destruct Is as (_ & _ & E & _). lia.
  - split; [reflexivity|]. apply Is.
  - lia.
  - lia.
Qed.

(* --- the init timer bounds the wait --- *)
Lemma wc_s_return w r : wc (s_return w r) = wc w.
Proof. destruct r; reflexivity. Qed.
Lemma ws_c_return w r : ws (c_return w r) = ws w.
Proof. destruct r; reflexivity. Qed.

Lemma cret_stable cfg w l r : cret (wc w) = Some r -> cret (wc (step cfg w l)) = Some r.
Proof.
  intros H. destruct l; unfold step.
  - destruct (c_running (wc w)); [|assumption].
    destruct (cstep cfg (cpc (wc w)) (cver (wc w)) (s2c w) (sopen (ws w) && negb (ctimed (wc w)))); assumption.
  - destruct (s_running (ws w)); [|assumption].
    destruct (sstep (sgen cfg) (fs w) (spc (ws w)) (sver (ws w)) (c2s w) (copen (wc w) && negb (stimed (ws w)))); assumption.
  - destruct (c_running (wc w)); [|assumption]. destruct (cpc (wc w)); try assumption. rewrite H. assumption.
  - destruct (s_running (ws w)); [|assumption]. destruct (spc (ws w)); try assumption.
    destruct (sret (ws w)); [assumption|]. rewrite wc_s_return. assumption.
  - destruct (c_running (wc w)); [|assumption]. rewrite H. assumption.
  - destruct (s_running (ws w)); [|assumption]. destruct (sret (ws w)); [assumption|].
    destruct (spc (ws w)) as [| | |[| |]]; rewrite ?wc_s_return; assumption.
  - assumption.
  - assumption.
  - assumption.
  - assumption.
  - assumption.
  - assumption.
Qed.
Lemma sret_stable cfg w l r : sret (ws w) = Some r -> sret (ws (step cfg w l)) = Some r.
Proof.
  intros H. destruct l; unfold step.
  - destruct (c_running (wc w)); [|assumption].
    destruct (cstep cfg (cpc (wc w)) (cver (wc w)) (s2c w) (sopen (ws w) && negb (ctimed (wc w)))); assumption.
  - destruct (s_running (ws w)); [|assumption].
    destruct (sstep (sgen cfg) (fs w) (spc (ws w)) (sver (ws w)) (c2s w) (copen (wc w) && negb (stimed (ws w)))); assumption.
  - destruct (c_running (wc w)); [|assumption]. destruct (cpc (wc w)); try assumption.
    destruct (cret (wc w)); [assumption|]. rewrite ws_c_return. assumption.
  - destruct (s_running (ws w)); [|assumption]. destruct (spc (ws w)); try assumption. rewrite H. assumption.
  - destruct (c_running (wc w)); [|assumption]. destruct (cret (wc w)); [assumption|].
    destruct (cpc (wc w)); rewrite ?ws_c_return; assumption.
  - destruct (s_running (ws w)); [|assumption]. rewrite H. assumption.
  - assumption.
  - assumption.
  - assumption.
  - assumption.
  - assumption.
  - assumption.
Qed.
Lemma cret_stable_run cfg sch : forall w r, cret (wc w) = Some r -> cret (wc (run cfg sch w)) = Some r.
Proof. unfold run. induction sch as [|l sch IH]; intros w r H; cbn; [assumption|]. apply IH, cret_stable, H. Qed.
Lemma sret_stable_run cfg sch : forall w r, sret (ws w) = Some r -> sret (ws (run cfg sch w)) = Some r.
Proof. unfold run. induction sch as [|l sch IH]; intros w r H; cbn; [assumption|]. apply IH, sret_stable, H. Qed.

Lemma run_app cfg a b w : run cfg (a ++ b) w = run cfg b (run cfg a w).
Proof. unfold run. apply fold_left_app. Qed.

(* once the socket is shut down every step of the goroutine ends it: reads return EOF or queued data whose
   processing ends in a failing write or in the last step *)
Ltac dm := match goal with |- context [match ?x with _ => _ end] =>
  lazymatch x with
  | context [match _ with _ => _ end] => fail
  | _ => destruct x eqn:?
  end end.

Lemma cstep_cancelled cfg pc ver inbox : (match pc with CDone _ => False | _ => True end) ->
  exists o r, cstep cfg pc ver inbox false = Some o /\ co_pc o = CDone r.
Proof.
  intros H. destruct pc; try contradiction; unfold cstep, read_frame, cwrite, cfail;
    repeat (first [progress cbv iota | dm]); do 2 eexists; split; reflexivity.
Qed.
Lemma sstep_cancelled g f pc ver inbox : not_done pc ->
  exists o r, sstep g f pc ver inbox false = Some o /\ so_pc o = SDone r.
Proof.
  intros H. destruct pc; try contradiction; unfold sstep, handle_file, read_frame, sfail;
    repeat (first [progress cbv iota | dm]); do 2 eexists; split; reflexivity.
Qed.

Lemma LC_cancelled cfg w : c_running (wc w) = true -> ctimed (wc w) = true ->
  (match cpc (wc w) with CDone _ => False | _ => True end) ->
  exists o r, step cfg w LC = c_apply w o /\ co_pc o = CDone r.
Proof.
  intros Hr Ht Hp. unfold step. rewrite Hr, Ht. cbn [negb]. rewrite andb_false_r.
  destruct (cstep_cancelled cfg (cpc (wc w)) (cver (wc w)) (s2c w) Hp) as (o & r & -> & Ho).
  exists o, r. split; [unfold c_apply; rewrite Ht; reflexivity|assumption].
Qed.
Lemma LS_cancelled cfg w : s_running (ws w) = true -> stimed (ws w) = true -> not_done (spc (ws w)) ->
  exists o r, step cfg w LS = s_apply w o /\ so_pc o = SDone r.
Proof.
  intros Hr Ht Hp. unfold step. rewrite Hr, Ht. cbn [negb]. rewrite andb_false_r.
  destruct (sstep_cancelled (sgen cfg) (fs w) (spc (ws w)) (sver (ws w)) (c2s w) Hp) as (o & r & -> & Ho).
  exists o, r. split; [unfold s_apply; rewrite Ht; reflexivity|assumption].
Qed.
Lemma LRetC_done cfg w r : c_running (wc w) = true -> cret (wc w) = None -> cpc (wc w) = CDone r ->
  exists r', cret (wc (step cfg w LRetC)) = Some r'.
Proof.
  intros Hr E Ep. unfold step. rewrite Hr, Ep, E. destruct (ctimed (wc w)); [|destruct r]; unfold c_return, set_c; wproj; eauto.
Qed.
Lemma LRetS_done cfg w r : s_running (ws w) = true -> sret (ws w) = None -> spc (ws w) = SDone r ->
  exists r', sret (ws (step cfg w LRetS)) = Some r'.
Proof.
  intros Hr E Ep. unfold step. rewrite Hr, Ep, E. destruct (stimed (ws w)); destruct r; unfold s_return, set_s; wproj; eauto.
Qed.

(* a running end has returned — success or error — once its timer event was taken, its goroutine was
   scheduled once more (the shutdown makes that step its last) and initProtocol saw it finished *)
Theorem returns_by_timer cfg pre post :
  (c_running (wc (run cfg pre (init cfg))) = true ->
   cret (wc (run cfg (pre ++ LTimerC :: LC :: LRetC :: post) (init cfg))) <> None) /\
  (s_running (ws (run cfg pre (init cfg))) = true ->
   sret (ws (run cfg (pre ++ LTimerS :: LS :: LRetS :: post) (init cfg))) <> None).
Proof.
  split; intros Hr; rewrite run_app; set (w := run cfg pre (init cfg)) in *.
  - change (LTimerC :: LC :: LRetC :: post) with ([LTimerC; LC; LRetC] ++ post). rewrite run_app.
    assert (exists r, cret (wc (run cfg [LTimerC; LC; LRetC] w)) = Some r) as [r Hs].
    { change (run cfg [LTimerC; LC; LRetC] w) with (step cfg (step cfg (step cfg w LTimerC) LC) LRetC).
      destruct (cret (wc w)) as [r|] eqn:E; [exists r; do 3 apply cret_stable; assumption|].
      destruct (match cpc (wc w) with CDone _ => true | _ => false end) eqn:Ed.
      - exists (RErr ETimeout). do 2 apply cret_stable. unfold step. rewrite Hr, E.
        destruct (cpc (wc w)); try discriminate. reflexivity.
      - set (w1 := step cfg w LTimerC).
        assert (H1 : c_running (wc w1) = true /\ ctimed (wc w1) = true /\ cret (wc w1) = None /\ cpc (wc w1) = cpc (wc w)).
        { unfold w1, step. rewrite Hr, E. destruct (cpc (wc w)); try discriminate; unfold set_c; wproj; auto. }
        destruct H1 as (R1 & T1 & E1 & P1).
        destruct (LC_cancelled cfg w1 R1 T1) as (o & r & -> & Ho); [rewrite P1; destruct (cpc (wc w)); try discriminate; exact Logic.I|].
        apply (LRetC_done cfg (c_apply w1 o) r); unfold c_apply; wproj; auto.
        }
    rewrite (cret_stable_run _ _ _ _ Hs). discriminate.
  - change (LTimerS :: LS :: LRetS :: post) with ([LTimerS; LS; LRetS] ++ post). rewrite run_app.
    assert (exists r, sret (ws (run cfg [LTimerS; LS; LRetS] w)) = Some r) as [r Hs].
    { change (run cfg [LTimerS; LS; LRetS] w) with (step cfg (step cfg (step cfg w LTimerS) LS) LRetS).
      destruct (sret (ws w)) as [r|] eqn:E; [exists r; do 3 apply sret_stable; assumption|].
      destruct (match spc (ws w) with SDone _ => true | _ => false end) eqn:Ed.
      - assert (exists r, sret (ws (step cfg w LTimerS)) = Some r) as [r H1].
        { unfold step. rewrite Hr, E. destruct (spc (ws w)) as [| | |[| |]]; try discriminate; unfold s_return, set_s; wproj; eauto. }
        exists r. do 2 apply sret_stable. assumption.
      - set (w1 := step cfg w LTimerS).
        assert (H1 : s_running (ws w1) = true /\ stimed (ws w1) = true /\ sret (ws w1) = None /\ spc (ws w1) = spc (ws w)).
        { unfold w1, step. rewrite Hr, E. destruct (spc (ws w)); try discriminate; unfold set_s; wproj; auto. }
        destruct H1 as (R1 & T1 & E1 & P1).
        destruct (LS_cancelled cfg w1 R1 T1) as (o & r & -> & Ho); [rewrite P1; destruct (spc (ws w)); try discriminate; exact Logic.I|].
        apply (LRetS_done cfg (s_apply w1 o) r); unfold s_apply; wproj; auto. }
    rewrite (sret_stable_run _ _ _ _ Hs). discriminate.
Qed.

(* --- what an error leaves behind --- *)
(* nothing of the session's own is left behind by an error return: no mapping, no dup'ed descriptor, no
   initialiser goroutine — for EVERY error, the timeout included (initProtocol waits for the goroutine) *)
Theorem no_residue cfg sch e : good cfg ->
  let w := run cfg sch (init cfg) in
  (cret (wc w) = Some (RErr e) -> c_mapped w = [] /\ cdup (wc w) = false /\ c_thread_alive w = false) /\
  (sret (ws w) = Some (RErr e) -> s_mapped w = [] /\ sdup (ws w) = false /\ s_thread_alive w = false).
Proof.
  intros G w. destruct (inv_reachable cfg sch G) as [W1 W2 W3 W4 Ic Is Ifs Icr Isr]. fold w in W1, W2, W3, W4, Ic, Is, Ifs, Icr, Isr.
  split.
  - intros H. unfold crinv in Icr. rewrite H in Icr. destruct Icr as (A & B & C & r & D).
    unfold c_mapped, c_thread_alive. rewrite A, B, D. auto.
  - intros H. unfold srinv in Isr. rewrite H in Isr. destruct Isr as (_ & (r & D) & A & B & C).
    unfold s_mapped, s_thread_alive. rewrite A, B, D. auto.
Qed.

(* the client's /dev/shm files are gone once its newSession has returned an error *)
Lemma lookup_none_remove p p' f : lookup p f = None -> lookup p (remove_path p' f) = None.
Proof. intros H. destruct (lookup p (remove_path p' f)) eqn:E; [|reflexivity]. apply lookup_remove in E. congruence. Qed.
Lemma lookup_none_unlink p m f : lookup p f = None -> lookup p (unlink m f) = None.
Proof. destruct m as [[p' o]|]; cbn; [apply lookup_none_remove|auto]. Qed.

Lemma fs_c_return w r p : lookup p (fs w) = None -> lookup p (fs (c_return w r)) = None.
Proof. intros H. unfold c_return. destruct r; unfold set_c; wproj; auto using lookup_none_unlink. Qed.
Lemma fs_s_return w r p : lookup p (fs w) = None -> lookup p (fs (s_return w r)) = None.
Proof. intros H. unfold s_return. destruct r; unfold set_s; wproj; auto using lookup_none_unlink. Qed.

Lemma fs_shrinks cfg w l p : lookup p (fs w) = None -> lookup p (fs (step cfg w l)) = None.
Proof.
  intros H. destruct l; unfold step.
  - destruct (c_running (wc w)); [|assumption].
    destruct (cstep cfg (cpc (wc w)) (cver (wc w)) (s2c w) (sopen (ws w) && negb (ctimed (wc w)))); assumption.
  - destruct (s_running (ws w)); [|assumption].
    destruct (sstep (sgen cfg) (fs w) (spc (ws w)) (sver (ws w)) (c2s w) (copen (wc w) && negb (stimed (ws w)))); assumption.
  - destruct (c_running (wc w)); [|assumption]. destruct (cpc (wc w)); try assumption.
    destruct (cret (wc w)); [assumption|]. apply fs_c_return. assumption.
  - destruct (s_running (ws w)); [|assumption]. destruct (spc (ws w)); try assumption.
    destruct (sret (ws w)); [assumption|]. apply fs_s_return. assumption.
  - destruct (c_running (wc w)); [|assumption]. destruct (cret (wc w)); [assumption|].
    destruct (cpc (wc w)); try assumption. apply fs_c_return. assumption.
  - destruct (s_running (ws w)); [|assumption]. destruct (sret (ws w)); [assumption|].
    destruct (spc (ws w)) as [| | |[| |]]; try assumption; apply fs_s_return; assumption.
  - assumption.
  - assumption.
  - assumption.
  - assumption.
  - wproj. apply lookup_none_remove. assumption.
  - wproj. apply lookup_none_remove. assumption.
Qed.

Definition no_files (cfg : config) (w : world) : Prop :=
  lookup (qpath cfg) (fs w) = None /\ lookup (bpath cfg) (fs w) = None.

Lemma c_return_err_no_files cfg w r : Inv cfg w -> c_running (wc w) = true -> cret (wc w) = None -> r <> ROk ->
  no_files cfg (c_return w r).
Proof.
  intros I Hr Hn Hne. pose proof (i_cr _ _ I) as Icr. unfold crinv in Icr. rewrite Hn in Icr.
  unfold c_running in Hr. apply andb_true_iff in Hr. destruct Hr as [Ho _]. destruct (Icr Ho) as [A B].
  unfold c_return, no_files. destruct r as [|e|y]; [congruence| |]; wproj; rewrite A, B; cbn [unlink]; split;
    try (apply lookup_none_remove; apply lookup_remove_same); apply lookup_remove_same.
Qed.

Theorem client_error_removes_files cfg sch e : good cfg ->
  cret (wc (run cfg sch (init cfg))) = Some (RErr e) -> no_files cfg (run cfg sch (init cfg)).
Proof.
  intros G. induction sch as [|l sch IH] using rev_ind.
  - cbn. unfold init. cbn. destruct (client_rejects cfg) eqn:R; [|discriminate].
    intros _. unfold no_files. cbn. unfold client_rejects in R. destruct (mt cfg); [discriminate|]. split; reflexivity.
  - rewrite run_app. set (w := run cfg sch (init cfg)) in *. cbn [run fold_left].
    change (fold_left (step cfg) [l] w) with (step cfg w l). intros H.
    destruct (cret (wc w)) as [r|] eqn:E.
    + pose proof (cret_stable cfg w l r E) as H2. rewrite H in H2. injection H2 as <-.
      destruct (IH eq_refl) as [A B]. split; apply fs_shrinks; assumption.
    + pose proof (inv_reachable cfg sch G) as I. fold w in I.
      destruct l; unfold step in *; wproj;
        try (destruct (c_running (wc w)) eqn:Rn; [|congruence]);
        try (destruct (s_running (ws w)) eqn:Rs; [|congruence]);
        try congruence.
      * destruct (cstep cfg (cpc (wc w)) (cver (wc w)) (s2c w) (sopen (ws w) && negb (ctimed (wc w)))); wproj; congruence.
      * destruct (sstep (sgen cfg) (fs w) (spc (ws w)) (sver (ws w)) (c2s w) (copen (wc w) && negb (stimed (ws w)))); wproj; congruence.
      * destruct (cpc (wc w)) as [| | | |r] eqn:Epc; try congruence. rewrite E in *.
        apply c_return_err_no_files; auto. destruct (ctimed (wc w)); [discriminate|].
        intros ->. unfold c_return, set_c in H. wproj. discriminate.
      * destruct (spc (ws w)) as [| | |r]; try congruence. destruct (sret (ws w)); try congruence.
        rewrite wc_s_return in H. congruence.
      * rewrite E in *. destruct (cpc (wc w)); try (unfold set_c in H; wproj; congruence).
        apply c_return_err_no_files; auto. discriminate.
      * destruct (sret (ws w)); try congruence.
        destruct (spc (ws w)) as [| | |[| |]]; try (unfold set_s in H; wproj; congruence); rewrite wc_s_return in H; congruence.
      * unfold set_c in H; wproj; congruence.
      * unfold set_s in H; wproj; congruence.
      * unfold set_c in H; wproj; congruence.
      * unfold set_s in H; wproj; congruence.
Qed.

(* ------------------------------------------------------------------------------------------ *)
(* full statements that are false of the model, with their witnesses                           *)
(* ------------------------------------------------------------------------------------------ *)
Definition codec_full : Prop :=
  forall ver ty q b, extract (skipn (Z.to_nat c_headerSize) (generate ver ty q b)) = Ok (b, q).

Lemma skipn_header_generate ver ty q b : skipn (Z.to_nat c_headerSize) (generate ver ty q b) = meta_body q b.
Proof.
  rewrite generate_split.
  replace (Z.to_nat c_headerSize) with (length (encode_header (c_headerSize + 2 + zlen q + 2 + zlen b) ver ty)) by reflexivity.
  rewrite skipn_app, Nat.sub_diag, skipn_all. reflexivity.
Qed.

(* a path of exactly 2^16 bytes is announced with length 0: the receiver extracts an empty path *)
Lemma extract_long q b : zlen q = 65536 -> extract (meta_body q b) <> Ok (b, q).
Proof.
  intros Hq F. unfold meta_body in F. rewrite Hq in F. change (65536 mod 65536) with 0 in F.
  change (u16be 0) with [0; 0] in F. unfold extract in F. cbv zeta in F. cbn [app nth] in F.
  change (rd16 0 0) with 0 in F. change (2 + 0) with 2 in F.
  repeat match type of F with context [if ?c then _ else _] => destruct c end; try discriminate.
  injection F as _ F. unfold slice in F. change (Z.to_nat (2 - 2)) with 0%nat in F. cbn [firstn] in F.
  subst q. discriminate.
Qed.

Lemma codec_full_refuted : ~ codec_full.
Proof.
  intros F. specialize (F 3 c_typeShareMemoryByMemfd (repeat 97 (Z.to_nat 65536)) [98]).
  rewrite skipn_header_generate in F. revert F. apply extract_long.
  unfold zlen. rewrite repeat_length. apply Z2Nat.id. lia.
Qed.

Definition wit_file : config := {| mt := MFile; unix := true; qpath := [47; 113]; bpath := [47; 98]; qobj := 11; bobj := 22;
                                   sgen := c_maxSupportProtoVersion |}.
Definition wit_memfd : config := {| mt := MMemfd; unix := true; qpath := [47; 113]; bpath := [47; 98]; qobj := 11; bobj := 22;
                                    sgen := c_maxSupportProtoVersion |}.
(* a server of a newer generation *)
Definition wit_newer_server : config := {| mt := MMemfd; unix := true; qpath := [47; 113]; bpath := [47; 98]; qobj := 11; bobj := 22;
                                           sgen := 255 |}.
Ltac good_wit := split; [split; vm_compute; reflexivity|split; [discriminate|unfold gens_ok; cbn; unfold c_maxSupportProtoVersion; lia]].
Lemma wit_file_good : good wit_file. Proof. good_wit. Qed.
Lemma wit_memfd_good : good wit_memfd. Proof. good_wit. Qed.
Lemma wit_newer_server_good : good wit_newer_server. Proof. good_wit. Qed.

Definition both_ends_full : Prop :=
  forall cfg sch rc rs, good cfg ->
    let w := run cfg sch (init cfg) in
    cret (wc w) = Some rc -> sret (ws w) = Some rs -> (rc = ROk <-> rs = ROk).
(* V2 has no acknowledgement: the client has already returned success when the server finds the
   buffer file gone *)
Definition both_ends_witness : list label := [LC; LRetC; LRmB; LS; LRetS].
Lemma both_ends_refuted : ~ both_ends_full.
Proof.
  intros F. specialize (F wit_file both_ends_witness ROk (RErr EMapBuffer) wit_file_good eq_refl eq_refl).
  destruct F as [F _]. specialize (F eq_refl). discriminate.
Qed.

(* the former counter-examples of "nothing is left behind" (stalled peer; peer answering after the
   timeout), now on the repaired code: both ends up clean *)
Definition stalled_peer_witness : list label := [LC; LStallS; LTimerC; LC; LRetC].
Lemma stalled_peer_state :
  let w := run wit_memfd stalled_peer_witness (init wit_memfd) in
  cret (wc w) = Some (RErr ETimeout) /\ cdup (wc w) = false /\ c_thread_alive w = false /\ c_mapped w = [].
Proof. vm_compute. repeat split. Qed.
Definition late_peer_witness : list label := [LTimerS; LC; LS; LRetS; LS].
Lemma late_peer_state :
  let w := run wit_file late_peer_witness (init wit_file) in
  sret (ws w) = Some (RErr ETimeout) /\ s_mapped w = [] /\ sdup (ws w) = false /\ s_thread_alive w = false.
Proof. vm_compute. repeat split. Qed.

(* ---- the lower common version, whatever generation the peer advertises ---- *)
(* this code base's client (generation 3) against a reply that advertises ANY version v >= 2 — an older
   server (2), its own generation (3), a newer one (4, 5, ... 255): it goes on with min(3, v) and does
   not fail; v = 1 has no initializer and is an error *)
Lemma client_picks_min cfg ver rest v :
  mt cfg = MMemfd -> 2 <= v < 256 ->
  exists o, cstep cfg CWaitVer ver (hdr8 v c_typeExchangeProtoVersion :: rest) true = Some o /\
            co_ver o = Z.min c_maxSupportProtoVersion v /\ (forall e, co_pc o <> CDone (RErr e)).
Proof.
  intros Hm Hv. unfold cstep. rewrite read_hdr8 by (consts; lia). rewrite expect_ok by (consts; lia).
  cbn [h_ver mkhdr]. rewrite Hm. unfold c_maxSupportProtoVersion, c_initializerVersion_2, c_initializerVersion_3.
  destruct (Z.min 3 v =? 2) eqn:E2.
  - apply Z.eqb_eq in E2. eexists. split; [reflexivity|]. cbn. split; [lia|discriminate].
  - apply Z.eqb_neq in E2. assert (E3 : Z.min 3 v = 3) by lia. rewrite E3. cbn.
    eexists. split; [reflexivity|]. cbn. split; [reflexivity|discriminate].
Qed.
(* this code base's server (generation 3) and the version its peer's first event announces: 3 is served by the
   V3 initialiser; anything above 3 — a client of a generation the property does not speak about — is turned
   away with an error before anything is written or mapped *)
Lemma server_serves_v3 f ver rest :
  exists o, sstep c_maxSupportProtoVersion f SWaitFirst ver (hdr8 c_maxSupportProtoVersion c_typeExchangeProtoVersion :: rest) true = Some o /\
            so_ver o = c_maxSupportProtoVersion /\ so_pc o = SWaitMeta /\
            so_write o = [hdr8 c_maxSupportProtoVersion c_typeExchangeProtoVersion].
Proof. eexists. split; [vm_compute; reflexivity|]. cbn. auto. Qed.
Lemma server_rejects_newer_client f ver rest v po :
  c_maxSupportProtoVersion < v < 256 ->
  sstep c_maxSupportProtoVersion f SWaitFirst ver (hdr8 v c_typeExchangeProtoVersion :: rest) po =
  Some (sfail ver None rest [FBytes (encode_header c_headerSize v c_typeExchangeProtoVersion)] (RErr EUnsupportedVersion)).
Proof.
  intros Hv. unfold c_maxSupportProtoVersion in *. unfold sstep. rewrite read_hdr8 by (consts; lia).
  rewrite check_valid_ok by (consts; lia). cbn [h_ver h_type mkhdr].
  destruct (v =? c_initializerVersion_2) eqn:E2; [apply Z.eqb_eq in E2; unfold c_initializerVersion_2 in E2; lia|].
  destruct (v <=? 3) eqn:E3; [apply Z.leb_le in E3; lia|]. rewrite andb_false_r. reflexivity.
Qed.
