(* GENERATED from /repo's stream.go by props/C06.py (mechanism G for the sweep of the callback goroutine,
   used by Model/LinkedBuffer.step RPeerClose). Do not edit. *)
(* true: the sweep after the OnData loop (pendingData.clear + recvBuf.recycle) runs only when the stream is
   CLOSED locally; false: it also runs when only the peer has closed (half closed) *)
Definition sw_sweep_needs_closed : bool := true.
