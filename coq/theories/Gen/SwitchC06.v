(* GENERATED from /repo's stream.go by props/C06.py (mechanism G for the swap decision of
   Stream.ReleaseReadAndReuse, used by Model/LinkedBuffer.dstep). Do not edit. *)
(* true: the swap requires recvBuf.len == 0 *)
Definition sw_reuse_needs_len0 : bool := true.
(* true: the swap requires recvBuf.sliceList.size() == 1 *)
Definition sw_reuse_needs_one_slice : bool := true.
