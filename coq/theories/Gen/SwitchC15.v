(* GENERATED from /repo's session_manager.go and stream.go by props/C15.py (mechanism G for the switches of Model/Pool.v). Do not edit. *)
(* sw_close_discarded: getOrOpenStream closes a popped stream it does not hand out. *)
(* sw_reset_rejects_unflushed: Stream.reset() fails when the send buffer holds unflushed bytes. *)
Definition sw_close_discarded : bool := true.
Definition sw_reset_rejects_unflushed : bool := true.
