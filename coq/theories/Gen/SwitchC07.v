(* GENERATED from /repo's stream.go by props/C07.py (mechanism G for the switch of Model/Mux.v). Do not edit. *)
(* true: Stream.Flush only ever SETS inFallbackState (sticky: a stream switches from the queue to the socket once);
   false: Flush assigns it from the current buffer (the stream returns to the queue when shm recovers). *)
Definition sw_fallback_sticky : bool := true.
(* true: the closeNotifyCh branch of Stream.readMore moves pending data into recvBuf before its length test. *)
Definition sw_close_branch_moves : bool := true.
(* true: the entry test of Stream.readMore moves pending data again before it reports the end of the stream. *)
Definition sw_entry_rechecks : bool := true.
