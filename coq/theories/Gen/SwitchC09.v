(* GENERATED from /repo's buffer.go by props/C09.py (mechanism G for the switches of Model/Accounting.v). Do not edit. *)
(* sw_recycle_cleans_pinned: linkedBuffer.recycle() also cleans the pinned list. *)
(* sw_write_after_close_rejected: the write side takes no shared memory for a stream that has been closed (its writes go to heap slices). *)
Definition sw_recycle_cleans_pinned : bool := true.
Definition sw_write_after_close_rejected : bool := true.
