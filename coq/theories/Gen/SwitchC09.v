(* GENERATED from /repo's buffer.go by props/C09.py (mechanism G for the switch of Model/Accounting.v). Do not edit. *)
(* true: linkedBuffer.recycle() also cleans the pinned list; false: it does not. *)
Definition sw_recycle_cleans_pinned : bool := true.
