(* Model of the shared-memory free list (buffer_manager.go: bufferList.pop / push, buffer_slice.go:
   reset / update / linkNext / newBufferSlice, bufferManager.recycleBuffers), one shared-memory
   access per step, any number of threads.   NO PROOFS in this file.

   pop  : R head; FAA size -1; [<=0: FAA size +1, Err];
          loop < c_popRetryBound: R flag[h]; hasNext ? (R next[h]; CAS head h->next;
                 ok: W flag[h]=0; R flag[h]; W flag[h]|=inUsed; FAA counter +1; R capPerBuffer;
                     R cap[h]; R start[h]; R size[h]  -> Ok h
                 fail: R head, next iteration)
               : (R size; <=1: FAA size +1, Err; else R head, next iteration);
          after the loop: FAA size +1, Err
   push : W size[b]=0; W start[b]=0; W flag[b]=0; loop: R tail; CAS tail t->b;
          ok: W next[t]=b; R flag[t]; W flag[t]|=hasNext; FAA size +1; FAA counter -1

   Offsets are region-relative (as stored in head / tail / next of FREE slots); a holder that links
   two of its buffers into a message chain (bufferSlice.update) stores the ABSOLUTE offset
   (region-relative + base), exactly as the code does.                                             *)
From Coq Require Import List ZArith Lia Bool Arith.
From Shm Require Import Gen.Consts.
Import ListNotations.
Open Scope Z_scope.

Record mem := {
  m_size : Z; m_head : Z; m_tail : Z; m_counter : Z;
  m_cpb : Z;            (* capPerBuffer (header field, never written after creation) *)
  m_n : Z;              (* number of slots (cap) *)
  m_base : Z;           (* bufferRegionOffsetInShm: absolute offset of the region *)
  m_len : Z;            (* length of the whole mapping (readBufferSlice checks against it) *)
  s_cap : Z -> Z; s_size : Z -> Z; s_start : Z -> Z; s_next : Z -> Z; s_flag : Z -> Z }.

Definition stride (m : mem) : Z := m_cpb m + c_bufferHeaderSize.
Definition valid_off (m : mem) (o : Z) : bool :=
  (0 <=? o) && (o + c_bufferHeaderSize <=? m_n m * stride m).
Definition is_slot (m : mem) (o : Z) : bool :=
  (0 <=? o) && (o <? m_n m * stride m) && (o mod stride m =? 0).

Definition fupd (f : Z -> Z) (k v : Z) : Z -> Z := fun i => if i =? k then v else f i.

Definition set_size m v := {| m_size := v; m_head := m_head m; m_tail := m_tail m; m_counter := m_counter m;
  m_cpb := m_cpb m; m_n := m_n m; m_base := m_base m; m_len := m_len m; s_cap := s_cap m; s_size := s_size m; s_start := s_start m; s_next := s_next m; s_flag := s_flag m |}.
Definition set_head m v := {| m_size := m_size m; m_head := v; m_tail := m_tail m; m_counter := m_counter m;
  m_cpb := m_cpb m; m_n := m_n m; m_base := m_base m; m_len := m_len m; s_cap := s_cap m; s_size := s_size m; s_start := s_start m; s_next := s_next m; s_flag := s_flag m |}.
Definition set_tail m v := {| m_size := m_size m; m_head := m_head m; m_tail := v; m_counter := m_counter m;
  m_cpb := m_cpb m; m_n := m_n m; m_base := m_base m; m_len := m_len m; s_cap := s_cap m; s_size := s_size m; s_start := s_start m; s_next := s_next m; s_flag := s_flag m |}.
Definition set_counter m v := {| m_size := m_size m; m_head := m_head m; m_tail := m_tail m; m_counter := v;
  m_cpb := m_cpb m; m_n := m_n m; m_base := m_base m; m_len := m_len m; s_cap := s_cap m; s_size := s_size m; s_start := s_start m; s_next := s_next m; s_flag := s_flag m |}.
Definition set_ssize m o v := {| m_size := m_size m; m_head := m_head m; m_tail := m_tail m; m_counter := m_counter m;
  m_cpb := m_cpb m; m_n := m_n m; m_base := m_base m; m_len := m_len m; s_cap := s_cap m; s_size := fupd (s_size m) o v; s_start := s_start m; s_next := s_next m; s_flag := s_flag m |}.
Definition set_sstart m o v := {| m_size := m_size m; m_head := m_head m; m_tail := m_tail m; m_counter := m_counter m;
  m_cpb := m_cpb m; m_n := m_n m; m_base := m_base m; m_len := m_len m; s_cap := s_cap m; s_size := s_size m; s_start := fupd (s_start m) o v; s_next := s_next m; s_flag := s_flag m |}.
Definition set_snext m o v := {| m_size := m_size m; m_head := m_head m; m_tail := m_tail m; m_counter := m_counter m;
  m_cpb := m_cpb m; m_n := m_n m; m_base := m_base m; m_len := m_len m; s_cap := s_cap m; s_size := s_size m; s_start := s_start m; s_next := fupd (s_next m) o v; s_flag := s_flag m |}.
Definition set_sflag m o v := {| m_size := m_size m; m_head := m_head m; m_tail := m_tail m; m_counter := m_counter m;
  m_cpb := m_cpb m; m_n := m_n m; m_base := m_base m; m_len := m_len m; s_cap := s_cap m; s_size := s_size m; s_start := s_start m; s_next := s_next m; s_flag := fupd (s_flag m) o v |}.

(* createFreeBufferList: n slots of capacity cpb, chained 0 -> stride -> ... ; tail = last *)
Definition init_mem (n cpb base len : Z) : mem :=
  let st := cpb + c_bufferHeaderSize in
  {| m_size := n; m_head := 0; m_tail := (n - 1) * st; m_counter := 0; m_cpb := cpb; m_n := n; m_base := base; m_len := len;
     s_cap := fun _ => cpb; s_size := fun _ => 0; s_start := fun _ => 0;
     s_next := fun o => if o <? (n - 1) * st then o + st else 0;
     s_flag := fun o => if o <? (n - 1) * st then c_hasNextBufferFlag else 0 |}.

Inductive fop :=
| Alloc                 (* bufferList.pop *)
| FreeOldest            (* bufferList.push of the buffer this thread has held longest *)
| FreeNewest
| Update (sz : Z) (link : bool)   (* bufferSlice.update on the oldest held buffer; link -> to the second oldest *)
| FreeChain.            (* bufferManager.recycleBuffers starting at the oldest held buffer *)

Inductive fres := RAlloc (o : option Z) | RDone | RPanic.

Definition lor_flag (v f : Z) : Z := Z.lor v f.
Definition has_next (v : Z) : bool := negb (Z.land v c_hasNextBufferFlag =? 0).

Inductive fpc :=
| Idle
(* pop *)
| PopFaa (oh : Z) | PopRestore | PopLoop (oh : Z) (i : Z) | PopNext (oh i : Z) | PopCas (oh nx i : Z)
| PopReload (i : Z) | PopChk (i : Z) | PopClr (oh : Z) | PopUse1 (oh : Z) | PopUse2 (oh v : Z) | PopCnt (oh : Z)
| PopRcpb (oh : Z) | PopRcap (oh : Z) | PopRstart (oh : Z) | PopRsize (oh : Z)
(* push of buffer b; k = continuation of recycleBuffers (Some a: then readBufferSlice(a), a absolute) *)
| PushR2 (b : Z) (k : option Z) | PushR3 (b : Z) (k : option Z) | PushTail (b : Z) (k : option Z)
| PushCas (b ot : Z) (k : option Z) | PushL1 (b ot : Z) (k : option Z) | PushL2 (b ot : Z) (k : option Z)
| PushL3 (b ot v : Z) (k : option Z) | PushSz (b : Z) (k : option Z) | PushCnt (b : Z) (k : option Z)
(* update *)
| UpdStart (b : Z) (lk : option Z) | UpdNext (b : Z) (tgt : Z) | UpdF1 (b : Z) | UpdF2 (b v : Z)
(* recycleBuffers *)
| ChNext (b : Z) | ChCpb (b : Z) (k : option Z) | ChPushR1 (b : Z) (k : option Z)
| ChRead1 (a : Z) | ChRead2 (a : Z) | ChRead3 (a : Z) | ChRead4 (a : Z) | ChLoop (b : Z).

Record tlocal := { pc : fpc; todo : list fop; held : list Z; res : list fres; dead : bool;
                   lost : Z (* ghost: slots leaked by an operation that panicked half-way *) }.
Record st := { mm : mem; thr : list tlocal }.

Fixpoint set_nth {A} (n : nat) (x : A) (l : list A) : list A :=
  match l, n with
  | [], _ => []
  | _ :: t, O => x :: t
  | h :: t, S n => h :: set_nth n x t
  end.

Fixpoint remove_z (x : Z) (l : list Z) : list Z :=
  match l with [] => [] | y :: r => if y =? x then r else y :: remove_z x r end.


Definition mk (p : tlocal) (c : fpc) := {| pc := c; todo := todo p; held := held p; res := res p; dead := dead p; lost := lost p |}.
Definition mkh (p : tlocal) (c : fpc) (h : list Z) := {| pc := c; todo := todo p; held := h; res := res p; dead := dead p; lost := lost p |}.
Definition finish (p : tlocal) (r : fres) (h : list Z) :=
  {| pc := Idle; todo := tl (todo p); held := h; res := res p ++ [r]; dead := dead p; lost := lost p |}.
Definition die (p : tlocal) := {| pc := Idle; todo := []; held := held p; res := res p ++ [RPanic]; dead := true; lost := lost p |}.
Definition die_pop (p : tlocal) := {| pc := Idle; todo := []; held := held p; res := res p ++ [RPanic]; dead := true; lost := lost p + 1 |}.

(* operations that cannot start (nothing held) are dropped without taking a step, as the harness does *)
Fixpoint normalize (held : list Z) (ops : list fop) : list fop :=
  match ops with
  | [] => []
  | Alloc :: _ => ops
  | _ :: r => match held with [] => normalize held r | _ => ops end
  end.

(* the local bounds checks / slice expressions that the code evaluates BEFORE its next shared access
   belong to the step of the previous access *)
Definition enter_loop (m : mem) (p : tlocal) (oh i : Z) : tlocal :=
  if i <? c_popRetryBound then (if valid_off m oh then mk p (PopLoop oh i) else die_pop p) else mk p PopRestore.

Definition after_push (m : mem) (p : tlocal) (b : Z) (k : option Z) : tlocal :=
  match k with
  | None => finish p RDone (held p)
  | Some a => if a + c_bufferHeaderSize >=? m_len m then finish p RDone (held p) else mk p (ChRead1 a)
  end.

(* R flag[b] at the head of recycleBuffers' loop *)
Definition ch_loop (m : mem) (p : tlocal) (b : Z) : mem * tlocal :=
  (m, mk p (if has_next (s_flag m b) then ChNext b else ChCpb b None)).

(* one step of a thread on memory m: new memory, new local state *)
Definition tstep (m : mem) (p0 : tlocal) : mem * tlocal :=
  let p := {| pc := pc p0; todo := match pc p0 with Idle => normalize (held p0) (todo p0) | _ => todo p0 end;
              held := held p0; res := res p0; dead := dead p0; lost := lost p0 |} in
  let oob (o : Z) := negb (valid_off m o) in
  match pc p with
  | Idle =>
    match todo p with
    | [] => (m, p)
    | Alloc :: _ => (m, mk p (PopFaa (m_head m)))
    | FreeOldest :: _ => let b := hd 0 (held p) in (set_ssize m b 0, mkh p (PushR2 b None) (tl (held p)))
    | FreeNewest :: _ => let b := last (held p) 0 in (set_ssize m b 0, mkh p (PushR2 b None) (removelast (held p)))
    | Update sz lk :: _ =>
        let b := hd 0 (held p) in
        let tgt := if lk then match held p with _ :: b2 :: _ => Some (b2 + m_base m) | _ => None end else None in
        (set_ssize m b sz, mk p (UpdStart b tgt))
    | FreeChain :: _ => ch_loop m p (hd 0 (held p))
    end
  | PopFaa oh => let r := m_size m - 1 in
                 (set_size m r, if r <=? 0 then mk p PopRestore else enter_loop m p oh 0)
  | PopRestore => (set_size m (m_size m + 1), finish p (RAlloc None) (held p))
  | PopLoop oh i => (m, mk p (if has_next (s_flag m oh) then PopNext oh i else PopChk i))
  | PopNext oh i => (m, mk p (PopCas oh (s_next m oh) i))
  | PopCas oh nx i => if m_head m =? oh then (set_head m nx, mk p (PopClr oh)) else (m, mk p (PopReload i))
  | PopReload i => (m, enter_loop m p (m_head m) (i + 1))
  | PopChk i => (m, mk p (if m_size m <=? 1 then PopRestore else PopReload i))
  | PopClr oh => (set_sflag m oh 0, mk p (PopUse1 oh))
  | PopUse1 oh => (m, mk p (PopUse2 oh (s_flag m oh)))
  | PopUse2 oh v => (set_sflag m oh (lor_flag v c_sliceInUsedFlag), mk p (PopCnt oh))
  | PopCnt oh => (set_counter m (m_counter m + 1), mk p (PopRcpb oh))
  | PopRcpb oh => if oh + stride m <=? m_n m * stride m then (m, mk p (PopRcap oh)) else (m, die_pop p)
  | PopRcap oh => (m, mk p (PopRstart oh))
  | PopRstart oh => (m, mk p (PopRsize oh))
  | PopRsize oh => (m, finish p (RAlloc (Some oh)) (held p ++ [oh]))
  | ChPushR1 b k => (set_ssize m b 0, mkh p (PushR2 b k) (remove_z b (held p)))
  | PushR2 b k => (set_sstart m b 0, mk p (PushR3 b k))
  | PushR3 b k => (set_sflag m b 0, mk p (PushTail b k))
  | PushTail b k => (m, mk p (PushCas b (m_tail m) k))
  | PushCas b ot k => if m_tail m =? ot then (set_tail m b, if oob ot then die_pop p else mk p (PushL1 b ot k)) else (m, mk p (PushTail b k))
  | PushL1 b ot k => (set_snext m ot b, mk p (PushL2 b ot k))
  | PushL2 b ot k => (m, mk p (PushL3 b ot (s_flag m ot) k))
  | PushL3 b ot v k => (set_sflag m ot (lor_flag v c_hasNextBufferFlag), mk p (PushSz b k))
  | PushSz b k => (set_size m (m_size m + 1), mk p (PushCnt b k))
  | PushCnt b k => (set_counter m (m_counter m - 1), after_push m p b k)
  | UpdStart b lk => (set_sstart m b 0,
                      match lk with Some t => mk p (UpdNext b t) | None => finish p RDone (held p) end)
  | UpdNext b t => (set_snext m b t, mk p (UpdF1 b))
  | UpdF1 b => (m, mk p (UpdF2 b (s_flag m b)))
  | UpdF2 b v => (set_sflag m b (lor_flag v c_hasNextBufferFlag), finish p RDone (held p))
  | ChLoop b => ch_loop m p b
  | ChNext b => (m, mk p (ChCpb b (Some (s_next m b))))
  | ChCpb b k => (m, mk p (ChPushR1 b k))
  | ChRead1 a =>
      (* readBufferSlice(a): R cap; end > len -> error (chain abandoned) *)
      let v := s_cap m (a - m_base m) in
      if a + c_bufferHeaderSize + v >? m_len m then (m, finish p RDone (held p)) else (m, mk p (ChRead2 a))
  | ChRead2 a => (m, mk p (ChRead3 a))
  | ChRead3 a => (m, mk p (ChRead4 a))
  | ChRead4 a => (m, mk p (ChLoop (a - m_base m)))
  end.

Definition step (s : st) (i : nat) : st :=
  match nth_error (thr s) i with
  | None => s
  | Some p => let '(m', p') := tstep (mm s) p in {| mm := m'; thr := set_nth i p' (thr s) |}
  end.

Definition init (n cpb base len : Z) (progs : list (list fop)) : st :=
  {| mm := init_mem n cpb base len;
     thr := map (fun t => {| pc := Idle; todo := t; held := []; res := []; dead := false; lost := 0 |}) progs |}.

Definition run (sched : list nat) (s : st) : st := fold_left step sched s.

(* ---------- observers used by the property statements ---------- *)
Definition all_held (s : st) : list Z := flat_map held (thr s).

(* walk the free chain from head: returns the visited offsets (fuel = number of slots + 1) *)
Fixpoint walk (m : mem) (o : Z) (fuel : nat) : list Z :=
  match fuel with
  | O => []
  | S f => if valid_off m o then o :: (if has_next (s_flag m o) then walk m (s_next m o) f else []) else []
  end.

(* ---------- events (used only by the correspondence check) ---------- *)
Record event := { ek : Z; ecell : Z; ea : Z; eb : Z; ec : Z }.
Definition ev k c a b d := Some {| ek := k; ecell := c; ea := a; eb := b; ec := d |}.
Definition kR := 0. Definition kW := 1. Definition kFAA := 2. Definition kCAS := 3.

Definition lh (m : mem) : Z := m_base m - c_bufferListHeaderSize.   (* list header *)
Definition c_size m := lh m + off_create_list_size.
Definition c_head m := lh m + off_create_list_head.
Definition c_tail m := lh m + off_create_list_tail.
Definition c_cpb m := lh m + off_create_list_capPerBuffer.
Definition c_counter m := lh m + off_create_list_counter.
Definition f_cap m o := m_base m + o + c_bufferCapOffset.
Definition f_size m o := m_base m + o + c_bufferSizeOffset.
Definition f_start m o := m_base m + o + c_bufferDataStartOffset.
Definition f_next m o := m_base m + o + c_nextBufferOffset.
Definition f_flag m o := m_base m + o + c_bufferFlagOffset.
Definition b2z (b : bool) : Z := if b then 1 else 0.

Definition tev (m : mem) (p0 : tlocal) : option event :=
  let td := match pc p0 with Idle => normalize (held p0) (todo p0) | _ => todo p0 end in
  match pc p0 with
  | Idle =>
    match td with
    | [] => None
    | Alloc :: _ => ev kR (c_head m) (m_head m) 0 0
    | FreeOldest :: _ => ev kW (f_size m (hd 0 (held p0))) 0 0 0
    | FreeNewest :: _ => ev kW (f_size m (last (held p0) 0)) 0 0 0
    | Update sz _ :: _ => ev kW (f_size m (hd 0 (held p0))) sz 0 0
    | FreeChain :: _ => let b := hd 0 (held p0) in ev kR (f_flag m b) (s_flag m b) 0 0
    end
  | PopFaa _ => ev kFAA (c_size m) (-1) (m_size m - 1) 0
  | PopRestore => ev kFAA (c_size m) 1 (m_size m + 1) 0
  | PopLoop oh _ => ev kR (f_flag m oh) (s_flag m oh) 0 0
  | PopNext oh _ => ev kR (f_next m oh) (s_next m oh) 0 0
  | PopCas oh nx _ => ev kCAS (c_head m) oh nx (b2z (m_head m =? oh))
  | PopReload _ => ev kR (c_head m) (m_head m) 0 0
  | PopChk _ => ev kR (c_size m) (m_size m) 0 0
  | PopClr oh => ev kW (f_flag m oh) 0 0 0
  | PopUse1 oh => ev kR (f_flag m oh) (s_flag m oh) 0 0
  | PopUse2 oh v => ev kW (f_flag m oh) (lor_flag v c_sliceInUsedFlag) 0 0
  | PopCnt _ => ev kFAA (c_counter m) 1 (m_counter m + 1) 0
  | PopRcpb _ => ev kR (c_cpb m) (m_cpb m) 0 0
  | PopRcap oh => ev kR (f_cap m oh) (s_cap m oh) 0 0
  | PopRstart oh => ev kR (f_start m oh) (s_start m oh) 0 0
  | PopRsize oh => ev kR (f_size m oh) (s_size m oh) 0 0
  | ChPushR1 b _ => ev kW (f_size m b) 0 0 0
  | PushR2 b _ => ev kW (f_start m b) 0 0 0
  | PushR3 b _ => ev kW (f_flag m b) 0 0 0
  | PushTail _ _ => ev kR (c_tail m) (m_tail m) 0 0
  | PushCas b ot _ => ev kCAS (c_tail m) ot b (b2z (m_tail m =? ot))
  | PushL1 b ot _ => ev kW (f_next m ot) b 0 0
  | PushL2 _ ot _ => ev kR (f_flag m ot) (s_flag m ot) 0 0
  | PushL3 _ ot v _ => ev kW (f_flag m ot) (lor_flag v c_hasNextBufferFlag) 0 0
  | PushSz _ _ => ev kFAA (c_size m) 1 (m_size m + 1) 0
  | PushCnt _ _ => ev kFAA (c_counter m) (-1) (m_counter m - 1) 0
  | UpdStart b _ => ev kW (f_start m b) 0 0 0
  | UpdNext b t => ev kW (f_next m b) t 0 0
  | UpdF1 b => ev kR (f_flag m b) (s_flag m b) 0 0
  | UpdF2 b v => ev kW (f_flag m b) (lor_flag v c_hasNextBufferFlag) 0 0
  | ChLoop b => ev kR (f_flag m b) (s_flag m b) 0 0
  | ChNext b => ev kR (f_next m b) (s_next m b) 0 0
  | ChCpb _ _ => ev kR (c_cpb m) (m_cpb m) 0 0
  | ChRead1 a => ev kR (a + c_bufferCapOffset) (s_cap m (a - m_base m)) 0 0
  | ChRead2 a => ev kR (a + c_bufferCapOffset) (s_cap m (a - m_base m)) 0 0
  | ChRead3 a => ev kR (a + c_bufferDataStartOffset) (s_start m (a - m_base m)) 0 0
  | ChRead4 a => ev kR (a + c_bufferSizeOffset) (s_size m (a - m_base m)) 0 0
  end.

Definition step_ev (s : st) (i : nat) : option event :=
  match nth_error (thr s) i with None => None | Some p => tev (mm s) p end.

Fixpoint trace (sched : list nat) (s : st) : list (option event) :=
  match sched with [] => [] | i :: r => step_ev s i :: trace r (step s i) end.
