(* Model of the session manager's rebuild watchers (C17).  NO proofs in this file.

   Code modelled (read on /repo): session_manager.go
     background()                       one watcher goroutine per pool id (lines 185-249)
     handleSessionManagerHotRestart     swap of sm.pools[id], parking in sm.reservePools
     checkHotRestart                    completion / time-out of the client side of a hot restart
     Close                              its steps IN THE ORDER OF THE CODE: cancelFunc; wg.Wait; then, under
                                        sm's lock, pools[i].close() for every i, parked pools closed, reservePools = nil
     streamPool.getOrOpenStream         what GetStream does on the chosen pool

   Pool OBJECTS have identity (the watcher keeps the *streamPool it loaded and later stores the
   rebuilt session into THAT object, whatever sm.pools[id] is by then): [objs] is the heap of pool
   objects, [pools] / [reserve] hold indices into it.  A pool object carries the epoch and liveness
   of its current session.  The server (reachability, killing sessions) is the adversary:
   [SessionLost], the [ok] parameter of a dial.  The hot-restart traffic is adversarial as well
   ([HREvent] with any id / epoch at any time); how it is produced is C16's model.

   Watcher program counters:
     WTop      loop head: RLock; if state == hotRestartState { sleep; continue }; pool := sm.pools[id]
     WSelect   select { <-pool.Session().CloseChan() ; <-sm.ctx.Done() }
     WWait     pool closed; select { <-sm.ctx.Done() ; <-rebuildTimer.C }
     WCompare  timer fired: sm.Lock(); sm.pools[id] != pool ? break : newClientSession(...);
               session.manager = sm; pool.session.Store(session); sm.Unlock()
               (identity check, dial and store in ONE critical section, after the wait)
     WStore    only in the variant [store_late] (the order before the repair: Store AFTER sm.Unlock()): the dial
               succeeded, the lock is released, the session is not stored yet
     WExit     returned
   Timers: [TimerFires] may happen at any step while the manager is not closed.  After cancel the
   timer case can only win the select if it fired before the cancel, which is the interleaving
   TimerFires-then-cancel; that a fresh timer (rebuildInterval) does not fire before an already
   cancelled context is seen is timer behaviour (observed, not proved). *)
From Coq Require Import List ZArith Bool Arith.
From Shm Require Import Gen.Consts Model.HotRestart.
Import ListNotations.
Open Scope Z_scope.

Record pobj := {
  o_epoch : Z;        (* pool.Session().epochID *)
  o_alive : bool;     (* session not closed *)
  o_slot : nat;       (* ghost: the pool id this object was created for *)
  o_by : Z;           (* ghost: who created the current session: 0 NewSessionManager, 1 hot restart, 2 watcher *)
  o_pending : option Z }. (* a watcher has dialled a replacement (of this epoch) for this object and not stored it yet *)

(* the statements of SessionManager.Close, one shared-state action each; the closing of sm.pools and of
   the parked pools happens in ONE critical section of sm's lock (the lock of the hot-restart handler
   and of its checker), hence one action *)
Inductive cstep := CCancel | CWait | CCloseAll.
(* session_manager.go: sm.cancelFunc(); sm.wg.Wait(); sm.Lock(); pools[i].close() for every i; parked pools
   closed; reservePools = nil; sm.Unlock() *)
Definition close_prog : list cstep := [CCancel; CWait; CCloseAll].

Inductive wpc := WTop | WSelect | WWait | WCompare | WStore | WExit.
Record watcher := { w_pc : wpc; w_pool : nat }.

Record rstate := {
  objs : list pobj;
  pools : list nat;                (* sm.pools[id] -> pool object *)
  reserve : list (option nat);     (* sm.reservePools *)
  r_state : Z; r_epoch : Z;
  closed : bool;                   (* sm.cancelFunc() was called *)
  watchers : list watcher;
  created : nat;                   (* sessions created by watchers *)
  bad : nat;                       (* ... of which stored into a pool object that was not sm.pools[id] any more *)
  cprog : list cstep;              (* what SessionManager.Close still has to do (the whole body before it is called) *)
  check_early : bool;              (* false = the code: the identity check is made AFTER the rebuild wait, in the critical
                                      section of the dial.  true = a variant that checks before the wait and dials
                                      unconditionally afterwards (kept to show what the theorems depend on) *)
  store_late : bool }.             (* false = the code: pool.session.Store(session) inside the critical section of the
                                      dial.  true = the order before the repair: Store after sm.Unlock() *)

Inductive revent :=
| WLoad (id : nat)
| WakeClose (id : nat)
| WakeCtx (id : nat)
| TimerFires (id : nat)
| Compare (id : nat) (ok : bool)           (* the critical section after the wait; ok = newClientSession succeeds *)
| Store (id : nat)                         (* variant [store_late] only: pool.session.Store(session) after sm.Unlock() *)
| SessionLost (o : nat)                    (* the session of pool object o dies by itself *)
| HREvent (i : nat) (e : Z) (ok : bool)    (* handleSessionManagerHotRestart for sessionID i, epoch e *)
| HRTick | HRTimeout
| CloseStep                                (* the next statement of SessionManager.Close *)
| GetStreamR (k : nat).

Definition set_alive (p : pobj) (a : bool) : pobj :=
  {| o_epoch := o_epoch p; o_alive := a; o_slot := o_slot p; o_by := o_by p; o_pending := o_pending p |}.

Definition kill_obj (os : list pobj) (o : nat) : list pobj :=
  match nth_error os o with Some p => upd os o (set_alive p false) | None => os end.

Fixpoint kill_reserved (rs : list (option nat)) (os : list pobj) : list pobj :=
  match rs with
  | [] => os
  | Some o :: r => kill_reserved r (kill_obj os o)
  | None :: r => kill_reserved r os
  end.

Definition obj_alive (s : rstate) (o : nat) : bool :=
  match nth_error (objs s) o with Some p => o_alive p | None => false end.
Definition obj_epoch (s : rstate) (o : nat) : Z :=
  match nth_error (objs s) o with Some p => o_epoch p | None => -1 end.
Definition pool_of (s : rstate) (id : nat) : nat := nth id (pools s) 0%nat.
Definition watcher_of (s : rstate) (id : nat) : watcher := nth id (watchers s) {| w_pc := WExit; w_pool := 0%nat |}.

Definition set_watcher (s : rstate) (id : nat) (w : watcher) : rstate :=
  {| objs := objs s; pools := pools s; reserve := reserve s; r_state := r_state s; r_epoch := r_epoch s;
     closed := closed s; watchers := upd (watchers s) id w; created := created s; bad := bad s; cprog := cprog s; check_early := check_early s; store_late := store_late s |}.

Definition in_range (s : rstate) (id : nat) : bool := (id <? length (watchers s))%nat.

Definition r_enabled (s : rstate) (ev : revent) : bool :=
  match ev with
  | WLoad id => in_range s id && match w_pc (watcher_of s id) with WTop => true | _ => false end
  | WakeClose id => in_range s id && match w_pc (watcher_of s id) with WSelect => true | _ => false end
                    && negb (obj_alive s (w_pool (watcher_of s id)))
  | WakeCtx id => in_range s id && closed s &&
                  match w_pc (watcher_of s id) with WSelect | WWait => true | _ => false end
  | TimerFires id => in_range s id && negb (closed s) &&
                     match w_pc (watcher_of s id) with WWait => true | _ => false end
  | Compare id _ => in_range s id && match w_pc (watcher_of s id) with WCompare => true | _ => false end
  | Store id => in_range s id && match w_pc (watcher_of s id) with WStore => true | _ => false end
  | SessionLost o => obj_alive s o
  | HREvent i _ _ => (i <? length (pools s))%nat   (* the handler is a posted lambda: it may run after its session died *)
  | HRTick | HRTimeout => r_state s =? st_hr
  | CloseStep =>
      match cprog s with
      | [] => false
      | CWait :: _ => forallb (fun w => match w_pc w with WExit => true | _ => false end) (watchers s)  (* wg.Wait returns *)
      | _ :: _ => true
      end
  | GetStreamR k => (k <? length (pools s))%nat
  end.

Definition new_obj (e : Z) (slot : nat) (by_ : Z) : pobj := {| o_epoch := e; o_alive := true; o_slot := slot; o_by := by_; o_pending := None |}.

Definition hr_event (s : rstate) (i : nat) (e : Z) (ok : bool) : rstate :=
  if closed s then s     (* sm.ctx.Err() != nil: a closed manager takes no part in a hot restart *)
  else if (r_state s =? st_hr) && negb (r_epoch s =? e) then s
  else
    let s1 := if r_state s =? st_hr then s
              else {| objs := kill_reserved (reserve s) (objs s); pools := pools s;
                      reserve := repeat None (length (pools s)); r_state := st_hr; r_epoch := e;
                      closed := closed s; watchers := watchers s; created := created s; bad := bad s; cprog := cprog s; check_early := check_early s; store_late := store_late s |} in
    match nth_error (reserve s1) i with
    | Some (Some _) => s1
    | _ =>
        if negb ok then s1
        else {| objs := objs s1 ++ [new_obj (r_epoch s1) i 1];
                pools := upd (pools s1) i (length (objs s1));
                reserve := upd (reserve s1) i (Some (pool_of s1 i));
                r_state := r_state s1; r_epoch := r_epoch s1; closed := closed s1;
                watchers := watchers s1; created := created s1; bad := bad s1; cprog := cprog s1; check_early := check_early s1; store_late := store_late s1 |}
    end.

Definition r_apply (s : rstate) (ev : revent) : rstate :=
  match ev with
  | WLoad id =>
      if r_state s =? st_hr then s      (* time.Sleep(500ms); continue *)
      else set_watcher s id {| w_pc := WSelect; w_pool := pool_of s id |}
  | WakeClose id =>
      let w := watcher_of s id in
      if r_state s =? st_hr then set_watcher s id {| w_pc := WTop; w_pool := w_pool w |}
      else (* pool.close(): the session is closed already; the pooled streams are closed *)
        if check_early s && negb (pool_of s id =? w_pool w)%nat
        then set_watcher s id {| w_pc := WTop; w_pool := w_pool w |}
        else set_watcher s id {| w_pc := WWait; w_pool := w_pool w |}
  | WakeCtx id => set_watcher s id {| w_pc := WExit; w_pool := w_pool (watcher_of s id) |}
  | TimerFires id => set_watcher s id {| w_pc := WCompare; w_pool := w_pool (watcher_of s id) |}
  | Compare id ok =>
      let w := watcher_of s id in
      if negb (check_early s) && negb (pool_of s id =? w_pool w)%nat then
        (* sessionHadChangedByHotrestart := sm.pools[id] != pool  (identity of the pool object) *)
        set_watcher s id {| w_pc := WTop; w_pool := w_pool w |}
      else if negb ok then                                        (* dial failed: continue *)
        if check_early s && negb (pool_of s id =? w_pool w)%nat
        then set_watcher s id {| w_pc := WTop; w_pool := w_pool w |}
        else set_watcher s id {| w_pc := WWait; w_pool := w_pool w |}
      else
        match nth_error (objs s) (w_pool w) with
        | None => set_watcher s id {| w_pc := WTop; w_pool := w_pool w |}
        | Some p =>
            if store_late s then
              {| objs := upd (objs s) (w_pool w) {| o_epoch := o_epoch p; o_alive := o_alive p; o_slot := o_slot p;
                                                    o_by := o_by p; o_pending := Some (r_epoch s) |};
                 pools := pools s; reserve := reserve s; r_state := r_state s; r_epoch := r_epoch s; closed := closed s;
                 watchers := upd (watchers s) id {| w_pc := WStore; w_pool := w_pool w |};
                 created := S (created s); bad := bad s; cprog := cprog s; check_early := check_early s;
                 store_late := store_late s |}
            else
              (* session.manager = sm; pool.session.Store(session) — still under sm's lock *)
              {| objs := upd (objs s) (w_pool w) {| o_epoch := r_epoch s; o_alive := true; o_slot := o_slot p;
                                                    o_by := 2; o_pending := None |};
                 pools := pools s; reserve := reserve s; r_state := r_state s; r_epoch := r_epoch s; closed := closed s;
                 watchers := upd (watchers s) id {| w_pc := WTop; w_pool := w_pool w |};
                 created := S (created s);
                 bad := if (w_pool w =? pool_of s id)%nat then bad s else S (bad s); cprog := cprog s;
                 check_early := check_early s; store_late := store_late s |}
        end
  | Store id =>
      let w := watcher_of s id in
      match nth_error (objs s) (w_pool w) with
      | None => set_watcher s id {| w_pc := WTop; w_pool := w_pool w |}
      | Some p =>
          {| objs := upd (objs s) (w_pool w)
                         {| o_epoch := match o_pending p with Some e => e | None => o_epoch p end;
                            o_alive := true; o_slot := o_slot p; o_by := 2; o_pending := None |};
             pools := pools s; reserve := reserve s; r_state := r_state s; r_epoch := r_epoch s; closed := closed s;
             watchers := upd (watchers s) id {| w_pc := WTop; w_pool := w_pool w |};
             created := created s;
             bad := if (w_pool w =? pool_of s id)%nat then bad s else S (bad s); cprog := cprog s;
             check_early := check_early s; store_late := store_late s |}
      end
  | SessionLost o =>
      {| objs := kill_obj (objs s) o; pools := pools s; reserve := reserve s; r_state := r_state s; r_epoch := r_epoch s;
         closed := closed s; watchers := watchers s; created := created s; bad := bad s; cprog := cprog s; check_early := check_early s; store_late := store_late s |}
  | HREvent i e ok => hr_event s i e ok
  | HRTick =>
      if (count_some (reserve s) =? length (pools s))%nat then
        {| objs := objs s; pools := pools s; reserve := reserve s; r_state := st_default; r_epoch := r_epoch s;
           closed := closed s; watchers := watchers s; created := created s; bad := bad s; cprog := cprog s; check_early := check_early s; store_late := store_late s |}
      else s
  | HRTimeout =>
      {| objs := kill_reserved (reserve s) (objs s); pools := pools s; reserve := repeat None (length (pools s));
         r_state := st_default; r_epoch := r_epoch s; closed := closed s; watchers := watchers s;
         created := created s; bad := bad s; cprog := cprog s; check_early := check_early s; store_late := store_late s |}
  | CloseStep =>
      match cprog s with
      | [] => s
      | c :: rest =>
          match c with
          | CCancel =>
              {| objs := objs s; pools := pools s; reserve := reserve s; r_state := r_state s; r_epoch := r_epoch s;
                 closed := true; watchers := watchers s; created := created s; bad := bad s; cprog := rest; check_early := check_early s; store_late := store_late s |}
          | CWait =>
              {| objs := objs s; pools := pools s; reserve := reserve s; r_state := r_state s; r_epoch := r_epoch s;
                 closed := closed s; watchers := watchers s; created := created s; bad := bad s; cprog := rest; check_early := check_early s; store_late := store_late s |}
          | CCloseAll =>
              {| objs := kill_reserved (reserve s) (kill_reserved (map Some (pools s)) (objs s)); pools := pools s;
                 reserve := repeat None (length (pools s));
                 r_state := r_state s; r_epoch := r_epoch s; closed := closed s; watchers := watchers s;
                 created := created s; bad := bad s; cprog := rest; check_early := check_early s; store_late := store_late s |}
          end
      end
  | GetStreamR _ => s
  end.

Definition r_step (s : rstate) (ev : revent) : rstate := if r_enabled s ev then r_apply s ev else s.
Definition r_run (evs : list revent) (s : rstate) : rstate := fold_left r_step evs s.

(* SessionManager.GetStream on pool k: never blocks (no wait in getOrOpenStream): an error or a stream *)
Inductive gs_outcome := GsOk | GsErr | GsBlocked.
Definition get_stream_r (s : rstate) (k : nat) : gs_outcome :=
  if obj_alive s (pool_of s k) then GsOk else GsErr.

Definition r_init_gen (prog : list cstep) (early late : bool) (n : nat) : rstate :=
  {| objs := map (fun i => new_obj 0 i 0) (seq 0 n); pools := seq 0 n; reserve := repeat None n;
     r_state := st_default; r_epoch := 0; closed := false;
     watchers := repeat {| w_pc := WTop; w_pool := 0%nat |} n; created := 0; bad := 0; cprog := prog; check_early := early; store_late := late |}.
Definition r_init_prog (prog : list cstep) (n : nat) : rstate := r_init_gen prog false false n.
Definition r_init (n : nat) : rstate := r_init_prog close_prog n.

Definition pending (s : rstate) : nat :=
  length (filter (fun w => match w_pc w with WCompare => true | _ => false end) (watchers s)).
