(* Model of the hot-restart bookkeeping (C16).  NO proofs in this file.

   Code modelled (read on /repo):
     listener.go          Listener.HotRestart, checkHotRestart, resetState
     protocol_manager.go  handleHotRestart (client side, posts to the manager), handleHotRestartAck
     session_manager.go   handleSessionManagerHotRestart, checkHotRestart, reservePools / pools
     session.go           Session.hotRestart (sends one event, never fails for the two event types)

   One restarting ("old") listener with a table of server-side sessions, one session manager with
   one pool per session id.  Listener session i and the client session that was created for pool i
   are the two ends of connection i; [to_client i] / [to_server i] are the FIFOs of hot-restart
   events / acks in flight on that connection.  Delay = a Deliver event may come at any later step;
   loss = Drop events; foreign or stale traffic = Send events that enqueue an arbitrary epoch.
   newClientSession may fail: the outcome of the dial is a parameter of the Deliver event.  The two
   2 s checkers are [l_chk] / [m_chk] ("the goroutine is running"); their tick and timeout cases
   are events that may fire at any step while the checker runs.  The rebuild watcher of
   session_manager.go is NOT part of this model (it is C17's subject, Model/Rebuild.v).

   Go's map iteration order in Listener.HotRestart is modelled as list order; it only matters on
   the ErrInHandshakeStage early return, which the theorems show unreachable. *)
From Coq Require Import List ZArith Bool Arith.
From Shm Require Import Gen.Consts.
Import ListNotations.
Open Scope Z_scope.

Definition st_default : Z := c_defaultState.
Definition st_hr : Z := c_hotRestartState.
Definition st_done : Z := c_hotRestartDoneState.

Fixpoint upd {A} (l : list A) (i : nat) (x : A) : list A :=
  match l, i with
  | [], _ => []
  | _ :: t, O => x :: t
  | h :: t, S j => h :: upd t j x
  end.

(* ---------------------------------------------------------------- listener (server) side *)
Record lsess := { ls_state : Z; ls_hs : bool (* handshakeDone *); ls_present : bool (* still in l.sessions.data *) }.
Record listener := { l_state : Z; l_epoch : Z; l_ack : Z; l_chk : bool; l_sess : list lsess }.

Definition ls_set_state (x : lsess) (v : Z) : lsess :=
  {| ls_state := v; ls_hs := ls_hs x; ls_present := ls_present x |}.

(* the loop of Listener.HotRestart over l.sessions.data, sessions and their client-bound FIFOs in
   lockstep.  Result: sessions, FIFOs, number of events sent (added to hotRestartAckCount) and
   whether the loop left through `return ErrInHandshakeStage`. *)
Fixpoint hr_loop (e : Z) (ss : list lsess) (ch : list (list Z)) : list lsess * list (list Z) * Z * bool :=
  match ss, ch with
  | x :: ss', c :: ch' =>
      if negb (ls_present x) then
        let '(a, b, k, st) := hr_loop e ss' ch' in (x :: a, c :: b, k, st)
      else if negb (ls_hs x) then (x :: ss', c :: ch', 0, true)
      else if negb (ls_state x =? st_default) then
        let '(a, b, k, st) := hr_loop e ss' ch' in (x :: a, c :: b, k, st)
      else
        let '(a, b, k, st) := hr_loop e ss' ch' in (ls_set_state x st_hr :: a, (c ++ [e]) :: b, k + 1, st)
  | _, _ => (ss, ch, 0, false)
  end.

Inductive hr_result := HrOk | HrInProgress | HrInHandshake.

(* ---------------------------------------------------------------- client (session manager) side *)
(* a client session as far as the bookkeeping sees it *)
Record csess := {
  cs_epoch : Z;             (* Session.epochID *)
  cs_alive : bool;          (* not closed *)
  cs_self : bool;           (* it died by itself (peer/connection), i.e. was not closed by the manager *)
  cs_srv : option nat }.    (* Some j: other end is session j of the restarting listener; None: the new server *)

Record manager := {
  m_state : Z; m_epoch : Z; m_chk : bool;
  m_pools : list csess;                 (* sm.pools[i].Session() *)
  m_reserve : list (option csess);      (* sm.reservePools as a table over the same ids; nil map = all None *)
  m_created : nat }.                    (* sessions successfully created by newClientSession (ghost counter) *)

Record state := {
  lis : listener; mgr : manager;
  to_client : list (list Z);            (* HotRestart(epoch) events in flight on connection i *)
  to_server : list (list Z) }.          (* HotRestartAck(epoch) events in flight on connection i *)

Definition count_some {A} (l : list (option A)) : nat :=
  length (filter (fun o => match o with Some _ => true | None => false end) l).

Definition new_sess (e : Z) : csess := {| cs_epoch := e; cs_alive := true; cs_self := false; cs_srv := None |}.
Definition kill_self (c : csess) : csess :=
  {| cs_epoch := cs_epoch c; cs_alive := false; cs_self := true; cs_srv := cs_srv c |}.

(* handleSessionManagerHotRestart(sm, {epoch e, session with sessionID i}); ok = newClientSession succeeds *)
Definition mgr_on_restart (m : manager) (i : nat) (e : Z) (ok : bool) : manager :=
  if (m_state m =? st_hr) && negb (m_epoch m =? e) then m
  else
    let m1 := if m_state m =? st_hr then m
              else {| m_state := st_hr; m_epoch := e; m_chk := true; m_pools := m_pools m;
                      m_reserve := repeat None (length (m_pools m)); m_created := m_created m |} in
    match nth_error (m_reserve m1) i with
    | Some (Some _) => m1                                   (* repeated sessionID *)
    | _ =>
        if negb ok then m1                                  (* newClientSession failed *)
        else match nth_error (m_pools m1) i with
             | None => m1
             | Some old =>
                 {| m_state := m_state m1; m_epoch := m_epoch m1; m_chk := m_chk m1;
                    m_pools := upd (m_pools m1) i (new_sess (m_epoch m1));
                    m_reserve := upd (m_reserve m1) i (Some old);
                    m_created := S (m_created m1) |}
             end
    end.

(* acks sent by checkHotRestart's completion branch: one per parked pool, through the parked session *)
Fixpoint send_acks (e : Z) (rs : list (option csess)) (ch : list (list Z)) : list (list Z) :=
  match rs with
  | [] => ch
  | Some p :: rs' =>
      let ch' := match cs_srv p with
                 | Some j => if cs_alive p then
                               match nth_error ch j with Some q => upd ch j (q ++ [e]) | None => ch end
                             else ch
                 | None => ch
                 end in
      send_acks e rs' ch'
  | None :: rs' => send_acks e rs' ch
  end.

(* handleHotRestartAck on server session i with epoch e: an ack counts only while the listener is in
   hotRestartState, for the epoch in progress, on a session that is itself still waiting *)
Definition lis_on_ack (l : listener) (i : nat) (e : Z) : listener :=
  if (l_state l =? st_hr) && (e =? l_epoch l) &&
     match nth_error (l_sess l) i with Some x => ls_state x =? st_hr | None => false end then
    {| l_state := l_state l; l_epoch := l_epoch l; l_ack := l_ack l - 1; l_chk := l_chk l;
       l_sess := match nth_error (l_sess l) i with
                 | Some x => upd (l_sess l) i (ls_set_state x st_done)
                 | None => l_sess l end |}
  else l.

(* ---------------------------------------------------------------- events *)
Inductive event :=
| ServerHotRestart (e : Z)               (* Listener.HotRestart(e) *)
| DeliverRestart (i : nat) (ok : bool)   (* head of to_client i reaches the manager; ok = the dial succeeds *)
| SendRestart (i : nat) (e : Z)          (* a foreign / stale HotRestart(e) is put on connection i *)
| DropRestart (i : nat)
| ManagerTick | ManagerTimeout           (* the two select cases of SessionManager.checkHotRestart *)
| DeliverAck (i : nat)                   (* head of to_server i reaches handleHotRestartAck *)
| SendAck (i : nat) (e : Z)              (* a foreign / stale ack *)
| DropAck (i : nat)
| ListenerTick | ListenerTimeout         (* the two select cases of Listener.checkHotRestart *)
| PoolSessionDies (i : nat)              (* the current session of pool i dies by itself *)
| ParkedSessionDies (i : nat)            (* the parked session of pool i dies (old server lets go) *)
| ListenerSessionGone (i : nat)          (* server session i shut down and left l.sessions.data *)
| GetStream (k : nat).                   (* traffic probe on pool k; no state change *)

Definition nonempty {A} (o : option (list A)) : bool :=
  match o with Some (_ :: _) => true | _ => false end.

Definition enabled (s : state) (ev : event) : bool :=
  match ev with
  | ServerHotRestart _ => true
  | DeliverRestart i _ => (i <? length (m_pools (mgr s)))%nat && nonempty (nth_error (to_client s) i)
  | SendRestart i _ => (i <? length (to_client s))%nat
  | DropRestart i => nonempty (nth_error (to_client s) i)
  | ManagerTick | ManagerTimeout => m_chk (mgr s)
  | DeliverAck i =>
      (* the handler runs on the session's event connection: only while the session is alive, i.e.
         still in the table (Session.Close removes it from the table and closes the connection; the
         short window between the two is not modelled) *)
      nonempty (nth_error (to_server s) i) &&
      match nth_error (l_sess (lis s)) i with Some x => ls_present x | None => false end
  | SendAck i _ => (i <? length (to_server s))%nat
  | DropAck i => nonempty (nth_error (to_server s) i)
  | ListenerTick | ListenerTimeout => l_chk (lis s)
  | PoolSessionDies i => match nth_error (m_pools (mgr s)) i with Some c => cs_alive c | None => false end
  | ParkedSessionDies i => match nth_error (m_reserve (mgr s)) i with Some (Some c) => cs_alive c | _ => false end
  | ListenerSessionGone i => match nth_error (l_sess (lis s)) i with Some x => ls_present x | None => false end
  | GetStream k => (k <? length (m_pools (mgr s)))%nat
  end.

Definition with_lis (s : state) (l : listener) : state :=
  {| lis := l; mgr := mgr s; to_client := to_client s; to_server := to_server s |}.
Definition with_mgr (s : state) (m : manager) : state :=
  {| lis := lis s; mgr := m; to_client := to_client s; to_server := to_server s |}.

Definition hot_restart (s : state) (e : Z) : state * hr_result :=
  let l := lis s in
  if l_state l =? st_hr then (s, HrInProgress)
  else
    let '(ss, ch, k, early) := hr_loop e (l_sess l) (to_client s) in
    if early then
      (* `return ErrInHandshakeStage`: state and epoch already written, no checker started *)
      ({| lis := {| l_state := st_hr; l_epoch := e; l_ack := l_ack l + k; l_chk := l_chk l; l_sess := ss |};
          mgr := mgr s; to_client := ch; to_server := to_server s |}, HrInHandshake)
    else
      ({| lis := {| l_state := st_hr; l_epoch := e; l_ack := l_ack l + k; l_chk := true; l_sess := ss |};
          mgr := mgr s; to_client := ch; to_server := to_server s |}, HrOk).

Definition pop_head (ch : list (list Z)) (i : nat) : option Z * list (list Z) :=
  match nth_error ch i with
  | Some (e :: q) => (Some e, upd ch i q)
  | _ => (None, ch)
  end.

Definition apply_event (s : state) (ev : event) : state :=
  match ev with
  | ServerHotRestart e => fst (hot_restart s e)
  | DeliverRestart i ok =>
      match pop_head (to_client s) i with
      | (Some e, ch) => {| lis := lis s; mgr := mgr_on_restart (mgr s) i e ok; to_client := ch; to_server := to_server s |}
      | (None, _) => s
      end
  | SendRestart i e =>
      match nth_error (to_client s) i with
      | Some q => {| lis := lis s; mgr := mgr s; to_client := upd (to_client s) i (q ++ [e]); to_server := to_server s |}
      | None => s end
  | DropRestart i =>
      {| lis := lis s; mgr := mgr s; to_client := snd (pop_head (to_client s) i); to_server := to_server s |}
  | ManagerTick =>
      let m := mgr s in
      if (count_some (m_reserve m) =? length (m_pools m))%nat then
        {| lis := lis s;
           mgr := {| m_state := st_default; m_epoch := m_epoch m; m_chk := false; m_pools := m_pools m;
                     m_reserve := m_reserve m; m_created := m_created m |};
           to_client := to_client s;
           to_server := send_acks (m_epoch m) (m_reserve m) (to_server s) |}
      else s
  | ManagerTimeout =>
      let m := mgr s in
      with_mgr s {| m_state := st_default; m_epoch := m_epoch m; m_chk := false; m_pools := m_pools m;
                    m_reserve := repeat None (length (m_pools m)); m_created := m_created m |}
  | DeliverAck i =>
      match pop_head (to_server s) i with
      | (Some e, ch) => {| lis := lis_on_ack (lis s) i e; mgr := mgr s; to_client := to_client s; to_server := ch |}
      | (None, _) => s
      end
  | SendAck i e =>
      match nth_error (to_server s) i with
      | Some q => {| lis := lis s; mgr := mgr s; to_client := to_client s; to_server := upd (to_server s) i (q ++ [e]) |}
      | None => s end
  | DropAck i =>
      {| lis := lis s; mgr := mgr s; to_client := to_client s; to_server := snd (pop_head (to_server s) i) |}
  | ListenerTick =>
      let l := lis s in
      if negb (l_state l =? st_hr) then
        with_lis s {| l_state := l_state l; l_epoch := l_epoch l; l_ack := l_ack l; l_chk := false; l_sess := l_sess l |}
      else if l_ack l =? 0 then
        with_lis s {| l_state := st_done; l_epoch := l_epoch l; l_ack := l_ack l; l_chk := false; l_sess := l_sess l |}
      else s
  | ListenerTimeout =>
      let l := lis s in
      (* resetState: state, count and the state of every session still in the table *)
      with_lis s {| l_state := st_default; l_epoch := l_epoch l; l_ack := 0; l_chk := false;
                    l_sess := map (fun x => if ls_present x then ls_set_state x st_default else x) (l_sess l) |}
  | PoolSessionDies i =>
      let m := mgr s in
      match nth_error (m_pools m) i with
      | Some c => with_mgr s {| m_state := m_state m; m_epoch := m_epoch m; m_chk := m_chk m;
                                m_pools := upd (m_pools m) i (kill_self c); m_reserve := m_reserve m;
                                m_created := m_created m |}
      | None => s end
  | ParkedSessionDies i =>
      let m := mgr s in
      match nth_error (m_reserve m) i with
      | Some (Some c) => with_mgr s {| m_state := m_state m; m_epoch := m_epoch m; m_chk := m_chk m;
                                       m_pools := m_pools m; m_reserve := upd (m_reserve m) i (Some (kill_self c));
                                       m_created := m_created m |}
      | _ => s end
  | ListenerSessionGone i =>
      let l := lis s in
      match nth_error (l_sess l) i with
      | Some x => with_lis s {| l_state := l_state l; l_epoch := l_epoch l; l_ack := l_ack l; l_chk := l_chk l;
                                l_sess := upd (l_sess l) i {| ls_state := ls_state x; ls_hs := ls_hs x; ls_present := false |} |}
      | None => s end
  | GetStream _ => s
  end.

Definition step (s : state) (ev : event) : state := if enabled s ev then apply_event s ev else s.
Definition run (evs : list event) (s : state) : state := fold_left step evs s.

(* result of SessionManager.GetStream on pool k as far as the bookkeeping decides it *)
Definition get_stream (s : state) (k : nat) : bool :=
  match nth_error (m_pools (mgr s)) k with Some c => cs_alive c | None => false end.

(* initial state: one listener session per pool, handshake flags [hs] (Listener.Run only adds a
   session after newSession returned, i.e. with handshakeDone = true: [init n]) *)
Definition init_sess (j : nat) : csess := {| cs_epoch := 0; cs_alive := true; cs_self := false; cs_srv := Some j |}.
Definition init_hs (hs : list bool) : state :=
  let n := length hs in
  {| lis := {| l_state := st_default; l_epoch := 0; l_ack := 0; l_chk := false;
               l_sess := map (fun h => {| ls_state := st_default; ls_hs := h; ls_present := true |}) hs |};
     mgr := {| m_state := st_default; m_epoch := 0; m_chk := false;
               m_pools := map init_sess (seq 0 n); m_reserve := repeat None n; m_created := 0 |};
     to_client := repeat [] n; to_server := repeat [] n |}.
Definition init (n : nat) : state := init_hs (repeat true n).
