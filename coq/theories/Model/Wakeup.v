(* Model of the wake-up protocol between the producers of one IO queue and its single consumer
   (C05; shared with C07).  NO PROOFS in this file (it must still run when a proof breaks).

   Code modelled (one shared access per step, as in the instrumented implementation, go/verisched):

     producer  stream.go Flush/close after the element is built:
                 queue.put                   (its publication point: FAA tail; C04 justifies treating the
                                              rest of put as invisible here, S re-checks it on the real queue)
               session.go wakeUpPeer (616-631):
                 markWorking                 CAS workingFlag 0->1      loser: return
                 fast path                   CAS writing 0->1 ; eventConn.write(polling) ; store writing 0 ;
                                             asyncNotify(notifyContinueWriteCh)
                 slow path (writing busy)    sendCh <- polling
     other writers of the control connection (fallback data, stream-close events: waitForSend):
                                             sendCh <- event
     send loop session.go send (440-465):    <-sendCh ; for !CAS writing 0->1 { <-notifyContinueWriteCh } ;
                                             eventConn.write ; store writing 0
     consumer  protocol_manager.go: a fallback-data / stream-close event (handleFallbackData,
               handleStreamClose) first empties the queue (consumeRecvQueue: pop until empty) WITHOUT
               touching the flag, then handles its own item;
               handlePolling + queue.go markNotWorking, entered
               once per polling event taken from the connection (single event-loop thread):
                 loop { loop { pop: load head; load tail; empty -> break; (slot reads); FAA head }
                        (runtime.Gosched)  store flag 0 ; load tail ; load head ;
                        size = 0 -> return (idle) ; else store flag 1 }

   The queue is represented by its two counters (tail - head = number of elements); capacity is not
   modelled: a put that finds the queue full enqueues nothing and sends no wake-up, so it is no
   operation of this protocol.  Thread count, programs and schedule are arbitrary. *)
From Coq Require Import List ZArith Lia Bool Arith.
From Shm Require Import Gen.Consts.
Import ListNotations.
Open Scope Z_scope.

Inductive sev := EPoll | EOther.            (* events on the control connection *)
Inductive op := OpSend | OpOther.           (* put + wakeUpPeer  |  waitForSend of a non-polling event *)

Inductive ppc := PIdle | PMark | PWr | PSlow | PEv | PRel | PNotify.
Record plocal := { pc : ppc; todo : list op; nsent : nat (* ghost: finished operations *) }.

Inductive cpc := CIdle | CPopH | CPopT (h : Z) | CPopInc | CStore0 | CSizeT | CSizeH (t : Z) | CStore1
               | CDrH | CDrT (h : Z) | CDrInc.   (* the drain in front of a fallback-data / stream-close event *)
Inductive spc := SIdle | SCas (e : sev) | SWait (e : sev) | SWrite (e : sev) | SRel.

Record st := {
  head : Z; tail : Z; flag : bool;          (* the shared queue header *)
  sock : list sev;                          (* events written to the connection, not yet taken by the peer *)
  writing : bool; notif : bool;             (* Session.writing, notifyContinueWriteCh (capacity 1) *)
  sendch : list sev;                        (* Session.sendCh *)
  prods : list plocal; cons : cpc; sl : spc;
  marks : nat;                              (* ghost: successful markWorking *)
  written : nat;                            (* ghost: polling events written to the connection *)
  handled : nat }.                          (* ghost: polling events taken by the consumer *)

Fixpoint set_nth {A} (n : nat) (x : A) (l : list A) : list A :=
  match l, n with
  | [], _ => []
  | _ :: t, O => x :: t
  | h :: t, S n => h :: set_nth n x t
  end.

Definition mk h t f so w nf sc pr c sl_ m wr hd : st :=
  {| head := h; tail := t; flag := f; sock := so; writing := w; notif := nf; sendch := sc;
     prods := pr; cons := c; sl := sl_; marks := m; written := wr; handled := hd |}.

Definition set_prods pr s := mk (head s) (tail s) (flag s) (sock s) (writing s) (notif s) (sendch s) pr (cons s) (sl s) (marks s) (written s) (handled s).
Definition set_tail t s := mk (head s) t (flag s) (sock s) (writing s) (notif s) (sendch s) (prods s) (cons s) (sl s) (marks s) (written s) (handled s).
Definition set_head h s := mk h (tail s) (flag s) (sock s) (writing s) (notif s) (sendch s) (prods s) (cons s) (sl s) (marks s) (written s) (handled s).
Definition set_flag f s := mk (head s) (tail s) f (sock s) (writing s) (notif s) (sendch s) (prods s) (cons s) (sl s) (marks s) (written s) (handled s).
Definition set_sock so s := mk (head s) (tail s) (flag s) so (writing s) (notif s) (sendch s) (prods s) (cons s) (sl s) (marks s) (written s) (handled s).
Definition set_writing w s := mk (head s) (tail s) (flag s) (sock s) w (notif s) (sendch s) (prods s) (cons s) (sl s) (marks s) (written s) (handled s).
Definition set_notif nf s := mk (head s) (tail s) (flag s) (sock s) (writing s) nf (sendch s) (prods s) (cons s) (sl s) (marks s) (written s) (handled s).
Definition set_sendch sc s := mk (head s) (tail s) (flag s) (sock s) (writing s) (notif s) sc (prods s) (cons s) (sl s) (marks s) (written s) (handled s).
Definition set_cons c s := mk (head s) (tail s) (flag s) (sock s) (writing s) (notif s) (sendch s) (prods s) c (sl s) (marks s) (written s) (handled s).
Definition set_sl x s := mk (head s) (tail s) (flag s) (sock s) (writing s) (notif s) (sendch s) (prods s) (cons s) x (marks s) (written s) (handled s).
Definition inc_marks s := mk (head s) (tail s) (flag s) (sock s) (writing s) (notif s) (sendch s) (prods s) (cons s) (sl s) (S (marks s)) (written s) (handled s).
Definition inc_written s := mk (head s) (tail s) (flag s) (sock s) (writing s) (notif s) (sendch s) (prods s) (cons s) (sl s) (marks s) (S (written s)) (handled s).
Definition inc_handled s := mk (head s) (tail s) (flag s) (sock s) (writing s) (notif s) (sendch s) (prods s) (cons s) (sl s) (marks s) (written s) (S (handled s)).

Definition setp (i : nat) (p : plocal) (s : st) : st := set_prods (set_nth i p (prods s)) s.
Definition mkp (c : ppc) (p : plocal) : plocal := {| pc := c; todo := todo p; nsent := nsent p |}.
Definition fin (p : plocal) : plocal := {| pc := PIdle; todo := tl (todo p); nsent := S (nsent p) |}.

(* one step of producer i; a thread that has nothing to do does not move *)
Definition pstep (i : nat) (s : st) : st :=
  match nth_error (prods s) i with
  | None => s
  | Some p =>
    match pc p with
    | PIdle => match todo p with
               | [] => s
               | OpSend :: _ => setp i (mkp PMark p) (set_tail (tail s + 1) s)        (* put: FAA tail *)
               | OpOther :: _ => setp i (fin p) (set_sendch (sendch s ++ [EOther]) s) (* waitForSend *)
               end
    | PMark => if flag s then setp i (fin p) s                                        (* CAS fails *)
               else setp i (mkp PWr p) (inc_marks (set_flag true s))
    | PWr => if writing s then setp i (mkp PSlow p) s
             else setp i (mkp PEv p) (set_writing true s)
    | PSlow => setp i (fin p) (set_sendch (sendch s ++ [EPoll]) s)
    | PEv => setp i (mkp PRel p) (inc_written (set_sock (sock s ++ [EPoll]) s))
    | PRel => setp i (mkp PNotify p) (set_writing false s)
    | PNotify => setp i (fin p) (set_notif true s)
    end
  end.

(* the consumer: the peer's event loop *)
Definition cstep (s : st) : st :=
  match cons s with
  | CIdle => match sock s with
             | [] => s
             | EPoll :: r => inc_handled (set_cons CPopH (set_sock r s))
             | EOther :: r => set_cons CDrH (set_sock r s)
             end
  | CDrH => set_cons (CDrT (head s)) s
  | CDrT h => if h >=? tail s then set_cons CIdle s else set_cons CDrInc s
  | CDrInc => set_cons CDrH (set_head (head s + 1) s)
  | CPopH => set_cons (CPopT (head s)) s
  | CPopT h => if h >=? tail s then set_cons CStore0 s else set_cons CPopInc s
  | CPopInc => set_cons CPopH (set_head (head s + 1) s)
  | CStore0 => set_cons CSizeT (set_flag false s)
  | CSizeT => set_cons (CSizeH (tail s)) s
  | CSizeH t => if t - head s =? 0 then set_cons CIdle s else set_cons CStore1 s
  | CStore1 => set_cons CPopH (set_flag true s)
  end.

Definition is_poll (e : sev) : bool := match e with EPoll => true | EOther => false end.

(* the send loop of the producing session *)
Definition sstep (s : st) : st :=
  match sl s with
  | SIdle => match sendch s with
             | [] => s
             | e :: r => set_sl (SCas e) (set_sendch r s)
             end
  | SCas e => if writing s then set_sl (SWait e) s else set_sl (SWrite e) (set_writing true s)
  | SWait e => if notif s then set_sl (SCas e) (set_notif false s) else s
  | SWrite e => let s1 := set_sl SRel (set_sock (sock s ++ [e]) s) in
                if is_poll e then inc_written s1 else s1
  | SRel => set_sl SIdle (set_writing false s)
  end.

Inductive who := WProd (i : nat) | WCons | WSend.

Definition step (s : st) (w : who) : st :=
  match w with WProd i => pstep i s | WCons => cstep s | WSend => sstep s end.

Definition init (progs : list (list op)) : st :=
  mk 0 0 false [] false false [] (map (fun t => {| pc := PIdle; todo := t; nsent := 0 |}) progs) CIdle SIdle 0 0 0.

Definition run (sched : list who) (s : st) : st := fold_left step sched s.

(* ---------- the implementation's granularity ----------
   Two program points of wakeUpPeer are not scheduling points of the instrumented implementation
   (a channel send follows the preceding atomic operation without an intervening shared-memory
   access): PSlow (sendCh <- polling) and PNotify (asyncNotify).  The theorems are about [step]
   (finer, more interleavings); the correspondence runs [istep], which lets the thread take such
   a step immediately. *)
Definition internal (c : ppc) : bool := match c with PSlow | PNotify => true | _ => false end.
Definition istep (s : st) (w : who) : st :=
  let s1 := step s w in
  match w with
  | WProd i => match nth_error (prods s1) i with
               | Some p => if internal (pc p) then step s1 w else s1
               | None => s1
               end
  | _ => s1
  end.

(* ---------- events (used only by the correspondence check; no theorem depends on them) ---------- *)
Record event := { ek : Z; ecell : Z; ea : Z; eb : Z; ec : Z }.
Definition ev k c a b d := Some {| ek := k; ecell := c; ea := a; eb := b; ec := d |}.
Definition kR := 0. Definition kW := 1. Definition kFAA := 2. Definition kCAS := 3. Definition kBusy := 5.
(* cells outside the queue mapping: the harness names them with these numbers *)
Definition cell_writing := -10. Definition cell_sock := -11. Definition cell_sendch := -12. Definition cell_notif := -13.
Definition code (e : sev) : Z := match e with EPoll => c_typePolling | EOther => c_typeStreamClose end.
Definition b2z (b : bool) : Z := if b then 1 else 0.

Definition pev (i : nat) (s : st) : option event :=
  match nth_error (prods s) i with
  | None => None
  | Some p =>
    match pc p with
    | PIdle => match todo p with
               | [] => None
               | OpSend :: _ => ev kFAA off_map_queue_tail 1 (tail s + 1) 0
               | OpOther :: _ => ev kW cell_sendch (code EOther) 0 0
               end
    | PMark => ev kCAS off_map_queue_workingFlag 0 1 (b2z (negb (flag s)))
    | PWr => ev kCAS cell_writing 0 1 (b2z (negb (writing s)))
    | PSlow => None
    | PEv => ev kW cell_sock (code EPoll) 0 0
    | PRel => ev kW cell_writing 0 0 0
    | PNotify => None
    end
  end.

Definition cev (s : st) : option event :=
  match cons s with
  | CIdle => match sock s with
             | [] => ev kBusy cell_sock 0 0 0
             | e :: _ => ev kR cell_sock (code e) 0 0
             end
  | CPopH => ev kR off_map_queue_head (head s) 0 0
  | CPopT _ => ev kR off_map_queue_tail (tail s) 0 0
  | CPopInc => ev kFAA off_map_queue_head 1 (head s + 1) 0
  | CStore0 => ev kW off_map_queue_workingFlag 0 0 0
  | CSizeT => ev kR off_map_queue_tail (tail s) 0 0
  | CSizeH _ => ev kR off_map_queue_head (head s) 0 0
  | CStore1 => ev kW off_map_queue_workingFlag 1 0 0
  | CDrH => ev kR off_map_queue_head (head s) 0 0
  | CDrT _ => ev kR off_map_queue_tail (tail s) 0 0
  | CDrInc => ev kFAA off_map_queue_head 1 (head s + 1) 0
  end.

Definition sev_ (s : st) : option event :=
  match sl s with
  | SIdle => match sendch s with
             | [] => ev kBusy cell_sendch 0 0 0
             | e :: _ => ev kR cell_sendch (code e) 0 0
             end
  | SCas _ => ev kCAS cell_writing 0 1 (b2z (negb (writing s)))
  | SWait _ => if notif s then ev kR cell_notif 1 0 0 else ev kBusy cell_notif 0 0 0
  | SWrite e => ev kW cell_sock (code e) 0 0
  | SRel => ev kW cell_writing 0 0 0
  end.

Definition step_ev (s : st) (w : who) : option event :=
  match w with WProd i => pev i s | WCons => cev s | WSend => sev_ s end.

(* trace at the implementation's granularity *)
Fixpoint trace (sched : list who) (s : st) : list (option event) :=
  match sched with
  | [] => []
  | w :: r => step_ev s w :: trace r (istep s w)
  end.
Definition irun (sched : list who) (s : st) : st := fold_left istep sched s.

(* per-step observable summary: (tail - head, flag, polling events in flight, consumer idle) *)
Definition npoll (l : list sev) : nat := length (filter is_poll l).
Definition c_idle (c : cpc) : bool := match c with CIdle => true | _ => false end.
Definition obs (s : st) : Z * bool * nat * bool := (tail s - head s, flag s, npoll (sock s), c_idle (cons s)).
