(* Model of the control-connection event parser of shmipc-go (C13).  NO proofs in this file.

   Mirrors, with their real index arithmetic:
     protocol_event.go      header accessors (Length 0:4, Magic 4:6, Version 6, MsgType 7), checkEventValid
     session.go:519-544     Session.handleEvents  (loop, the three ErrInvalidMsgType exits, consumed += n)
     protocol_manager.go    protocolHandlers table, handlePolling, handleStreamClose, handleFallbackData
                            (payloadLen = int(Length) - headerSize, make([]byte,payloadLen), data[:4], data[4:8]),
                            handleHotRestart (rejects when s.manager == nil; lambda posted to the dispatcher),
                            handleHotRestartAck (rejects when s.listener == nil)
     session.go             getStream / getStreamById / handleStreamMessage, stream.halfClose,
                            stream.fillDataToReadBuffer (as far as it is visible on the control path),
                            onEventData (handleEvents, commitRead(consumed), exit on error),
                            extractShmMetadata (every slice behind a length check)
     protocol_manager.go / protocol_initializer.go   the server-side handshake readers
                            (blockReadEventHeader, V2 / V3 initialisers, handleShareMemoryByFilePath /
                             handleShareMemoryByMemFd with the uint32 arithmetic Length - headerSize)

   Bytes are Z; every decoder reduces a byte modulo 256, so the model is total over all lists of Z.
   A Go panic (makeslice, slice bounds, nil dereference) is the explicit outcome [Panic _]; a read
   through [nth] happens only behind the length test the Go code performs at that point. *)
From Coq Require Import List ZArith Bool.
From Shm Require Import Gen.Consts.
Import ListNotations.
Open Scope Z_scope.

(* ------------------------------------------------------------------------------------------ *)
(* bytes                                                                                       *)
(* ------------------------------------------------------------------------------------------ *)
Definition u8 (b : Z) : Z := b mod 256.
Definition byte_at (l : list Z) (i : nat) : Z := u8 (nth i l 0).
Definition be16 (l : list Z) (off : nat) : Z := byte_at l off * 256 + byte_at l (off + 1).
Definition be32 (l : list Z) (off : nat) : Z :=
  ((byte_at l off * 256 + byte_at l (off + 1)) * 256 + byte_at l (off + 2)) * 256 + byte_at l (off + 3).
Definition be64 (l : list Z) (off : nat) : Z := be32 l off * 4294967296 + be32 l (off + 4).
Definition zlen {A} (l : list A) : Z := Z.of_nat (length l).
Definition w32 (x : Z) : Z := x mod 4294967296.

(* literals of the Go source that are not named constants (local consts / slice indices) *)
Definition streamCloseIdLen : Z := 4.        (* handleStreamClose: const idLen = 4 *)
Definition fallbackDataHeader : Z := 8.      (* handleFallbackData: const fallbackDataHeader = 8 *)

(* ------------------------------------------------------------------------------------------ *)
(* header                                                                                      *)
(* ------------------------------------------------------------------------------------------ *)
Definition hdr_length (h : list Z) : Z := be32 h 0.
Definition hdr_magic (h : list Z) : Z := be16 h 4.
Definition hdr_version (h : list Z) : Z := byte_at h 6.
Definition hdr_type (h : list Z) : Z := byte_at h 7.

Inductive hcheck := HdrOk | HdrBadVersion | HdrBadType.

(* checkEventValid; precondition (established by every caller): 8 bytes are present *)
Definition check_header (h : list Z) : hcheck :=
  if negb (hdr_magic h =? c_magicNumber) || (hdr_version h =? 0) then HdrBadVersion
  else if (hdr_type h <? c_minEventType) || (hdr_type h >? c_maxEventType) then HdrBadType
  else HdrOk.

(* protocolHandlers: which indices hold a handler (regenerated from the Go table) *)
Definition handler_table : list Z :=
  [c_handlerPresent_0; c_handlerPresent_1; c_handlerPresent_2; c_handlerPresent_3; c_handlerPresent_4;
   c_handlerPresent_5; c_handlerPresent_6; c_handlerPresent_7; c_handlerPresent_8; c_handlerPresent_9].
Definition handler_present (t : Z) : bool := nth (Z.to_nat t) handler_table 0 =? 1.

(* ------------------------------------------------------------------------------------------ *)
(* the abstraction of a Session that the control path reads and writes                        *)
(* ------------------------------------------------------------------------------------------ *)
Record qelem := { qe_id : Z; qe_status : Z; qe_data : list Z }.   (* one element of the receive queue *)

Record sess := {
  s_client : bool;               (* isClient *)
  s_has_listener : bool;         (* s.listener != nil *)
  s_has_manager : bool;          (* s.manager != nil *)
  s_epoch : Z;                   (* s.listener.epoch *)
  s_lstate : Z;                  (* s.listener.state *)
  s_state : Z;                   (* s.state (defaultState / hotRestartState / hotRestartDoneState) *)
  s_streams : list (Z * Z);      (* s.streams: id -> stream state *)
  s_queue : list qelem }.        (* content of queueManager.recvQueue *)

Definition with_streams (s : sess) (l : list (Z * Z)) : sess :=
  {| s_client := s_client s; s_has_listener := s_has_listener s; s_has_manager := s_has_manager s;
     s_epoch := s_epoch s; s_lstate := s_lstate s; s_state := s_state s; s_streams := l; s_queue := s_queue s |}.
Definition with_queue (s : sess) (q : list qelem) : sess :=
  {| s_client := s_client s; s_has_listener := s_has_listener s; s_has_manager := s_has_manager s;
     s_epoch := s_epoch s; s_lstate := s_lstate s; s_state := s_state s; s_streams := s_streams s; s_queue := q |}.
Definition with_state (s : sess) (st : Z) : sess :=
  {| s_client := s_client s; s_has_listener := s_has_listener s; s_has_manager := s_has_manager s;
     s_epoch := s_epoch s; s_lstate := s_lstate s; s_state := st; s_streams := s_streams s; s_queue := s_queue s |}.

Inductive action :=
| APoll                                   (* stats.recvPollingEventCount++ *)
| ANewStream (id : Z)                     (* server side getStream created + announced a stream *)
| AData (id : Z) (fallback : bool) (data : list Z)   (* bytes appended to the stream's pending data *)
| ADropped (id : Z)                       (* data for a stream in state closed: discarded *)
| AHalfClose (id : Z)                     (* state opened -> half closed, OnRemoteClose *)
| ARecycle (id : Z)                       (* queue element for an unknown stream: buffers recycled *)
| AFallback (id status len : Z)           (* stats.fallbackReadCount++ (circuit breaker opened) *)
| APostHotRestart (epoch : Z)             (* lambda posted to the dispatcher *)
| AHotRestartAck (epoch : Z) (matched : bool).   (* matched: listener.hotRestartAckCount--, s.state := hotRestartDone *)

Inductive panic_kind :=
| PMakeslice          (* make([]byte, negative) *)
| PSliceBounds        (* slice bounds out of range *)
| PNilListener        (* s.listener.mu.Lock() with s.listener == nil *)
| PNilManager.        (* s.manager.handleEvent -> sm.Lock() with sm == nil (and again in the deferred logger) *)

Inductive err := EInvalidMsgType.

Inductive outcome := Ok | Err (e : err) | Panic (p : panic_kind) | OutOfFuel.

Fixpoint find_stream (id : Z) (l : list (Z * Z)) : option Z :=
  match l with
  | [] => None
  | (i, st) :: r => if i =? id then Some st else find_stream id r
  end.
Fixpoint set_stream (id st : Z) (l : list (Z * Z)) : list (Z * Z) :=
  match l with
  | [] => []
  | (i, x) :: r => if i =? id then (i, st) :: r else (i, x) :: set_stream id st r
  end.

(* Session.getStream(id, state): existing stream, or (server side, state = opened) a new one *)
Definition get_stream (s : sess) (id state : Z) : sess * bool * list action :=
  match find_stream id (s_streams s) with
  | Some _ => (s, true, [])
  | None => if negb (s_client s) && (state =? c_streamOpened)
            then (with_streams s (s_streams s ++ [(id, c_streamOpened)]), true, [ANewStream id])
            else (s, false, [])
  end.

(* stream.halfClose: CAS opened -> halfClosed *)
Definition half_close (s : sess) (id : Z) : sess * list action :=
  match find_stream id (s_streams s) with
  | Some st => if st =? c_streamOpened then (with_streams s (set_stream id c_streamHalfClosed (s_streams s)), [AHalfClose id])
               else (s, [])
  | None => (s, [])
  end.

(* Session.handleStreamMessage on an existing stream *)
Definition stream_message (s : sess) (id state : Z) (fallback : bool) (data : list Z) : sess * list action :=
  if state =? c_streamClosed then half_close s id
  else match find_stream id (s_streams s) with
       | Some st => if st =? c_streamClosed then (s, [ADropped id]) else (s, [AData id fallback data])
       | None => (s, [])
       end.

(* result of one protocolHandler call: (consumed, stop, err) or a panic *)
Inductive hres :=
| HStop                                                  (* (0, true, nil): wait for more bytes *)
| HDone (n : Z) (s' : sess) (acts : list action) (e : option err)
| HPanic (p : panic_kind).

(* consumeRecvQueue: hands every element that is in the receive queue to its stream (used by handlePolling and,
   before they deliver their own item, by handleFallbackData and handleStreamClose) *)
Fixpoint drain (q : list qelem) (s : sess) : sess * list action :=
  match q with
  | [] => (s, [])
  | e :: r =>
    let state := (qe_status e) mod 256 in
    let '(s1, found, a1) := get_stream s (qe_id e) state in
    let '(s2, a2) :=
      if found then stream_message s1 (qe_id e) state false (qe_data e)
      else if state =? c_streamOpened then (s1, [ARecycle (qe_id e)]) else (s1, []) in
    let '(s3, a3) := drain r s2 in
    (s3, a1 ++ a2 ++ a3)
  end.
(* handlePolling: drains the receive queue; consumes headerSize whatever Length says *)
Definition handle_polling (s : sess) (h buf : list Z) : hres :=
  let '(s', acts) := drain (s_queue s) (with_queue s []) in
  HDone c_headerSize s' (APoll :: acts) None.

Definition handle_stream_close (s : sess) (h buf : list Z) : hres :=
  if zlen buf <? streamCloseIdLen then HStop
  else let id := be32 buf 0 in
       (* the data the peer queued before it wrote this event comes first *)
       let '(s0, a0) := drain (s_queue s) (with_queue s []) in
       let '(s', acts) := half_close s0 id in
       HDone (c_headerSize + streamCloseIdLen) s' (a0 ++ acts) None.

(* handleFallbackData.  eventLen = int(h.Length()) (non-negative on 64 bit); payloadLen = eventLen - headerSize
   may be negative.  An event too short for seqID and status is rejected first (returns headerSize,
   ErrInvalidMsgType).  data = make([]byte, payloadLen) has cap = len = payloadLen; the slicing below keeps its
   panic conditions in the model, EventProofs shows they are unreachable behind the length check. *)
Definition handle_fallback (s : sess) (h buf : list Z) : hres :=
  let eventLen := hdr_length h in
  let payloadLen := eventLen - c_headerSize in
  if payloadLen <? fallbackDataHeader then HDone c_headerSize s [] (Some EInvalidMsgType)
  else if zlen buf <? payloadLen then HStop
  else if payloadLen <? 0 then HPanic PMakeslice                       (* make([]byte, payloadLen) *)
  else
    let data := firstn (Z.to_nat payloadLen) buf in
    if payloadLen <? 4 then HPanic PSliceBounds                        (* data[:4] *)
    else if payloadLen <? 8 then HPanic PSliceBounds                   (* data[4:8] *)
    else
      let seqID := be32 data 0 in
      let status := (be32 data 4) mod 256 in
      let body := skipn (Z.to_nat fallbackDataHeader) data in
      let a0 := [AFallback seqID status (zlen body)] in
      (* consumeRecvQueue before the socket item is handed to its stream *)
      let '(sq, aq) := drain (s_queue s) (with_queue s []) in
      let '(s1, found, a1) := get_stream sq seqID status in
      if found then
        let '(s2, a2) := stream_message s1 seqID status true body in
        HDone eventLen s2 (a0 ++ aq ++ a1 ++ a2) None
      else HDone eventLen s1 (a0 ++ aq ++ a1) None.

(* handleHotRestart: a session without manager rejects the event; otherwise the lambda is only posted here, it runs
   after handleEvents returned (run_posted) *)
Definition handle_hot_restart (s : sess) (h buf : list Z) : hres :=
  if negb (s_has_manager s) then HDone c_headerSize s [] (Some EInvalidMsgType)
  else if zlen buf <? c_epochIDLen then HStop
  else HDone (c_headerSize + c_epochIDLen) s [APostHotRestart (be64 buf 0)] None.

(* handleHotRestartAck: a session without listener rejects the event (before the fix: s.listener.mu.Lock() on nil) *)
Definition handle_hot_restart_ack (s : sess) (h buf : list Z) : hres :=
  if negb (s_has_listener s) then HDone c_headerSize s [] (Some EInvalidMsgType)
  else if zlen buf <? c_epochIDLen then HStop
  else let epoch := be64 buf 0 in
       if negb (s_has_listener s) then HPanic PNilListener              (* s.listener.mu.Lock() *)
       else
         (* only an ack that answers the hot restart in progress, on a session still waiting for it, counts *)
         let matched := (s_lstate s =? c_hotRestartState) && (epoch =? s_epoch s) && (s_state s =? c_hotRestartState) in
         HDone (c_headerSize + c_epochIDLen) (if matched then with_state s c_hotRestartDoneState else s)
               [AHotRestartAck epoch matched] None.

(* protocolHandlers[msgType] *)
Definition run_handler (t : Z) (s : sess) (h buf : list Z) : hres :=
  if t =? c_typePolling then handle_polling s h buf
  else if t =? c_typeStreamClose then handle_stream_close s h buf
  else if t =? c_typeFallbackData then handle_fallback s h buf
  else if t =? c_typeHotRestart then handle_hot_restart s h buf
  else if t =? c_typeHotRestartAck then handle_hot_restart_ack s h buf
  else HDone 0 s [] (Some EInvalidMsgType).   (* unreachable while handler_table agrees with the Go table *)

(* ------------------------------------------------------------------------------------------ *)
(* one iteration of the loop of Session.handleEvents on buf[consumed:]                         *)
(* ------------------------------------------------------------------------------------------ *)
Inductive sres :=
| SNeedMore                                                   (* loop ends, nothing consumed *)
| SNext (n : Z) (s' : sess) (acts : list action)              (* event handled, loop continues *)
| SErr (n : Z) (s' : sess) (acts : list action) (e : err)     (* return consumed + n, e *)
| SPanic (p : panic_kind).

Definition step1 (s : sess) (rest : list Z) : sres :=
  if zlen rest <? c_headerSize then SNeedMore
  else
    let h := firstn (Z.to_nat c_headerSize) rest in
    match check_header h with
    | HdrBadVersion | HdrBadType => SErr c_headerSize s [] EInvalidMsgType
    | HdrOk =>
      let t := hdr_type h in
      if (t >=? c_protocolHandlersLen) || (t <? 0) then SErr c_headerSize s [] EInvalidMsgType
      else if negb (handler_present t) then SErr c_headerSize s [] EInvalidMsgType
      else match run_handler t s h (skipn (Z.to_nat c_headerSize) rest) with
           | HStop => SNeedMore
           | HPanic p => SPanic p
           | HDone n s' acts None => SNext n s' acts
           | HDone n s' acts (Some e) => SErr n s' acts e
           end
    end.

Record result := { r_sess : sess; r_consumed : Z; r_outcome : outcome; r_actions : list action }.

Definition shift (n : Z) (acts : list action) (r : result) : result :=
  {| r_sess := r_sess r; r_consumed := n + r_consumed r; r_outcome := r_outcome r;
     r_actions := acts ++ r_actions r |}.

Fixpoint loop (fuel : nat) (s : sess) (rest : list Z) : result :=
  match fuel with
  | O => {| r_sess := s; r_consumed := 0; r_outcome := OutOfFuel; r_actions := [] |}
  | S f =>
    match step1 s rest with
    | SNeedMore => {| r_sess := s; r_consumed := 0; r_outcome := Ok; r_actions := [] |}
    | SPanic p => {| r_sess := s; r_consumed := 0; r_outcome := Panic p; r_actions := [] |}
    | SErr n s' acts e => {| r_sess := s'; r_consumed := n; r_outcome := Err e; r_actions := acts |}
    | SNext n s' acts => shift n acts (loop f s' (skipn (Z.to_nat n) rest))
    end
  end.

(* Session.handleEvents(buf): every handled event consumes at least one byte, so |buf| + 1 iterations
   always suffice (EventProofs.loop_fuel_enough; OutOfFuel is excluded by EventProofs.no_out_of_fuel) *)
Definition handle_events (s : sess) (buf : list Z) : result := loop (S (length buf)) s buf.

(* the lambdas posted by handleHotRestart run on the dispatcher goroutine after the read callback
   returned: s.manager.handleEvent(...) *)
Definition posted_panics (s : sess) (a : action) : bool :=
  match a with APostHotRestart _ => negb (s_has_manager s) | _ => false end.
Definition run_posted (s : sess) (acts : list action) : outcome :=
  if existsb (posted_panics s) acts then Panic PNilManager else Ok.

(* one read callback: onEventData = handleEvents; commitRead(consumed); then the posted lambdas *)
Definition deliver_outcome (s : sess) (buf : list Z) : outcome :=
  let r := handle_events s buf in
  match r_outcome r with
  | Panic p => Panic p
  | o => match run_posted s (r_actions r) with Panic p => Panic p | _ => o end
  end.

(* ------------------------------------------------------------------------------------------ *)
(* delivery of a byte stream in pieces: the callback sees the unconsumed bytes followed by the *)
(* new ones (this is what Model/EventConn.v's read side provides, theorem C18_read) and the    *)
(* session stops looking at the connection after the first error (exitErr, IsClosed)           *)
(* ------------------------------------------------------------------------------------------ *)
Record fed := { f_sess : sess; f_pending : list Z; f_outcome : outcome; f_actions : list action }.

Fixpoint feed (s : sess) (pending : list Z) (chunks : list (list Z)) : fed :=
  match chunks with
  | [] => {| f_sess := s; f_pending := pending; f_outcome := Ok; f_actions := [] |}
  | c :: cs =>
    let buf := pending ++ c in
    let r := handle_events s buf in
    match r_outcome r with
    | Ok => let f := feed (r_sess r) (skipn (Z.to_nat (r_consumed r)) buf) cs in
            {| f_sess := f_sess f; f_pending := f_pending f; f_outcome := f_outcome f;
               f_actions := r_actions r ++ f_actions f |}
    | o => {| f_sess := r_sess r; f_pending := skipn (Z.to_nat (r_consumed r)) buf; f_outcome := o;
              f_actions := r_actions r |}
    end
  end.

(* ------------------------------------------------------------------------------------------ *)
(* handshake readers (server side)                                                             *)
(* ------------------------------------------------------------------------------------------ *)
(* Session.extractShmMetadata(body): body has cap = len (it comes from make([]byte, n)) *)
(* every length taken from the peer is checked against len(body) first (error return); the slice expressions keep
   their panic conditions in the model, EventProofs shows they are unreachable behind the checks *)
Inductive meta := MetaPanic | MetaErr | MetaOk (queuePath bufferPath : list Z).
Definition extract_shm_metadata (body : list Z) : meta :=
  if zlen body <? 0 + 2 then MetaErr
  else if zlen body <? 2 then MetaPanic                                  (* body[0:2] *)
  else let qlen := be16 body 0 in
       if zlen body <? 2 + qlen + 2 then MetaErr
       else if zlen body <? 2 + qlen then MetaPanic                      (* body[2 : 2+qlen] *)
       else if zlen body <? 2 + qlen + 2 then MetaPanic                  (* body[off : off+2] *)
       else let blen := be16 body (Z.to_nat (2 + qlen)) in
            if zlen body <? 2 + qlen + 2 + blen then MetaErr
            else if zlen body <? 2 + qlen + 2 + blen then MetaPanic      (* body[off : off+blen] *)
            else MetaOk (firstn (Z.to_nat qlen) (skipn 2 body))
                        (firstn (Z.to_nat blen) (skipn (Z.to_nat (2 + qlen + 2)) body)).

Inductive hs_outcome :=
| HsPanic                          (* extractShmMetadata slices out of range: the handshake goroutine dies (unreachable) *)
| HsErr                            (* the handshake returns an error: only this session fails *)
| HsEof                            (* the reader waits for bytes the peer never sent *)
| HsMapFile (q b : list Z)         (* metadata accepted, proceeds to map the two files *)
| HsMemfd (q b : list Z).          (* metadata accepted, AckReadyRecvFD sent, proceeds to receive the fds *)

Record hs_result := {
  hs_out : hs_outcome;
  hs_replies : list (Z * Z * Z);          (* (Length, version, type) of the headers written back *)
  hs_body : option (list Z) }.            (* the slice handed to extractShmMetadata, if the handshake got that far *)

(* blockReadEventHeader *)
Definition read_header (input : list Z) : option (list Z) * list Z :=
  if zlen input <? c_headerSize then (None, input)
  else (Some (firstn (Z.to_nat c_headerSize) input), skipn (Z.to_nat c_headerSize) input).

(* a Length below headerSize is rejected; then body := make([]byte, hdr.Length()-headerSize) -- uint32 arithmetic,
   which no longer wraps -- ; blockReadFull *)
Inductive body_read := BodyBadLength | BodyEof | BodyOk (body : list Z).
Definition read_body (h input : list Z) : body_read :=
  if hdr_length h <? c_headerSize then BodyBadLength
  else
    let n := w32 (hdr_length h - c_headerSize) in
    if zlen input <? n then BodyEof else BodyOk (firstn (Z.to_nat n) input).

(* extractShmMetadata accepts exactly these bodies *)
Definition meta_wf (body : list Z) : bool :=
  (2 <=? zlen body) && (2 + be16 body 0 + 2 <=? zlen body)
  && (2 + be16 body 0 + 2 + be16 body (Z.to_nat (2 + be16 body 0)) <=? zlen body).

Definition hs_share_by_path (h input : list Z) (replies : list (Z * Z * Z)) : hs_result :=
  match read_body h input with
  | BodyBadLength => {| hs_out := HsErr; hs_replies := replies; hs_body := None |}
  | BodyEof => {| hs_out := HsEof; hs_replies := replies; hs_body := None |}
  | BodyOk body =>
    match extract_shm_metadata body with
    | MetaPanic => {| hs_out := HsPanic; hs_replies := replies; hs_body := Some body |}
    | MetaErr => {| hs_out := HsErr; hs_replies := replies; hs_body := Some body |}
    | MetaOk q b => {| hs_out := HsMapFile q b; hs_replies := replies; hs_body := Some body |}
    end
  end.
Definition hs_share_by_memfd (ver : Z) (h input : list Z) (replies : list (Z * Z * Z)) : hs_result :=
  match read_body h input with
  | BodyBadLength => {| hs_out := HsErr; hs_replies := replies; hs_body := None |}
  | BodyEof => {| hs_out := HsEof; hs_replies := replies; hs_body := None |}
  | BodyOk body =>
    match extract_shm_metadata body with
    | MetaPanic => {| hs_out := HsPanic; hs_replies := replies; hs_body := Some body |}
    | MetaErr => {| hs_out := HsErr; hs_replies := replies; hs_body := Some body |}
    | MetaOk q b => {| hs_out := HsMemfd q b; hs_replies := replies ++ [(c_headerSize, ver, c_typeAckReadyRecvFD)];
                       hs_body := Some body |}
    end
  end.

Definition hs_stop (o : hs_outcome) (replies : list (Z * Z * Z)) : hs_result :=
  {| hs_out := o; hs_replies := replies; hs_body := None |}.

(* serverGetProtocolInitializer + protocolInitializerV2/V3.Init on the server side *)
Definition server_handshake (input : list Z) : hs_result :=
  match read_header input with
  | (None, _) => hs_stop HsEof []
  | (Some h, rest) =>
    match check_header h with
    | HdrBadVersion | HdrBadType => hs_stop HsErr []
    | HdrOk =>
      let v := hdr_version h in
      if v =? c_initializerVersion_2 then
        if negb (hdr_type h =? c_typeShareMemoryByFilePath) then hs_stop HsErr []
        else hs_share_by_path h rest []
      else if v =? c_initializerVersion_3 then
        if negb (hdr_type h =? c_typeExchangeProtoVersion) then hs_stop HsErr []
        else
          let ver := Z.min v c_maxSupportProtoVersion in
          let replies := [(c_headerSize, c_maxSupportProtoVersion, c_typeExchangeProtoVersion)] in
          match read_header rest with
          | (None, _) => hs_stop HsEof replies
          | (Some h2, rest2) =>
            match check_header h2 with
            | HdrBadVersion | HdrBadType => hs_stop HsErr replies
            | HdrOk =>
              if hdr_type h2 =? c_typeShareMemoryByFilePath then hs_share_by_path h2 rest2 replies
              else if hdr_type h2 =? c_typeShareMemoryByMemfd then hs_share_by_memfd ver h2 rest2 replies
              else hs_stop HsErr replies
            end
          end
      else hs_stop HsErr []       (* no initializer for this version *)
    end
  end.
