(* Model of the wait/wake-up protocols behind C11 ("no stream or session call blocks forever").
   NO PROOFS in this file.

   Part 1 — Stream.readMore (stream.go 135-185) against everything that must wake it:
     reader      RCall m   enter readMore(m)
                 RStep     next step of the reader:
                             RCheck : pendingData.moveTo(recvBuf); test Len >= m          (136-140)
                             RState : recvLen == 0 && !IsOpen() -> ErrEndOfStream           (142-144)
                             RArm   : read s.readDeadline, time.NewTimer of its own for this wait (a fresh
                                      channel: tch / ptick start empty), enter select
                             RWokeN : (took the token) moveTo; test; back to the select     (167-171)
                             RWokeC : (saw closeNotifyCh) moveTo; test; EndOfStream/StreamClosed (172-180)
                 RWake b   the parked select takes branch b (recvNotifyCh / closeNotifyCh / timer)
     event loop  EAdd n    fillDataToReadBuffer: pendingData.add                           (389)
                 EFin      ... state == closed ? clear : asyncNotify(recvNotifyCh)          (391-397)
     peer close  PClose1 / PClose2     halfClose: CAS opened->halfClosed ; safeCloseNotify   (336-338)
     local close LLoad / LCas / LNotify / LClean   Stream.close: casToClosed (load state; CAS ->closed; a lost
                                       CAS loads again: LRetry); with callbacks installed (SetCb):
                                       safeCloseNotify, asyncGoroutineWg.Wait() (blocks while an OnData
                                       runs), clean(); without: clean(), safeCloseNotify
                                       (notification only if the old state was opened or localHalfClosed)
                 LDefer1 / LDefer2   Stream.Close that finds an OnData callback in progress:
                           CAS opened->localHalfClosed (the close itself is deferred to the callback goroutine),
                           then - if the CAS succeeded - safeCloseNotify
     session     SClose    Session.Close's loop: stream.safeCloseNotify()                   (session.go 307-311)
     deadline    SetDL d   SetReadDeadline, by the reading goroutine between two calls
     clock       Tick d ; Fire (the runtime delivers the timer value once now >= its time, atomically);
                 FireA ; FireB (the same in two steps, as the Go runtime really does it for a channel
                 timer under asynctimerchan=1 (go.mod `go 1.20`): between them Stop() already reports false
                 but the value is not in the channel yet - a Stop + drain on a REUSED timer misses it; the code
                 uses a timer of its own per wait)

   recvNotifyCh (capacity 1) is a boolean token, closeNotifyCh a closed flag, the timer channel a
   boolean (of the timer of the CURRENT call).  Returns after the timer was armed run `defer timer.Stop()`.

   Part 2 — Flush's retry loop (226-248).   Part 3 — AcceptStream / initProtocol.              *)
From Coq Require Import List ZArith Lia Bool Arith.
From Shm Require Import Gen.Consts.
Import ListNotations.
Open Scope Z_scope.

(* ------------------------------------------------------------------------------------------ *)
(* Part 1                                                                                       *)
(* ------------------------------------------------------------------------------------------ *)
Inductive sst := SOpen | SClosed | SHalf | SLocalHalf.
(* streamOpened / streamClosed / streamHalfClosed (by the peer) / streamLocalHalfClosed (a local Close that
   found an OnData callback running; the callback goroutine completes it) - Gen/Consts.v c_stream* *)
Inductive rpc := RIdle | RCheck | RState | RArm | RParked | RWokeN | RWokeC | RDone.
Inductive lpc := LIdle | LRetry | LLoaded (old : sst) | LCased (old : sst) | LNotified (old : sst) | LCleaned (old : sst).
Inductive result := ROk (len : nat) | RErrTimeout | RErrEOS | RErrClosed.
Inductive branch := BNotify | BClose | BTimer.

Record st := {
  pend : nat;          (* bytes in pendingData *)
  rbuf : nat;          (* recvBuf.Len() *)
  token : bool;        (* recvNotifyCh holds a value *)
  closeN : bool;       (* closeNotifyCh is closed *)
  ss : sst;            (* stream state *)
  epc : bool;          (* event loop is between pendingData.add and the state check / asyncNotify *)
  ppc : bool;          (* halfClose is between its CAS and safeCloseNotify *)
  lc : lpc;            (* Stream.close in progress *)
  sclosing : bool;     (* Session.Close has notified this stream *)
  dpc : bool;          (* a Stream.Close that found a callback in progress is between its CAS and safeCloseNotify *)
  cbmode : bool;       (* StreamCallbacks are installed: the reader of this model is an OnData of the callback goroutine *)
  now : Z;
  dl : option Z;       (* s.readDeadline (None = zero time) *)
  tmr : option Z;      (* the timer is armed and fires at this time *)
  tch : bool;          (* the timer channel holds a value *)
  ptick : bool;        (* the timer has expired but the runtime has not put its value into the channel yet (FireA..FireB) *)
  use_t : bool;        (* timeoutCh is non-nil in the current call *)
  armed : Z;           (* ghost: the deadline the current call armed *)
  rd : rpc; minsz : nat; res : option result }.

Inductive ev :=
| RCall (m : nat) | RStep | RWake (b : branch)
| EAdd (n : nat) | EFin
| PClose1 | PClose2
| LLoad | LCas | LClean | LNotify
| SetCb
| LDefer1 | LDefer2
| SClose
| SetDL (d : option Z)
| Tick (d : Z) | Fire
| FireA | FireB.   (* the same expiry in two steps: the timer expires (Stop() now reports false) / its value reaches the channel *)

Definition init : st :=
  {| pend := 0; rbuf := 0; token := false; closeN := false; ss := SOpen; epc := false; ppc := false; lc := LIdle;
     sclosing := false; dpc := false; cbmode := false; now := 0; dl := None; tmr := None; tch := false; ptick := false; use_t := false; armed := 0;
     rd := RIdle; minsz := 0; res := None |}.

Definition sst_code (x : sst) : Z :=
  match x with SOpen => c_streamOpened | SClosed => c_streamClosed | SHalf => c_streamHalfClosed | SLocalHalf => c_streamLocalHalfClosed end.

Definition sst_eqb (a b : sst) : bool :=
  match a, b with SOpen, SOpen | SClosed, SClosed | SHalf, SHalf | SLocalHalf, SLocalHalf => true | _, _ => false end.

(* return before the timer section: no deferred cleanup *)
Definition finish_early (s : st) (r : result) : st :=
  {| pend := pend s; rbuf := rbuf s; token := token s; closeN := closeN s; ss := ss s; epc := epc s; ppc := ppc s;
     lc := lc s; sclosing := sclosing s; dpc := dpc s; cbmode := cbmode s; now := now s; dl := dl s; tmr := tmr s; tch := tch s; ptick := ptick s; use_t := use_t s;
     armed := armed s; rd := RDone; minsz := minsz s; res := Some r |}.
(* return from the select loop: `defer timer.Stop()` (the timer - and its channel - belong to this call only;
   a value still on its way lands in a channel nobody reads again) *)
Definition finish_late (s : st) (r : result) : st :=
  {| pend := pend s; rbuf := rbuf s; token := token s; closeN := closeN s; ss := ss s; epc := epc s; ppc := ppc s;
     lc := lc s; sclosing := sclosing s; dpc := dpc s; cbmode := cbmode s; now := now s; dl := dl s; tmr := None; tch := tch s; ptick := ptick s; use_t := use_t s;
     armed := armed s; rd := RDone; minsz := minsz s; res := Some r |}.

Definition move_to (s : st) : st :=
  {| pend := 0; rbuf := (rbuf s + pend s)%nat; token := token s; closeN := closeN s; ss := ss s; epc := epc s;
     ppc := ppc s; lc := lc s; sclosing := sclosing s; dpc := dpc s; cbmode := cbmode s; now := now s; dl := dl s; tmr := tmr s; tch := tch s; ptick := ptick s;
     use_t := use_t s; armed := armed s; rd := rd s; minsz := minsz s; res := res s |}.

Definition set_rd (s : st) (p : rpc) : st :=
  {| pend := pend s; rbuf := rbuf s; token := token s; closeN := closeN s; ss := ss s; epc := epc s; ppc := ppc s;
     lc := lc s; sclosing := sclosing s; dpc := dpc s; cbmode := cbmode s; now := now s; dl := dl s; tmr := tmr s; tch := tch s; ptick := ptick s; use_t := use_t s;
     armed := armed s; rd := p; minsz := minsz s; res := res s |}.

Definition reader_step (s : st) : st :=
  match rd s with
  | RCheck =>
    let s1 := move_to s in
    if (minsz s <=? rbuf s1)%nat then finish_early s1 (ROk (rbuf s1))
    else if (rbuf s1 =? 0)%nat then set_rd s1 RState else set_rd s1 RArm
  | RState =>
    if sst_eqb (ss s) SOpen then set_rd s RArm else finish_early s RErrEOS
  | RArm =>
    match dl s with
    | Some d =>
      {| pend := pend s; rbuf := rbuf s; token := token s; closeN := closeN s; ss := ss s; epc := epc s; ppc := ppc s;
         lc := lc s; sclosing := sclosing s; dpc := dpc s; cbmode := cbmode s; now := now s; dl := dl s; tmr := Some d; tch := false; ptick := false; use_t := true;
         armed := d; rd := RParked; minsz := minsz s; res := res s |}
    | None =>
      {| pend := pend s; rbuf := rbuf s; token := token s; closeN := closeN s; ss := ss s; epc := epc s; ppc := ppc s;
         lc := lc s; sclosing := sclosing s; dpc := dpc s; cbmode := cbmode s; now := now s; dl := dl s; tmr := tmr s; tch := tch s; ptick := ptick s; use_t := false;
         armed := armed s; rd := RParked; minsz := minsz s; res := res s |}
    end
  | RWokeN =>
    let s1 := move_to s in
    if (minsz s <=? rbuf s1)%nat then finish_late s1 (ROk (rbuf s1)) else set_rd s1 RParked
  | RWokeC =>
    let s1 := move_to s in
    if (minsz s <=? rbuf s1)%nat then finish_late s1 (ROk (rbuf s1))
    else if sst_eqb (ss s) SHalf then finish_late s1 RErrEOS else finish_late s1 RErrClosed
  | RIdle | RParked | RDone => s
  end.

(* `<-timeoutCh`: the value is received *)
Definition take_tick (s : st) : st :=
  {| pend := pend s; rbuf := rbuf s; token := token s; closeN := closeN s; ss := ss s; epc := epc s; ppc := ppc s;
     lc := lc s; sclosing := sclosing s; dpc := dpc s; cbmode := cbmode s; now := now s; dl := dl s; tmr := tmr s; tch := false; ptick := ptick s; use_t := use_t s;
     armed := armed s; rd := rd s; minsz := minsz s; res := res s |}.

Definition wake (s : st) (b : branch) : st :=
  match rd s with
  | RParked =>
    match b with
    | BNotify =>
      if token s then
        {| pend := pend s; rbuf := rbuf s; token := false; closeN := closeN s; ss := ss s; epc := epc s; ppc := ppc s;
           lc := lc s; sclosing := sclosing s; dpc := dpc s; cbmode := cbmode s; now := now s; dl := dl s; tmr := tmr s; tch := tch s; ptick := ptick s; use_t := use_t s;
           armed := armed s; rd := RWokeN; minsz := minsz s; res := res s |}
      else s
    | BClose => if closeN s then set_rd s RWokeC else s
    | BTimer => if use_t s && tch s then finish_late (take_tick s) RErrTimeout else s
    end
  | _ => s
  end.

(* the callback goroutine is inside OnData (asyncGoroutineWg.Wait() of close() blocks) *)
Definition cb_busy (s : st) : bool :=
  cbmode s && match rd s with RIdle | RDone => false | _ => true end.

(* nf ("notify first") = the order of Stream.close after winning casToClosed:
     true  (the code): with callbacks installed  safeCloseNotify ; asyncGoroutineWg.Wait() ; clean()  (the callback
           goroutine is the only user of recvBuf and has exited when clean() runs); without callbacks
           clean() ; safeCloseNotify  (a reader woken earlier would touch recvBuf while clean() recycles it)
     false (the order before the repair, kept for the regression example): Wait() ; clean() ; safeCloseNotify *)
Definition step_gen (nf : bool) (s : st) (e : ev) : st :=
  match e with
  | RCall m =>
    match rd s with
    | RIdle | RDone =>
      {| pend := pend s; rbuf := rbuf s; token := token s; closeN := closeN s; ss := ss s; epc := epc s; ppc := ppc s;
         lc := lc s; sclosing := sclosing s; dpc := dpc s; cbmode := cbmode s; now := now s; dl := dl s; tmr := tmr s; tch := tch s; ptick := ptick s; use_t := false;
         armed := armed s; rd := RCheck; minsz := m; res := None |}
    | _ => s
    end
  | RStep => reader_step s
  | RWake b => wake s b
  | EAdd n =>
    if epc s || (n =? 0)%nat then s else
      {| pend := (pend s + n)%nat; rbuf := rbuf s; token := token s; closeN := closeN s; ss := ss s; epc := true;
         ppc := ppc s; lc := lc s; sclosing := sclosing s; dpc := dpc s; cbmode := cbmode s; now := now s; dl := dl s; tmr := tmr s; tch := tch s; ptick := ptick s;
         use_t := use_t s; armed := armed s; rd := rd s; minsz := minsz s; res := res s |}
  | EFin =>
    if epc s then
      if sst_eqb (ss s) SClosed then
        {| pend := 0; rbuf := 0; token := token s; closeN := closeN s; ss := ss s; epc := false;
           ppc := ppc s; lc := lc s; sclosing := sclosing s; dpc := dpc s; cbmode := cbmode s; now := now s; dl := dl s; tmr := tmr s; tch := tch s; ptick := ptick s;
           use_t := use_t s; armed := armed s; rd := rd s; minsz := minsz s; res := res s |}
      else
        {| pend := pend s; rbuf := rbuf s; token := true; closeN := closeN s; ss := ss s; epc := false;
           ppc := ppc s; lc := lc s; sclosing := sclosing s; dpc := dpc s; cbmode := cbmode s; now := now s; dl := dl s; tmr := tmr s; tch := tch s; ptick := ptick s;
           use_t := use_t s; armed := armed s; rd := rd s; minsz := minsz s; res := res s |}
    else s
  | PClose1 =>
    if ppc s then s else
      if sst_eqb (ss s) SOpen then
        {| pend := pend s; rbuf := rbuf s; token := token s; closeN := closeN s; ss := SHalf; epc := epc s;
           ppc := true; lc := lc s; sclosing := sclosing s; dpc := dpc s; cbmode := cbmode s; now := now s; dl := dl s; tmr := tmr s; tch := tch s; ptick := ptick s;
           use_t := use_t s; armed := armed s; rd := rd s; minsz := minsz s; res := res s |}
      else s
  | PClose2 =>
    if ppc s then
      {| pend := pend s; rbuf := rbuf s; token := token s; closeN := true; ss := ss s; epc := epc s;
         ppc := false; lc := lc s; sclosing := sclosing s; dpc := dpc s; cbmode := cbmode s; now := now s; dl := dl s; tmr := tmr s; tch := tch s; ptick := ptick s;
         use_t := use_t s; armed := armed s; rd := rd s; minsz := minsz s; res := res s |}
    else s
  | LLoad =>
    match lc s with
    | LIdle | LRetry =>
      if sst_eqb (ss s) SClosed then
        (* casToClosed: already closed: return (not won) *)
        {| pend := pend s; rbuf := rbuf s; token := token s; closeN := closeN s; ss := ss s; epc := epc s;
           ppc := ppc s; lc := LIdle; sclosing := sclosing s; dpc := dpc s; cbmode := cbmode s; now := now s; dl := dl s; tmr := tmr s;
           tch := tch s; ptick := ptick s; use_t := use_t s; armed := armed s; rd := rd s; minsz := minsz s; res := res s |}
      else
        {| pend := pend s; rbuf := rbuf s; token := token s; closeN := closeN s; ss := ss s; epc := epc s;
           ppc := ppc s; lc := LLoaded (ss s); sclosing := sclosing s; dpc := dpc s; cbmode := cbmode s; now := now s; dl := dl s; tmr := tmr s;
           tch := tch s; ptick := ptick s; use_t := use_t s; armed := armed s; rd := rd s; minsz := minsz s; res := res s |}
    | _ => s
    end
  | LCas =>
    match lc s with
    | LLoaded old =>
      if sst_eqb (ss s) old then
        {| pend := pend s; rbuf := rbuf s; token := token s; closeN := closeN s; ss := SClosed; epc := epc s;
           ppc := ppc s; lc := LCased old; sclosing := sclosing s; dpc := dpc s; cbmode := cbmode s; now := now s; dl := dl s; tmr := tmr s;
           tch := tch s; ptick := ptick s; use_t := use_t s; armed := armed s; rd := rd s; minsz := minsz s; res := res s |}
      else
        {| pend := pend s; rbuf := rbuf s; token := token s; closeN := closeN s; ss := ss s; epc := epc s;
           ppc := ppc s; lc := LRetry; sclosing := sclosing s; dpc := dpc s; cbmode := cbmode s; now := now s; dl := dl s; tmr := tmr s;
           tch := tch s; ptick := ptick s; use_t := use_t s; armed := armed s; rd := rd s; minsz := minsz s; res := res s |}
    | _ => s
    end
  | LClean =>
    (* `if callbacks != nil { asyncGoroutineWg.Wait() }; clean()`: blocked while an OnData is running *)
    match lc s with
    | LCased old =>
      if nf && cbmode s then s          (* with callbacks the notification comes first *)
      else if cb_busy s then s else
      {| pend := 0; rbuf := 0; token := token s; closeN := closeN s; ss := ss s; epc := epc s;
         ppc := ppc s; lc := LCleaned old; sclosing := sclosing s; dpc := dpc s; cbmode := cbmode s; now := now s; dl := dl s; tmr := tmr s;
         tch := tch s; ptick := ptick s; use_t := use_t s; armed := armed s; rd := rd s; minsz := minsz s; res := res s |}
    | LNotified old =>
      if cb_busy s then s else
      {| pend := 0; rbuf := 0; token := token s; closeN := closeN s; ss := ss s; epc := epc s;
         ppc := ppc s; lc := LIdle; sclosing := sclosing s; dpc := dpc s; cbmode := cbmode s; now := now s; dl := dl s; tmr := tmr s;
         tch := tch s; ptick := ptick s; use_t := use_t s; armed := armed s; rd := rd s; minsz := minsz s; res := res s |}
    | _ => s
    end
  | LNotify =>
    match lc s with
    | LCased old =>
      if nf && cbmode s then
      {| pend := pend s; rbuf := rbuf s; token := token s; closeN := closeN s || sst_eqb old SOpen || sst_eqb old SLocalHalf; ss := ss s; epc := epc s;
         ppc := ppc s; lc := LNotified old; sclosing := sclosing s; dpc := dpc s; cbmode := cbmode s; now := now s; dl := dl s; tmr := tmr s;
         tch := tch s; ptick := ptick s; use_t := use_t s; armed := armed s; rd := rd s; minsz := minsz s; res := res s |}
      else s
    | LCleaned old =>
      {| pend := pend s; rbuf := rbuf s; token := token s; closeN := closeN s || sst_eqb old SOpen || sst_eqb old SLocalHalf; ss := ss s; epc := epc s;
         ppc := ppc s; lc := LIdle; sclosing := sclosing s; dpc := dpc s; cbmode := cbmode s; now := now s; dl := dl s; tmr := tmr s;
         tch := tch s; ptick := ptick s; use_t := use_t s; armed := armed s; rd := rd s; minsz := minsz s; res := res s |}
    | _ => s
    end
  | SetCb =>
    match rd s with
    | RIdle | RDone =>
      {| pend := pend s; rbuf := rbuf s; token := token s; closeN := closeN s; ss := ss s; epc := epc s;
         ppc := ppc s; lc := lc s; sclosing := sclosing s; dpc := dpc s; cbmode := true; now := now s; dl := dl s; tmr := tmr s;
         tch := tch s; ptick := ptick s; use_t := use_t s; armed := armed s; rd := rd s; minsz := minsz s; res := res s |}
    | _ => s
    end
  | LDefer1 =>
    (* Stream.Close (275-288) while callbackInProcess = 1 (an OnData is running): CAS(state, opened ->
       localHalfClosed); the close itself is left to the callback goroutine ... *)
    if dpc s then s else
    if sst_eqb (ss s) SOpen then
      {| pend := pend s; rbuf := rbuf s; token := token s; closeN := closeN s; ss := SLocalHalf; epc := epc s;
         ppc := ppc s; lc := lc s; sclosing := sclosing s; dpc := true; cbmode := cbmode s; now := now s; dl := dl s; tmr := tmr s;
         tch := tch s; ptick := ptick s; use_t := use_t s; armed := armed s; rd := rd s; minsz := minsz s; res := res s |}
    else s
  | LDefer2 =>
    (* ... but when the CAS succeeded, safeCloseNotify wakes a reader parked inside that callback *)
    if dpc s then
      {| pend := pend s; rbuf := rbuf s; token := token s; closeN := true; ss := ss s; epc := epc s;
         ppc := ppc s; lc := lc s; sclosing := sclosing s; dpc := false; cbmode := cbmode s; now := now s; dl := dl s; tmr := tmr s;
         tch := tch s; ptick := ptick s; use_t := use_t s; armed := armed s; rd := rd s; minsz := minsz s; res := res s |}
    else s
  | SClose =>
    {| pend := pend s; rbuf := rbuf s; token := token s; closeN := true; ss := ss s; epc := epc s;
       ppc := ppc s; lc := lc s; sclosing := true; dpc := dpc s; cbmode := cbmode s; now := now s; dl := dl s; tmr := tmr s;
       tch := tch s; ptick := ptick s; use_t := use_t s; armed := armed s; rd := rd s; minsz := minsz s; res := res s |}
  | SetDL d =>
    match rd s with
    | RIdle | RDone =>
      {| pend := pend s; rbuf := rbuf s; token := token s; closeN := closeN s; ss := ss s; epc := epc s;
         ppc := ppc s; lc := lc s; sclosing := sclosing s; dpc := dpc s; cbmode := cbmode s; now := now s; dl := d; tmr := tmr s;
         tch := tch s; ptick := ptick s; use_t := use_t s; armed := armed s; rd := rd s; minsz := minsz s; res := res s |}
    | _ => s
    end
  | Tick d =>
    if 0 <? d then
      {| pend := pend s; rbuf := rbuf s; token := token s; closeN := closeN s; ss := ss s; epc := epc s;
         ppc := ppc s; lc := lc s; sclosing := sclosing s; dpc := dpc s; cbmode := cbmode s; now := now s + d; dl := dl s; tmr := tmr s;
         tch := tch s; ptick := ptick s; use_t := use_t s; armed := armed s; rd := rd s; minsz := minsz s; res := res s |}
    else s
  | Fire =>
    match tmr s with
    | Some t =>
      if t <=? now s then
        {| pend := pend s; rbuf := rbuf s; token := token s; closeN := closeN s; ss := ss s; epc := epc s;
           ppc := ppc s; lc := lc s; sclosing := sclosing s; dpc := dpc s; cbmode := cbmode s; now := now s; dl := dl s; tmr := None;
           tch := true; ptick := ptick s; use_t := use_t s; armed := armed s; rd := rd s; minsz := minsz s; res := res s |}
      else s
    | None => s
    end
  | FireA =>
    match tmr s with
    | Some t =>
      if t <=? now s then
        {| pend := pend s; rbuf := rbuf s; token := token s; closeN := closeN s; ss := ss s; epc := epc s;
           ppc := ppc s; lc := lc s; sclosing := sclosing s; dpc := dpc s; cbmode := cbmode s; now := now s; dl := dl s; tmr := None;
           tch := tch s; ptick := true; use_t := use_t s; armed := armed s; rd := rd s; minsz := minsz s; res := res s |}
      else s
    | None => s
    end
  | FireB =>
    if ptick s then
      {| pend := pend s; rbuf := rbuf s; token := token s; closeN := closeN s; ss := ss s; epc := epc s;
         ppc := ppc s; lc := lc s; sclosing := sclosing s; dpc := dpc s; cbmode := cbmode s; now := now s; dl := dl s; tmr := tmr s;
         tch := true; ptick := false; use_t := use_t s; armed := armed s; rd := rd s; minsz := minsz s; res := res s |}
    else s
  end.

Definition step := step_gen true.
Definition run (evs : list ev) (s : st) : st := fold_left step evs s.
Definition step_old_close := step_gen false.
Definition run_old_close (evs : list ev) (s : st) : st := fold_left step_old_close evs s.

(* the parked reader's select has a ready branch *)
Definition wake_enabled (s : st) : bool := token s || closeN s || (use_t s && tch s).
(* a helper thread is at the step that will make a branch ready *)
Definition helper_pending (s : st) : bool :=
  epc s || ppc s || dpc s
  || match lc s with LCased SOpen | LCased SLocalHalf | LCleaned SOpen | LCleaned SLocalHalf => true | _ => false end
  || match tmr s with Some t => t <=? now s | None => false end.
Definition is_reader_ev (e : ev) : bool := match e with RCall _ | RStep | RWake _ => true | _ => false end.

(* ------------------------------------------------------------------------------------------ *)
(* Part 2: Flush's retry loop                                                                   *)
(* ------------------------------------------------------------------------------------------ *)
(* what happens in one iteration of `for i := 0; err == ErrQueueFull && i < 10; i++ { select ... }` *)
Inductive fev := FPutFull | FPutOk | FPutErr | FDeadline | FClosed.
Inductive fres := FROk | FRQueueFull | FRTimeout | FRStreamClosed | FROther.

(* env i = what the i-th select observes; fuel counts the remaining iterations allowed by `i < bound` *)
Fixpoint flush_loop (fuel : nat) (i : nat) (env : nat -> fev) : fres * nat :=
  match fuel with
  | O => (FRQueueFull, i)               (* i reached the bound with err still ErrQueueFull *)
  | S f =>
    match env i with
    | FPutFull => flush_loop f (S i) env
    | FPutOk => (FROk, S i)
    | FPutErr => (FROther, S i)
    | FDeadline => (FRTimeout, S i)
    | FClosed => (FRStreamClosed, S i)
    end
  end.

(* Flush after the first put: result and number of select rounds (each at most one 10 ms retry timer) *)
Definition flush_retry (first_full : bool) (env : nat -> fev) : fres * nat :=
  if first_full then flush_loop (Z.to_nat c_flushRetryBound) 0 env else (FROk, O).

(* ------------------------------------------------------------------------------------------ *)
(* Part 3: AcceptStream (session.go 278-286) / initProtocol (189-219) against Session.Close      *)
(* ------------------------------------------------------------------------------------------ *)
Inductive wpc := WIdle | WParked | WGot | WShutdown | WTimeout.
Inductive cpc := CIdle | CFlagged | CNotified | CDone.   (* Session.Close: CAS flag; notify streams; close(shutdownCh) *)

Record sst2 := {
  acceptq : nat;        (* streams in acceptCh *)
  shutdown_flag : bool; (* s.shutdown (IsClosed) *)
  shutdownCh : bool;    (* closed *)
  closer : cpc;
  acc : wpc;            (* a goroutine in AcceptStream *)
  (* initProtocol: *)
  now2 : Z; t_start : Z; t_out : Z; ires : bool (* resultCh holds a value *); itch : bool; itmr : bool; ini : wpc }.

Inductive ev2 :=
| AccCall | AccWake (shutdown : bool)
| NewStream                               (* getStream: acceptCh <- stream *)
| CloseCall | CloseStep
| IniCall (timeout : Z) | IniResult | IniWake (timeout : bool) | Tick2 (d : Z) | Fire2.

Definition init2 : sst2 :=
  {| acceptq := 0; shutdown_flag := false; shutdownCh := false; closer := CIdle; acc := WIdle;
     now2 := 0; t_start := 0; t_out := 0; ires := false; itch := false; itmr := false; ini := WIdle |}.

Definition step2 (s : sst2) (e : ev2) : sst2 :=
  match e with
  | AccCall =>
    match acc s with
    | WParked => s
    | _ => {| acceptq := acceptq s; shutdown_flag := shutdown_flag s; shutdownCh := shutdownCh s; closer := closer s;
              acc := WParked; now2 := now2 s; t_start := t_start s; t_out := t_out s; ires := ires s; itch := itch s;
              itmr := itmr s; ini := ini s |}
    end
  | AccWake sh =>
    match acc s with
    | WParked =>
      if sh then
        if shutdownCh s then
          {| acceptq := acceptq s; shutdown_flag := shutdown_flag s; shutdownCh := shutdownCh s; closer := closer s;
             acc := WShutdown; now2 := now2 s; t_start := t_start s; t_out := t_out s; ires := ires s; itch := itch s;
             itmr := itmr s; ini := ini s |}
        else s
      else
        match acceptq s with
        | O => s
        | S q => {| acceptq := q; shutdown_flag := shutdown_flag s; shutdownCh := shutdownCh s; closer := closer s;
                    acc := WGot; now2 := now2 s; t_start := t_start s; t_out := t_out s; ires := ires s; itch := itch s;
                    itmr := itmr s; ini := ini s |}
        end
    | _ => s
    end
  | NewStream =>
    {| acceptq := S (acceptq s); shutdown_flag := shutdown_flag s; shutdownCh := shutdownCh s; closer := closer s;
       acc := acc s; now2 := now2 s; t_start := t_start s; t_out := t_out s; ires := ires s; itch := itch s;
       itmr := itmr s; ini := ini s |}
  | CloseCall =>
    if shutdown_flag s then s else
      {| acceptq := acceptq s; shutdown_flag := true; shutdownCh := shutdownCh s; closer := CFlagged;
         acc := acc s; now2 := now2 s; t_start := t_start s; t_out := t_out s; ires := ires s; itch := itch s;
         itmr := itmr s; ini := ini s |}
  | CloseStep =>
    match closer s with
    | CFlagged => {| acceptq := acceptq s; shutdown_flag := shutdown_flag s; shutdownCh := shutdownCh s; closer := CNotified;
                     acc := acc s; now2 := now2 s; t_start := t_start s; t_out := t_out s; ires := ires s; itch := itch s;
                     itmr := itmr s; ini := ini s |}
    | CNotified => {| acceptq := acceptq s; shutdown_flag := shutdown_flag s; shutdownCh := true; closer := CDone;
                      acc := acc s; now2 := now2 s; t_start := t_start s; t_out := t_out s; ires := ires s; itch := itch s;
                      itmr := itmr s; ini := ini s |}
    | _ => s
    end
  | IniCall t =>
    match ini s with
    | WIdle => {| acceptq := acceptq s; shutdown_flag := shutdown_flag s; shutdownCh := shutdownCh s; closer := closer s;
                  acc := acc s; now2 := now2 s; t_start := now2 s; t_out := t; ires := false; itch := false;
                  itmr := true; ini := WParked |}
    | _ => s
    end
  | IniResult =>
    {| acceptq := acceptq s; shutdown_flag := shutdown_flag s; shutdownCh := shutdownCh s; closer := closer s;
       acc := acc s; now2 := now2 s; t_start := t_start s; t_out := t_out s; ires := true; itch := itch s;
       itmr := itmr s; ini := ini s |}
  | IniWake tmo =>
    match ini s with
    | WParked =>
      if tmo then
        if itch s then
          {| acceptq := acceptq s; shutdown_flag := shutdown_flag s; shutdownCh := shutdownCh s; closer := closer s;
             acc := acc s; now2 := now2 s; t_start := t_start s; t_out := t_out s; ires := ires s; itch := false;
             itmr := false; ini := WTimeout |}
        else s
      else
        if ires s then
          {| acceptq := acceptq s; shutdown_flag := shutdown_flag s; shutdownCh := shutdownCh s; closer := closer s;
             acc := acc s; now2 := now2 s; t_start := t_start s; t_out := t_out s; ires := false; itch := itch s;
             itmr := false; ini := WGot |}
        else s
    | _ => s
    end
  | Tick2 d =>
    if 0 <? d then
      {| acceptq := acceptq s; shutdown_flag := shutdown_flag s; shutdownCh := shutdownCh s; closer := closer s;
         acc := acc s; now2 := now2 s + d; t_start := t_start s; t_out := t_out s; ires := ires s; itch := itch s;
         itmr := itmr s; ini := ini s |}
    else s
  | Fire2 =>
    if itmr s && (t_start s + t_out s <=? now2 s) then
      {| acceptq := acceptq s; shutdown_flag := shutdown_flag s; shutdownCh := shutdownCh s; closer := closer s;
         acc := acc s; now2 := now2 s; t_start := t_start s; t_out := t_out s; ires := ires s; itch := true;
         itmr := false; ini := ini s |}
    else s
  end.

Definition run2 (evs : list ev2) (s : sst2) : sst2 := fold_left step2 evs s.

(* ------------------------------------------------------------------------------------------ *)
(* Part 4: the socket-write hand-off (session.go send 440-465, wakeUpPeer 616-631, hotRestart     *)
(* 701-709, waitForSendErr 393-427)                                                             *)
(* ------------------------------------------------------------------------------------------ *)
(* `writing` serialises writes to the socket.  The send loop takes an item from sendCh, then spins
   `for !CAS(writing,0,1) { <-notifyContinueWriteCh }`, writes, stores 0.  A fast-path thread (Flush ->
   wakeUpPeer, hotRestart) does CAS(writing,0,1); write; store 0; asyncNotify(notifyContinueWriteCh);
   when its CAS fails it takes the SLOW PATH `s.sendCh <- sendReady{...}` - a plain send, no select, no
   timeout.  A write blocks while the socket is full (peer not reading).                          *)
Inductive slpc := SLIdle | SLSpin | SLWrite.
Inductive fpc := FPIdle | FPHold | FPNotify | FPBlocked.

Record hs := {
  sq : nat; scap : nat;   (* items in sendCh / its capacity (4096) *)
  hwriting : bool;        (* s.writing *)
  htok : bool;            (* notifyContinueWriteCh holds a value *)
  sl : slpc;              (* the send loop *)
  fp : fpc;               (* a thread in wakeUpPeer / hotRestart *)
  sock_full : bool }.     (* environment: a write to the socket would block *)

Inductive hev :=
| HEnq            (* waitForSendErr: `case s.sendCh <- ready` (when full the caller times out instead) *)
| HTake           (* send loop: `ready := <-s.sendCh`, then the first CAS *)
| HWake           (* send loop: `<-s.notifyContinueWriteCh`, then CAS again *)
| HWriteDone      (* send loop: the write returned; writing := 0 *)
| HFpTry          (* fast-path thread: CAS; on failure the slow-path send (blocks when sendCh is full) *)
| HFpDone         (* fast-path thread: the write returned; writing := 0 *)
| HFpNotify       (* fast-path thread: asyncNotify(notifyContinueWriteCh) *)
| HUnblock        (* the blocked slow-path send completes (a slot became free) *)
| HSock (full : bool).

Definition inith (c : nat) : hs :=
  {| sq := 0; scap := c; hwriting := false; htok := false; sl := SLIdle; fp := FPIdle; sock_full := false |}.

Definition steph (s : hs) (e : hev) : hs :=
  match e with
  | HEnq => if (sq s <? scap s)%nat
            then {| sq := S (sq s); scap := scap s; hwriting := hwriting s; htok := htok s; sl := sl s; fp := fp s; sock_full := sock_full s |}
            else s
  | HTake =>
    match sl s, sq s with
    | SLIdle, S q =>
      if hwriting s
      then {| sq := q; scap := scap s; hwriting := true; htok := htok s; sl := SLSpin; fp := fp s; sock_full := sock_full s |}
      else {| sq := q; scap := scap s; hwriting := true; htok := htok s; sl := SLWrite; fp := fp s; sock_full := sock_full s |}
    | _, _ => s
    end
  | HWake =>
    match sl s with
    | SLSpin =>
      if htok s then
        if hwriting s
        then {| sq := sq s; scap := scap s; hwriting := true; htok := false; sl := SLSpin; fp := fp s; sock_full := sock_full s |}
        else {| sq := sq s; scap := scap s; hwriting := true; htok := false; sl := SLWrite; fp := fp s; sock_full := sock_full s |}
      else s
    | _ => s
    end
  | HWriteDone =>
    match sl s with
    | SLWrite => if sock_full s then s
                 else {| sq := sq s; scap := scap s; hwriting := false; htok := htok s; sl := SLIdle; fp := fp s; sock_full := sock_full s |}
    | _ => s
    end
  | HFpTry =>
    match fp s with
    | FPIdle =>
      if hwriting s then
        if (sq s <? scap s)%nat
        then {| sq := S (sq s); scap := scap s; hwriting := true; htok := htok s; sl := sl s; fp := FPIdle; sock_full := sock_full s |}
        else {| sq := sq s; scap := scap s; hwriting := true; htok := htok s; sl := sl s; fp := FPBlocked; sock_full := sock_full s |}
      else {| sq := sq s; scap := scap s; hwriting := true; htok := htok s; sl := sl s; fp := FPHold; sock_full := sock_full s |}
    | _ => s
    end
  | HFpDone =>
    match fp s with
    | FPHold => if sock_full s then s
                else {| sq := sq s; scap := scap s; hwriting := false; htok := htok s; sl := sl s; fp := FPNotify; sock_full := sock_full s |}
    | _ => s
    end
  | HFpNotify =>
    match fp s with
    | FPNotify => {| sq := sq s; scap := scap s; hwriting := hwriting s; htok := true; sl := sl s; fp := FPIdle; sock_full := sock_full s |}
    | _ => s
    end
  | HUnblock =>
    match fp s with
    | FPBlocked => if (sq s <? scap s)%nat
                   then {| sq := S (sq s); scap := scap s; hwriting := hwriting s; htok := htok s; sl := sl s; fp := FPIdle; sock_full := sock_full s |}
                   else s
    | _ => s
    end
  | HSock b => {| sq := sq s; scap := scap s; hwriting := hwriting s; htok := htok s; sl := sl s; fp := fp s; sock_full := b |}
  end.

Definition runh (evs : list hev) (s : hs) : hs := fold_left steph evs s.

(* can anything but the environment (the peer reading its socket again) make progress? *)
Definition stuckh (s : hs) : bool :=
  match fp s, sl s with
  | FPBlocked, SLWrite => sock_full s && Nat.eqb (sq s) (scap s)
  | _, _ => false
  end.

(* ------------------------------------------------------------------------------------------ *)
(* Part 5: how the PEER's Stream.close tells us (stream.go close(): "notify peer")               *)
(* ------------------------------------------------------------------------------------------ *)
(* After its CAS to closed (old state opened / localHalfClosed) the closing side sends ONE close
   notification: if the session is already shut down none is needed (the death of the session releases
   every reader); otherwise, for a stream not in fallback state, a queue element with status closed -
   and when that put fails (io queue full) it FALLS THROUGH to the socket path; a stream in fallback state
   always takes the socket path: a typeStreamClose event through waitForSend, which can itself fail only
   by ConnectionWriteTimeout / session shutdown.  Our side half-closes the stream (PClose1/PClose2 of
   part 1) when the consumer pops the element or the event loop reads the event. *)
Record pcs := {
  pc_closed : bool;      (* the peer's CAS to closed has happened *)
  pc_notified : bool;    (* its close() has finished the "notify peer" block *)
  pc_err : bool;         (* ... and returned an error *)
  pc_sockerr : bool;     (* ghost: that error came from the socket path (waitForSend: write timeout) *)
  pc_dead : bool;        (* the session is shut down *)
  pc_fallback : bool;    (* the stream is in fallback state *)
  pc_qfull : bool;       (* environment: the io queue is full *)
  pc_sockfail : bool;    (* environment: waitForSend fails (write timeout) *)
  in_queue : bool;       (* a close element is in the io queue *)
  in_sock : bool;        (* a typeStreamClose event is in the socket / sendCh *)
  got_close : bool }.    (* our side has handled the notification: halfClose *)

Inductive pcev :=
| PcCas | PcNotify | PcEnvQ (full : bool) | PcEnvSock (fail : bool) | PcEnvFallback | PcEnvDead
| PcDeliverQ | PcDeliverSock.

Definition pcs0 : pcs :=
  {| pc_closed := false; pc_notified := false; pc_err := false; pc_sockerr := false; pc_dead := false; pc_fallback := false;
     pc_qfull := false; pc_sockfail := false; in_queue := false; in_sock := false; got_close := false |}.

(* the "notify peer" block; queue_full_falls_through = true is the code that exists *)
Definition pc_notify (falls_through : bool) (s : pcs) : pcs :=
  let via_sock :=
    if pc_sockfail s
    then {| pc_closed := pc_closed s; pc_notified := true; pc_err := true; pc_sockerr := true; pc_dead := pc_dead s; pc_fallback := pc_fallback s;
            pc_qfull := pc_qfull s; pc_sockfail := pc_sockfail s; in_queue := in_queue s; in_sock := in_sock s; got_close := got_close s |}
    else {| pc_closed := pc_closed s; pc_notified := true; pc_err := false; pc_sockerr := pc_sockerr s; pc_dead := pc_dead s; pc_fallback := pc_fallback s;
            pc_qfull := pc_qfull s; pc_sockfail := pc_sockfail s; in_queue := in_queue s; in_sock := true; got_close := got_close s |} in
  if pc_dead s
  then {| pc_closed := pc_closed s; pc_notified := true; pc_err := false; pc_sockerr := pc_sockerr s; pc_dead := pc_dead s; pc_fallback := pc_fallback s;
          pc_qfull := pc_qfull s; pc_sockfail := pc_sockfail s; in_queue := in_queue s; in_sock := in_sock s; got_close := got_close s |}
  else if pc_fallback s then via_sock
  else if pc_qfull s then
         (if falls_through then via_sock
          else {| pc_closed := pc_closed s; pc_notified := true; pc_err := true; pc_sockerr := pc_sockerr s; pc_dead := pc_dead s; pc_fallback := pc_fallback s;
                  pc_qfull := pc_qfull s; pc_sockfail := pc_sockfail s; in_queue := in_queue s; in_sock := in_sock s; got_close := got_close s |})
  else {| pc_closed := pc_closed s; pc_notified := true; pc_err := false; pc_sockerr := pc_sockerr s; pc_dead := pc_dead s; pc_fallback := pc_fallback s;
          pc_qfull := pc_qfull s; pc_sockfail := pc_sockfail s; in_queue := true; in_sock := in_sock s; got_close := got_close s |}.

Definition pc_step (ft : bool) (s : pcs) (e : pcev) : pcs :=
  match e with
  | PcCas => if pc_closed s then s else
      {| pc_closed := true; pc_notified := pc_notified s; pc_err := pc_err s; pc_sockerr := pc_sockerr s; pc_dead := pc_dead s; pc_fallback := pc_fallback s;
         pc_qfull := pc_qfull s; pc_sockfail := pc_sockfail s; in_queue := in_queue s; in_sock := in_sock s; got_close := got_close s |}
  | PcNotify => if pc_closed s && negb (pc_notified s) then pc_notify ft s else s
  | PcEnvQ b =>
      {| pc_closed := pc_closed s; pc_notified := pc_notified s; pc_err := pc_err s; pc_sockerr := pc_sockerr s; pc_dead := pc_dead s; pc_fallback := pc_fallback s;
         pc_qfull := b; pc_sockfail := pc_sockfail s; in_queue := in_queue s; in_sock := in_sock s; got_close := got_close s |}
  | PcEnvSock b =>
      {| pc_closed := pc_closed s; pc_notified := pc_notified s; pc_err := pc_err s; pc_sockerr := pc_sockerr s; pc_dead := pc_dead s; pc_fallback := pc_fallback s;
         pc_qfull := pc_qfull s; pc_sockfail := b; in_queue := in_queue s; in_sock := in_sock s; got_close := got_close s |}
  | PcEnvFallback =>
      {| pc_closed := pc_closed s; pc_notified := pc_notified s; pc_err := pc_err s; pc_sockerr := pc_sockerr s; pc_dead := pc_dead s; pc_fallback := true;
         pc_qfull := pc_qfull s; pc_sockfail := pc_sockfail s; in_queue := in_queue s; in_sock := in_sock s; got_close := got_close s |}
  | PcEnvDead =>
      {| pc_closed := pc_closed s; pc_notified := pc_notified s; pc_err := pc_err s; pc_sockerr := pc_sockerr s; pc_dead := true; pc_fallback := pc_fallback s;
         pc_qfull := pc_qfull s; pc_sockfail := pc_sockfail s; in_queue := in_queue s; in_sock := in_sock s; got_close := got_close s |}
  | PcDeliverQ => if in_queue s then
      {| pc_closed := pc_closed s; pc_notified := pc_notified s; pc_err := pc_err s; pc_sockerr := pc_sockerr s; pc_dead := pc_dead s; pc_fallback := pc_fallback s;
         pc_qfull := pc_qfull s; pc_sockfail := pc_sockfail s; in_queue := false; in_sock := in_sock s; got_close := true |} else s
  | PcDeliverSock => if in_sock s then
      {| pc_closed := pc_closed s; pc_notified := pc_notified s; pc_err := pc_err s; pc_sockerr := pc_sockerr s; pc_dead := pc_dead s; pc_fallback := pc_fallback s;
         pc_qfull := pc_qfull s; pc_sockfail := pc_sockfail s; in_queue := in_queue s; in_sock := false; got_close := true |} else s
  end.

Definition pc_run (ft : bool) (evs : list pcev) : pcs := fold_left (pc_step ft) evs pcs0.

(* the reader's side will be told, has been told, does not need to be told (session dead) - or the
   closing side got ErrConnectionWriteTimeout from the socket path (the socket itself is stuck: the
   session is about to be declared dead by exitErr) *)
Definition pc_covered (s : pcs) : bool :=
  in_queue s || in_sock s || got_close s || pc_dead s || pc_sockerr s.

(* ------------------------------------------------------------------------------------------ *)
(* Part 6: from the connection layer to the death of the session                                 *)
(* ------------------------------------------------------------------------------------------ *)
(* Session.Close (SClose of part 1, CloseCall/CloseStep of part 3) is reached from the control connection
   through connEventHandler: handleEvent's dispatch (Model/EventConn.v handle_event, compared with the real
   handleEvent by C18 and - for the hang-up masks - by this property's harness) calls onRemoteClose ->
   Session.onRemoteClose -> exitErr -> Close.  onReadReady calls onRemoteClose only when read returns 0 (EOF);
   on a read ERROR (ECONNRESET: the peer went away with bytes of OURS unread in its socket) it returns silently.
   The fd is edge-triggered: the event that reports the end of the peer is reported once. *)
From Shm Require Model.EventConn.

Inductive readres := RdData | RdAgain | RdEOF | RdErr.   (* what the first read in onReadReady finds *)

Definition has_call (c : EventConn.hcall) (l : list EventConn.hcall) : bool :=
  existsb (fun x => match x, c with
                    | EventConn.CRemoteClose, EventConn.CRemoteClose => true
                    | EventConn.CReadReady, EventConn.CReadReady => true
                    | EventConn.CWriteReady, EventConn.CWriteReady => true
                    | _, _ => false end) l.

(* does the handling of this one epoll event call onRemoteClose (and so Session.Close)? *)
Definition closes_session_with (dispatch : EventConn.epev -> list EventConn.hcall) (e : EventConn.epev) (rr : readres) : bool :=
  has_call EventConn.CRemoteClose (dispatch e)
  || (has_call EventConn.CReadReady (dispatch e) && match rr with RdEOF => true | _ => false end).
Definition closes_session := closes_session_with EventConn.handle_event.

(* VARIANT (not the code): the hang-up test `RDHUP && !IN` ("drain first, onReadReady finds the EOF itself") *)
Definition handle_event_in_first (e : EventConn.epev) : list EventConn.hcall :=
  if EventConn.ev_rdhup e && negb (EventConn.ev_in e) then [EventConn.CRemoteClose]
  else (if EventConn.ev_in e then [EventConn.CReadReady] else []) ++ (if EventConn.ev_out e then [EventConn.CWriteReady] else []).
