(* Model of the receiving side of ONE stream in callback mode (C07, end-of-stream clause; no proofs here).

   stream.go fillDataToReadBuffer (event loop, per arriving message):
       pendingData.add(buf); if callbacks set: if CAS(callbackInProcess, 0, 1) { gopool.Go(goroutine) }
   stream.go halfClose (event loop, on the peer's close element / stream-close event):
       if CAS(state, opened, halfClosed) { closeNotify; callback.OnRemoteClose() }
   the goroutine:
       for { pendingData.moveTo(recvBuf)
             for s.IsOpen() && recvBuf.Len() > 0 { callback.OnData(recvBuf); pendingData.moveTo(recvBuf) }
             store callbackInProcess 0
             (callbackCloseState: local Close inside OnData — not modelled: the user does not close)
             if !(len(pending) > 0 && CAS(callbackInProcess, 0, 1)) { break } }
   The user's OnData consumes everything it is offered.  One step = one of the lines above. *)
From Coq Require Import List Bool Arith.
Import ListNotations.

Inductive ccall := COnData (l : list nat) | CRemoteClose.
Inductive gpc := GNone | GMove | GTest | GStore | GCheck.
Inductive cact := AData (k : nat) | AClose | AGo.

Record cst := {
  copen : bool;                 (* state = streamOpened *)
  cpending : list nat; crbuf : list nat; cinproc : bool; cg : gpc;
  ccalls : list ccall;          (* the callbacks the user received, in order *)
  carrived : list nat;          (* ghost: messages that arrived before the peer's close *)
  cclosed : bool }.             (* ghost: the peer's close has arrived *)

Definition cmk o p r i g c a x : cst :=
  {| copen := o; cpending := p; crbuf := r; cinproc := i; cg := g; ccalls := c; carrived := a; cclosed := x |}.

Definition cstep (s : cst) (a : cact) : cst :=
  match a with
  | AData k =>
    let arr := if cclosed s then carrived s else carrived s ++ [k] in
    if cinproc s then cmk (copen s) (cpending s ++ [k]) (crbuf s) true (cg s) (ccalls s) arr (cclosed s)
    else cmk (copen s) (cpending s ++ [k]) (crbuf s) true GMove (ccalls s) arr (cclosed s)
  | AClose =>
    if copen s then cmk false (cpending s) (crbuf s) (cinproc s) (cg s) (ccalls s ++ [CRemoteClose]) (carrived s) true
    else s
  | AGo =>
    match cg s with
    | GNone => s
    | GMove => cmk (copen s) [] (crbuf s ++ cpending s) (cinproc s) GTest (ccalls s) (carrived s) (cclosed s)
    | GTest => match copen s, crbuf s with
               | true, _ :: _ => cmk (copen s) [] (cpending s) (cinproc s) GTest (ccalls s ++ [COnData (crbuf s)]) (carrived s) (cclosed s)
               | _, _ => cmk (copen s) (cpending s) (crbuf s) (cinproc s) GStore (ccalls s) (carrived s) (cclosed s)
               end
    | GStore => cmk (copen s) (cpending s) (crbuf s) false GCheck (ccalls s) (carrived s) (cclosed s)
    | GCheck => match cpending s with
                | _ :: _ => if cinproc s then cmk (copen s) (cpending s) (crbuf s) (cinproc s) GNone (ccalls s) (carrived s) (cclosed s)
                            else cmk (copen s) (cpending s) (crbuf s) true GMove (ccalls s) (carrived s) (cclosed s)
                | [] => cmk (copen s) (cpending s) (crbuf s) (cinproc s) GNone (ccalls s) (carrived s) (cclosed s)
                end
    end
  end.

Definition cinit : cst := cmk true [] [] false GNone [] [] false.
Definition crun (l : list cact) : cst := fold_left cstep l cinit.

(* what OnData was offered before OnRemoteClose *)
Fixpoint offered_before_close (c : list ccall) : list nat :=
  match c with
  | [] => []
  | COnData l :: r => l ++ offered_before_close r
  | CRemoteClose :: _ => []
  end.
Definition told_end (c : list ccall) : bool := existsb (fun x => match x with CRemoteClose => true | _ => false end) c.
Fixpoint nats_eqb (a b : list nat) : bool :=
  match a, b with [], [] => true | x :: a', y :: b' => Nat.eqb x y && nats_eqb a' b' | _, _ => false end.
(* the end-of-stream clause: OnRemoteClose only after every byte that arrived before the close was offered *)
Definition end_after_data (s : cst) : bool :=
  if told_end (ccalls s) then nats_eqb (offered_before_close (ccalls s)) (carrived s) else true.
