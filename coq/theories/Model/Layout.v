(* Model/Layout.v — executable model of the shared-memory LAYOUT code of shmipc-go (property C03).
   NO PROOFS in this file.

   Modelled functions (all of /repo):
     buffer_manager.go  createBufferManager, createFreeBufferList, countBufferListMemSize,
                        mappingBufferManager, mappingFreeBufferList            (offset argument = 0,
                        which is what every caller passes)
     queue.go           countQueueMemSize, createQueueFromBytes, mappingQueueFromBytes (amd64 branch),
                        createQueueManager[WithMemFd], mappingQueueManager[Memfd]  (which half is
                        send / recv on each side)

   Conventions: every number is a Z.  Where Go computes in uint32 / uint64 / uint16 the wrap is
   written out (w32 / w64 / w16).  `len(mem)` is a Go int: an unbounded non-negative Z here (it is
   below 2^63 in Go; nothing in this code can overflow an int64 with such a value).  A Go run-time
   panic (index / slice bounds, integer division by zero) is the outcome `Panic`, an `error` return
   is `Err`.  The numbers inside Err / Panic only name the site, for diagnostics.

   Memory is cell-granular: `mem a` is the value of the header field that starts at byte address a
   (all fields of this code are naturally aligned 4-byte words, except the 2-byte list count at
   address 0; Proofs/LayoutProofs.v checks from the generated offsets that fields do not overlap).
   Header field offsets are the generated constants off_create_list_* (creating side) and
   off_map_list_* (mapping side) of Gen/Consts.v: creator and mapper use their OWN offsets. *)
From Coq Require Import List ZArith Bool.
From Shm Require Import Gen.Consts.
Import ListNotations.
Open Scope Z_scope.

Definition w16 (x : Z) : Z := x mod 65536.
Definition w32 (x : Z) : Z := x mod 4294967296.
Definition w64 (x : Z) : Z := x mod 18446744073709551616.

(* the two literals of createBufferManager (`sumPercent > 100`, `.../100`) are the generated constants
   c_percentSumMax and c_percentDivisor of Gen/Consts.v *)

Inductive outcome (A : Type) : Type :=
| Ok (v : A)
| Err (site : Z)
| Panic (site : Z).
Arguments Ok {A} v.
Arguments Err {A} site.
Arguments Panic {A} site.

Definition mem := Z -> Z.
Definition upd (m : mem) (a v : Z) : mem := fun x => if x =? a then v else m x.

(* what one side knows about one size class (a *bufferList) *)
Record class := {
  cl_off : Z;            (* offsetInShm: where the list header starts *)
  cl_regionOff : Z;      (* bufferRegionOffsetInShm *)
  cl_regionLen : Z;      (* len(bufferRegion) *)
  cl_size : Z;           (* *size (as an unsigned word) *)
  cl_cap : Z;            (* *cap: number of slots *)
  cl_head : Z;           (* *head *)
  cl_tail : Z;           (* *tail *)
  cl_capPerBuffer : Z }. (* *capPerBuffer *)

(* ---------------------------------------------------------------------------------------------- *)
(* countBufferListMemSize: bufferListHeaderSize + bufferNum*(capPerBuffer+bufferHeaderSize), uint32 *)
Definition list_mem_size (num cpb : Z) : Z :=
  w32 (c_bufferListHeaderSize + w32 (num * w32 (cpb + c_bufferHeaderSize))).

(* the loop of createFreeBufferList that writes the slot headers and links the initial chain; only
   whether it panics matters for the layout (every b.bufferRegion[...] is a bounds-checked index
   with a uint32 index expression).  fuel = int(bufferNum). *)
Fixpoint chain_loop (fuel : nat) (i current num cpb rlen : Z) : bool :=
  match fuel with
  | O => true
  | S f =>
    let next := w32 (w32 (current + cpb) + c_bufferHeaderSize) in
    (current <? rlen)
    && (w32 (current + c_bufferSizeOffset) <? rlen)
    && (w32 (current + c_bufferDataStartOffset) <? rlen)
    && (if i <? w32 (num - 1)
        then (w32 (current + c_nextBufferOffset) <? rlen) && (w32 (current + c_bufferFlagOffset) <? rlen)
        else true)
    && chain_loop f (i + 1) next num cpb rlen
  end.

(* loop, then  bufferHeader(b.bufferRegion[*b.tail:]).clearFlag() *)
Definition chain_init_ok (num cpb rlen tail : Z) : bool :=
  chain_loop (Z.to_nat num) 0 0 num cpb rlen
  && (tail <=? rlen) && (c_bufferFlagOffset <? rlen - tail).

(* the same loop, but returning what it links: (slot offset in the region, Some next | None) *)
Fixpoint chain_links (fuel : nat) (i current num cpb : Z) : list (Z * option Z) :=
  match fuel with
  | O => []
  | S f =>
    let next := w32 (w32 (current + cpb) + c_bufferHeaderSize) in
    (current, if i <? w32 (num - 1) then Some next else None) :: chain_links f (i + 1) next num cpb
  end.
Definition initial_chain (num cpb : Z) : list (Z * option Z) := chain_links (Z.to_nat num) 0 0 num cpb.

Definition create_offsets : list Z :=
  [off_create_list_size; off_create_list_cap; off_create_list_head; off_create_list_tail;
   off_create_list_capPerBuffer; off_create_list_counter].
Definition map_offsets : list Z :=
  [off_map_list_size; off_map_list_cap; off_map_list_head; off_map_list_tail;
   off_map_list_capPerBuffer; off_map_list_counter].

(* the six header stores of createFreeBufferList, in program order *)
Definition write_list_header (m : mem) (off num tail cpb : Z) : mem :=
  let m := upd m (w32 (off + off_create_list_size)) num in
  let m := upd m (w32 (off + off_create_list_cap)) num in
  let m := upd m (w32 (off + off_create_list_head)) 0 in
  let m := upd m (w32 (off + off_create_list_tail)) tail in
  let m := upd m (w32 (off + off_create_list_capPerBuffer)) cpb in
  upd m (w32 (off + off_create_list_counter)) 0.

(* createFreeBufferList(bufferNum, capPerBuffer, mem, offsetInMem); `chk` is the chain-loop check
   (chain_init_ok in the model proper; a proved-equal shortcut in the correspondence evaluation) *)
Definition create_fbl_gen (chk : Z -> Z -> Z -> Z -> bool) (num cpb memLen off : Z) (m : mem)
  : outcome (class * mem) :=
  if (num =? 0) || (cpb =? 0) then Err 1 else
  let atLeast := list_mem_size num cpb in
  if (memLen <? w32 (off + atLeast)) || (w32 memLen <? off) || (w32 memLen <? atLeast) then Err 2 else
  let rstart := w32 (off + c_bufferListHeaderSize) in
  let rend := w32 (off + atLeast) in
  if rend <=? rstart then Err 3 else
  (* &mem[offsetInMem+k] *)
  if existsb (fun k => memLen <=? w32 (off + k)) create_offsets then Panic 1 else
  (* mem[rstart:rend], rstart < rend known *)
  if memLen <? rend then Panic 2 else
  let rlen := rend - rstart in
  let tail := w32 (w32 (num - 1) * w32 (cpb + c_bufferHeaderSize)) in
  if negb (chk num cpb rlen tail) then Panic 3 else
  Ok ({| cl_off := off; cl_regionOff := rstart; cl_regionLen := rlen; cl_size := num; cl_cap := num;
         cl_head := 0; cl_tail := tail; cl_capPerBuffer := cpb |},
      write_list_header m off num tail cpb).

(* the loop of createBufferManager over the (Size, Percent) pairs *)
Fixpoint create_loop_gen chk (pairs : list (Z * Z)) (rc memLen off sum : Z) (m : mem)
  : outcome (list class * Z * mem) :=
  match pairs with
  | [] => Ok ([], off, m)
  | (size, pct) :: rest =>
    let sum' := w32 (sum + pct) in
    if c_percentSumMax <? sum' then Err 4 else
    let stride := w32 (size + c_bufferHeaderSize) in
    (* since /repo db4e530: `if pair.Size+bufferHeaderSize < bufferHeaderSize` rejects a wrapped stride *)
    if stride <? c_bufferHeaderSize then Err 6 else
    if stride =? 0 then Panic 4 else           (* integer divide by zero (unreachable behind the check) *)
    let num := w32 (w64 (rc * pct) / c_percentDivisor) / stride in
    let need := list_mem_size num size in
    match create_fbl_gen chk num size memLen off m with
    | Err e => Err e
    | Panic p => Panic p
    | Ok (c, m1) =>
      match create_loop_gen chk rest rc memLen (w32 (off + need)) sum' m1 with
      | Ok (cs, off', m') => Ok (c :: cs, off', m')
      | Err e => Err e
      | Panic p => Panic p
      end
    end
  end.

(* bufferRegionCap := uint64(len(mem) - int(offset) - bufferListHeaderSize*len(pairs) - bufferManagerHeaderSize) *)
Definition region_cap (n memLen : Z) : Z :=
  w64 (memLen - c_bufferListHeaderSize * n - c_bufferManagerHeaderSize).

(* createBufferManager(pairs, path, mem, 0); result: the lists and the memory cells it wrote *)
Definition create_bm_gen chk (pairs : list (Z * Z)) (memLen : Z) (m0 : mem) : outcome (list class * mem) :=
  if memLen <=? 0 then Err 5 else
  let n := Z.of_nat (length pairs) in
  let rc := region_cap n memLen in
  let m1 := upd m0 0 (w16 n) in
  match create_loop_gen chk pairs rc memLen c_bufferManagerHeaderSize 0 m1 with
  | Err e => Err e
  | Panic p => Panic p
  | Ok (cs, off', m') =>
    match pairs with
    | [] => Panic 5                                (* listSizePercent[0] *)
    | _ :: _ =>
      if memLen <=? c_bmCapOffset then Panic 6 else  (* &mem[offset+bmCapOffset] *)
      Ok (cs, upd m' c_bmCapOffset (w32 (off' - c_bufferManagerHeaderSize)))
    end
  end.

(* shortcut used ONLY by the vm_compute correspondence (a class may have millions of slots): when
   nothing wraps the loop cannot panic.  Proofs/LayoutProofs.v proves chain_init_fast = chain_init_ok
   for all arguments, hence create_bm_fast = create_bm. *)
Definition slot_header_offsets : list Z :=
  [c_bufferCapOffset; c_bufferSizeOffset; c_bufferDataStartOffset; c_nextBufferOffset; c_bufferFlagOffset].
Definition chain_init_fast (num cpb rlen tail : Z) : bool :=
  let s := cpb + c_bufferHeaderSize in
  if (0 <? num) && (0 <=? cpb) && (num * s =? rlen) && (rlen <? 4294967296) && (tail =? (num - 1) * s)
     && (c_bufferCapOffset =? 0)
     && forallb (fun k => (0 <=? k) && (k <? c_bufferHeaderSize)) slot_header_offsets
  then true else chain_init_ok num cpb rlen tail.
Definition create_bm_fast := create_bm_gen chain_init_fast.

Definition create_fbl := create_fbl_gen chain_init_ok.
Definition create_loop := create_loop_gen chain_init_ok.
Definition create_bm := create_bm_gen chain_init_ok.

(* ---------------------------------------------------------------------------------------------- *)
(* mappingFreeBufferList(mem, offset) *)
Definition map_fbl (memLen off : Z) (m : mem) : outcome class :=
  if memLen <? c_bufferListHeaderSize + off then Err 11 else
  if existsb (fun k => memLen <=? w32 (off + k)) map_offsets then Panic 11 else
  let size := m (w32 (off + off_map_list_size)) in
  let cap := m (w32 (off + off_map_list_cap)) in
  let head := m (w32 (off + off_map_list_head)) in
  let tail := m (w32 (off + off_map_list_tail)) in
  let cpb := m (w32 (off + off_map_list_capPerBuffer)) in
  let need := list_mem_size cap cpb in
  let e := w32 (off + need) in
  let lo := w32 (off + c_bufferListHeaderSize) in
  if (w32 memLen <? e) || (e <? lo) then Err 12 else
  if (memLen <? e) || (e <? lo) then Panic 12 else    (* mem[lo:e] *)
  Ok {| cl_off := off; cl_regionOff := lo; cl_regionLen := e - lo; cl_size := size; cl_cap := cap;
        cl_head := head; cl_tail := tail; cl_capPerBuffer := cpb |}.

Fixpoint map_loop (n : nat) (memLen used : Z) (m : mem) : outcome (list class) :=
  match n with
  | O => Ok []
  | S n' =>
    match map_fbl memLen (w32 used) m with   (* bufferRegionStartOffset(=0) + hadUsedOffset, uint32 *)
    | Err e => Err e
    | Panic p => Panic p
    | Ok c =>
      match map_loop n' memLen (w32 (used + list_mem_size (cl_cap c) (cl_capPerBuffer c))) m with
      | Ok cs => Ok (c :: cs)
      | e => e
      end
    end
  end.

(* mappingBufferManager(path, mem, 0) *)
Definition map_bm (memLen : Z) (m : mem) : outcome (list class) :=
  if (memLen <=? c_bmCapOffset) || (memLen <=? 0) then Err 13 else
  let listNum := w16 (m 0) in
  let length := m c_bmCapOffset in
  if (memLen <? c_bufferManagerHeaderSize + length) || (listNum =? 0) then Err 14 else
  map_loop (Z.to_nat listNum) memLen c_bufferManagerHeaderSize m.

(* ---------------------------------------------------------------------------------------------- *)
(* slots of a class as the allocator will see them: slot i starts at region + i*stride (stride as
   the code computes it, in uint32) and occupies its header and capPerBuffer data bytes *)
Definition stride (c : class) : Z := w32 (cl_capPerBuffer c + c_bufferHeaderSize).
Definition slot_lo (c : class) (i : Z) : Z := cl_regionOff c + i * stride c.
Definition slot_hi (c : class) (i : Z) : Z := slot_lo c i + c_bufferHeaderSize + cl_capPerBuffer c.

(* ---------------------------------------------------------------------------------------------- *)
(* queues.  A queue as one side sees it: absolute byte offsets inside the queue mapping. *)
Record queue := {
  q_cap : Z;      (* q.cap *)
  q_head_at : Z;  (* address of *q.head (int64) *)
  q_tail_at : Z;  (* address of *q.tail (int64) *)
  q_flag_at : Z;  (* address of *q.workingFlag (uint32) *)
  q_lo : Z;       (* queueBytesOnMemory = mapping[q_lo : q_hi] *)
  q_hi : Z }.

(* countQueueMemSize(queueCap) — Go int arithmetic, no wrap for a uint32 cap *)
Definition queue_mem_size (cap : Z) : Z := c_queueHeaderLength + c_queueElementLen * cap.

(* the ring end as queue.go computed it before commit 97d22d3 (uint32: queueHeaderLength +
   cap*queueElementLen); kept only for the regression example in Props/C03.v *)
Definition ring_end_uint32 (cap : Z) : Z := w32 (c_queueHeaderLength + w32 (cap * c_queueElementLen)).

(* mappingQueueFromBytes(data) where data = mapping[base : base+dataLen] with capacity dataCap;
   amd64 branch.  The cap word is the cell at `base` (a uint32).  Since 97d22d3 the ring end is
   computed in int: queueHeaderLength + int(cap)*queueElementLen — no wrap on a 64-bit int for a
   uint32 cap (at most 24 + 12*(2^32-1) < 2^36). *)
Definition map_q (base dataLen dataCap : Z) (m : mem) : outcome queue :=
  if dataLen <=? 0 then Panic 21 else                         (* data[0] *)
  let cap := m base in
  let e := c_queueHeaderLength + cap * c_queueElementLen in
  if existsb (fun k => dataLen <=? k) [off_map_queue_head; off_map_queue_tail; off_map_queue_workingFlag]
  then Panic 22 else
  if (e <? c_queueHeaderLength) || (dataCap <? e) then Panic 23 else   (* data[24:e] *)
  Ok {| q_cap := cap; q_head_at := base + off_map_queue_head; q_tail_at := base + off_map_queue_tail;
        q_flag_at := base + off_map_queue_workingFlag;
        q_lo := base + c_queueHeaderLength; q_hi := base + e |}.

(* createQueueFromBytes(data, cap): store cap at data[0], map, zero head/tail/flag *)
Definition create_q (base dataLen dataCap cap : Z) (m : mem) : outcome (queue * mem) :=
  if dataLen <=? 0 then Panic 20 else
  let m1 := upd m base (w32 cap) in
  match map_q base dataLen dataCap m1 with
  | Ok q => Ok (q, upd (upd (upd m1 (q_head_at q) 0) (q_tail_at q) 0) (q_flag_at q) 0)
  | Err e => Err e
  | Panic p => Panic p
  end.

Record qmanager := { qm_send : queue; qm_recv : queue }.

(* the half of the queue mapping a queue manager hands to one of its queues, by the generated half
   index of Gen/Consts.v (the off_halves constants): 0 = mem[:total/2] (length total/2, capacity total),
   1 = mem[total/2:] (length = capacity = total - total/2).  Result: (base, len, cap). *)
Definition half_slice (total idx : Z) : Z * Z * Z :=
  if idx =? 0 then (0, total / 2, total) else (total / 2, total - total / 2, total - total / 2).

(* createQueueManager / createQueueManagerWithMemFd (the part after mmap); the struct literal evaluates
   sendQueue first.  si / ri: which half the send / receive queue is created on. *)
Definition create_qm_gen (si ri : Z) (cap : Z) (m : mem) : outcome (qmanager * Z * mem) :=
  let memSize := queue_mem_size cap * c_queueCount in
  let '(bs, ls, cs) := half_slice memSize si in
  let '(br, lr, cr) := half_slice memSize ri in
  match create_q bs ls cs cap m with
  | Ok (s, m1) =>
    match create_q br lr cr cap m1 with
    | Ok (r, m2) => Ok ({| qm_send := s; qm_recv := r |}, memSize, m2)
    | Err e => Err e
    | Panic p => Panic p
    end
  | Err e => Err e
  | Panic p => Panic p
  end.

(* mappingQueueManager / mappingQueueManagerMemfd *)
Definition map_qm_gen (si ri : Z) (mappingSize : Z) (m : mem) : outcome qmanager :=
  let '(bs, ls, cs) := half_slice mappingSize si in
  let '(br, lr, cr) := half_slice mappingSize ri in
  match map_q bs ls cs m with
  | Ok s =>
    match map_q br lr cr m with
    | Ok r => Ok {| qm_send := s; qm_recv := r |}
    | Err e => Err e
    | Panic p => Panic p
    end
  | Err e => Err e
  | Panic p => Panic p
  end.

(* the four functions of queue.go, each with the halves the CURRENT source gives its two queues *)
Definition create_qm := create_qm_gen off_halves_createQueueManager_sendQueue off_halves_createQueueManager_recvQueue.
Definition create_qm_memfd :=
  create_qm_gen off_halves_createQueueManagerWithMemFd_sendQueue off_halves_createQueueManagerWithMemFd_recvQueue.
Definition map_qm := map_qm_gen off_halves_mappingQueueManager_sendQueue off_halves_mappingQueueManager_recvQueue.
Definition map_qm_memfd :=
  map_qm_gen off_halves_mappingQueueManagerMemfd_sendQueue off_halves_mappingQueueManagerMemfd_recvQueue.
